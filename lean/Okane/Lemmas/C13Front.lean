import Okane.Props.C11
import Okane.Lemmas.CmdTextEq
/-!
# C13 in front of `process`: the loader and the parser (commands as functions of FILE CONTENTS)

`Props/C13.lean` (section CommandText) proves that the text of `okane balance / register / accounts / balance -X / primitive
eval` is the same for every layout history of every hash map **from the entry list on**.  Here the entry list is what the loader
model (`Model/Load.lean`: `Loader::load`, includes, globs) delivers when every file is parsed by the parser model
(`Model/Parse.lean`, through `Load.parseFS` of `Lemmas/C11TextLoad.lean`), so the commands become functions of

* a file system of TEXTS `T : Load.TextFS`, the recursion fuel of the loader and the root path,
* the text of the price db (`report::process` reads it with `std::fs::read_to_string`, not through the loader's file system),
* the flags of the command.

## the order parameters in front of `process`

* The parser model has none (`parsedOf` is a function of the text).
* The loader model has exactly one: the order in which `FileSystem::glob` enumerates the matches of an `include` (the trait says
  "paths can be in arbitrary order"; `FakeFileSystem::glob` iterates a `HashMap`, `ProdFileSystem::glob` a directory).
  `Loader::load_impl` sorts them (`paths.sort_unstable()`, `C11_order`): `sortPaths_perm_eq` — the sorted list is the same for
  every enumeration order, because `Ord for PathBuf` is a total order (`pathLe_antisymm`) — hence `loadFile_glob_order`,
  `load_reorderGlob`: the loader delivers the same entries, tagged with the same files, and ends the same way, for every
  enumeration order `σ` of every glob (`GlobOrder σ`).

## the composition with book-keeping (`report::process`, `report::accounts`)

`loader.load(|path, pctx, entry| accum.process(ctx, entry).map_err(..))?` — the callback runs book-keeping entry by entry; its
first failure ends the load with that error (the rest of the files is never looked at); otherwise the loader's own error (IO,
parse error, recursive include, glob) is returned — after the entries in front of it were processed.  `gate L idx fin x`:
`x` = how book-keeping of the delivered entries ended; a book-keeping failure / crash wins, then the loader's status, then the
rest of the command (`fin`: price db, query, printing).  A book-keeping error is tagged with the file of the offending entry
(the `path` the callback hands to `ErrorContext::new`).

## theorems

`balanceFile_det`, `registerFile_det`, `balanceXFile_det`, `evalFile_det`, `accountsFile_det`: for every `T`, fuel, root, price-db
text and flags, and for any two choices of (glob enumeration order, layout history per entry, layout history per posting) the
command returns the same result; `…_run`: and that result is the one computed without any order (`CmdText.run / runX / runEval`
on the delivered entries, behind `gate`).  Restated with `Layouts` in `Props/C13.lean` (`C13_balance_file`, …).
-/
set_option linter.unusedSectionVars false
set_option linter.unusedSimpArgs false
namespace Okane.C13Front
open Okane Okane.Load Okane.CmdText Okane.C13

/-! ## `Ord for PathBuf` is a total order: sorting forgets the enumeration order -/

theorem pathLe_antisymm : ∀ p q : Path, pathLe p q = true → pathLe q p = true → p = q := by
  intro p
  induction p with
  | nil => intro q _ h2; cases q with
    | nil => rfl
    | cons b bs => simp [pathLe] at h2
  | cons a as ih =>
    intro q h1 h2
    cases q with
    | nil => simp [pathLe] at h1
    | cons b bs =>
      simp only [pathLe] at h1 h2
      by_cases hab : compLt a b = true
      · have hba := compLt_asymm hab
        simp [hab, hba] at h2
      · by_cases hba : compLt b a = true
        · simp [hab, hba] at h1
        · have he := compLt_total (by simpa using hab) (by simpa using hba)
          subst he
          simp only [hab, if_false, Bool.false_eq_true] at h1 h2
          rw [ih bs h1 h2]

/-- **`paths.sort_unstable()` forgets the order `glob` enumerated the matches in.** -/
theorem sortPaths_perm_eq {ps ps' : List Path} (h : ps.Perm ps') : sortPaths ps = sortPaths ps' := by
  have s1 := (C11_order_sorted ps).1
  have s2 := (C11_order_sorted ps').1
  refine List.Perm.eq_of_pairwise (le := fun a b => pathLe a b = true) ?_ s1 s2
    ((sortPaths_perm ps).trans (h.trans (sortPaths_perm ps').symm))
  intro a b _ _ hab hba
  exact pathLe_antisymm a b hab hba

/-! ## the loader does not depend on the enumeration order of `glob` -/

/-- the answers of two `glob`s to one pattern: the same error, or the same matches in another order -/
def GlobSame (x y : Outcome LoadErr (List Path)) : Prop := ORel (· = ·) List.Perm x y

/-- two file systems that differ only in the order in which `glob` enumerates its matches -/
structure GlobReorder (fs fs' : FSI) : Prop where
  canon : ∀ p, fs.canon p = fs'.canon p
  read : ∀ p, fs.read p = fs'.read p
  glob : ∀ pat, GlobSame (fs.glob pat) (fs'.glob pat)

theorem loadInclude_glob_order {fs fs' : FSI} (h : GlobReorder fs fs') (rec : Path → LoadRes) (cp : Path) (g : String) :
    loadInclude fs rec cp g = loadInclude fs' rec cp g := by
  unfold loadInclude
  cases parent cp with
  | none => rfl
  | some dir =>
    have hg := h.glob (joinStr dir g)
    simp only
    unfold GlobSame at hg
    cases h1 : fs.glob (joinStr dir g) <;> cases h2 : fs'.glob (joinStr dir g) <;> rw [h1, h2] at hg <;>
      simp only [ORel] at hg
    · rename_i ps ps'
      have he : ps.isEmpty = ps'.isEmpty := by
        cases ps <;> cases ps' <;> simp_all
      simp only [he, sortPaths_perm_eq hg]
    · subst hg; rfl
    · subst hg; rfl

theorem loadEntriesWith_glob_order {fs fs' : FSI} (h : GlobReorder fs fs') (rec : Path → LoadRes) (cp : Path) :
    ∀ es : List Entry, loadEntriesWith fs rec cp es = loadEntriesWith fs' rec cp es := by
  intro es
  induction es with
  | nil => rfl
  | cons e rest ih =>
    cases e <;> simp only [loadEntriesWith, ih, loadInclude_glob_order h]

/-- **the loader model has one order parameter — the enumeration order of `glob` — and its result does not depend on it**:
same callback sequence (entries tagged by file), same status. -/
theorem loadFile_glob_order {fs fs' : FSI} (h : GlobReorder fs fs') :
    ∀ (n : Nat) (stack : List Path) (p : Path), loadFile fs n stack p = loadFile fs' n stack p := by
  intro n
  induction n with
  | zero => intro _ _; rfl
  | succ n ih =>
    intro stack p
    have hrec : (fun q => loadFile fs n (fs.canon p :: stack) q) = fun q => loadFile fs' n (fs'.canon p :: stack) q := by
      funext q; rw [ih, h.canon]
    simp only [loadFile, ← h.canon, ← h.read]
    rw [h.canon p] at hrec ⊢
    simp only [← h.canon] at hrec ⊢
    split
    · rfl
    · cases fs.read (fs.canon p) with
      | ok content => simp only [hrec, loadEntriesWith_glob_order h]
      | err k => rfl
      | panic s => rfl
      | fuelOut => rfl

/-- an enumeration order: for every pattern, a way of listing the matches (`σ pat` may be any permutation of them) -/
def GlobOrder (σ : String → List Path → List Path) : Prop := ∀ pat ps, (σ pat ps).Perm ps

/-- the file system whose `glob` enumerates in the order `σ` -/
def reorderGlob (σ : String → List Path → List Path) (fs : FSI) : FSI :=
  { fs with glob := fun pat => (fs.glob pat).map' (σ pat) }

theorem globReorder_reorderGlob {σ : String → List Path → List Path} (hσ : GlobOrder σ) (fs : FSI) :
    GlobReorder fs (reorderGlob σ fs) := by
  refine ⟨fun _ => rfl, fun _ => rfl, fun pat => ?_⟩
  show GlobSame (fs.glob pat) ((fs.glob pat).map' (σ pat))
  unfold GlobSame
  cases fs.glob pat <;> simp [Outcome.map', ORel]
  exact (hσ pat _).symm

/-- **`Loader::load` under every enumeration order of every glob.** -/
theorem load_reorderGlob {σ : String → List Path → List Path} (hσ : GlobOrder σ) (fs : FSI) (fuel : Nat) (root : Path) :
    load (reorderGlob σ fs) fuel root = load fs fuel root :=
  (loadFile_glob_order (globReorder_reorderGlob hσ fs) fuel [] root).symm

theorem globOrder_id : GlobOrder (fun _ ps => ps) := fun _ _ => List.Perm.refl _
theorem globOrder_rev : GlobOrder (fun _ ps => ps.reverse) := fun _ ps => List.reverse_perm ps

/-- the same on file systems of texts -/
def reorderGlobT (σ : String → List Path → List Path) (T : TextFS) : TextFS :=
  { T with glob := fun pat => (T.glob pat).map' (σ pat) }

theorem parseFS_reorderGlobT (σ : String → List Path → List Path) (T : TextFS) :
    parseFS (reorderGlobT σ T) = reorderGlob σ (parseFS T) := rfl

/-- **loader + parser, from file contents**: what is delivered and how the load ends is a function of the texts, the fuel and
the root path alone. -/
theorem load_text_glob_order {σ : String → List Path → List Path} (hσ : GlobOrder σ) (T : TextFS) (fuel : Nat) (root : Path) :
    load (parseFS (reorderGlobT σ T)) fuel root = load (parseFS T) fuel root := by
  rw [parseFS_reorderGlobT, load_reorderGlob hσ]

/-! ## the recursion fuel of the loader model is not an input either: once it suffices, more changes nothing -/

/-- generic step: a continuation that agrees with `rec` wherever `rec` does not run out of fuel -/
theorem andThen_congr_fuel {a : LoadRes} {b b' : Unit → LoadRes} (h : (a.andThen b).status ≠ .fuelOut)
    (hb : (b ()).status ≠ .fuelOut → b' () = b ()) : a.andThen b' = a.andThen b := by
  by_cases ha : a.status = .ok ()
  · have h1 := andThen_delivered_of_ok a b ha
    have hb' := hb (by rw [← h1.2]; exact h)
    unfold LoadRes.andThen
    simp only [ha, hb']
  · rw [andThen_of_not_ok a b ha, andThen_of_not_ok a b' ha]

theorem loadListWith_fuel {rec rec' : Path → LoadRes} (hrec : ∀ q, (rec q).status ≠ .fuelOut → rec' q = rec q) :
    ∀ qs, (loadListWith rec qs).status ≠ .fuelOut → loadListWith rec' qs = loadListWith rec qs := by
  intro qs
  induction qs with
  | nil => intro _; rfl
  | cons q qs ih =>
    intro h
    simp only [loadListWith] at h ⊢
    have hq : (rec q).status ≠ .fuelOut := by
      intro hc
      have : (rec q).status ≠ .ok () := by rw [hc]; intro h'; cases h'
      rw [andThen_of_not_ok _ _ this] at h
      exact h hc
    rw [hrec q hq]
    exact andThen_congr_fuel h ih

theorem loadInclude_fuel (fs : FSI) {rec rec' : Path → LoadRes} (hrec : ∀ q, (rec q).status ≠ .fuelOut → rec' q = rec q)
    (cp : Path) (g : String) (h : (loadInclude fs rec cp g).status ≠ .fuelOut) :
    loadInclude fs rec' cp g = loadInclude fs rec cp g := by
  unfold loadInclude at h ⊢
  revert h
  cases parent cp with
  | none => intro _; rfl
  | some dir =>
    intro h
    simp only at h ⊢
    cases hg : fs.glob (joinStr dir g) with
    | ok paths =>
      rw [hg] at h
      simp only at h ⊢
      by_cases he : paths.isEmpty = true
      · simp only [he, if_true]
      · simp only [he, if_false, Bool.false_eq_true] at h ⊢
        exact loadListWith_fuel hrec _ h
    | err e => rfl
    | panic s => rfl
    | fuelOut => rfl

theorem loadEntriesWith_fuel (fs : FSI) {rec rec' : Path → LoadRes}
    (hrec : ∀ q, (rec q).status ≠ .fuelOut → rec' q = rec q) (cp : Path) :
    ∀ es, (loadEntriesWith fs rec cp es).status ≠ .fuelOut → loadEntriesWith fs rec' cp es = loadEntriesWith fs rec cp es := by
  intro es
  induction es with
  | nil => intro _; rfl
  | cons e rest ih =>
    intro h
    cases e with
    | «include» g =>
      simp only [loadEntriesWith] at h ⊢
      have hi : (loadInclude fs rec cp g).status ≠ .fuelOut := by
        intro hc
        have : (loadInclude fs rec cp g).status ≠ .ok () := by rw [hc]; intro h'; cases h'
        rw [andThen_of_not_ok _ _ this] at h
        exact h hc
      rw [loadInclude_fuel fs hrec cp g hi]
      exact andThen_congr_fuel h ih
    | _ =>
      simp only [loadEntriesWith] at h ⊢
      rw [ih h]

/-- **more fuel changes nothing once the load does not run out of it** -/
theorem loadFile_fuel (fs : FSI) : ∀ (n m : Nat) (stack : List Path) (p : Path), n ≤ m →
    (loadFile fs n stack p).status ≠ .fuelOut → loadFile fs m stack p = loadFile fs n stack p := by
  intro n
  induction n with
  | zero => intro m stack p _ h; exact absurd rfl h
  | succ n ih =>
    intro m stack p hnm h
    obtain ⟨m', rfl⟩ : ∃ m', m = m' + 1 := ⟨m - 1, by omega⟩
    have hrec : ∀ q, (loadFile fs n (fs.canon p :: stack) q).status ≠ .fuelOut →
        loadFile fs m' (fs.canon p :: stack) q = loadFile fs n (fs.canon p :: stack) q :=
      fun q hq => ih m' _ q (by omega) hq
    simp only [loadFile] at h ⊢
    split
    · rfl
    · rename_i hs
      simp only [hs, if_false] at h
      cases hr : fs.read (fs.canon p) with
      | ok content =>
        rw [hr] at h
        simp only at h ⊢
        have hl : (loadEntriesWith fs (fun q => loadFile fs n (fs.canon p :: stack) q) (fs.canon p) content.entries).status ≠
            .fuelOut := by
          intro hc
          have : (loadEntriesWith fs (fun q => loadFile fs n (fs.canon p :: stack) q) (fs.canon p) content.entries).status ≠
              .ok () := by rw [hc]; intro h'; cases h'
          rw [andThen_of_not_ok _ _ this] at h
          exact h hc
        rw [loadEntriesWith_fuel fs hrec (fs.canon p) content.entries hl]
      | err k => rfl
      | panic s => rfl
      | fuelOut => rfl

theorem load_fuel (fs : FSI) {n m : Nat} (hnm : n ≤ m) (root : Path) (h : (load fs n root).status ≠ .fuelOut) :
    load fs m root = load fs n root := loadFile_fuel fs n m [] root hnm h

/-! ## the command behind the loader -/

/-- how a command that reads its ledger through the loader fails: in the loader (`failed to load`: IO, parse error, recursive
include, glob), or in the command itself — for a book-keeping error together with the file of the offending entry. -/
inductive FileErr (ε : Type) where
  | load (e : LoadErr)
  | cmd (file : Option Path) (e : ε)
  deriving Repr, Inhabited, DecidableEq

/-- the file the `i`-th callback came from (the `path` argument of the callback) -/
def fileOf (L : LoadRes) (i : Nat) : Option Path := L.delivered[i]?.map Prod.fst

/-- **`loader.load(|path, pctx, entry| accum.process(ctx, entry).map_err(..))?` followed by the rest of the command.**
`x`: how book-keeping of the delivered entries ended; `fin`: the command from there on (`finish`, `xFinish`, `evalFinish`);
`idx`: the entry index a failure of the command carries when it is a book-keeping error.  Book-keeping stops the load at its first
failure (or crash), so that failure wins; otherwise the loader's own status decides; only after a successful load does the rest of
the command (price db, query, printing) run. -/
def gate {ε β : Type} (L : LoadRes) (idx : ε → Option Nat) (fin : Outcome (Nat × BkErrS) ProcState → Outcome ε β)
    (x : Outcome (Nat × BkErrS) ProcState) : Outcome (FileErr ε) β :=
  match x, L.status with
  | .ok _, .err e => .err (.load e)
  | .ok _, .panic s => .panic s
  | .ok _, .fuelOut => .fuelOut
  | x, _ => (fin x).mapErr fun e => .cmd ((idx e).bind (fileOf L)) e

/-- after a successful load the command is `fin` -/
theorem gate_ok {ε β : Type} {L : LoadRes} (h : L.status = .ok ()) (idx : ε → Option Nat)
    (fin : Outcome (Nat × BkErrS) ProcState → Outcome ε β) (x : Outcome (Nat × BkErrS) ProcState) :
    gate L idx fin x = (fin x).mapErr fun e => .cmd ((idx e).bind (fileOf L)) e := by
  unfold gate
  cases x <;> simp [h]

/-- a loader error is reported when (and only when) book-keeping got through the entries in front of it -/
theorem gate_load_err {ε β : Type} {L : LoadRes} {e : LoadErr} (h : L.status = .err e) (idx : ε → Option Nat)
    (fin : Outcome (Nat × BkErrS) ProcState → Outcome ε β) (st : ProcState) :
    gate L idx fin (.ok st) = .err (.load e) := by
  simp [gate, h]

theorem gate_rel {ε β : Type} (L : LoadRes) (idx : ε → Option Nat) {fin : Outcome (Nat × BkErrS) ProcState → Outcome ε β}
    (hfin : ∀ x y, ORel PErrEq ProcEq x y → fin x = fin y) {x y : Outcome (Nat × BkErrS) ProcState}
    (h : ORel PErrEq ProcEq x y) : gate L idx fin x = gate L idx fin y := by
  have hf := hfin x y h
  cases x <;> cases y <;> simp only [ORel] at h <;> try exact h.elim
  · unfold gate
    cases L.status <;> simp only [hf]
  · unfold gate; simp only [hf]
  · unfold gate; simp only [hf]
  · unfold gate; simp only [hf]

/-- what the loader delivers from the TEXTS when every glob enumerates its matches in the order `σ` -/
def loadText (σ : String → List Path → List Path) (T : TextFS) (fuel : Nat) (root : Path) : LoadRes :=
  load (parseFS (reorderGlobT σ T)) fuel root

section Book
variable {ε : Type} {σ σ₁ σ₂ : String → List Path → List Path}
  {π π₁ π₂ : Nat → ProcState → ProcState} {ρ ρ₁ ρ₂ : Nat → Nat → LoopSt → LoopSt}

/-- **a command that runs book-keeping behind the loader, from file contents**, when globs enumerate in the order `σ` and every
hash map of book-keeping is laid out afresh after every entry (`π`) and every posting (`ρ`). -/
def bookFile (idx : ε → Option Nat) (fin : Outcome (Nat × BkErrS) ProcState → Outcome ε String)
    (σ : String → List Path → List Path) (π : Nat → ProcState → ProcState) (ρ : Nat → Nat → LoopSt → LoopSt)
    (T : TextFS) (fuel : Nat) (root : Path) : Outcome (FileErr ε) String :=
  gate (loadText σ T fuel root) idx fin (processScr2 π ρ {} 0 (untag (loadText σ T fuel root).delivered))

/-- the same command without any order: the loader as it is, `process` as it is -/
def bookFileRun (idx : ε → Option Nat) (fin : Outcome (Nat × BkErrS) ProcState → Outcome ε String)
    (T : TextFS) (fuel : Nat) (root : Path) : Outcome (FileErr ε) String :=
  gate (load (parseFS T) fuel root) idx fin (process (untag (load (parseFS T) fuel root).delivered))

/-- **from file contents, every such command is deterministic**: for any two enumeration orders of the globs and any two layout
histories of the hash maps of book-keeping the result is the same. -/
theorem bookFile_det (idx : ε → Option Nat) {fin : Outcome (Nat × BkErrS) ProcState → Outcome ε String}
    (hfin : ∀ x y, ORel PErrEq ProcEq x y → fin x = fin y) (s1 : GlobOrder σ₁) (s2 : GlobOrder σ₂)
    (h1 : Relayout π₁) (h2 : Relayout π₂) (g1 : ∀ i, Relayout2 (ρ₁ i)) (g2 : ∀ i, Relayout2 (ρ₂ i))
    (T : TextFS) (fuel : Nat) (root : Path) :
    bookFile idx fin σ₁ π₁ ρ₁ T fuel root = bookFile idx fin σ₂ π₂ ρ₂ T fuel root := by
  unfold bookFile loadText
  rw [load_text_glob_order s1, load_text_glob_order s2]
  exact gate_rel _ idx hfin (processScr2_meq h1 h2 g1 g2 _ ProcEq.init 0)

/-- … and it is the command without orders: a function of the texts, the fuel, the root path (and whatever `fin` holds) alone -/
theorem bookFile_run (idx : ε → Option Nat) {fin : Outcome (Nat × BkErrS) ProcState → Outcome ε String}
    (hfin : ∀ x y, ORel PErrEq ProcEq x y → fin x = fin y) (s : GlobOrder σ) (h : Relayout π) (g : ∀ i, Relayout2 (ρ i))
    (T : TextFS) (fuel : Nat) (root : Path) :
    bookFile idx fin σ π ρ T fuel root = bookFileRun idx fin T fuel root := by
  rw [bookFile_det idx hfin s globOrder_id h relayout_id g (fun _ => relayout2_id) T fuel root]
  unfold bookFile bookFileRun loadText process
  rw [load_text_glob_order globOrder_id, processScr2_id]

/-- the recursion fuel of the loader model is not an input of the command: once the load does not run out of it, every larger
fuel gives the same result -/
theorem bookFileRun_fuel (idx : ε → Option Nat) (fin : Outcome (Nat × BkErrS) ProcState → Outcome ε String) (T : TextFS)
    {n m : Nat} (hnm : n ≤ m) (root : Path) (h : (load (parseFS T) n root).status ≠ .fuelOut) :
    bookFileRun idx fin T m root = bookFileRun idx fin T n root := by
  unfold bookFileRun
  rw [load_fuel _ hnm root h]

theorem finish_rel {lines : ProcState → List String} (hl : ∀ st st', st ≈ₚ st' → lines st = lines st')
    (x y : Outcome (Nat × BkErrS) ProcState) (h : ORel PErrEq ProcEq x y) : finish lines x = finish lines y := by
  rw [finish_eq, finish_eq, cmdText_eq (fun _ _ he => bkErrMsg_meq he) hl h]

end Book

/-! ## the commands -/
section Commands
open Okane.Price Okane.Query
variable {σ σ₁ σ₂ : String → List Path → List Path}
  {π π₁ π₂ : Nat → ProcState → ProcState} {ρ ρ₁ ρ₂ : Nat → Nat → LoopSt → LoopSt}

/-- the entry index of a failure of `balance` / `register` (always a book-keeping error) -/
def bookIndex (e : Nat × String) : Option Nat := some e.1

/-- **`okane balance [--start ..] [--end ..] ROOT`** from file contents -/
def balanceFile (r : DateRange) (σ : String → List Path → List Path) (π : Nat → ProcState → ProcState)
    (ρ : Nat → Nat → LoopSt → LoopSt) (T : TextFS) (fuel : Nat) (root : Path) : Outcome (FileErr (Nat × String)) String :=
  bookFile bookIndex (finish (CmdText.balanceLines r)) σ π ρ T fuel root

/-- **`okane register [ACCOUNT] ROOT`** from file contents -/
def registerFile (acct : Option String) (σ : String → List Path → List Path) (π : Nat → ProcState → ProcState)
    (ρ : Nat → Nat → LoopSt → LoopSt) (T : TextFS) (fuel : Nat) (root : Path) : Outcome (FileErr (Nat × String)) String :=
  bookFile bookIndex (finish (CmdText.registerLines acct)) σ π ρ T fuel root

/-- **`okane balance -X C --now D [--historical] [--start ..] [--end ..] [--price-db F] ROOT`** from file contents;
`dbText` = the content of `F`. -/
def balanceXFile (cfg : Cfg String) (dbText : Option (List Char)) (o : XOpts) (σ : String → List Path → List Path)
    (π : Nat → ProcState → ProcState) (ρ : Nat → Nat → LoopSt → LoopSt) (T : TextFS) (fuel : Nat) (root : Path) :
    Outcome (FileErr Fail) String :=
  bookFile failIndex (xFinish cfg dbText o) σ π ρ T fuel root

/-- **`okane primitive eval --date D [-X C] [--price-db F] -f ROOT EXPR`** from file contents (`expr = none`: the expression
does not parse). -/
def evalFile (cfg : Cfg String) (dbText : Option (List Char)) (expr : Option VExpr) (date : Date) (exchange : Option String)
    (σ : String → List Path → List Path) (π : Nat → ProcState → ProcState) (ρ : Nat → Nat → LoopSt → LoopSt)
    (T : TextFS) (fuel : Nat) (root : Path) : Outcome (FileErr Fail) String :=
  bookFile failIndex (evalFinish cfg dbText expr date exchange) σ π ρ T fuel root

/-- **`okane accounts ROOT`** from file contents (`report::accounts`: the callback interns the account of every posting and never
fails; `τ` = the layout history of the intern store). -/
def accountsFile (σ : String → List Path → List Path) (τ : Nat → Store → Store) (T : TextFS) (fuel : Nat) (root : Path) :
    Outcome (FileErr (Nat × String)) String :=
  match (loadText σ T fuel root).status with
  | .ok () => .ok (unlines (accountsScanCmd leS τ (untag (loadText σ T fuel root).delivered)))
  | .err e => .err (.load e)
  | .panic s => .panic s
  | .fuelOut => .fuelOut

/-- the same without orders -/
def accountsFileRun (T : TextFS) (fuel : Nat) (root : Path) : Outcome (FileErr (Nat × String)) String :=
  match (load (parseFS T) fuel root).status with
  | .ok () => (CmdText.run .accounts (untag (load (parseFS T) fuel root).delivered)).mapErr fun e => .cmd none e
  | .err e => .err (.load e)
  | .panic s => .panic s
  | .fuelOut => .fuelOut

theorem balanceFile_det (r : DateRange) (s1 : GlobOrder σ₁) (s2 : GlobOrder σ₂) (h1 : Relayout π₁) (h2 : Relayout π₂)
    (g1 : ∀ i, Relayout2 (ρ₁ i)) (g2 : ∀ i, Relayout2 (ρ₂ i)) (T : TextFS) (fuel : Nat) (root : Path) :
    balanceFile r σ₁ π₁ ρ₁ T fuel root = balanceFile r σ₂ π₂ ρ₂ T fuel root :=
  bookFile_det bookIndex (finish_rel (balanceLinesT_meq r)) s1 s2 h1 h2 g1 g2 T fuel root

theorem balanceFile_run (r : DateRange) (s : GlobOrder σ) (h : Relayout π) (g : ∀ i, Relayout2 (ρ i))
    (T : TextFS) (fuel : Nat) (root : Path) :
    balanceFile r σ π ρ T fuel root = bookFileRun bookIndex (finish (CmdText.balanceLines r)) T fuel root :=
  bookFile_run bookIndex (finish_rel (balanceLinesT_meq r)) s h g T fuel root

theorem registerFile_det (acct : Option String) (s1 : GlobOrder σ₁) (s2 : GlobOrder σ₂) (h1 : Relayout π₁) (h2 : Relayout π₂)
    (g1 : ∀ i, Relayout2 (ρ₁ i)) (g2 : ∀ i, Relayout2 (ρ₂ i)) (T : TextFS) (fuel : Nat) (root : Path) :
    registerFile acct σ₁ π₁ ρ₁ T fuel root = registerFile acct σ₂ π₂ ρ₂ T fuel root :=
  bookFile_det bookIndex (finish_rel (registerLinesT_meq acct)) s1 s2 h1 h2 g1 g2 T fuel root

theorem registerFile_run (acct : Option String) (s : GlobOrder σ) (h : Relayout π) (g : ∀ i, Relayout2 (ρ i))
    (T : TextFS) (fuel : Nat) (root : Path) :
    registerFile acct σ π ρ T fuel root = bookFileRun bookIndex (finish (CmdText.registerLines acct)) T fuel root :=
  bookFile_run bookIndex (finish_rel (registerLinesT_meq acct)) s h g T fuel root

theorem balanceXFile_det {cfg : Cfg String} (hord : OrdOK cfg.ord) (dbText : Option (List Char)) (o : XOpts)
    (s1 : GlobOrder σ₁) (s2 : GlobOrder σ₂) (h1 : Relayout π₁) (h2 : Relayout π₂)
    (g1 : ∀ i, Relayout2 (ρ₁ i)) (g2 : ∀ i, Relayout2 (ρ₂ i)) (T : TextFS) (fuel : Nat) (root : Path) :
    balanceXFile cfg dbText o σ₁ π₁ ρ₁ T fuel root = balanceXFile cfg dbText o σ₂ π₂ ρ₂ T fuel root :=
  bookFile_det failIndex (fun _ _ h => xFinish_eq hord dbText o h) s1 s2 h1 h2 g1 g2 T fuel root

theorem balanceXFile_run {cfg : Cfg String} (hord : OrdOK cfg.ord) (dbText : Option (List Char)) (o : XOpts)
    (s : GlobOrder σ) (h : Relayout π) (g : ∀ i, Relayout2 (ρ i)) (T : TextFS) (fuel : Nat) (root : Path) :
    balanceXFile cfg dbText o σ π ρ T fuel root = bookFileRun failIndex (xFinish cfg dbText o) T fuel root :=
  bookFile_run failIndex (fun _ _ h => xFinish_eq hord dbText o h) s h g T fuel root

theorem evalFile_det {cfg : Cfg String} (hord : OrdOK cfg.ord) (dbText : Option (List Char)) (expr : Option VExpr)
    (date : Date) (exchange : Option String) (s1 : GlobOrder σ₁) (s2 : GlobOrder σ₂) (h1 : Relayout π₁) (h2 : Relayout π₂)
    (g1 : ∀ i, Relayout2 (ρ₁ i)) (g2 : ∀ i, Relayout2 (ρ₂ i)) (T : TextFS) (fuel : Nat) (root : Path) :
    evalFile cfg dbText expr date exchange σ₁ π₁ ρ₁ T fuel root = evalFile cfg dbText expr date exchange σ₂ π₂ ρ₂ T fuel root :=
  bookFile_det failIndex (fun _ _ h => evalFinish_eq hord dbText expr date exchange h) s1 s2 h1 h2 g1 g2 T fuel root

theorem evalFile_run {cfg : Cfg String} (hord : OrdOK cfg.ord) (dbText : Option (List Char)) (expr : Option VExpr)
    (date : Date) (exchange : Option String) (s : GlobOrder σ) (h : Relayout π) (g : ∀ i, Relayout2 (ρ i))
    (T : TextFS) (fuel : Nat) (root : Path) :
    evalFile cfg dbText expr date exchange σ π ρ T fuel root =
      bookFileRun failIndex (evalFinish cfg dbText expr date exchange) T fuel root :=
  bookFile_run failIndex (fun _ _ h => evalFinish_eq hord dbText expr date exchange h) s h g T fuel root

theorem accountsFile_run {τ : Nat → Store → Store} (s : GlobOrder σ) (t : StoreRelayout τ) (T : TextFS) (fuel : Nat)
    (root : Path) : accountsFile σ τ T fuel root = accountsFileRun T fuel root := by
  unfold accountsFile accountsFileRun loadText
  rw [load_text_glob_order s]
  cases (load (parseFS T) fuel root).status with
  | ok u => simp only [run_accounts_layouts t, Outcome.mapErr]
  | err e => rfl
  | panic s => rfl
  | fuelOut => rfl

theorem accountsFileRun_fuel (T : TextFS) {n m : Nat} (hnm : n ≤ m) (root : Path)
    (h : (load (parseFS T) n root).status ≠ .fuelOut) : accountsFileRun T m root = accountsFileRun T n root := by
  unfold accountsFileRun
  rw [load_fuel _ hnm root h]

theorem accountsFile_det {τ₁ τ₂ : Nat → Store → Store} (s1 : GlobOrder σ₁) (s2 : GlobOrder σ₂) (t1 : StoreRelayout τ₁)
    (t2 : StoreRelayout τ₂) (T : TextFS) (fuel : Nat) (root : Path) :
    accountsFile σ₁ τ₁ T fuel root = accountsFile σ₂ τ₂ T fuel root := by
  rw [accountsFile_run s1 t1, accountsFile_run s2 t2]

/-- after a successful load the file-level commands are `CmdText.run` / `runX` / `runEval` on the delivered entries -/
theorem bookFileRun_ok_balance (r : DateRange) (T : TextFS) (fuel : Nat) (root : Path)
    (h : (load (parseFS T) fuel root).status = .ok ()) :
    bookFileRun bookIndex (finish (CmdText.balanceLines r)) T fuel root =
      (CmdText.run (.balance r) (untag (load (parseFS T) fuel root).delivered)).mapErr
        fun e => .cmd (fileOf (load (parseFS T) fuel root) e.1) e := by
  unfold bookFileRun
  rw [gate_ok h]
  rfl

theorem bookFileRun_ok_register (acct : Option String) (T : TextFS) (fuel : Nat) (root : Path)
    (h : (load (parseFS T) fuel root).status = .ok ()) :
    bookFileRun bookIndex (finish (CmdText.registerLines acct)) T fuel root =
      (CmdText.run (.register acct) (untag (load (parseFS T) fuel root).delivered)).mapErr
        fun e => .cmd (fileOf (load (parseFS T) fuel root) e.1) e := by
  unfold bookFileRun
  rw [gate_ok h]
  rfl

theorem bookFileRun_ok_balanceX (cfg : Cfg String) (dbText : Option (List Char)) (o : XOpts) (T : TextFS) (fuel : Nat)
    (root : Path) (h : (load (parseFS T) fuel root).status = .ok ()) :
    bookFileRun failIndex (xFinish cfg dbText o) T fuel root =
      (CmdText.runX cfg dbText o (untag (load (parseFS T) fuel root).delivered)).mapErr
        fun e => .cmd ((failIndex e).bind (fileOf (load (parseFS T) fuel root))) e := by
  unfold bookFileRun
  rw [gate_ok h]
  rfl

theorem bookFileRun_ok_eval (cfg : Cfg String) (dbText : Option (List Char)) (expr : Option VExpr) (date : Date)
    (exchange : Option String) (T : TextFS) (fuel : Nat) (root : Path) (h : (load (parseFS T) fuel root).status = .ok ()) :
    bookFileRun failIndex (evalFinish cfg dbText expr date exchange) T fuel root =
      (CmdText.runEval cfg dbText expr date exchange (untag (load (parseFS T) fuel root).delivered)).mapErr
        fun e => .cmd ((failIndex e).bind (fileOf (load (parseFS T) fuel root))) e := by
  unfold bookFileRun
  rw [gate_ok h]
  rfl

end Commands

/-! ## non-vacuity: a ledger in three files — an include with a glob, an alias declared in an included file and used in the root

`/r/main.ledger` declares a commodity, includes `sub/*.ledger`, and posts to the alias `Cash`; `/r/sub/a.ledger` declares
`Assets:Cash` with that alias and opens it with two commodities; `/r/sub/b.ledger` spends from `Cash`.  The file system's glob
answers `[b, a]`; the orders compared: (that enumeration, no re-layout) against (the reversed enumeration, every hash map of
book-keeping reversed after every entry and every posting). -/
section Examples
open Okane.Price Okane.Query

def fMain : Path := [.root, .normal "r", .normal "main.ledger"]
def fA : Path := [.root, .normal "r", .normal "sub", .normal "a.ledger"]
def fB : Path := [.root, .normal "r", .normal "sub", .normal "b.ledger"]
def tMain : List Char :=
  "commodity USD\n format 1,000.00 USD\n\ninclude sub/*.ledger\n\n2024/01/03 x\n Cash  -1 USD\n Expenses:Misc\n".toList
def tA : List Char :=
  "account Assets:Cash\n alias Cash\n\n2024/01/01 open\n Cash  100 USD\n Cash  200 EUR\n Equity:Opening\n\n".toList
def tB : List Char := "2024/01/02 shop\n Expenses:Food  10 USD\n Cash  -10 USD\n\n".toList

def exT : TextFS where
  canon := canonFake
  text p := if p = fMain then some tMain else if p = fA then some tA else if p = fB then some tB else none
  glob s := if s = "/r/sub/*.ledger" then .ok [fB, fA] else .ok []

/-- the other enumeration order -/
def σrev : String → List Path → List Path := fun _ ps => ps.reverse

set_option maxRecDepth 100000

/-- the two file systems really enumerate the matches differently … -/
example : (reorderGlobT σrev exT).glob "/r/sub/*.ledger" = .ok [fA, fB] ∧ exT.glob "/r/sub/*.ledger" = .ok [fB, fA] := by
  decide +kernel

/-- … and deliver the same five entries from the same files, `a` before `b` -/
example : (loadText σrev exT 2 fMain).delivered.map (·.1) = [fMain, fA, fA, fB, fMain] ∧
    (loadText σrev exT 2 fMain).status = .ok () ∧ (load (parseFS exT) 2 fMain).status = .ok () := by decide +kernel

example : load (parseFS (reorderGlobT σrev exT)) 2 fMain = load (parseFS exT) 2 fMain :=
  load_text_glob_order globOrder_rev exT 2 fMain

/-- book-keeping accepts the loaded ledger; the alias resolved to `Assets:Cash` (four accounts, none called `Cash`) -/
example : (match process (untag (load (parseFS exT) 2 fMain).delivered) with
    | .ok st => decide (st.bal.map Prod.fst = ["Assets:Cash", "Equity:Opening", "Expenses:Food", "Expenses:Misc"])
    | _ => false) = true := by decide +kernel

/-- the sort is needed: visiting `b` before `a` (the order the glob answered in) uses `Cash` before it is an alias, and the
declaration in `a` is then rejected -/
example : (process (untag ((loadFile (parseFS exT) 1 [fMain] fB).delivered ++
    (loadFile (parseFS exT) 1 [fMain] fA).delivered))).isOk = false := by decide +kernel

example : balanceFile {} (fun _ ps => ps) (fun _ st => st) (fun _ _ p => p) exT 2 fMain =
    balanceFile {} σrev (fun _ st => relayoutRev st) (fun _ _ p => relayoutRev2 p) exT 2 fMain :=
  balanceFile_det {} globOrder_id globOrder_rev relayout_id relayout_rev (fun _ => relayout2_id) (fun _ => relayout2_rev)
    exT 2 fMain

/-- the command succeeds (and by `bookFileRun_ok_balance` prints `CmdText.run (.balance {})` of the five entries) -/
example : (bookFileRun bookIndex (finish (CmdText.balanceLines {})) exT 2 fMain).isOk = true := by decide +kernel

example : registerFile (some "Assets:Cash") σrev (fun _ st => relayoutRev st) (fun _ _ p => relayoutRev2 p) exT 2 fMain =
    bookFileRun bookIndex (finish (CmdText.registerLines (some "Assets:Cash"))) exT 2 fMain :=
  registerFile_run _ globOrder_rev relayout_rev (fun _ => relayout2_rev) exT 2 fMain

example : accountsFile (fun _ ps => ps) (fun _ s => s) exT 2 fMain =
    accountsFile σrev (fun _ s => ⟨s.recs.reverse⟩) exT 2 fMain :=
  accountsFile_det globOrder_id globOrder_rev storeRelayout_id storeRelayout_rev exT 2 fMain

/-- fuel 2 suffices for the example (depth of the include tree), so every larger fuel gives the same result -/
example (m : Nat) (hm : 2 ≤ m) : bookFileRun bookIndex (finish (CmdText.balanceLines {})) exT m fMain =
    bookFileRun bookIndex (finish (CmdText.balanceLines {})) exT 2 fMain :=
  bookFileRun_fuel _ _ exT hm fMain (by decide +kernel)

/-- … and 1 does not -/
example : (load (parseFS exT) 1 fMain).status = .fuelOut := by decide +kernel

/-- with conversion: a price db that knows a commodity the ledger does not -/
def exDbText : List Char := "P 2024/01/03 EUR 1.1 USD\nP 2024/01/03 USD 2 HUB\n".toList
def cfgSortedF : Cfg String := ⟨64, fun _ _ _ _ => 0, fun _ l => isortBy (fun a b => decide (a.1 ≤ b.1)) l⟩
theorem cfgSortedF_ok : OrdOK cfgSortedF.ord := ordSorted_ok keyOrder_string

example : balanceXFile cfgSortedF (some exDbText) { exchange := "HUB", now := ⟨2024, 2, 1⟩ } (fun _ ps => ps) (fun _ st => st)
      (fun _ _ p => p) exT 2 fMain =
    balanceXFile cfgSortedF (some exDbText) { exchange := "HUB", now := ⟨2024, 2, 1⟩ } σrev (fun _ st => relayoutRev st)
      (fun _ _ p => relayoutRev2 p) exT 2 fMain :=
  balanceXFile_det cfgSortedF_ok _ _ globOrder_id globOrder_rev relayout_id relayout_rev (fun _ => relayout2_id)
    (fun _ => relayout2_rev) exT 2 fMain

example : evalFile cfgSortedF (some exDbText) (some (.amt ⟨false, 3, 0, none⟩ "EUR")) ⟨2024, 2, 1⟩ (some "HUB") σrev
      (fun _ st => relayoutRev st) (fun _ _ p => relayoutRev2 p) exT 2 fMain =
    bookFileRun failIndex (evalFinish cfgSortedF (some exDbText) (some (.amt ⟨false, 3, 0, none⟩ "EUR")) ⟨2024, 2, 1⟩ (some "HUB"))
      exT 2 fMain :=
  evalFile_run cfgSortedF_ok _ _ _ _ globOrder_rev relayout_rev (fun _ => relayout2_rev) exT 2 fMain

/-! the failing branches are inhabited: a book-keeping error in an included file (reported with that file), and a loader error
behind entries that book-keeping accepted -/

/-- `b.ledger` is unbalanced in three commodities -/
def exTBook : TextFS :=
  { exT with text := fun p => if p = fB then some "2024/01/02 bad\n A  1 USD\n B  2 EUR\n C  3 CHF\n\n".toList else exT.text p }

/-- the root includes a pattern nothing matches, after the transactions -/
def exTLoad : TextFS :=
  { exT with text := fun p => if p = fMain then some (tMain ++ "\ninclude nothing/*.ledger\n".toList) else exT.text p }

/-- entry 3 (the fourth callback) fails, and it came from `/r/sub/b.ledger` -/
example : (match bookFileRun bookIndex (finish (CmdText.balanceLines {})) exTBook 2 fMain with
    | .err (.cmd (some f) (i, _)) => decide (f = fB ∧ i = 3) | _ => false) = true := by decide +kernel

/-- `failed to load`: the five entries in front of the bad include were accepted, the loader's error is the result -/
example : (match bookFileRun bookIndex (finish (CmdText.balanceLines {})) exTLoad 2 fMain with
    | .err (.load (.io .notFound _)) => true | _ => false) = true ∧
    (load (parseFS exTLoad) 2 fMain).delivered.length = 5 := by decide +kernel

example : balanceFile {} (fun _ ps => ps) (fun _ st => st) (fun _ _ p => p) exTBook 2 fMain =
    balanceFile {} σrev (fun _ st => relayoutRev st) (fun _ _ p => relayoutRev2 p) exTBook 2 fMain :=
  balanceFile_det {} globOrder_id globOrder_rev relayout_id relayout_rev (fun _ => relayout2_id) (fun _ => relayout2_rev)
    exTBook 2 fMain

end Examples

end Okane.C13Front
