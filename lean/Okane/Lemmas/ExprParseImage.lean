import Okane.Lemmas.ExprParse
set_option linter.unusedSimpArgs false
set_option linter.unusedVariables false
namespace Okane.ExprParse
open Okane Okane.Literal Okane.ExprSyntax Okane.Spec
open Okane.Unparse (wfNumber isCommodityText noPrec wfVExpr wfAdd wfMul wfUnary)

/-!
# What the value-expression parser can return (the image of `value_expr`)

For EVERY input and fuel: a tree returned by `value_expr` is the image of a stratified tree (`ValueE.toVExpr`) — `*`
and `/` never have a bare sum as operand, the right operand of every operator is one level down, negation applies to
a value — and it is plain (`plainV`: no negative literal as an un-negated operand).  Together with the round trip of
`Lemmas/ExprParse.lean` this pins the parser's precedence and associativity down from both sides.
-/

/-! ## the sign of a scanned number comes from a leading `-` only -/

theorem step_neg {st st' : St} {i : Nat} {c : Char} (h : step st i c = .ok st') (hc : c ≠ '-') : st'.neg = st.neg := by
  unfold step at h
  split at h
  · rename_i h0; exact absurd h0.2 hc
  · split at h
    · cases h; rfl
    · split at h
      · cases h; rfl
      · split at h
        · cases h
        · split at h
          · simp only at h
            split at h
            · cases h
            · cases h; rfl
          · cases h

theorem loop_neg : ∀ (s : List Char) (st st' : St) (i : Nat), loop st i s = .ok st' → (∀ c ∈ s, c ≠ '-') →
    st'.neg = st.neg := by
  intro s
  induction s with
  | nil => intro st st' i h _; simp only [loop] at h; cases h; rfl
  | cons a t ih =>
    intro st st' i h hall
    simp only [loop] at h
    cases hs : step st i a with
    | ok st1 =>
      rw [hs] at h
      rw [ih st1 st' (i + 1) h (fun c hc => hall c (by simp [hc])), step_neg hs (hall a (by simp))]
    | err e => rw [hs] at h; cases h
    | panic p => rw [hs] at h; cases h
    | fuelOut => rw [hs] at h; cases h

theorem scan_unsigned {s : List Char} {d : PDec} (h : scan s = .ok d) (hall : ∀ c ∈ s, c ≠ '-') : d.neg = false := by
  unfold scan at h
  cases hl : loop {} 0 s with
  | ok st =>
    simp only [hl] at h
    have hn : st.neg = false := loop_neg s {} st 0 hl hall
    unfold finish at h
    split at h
    · cases h
    · simp only at h
      split at h
      · cases h
      · split at h
        · cases h
        · cases h; simp [hn]
  | err e => simp only [hl] at h; cases h
  | panic p => simp only [hl] at h; cases h
  | fuelOut => simp only [hl] at h; cases h

/-- `pretty_decimal` on an input that does not begin with `-` yields a number without sign -/
theorem prettyDecimal_unsigned {inp rest : List Char} {d : PDec} (h : prettyDecimal inp = .ok d rest)
    (hm : ∀ r, inp ≠ '-' :: r) : d.neg = false := by
  unfold prettyDecimal at h
  split at h
  · cases h
  · rename_i tok rest0 hts
    split at h
    · rename_i d' hsc
      cases h
      have htok : tok = inp.takeWhile isNumChar := by
        cases inp with
        | nil => simp [tokenSplit] at hts
        | cons a t =>
          have ha : a ≠ '-' := fun e => hm t (by rw [e])
          simp only [tokenSplit] at hts
          split at hts
          · cases hts
          · cases hts; rfl
      refine scan_unsigned hsc ?_
      intro c hc
      rw [htok] at hc
      have hall := C07.all_takeWhile isNumChar inp
      rw [List.all_eq_true] at hall
      exact numChar_ne_minus (hall c hc)
    · cases h

/-! ## the image -/

def ImgV (v : VExpr) : Prop := (∃ t : ValueE, t.toVExpr = v) ∧ plainV v = true
def ImgU (e : Expr) : Prop := (∃ u : UnaryE, u.toExpr = e) ∧ plainE e = true
def ImgM (e : Expr) : Prop := (∃ m : MulE, m.toExpr = e) ∧ plainE e = true
def ImgA (e : Expr) : Prop := (∃ a : AddE, a.toExpr = e) ∧ plainE e = true

theorem ImgM.of_unary {e : Expr} (h : ImgU e) : ImgM e := by
  obtain ⟨⟨u, rfl⟩, hp⟩ := h
  exact ⟨⟨.one u, rfl⟩, hp⟩

theorem ImgA.of_mul {e : Expr} (h : ImgM e) : ImgA e := by
  obtain ⟨⟨m, rfl⟩, hp⟩ := h
  exact ⟨⟨.one m, rfl⟩, hp⟩

theorem sepOp_mul {inp r : List Char} {op : BinOp} (h : sepOp mulOp inp = some (op, r)) : op = .mul ∨ op = .div := by
  unfold sepOp at h
  split at h
  · rename_i c r' _
    unfold mulOp at h
    split at h <;> simp at h
    · exact Or.inl h.1.symm
    · exact Or.inr h.1.symm
  · cases h

theorem sepOp_add {inp r : List Char} {op : BinOp} (h : sepOp addOp inp = some (op, r)) : op = .add ∨ op = .sub := by
  unfold sepOp at h
  split at h
  · rename_i c r' _
    unfold addOp at h
    split at h <;> simp at h
    · exact Or.inl h.1.symm
    · exact Or.inr h.1.symm
  · cases h

theorem ImgM.bin {op : BinOp} {l r : Expr} (hop : op = .mul ∨ op = .div) (hl : ImgM l) (hr : ImgU r) :
    ImgM (.bin op l r) := by
  obtain ⟨⟨m, rfl⟩, hpl⟩ := hl
  obtain ⟨⟨u, rfl⟩, hpr⟩ := hr
  refine ⟨?_, by simp only [plainE, hpl, hpr, Bool.and_self]⟩
  rcases hop with rfl | rfl
  · exact ⟨.mul m u, rfl⟩
  · exact ⟨.div m u, rfl⟩

theorem ImgA.bin {op : BinOp} {l r : Expr} (hop : op = .add ∨ op = .sub) (hl : ImgA l) (hr : ImgM r) :
    ImgA (.bin op l r) := by
  obtain ⟨⟨a, rfl⟩, hpl⟩ := hl
  obtain ⟨⟨m, rfl⟩, hpr⟩ := hr
  refine ⟨?_, by simp only [plainE, hpl, hpr, Bool.and_self]⟩
  rcases hop with rfl | rfl
  · exact ⟨.add a m, rfl⟩
  · exact ⟨.sub a m, rfl⟩

theorem amount_img {inp rest : List Char} {v : VExpr} (h : amount inp = .ok v rest) :
    ImgV v ∧ ((∀ r, inp ≠ '-' :: r) → unsignedV v = true) := by
  unfold amount at h
  split at h
  · rename_i d rest0 hpd
    simp only at h
    cases h
    refine ⟨⟨⟨.amt d _, rfl⟩, rfl⟩, ?_⟩
    intro hm
    simp only [unsignedV, prettyDecimal_unsigned hpd hm, Bool.not_false]
  · cases h
  · cases h

/-- the combined statement, by induction on the fuel -/
theorem image (f : Nat) :
    (∀ inp v rest, valueExpr f inp = .ok v rest → ImgV v ∧ ((∀ r, inp ≠ '-' :: r) → unsignedV v = true)) ∧
    (∀ inp e rest, unaryExpr f inp = .ok e rest → ImgU e) ∧
    (∀ inp e rest, mulExpr f inp = .ok e rest → ImgM e) ∧
    (∀ l inp e rest, ImgM l → ExprSyntax.mulLoop f l inp = .ok e rest → ImgM e) ∧
    (∀ inp e rest, addExpr f inp = .ok e rest → ImgA e) ∧
    (∀ l inp e rest, ImgA l → addLoop f l inp = .ok e rest → ImgA e) := by
  induction f with
  | zero =>
    refine ⟨?_, ?_, ?_, ?_, ?_, ?_⟩ <;> intros <;> rename_i h <;>
      simp [valueExpr, unaryExpr, mulExpr, ExprSyntax.mulLoop, addExpr, addLoop] at h
  | succ f ih =>
    obtain ⟨ihV, ihU, ihM, ihML, ihA, ihAL⟩ := ih
    refine ⟨?_, ?_, ?_, ?_, ?_, ?_⟩
    · intro inp v rest h
      unfold valueExpr at h
      split at h
      · cases h
      · rename_i r
        split at h
        · rename_i e rest1 hadd
          split at h
          · cases h
            obtain ⟨⟨a, rfl⟩, hp⟩ := ihA _ _ _ hadd
            exact ⟨⟨⟨.paren a, rfl⟩, by simpa only [plainV] using hp⟩, fun _ => rfl⟩
          · cases h
        · cases h
        · cases h
      · exact amount_img h
    · intro inp e rest h
      unfold unaryExpr at h
      split at h
      · cases h
      · rename_i r
        split at h
        · rename_i v rest1 hv
          cases h
          obtain ⟨⟨⟨t, rfl⟩, hp⟩, _⟩ := ihV _ _ _ hv
          exact ⟨⟨.neg t, rfl⟩, by simpa only [plainE] using hp⟩
        · cases h
        · cases h
      · rename_i hnil hneg
        split at h
        · rename_i v rest1 hv
          cases h
          obtain ⟨⟨⟨t, rfl⟩, hp⟩, hu⟩ := ihV _ _ _ hv
          refine ⟨⟨.pos t, rfl⟩, ?_⟩
          simp only [plainE, hp, hu (fun r hr => hneg r hr), Bool.and_self]
        · cases h
        · cases h
    · intro inp e rest h
      unfold mulExpr at h
      split at h
      · rename_i l rest1 hu
        exact ihML _ _ _ _ (ImgM.of_unary (ihU _ _ _ hu)) h
      · cases h
      · cases h
    · intro l inp e rest hl h
      unfold ExprSyntax.mulLoop at h
      split at h
      · cases h; exact hl
      · rename_i op r hsep
        split at h
        · rename_i e' rest1 hu
          exact ihML _ _ _ _ (ImgM.bin (sepOp_mul hsep) hl (ihU _ _ _ hu)) h
        · cases h; exact hl
        · cases h
    · intro inp e rest h
      unfold addExpr at h
      split at h
      · rename_i l rest1 hm
        exact ihAL _ _ _ _ (ImgA.of_mul (ihM _ _ _ hm)) h
      · cases h
      · cases h
    · intro l inp e rest hl h
      unfold addLoop at h
      split at h
      · cases h; exact hl
      · rename_i op r hsep
        split at h
        · rename_i e' rest1 hm
          exact ihAL _ _ _ _ (ImgA.bin (sepOp_add hsep) hl (ihM _ _ _ hm)) h
        · cases h; exact hl
        · cases h

/-- **the image of `value_expr`**: whatever the input and the fuel, a tree the parser returns is the image of a
stratified tree, and no negative literal stands in it as an un-negated operand -/
theorem valueExpr_image {f : Nat} {inp rest : List Char} {v : VExpr} (h : valueExpr f inp = .ok v rest) :
    (∃ t : ValueE, t.toVExpr = v) ∧ plainV v = true :=
  ((image f).1 inp v rest h).1

theorem parseValueExpr_image {inp rest : List Char} {v : VExpr} (h : parseValueExpr inp = .ok v rest) :
    (∃ t : ValueE, ofVExpr v = some t ∧ t.toVExpr = v) ∧ plainV v = true := by
  obtain ⟨⟨t, rfl⟩, hp⟩ := valueExpr_image h
  exact ⟨⟨t, ofVExpr_toVExpr t, rfl⟩, hp⟩

end Okane.ExprParse
