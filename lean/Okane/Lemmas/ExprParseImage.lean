import Okane.Lemmas.ExprParse
set_option linter.unusedSimpArgs false
set_option linter.unusedVariables false
namespace Okane.ExprParse
open Okane Okane.Literal Okane.ExprSyntax Okane.Spec
open Okane.Unparse (wfNumber isCommodityText noPrec wfVExpr wfAdd wfMul wfUnary)

/-!
# What the value-expression parser can return (the image of `value_expr`); necessity of the follow condition

For EVERY input and fuel: a tree returned by `value_expr` is the image of a stratified tree (`ValueE.toVExpr`) — `*`
and `/` never have a bare sum as operand, the right operand of every operator is one level down, negation applies to
a value — and it is plain (`plainV`: no negative literal as an un-negated operand).  Together with the round trip of
`Lemmas/ExprParse.lean` this pins the parser's precedence and associativity down from both sides.

Also here: the condition `follow` on the continuation is necessary (`follow_necessary`, `parse_print_iff`), and rescaling
to declared precisions keeps plainness (`plainV_rescale`).
-/

/-! ## the sign of a scanned number comes from a leading `-` only -/

theorem step_neg {st st' : St} {i : Nat} {c : Char} (h : step st i c = .ok st') (hc : c ≠ '-') : st'.neg = st.neg := by
  unfold step at h
  split at h
  · rename_i h0; exact absurd h0.2 hc
  · split at h
    · cases h; rfl
    · split at h
      · cases h; rfl
      · split at h
        · cases h
        · split at h
          · simp only at h
            split at h
            · cases h
            · cases h; rfl
          · cases h

theorem loop_neg : ∀ (s : List Char) (st st' : St) (i : Nat), loop st i s = .ok st' → (∀ c ∈ s, c ≠ '-') →
    st'.neg = st.neg := by
  intro s
  induction s with
  | nil => intro st st' i h _; simp only [loop] at h; cases h; rfl
  | cons a t ih =>
    intro st st' i h hall
    simp only [loop] at h
    cases hs : step st i a with
    | ok st1 =>
      rw [hs] at h
      rw [ih st1 st' (i + 1) h (fun c hc => hall c (by simp [hc])), step_neg hs (hall a (by simp))]
    | err e => rw [hs] at h; cases h
    | panic p => rw [hs] at h; cases h
    | fuelOut => rw [hs] at h; cases h

theorem scan_unsigned {s : List Char} {d : PDec} (h : scan s = .ok d) (hall : ∀ c ∈ s, c ≠ '-') : d.neg = false := by
  unfold scan at h
  cases hl : loop {} 0 s with
  | ok st =>
    simp only [hl] at h
    have hn : st.neg = false := loop_neg s {} st 0 hl hall
    unfold finish at h
    split at h
    · cases h
    · simp only at h
      split at h
      · cases h
      · split at h
        · cases h
        · cases h; simp [hn]
  | err e => simp only [hl] at h; cases h
  | panic p => simp only [hl] at h; cases h
  | fuelOut => simp only [hl] at h; cases h

/-- `pretty_decimal` on an input that does not begin with `-` yields a number without sign -/
theorem prettyDecimal_unsigned {inp rest : List Char} {d : PDec} (h : prettyDecimal inp = .ok d rest)
    (hm : ∀ r, inp ≠ '-' :: r) : d.neg = false := by
  unfold prettyDecimal at h
  split at h
  · cases h
  · rename_i tok rest0 hts
    split at h
    · rename_i d' hsc
      cases h
      have htok : tok = inp.takeWhile isNumChar := by
        cases inp with
        | nil => simp [tokenSplit] at hts
        | cons a t =>
          have ha : a ≠ '-' := fun e => hm t (by rw [e])
          simp only [tokenSplit] at hts
          split at hts
          · cases hts
          · cases hts; rfl
      refine scan_unsigned hsc ?_
      intro c hc
      rw [htok] at hc
      have hall := C07.all_takeWhile isNumChar inp
      rw [List.all_eq_true] at hall
      exact numChar_ne_minus (hall c hc)
    · cases h

/-! ## the image -/

def ImgV (v : VExpr) : Prop := (∃ t : ValueE, t.toVExpr = v) ∧ plainV v = true
def ImgU (e : Expr) : Prop := (∃ u : UnaryE, u.toExpr = e) ∧ plainE e = true
def ImgM (e : Expr) : Prop := (∃ m : MulE, m.toExpr = e) ∧ plainE e = true
def ImgA (e : Expr) : Prop := (∃ a : AddE, a.toExpr = e) ∧ plainE e = true

theorem ImgM.of_unary {e : Expr} (h : ImgU e) : ImgM e := by
  obtain ⟨⟨u, rfl⟩, hp⟩ := h
  exact ⟨⟨.one u, rfl⟩, hp⟩

theorem ImgA.of_mul {e : Expr} (h : ImgM e) : ImgA e := by
  obtain ⟨⟨m, rfl⟩, hp⟩ := h
  exact ⟨⟨.one m, rfl⟩, hp⟩

theorem sepOp_mul {inp r : List Char} {op : BinOp} (h : sepOp mulOp inp = some (op, r)) : op = .mul ∨ op = .div := by
  unfold sepOp at h
  split at h
  · rename_i c r' _
    unfold mulOp at h
    split at h <;> simp at h
    · exact Or.inl h.1.symm
    · exact Or.inr h.1.symm
  · cases h

theorem sepOp_add {inp r : List Char} {op : BinOp} (h : sepOp addOp inp = some (op, r)) : op = .add ∨ op = .sub := by
  unfold sepOp at h
  split at h
  · rename_i c r' _
    unfold addOp at h
    split at h <;> simp at h
    · exact Or.inl h.1.symm
    · exact Or.inr h.1.symm
  · cases h

theorem ImgM.bin {op : BinOp} {l r : Expr} (hop : op = .mul ∨ op = .div) (hl : ImgM l) (hr : ImgU r) :
    ImgM (.bin op l r) := by
  obtain ⟨⟨m, rfl⟩, hpl⟩ := hl
  obtain ⟨⟨u, rfl⟩, hpr⟩ := hr
  refine ⟨?_, by simp only [plainE, hpl, hpr, Bool.and_self]⟩
  rcases hop with rfl | rfl
  · exact ⟨.mul m u, rfl⟩
  · exact ⟨.div m u, rfl⟩

theorem ImgA.bin {op : BinOp} {l r : Expr} (hop : op = .add ∨ op = .sub) (hl : ImgA l) (hr : ImgM r) :
    ImgA (.bin op l r) := by
  obtain ⟨⟨a, rfl⟩, hpl⟩ := hl
  obtain ⟨⟨m, rfl⟩, hpr⟩ := hr
  refine ⟨?_, by simp only [plainE, hpl, hpr, Bool.and_self]⟩
  rcases hop with rfl | rfl
  · exact ⟨.add a m, rfl⟩
  · exact ⟨.sub a m, rfl⟩

theorem amount_img {inp rest : List Char} {v : VExpr} (h : amount inp = .ok v rest) :
    ImgV v ∧ ((∀ r, inp ≠ '-' :: r) → unsignedV v = true) := by
  unfold amount at h
  split at h
  · rename_i d rest0 hpd
    simp only at h
    cases h
    refine ⟨⟨⟨.amt d _, rfl⟩, rfl⟩, ?_⟩
    intro hm
    simp only [unsignedV, prettyDecimal_unsigned hpd hm, Bool.not_false]
  · cases h
  · cases h

/-- the combined statement, by induction on the fuel -/
theorem image (f : Nat) :
    (∀ inp v rest, valueExpr f inp = .ok v rest → ImgV v ∧ ((∀ r, inp ≠ '-' :: r) → unsignedV v = true)) ∧
    (∀ inp e rest, unaryExpr f inp = .ok e rest → ImgU e) ∧
    (∀ inp e rest, mulExpr f inp = .ok e rest → ImgM e) ∧
    (∀ l inp e rest, ImgM l → ExprSyntax.mulLoop f l inp = .ok e rest → ImgM e) ∧
    (∀ inp e rest, addExpr f inp = .ok e rest → ImgA e) ∧
    (∀ l inp e rest, ImgA l → addLoop f l inp = .ok e rest → ImgA e) := by
  induction f with
  | zero =>
    refine ⟨?_, ?_, ?_, ?_, ?_, ?_⟩ <;> intros <;> rename_i h <;>
      simp [valueExpr, unaryExpr, mulExpr, ExprSyntax.mulLoop, addExpr, addLoop] at h
  | succ f ih =>
    obtain ⟨ihV, ihU, ihM, ihML, ihA, ihAL⟩ := ih
    refine ⟨?_, ?_, ?_, ?_, ?_, ?_⟩
    · intro inp v rest h
      unfold valueExpr at h
      split at h
      · cases h
      · rename_i r
        split at h
        · rename_i e rest1 hadd
          split at h
          · cases h
            obtain ⟨⟨a, rfl⟩, hp⟩ := ihA _ _ _ hadd
            exact ⟨⟨⟨.paren a, rfl⟩, by simpa only [plainV] using hp⟩, fun _ => rfl⟩
          · cases h
        · cases h
        · cases h
      · exact amount_img h
    · intro inp e rest h
      unfold unaryExpr at h
      split at h
      · cases h
      · rename_i r
        split at h
        · rename_i v rest1 hv
          cases h
          obtain ⟨⟨⟨t, rfl⟩, hp⟩, _⟩ := ihV _ _ _ hv
          exact ⟨⟨.neg t, rfl⟩, by simpa only [plainE] using hp⟩
        · cases h
        · cases h
      · rename_i hnil hneg
        split at h
        · rename_i v rest1 hv
          cases h
          obtain ⟨⟨⟨t, rfl⟩, hp⟩, hu⟩ := ihV _ _ _ hv
          refine ⟨⟨.pos t, rfl⟩, ?_⟩
          simp only [plainE, hp, hu (fun r hr => hneg r hr), Bool.and_self]
        · cases h
        · cases h
    · intro inp e rest h
      unfold mulExpr at h
      split at h
      · rename_i l rest1 hu
        exact ihML _ _ _ _ (ImgM.of_unary (ihU _ _ _ hu)) h
      · cases h
      · cases h
    · intro l inp e rest hl h
      unfold ExprSyntax.mulLoop at h
      split at h
      · cases h; exact hl
      · rename_i op r hsep
        split at h
        · rename_i e' rest1 hu
          exact ihML _ _ _ _ (ImgM.bin (sepOp_mul hsep) hl (ihU _ _ _ hu)) h
        · cases h; exact hl
        · cases h
    · intro inp e rest h
      unfold addExpr at h
      split at h
      · rename_i l rest1 hm
        exact ihAL _ _ _ _ (ImgA.of_mul (ihM _ _ _ hm)) h
      · cases h
      · cases h
    · intro l inp e rest hl h
      unfold addLoop at h
      split at h
      · cases h; exact hl
      · rename_i op r hsep
        split at h
        · rename_i e' rest1 hm
          exact ihAL _ _ _ _ (ImgA.bin (sepOp_add hsep) hl (ihM _ _ _ hm)) h
        · cases h; exact hl
        · cases h

/-- **the image of `value_expr`**: whatever the input and the fuel, a tree the parser returns is the image of a
stratified tree, and no negative literal stands in it as an un-negated operand -/
theorem valueExpr_image {f : Nat} {inp rest : List Char} {v : VExpr} (h : valueExpr f inp = .ok v rest) :
    (∃ t : ValueE, t.toVExpr = v) ∧ plainV v = true :=
  ((image f).1 inp v rest h).1

theorem parseValueExpr_image {inp rest : List Char} {v : VExpr} (h : parseValueExpr inp = .ok v rest) :
    (∃ t : ValueE, ofVExpr v = some t ∧ t.toVExpr = v) ∧ plainV v = true := by
  obtain ⟨⟨t, rfl⟩, hp⟩ := valueExpr_image h
  exact ⟨⟨t, ofVExpr_toVExpr t, rfl⟩, hp⟩

/-! ## the condition on the continuation is necessary: `follow` is exactly what the parser needs -/

theorem dropWhile_append_all {p : Char → Bool} {a : List Char} (ha : ∀ c ∈ a, p c = true) (X : List Char) :
    (a ++ X).dropWhile p = X.dropWhile p := by
  induction a with
  | nil => rfl
  | cons c a ih =>
    simp only [List.cons_append, List.dropWhile, ha c (by simp)]
    exact ih (fun x hx => ha x (by simp [hx]))

theorem takeWhile_append_all {p : Char → Bool} {a : List Char} (ha : ∀ c ∈ a, p c = true) (X : List Char) :
    (a ++ X).takeWhile p = a ++ X.takeWhile p := by
  induction a with
  | nil => rfl
  | cons c a ih =>
    simp only [List.cons_append, List.takeWhile, ha c (by simp)]
    rw [ih (fun x hx => ha x (by simp [hx]))]

theorem length_dropWhile_le (p : Char → Bool) (l : List Char) : (l.dropWhile p).length ≤ l.length := by
  induction l with
  | nil => simp
  | cons c t ih =>
    simp only [List.dropWhile]
    split
    · simp only [List.length_cons]; omega
    · simp

theorem stops_of_dropWhile_eq {p : Char → Bool} {l : List Char} (h : l.dropWhile p = l) : stops p l = true := by
  cases l with
  | nil => rfl
  | cons c t =>
    cases hc : p c with
    | false => simp [hc]
    | true =>
      simp only [List.dropWhile, hc] at h
      have := length_dropWhile_le p t
      rw [h] at this
      simp only [List.length_cons] at this
      omega

/-- the token `pretty_decimal` cuts off a text that begins with an accepted literal, whatever follows -/
theorem tokenSplit_shape_any {s : List Char} (hs : TokenShape s) (X : List Char) :
    tokenSplit (s ++ X) = .ok (s ++ X.takeWhile isNumChar, X.dropWhile isNumChar) := by
  rcases hs with ⟨body, rfl, hne, hall⟩ | ⟨hne, hall⟩
  · have h1 := takeWhile_append_all hall X
    have h2 := dropWhile_append_all hall X
    cases body with
    | nil => exact absurd rfl hne
    | cons b t =>
      simp only [List.cons_append] at h1 h2
      simp [tokenSplit, h1, h2]
  · cases s with
    | nil => exact absurd rfl hne
    | cons b t =>
      have hb : b ≠ '-' := numChar_ne_minus (hall b (by simp))
      have h1 := takeWhile_append_all hall X
      have h2 := dropWhile_append_all hall X
      simp only [List.cons_append] at h1 h2 ⊢
      simp [tokenSplit, hb, h1, h2]

/-- where `expr::amount` stops on a text that begins with a printed number -/
theorem amount_rest {d : PDec} (hd : wfNumber d = true) {X rest' : List Char} {v : VExpr}
    (h : amount (printPDec d ++ X) = .ok v rest') :
    rest' = (skipSpaces (X.dropWhile isNumChar)).dropWhile isCommodityChar := by
  unfold amount prettyDecimal at h
  rw [tokenSplit_shape_any (scan_ok_shape (wfNumber_scan hd)) X] at h
  simp only at h
  split at h
  · rename_i d' rest0 hpd
    split at hpd
    · cases hpd
      simp only [commodity] at h
      cases h; rfl
    · cases hpd
  · cases h
  · cases h

/-- if the parser returns the tree and stops where `parse_print` says, the continuation was admissible -/
theorem follow_necessary (v : VExpr) (rest : List Char) (hw : wfVExpr v = true)
    (h : parseValueExpr (printVExpr noPrec v ++ rest) = .ok v (afterV v rest)) : follow v rest = true := by
  cases v with
  | paren e => rfl
  | amt d c =>
    simp only [wfVExpr, Bool.and_eq_true] at hw
    obtain ⟨hd, hc⟩ := hw
    simp only [isCommodityText, List.all_eq_true] at hc
    rw [printVExpr_amt, displayRescale_noPrec] at h
    obtain ⟨a, cs, he, hcl, _⟩ := amtText_head c hd
    unfold parseValueExpr at h
    obtain ⟨g, hg⟩ : ∃ g, parseFuel (amtText d c ++ rest) = g + 1 := ⟨_, by simp only [parseFuel]; rfl⟩
    rw [hg, he, List.cons_append, valueExpr_amount g _ (head_class hcl).2, ← List.cons_append, ← he] at h
    simp only [follow, bareV, afterV, tokFollow] at h ⊢
    by_cases hemp : c.isEmpty = true
    · simp only [amtText, hemp, if_true, after] at h ⊢
      have hr := amount_rest hd h
      cases rest with
      | nil => rfl
      | cons x r =>
        cases hx : isNumChar x with
        | true =>
          exfalso
          have hsk : skipSpaces (x :: r) = x :: r := skipSpaces_cons_nonspace r (numChar_not_space hx)
          rw [hsk] at hr
          have h1 := length_dropWhile_le isCommodityChar (skipSpaces ((x :: r).dropWhile isNumChar))
          have h2 := length_dropWhile_le isSpace ((x :: r).dropWhile isNumChar)
          have h3 := length_dropWhile_le isNumChar r
          rw [← hr] at h1
          simp only [List.dropWhile, hx, skipSpaces, List.length_cons] at h1 h2
          omega
        | false =>
          simp only [List.dropWhile, hx] at hr
          simp only [stops_cons, hx, Bool.not_false, Bool.true_and]
          exact stops_of_dropWhile_eq hr.symm
    · simp only [amtText, hemp, Bool.false_eq_true, if_false, after, List.append_assoc, List.cons_append] at h ⊢
      have hr := amount_rest hd h
      have hne : c.toList ≠ [] := by intro e; exact hemp (by simpa using e)
      have hsk : skipSpaces (c.toList ++ rest) = c.toList ++ rest := by
        cases hl : c.toList with
        | nil => exact absurd hl hne
        | cons b t => exact skipSpaces_cons_nonspace _ (commodityChar_not_space (hc b (by simp [hl])))
      have hnum : isNumChar ' ' = false := by decide
      simp only [List.dropWhile, hnum, skipSpaces_cons_space, hsk, dropWhile_append_all hc] at hr
      exact stops_of_dropWhile_eq hr.symm

/-- **exactly what the parser needs**: for a well-formed plain tree, the parser returns the tree and stops at the
continuation (less the blanks eaten after a bare number) if and only if the continuation does not extend the last
token -/
theorem parse_print_iff (v : VExpr) (rest : List Char) (hw : wfVExpr v = true) (hp : plainV v = true) :
    parseValueExpr (printVExpr noPrec v ++ rest) = .ok v (afterV v rest) ↔ follow v rest = true :=
  ⟨follow_necessary v rest hw, parse_print v rest hw hp⟩

/-! ## rescaling keeps the sign, hence plainness -/

theorem rescale_neg (d : PDec) (n : Nat) : (rescale d n).neg = d.neg := by
  unfold rescale
  split
  · rfl
  · split
    · rfl
    · split <;> rfl

theorem unsignedV_rescale (p : String → Nat) (v : VExpr) : unsignedV (rescaleV p v) = unsignedV v := by
  cases v with
  | paren e => simp only [rescaleV, unsignedV]
  | amt d c => simp only [rescaleV, unsignedV, displayRescale, rescale_neg]

mutual
theorem plainE_rescale (p : String → Nat) : ∀ e : Expr, plainE (rescaleE p e) = plainE e
  | .neg (.val v) => by simp only [rescaleE, plainE, plainV_rescale p v]
  | .neg (.neg e) => by
    have := plainE_rescale p (.neg e)
    simp only [rescaleE] at this
    simp only [rescaleE, plainE, this]
  | .neg (.bin op l r) => by
    simp only [rescaleE, plainE, plainE_rescale p l, plainE_rescale p r]
  | .bin op l r => by simp only [rescaleE, plainE, plainE_rescale p l, plainE_rescale p r]
  | .val v => by simp only [rescaleE, plainE, unsignedV_rescale, plainV_rescale p v]
theorem plainV_rescale (p : String → Nat) : ∀ v : VExpr, plainV (rescaleV p v) = plainV v
  | .paren e => by simp only [rescaleV, plainV, plainE_rescale p e]
  | .amt d c => by simp only [rescaleV, plainV]
end

/-- `parse_print_prec` with plainness asked of the tree itself -/
theorem parse_print_prec' (p : String → Nat) (v : VExpr) (rest : List Char) (hw : wfVExpr (rescaleV p v) = true)
    (hp : plainV v = true) (hf : follow v rest = true) :
    parseValueExpr (printVExpr p v ++ rest) = .ok (rescaleV p v) (afterV v rest) :=
  parse_print_prec p v rest hw (by rw [plainV_rescale]; exact hp) hf

end Okane.ExprParse
