import Okane.Model.ImportCsvCells
import Okane.Props.C07
/-!
# The CSV cell decoders (`Model/ImportCsvCells.lean`): number cells and templates

Number cells (`str_to_comma_decimal` = `TryFrom<&str> for expr::Amount`):
* `cellParse_total`   — the parser returns a value with the input consumed or a backtrack: no panic, no fuel, no cut;
* `cellAmount_iff` / `C16_cell_exact` — it accepts EXACTLY: optional minus, then (number token, blanks, commodity text,
  blanks) or (commodity text, blanks, number token, blanks), nothing left, the number token being a well-formed literal
  within range in the sense of C07 (`Spec.WellFormedLiteral`, `Spec.Representable`, via `C07.scan_ok_iff`);
* `C16_cell_value`, `C16_cell_sign` — the value is the literal written, the sign flipped once per written minus;
* `C16_cell_complete`, `C16_cell_reject` — completeness and rejection of everything else.
Templates (`Template::from_str`, `Display for Template`):
* `templateParse_total`        — segments with the input consumed, or a backtrack; the `repeat` assertion is unreachable;
* `C16_template_exact`         — accepted EXACTLY: a sequence of maximal non-empty brace-free literal runs and `{key}`
  references whose key `template_key_from_str` accepts; the segments are their meanings, in order;
* `C16_template_print_parse`, `C16_template_parse_canonical`, `C16_template_roundtrip` — `Display` then `from_str` is the
  identity on canonical segment lists, parsed templates are canonical, hence `parse (print (parse s)) = parse s`;
* `C16_template_print_id` (+ `_false`) — `print (parse s) = s` unless a column number is written with a leading zero;
* `C16_template_braces`, `C16_template_bad_key` — rejection: unbalanced braces, a reference with an invalid key.
-/
set_option linter.unusedSimpArgs false
set_option linter.unusedVariables false
namespace Okane.Import.Cells
open Okane Okane.Comb Okane.Literal Okane.C07 Okane.LiteralPositions
local notation "isCommodityChar" => ExprSyntax.isCommodityChar

theorem isSpace_eq : Comb.isSpace = ExprSyntax.isSpace := rfl

/-- the number (with the blanks behind it skipped) at a position, if `pretty_decimal` succeeds there -/
def numAt (i : List Char) : Option (PDec × List Char) :=
  match ExprSyntax.prettyDecimal i with
  | .ok d r => some (d, r.dropWhile Comb.isSpace)
  | _ => none

theorem numberSp_some {i : List Char} {d : PDec} {r : List Char} (h : numAt i = some (d, r)) : numberSp i = .ok d r := by
  unfold numAt at h
  unfold numberSp terminated Comb.bind number
  split at h <;> simp_all [Comb.map, space0, takeWhile0]

theorem numberSp_none {i : List Char} (h : numAt i = none) : ∃ p, numberSp i = .bt p := by
  unfold numAt at h
  unfold numberSp terminated Comb.bind number
  cases hp : ExprSyntax.prettyDecimal i with
  | ok d r => simp [hp] at h
  | fail p => exact ⟨p, by simp⟩
  | fuelOut => exact absurd hp (prettyDecimal_ne_fuelOut i)

theorem commoditySp_eq (i : List Char) :
    commoditySp i = .ok (i.takeWhile isCommodityChar) ((i.dropWhile isCommodityChar).dropWhile Comb.isSpace) := rfl

/-- `permutation((number+blanks, commodity+blanks))` in closed form -/
def permSpec (i : List Char) : Option ((PDec × List Char) × List Char) :=
  match numAt i with
  | some (d, r) => some ((d, r.takeWhile isCommodityChar), (r.dropWhile isCommodityChar).dropWhile Comb.isSpace)
  | none =>
    match numAt ((i.dropWhile isCommodityChar).dropWhile Comb.isSpace) with
    | some (d, r) => some ((d, i.takeWhile isCommodityChar), r)
    | none => none

theorem perm_some {i : List Char} {v : PDec × List Char} {r : List Char} (h : permSpec i = some (v, r)) :
    permutation2 numberSp commoditySp i = .ok v r := by
  unfold permSpec at h
  unfold permutation2
  cases h1 : numAt i with
  | some dr =>
    obtain ⟨d, r1⟩ := dr
    rw [numberSp_some h1, commoditySp_eq]
    simp [h1] at h
    obtain ⟨rfl, rfl⟩ := h
    rfl
  | none =>
    obtain ⟨p, hp⟩ := numberSp_none h1
    rw [hp, commoditySp_eq]
    simp only [h1] at h
    cases h2 : numAt ((i.dropWhile isCommodityChar).dropWhile Comb.isSpace) with
    | some dr =>
      obtain ⟨d, r1⟩ := dr
      simp [h2] at h
      obtain ⟨rfl, rfl⟩ := h
      simp [numberSp_some h2]
    | none => simp [h2] at h

theorem perm_none {i : List Char} (h : permSpec i = none) : ∃ p, permutation2 numberSp commoditySp i = .bt p := by
  unfold permSpec at h
  unfold permutation2
  cases h1 : numAt i with
  | some dr => obtain ⟨d, r1⟩ := dr; simp [h1] at h
  | none =>
    obtain ⟨p, hp⟩ := numberSp_none h1
    rw [hp, commoditySp_eq]
    simp only [h1] at h
    cases h2 : numAt ((i.dropWhile isCommodityChar).dropWhile Comb.isSpace) with
    | some dr => obtain ⟨d, r1⟩ := dr; simp [h2] at h
    | none =>
      obtain ⟨q, hq⟩ := numberSp_none h2
      exact ⟨_, by simp only [hq]; rfl⟩

/-- the leading minus of the cell, if any, and what follows it -/
def splitMinus : List Char → Bool × List Char
  | '-' :: r => (true, r)
  | s => (false, s)

theorem optMinus (s : List Char) :
    opt (char '-') s = .ok (if (splitMinus s).1 then some '-' else none) (splitMinus s).2 := by
  match s with
  | [] => rfl
  | c :: r =>
    by_cases hc : c = '-'
    · subst hc; rfl
    · have : splitMinus (c :: r) = (false, c :: r) := by
        unfold splitMinus
        split
        · rename_i h; injection h with h1 _; exact absurd h1 hc
        · rfl
      simp [this, opt, char, oneOf, hc]

/-- `expr::Amount::try_from` in closed form -/
def cellSpec (s : List Char) : Option (PDec × List Char) :=
  match permSpec (splitMinus s).2 with
  | some (v, []) => some (if (splitMinus s).1 then flipSign v.1 else v.1, v.2)
  | _ => none

theorem cellParse_closed (s : List Char) :
    (∃ v, cellSpec s = some v ∧ cellParse s = .ok v []) ∨ (cellSpec s = none ∧ ∃ p, cellParse s = .bt p) := by
  unfold cellSpec cellParse parseAll terminated unaryAmount
  simp only [Comb.bind, optMinus, Res.andThen_ok]
  cases h : permSpec (splitMinus s).2 with
  | none =>
    obtain ⟨p, hp⟩ := perm_none h
    exact Or.inr ⟨rfl, p, by simp [Comb.map, hp]⟩
  | some vr =>
    obtain ⟨v, r⟩ := vr
    have hp := perm_some h
    cases r with
    | nil =>
      refine Or.inl ⟨_, rfl, ?_⟩
      cases hm : (splitMinus s).1 <;> simp [Comb.map, hp, eof]
    | cons c r =>
      refine Or.inr ⟨rfl, c :: r, ?_⟩
      simp [Comb.map, hp, eof]


/-! ## character classes -/

theorem digit_cases {c : Char} (h : c.isDigit = true) :
    c = '0' ∨ c = '1' ∨ c = '2' ∨ c = '3' ∨ c = '4' ∨ c = '5' ∨ c = '6' ∨ c = '7' ∨ c = '8' ∨ c = '9' := by
  simp only [Char.isDigit, Bool.and_eq_true, decide_eq_true_eq] at h
  have h1 : 48 ≤ c.val.toNat := h.1
  have h2 : c.val.toNat ≤ 57 := h.2
  have hc : c = Char.ofNat c.toNat := (Char.ofNat_toNat c).symm
  have : c.toNat = 48 ∨ c.toNat = 49 ∨ c.toNat = 50 ∨ c.toNat = 51 ∨ c.toNat = 52 ∨ c.toNat = 53 ∨ c.toNat = 54 ∨
      c.toNat = 55 ∨ c.toNat = 56 ∨ c.toNat = 57 := by
    show c.val.toNat = 48 ∨ _
    change c.val.toNat = 48 ∨ c.val.toNat = 49 ∨ c.val.toNat = 50 ∨ c.val.toNat = 51 ∨ c.val.toNat = 52 ∨
      c.val.toNat = 53 ∨ c.val.toNat = 54 ∨ c.val.toNat = 55 ∨ c.val.toNat = 56 ∨ c.val.toNat = 57
    omega
  rcases this with h | h | h | h | h | h | h | h | h | h <;> rw [h] at hc <;> simp [hc]

theorem numChar_cases {c : Char} (h : isNumChar c = true) : c.isDigit = true ∨ c = ',' ∨ c = '.' := by
  simp only [isNumChar, Bool.or_eq_true, beq_iff_eq] at h
  rcases h with (h | h) | h
  · exact Or.inl h
  · exact Or.inr (Or.inl h)
  · exact Or.inr (Or.inr h)

theorem space_cases {c : Char} (h : Comb.isSpace c = true) : c = ' ' ∨ c = '\t' := by
  simpa [Comb.isSpace] using h

theorem num_not_com {c : Char} (h : isNumChar c = true) : isCommodityChar c = false := by
  rcases numChar_cases h with h | rfl | rfl
  · rcases digit_cases h with rfl | rfl | rfl | rfl | rfl | rfl | rfl | rfl | rfl | rfl <;> decide
  · decide
  · decide

theorem num_not_space {c : Char} (h : isNumChar c = true) : Comb.isSpace c = false := by
  rcases numChar_cases h with h | rfl | rfl
  · rcases digit_cases h with rfl | rfl | rfl | rfl | rfl | rfl | rfl | rfl | rfl | rfl <;> decide
  · decide
  · decide

theorem space_not_com {c : Char} (h : Comb.isSpace c = true) : isCommodityChar c = false := by
  rcases space_cases h with rfl | rfl <;> decide

theorem space_not_num {c : Char} (h : Comb.isSpace c = true) : isNumChar c = false := by
  rcases space_cases h with rfl | rfl <;> decide

theorem com_not_space {c : Char} (h : isCommodityChar c = true) : Comb.isSpace c = false := by
  cases hs : Comb.isSpace c with
  | false => rfl
  | true => rw [space_not_com hs] at h; cases h

theorem com_not_num {c : Char} (h : isCommodityChar c = true) : isNumChar c = false := by
  cases hs : isNumChar c with
  | false => rfl
  | true => rw [num_not_com hs] at h; cases h

/-! ## list facts -/

/-- the list is empty or its first element fails `p` -/
def HeadNot (p : Char → Bool) (l : List Char) : Prop := ∀ x r, l = x :: r → p x = false

theorem headNot_nil (p : Char → Bool) : HeadNot p [] := by intro x r h; cases h

theorem headNot_of_all {p : Char → Bool} {l : List Char} (h : ∀ c ∈ l, p c = false) : HeadNot p l := by
  intro x r e; subst e; exact h x (by simp)

theorem headNot_append {p : Char → Bool} {a b : List Char} (ha : ∀ c ∈ a, p c = false) (hb : HeadNot p b) :
    HeadNot p (a ++ b) := by
  cases a with
  | nil => simpa using hb
  | cons x r => intro y s e; simp at e; rw [← e.1]; exact ha x (by simp)

theorem headNot_cons {p : Char → Bool} {x : Char} {r : List Char} (h : p x = false) : HeadNot p (x :: r) := by
  intro y s e; injection e with e1 _; rw [← e1]; exact h

theorem takeWhile_stop {p : Char → Bool} : ∀ {a b : List Char}, (∀ c ∈ a, p c = true) → HeadNot p b →
    (a ++ b).takeWhile p = a ∧ (a ++ b).dropWhile p = b := by
  intro a
  induction a with
  | nil =>
    intro b _ hb
    cases b with
    | nil => simp
    | cons x r => simp [hb x r rfl]
  | cons y s ih =>
    intro b ha hb
    have hy : p y = true := ha y (by simp)
    obtain ⟨h1, h2⟩ := ih (fun c hc => ha c (by simp [hc])) hb
    simp [hy, h1, h2]

theorem all_of_dropWhile_nil {p : Char → Bool} : ∀ {l : List Char}, l.dropWhile p = [] → ∀ c ∈ l, p c = true := by
  intro l
  induction l with
  | nil => intro _ c hc; cases hc
  | cons x r ih =>
    intro h c hc
    by_cases hx : p x = true
    · simp only [List.dropWhile, hx] at h
      rcases List.mem_cons.mp hc with rfl | hc
      · exact hx
      · exact ih h c hc
    · simp [List.dropWhile, hx] at h

theorem dropWhile_all {p : Char → Bool} : ∀ {l : List Char}, (∀ c ∈ l, p c = true) → l.dropWhile p = [] := by
  intro l
  induction l with
  | nil => intro _; rfl
  | cons x r ih =>
    intro h
    simp only [List.dropWhile, h x (by simp)]
    exact ih fun c hc => h c (by simp [hc])

theorem takeWhile_all_true {p : Char → Bool} (l : List Char) : ∀ c ∈ l.takeWhile p, p c = true := takeWhile_all l

/-! ## the written form of a number cell -/

/-- blanks and tabs only (`space0`) -/
def Blank (l : List Char) : Prop := ∀ c ∈ l, Comb.isSpace c = true
/-- a commodity text: no character of `NON_COMMODITY_CHARS` (possibly empty) -/
def ComText (l : List Char) : Prop := ∀ c ∈ l, isCommodityChar c = true

/-- the two layouts `permutation` accepts behind the optional leading minus: number, blanks, commodity, blanks —
or commodity, blanks, number, blanks -/
inductive Layout (body tok com : List Char) : Prop where
  | numFirst (sp1 sp2 : List Char) (h1 : Blank sp1) (h2 : Blank sp2) (e : body = tok ++ sp1 ++ com ++ sp2)
  | comFirst (sp1 sp2 : List Char) (h1 : Blank sp1) (h2 : Blank sp2) (e : body = com ++ sp1 ++ tok ++ sp2)

theorem token_head {tok : List Char} (h : IsToken tok) : ∃ x r, tok = x :: r ∧ (x = '-' ∨ isNumChar x = true) := by
  obtain ⟨run, ⟨hne, hall⟩, h | h⟩ := h
  · exact ⟨'-', run, h, Or.inl rfl⟩
  · cases run with
    | nil => exact absurd rfl hne
    | cons x r => exact ⟨x, r, h, Or.inr (hall x (by simp))⟩

theorem headNot_token {p : Char → Bool} {tok : List Char} (rest : List Char) (h : IsToken tok) (hm : p '-' = false)
    (hn : ∀ c, isNumChar c = true → p c = false) : HeadNot p (tok ++ rest) := by
  obtain ⟨x, r, rfl, hx⟩ := token_head h
  apply headNot_cons
  rcases hx with rfl | hx
  · exact hm
  · exact hn x hx

theorem numAt_iff (i : List Char) (d : PDec) (r : List Char) :
    numAt i = some (d, r) ↔ ∃ tok rest, i = tok ++ rest ∧ IsToken tok ∧ NoNumHead rest ∧ scan tok = .ok d ∧
      r = rest.dropWhile Comb.isSpace := by
  unfold numAt
  constructor
  · intro h
    split at h
    · rename_i d' r' hp
      simp only [Option.some.injEq, Prod.mk.injEq] at h
      obtain ⟨tok, h1, h2, h3, h4⟩ := (prettyDecimal_ok_iff i d' r').mp hp
      exact ⟨tok, r', h1, h2, h3, h.1 ▸ h4, h.2.symm⟩
    · cases h
  · rintro ⟨tok, rest, h1, h2, h3, h4, rfl⟩
    rw [(prettyDecimal_ok_iff i d rest).mpr ⟨tok, h1, h2, h3, h4⟩]

theorem numAt_none_of_head {i : List Char} (h : HeadNot isNumChar i) (hm : ∀ r, i ≠ '-' :: r) : numAt i = none := by
  cases hn : numAt i with
  | none => rfl
  | some dr =>
    obtain ⟨d, r⟩ := dr
    obtain ⟨tok, rest, rfl, ht, _⟩ := (numAt_iff i d r).mp hn
    obtain ⟨x, s, rfl, hx⟩ := token_head ht
    rcases hx with rfl | hx
    · exact absurd rfl (hm (s ++ rest))
    · rw [h x (s ++ rest) rfl] at hx; cases hx

theorem permSpec_iff (body : List Char) (d : PDec) (c : List Char) :
    permSpec body = some ((d, c), []) ↔ ∃ tok, IsToken tok ∧ scan tok = .ok d ∧ ComText c ∧ Layout body tok c := by
  constructor
  · intro h
    unfold permSpec at h
    cases h1 : numAt body with
    | some dr =>
      obtain ⟨d1, r⟩ := dr
      simp only [h1, Option.some.injEq, Prod.mk.injEq] at h
      obtain ⟨⟨rfl, hc⟩, hr⟩ := h
      obtain ⟨tok, rest, hb, ht, _, hs, rfl⟩ := (numAt_iff body d1 _).mp h1
      refine ⟨tok, ht, hs, ?_, .numFirst (rest.takeWhile Comb.isSpace) ((rest.dropWhile Comb.isSpace).dropWhile isCommodityChar)
        (takeWhile_all_true _) (all_of_dropWhile_nil hr) ?_⟩
      · rw [← hc]; exact takeWhile_all_true _
      · rw [hb, ← hc, List.append_assoc, List.append_assoc, List.takeWhile_append_dropWhile, List.takeWhile_append_dropWhile]
    | none =>
      simp only [h1] at h
      cases h2 : numAt ((body.dropWhile isCommodityChar).dropWhile Comb.isSpace) with
      | none => simp [h2] at h
      | some dr =>
        obtain ⟨d1, r⟩ := dr
        simp only [h2, Option.some.injEq, Prod.mk.injEq] at h
        obtain ⟨⟨rfl, hc⟩, rfl⟩ := h
        obtain ⟨tok, rest, hb, ht, _, hs, hr⟩ := (numAt_iff _ d1 _).mp h2
        refine ⟨tok, ht, hs, ?_, .comFirst ((body.dropWhile isCommodityChar).takeWhile Comb.isSpace) rest
          (takeWhile_all_true _) (all_of_dropWhile_nil hr.symm) ?_⟩
        · rw [← hc]; exact takeWhile_all_true _
        · rw [← hc, List.append_assoc, List.append_assoc, ← hb, List.takeWhile_append_dropWhile, List.takeWhile_append_dropWhile]
  · rintro ⟨tok, ht, hs, hc, hl⟩
    -- the number-first computation, shared by both layouts
    have numFirst : ∀ (sp1 sp2 : List Char), Blank sp1 → Blank sp2 → body = tok ++ sp1 ++ c ++ sp2 →
        permSpec body = some ((d, c), []) := by
      intro sp1 sp2 h1 h2 e
      have hsp2 : HeadNot isCommodityChar sp2 := headNot_of_all fun x hx => space_not_com (h2 x hx)
      have hrest : NoNumHead (sp1 ++ (c ++ sp2)) :=
        headNot_append (fun x hx => space_not_num (h1 x hx))
          (headNot_append (fun x hx => com_not_num (hc x hx)) (headNot_of_all fun x hx => space_not_num (h2 x hx)))
      have hn : numAt body = some (d, (sp1 ++ (c ++ sp2)).dropWhile Comb.isSpace) :=
        (numAt_iff _ _ _).mpr ⟨tok, sp1 ++ (c ++ sp2), by rw [e]; simp, ht, hrest, hs, rfl⟩
      unfold permSpec
      rw [hn]
      -- blanks, then the commodity
      have hd : (sp1 ++ (c ++ sp2)).dropWhile Comb.isSpace = c ++ sp2 ∨
          ((sp1 ++ (c ++ sp2)).dropWhile Comb.isSpace = [] ∧ c = []) := by
        cases c with
        | nil =>
          right
          exact ⟨dropWhile_all (by intro x hx; simp at hx; rcases hx with hx | hx; exact h1 x hx; exact h2 x hx), rfl⟩
        | cons y s =>
          left
          have hy : Comb.isSpace y = false := com_not_space (hc y (by simp))
          have := (takeWhile_stop (p := Comb.isSpace) h1 (headNot_cons (r := s ++ sp2) hy)).2
          simp only [List.cons_append] at this ⊢
          rw [this]
      rcases hd with hd | ⟨hd, rfl⟩
      · have := takeWhile_stop (p := isCommodityChar) (a := c) (b := sp2) hc hsp2
        simp only [hd, this.1, this.2, dropWhile_all h2]
      · rw [hd]; simp
    rcases hl with ⟨sp1, sp2, h1, h2, e⟩ | ⟨sp1, sp2, h1, h2, e⟩
    · exact numFirst sp1 sp2 h1 h2 e
    · by_cases hemp : c = [] ∧ sp1 = []
      · obtain ⟨rfl, rfl⟩ := hemp
        exact numFirst [] sp2 (by intro x hx; cases hx) h2 (by simpa using e)
      · -- no number at the start of the body
        have hbody : body = (c ++ sp1) ++ (tok ++ sp2) := by rw [e]; simp
        have hne : c ++ sp1 ≠ [] := by
          intro h0
          simp at h0
          exact hemp h0
        have hhead : HeadNot isNumChar body ∧ ∀ r, body ≠ '-' :: r := by
          rw [hbody]
          cases hcs : c ++ sp1 with
          | nil => exact absurd hcs hne
          | cons x r =>
            have hx : x ∈ c ++ sp1 := by rw [hcs]; simp
            have : isNumChar x = false ∧ x ≠ '-' := by
              rcases List.mem_append.mp hx with hx | hx
              · exact ⟨com_not_num (hc x hx), by intro h; subst h; exact absurd (hc _ hx) (by decide)⟩
              · exact ⟨space_not_num (h1 x hx), by intro h; subst h; exact absurd (h1 _ hx) (by decide)⟩
            refine ⟨headNot_cons this.1, ?_⟩
            intro r' hr'
            simp at hr'
            exact this.2 hr'.1
        have hn1 : numAt body = none := numAt_none_of_head hhead.1 hhead.2
        have hcom := takeWhile_stop (p := isCommodityChar) (a := c) (b := sp1 ++ (tok ++ sp2)) hc
          (headNot_append (fun x hx => space_not_com (h1 x hx))
            (headNot_token sp2 ht (by decide) (fun x hx => num_not_com hx)))
        have hsp := takeWhile_stop (p := Comb.isSpace) (a := sp1) (b := tok ++ sp2) h1
          (headNot_token sp2 ht (by decide) (fun x hx => num_not_space hx))
        have hb2 : body = c ++ (sp1 ++ (tok ++ sp2)) := by rw [e]; simp
        have hn2 : numAt (tok ++ sp2) = some (d, []) :=
          (numAt_iff _ _ _).mpr ⟨tok, sp2, rfl, ht, headNot_of_all fun x hx => space_not_num (h2 x hx), hs,
            (dropWhile_all h2).symm⟩
        unfold permSpec
        rw [hn1]
        simp only [hb2, hcom.1, hcom.2, hsp.2, hn2]

/-! ## Number cells: totality, exact acceptance, value -/

theorem splitMinus_iff (s : List Char) (neg : Bool) (body : List Char) :
    splitMinus s = (neg, body) ↔ (neg = true ∧ s = '-' :: body) ∨ (neg = false ∧ s = body ∧ ∀ r, s ≠ '-' :: r) := by
  match s with
  | [] =>
    simp only [splitMinus, Prod.mk.injEq]
    constructor
    · rintro ⟨rfl, rfl⟩; exact Or.inr ⟨rfl, rfl, fun r h => by cases h⟩
    · rintro (⟨_, h⟩ | ⟨rfl, h, _⟩)
      · cases h
      · exact ⟨rfl, h⟩
  | c :: r =>
    by_cases hc : c = '-'
    · subst hc
      simp only [splitMinus, Prod.mk.injEq]
      constructor
      · rintro ⟨rfl, rfl⟩; exact Or.inl ⟨rfl, rfl⟩
      · rintro (⟨rfl, h⟩ | ⟨_, _, h⟩)
        · injection h with _ h; exact ⟨rfl, h⟩
        · exact absurd rfl (h r)
    · have : splitMinus (c :: r) = (false, c :: r) := by
        unfold splitMinus
        split
        · rename_i h; injection h with h1 _; exact absurd h1 hc
        · rfl
      rw [this]
      simp only [Prod.mk.injEq]
      constructor
      · rintro ⟨rfl, rfl⟩
        exact Or.inr ⟨rfl, rfl, fun r' h => by injection h with h1 _; exact hc h1⟩
      · rintro (⟨_, h⟩ | ⟨rfl, h, _⟩)
        · injection h with h1 _; exact absurd h1 hc
        · exact ⟨rfl, h⟩

/-- **the written form of a number cell**: an optional leading minus (`neg`), then the number token `tok` and the
commodity text `com` in either order, each followed by optional blanks, and nothing else.  (Without the leading minus
the body does not start with `-`: a `-` at the very start of the cell is always taken as the leading minus.) -/
def CellForm (s : List Char) (neg : Bool) (tok com : List Char) : Prop :=
  ∃ body, ((neg = true ∧ s = '-' :: body) ∨ (neg = false ∧ s = body ∧ ∀ r, s ≠ '-' :: r)) ∧
    IsToken tok ∧ ComText com ∧ Layout body tok com

/-- **totality**: the parser behind `str_to_comma_decimal` returns a value with the input consumed, or a backtrack —
it has no panic site, no fuel and never cuts. -/
theorem cellParse_total (s : List Char) : (∃ v, cellParse s = .ok v []) ∨ (∃ p, cellParse s = .bt p) := by
  rcases cellParse_closed s with ⟨v, _, h⟩ | ⟨_, p, h⟩
  · exact Or.inl ⟨v, h⟩
  · exact Or.inr ⟨p, h⟩

theorem cellAmount_eq_spec (s : List Char) : cellAmount s = cellSpec s := by
  unfold cellAmount
  rcases cellParse_closed s with ⟨v, h1, h2⟩ | ⟨h1, p, h2⟩
  · rw [h2, h1]
  · rw [h2, h1]

/-- `cellAmount` accepts exactly the written forms whose number token the scanner accepts; the decimal is the
scanner's, with the sign flag toggled when the cell has a leading minus; the commodity is the text written. -/
theorem cellAmount_iff (s : List Char) (v : PDec) (c : List Char) :
    cellAmount s = some (v, c) ↔
      ∃ neg tok d, CellForm s neg tok c ∧ scan tok = .ok d ∧ v = (if neg then flipSign d else d) := by
  rw [cellAmount_eq_spec]
  unfold cellSpec
  constructor
  · intro h
    split at h
    · rename_i v' hp
      obtain ⟨d, c'⟩ := v'
      simp only [Option.some.injEq, Prod.mk.injEq] at h
      obtain ⟨rfl, rfl⟩ := h
      obtain ⟨tok, ht, hs, hc, hl⟩ := (permSpec_iff _ d c').mp hp
      exact ⟨(splitMinus s).1, tok, d, ⟨(splitMinus s).2, (splitMinus_iff s _ _).mp rfl, ht, hc, hl⟩, hs, rfl⟩
    · cases h
  · rintro ⟨neg, tok, d, ⟨body, hsm, ht, hc, hl⟩, hs, rfl⟩
    have hsplit := (splitMinus_iff s neg body).mpr hsm
    have hp := (permSpec_iff body d c).mpr ⟨tok, ht, hs, hc, hl⟩
    rw [hsplit]
    simp only [hp]

/-- **what a number cell is (C16, referencing C07)**: `str_to_comma_decimal`'s parser accepts a cell iff it is written
as an optional minus followed by a *well-formed literal within range* (`Spec.WellFormedLiteral`, `Spec.Representable`:
the statement of C07) and a commodity text in either order, each followed by optional blanks, with nothing left; the
decimal is the decimal written (`litDec`, `C07_scan_spec`) with the sign flag toggled by the leading minus. -/
theorem C16_cell_exact (s : List Char) (v : PDec) (c : List Char) :
    cellAmount s = some (v, c) ↔
      ∃ neg tok, CellForm s neg tok c ∧ Spec.WellFormedLiteral tok = true ∧ Spec.Representable tok = true ∧
        v = (if neg then flipSign (litDec tok) else litDec tok) := by
  rw [cellAmount_iff]
  constructor
  · rintro ⟨neg, tok, d, hf, hs, rfl⟩
    obtain ⟨⟨hw, hr⟩, rfl⟩ := (scan_ok_iff tok d).mp hs
    exact ⟨neg, tok, hf, hw, hr, rfl⟩
  · rintro ⟨neg, tok, hf, hw, hr, rfl⟩
    exact ⟨neg, tok, litDec tok, hf, (scan_ok_iff tok _).mpr ⟨⟨hw, hr⟩, rfl⟩, rfl⟩

theorem toRat_flipSign (d : PDec) : (flipSign d).toRat = - d.toRat := by
  unfold flipSign PDec.toRat
  cases d.neg <;> simp

theorem toRat_ofPDec (d : PDec) : (ofPDec d).toRat = d.toRat := rfl

/-- **value of a number cell**: whatever `str_to_comma_decimal` returns for a (non-empty) cell is the literal written
in it (`Spec.litValue` of the number token, its own minus included), negated when the cell has a leading minus;
mantissa digits and the number of decimal places are the token's. -/
theorem C16_cell_value (s : List Char) (x : Dec) (h : cellDecimalL s = some x) :
    ∃ neg tok com, CellForm s neg tok com ∧ Spec.WellFormedLiteral tok = true ∧ Spec.Representable tok = true ∧
      x.toRat = (if neg then - Spec.litValue tok else Spec.litValue tok) ∧
      x.scale = Spec.litScale tok ∧ x.mant = Spec.litMant tok ∧
      x.neg = (neg != (Spec.isNegative tok && Spec.litMant tok != 0)) := by
  unfold cellDecimalL at h
  cases ha : cellAmount s with
  | none => simp [ha] at h
  | some vc =>
    obtain ⟨v, c⟩ := vc
    simp only [ha, Option.map_some, Option.some.injEq] at h
    subst h
    obtain ⟨neg, tok, hf, hw, hr, rfl⟩ := (C16_cell_exact s v c).mp ha
    refine ⟨neg, tok, c, hf, hw, hr, ?_, ?_, ?_, ?_⟩
    · rw [toRat_ofPDec]
      cases neg
      · simp [litDec_toRat]
      · simp [toRat_flipSign, litDec_toRat]
    · cases neg <;> rfl
    · cases neg <;> rfl
    · cases neg <;> simp [ofPDec, flipSign, litDec]

/-- every written form with a well-formed literal within range is accepted (completeness) -/
theorem C16_cell_complete (s : List Char) (neg : Bool) (tok com : List Char) (hf : CellForm s neg tok com)
    (hw : Spec.WellFormedLiteral tok = true) (hr : Spec.Representable tok = true) :
    cellDecimalL s = some (ofPDec (if neg then flipSign (litDec tok) else litDec tok)) := by
  unfold cellDecimalL
  rw [(C16_cell_exact s _ com).mpr ⟨neg, tok, hf, hw, hr, rfl⟩]
  rfl

/-- everything else is rejected (`failed to parse comma decimal`) -/
theorem C16_cell_reject (s : List Char) :
    cellDecimalL s = none ↔
      ¬ ∃ neg tok com, CellForm s neg tok com ∧ Spec.WellFormedLiteral tok = true ∧ Spec.Representable tok = true := by
  constructor
  · intro h ⟨neg, tok, com, hf, hw, hr⟩
    rw [C16_cell_complete s neg tok com hf hw hr] at h
    cases h
  · intro h
    cases hx : cellDecimalL s with
    | none => rfl
    | some x =>
      obtain ⟨neg, tok, com, hf, hw, hr, _⟩ := C16_cell_value s x hx
      exact absurd ⟨neg, tok, com, hf, hw, hr⟩ h

/-! ### one flip per written minus -/

theorem isNegative_iff (s : List Char) : Spec.isNegative s = true ↔ ∃ r, s = '-' :: r := by
  unfold Spec.isNegative
  split
  · rename_i r; exact ⟨fun _ => ⟨r, rfl⟩, fun _ => rfl⟩
  · rename_i h
    constructor
    · intro h0; cases h0
    · rintro ⟨r, hr⟩; exact absurd hr (h r)

theorem stripMinus_of_not_neg {s : List Char} (h : Spec.isNegative s = false) : Spec.stripMinus s = s := by
  unfold Spec.stripMinus
  split
  · rename_i r; rw [(isNegative_iff _).mpr ⟨r, rfl⟩] at h; cases h
  · rfl

theorem isNegative_cons_ne {c : Char} (r : List Char) (hc : c ≠ '-') : Spec.isNegative (c :: r) = false := by
  cases h : Spec.isNegative (c :: r) with
  | false => rfl
  | true =>
    obtain ⟨r', hr'⟩ := (isNegative_iff _).mp h
    injection hr' with h1 _
    exact absurd h1 hc

theorem isNegative_token_body {tok : List Char} (h : IsToken tok) : Spec.isNegative (Spec.stripMinus tok) = false := by
  obtain ⟨run, ⟨hne, hall⟩, h | h⟩ := h
  · subst h
    cases run with
    | nil => exact absurd rfl hne
    | cons x r => exact isNegative_cons_ne r (numChar_ne_minus (hall x (by simp)))
  · subst h
    cases tok with
    | nil => exact absurd rfl hne
    | cons x r =>
      have hx : x ≠ '-' := numChar_ne_minus (hall x (by simp))
      rw [stripMinus_of_not_neg (isNegative_cons_ne r hx)]
      exact isNegative_cons_ne r hx

theorem litValue_strip (tok : List Char) (h : Spec.isNegative (Spec.stripMinus tok) = false) :
    Spec.litValue tok = if Spec.isNegative tok then - Spec.litValue (Spec.stripMinus tok) else Spec.litValue (Spec.stripMinus tok) := by
  cases hn : Spec.isNegative tok with
  | false => rw [stripMinus_of_not_neg hn]; simp
  | true =>
    obtain ⟨r, rfl⟩ := (isNegative_iff _).mp hn
    have h' : Spec.isNegative r = false := h
    have hm : Spec.litMant ('-' :: r) = Spec.litMant r := by
      simp [Spec.litMant, List.filter]
    have hsc : Spec.litScale ('-' :: r) = Spec.litScale r := by
      unfold Spec.litScale Spec.fracPart
      rw [stripMinus_of_not_neg h']
      rfl
    have hs : Spec.stripMinus ('-' :: r) = r := rfl
    rw [hs]
    simp only [Spec.litValue, hn, h', hm, hsc, if_true, Bool.false_eq_true, if_false]

/-- number of minus signs the cell writes: the leading one and the number token's own -/
def minusCount (neg : Bool) (tok : List Char) : Nat := neg.toNat + (Spec.isNegative tok).toNat

/-- **the sign is flipped once per written minus**: the value is the unsigned literal times `(-1)^(number of minus
signs written)` — `--x` is `x`, `-$-x` is `x`, `$-x` and `-x` and `-$x` are `-x`. -/
theorem C16_cell_sign (s : List Char) (x : Dec) (h : cellDecimalL s = some x) :
    ∃ neg tok com, CellForm s neg tok com ∧
      x.toRat = (-1 : Rat) ^ minusCount neg tok * Spec.litValue (Spec.stripMinus tok) := by
  obtain ⟨neg, tok, com, hf, _, _, hv, _⟩ := C16_cell_value s x h
  refine ⟨neg, tok, com, hf, ?_⟩
  obtain ⟨_, _, ht, _, _⟩ := hf
  rw [hv, litValue_strip tok (isNegative_token_body ht)]
  unfold minusCount
  cases neg <;> cases Spec.isNegative tok <;> simp <;> grind

/-! ## Templates -/

/-- the predicate `take_till(1.., b"{}")` keeps taking on -/
def nb (c : Char) : Bool := !isBrace c

/-- one element of the `repeat`, in closed form -/
def segSpec : List Char → Option (Seg × List Char)
  | '{' :: rest =>
    match rest.dropWhile nb with
    | '}' :: r' =>
      if rest.takeWhile nb = [] then none else (templateKeyFromStr (rest.takeWhile nb)).map fun s => (s, r')
    | _ => none
  | i => if i.takeWhile nb = [] then none else some (.lit (String.ofList (i.takeWhile nb)), i.dropWhile nb)

theorem takeTill1_eq (i : List Char) :
    takeTill1 isBrace i = if i.takeWhile nb = [] then .bt i else .ok (i.takeWhile nb) (i.dropWhile nb) := by
  cases i with
  | nil => rfl
  | cons c r =>
    by_cases hc : isBrace c = true
    · simp [takeTill1, takeWhile1, nb, hc]
    · have hc' : isBrace c = false := by simpa using hc
      simp [takeTill1, takeWhile1, nb, hc']
      exact ⟨rfl, rfl⟩

theorem segment_closed (i : List Char) :
    (∃ s r, segSpec i = some (s, r) ∧ segment i = .ok s r) ∨ (segSpec i = none ∧ ∃ p, segment i = .bt p) := by
  cases i with
  | nil => right; exact ⟨rfl, [], rfl⟩
  | cons c rest =>
    by_cases hc : c = '{'
    · subst hc
      have hlit : litSeg ('{' :: rest) = .bt ('{' :: rest) := by
        simp [litSeg, Comb.map, takeTill1_eq, nb, isBrace]
      simp only [segSpec, segment, alt2, refSeg, delimited, preceded, terminated, Comb.bind, Comb.map, char, oneOf,
        beq_self_eq_true, if_true, Res.andThen_ok, tryMap, takeTill1_eq]
      by_cases hk : rest.takeWhile nb = []
      · right
        simp only [hk, if_true, Res.andThen_bt, hlit]
        refine ⟨?_, _, rfl⟩
        split <;> rfl
      · simp only [hk, if_false]
        cases hf : templateKeyFromStr (rest.takeWhile nb) with
        | none =>
          right
          simp only [Res.andThen_bt, hlit, Option.map_none]
          refine ⟨?_, _, rfl⟩
          split <;> rfl
        | some sg =>
          simp only [Res.andThen_ok, Option.map_some]
          cases hd : rest.dropWhile nb with
          | nil => right; simp [hlit, Comb.map, oneOf]
          | cons d r' =>
            by_cases hd' : d = '}'
            · subst hd'; left; exact ⟨sg, r', rfl, by simp [Comb.map, oneOf]⟩
            · right
              have : (d == '}') = false := by simpa using hd'
              simp only [Comb.map, oneOf, this, Bool.false_eq_true, if_false, Res.map_bt, hlit]
              refine ⟨?_, _, rfl⟩
              split
              · rename_i h; injection h with h1 _; exact absurd h1 hd'
              · rfl
    · have hne : (c == '{') = false := by simpa using hc
      have hs : segSpec (c :: rest) = if (c :: rest).takeWhile nb = [] then none
          else some (.lit (String.ofList ((c :: rest).takeWhile nb)), (c :: rest).dropWhile nb) := by
        unfold segSpec
        split
        · rename_i h; injection h with h1 _; exact absurd h1 hc
        · rfl
      rw [hs]
      simp only [segment, alt2, refSeg, delimited, preceded, terminated, Comb.bind, char, oneOf, hne, Bool.false_eq_true,
        if_false, Res.andThen_bt, litSeg, Comb.map, takeTill1_eq]
      by_cases hk : (c :: rest).takeWhile nb = []
      · right; simp [hk]
      · left; simp [hk]

theorem headNot_dropWhile (p : Char → Bool) : ∀ (l : List Char), HeadNot p (l.dropWhile p) := by
  intro l
  induction l with
  | nil => exact headNot_nil p
  | cons x r ih =>
    by_cases hx : p x = true
    · simpa [List.dropWhile, hx] using ih
    · have hx' : p x = false := by simpa using hx
      simpa [List.dropWhile, hx'] using headNot_cons (r := r) hx'

/-- the elements of the repetition: `Segs i ss r` — from `i`, the `repeat` collects `ss` and stops at `r`
(where neither alternative applies) -/
inductive Segs : List Char → List Seg → List Char → Prop where
  | stop (i : List Char) (h : segSpec i = none) : Segs i [] i
  | step {i r r' : List Char} {s : Seg} {ss : List Seg} (h : segSpec i = some (s, r)) (t : Segs r ss r') : Segs i (s :: ss) r'

/-- no brace in the text -/
def NoBrace (t : List Char) : Prop := ∀ c ∈ t, isBrace c = false

theorem noBrace_nb {t : List Char} (h : NoBrace t) : ∀ c ∈ t, nb c = true := by
  intro c hc; simp [nb, h c hc]

theorem nb_noBrace {t : List Char} (h : ∀ c ∈ t, nb c = true) : NoBrace t := by
  intro c hc; simpa [nb] using h c hc

/-- the list is empty or starts with a brace -/
def HeadBrace (l : List Char) : Prop := HeadNot nb l

theorem segSpec_ref {k r : List Char} {s : Seg} (hk : k ≠ []) (hb : NoBrace k) (hs : templateKeyFromStr k = some s) :
    segSpec ('{' :: (k ++ '}' :: r)) = some (s, r) := by
  have := takeWhile_stop (p := nb) (a := k) (b := '}' :: r) (noBrace_nb hb) (headNot_cons (by decide))
  simp only [segSpec, this.1, this.2, hk, if_false, hs, Option.map_some]

theorem segSpec_not_ref {c : Char} (rest : List Char) (hc : c ≠ '{') :
    segSpec (c :: rest) = if (c :: rest).takeWhile nb = [] then none
      else some (.lit (String.ofList ((c :: rest).takeWhile nb)), (c :: rest).dropWhile nb) := by
  unfold segSpec
  split
  · rename_i h; injection h with h1 _; exact absurd h1 hc
  · rfl

theorem segSpec_lit {t r : List Char} (ht : t ≠ []) (hb : NoBrace t) (hr : HeadBrace r) :
    segSpec (t ++ r) = some (.lit (String.ofList t), r) := by
  have := takeWhile_stop (p := nb) (a := t) (b := r) (noBrace_nb hb) hr
  cases t with
  | nil => exact absurd rfl ht
  | cons c t' =>
    have hc : c ≠ '{' := by
      intro h; subst h; exact absurd (hb '{' (by simp)) (by decide)
    rw [List.cons_append, segSpec_not_ref _ hc, ← List.cons_append, this.1, this.2]
    simp

theorem segSpec_nil : segSpec [] = none := rfl

/-- what one successful element is -/
theorem segSpec_inv {i r : List Char} {s : Seg} (h : segSpec i = some (s, r)) :
    (∃ k, k ≠ [] ∧ NoBrace k ∧ i = '{' :: (k ++ '}' :: r) ∧ templateKeyFromStr k = some s) ∨
    (∃ t, t ≠ [] ∧ NoBrace t ∧ HeadBrace r ∧ i = t ++ r ∧ s = .lit (String.ofList t)) := by
  cases i with
  | nil => simp [segSpec] at h
  | cons c rest =>
    by_cases hc : c = '{'
    · subst hc
      left
      simp only [segSpec] at h
      split at h
      · rename_i r' hd
        by_cases hk : rest.takeWhile nb = []
        · simp [hk] at h
        · simp only [hk, if_false] at h
          cases hf : templateKeyFromStr (rest.takeWhile nb) with
          | none => simp [hf] at h
          | some sg =>
            simp only [hf, Option.map_some, Option.some.injEq, Prod.mk.injEq] at h
            obtain ⟨rfl, rfl⟩ := h
            refine ⟨rest.takeWhile nb, hk, nb_noBrace (takeWhile_all _), ?_, hf⟩
            rw [← hd, List.takeWhile_append_dropWhile]
      · cases h
    · right
      rw [segSpec_not_ref _ hc] at h
      by_cases hk : (c :: rest).takeWhile nb = []
      · simp [hk] at h
      · simp only [hk, if_false, Option.some.injEq, Prod.mk.injEq] at h
        obtain ⟨rfl, rfl⟩ := h
        exact ⟨_, hk, nb_noBrace (takeWhile_all _), headNot_dropWhile nb _, (List.takeWhile_append_dropWhile).symm, rfl⟩

theorem segSpec_consumes {i r : List Char} {s : Seg} (h : segSpec i = some (s, r)) : r.length < i.length := by
  rcases segSpec_inv h with ⟨k, _, _, rfl, _⟩ | ⟨t, ht, _, _, rfl, _⟩
  · simp; omega
  · cases t with
    | nil => exact absurd rfl ht
    | cons c t' => simp; omega

/-- the `repeat` loop with enough fuel computes `Segs`: it never panics (the "parsers must always consume" assertion is
unreachable), never runs out of fuel, never cuts. -/
theorem loop_segs : ∀ (n : Nat) (i : List Char) (acc : List Seg), i.length < n →
    ∃ ss r, repeat0Loop segment n i acc = .ok (acc ++ ss) r ∧ Segs i ss r := by
  intro n
  induction n with
  | zero => intro i acc h; omega
  | succ n ih =>
    intro i acc hn
    rcases segment_closed i with ⟨s, r, hs, hseg⟩ | ⟨hs, p, hseg⟩
    · have hlt := segSpec_consumes hs
      obtain ⟨ss, r', h1, h2⟩ := ih r (acc ++ [s]) (by omega)
      refine ⟨s :: ss, r', ?_, .step hs h2⟩
      simp only [repeat0Loop, hseg]
      rw [if_neg (by omega), h1]
      simp
    · exact ⟨[], i, by simp [repeat0Loop, hseg], .stop i hs⟩

theorem segs_functional {i : List Char} {ss ss' : List Seg} {r r' : List Char} (h : Segs i ss r) (h' : Segs i ss' r') :
    ss = ss' ∧ r = r' := by
  induction h generalizing ss' r' with
  | stop i hn =>
    cases h' with
    | stop _ _ => exact ⟨rfl, rfl⟩
    | step hs _ => rw [hn] at hs; cases hs
  | step hs _ ih =>
    cases h' with
    | stop _ hn => rw [hn] at hs; cases hs
    | step hs' t' =>
      rw [hs] at hs'
      simp only [Option.some.injEq, Prod.mk.injEq] at hs'
      obtain ⟨rfl, rfl⟩ := hs'
      obtain ⟨rfl, rfl⟩ := ih t'
      exact ⟨rfl, rfl⟩

/-- **totality of the template parser**: a list of segments with the input consumed, or a backtrack
(`ParseError::InvalidTemplate`); no panic, no fuel, no cut. -/
theorem templateParse_total (s : List Char) : (∃ segs, templateParse s = .ok segs []) ∨ (∃ p, templateParse s = .bt p) := by
  obtain ⟨ss, r, h1, _⟩ := loop_segs (s.length + 1) s [] (by omega)
  unfold templateParse parseAll terminated segments repeat0
  simp only [Comb.bind, h1, Res.andThen_ok, List.nil_append]
  cases r with
  | nil => exact Or.inl ⟨ss, by simp [Comb.map, eof]⟩
  | cons c r => exact Or.inr ⟨c :: r, by simp [Comb.map, eof]⟩

theorem parseTemplateL_iff_segs (s : List Char) (segs : List Seg) : parseTemplateL s = some segs ↔ Segs s segs [] := by
  obtain ⟨ss, r, h1, h2⟩ := loop_segs (s.length + 1) s [] (by omega)
  have hp : templateParse s = match r with | [] => .ok ss [] | c :: r' => .bt (c :: r') := by
    unfold templateParse parseAll terminated segments repeat0
    simp only [Comb.bind, h1, Res.andThen_ok, List.nil_append]
    cases r <;> simp [Comb.map, eof]
  unfold parseTemplateL
  rw [hp]
  constructor
  · intro h
    cases r with
    | nil => simp only [Option.some.injEq] at h; subst h; exact h2
    | cons c r' => cases h
  · intro h
    obtain ⟨rfl, rfl⟩ := segs_functional h2 h
    rfl

/-! ### the written form of a template -/

/-- a template as written: runs of literal text and `{key}` references -/
inductive WSeg where
  | lit (t : List Char)
  | ref (key : List Char)
  deriving Repr, DecidableEq

namespace WSeg
def text : WSeg → List Char
  | lit t => t
  | ref k => '{' :: (k ++ ['}'])
def isLit : WSeg → Bool
  | lit _ => true
  | ref _ => false
/-- a literal run is non-empty and has no brace; a key is non-empty and has no brace -/
def WF : WSeg → Prop
  | lit t => t ≠ [] ∧ NoBrace t
  | ref k => k ≠ [] ∧ NoBrace k
/-- what a written segment means: the literal text itself; the key through `template_key_from_str` -/
def meaning : WSeg → Option Seg
  | lit t => some (.lit (String.ofList t))
  | ref k => templateKeyFromStr k
end WSeg

def spell (ws : List WSeg) : List Char := ws.flatMap WSeg.text

/-- literal runs are maximal: no two in a row -/
def NoAdjLit : List WSeg → Prop
  | [] => True
  | w :: ws => (w.isLit = true → ∀ w' ws', ws = w' :: ws' → w'.isLit = false) ∧ NoAdjLit ws

/-- the meanings of all segments (fails if one key is not a valid key) -/
def meanings : List WSeg → Option (List Seg)
  | [] => some []
  | w :: ws =>
    match w.meaning, meanings ws with
    | some s, some ss => some (s :: ss)
    | _, _ => none

theorem spell_cons (w : WSeg) (ws : List WSeg) : spell (w :: ws) = w.text ++ spell ws := by
  simp [spell]

theorem headBrace_spell {w : WSeg} {ws : List WSeg} (h : w.isLit = false) (r : List Char) : HeadBrace (spell (w :: ws) ++ r) := by
  cases w with
  | lit t => cases h
  | ref k => rw [spell_cons]; exact headNot_cons (by decide)

theorem segs_of_written : ∀ (ws : List WSeg) (segs : List Seg), (∀ w ∈ ws, w.WF) → NoAdjLit ws → meanings ws = some segs →
    Segs (spell ws) segs [] := by
  intro ws
  induction ws with
  | nil =>
    intro segs _ _ hm
    simp only [meanings, Option.some.injEq] at hm
    subst hm
    exact .stop [] segSpec_nil
  | cons w ws ih =>
    intro segs hwf hadj hm
    simp only [meanings] at hm
    cases hw : w.meaning with
    | none => simp [hw] at hm
    | some s =>
      cases hws : meanings ws with
      | none => simp [hw, hws] at hm
      | some ss =>
        simp only [hw, hws, Option.some.injEq] at hm
        subst hm
        have hrec := ih ss (fun w' h' => hwf w' (by simp [h'])) hadj.2 hws
        rw [spell_cons]
        have hw1 := hwf w (by simp)
        cases w with
        | ref k =>
          have : WSeg.text (.ref k) ++ spell ws = '{' :: (k ++ '}' :: spell ws) := by simp [WSeg.text]
          rw [this]
          exact .step (segSpec_ref hw1.1 hw1.2 hw) hrec
        | lit t =>
          simp only [WSeg.meaning, Option.some.injEq] at hw
          subst hw
          have hb : HeadBrace (spell ws) := by
            cases ws with
            | nil => exact headNot_nil _
            | cons w' ws' =>
              have := hadj.1 rfl w' ws' rfl
              simpa using headBrace_spell (ws := ws') this []
          exact .step (segSpec_lit hw1.1 hw1.2 hb) hrec

theorem written_of_segs {i r : List Char} {segs : List Seg} (h : Segs i segs r) :
    ∃ ws, i = spell ws ++ r ∧ (∀ w ∈ ws, w.WF) ∧ NoAdjLit ws ∧ meanings ws = some segs := by
  induction h with
  | stop i _ => exact ⟨[], by simp [spell], fun w hw => (by cases hw), trivial, rfl⟩
  | @step i r1 r' s ss hs _ ih =>
    obtain ⟨ws, hr, hwf, hadj, hm⟩ := ih
    rcases segSpec_inv hs with ⟨k, hk, hb, rfl, hkey⟩ | ⟨t, ht, hb, hhead, rfl, rfl⟩
    · refine ⟨.ref k :: ws, ?_, ?_, ⟨fun h => (by cases h), hadj⟩, ?_⟩
      · rw [spell_cons, hr]; simp [WSeg.text]
      · intro w hw
        rcases List.mem_cons.mp hw with rfl | hw
        · exact ⟨hk, hb⟩
        · exact hwf w hw
      · simp [meanings, WSeg.meaning, hkey, hm]
    · refine ⟨.lit t :: ws, ?_, ?_, ⟨?_, hadj⟩, ?_⟩
      · rw [spell_cons, hr]; simp [WSeg.text]
      · intro w hw
        rcases List.mem_cons.mp hw with rfl | hw
        · exact ⟨ht, hb⟩
        · exact hwf w hw
      · intro _ w' ws' hws
        subst hws
        cases w' with
        | ref _ => rfl
        | lit t' =>
          exfalso
          have hw' := hwf (.lit t') (by simp)
          cases t' with
          | nil => exact hw'.1 rfl
          | cons c t'' =>
            have h1 : nb c = false := hhead c (t'' ++ spell ws' ++ r') (by rw [hr, spell_cons]; simp [WSeg.text])
            have h2 : isBrace c = false := hw'.2 c (by simp)
            simp [nb, h2] at h1
      · simp [meanings, WSeg.meaning, hm]

/-- **`Template::from_str` accepts exactly** the texts that are a sequence of non-empty brace-free literal runs and
`{key}` references (key non-empty, brace-free, and valid for `template_key_from_str`), literal runs being maximal;
the segments are the meanings of the written ones, in order.  Everything else is `InvalidTemplate`. -/
theorem C16_template_exact (s : List Char) (segs : List Seg) :
    parseTemplateL s = some segs ↔
      ∃ ws, s = spell ws ∧ (∀ w ∈ ws, w.WF) ∧ NoAdjLit ws ∧ meanings ws = some segs := by
  rw [parseTemplateL_iff_segs]
  constructor
  · intro h
    obtain ⟨ws, h1, h2, h3, h4⟩ := written_of_segs h
    exact ⟨ws, by simpa using h1, h2, h3, h4⟩
  · rintro ⟨ws, rfl, h2, h3, h4⟩
    exact segs_of_written ws segs h2 h3 h4

/-! ### printing and re-reading (`Display for Template`) -/

/-- the field keys a template can name -/
def Nameable (k : FieldKey) : Prop :=
  k = .date ∨ k = .payee ∨ k = .category ∨ k = .note ∨ k = .commodity ∨ k = .secondaryCommodity

/-- a segment `from_str` can produce: a non-empty brace-free literal, a nameable key, a column number within `usize` -/
def CanonSeg : Seg → Prop
  | .lit s => s.toList ≠ [] ∧ NoBrace s.toList
  | .named k => Nameable k
  | .indexed i => i + 1 ≤ usizeMax

def segIsLit : Seg → Bool
  | .lit _ => true
  | _ => false

/-- no two literal segments in a row -/
def SegsNoAdjLit : List Seg → Prop
  | [] => True
  | s :: ss => (segIsLit s = true → ∀ s' ss', ss = s' :: ss' → segIsLit s' = false) ∧ SegsNoAdjLit ss

/-- the canonical spelling of a segment (what `Display` writes) -/
def canon : Seg → WSeg
  | .lit s => .lit s.toList
  | .named k => .ref (keyStr k)
  | .indexed i => .ref (natDigits (i + 1))

theorem printSeg_eq (s : Seg) : printSeg s = (canon s).text := by
  cases s <;> simp [printSeg, canon, WSeg.text]

theorem printTemplateL_eq (segs : List Seg) : printTemplateL segs = spell (segs.map canon) := by
  unfold printTemplateL spell
  induction segs with
  | nil => rfl
  | cons s ss ih => simp [printSeg_eq, ih]

theorem digit_not_brace {c : Char} (h : c.isDigit = true) : isBrace c = false := by
  rcases digit_cases h with rfl | rfl | rfl | rfl | rfl | rfl | rfl | rfl | rfl | rfl <;> decide

theorem parseUsize_digits (n : Nat) (h : n ≤ usizeMax) : parseUsize (digits n) = some n := by
  have := foldMant_digits n
  unfold foldMant at this
  simp [parseUsize, this, h]

theorem keyFromStr_digits (i : Nat) (h : i + 1 ≤ usizeMax) : templateKeyFromStr (natDigits (i + 1)) = some (.indexed i) := by
  unfold templateKeyFromStr natDigits
  rw [digits_all, if_pos rfl, parseUsize_digits _ h]
  simp

theorem keyFromStr_named {k : FieldKey} (h : Nameable k) : templateKeyFromStr (keyStr k) = some (.named k) := by
  rcases h with rfl | rfl | rfl | rfl | rfl | rfl <;> decide

theorem noBrace_of_all {t : List Char} (h : t.all (fun c => !isBrace c) = true) : NoBrace t := by
  intro c hc
  simpa using (List.all_eq_true.mp h) c hc

theorem keyStr_wf (k : FieldKey) : keyStr k ≠ [] ∧ NoBrace (keyStr k) := by
  constructor
  · cases k <;> decide
  · apply noBrace_of_all
    cases k <;> decide

theorem namedKey_inv {k : List Char} {key : FieldKey} (h : namedKey k = some key) : Nameable key ∧ k = keyStr key := by
  unfold namedKey at h
  split at h
  · rename_i hk; injection h with h; subst h; exact ⟨by simp [Nameable], hk⟩
  split at h
  · rename_i hk; injection h with h; subst h; exact ⟨by simp [Nameable], hk⟩
  split at h
  · rename_i hk; injection h with h; subst h; exact ⟨by simp [Nameable], hk⟩
  split at h
  · rename_i hk; injection h with h; subst h; exact ⟨by simp [Nameable], hk⟩
  split at h
  · rename_i hk; injection h with h; subst h; exact ⟨by simp [Nameable], hk⟩
  split at h
  · rename_i hk; injection h with h; subst h; exact ⟨by simp [Nameable], hk⟩
  · cases h

theorem keyFromStr_inv {k : List Char} {s : Seg} (h : templateKeyFromStr k = some s) :
    (k.all Char.isDigit = true ∧ ∃ v, parseUsize k = some v ∧ v ≠ 0 ∧ s = .indexed (v - 1)) ∨
    (∃ key, Nameable key ∧ k = keyStr key ∧ s = .named key) := by
  unfold templateKeyFromStr at h
  split at h
  · rename_i hd
    left
    refine ⟨hd, ?_⟩
    split at h
    · rename_i v hv
      by_cases h0 : v = 0
      · simp [h0] at h
      · simp only [h0, if_false, Option.some.injEq] at h
        exact ⟨v, hv, h0, h.symm⟩
    · cases h
  · right
    cases hn : namedKey k with
    | none => simp [hn] at h
    | some key =>
      simp only [hn, Option.map_some, Option.some.injEq] at h
      obtain ⟨h1, h2⟩ := namedKey_inv hn
      exact ⟨key, h1, h2, h.symm⟩

theorem parseUsize_le {k : List Char} {v : Nat} (h : parseUsize k = some v) : v ≤ usizeMax ∧ v = foldMant 0 k := by
  unfold parseUsize at h
  simp only at h
  split at h
  · rename_i hle
    injection h with h
    subst h
    exact ⟨hle, rfl⟩
  · cases h

/-- canonical segments are spelled well-formed and mean themselves -/
theorem canon_spec {s : Seg} (h : CanonSeg s) : (canon s).WF ∧ (canon s).meaning = some s ∧ (canon s).isLit = segIsLit s := by
  cases s with
  | lit str =>
    refine ⟨h, ?_, rfl⟩
    simp [canon, WSeg.meaning]
  | named k => exact ⟨keyStr_wf k, keyFromStr_named h, rfl⟩
  | indexed i =>
    refine ⟨⟨?_, ?_⟩, keyFromStr_digits i h, rfl⟩
    · intro h0
      have := digits_length_pos (i + 1)
      simp [natDigits] at h0
      rw [h0] at this
      simp at this
    · intro c hc
      have := digits_all (i + 1)
      exact digit_not_brace ((List.all_eq_true.mp this) c hc)

/-- what a well-formed written segment means is canonical -/
theorem meaning_canon {w : WSeg} {s : Seg} (hw : w.WF) (h : w.meaning = some s) : CanonSeg s ∧ segIsLit s = w.isLit := by
  cases w with
  | lit t =>
    simp only [WSeg.meaning, Option.some.injEq] at h
    subst h
    refine ⟨?_, rfl⟩
    have hw' : t ≠ [] ∧ NoBrace t := hw
    simpa [CanonSeg] using hw'
  | ref k =>
    rcases keyFromStr_inv h with ⟨_, v, hv, h0, rfl⟩ | ⟨key, hn, _, rfl⟩
    · refine ⟨?_, rfl⟩
      have := (parseUsize_le hv).1
      show v - 1 + 1 ≤ usizeMax
      omega
    · exact ⟨hn, rfl⟩

theorem noAdj_map_canon : ∀ (segs : List Seg), (∀ s ∈ segs, CanonSeg s) → SegsNoAdjLit segs → NoAdjLit (segs.map canon) := by
  intro segs
  induction segs with
  | nil => intro _ _; trivial
  | cons s ss ih =>
    intro hc hn
    refine ⟨?_, ih (fun x hx => hc x (by simp [hx])) hn.2⟩
    intro hl w' ws' hws
    cases ss with
    | nil => cases hws
    | cons s' ss' =>
      simp only [List.map_cons, List.cons.injEq] at hws
      rw [← hws.1, (canon_spec (hc s' (by simp))).2.2]
      rw [(canon_spec (hc s (by simp))).2.2] at hl
      exact hn.1 hl s' ss' rfl

theorem meanings_map_canon : ∀ (segs : List Seg), (∀ s ∈ segs, CanonSeg s) → meanings (segs.map canon) = some segs := by
  intro segs
  induction segs with
  | nil => intro _; rfl
  | cons s ss ih =>
    intro hc
    simp [meanings, (canon_spec (hc s (by simp))).2.1, ih (fun x hx => hc x (by simp [hx]))]

/-- **print, then parse**: every list of canonical segments without two literals in a row is read back exactly from its
`Display` text. -/
theorem C16_template_print_parse (segs : List Seg) (hc : ∀ s ∈ segs, CanonSeg s) (hn : SegsNoAdjLit segs) :
    parseTemplateL (printTemplateL segs) = some segs := by
  rw [C16_template_exact]
  refine ⟨segs.map canon, printTemplateL_eq segs, ?_, noAdj_map_canon segs hc hn, meanings_map_canon segs hc⟩
  intro w hw
  obtain ⟨s, hs, rfl⟩ := List.mem_map.mp hw
  exact (canon_spec (hc s hs)).1

theorem canonical_of_written : ∀ (ws : List WSeg) (segs : List Seg), (∀ w ∈ ws, w.WF) → NoAdjLit ws → meanings ws = some segs →
    (∀ s ∈ segs, CanonSeg s) ∧ SegsNoAdjLit segs ∧ (∀ w s ws' ss', ws = w :: ws' → segs = s :: ss' → segIsLit s = w.isLit) := by
  intro ws
  induction ws with
  | nil =>
    intro segs _ _ hm
    simp only [meanings, Option.some.injEq] at hm
    subst hm
    exact ⟨fun s hs => (by cases hs), trivial, fun w s ws' ss' h => (by cases h)⟩
  | cons w ws ih =>
    intro segs hwf hadj hm
    simp only [meanings] at hm
    cases hw : w.meaning with
    | none => simp [hw] at hm
    | some s =>
      cases hws : meanings ws with
      | none => simp [hw, hws] at hm
      | some ss =>
        simp only [hw, hws, Option.some.injEq] at hm
        subst hm
        obtain ⟨h1, h2, h3⟩ := ih ss (fun w' h' => hwf w' (by simp [h'])) hadj.2 hws
        obtain ⟨g1, g2⟩ := meaning_canon (hwf w (by simp)) hw
        refine ⟨?_, ⟨?_, h2⟩, ?_⟩
        · intro x hx
          rcases List.mem_cons.mp hx with rfl | hx
          · exact g1
          · exact h1 x hx
        · intro hl s' ss' hss
          cases ws with
          | nil => simp [meanings] at hws; subst hws; cases hss
          | cons w' ws' =>
            rw [h3 w' s' ws' ss' rfl hss]
            exact hadj.1 (by rw [← g2]; exact hl) w' ws' rfl
        · intro w0 s0 ws0 ss0 e1 e2
          injection e1 with e1 _
          injection e2 with e2 _
          subst e1; subst e2
          exact g2

/-- **what `from_str` returns is canonical** -/
theorem C16_template_parse_canonical (s : List Char) (segs : List Seg) (h : parseTemplateL s = some segs) :
    (∀ x ∈ segs, CanonSeg x) ∧ SegsNoAdjLit segs := by
  obtain ⟨ws, _, h2, h3, h4⟩ := (C16_template_exact s segs).mp h
  obtain ⟨g1, g2, _⟩ := canonical_of_written ws segs h2 h3 h4
  exact ⟨g1, g2⟩

/-- **parse / print round trip**: the `Display` text of a parsed template parses to the same template (printing is a
normal form: `parse ∘ print ∘ parse = parse`). -/
theorem C16_template_roundtrip (s : List Char) (segs : List Seg) (h : parseTemplateL s = some segs) :
    parseTemplateL (printTemplateL segs) = some segs := by
  obtain ⟨h1, h2⟩ := C16_template_parse_canonical s segs h
  exact C16_template_print_parse segs h1 h2

/-! ### when printing gives back the very text -/

theorem digitChar_digitVal {c : Char} (h : c.isDigit = true) : digitChar (digitVal c) = c := by
  rcases digit_cases h with rfl | rfl | rfl | rfl | rfl | rfl | rfl | rfl | rfl | rfl <;> decide

theorem digitVal_lt {c : Char} (h : c.isDigit = true) : digitVal c < 10 := by
  rcases digit_cases h with rfl | rfl | rfl | rfl | rfl | rfl | rfl | rfl | rfl | rfl <;> decide

theorem digits_foldMant_acc : ∀ (k : List Char) (m : Nat), 1 ≤ m → k.all Char.isDigit = true →
    digits (foldMant m k) = digits m ++ k := by
  intro k
  induction k with
  | nil => intro m _ _; simp
  | cons c k ih =>
    intro m hm hk
    simp only [List.all_cons, Bool.and_eq_true] at hk
    have hd := digitVal_lt hk.1
    rw [foldMant_cons, ih (m * 10 + digitVal c) (by omega) hk.2]
    have : digits (m * 10 + digitVal c) = digits m ++ [c] := by
      rw [digits]
      have h10 : ¬ (m * 10 + digitVal c < 10) := by omega
      simp only [h10, dite_false]
      have h1 : (m * 10 + digitVal c) / 10 = m := by omega
      have h2 : (m * 10 + digitVal c) % 10 = digitVal c := by omega
      rw [h1, h2, digitChar_digitVal hk.1]
    rw [this]
    simp

/-- a column number written without leading zero is printed as written -/
theorem digits_foldMant {c : Char} {k : List Char} (hk : (c :: k).all Char.isDigit = true) (h0 : c ≠ '0') :
    digits (foldMant 0 (c :: k)) = c :: k := by
  simp only [List.all_cons, Bool.and_eq_true] at hk
  have hd := digitVal_lt hk.1
  have h1 : 1 ≤ digitVal c := by
    rcases digit_cases hk.1 with rfl | rfl | rfl | rfl | rfl | rfl | rfl | rfl | rfl | rfl <;> first | exact absurd rfl h0 | decide
  rw [foldMant_cons]
  simp only [Nat.zero_mul, Nat.zero_add]
  rw [digits_foldMant_acc k _ h1 hk.2]
  rw [digits]
  simp [hd, digitChar_digitVal hk.1]

/-- the spelling of a key is canonical: a field name, or a column number without leading zero -/
def CanonKey (k : List Char) : Prop := k.all Char.isDigit = true → ∀ r, k ≠ '0' :: r

def WSeg.CanonSpelled : WSeg → Prop
  | .lit _ => True
  | .ref k => CanonKey k

theorem canon_meaning {w : WSeg} {s : Seg} (hw : w.WF) (hc : w.CanonSpelled) (h : w.meaning = some s) : canon s = w := by
  cases w with
  | lit t =>
    simp only [WSeg.meaning, Option.some.injEq] at h
    subst h
    simp [canon]
  | ref k =>
    rcases keyFromStr_inv h with ⟨hd, v, hv, h0, rfl⟩ | ⟨key, _, rfl, rfl⟩
    · obtain ⟨_, rfl⟩ := parseUsize_le hv
      have hk : k ≠ [] := hw.1
      cases k with
      | nil => exact absurd rfl hk
      | cons c k' =>
        have hc0 : c ≠ '0' := fun e => hc hd k' (by rw [e])
        have : foldMant 0 (c :: k') - 1 + 1 = foldMant 0 (c :: k') := by omega
        simp only [canon, natDigits, this, digits_foldMant hd hc0]
    · rfl

theorem map_canon_of_written : ∀ (ws : List WSeg) (segs : List Seg), (∀ w ∈ ws, w.WF) → (∀ w ∈ ws, w.CanonSpelled) →
    meanings ws = some segs → segs.map canon = ws := by
  intro ws
  induction ws with
  | nil => intro segs _ _ hm; simp only [meanings, Option.some.injEq] at hm; subst hm; rfl
  | cons w ws ih =>
    intro segs hwf hcs hm
    simp only [meanings] at hm
    cases hw : w.meaning with
    | none => simp [hw] at hm
    | some s =>
      cases hws : meanings ws with
      | none => simp [hw, hws] at hm
      | some ss =>
        simp only [hw, hws, Option.some.injEq] at hm
        subst hm
        simp only [List.map_cons, canon_meaning (hwf w (by simp)) (hcs w (by simp)) hw,
          ih ss (fun x hx => hwf x (by simp [hx])) (fun x hx => hcs x (by simp [hx])) hws]

theorem text_infix_spell : ∀ (ws : List WSeg) (w : WSeg), w ∈ ws → w.text <:+: spell ws := by
  intro ws
  induction ws with
  | nil => intro w hw; cases hw
  | cons x xs ih =>
    intro w hw
    rw [spell_cons]
    rcases List.mem_cons.mp hw with rfl | hw
    · exact ⟨[], spell xs, by simp⟩
    · obtain ⟨a, b, hab⟩ := ih w hw
      exact ⟨x.text ++ a, b, by rw [← hab]; simp⟩

/-- **print ∘ parse = id, up to leading zeros of column numbers**: if the text has no `{0` (no column number with a
leading zero — `{0}` itself is not a template), the `Display` text of the parsed template is the text itself. -/
theorem C16_template_print_id (s : List Char) (segs : List Seg) (h : parseTemplateL s = some segs)
    (hz : ¬ ['{', '0'] <:+: s) : printTemplateL segs = s := by
  obtain ⟨ws, rfl, h2, h3, h4⟩ := (C16_template_exact s segs).mp h
  rw [printTemplateL_eq, map_canon_of_written ws segs h2 ?_ h4]
  intro w hw
  cases w with
  | lit t => trivial
  | ref k =>
    intro _ r hr
    apply hz
    obtain ⟨a, b, hab⟩ := text_infix_spell ws _ hw
    subst hr
    exact ⟨a, r ++ ['}'] ++ b, by rw [← hab]; simp [WSeg.text]⟩

/-- the identity does fail with a leading zero: `{007}` is column 7 and prints as `{7}` -/
theorem C16_template_print_id_false :
    ¬ ∀ (s : List Char) (segs : List Seg), parseTemplateL s = some segs → printTemplateL segs = s := by
  intro h
  have := h "{007}".toList [.indexed 6] (by decide +kernel)
  revert this
  decide +kernel

/-! ### rejection of malformed templates -/

theorem spell_braces : ∀ (ws : List WSeg), (∀ w ∈ ws, w.WF) → (spell ws).count '{' = (spell ws).count '}' := by
  intro ws
  induction ws with
  | nil => intro _; rfl
  | cons w ws ih =>
    intro h2
    rw [spell_cons, List.count_append, List.count_append, ih (fun x hx => h2 x (by simp [hx]))]
    have hw := h2 w (by simp)
    have hcount : ∀ (t : List Char), NoBrace t → t.count '{' = 0 ∧ t.count '}' = 0 := by
      intro t ht
      constructor <;> (apply List.count_eq_zero.mpr; intro hm; exact absurd (ht _ hm) (by decide))
    cases w with
    | lit t => rw [show WSeg.text (.lit t) = t from rfl, (hcount t hw.2).1, (hcount t hw.2).2]
    | ref k =>
      have := hcount k hw.2
      simp [WSeg.text, List.count_cons, List.count_append, this.1, this.2]

/-- a brace that is not part of a `{key}` reference makes the template invalid: in an accepted template the braces
alternate `{ } { } …` — in particular their numbers agree -/
theorem C16_template_braces (s : List Char) (segs : List Seg) (h : parseTemplateL s = some segs) :
    s.count '{' = s.count '}' := by
  obtain ⟨ws, rfl, h2, _, _⟩ := (C16_template_exact s segs).mp h
  exact spell_braces ws h2

/-- a reference whose key is not a valid key makes the whole template invalid (the typed errors `UnknownTemplateKey` /
`InvalidIndexTemplateKey` are swallowed by the backtracking and surface as `InvalidTemplate`) -/
theorem C16_template_bad_key (pre k post : List Char) (hpre : ∃ segs, parseTemplateL pre = some segs)
    (hk : NoBrace k) (hbad : templateKeyFromStr k = none) :
    parseTemplateL (pre ++ '{' :: (k ++ '}' :: post)) = none := by
  cases hp : parseTemplateL (pre ++ '{' :: (k ++ '}' :: post)) with
  | none => rfl
  | some segs =>
    exfalso
    rw [parseTemplateL_iff_segs] at hp
    obtain ⟨segs0, h0⟩ := hpre
    rw [parseTemplateL_iff_segs] at h0
    -- run the prefix: the repetition is deterministic, so it arrives at the bad reference, where no alternative applies
    have key : ∀ (i : List Char) (ss : List Seg), Segs i ss [] → ∀ (tail : List Char) (ss' : List Seg),
        HeadBrace tail → Segs (i ++ tail) ss' [] → ∃ ss'', Segs tail ss'' [] := by
      intro i ss hs
      generalize hnil : ([] : List Char) = e at hs
      induction hs with
      | stop i hn =>
        intro tail ss' _ ht
        subst hnil
        exact ⟨ss', by simpa using ht⟩
      | @step i r r' s ss hsp _ ih =>
        intro tail ss' hb ht
        have hstep : segSpec (i ++ tail) = some (s, r ++ tail) := by
          rcases segSpec_inv hsp with ⟨k', hk1, hk2, rfl, hk3⟩ | ⟨t, ht1, ht2, ht3, rfl, rfl⟩
          · have := segSpec_ref (r := r ++ tail) hk1 hk2 hk3
            simpa using this
          · have hbr : HeadBrace (r ++ tail) := by
              cases r with
              | nil => simpa using hb
              | cons x xs => exact headNot_cons (ht3 x xs rfl)
            have := segSpec_lit (r := r ++ tail) ht1 ht2 hbr
            simpa using this
        cases ht with
        | stop _ hn => rw [hstep] at hn; cases hn
        | step hsp' t' =>
          rw [hstep] at hsp'
          simp only [Option.some.injEq, Prod.mk.injEq] at hsp'
          obtain ⟨rfl, rfl⟩ := hsp'
          exact ih hnil tail _ hb t'
    obtain ⟨ss'', hbadrun⟩ := key pre segs0 h0 ('{' :: (k ++ '}' :: post)) segs (headNot_cons (by decide)) hp
    have hnone : segSpec ('{' :: (k ++ '}' :: post)) = none := by
      have := takeWhile_stop (p := nb) (a := k) (b := '}' :: post) (noBrace_nb hk) (headNot_cons (by decide))
      simp only [segSpec, this.1, this.2, hbad, Option.map_none]
      split <;> rfl
    cases hbadrun with
    | step hsp _ => rw [hnone] at hsp; cases hsp

/-! ## Concrete instances (non-vacuity) -/

/-- accepted cells, in all the styles statements use (value, scale and sign flag as decoded) -/
example : cellDecimal "--100.00" = some ⟨false, 10000, 2⟩ ∧ cellDecimal "-$-1.46" = some ⟨false, 146, 2⟩ ∧
    cellDecimal "$-1.46" = some ⟨true, 146, 2⟩ ∧ cellDecimal "-$1.46" = some ⟨true, 146, 2⟩ ∧
    cellDecimal "1,234.50 USD" = some ⟨false, 123450, 2⟩ ∧ cellDecimal "- 5" = some ⟨true, 5, 0⟩ ∧
    cellDecimal "-0" = some ⟨true, 0, 0⟩ ∧ cellDecimal "€\t5 " = some ⟨false, 5, 0⟩ := by decide +kernel

/-- rejected cells -/
example : cellDecimal "5 -" = none ∧ cellDecimal "USD" = none ∧ cellDecimal " " = none ∧ cellDecimal "1 2" = none ∧
    cellDecimal "1.2.3" = none ∧ cellDecimal "12,50" = none ∧ cellDecimal "$5$" = none ∧ cellDecimal "--$5" = none ∧
    cellDecimal "" = none := by decide +kernel

theorem isToken_of_run {run : List Char} (hne : run ≠ []) (h : run.all isNumChar = true) : IsToken run :=
  ⟨run, ⟨hne, by simpa using h⟩, Or.inr rfl⟩
theorem isToken_of_minus_run {run : List Char} (hne : run ≠ []) (h : run.all isNumChar = true) : IsToken ('-' :: run) :=
  ⟨run, ⟨hne, by simpa using h⟩, Or.inl rfl⟩
theorem comText_of_all {l : List Char} (h : l.all ExprSyntax.isCommodityChar = true) : ComText l := by
  intro c hc; exact (List.all_eq_true.mp h) c hc
theorem blank_of_all {l : List Char} (h : l.all Comb.isSpace = true) : Blank l := by
  intro c hc; exact (List.all_eq_true.mp h) c hc

/-- `-$-1.46` is a written form: leading minus, commodity `$`, token `-1.46` (two minus signs: the value is +1.46) -/
example : CellForm "-$-1.46".toList true "-1.46".toList "$".toList ∧ minusCount true "-1.46".toList = 2 :=
  ⟨⟨"$-1.46".toList, Or.inl ⟨rfl, rfl⟩, isToken_of_minus_run (by decide) (by decide), comText_of_all (by decide),
    .comFirst [] [] (blank_of_all rfl) (blank_of_all rfl) (by decide)⟩, rfl⟩

/-- `12.50 USD ` is a written form: token, blank, commodity, blank -/
example : CellForm "12.50 USD ".toList false "12.50".toList "USD".toList :=
  ⟨"12.50 USD ".toList, Or.inr ⟨rfl, rfl, by intro r h; cases h⟩, isToken_of_run (by decide) (by decide), comText_of_all (by decide),
    .numFirst [' '] [' '] (blank_of_all rfl) (blank_of_all rfl) (by decide)⟩

/-- templates: accepted with their segments and `Display` text; `{007}` is normalised -/
example : parseTemplate "{payee} {3}" = some [.named .payee, .lit " ", .indexed 2] ∧
    parseTemplate "" = some [] ∧ parseTemplate "a{note}c" = some [.lit "a", .named .note, .lit "c"] ∧
    printTemplate [.named .payee, .lit " ", .indexed 2] = "{payee} {3}" ∧
    parseTemplate "{007}" = some [.indexed 6] ∧ printTemplate [.indexed 6] = "{7}" := by decide +kernel

/-- templates: rejected -/
example : parseTemplate "{0}" = none ∧ parseTemplate "{}" = none ∧ parseTemplate "{{" = none ∧ parseTemplate "}" = none ∧
    parseTemplate "{payee" = none ∧ parseTemplate "a{b}c" = none ∧ parseTemplate "{amount}" = none ∧
    parseTemplate "{{payee}}" = none ∧ parseTemplate "{18446744073709551616}" = none := by decide +kernel

/-- a written template, its well-formedness and its meaning (hypotheses of `C16_template_exact` are satisfiable) -/
example : spell [.lit "a".toList, .ref "note".toList, .ref "12".toList] = "a{note}{12}".toList ∧
    NoAdjLit [.lit "a".toList, .ref "note".toList, .ref "12".toList] ∧
    meanings [.lit "a".toList, .ref "note".toList, .ref "12".toList] = some [.lit "a", .named .note, .indexed 11] := by
  refine ⟨by decide, ⟨fun _ w' ws' h => ?_, ⟨fun h => (by cases h), ⟨fun h => (by cases h), trivial⟩⟩⟩, by decide +kernel⟩
  injection h with h1 _
  rw [← h1]; rfl

/-- hypotheses of `C16_template_print_parse` / `C16_template_bad_key` are satisfiable -/
example : (∀ s ∈ [Seg.lit "x", .named .date, .indexed 0], CanonSeg s) ∧ SegsNoAdjLit [Seg.lit "x", .named .date, .indexed 0] ∧
    templateKeyFromStr "amount".toList = none ∧ NoBrace "amount".toList := by
  refine ⟨?_, ⟨fun _ s' ss' h => ?_, ⟨fun h => (by cases h), ⟨fun h => (by cases h), trivial⟩⟩⟩, by decide, noBrace_of_all (by decide)⟩
  · intro s hs
    simp only [List.mem_cons, List.not_mem_nil, or_false] at hs
    rcases hs with rfl | rfl | rfl
    · exact ⟨by decide, noBrace_of_all (by decide)⟩
    · exact Or.inl rfl
    · show 0 + 1 ≤ usizeMax; decide
  · injection h with h1 _
    rw [← h1]; rfl

/-! ## `String` level -/

theorem cellDecimal_eq (s : String) : cellDecimal s = cellDecimalL s.toList := rfl
theorem parseTemplate_eq (s : String) : parseTemplate s = parseTemplateL s.toList := rfl

/-- `FieldMap::try_new` on a template position: the template text is parsed by `parseTemplate`; a text that is not a
template is `TemplateParseFailed` -/
theorem resolvePos_template (header : List String) (t : String) :
    resolvePos header (decodePos (.template t)) =
      match parseTemplate t with
      | some segs => .ok (.template segs)
      | none => .err .templateParseFailed := by
  cases h : parseTemplate t <;> simp [decodePos, h, resolvePos]


end Okane.Import.Cells
