import Okane.Lemmas.Decimal96Basic
/-!
# `Buf24::rescale`: whatever it returns is the buffer's value divided by a power of ten, correct to half a unit

`bufRescale x upper scale = some (m, s')` implies `s' ≤ scale`, `s' ≤ 28` (if `scale ≤ 56`… in fact `s' ≤ 28` whenever the
requested reduction `scale − 28` is honoured, which the loop always does), `m < 2^96` and, with `K = scale − s'` the number
of decimal digits dropped, `2·|m·10^K − x| ≤ 10^K`.  The chunked division by `10^9`, the sticky flag, the extra "scale once
more" passes and the re-rounding after a carry out of 96 bits are all covered (`rescaleLoop_spec`).
-/
namespace Okane.Dec96

theorem mod_pow_succ_chunk (X D c : Nat) :
    X % (10 ^ D * 10 ^ c) = X % 10 ^ D + 10 ^ D * (X / 10 ^ D % 10 ^ c) := Nat.mod_mul

/-- the re-rounding pass after a carry out of 96 bits: `2^96` loses one more digit and becomes `…5034`. -/
theorem rescaleLoop_carry (fuel sc : Nat) :
    rescaleLoop (fuel + 1) (2 ^ 96) 3 sc 1 false 0 = some (7922816251426433759354395034, sc) := by
  unfold rescaleLoop
  simp [two96]

theorem pow10_even (t : Nat) (h : 1 ≤ t) : 10 ^ t = 2 * (10 ^ t / 2) ∧ 5 ≤ 10 ^ t / 2 := by
  have : t = (t - 1) + 1 := by omega
  rw [this, Nat.pow_succ]
  have := Nat.pow_pos (n := t - 1) (by decide : 0 < 10)
  omega

/-- one final rounding: `x = q·T + r` (`r < T`, `T = 2h`), `X = x·P + low` (`low < P`): the rounded quotient is within half
of `T·P`. -/
theorem final_round_bound (X x P T h q r low m : Nat) (hT : T = 2 * h) (hx : x = q * T + r) (hr : r < T)
    (hX : X = x * P + low) (hlow : low < P)
    (hm : (m = q ∧ (r < h ∨ (r = h ∧ low = 0))) ∨ (m = q + 1 ∧ h ≤ r)) :
    2 * (m * (T * P)) ≤ 2 * X + T * P ∧ 2 * X ≤ 2 * (m * (T * P)) + T * P := by
  subst hx hX
  have e1 : (q * T + r) * P = q * (T * P) + r * P := by grind
  have e2 : (q + 1) * (T * P) = q * (T * P) + T * P := by grind
  have e3 : T * P = 2 * (h * P) := by subst hT; grind
  have hrP : r * P + P ≤ T * P := by
    have : (r + 1) * P ≤ T * P := Nat.mul_le_mul_right P hr
    rw [Nat.add_mul, Nat.one_mul] at this; exact this
  rcases hm with ⟨rfl, hc⟩ | ⟨rfl, hc⟩
  · rcases hc with hc | ⟨rfl, rfl⟩
    · have : (r + 1) * P ≤ h * P := Nat.mul_le_mul_right P hc
      rw [Nat.add_mul, Nat.one_mul] at this
      rw [e1]; constructor <;> omega
    · rw [e1]; constructor <;> omega
  · have : h * P ≤ r * P := Nat.mul_le_mul_right P hc
    rw [e1, e2]; constructor <;> omega

/-- the loop of `Buf24::rescale`.  `X` is the original buffer value, `D` the digits dropped so far. -/
theorem rescaleLoop_spec (X : Nat) : ∀ (fuel x upper sc target : Nat) (sticky : Bool) (rem D : Nat),
    x = X / 10 ^ D → (sticky = false → rem = 0 → X % 10 ^ D = 0) → 1 ≤ target → x < 2 ^ (32 * (upper + 1)) →
    ∀ m s', rescaleLoop fuel x upper sc target sticky rem = some (m, s') →
      ∃ K, s' + K = sc + target + D ∧ D + target ≤ K ∧ m < 2 ^ 96 ∧
        2 * (m * 10 ^ K) ≤ 2 * X + 10 ^ K ∧ 2 * X ≤ 2 * (m * 10 ^ K) + 10 ^ K
  | 0, _, _, _, _, _, _, _, _, _, _, _, _, _, h => by simp [rescaleLoop] at h
  | fuel + 1, x, upper, sc, target, sticky, rem, D, hx, hst, ht, hxu, m, s', h => by
    unfold rescaleLoop at h
    simp only at h
    -- the chunk
    generalize hc : (if target > 8 then 10 ^ 9 else 10 ^ target) = power at h
    have hpow : ∃ c, power = 10 ^ c ∧ 1 ≤ c ∧ c ≤ 9 ∧ c ≤ target ∧ (target ≤ 9 → c = target) ∧ (target > 9 → c = 9) := by
      by_cases h8 : target > 8
      · simp only [h8, if_true] at hc
        exact ⟨9, hc.symm, by omega, by omega, by omega, by omega, by omega⟩
      · simp only [h8, if_false] at hc
        exact ⟨target, hc.symm, by omega, by omega, by omega, by omega, by omega⟩
    obtain ⟨c, rfl, hc1, hc9, hct, hc_eq, hc_gt⟩ := hpow
    have hP := natpow10_pos D
    have hT := natpow10_pos c
    -- new sticky / remainder facts
    have hq : x / 10 ^ c = X / 10 ^ (D + c) := by rw [hx, Nat.div_div_eq_div_mul, ← Nat.pow_add]
    have hst' : (sticky || rem != 0) = false → x % 10 ^ c = 0 → X % 10 ^ (D + c) = 0 := by
      intro h1 h2
      have hboth := Bool.or_eq_false_iff.mp h1
      have hs : sticky = false := hboth.1
      have hr : rem = 0 := by simpa using hboth.2
      rw [Nat.pow_add, mod_pow_succ_chunk, hst hs hr, ← hx, h2]; simp
    -- the new upper
    generalize hup : (if x / 10 ^ c / 2 ^ (32 * upper) = 0 ∧ upper > 0 then upper - 1 else upper) = upper' at h
    have hqu : x / 10 ^ c < 2 ^ (32 * (upper' + 1)) := by
      have hle : x / 10 ^ c ≤ x := Nat.div_le_self _ _
      by_cases hz : x / 10 ^ c / 2 ^ (32 * upper) = 0 ∧ upper > 0
      · simp only [hz, and_self, if_true] at hup
        have : x / 10 ^ c < 2 ^ (32 * upper) := by
          have := (Nat.div_eq_zero_iff.mp hz.1)
          rcases this with h0 | h0
          · have := Nat.pow_pos (n := 32 * upper) (by decide : 0 < 2); omega
          · exact h0
        have e : upper' + 1 = upper := by omega
        rw [e]; exact this
      · simp only [hz, if_false] at hup
        subst hup; omega
    by_cases h9 : target > 9
    · simp only [h9, if_true] at h
      have hc9' := hc_gt h9
      subst hc9'
      obtain ⟨K, hK1, hK2, hK3⟩ := rescaleLoop_spec X fuel _ upper' sc (target - 9) _ _ (D + 9) hq hst' (by omega) hqu m s' h
      exact ⟨K, by omega, by omega, hK3⟩
    · simp only [h9, if_false] at h
      have hct' := hc_eq (by omega)
      subst hct'
      by_cases hu2 : upper' > 2
      · simp only [hu2, if_true] at h
        by_cases hsc : sc = 0
        · simp [hsc] at h
        · simp only [hsc, if_false] at h
          obtain ⟨K, hK1, hK2, hK3⟩ := rescaleLoop_spec X fuel _ upper' (sc - 1) 1 _ _ (D + c) hq hst' (by omega) hqu m s' h
          exact ⟨K, by omega, by omega, hK3⟩
      · simp only [hu2, if_false] at h
        have hq96 : x / 10 ^ c < 2 ^ 96 := by
          have : 2 ^ (32 * (upper' + 1)) ≤ 2 ^ 96 := Nat.pow_le_pow_right (by decide) (by omega)
          omega
        obtain ⟨hTe, hh5⟩ := pow10_even c hc1
        have hxdm := Nat.div_add_mod x (10 ^ c)
        have hXdm := Nat.div_add_mod X (10 ^ D)
        have hrl : x % 10 ^ c < 10 ^ c := Nat.mod_lt _ hT
        have hll : X % 10 ^ D < 10 ^ D := Nat.mod_lt _ hP
        have hpowK : 10 ^ (D + c) = 10 ^ c * 10 ^ D := by rw [Nat.pow_add, Nat.mul_comm]
        by_cases hupr : 10 ^ c / 2 ≤ x % 10 ^ c ∧ (10 ^ c / 2 < x % 10 ^ c ∨ x / 10 ^ c % 2 = 1 ∨ (sticky || rem != 0) = true)
        · rw [if_pos hupr] at h
          by_cases hfit : x / 10 ^ c + 1 < two96
          · simp only [hfit, if_true, Option.some.injEq, Prod.mk.injEq] at h
            obtain ⟨rfl, rfl⟩ := h
            refine ⟨D + c, by omega, by omega, by unfold two96 at hfit; exact hfit, ?_⟩
            rw [hpowK]
            exact final_round_bound X x (10 ^ D) (10 ^ c) (10 ^ c / 2) (x / 10 ^ c) (x % 10 ^ c) (X % 10 ^ D) _ hTe
              (by rw [Nat.mul_comm]; omega) hrl (by rw [hx, Nat.mul_comm]; omega) hll (Or.inr ⟨rfl, hupr.1⟩)
          · simp only [hfit, if_false] at h
            by_cases hsc : sc = 0
            · simp [hsc] at h
            · simp only [hsc, if_false] at h
              have hqv : x / 10 ^ c + 1 = 2 ^ 96 := by unfold two96 at hfit; omega
              rw [hqv] at h
              cases fuel with
              | zero => simp [rescaleLoop] at h
              | succ fuel =>
                rw [rescaleLoop_carry] at h
                simp only [Option.some.injEq, Prod.mk.injEq] at h
                obtain ⟨rfl, rfl⟩ := h
                refine ⟨D + c + 1, by omega, by omega, by decide, ?_⟩
                have hb := final_round_bound X x (10 ^ D) (10 ^ c) (10 ^ c / 2) (x / 10 ^ c) (x % 10 ^ c) (X % 10 ^ D)
                  (x / 10 ^ c + 1) hTe (by rw [Nat.mul_comm]; omega) hrl (by rw [hx, Nat.mul_comm]; omega) hll
                  (Or.inr ⟨rfl, hupr.1⟩)
                rw [← hpowK] at hb
                rw [Nat.pow_succ]
                generalize 10 ^ (D + c) = KK at hb ⊢
                have e1 : 7922816251426433759354395034 * (KK * 10) = 79228162514264337593543950340 * KK := by grind
                have e2 : (x / 10 ^ c + 1) * KK = 79228162514264337593543950336 * KK := by rw [hqv]
                rw [e1]; rw [e2] at hb
                omega
        · rw [if_neg hupr] at h
          simp only [Option.some.injEq, Prod.mk.injEq] at h
          obtain ⟨rfl, rfl⟩ := h
          refine ⟨D + c, by omega, by omega, hq96, ?_⟩
          rw [hpowK]
          refine final_round_bound X x (10 ^ D) (10 ^ c) (10 ^ c / 2) (x / 10 ^ c) (x % 10 ^ c) (X % 10 ^ D) _ hTe
              (by rw [Nat.mul_comm]; omega) hrl (by rw [hx, Nat.mul_comm]; omega) hll (Or.inl ⟨rfl, ?_⟩)
          by_cases hlt : x % 10 ^ c < 10 ^ c / 2
          · exact Or.inl hlt
          · right
            have heq : x % 10 ^ c = 10 ^ c / 2 := by
              by_cases hgt : 10 ^ c / 2 < x % 10 ^ c
              · exact absurd ⟨by omega, Or.inl hgt⟩ hupr
              · omega
            refine ⟨heq, ?_⟩
            have hns : (sticky || rem != 0) = false := by
              cases hss : (sticky || rem != 0)
              · rfl
              · exact absurd ⟨by omega, Or.inr (Or.inr hss)⟩ hupr
            have hboth := Bool.or_eq_false_iff.mp hns
            exact hst hboth.1 (by simpa using hboth.2)

/-- **`Buf24::rescale`** -/
theorem bufRescale_spec (x upper scale m s' : Nat) (hxu : x < 2 ^ (32 * (upper + 1)))
    (h : bufRescale x upper scale = some (m, s')) :
    ∃ K, s' + K = scale ∧ s' ≤ 28 ∧ m < 2 ^ 96 ∧ 2 * (m * 10 ^ K) ≤ 2 * x + 10 ^ K ∧ 2 * x ≤ 2 * (m * 10 ^ K) + 10 ^ K := by
  unfold bufRescale at h
  simp only at h
  generalize ht0 : (if upper > 2 then (((upper : Int) * 32 - 64 - 1 - (lz32 (x / 2 ^ (32 * upper)) : Int)) * 77) / 256 + 1 else 0) = t0 at h
  by_cases hov : t0 > (scale : Int)
  · simp [hov] at h
  · simp only [hov, if_false] at h
    generalize ht : (if t0 < (scale : Int) - 28 then (scale : Int) - 28 else t0) = t at h
    have htge : (scale : Int) - 28 ≤ t := by rw [← ht]; split <;> omega
    have htle : t ≤ scale := by rw [← ht]; split <;> omega
    have ht0le : t0 ≤ t := by rw [← ht]; split <;> omega
    by_cases hpos : t > 0
    · simp only [hpos, if_true] at h
      obtain ⟨K, hK1, hK2, hK3⟩ := rescaleLoop_spec x (10 * scale + 16) x upper (scale - t.toNat) t.toNat false 0 0 (by simp)
        (by intro _ _; simp [Nat.mod_one]) (by omega) hxu m s' h
      exact ⟨K, by omega, by omega, hK3⟩
    · simp only [hpos, if_false, Option.some.injEq, Prod.mk.injEq] at h
      obtain ⟨rfl, rfl⟩ := h
      -- no scaling: the value already fits
      have hfit : x < 2 ^ 96 := by
        by_cases hu : upper > 2
        · simp only [hu, if_true] at ht0
          -- t0 ≤ 0 forces the top word to be zero and upper = 3
          have hlz : lz32 (x / 2 ^ (32 * upper)) ≤ 32 := by unfold lz32; split <;> omega
          have ht0' : t0 ≤ 0 := by omega
          have hu3 : upper = 3 ∧ lz32 (x / 2 ^ (32 * upper)) = 32 := by omega
          have htop : x / 2 ^ (32 * upper) = 0 := by
            have := hu3.2
            unfold lz32 at this
            split at this
            · assumption
            · omega
          rw [hu3.1] at htop
          rcases Nat.div_eq_zero_iff.mp htop with h0 | h0
          · simp at h0
          · simpa using h0
        · have : 2 ^ (32 * (upper + 1)) ≤ 2 ^ 96 := Nat.pow_le_pow_right (by decide) (by omega)
          omega
      refine ⟨0, by omega, by omega, by unfold two96; omega, ?_⟩
      have : x % two96 = x := Nat.mod_eq_of_lt (by unfold two96; exact hfit)
      rw [this]; simp

end Okane.Dec96
