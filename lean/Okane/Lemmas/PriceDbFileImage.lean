import Okane.Lemmas.PriceDbFile
import Okane.Lemmas.C05ImageBase
import Okane.Lemmas.C05ImageNum
/-!
# The price-database file: the image of the parser, and the canonical form of an accepted file

`canonRec` normalises the grouping tag of the number the way C05 does (`canonPDec`: the tag `Plain` / `Comma3Dot` of a
number below 1000 is not part of its meaning — `007` and `7` are the same number and print as `7`); value, scale,
date and commodities are untouched.

* `priceDbEntry_image` / `parsePriceDb_image`: **every record the parser returns, for every text, is well formed**
  (`wfRec ∘ canonRec`): an existing date of the years 0…9999, a non-empty target of commodity characters, a number
  that prints and reads back as itself, a commodity of commodity characters.
* `parsePriceDb_canonical`: hence every accepted file has a canonical print (`printDb` of its canonised records) which
  the parser reads back as exactly those records, and loading either text leaves the same records in the builder
  (`canonRec_toRat`: canonisation does not change a value).
This is the converse direction of the round trip: `printDb` reaches every parse result (up to the grouping tag).
-/
set_option linter.unusedSimpArgs false
namespace Okane.PriceDbFile
open Okane Okane.Comb Okane.Parse Okane.Unparse

/-- the record with the grouping tag of its number normalised -/
def canonRec (r : PriceRec) : PriceRec := { r with rate := canonPDec r.rate }

theorem canonPDec_toRat (d : PDec) : (canonPDec d).toRat = d.toRat := by
  unfold canonPDec; split <;> rfl

/-- canonisation does not change the value of a record -/
theorem canonRec_toRat (r : PriceRec) : (canonRec r).rate.toRat = r.rate.toRat := canonPDec_toRat r.rate

theorem eventOf_canonRec (r : PriceRec) (t c : String) : eventOf (canonRec r) t c = eventOf r t c := by
  simp [eventOf, canonRec, canonPDec_toRat]

/-- **image of `price_db_entry`** -/
theorem priceDbEntry_image {i rest : List Char} {r : PriceRec} (h : priceDbEntry i = .ok r rest) :
    wfRec (canonRec r) = true := by
  simp only [priceDbEntry, bind_ok_iff, pure_ok_iff] at h
  obtain ⟨_, r1, _, d, r2, hd, sp1, r3, hs1, t, r4, ht, sp2, r5, hs2, vc, r6, ha, _, r7, _, he, _⟩ := h
  subst he
  -- date
  have h1 : wfDate d = true := C05Image.date_image hd
  -- target: commodity characters, and not empty because `space1` must follow it where the commodity parser stopped
  obtain ⟨rfl, rfl⟩ := takeWhile0_ok_iff.1 ht
  have h2 : isCommodityText (r3.takeWhile ExprSyntax.isCommodityChar) = true := by
    simp only [isCommodityText, List.all_eq_true]
    intro c hc; exact mem_takeWhile hc
  have hstop3 : Stop isSpace r3 := (space1_ok hs1).2.2.2
  have h3 : (r3.takeWhile ExprSyntax.isCommodityChar) ≠ [] := by
    intro hnil
    -- then `space1` runs on `r3` itself, which does not start with a blank
    have hdrop : r3.dropWhile ExprSyntax.isCommodityChar = r3 := by
      cases r3 with
      | nil => rfl
      | cons a tl =>
        simp only [List.takeWhile] at hnil
        cases hca : ExprSyntax.isCommodityChar a with
        | true => simp [hca] at hnil
        | false => simp [List.dropWhile, hca]
    rw [hdrop] at hs2
    cases r3 with
    | nil => simp [space1, takeWhile1] at hs2
    | cons a tl =>
      have := (Stop_cons isSpace a tl).1 hstop3
      simp [space1, takeWhile1, this] at hs2
  -- amount
  simp only [Parse.amount] at ha
  split at ha
  · rename_i dd rest' hp
    simp only [Res.ok.injEq] at ha
    obtain ⟨hvc, _⟩ := ha
    subst hvc
    have h4 : wfNumber (canonPDec dd) = true := C05Image.prettyDecimal_wfNumber hp
    have h5 := C05Image.commodity_text (ExprSyntax.skipSpaces rest')
    simp only [wfRec, canonRec, Bool.and_eq_true, Bool.not_eq_true', List.isEmpty_eq_false_iff, String.toList_ofList]
    exact ⟨⟨⟨⟨h1, h3⟩, h2⟩, h4⟩, h5⟩
  · cases ha
  · cases ha

/-- what the iterator yields satisfies every property that holds of the entry parser's results -/
theorem parsedIter_forall {α : Type} {p : Parser α} {sep : Parser Unit} {Q : α → Prop}
    (hQ : ∀ i e r, p i = .ok e r → Q e) (whole : List Char) :
    ∀ (n : Nat) (i : List Char) (acc : List (Nat × Nat × α)), (∀ x ∈ acc, Q x.2.2) →
      ∀ x ∈ (parsedIter p sep whole n i acc).1, Q x.2.2 := by
  intro n
  induction n with
  | zero => intro i acc hacc; simpa [parsedIter] using hacc
  | succ n ih =>
    intro i acc hacc
    unfold parsedIter
    simp only
    split
    · split
      · exact hacc
      · split
        · rename_i e r he
          apply ih
          intro x hx
          simp only [List.mem_append, List.mem_singleton] at hx
          rcases hx with hx | rfl
          · exact hacc x hx
          · exact hQ _ _ _ he
        all_goals first | exact hacc | (split <;> exact hacc)
    all_goals first | exact hacc | (split <;> exact hacc)

/-- **image of the parser**: for every text, every record returned is well formed after canonisation -/
theorem parsePriceDb_image {t : List Char} {rs : List PriceRec} (h : parsePriceDb t = .ok rs) :
    ∀ r ∈ rs, wfRec (canonRec r) = true := by
  unfold parsePriceDb at h
  have hall := parsedIter_forall (p := priceDbEntry) (sep := newlines) (Q := fun r => wfRec (canonRec r) = true)
    (fun i e r he => priceDbEntry_image he) t (t.length + 1) t [] (by simp)
  cases hr : parsePriceDbRun t with
  | mk es en =>
    rw [hr] at h
    unfold parsePriceDbRun at hr
    rw [hr] at hall
    cases en with
    | done =>
      simp only [Outcome.ok.injEq] at h
      subst h
      intro r hr'
      simp only [List.mem_map] at hr'
      obtain ⟨x, hx, rfl⟩ := hr'
      exact hall x hx
    | error e => simp at h
    | panic p => simp at h
    | fuelOut => simp at h

/-- **every accepted file has a canonical form**: print the records the parser returns (grouping tags canonised);
the parser reads that text back as exactly those records -/
theorem parsePriceDb_canonical {t : List Char} {rs : List PriceRec} (h : parsePriceDb t = .ok rs) :
    parsePriceDb (printDb (rs.map canonRec)) = .ok (rs.map canonRec) := by
  apply parsePriceDb_rt
  intro r hr
  simp only [List.mem_map] at hr
  obtain ⟨r0, hr0, rfl⟩ := hr
  exact parsePriceDb_image h r0 hr0

theorem eventsOf_canon (s : Store) (rs : List PriceRec) : eventsOf s (rs.map canonRec) = eventsOf s rs := by
  simp only [eventsOf, List.map_map]
  apply List.map_congr_left
  intro r _
  simp only [Function.comp]
  rw [eventOf_canonRec]
  rfl

/-- … and loading the canonical form inserts the same price events: the builder (and the store) end up the same -/
theorem loadPriceDb_canonical {t : List Char} {rs : List PriceRec} (h : parsePriceDb t = .ok rs) (s : Store)
    (b : Price.Builder String) :
    loadPriceDb (printDb (rs.map canonRec)) s b = loadPriceDb t s b := by
  obtain ⟨b1, e1, _, l1⟩ := loadPriceDb_of_ok h s b
  obtain ⟨b2, e2, _, l2⟩ := loadPriceDb_of_ok (parsePriceDb_canonical h) s b
  rw [eventsOf_canon, e1] at e2
  simp only [Outcome.ok.injEq] at e2
  have hst : storeAfter s (rs.map canonRec) = storeAfter s rs := by
    simp only [storeAfter, List.foldl_map]
    rfl
  rw [l1, l2, hst, e2]

/-! ## non-vacuity: a file in a spelling `printDb` never produces (tabs, hyphenated and unpadded dates, `007`, CRLF,
an empty line, a number glued to its commodity) and its canonical form -/

private def exText : List Char :=
  "\nP\t2024-1-5  AB 007 USD\r\n\r\nP 2024/01/06 € 1,234.50$\n".toList

example : parsePriceDb exText =
    .ok [⟨⟨2024, 1, 5⟩, "AB", ⟨false, 7, 0, none⟩, "USD"⟩,
         ⟨⟨2024, 1, 6⟩, "€", ⟨false, 123450, 2, some .comma3dot⟩, "$"⟩] := by decide +kernel
example : ∀ rs, parsePriceDb exText = .ok rs → ∀ r ∈ rs, wfRec (canonRec r) = true := fun _ h => parsePriceDb_image h
example : String.ofList (printDb ([⟨⟨2024, 1, 5⟩, "AB", ⟨false, 7, 0, none⟩, "USD"⟩,
      ⟨⟨2024, 1, 6⟩, "€", ⟨false, 123450, 2, some .comma3dot⟩, "$"⟩].map canonRec)) =
    "P 2024/01/05 AB 7 USD\nP 2024/01/06 € 1,234.50 $\n" := by decide +kernel
-- the tag of a small number is dropped, the value stays
example : canonRec ⟨⟨2024, 1, 5⟩, "AB", ⟨false, 7, 0, some .plain⟩, "USD"⟩ = ⟨⟨2024, 1, 5⟩, "AB", ⟨false, 7, 0, none⟩, "USD"⟩ := by
  decide +kernel

end Okane.PriceDbFile
