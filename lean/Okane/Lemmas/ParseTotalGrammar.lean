import Okane.Model.Parse
import Okane.Lemmas.ParseTotalComb
import Okane.Lemmas.ParseTotalExpr
/-!
# Totality of okane's ledger grammar (C06): every rule of `Okane.Parse` is `Safe`

One theorem per grammar rule of `Model/Parse.lean` (`safe_<rule> : Safe k <rule>`): the rule never reaches a
`ParserError::assert` site of `repeat` / `repeat_till` / `separated`, never runs out of the model's fuel, leaves a
suffix of its input on success (at least `k` characters shorter) and on failure.  The obligations discharged on
the way are exactly "every repeated element of okane's grammar consumes at least one character when it succeeds":

| loop | element / separator | why it consumes |
|---|---|---|
| `vertical_spaces` `repeat(0..)` | `alt((line_ending, (space1, …)))` | `line_ending`, `space1` |
| `metadata_tags` `repeat(1..)` | `terminated(tag_key, ':')` | `take_till(1..)` |
| `block_metadata` `separated(1..)` / `repeat(0..)` | separator `space1`; `preceded(space1, line_metadata)` | `space1` |
| `posting_account` `repeat_till(1..)` | `(opt(" "), take_till(1..))` | `take_till(1..)` |
| `lot` `loop` | one of `{…}`, `[…]`, `(…)` | the opening bracket |
| `transaction` `repeat(0..)` | `preceded((space1, not(eol)), cut_err(posting))` | `space1` |
| `multiline_text` `repeat(1..)` | `delimited(prefix, till_line_ending, eol)` | the prefix (`space1 …` / `take_while(1.., comment prefix)`) |
| `account_declaration` / `commodity_declaration` `repeat(0..)` | the detail lines | their indentation `space1` |
| `ParsedIter` | `parse_ledger_entry` | `dispatch!` arms start with a keyword, a comment prefix or a date |
-/
namespace Okane.Parse
open Okane Okane.Comb

variable {α : Type}

/-! ## `expr.rs` -/

theorem safe_valueExpr : Safe 1 valueExpr := ⟨fun i => by
  have h := ExprSyntax.parseValueExpr_good i
  simp only [valueExpr]
  cases he : ExprSyntax.parseValueExpr i <;> rw [he] at h <;> exact h⟩

theorem safe_amount : Safe 1 amount := ⟨fun i => by
  have h := ExprSyntax.prettyDecimal_good i
  simp only [amount]
  split
  · rename_i d rest he
    rw [he] at h
    obtain ⟨h1, h2⟩ := h
    have h3 := ExprSyntax.commodity_suffix (ExprSyntax.skipSpaces rest)
    have h4 := ExprSyntax.skipSpaces_suffix rest
    have h5 := h3.length_le
    have h6 := h4.length_le
    exact ⟨h3.trans (h4.trans h1), by omega⟩
  · rename_i pos he; rw [he] at h; exact h
  · rename_i he; rw [he] at h; exact h⟩

macro_rules | `(tactic| safe_leaf) => `(tactic| with_reducible apply Safe.mono safe_valueExpr)
macro_rules | `(tactic| safe_leaf) => `(tactic| with_reducible apply Safe.mono safe_amount)

/-! ## `character.rs` -/

theorem safe_lineEndingOrSemi : Safe 1 lineEndingOrSemi := by unfold lineEndingOrSemi; safe_tac
macro_rules | `(tactic| safe_leaf) => `(tactic| with_reducible apply Safe.mono safe_lineEndingOrSemi)

theorem safe_tillLineEndingOrSemi : Safe 1 tillLineEndingOrSemi := by unfold tillLineEndingOrSemi; safe_tac
macro_rules | `(tactic| safe_leaf) => `(tactic| with_reducible apply Safe.mono safe_tillLineEndingOrSemi)

theorem safe_lineEndingOrEof : Safe 0 lineEndingOrEof := by unfold lineEndingOrEof; safe_tac
macro_rules | `(tactic| safe_leaf) => `(tactic| with_reducible apply Safe.mono safe_lineEndingOrEof)

/-- the element of `vertical_spaces`' `repeat(0..)` consumes a line ending or at least one blank -/
theorem safe_verticalSpaces_elem : Safe 1 (lineEnding <|| void (pair space1 (lineEnding <|| eof))) := by safe_tac

theorem safe_verticalSpaces : Safe 0 verticalSpaces := by unfold verticalSpaces; safe_tac
macro_rules | `(tactic| safe_leaf) => `(tactic| with_reducible apply Safe.mono safe_verticalSpaces)

theorem safe_paren {k n : Nat} {inner : Parser α} (h : Safe k inner) (hn : n ≤ k + 2) : Safe n (paren inner) := by
  unfold paren
  exact safe_delimited (safe_char _ (Nat.le_refl _)) h (safe_char _ (Nat.le_refl _)) (by omega)
macro_rules | `(tactic| safe_leaf) => `(tactic| with_reducible apply safe_paren)

theorem safe_parenStr : Safe 2 parenStr := by unfold parenStr; safe_tac
macro_rules | `(tactic| safe_leaf) => `(tactic| with_reducible apply Safe.mono safe_parenStr)

/-! ## `primitive.rs` -/

theorem safe_dateShape (sep : Char) : Safe 5 (dateShape sep) := by unfold dateShape; safe_tac
macro_rules | `(tactic| safe_leaf) => `(tactic| with_reducible apply Safe.mono (safe_dateShape _))

theorem safe_date : Safe 5 date := by unfold date; safe_tac
macro_rules | `(tactic| safe_leaf) => `(tactic| with_reducible apply Safe.mono safe_date)

/-! ## `metadata.rs` -/

theorem safe_clearState : Safe 0 clearState := by unfold clearState; safe_tac
macro_rules | `(tactic| safe_leaf) => `(tactic| with_reducible apply Safe.mono safe_clearState)

theorem safe_tagKey : Safe 1 tagKey := by unfold tagKey; safe_tac
macro_rules | `(tactic| safe_leaf) => `(tactic| with_reducible apply Safe.mono safe_tagKey)

theorem safe_metadataValue : Safe 1 metadataValue := by unfold metadataValue; safe_tac
macro_rules | `(tactic| safe_leaf) => `(tactic| with_reducible apply Safe.mono safe_metadataValue)

/-- the element of `metadata_tags`' `repeat(1..)` consumes a non-empty key and the colon -/
theorem safe_metadataTags_elem : Safe 2 (terminated tagKey (char ':')) := by safe_tac

theorem safe_metadataTags : Safe 2 metadataTags := by unfold metadataTags; safe_tac
macro_rules | `(tactic| safe_leaf) => `(tactic| with_reducible apply Safe.mono safe_metadataTags)

theorem safe_metadataKv : Safe 2 metadataKv := by unfold metadataKv; safe_tac
macro_rules | `(tactic| safe_leaf) => `(tactic| with_reducible apply Safe.mono safe_metadataKv)

theorem safe_lineMetadata : Safe 1 lineMetadata := by unfold lineMetadata; safe_tac
macro_rules | `(tactic| safe_leaf) => `(tactic| with_reducible apply Safe.mono safe_lineMetadata)

/-- both loops of `block_metadata`: the separator `space1` and the element `preceded(space1, line_metadata)` consume -/
theorem safe_blockMetadata : Safe 0 blockMetadata := by
  unfold blockMetadata
  refine safe_dispatchOpt fun c => ?_
  split <;> safe_tac
macro_rules | `(tactic| safe_leaf) => `(tactic| with_reducible apply Safe.mono safe_blockMetadata)

/-! ## `posting.rs` -/

/-- the element of `posting_account`'s `repeat_till(1..)` consumes at least one character -/
theorem safe_accountWord : Safe 1 accountWord := by unfold accountWord; safe_tac
macro_rules | `(tactic| safe_leaf) => `(tactic| with_reducible apply Safe.mono safe_accountWord)

theorem safe_accountEnd : Safe 0 accountEnd := by unfold accountEnd; safe_tac
macro_rules | `(tactic| safe_leaf) => `(tactic| with_reducible apply Safe.mono safe_accountEnd)

theorem safe_postingAccount : Safe 1 postingAccount := by unfold postingAccount; safe_tac
macro_rules | `(tactic| safe_leaf) => `(tactic| with_reducible apply Safe.mono safe_postingAccount)

theorem safe_lotAmount : Safe 3 lotAmount := by unfold lotAmount; safe_tac
macro_rules | `(tactic| safe_leaf) => `(tactic| with_reducible apply Safe.mono safe_lotAmount)

/-- the three bracketed forms of `lot`'s loop, each followed by `space0` and the continuation `k` -/
theorem lotRound_good {β : Type} {p : Parser β} (hp : Safe 1 p) (n : Nat) (i : List Char) (hlt : i.length < n + 1)
    (k : β → Parser Lot) (hk : ∀ b r, r.length < n → (k b r).Good 0 r) :
    ((p >>- fun b => space0 >>- fun _ => k b) i).Good 0 i := by
  refine (hp.good i).andThen (m := 0) (fun b r h1 h2 => ?_) (by omega)
  refine ((safe_space0 (Nat.le_refl 0)).good r).andThen (m := 0) (fun _ r' h3 h4 => ?_) (by omega)
  exact hk b r' (by have := h3.length_le; omega)

/-- the `loop` of `posting::lot`: every round consumes its opening bracket, so `length + 1` rounds suffice -/
theorem lotLoop_good : ∀ (n : Nat) (l : Lot) (i : List Char), i.length < n → (lotLoop n l i).Good 0 i := by
  intro n
  induction n with
  | zero => intro l i h; omega
  | succ n ih =>
    intro l i hlt
    unfold lotLoop
    split
    · split
      · exact lotRound_good (safe_lotAmount.mono (by omega)) n _ hlt _ (fun b r hr => ih _ r hr)
      · exact List.suffix_refl _
    · split
      · refine lotRound_good (p := delimited (pair (char '[') space0) date (pair space0 (char ']'))) ?_ n _ hlt _
          (fun b r hr => ih _ r hr)
        safe_tac
      · exact List.suffix_refl _
    · split
      · refine lotRound_good (p := paren (takeTill0 fun c => c == '(' || c == ')' || c == '@')) ?_ n _ hlt _
          (fun b r hr => ih _ r hr)
        safe_tac
      · exact List.suffix_refl _
    · exact ⟨List.suffix_refl _, by omega⟩

theorem safe_lot : Safe 0 lot := by
  unfold lot
  refine safe_bind (safe_space0 (Nat.le_refl 0)) (m := 0) (fun _ => ⟨fun i => ?_⟩) (Nat.le_refl _)
  exact lotLoop_good (i.length + 1) {} i (Nat.lt_succ_self _)
macro_rules | `(tactic| safe_leaf) => `(tactic| with_reducible apply Safe.mono safe_lot)

theorem safe_totalCost : Safe 3 totalCost := by unfold totalCost; safe_tac
macro_rules | `(tactic| safe_leaf) => `(tactic| with_reducible apply Safe.mono safe_totalCost)
theorem safe_rateCost : Safe 2 rateCost := by unfold rateCost; safe_tac
macro_rules | `(tactic| safe_leaf) => `(tactic| with_reducible apply Safe.mono safe_rateCost)

theorem safe_postingAmount : Safe 1 postingAmount := by unfold postingAmount; safe_tac
macro_rules | `(tactic| safe_leaf) => `(tactic| with_reducible apply Safe.mono safe_postingAmount)

theorem safe_posting : Safe 1 posting := by unfold posting; safe_tac
macro_rules | `(tactic| safe_leaf) => `(tactic| with_reducible apply Safe.mono safe_posting)

/-! ## `transaction.rs` -/

/-- the element of `transaction`'s `repeat(0..)`: the indentation is consumed before the posting -/
theorem safe_transaction_elem :
    Safe 2 (preceded (pair (takeWhile1 isSpace) (Comb.not lineEndingOrEof)) (cutErr posting)) := by safe_tac

theorem safe_transaction : Safe 5 transaction := by unfold transaction; safe_tac
macro_rules | `(tactic| safe_leaf) => `(tactic| with_reducible apply Safe.mono safe_transaction)

/-! ## `directive.rs` -/

/-- `multiline_text(prefix)`: the repeated line consumes because its prefix does -/
theorem safe_multilineText {β : Type} {n : Nat} {pfx : Parser β} (h : Safe 1 pfx) (hn : n ≤ 1) :
    Safe n (multilineText pfx) := by
  unfold multilineText; safe_tac
macro_rules | `(tactic| safe_leaf) => `(tactic| with_reducible apply safe_multilineText)

theorem safe_restOfLine {β : Type} {k n : Nat} {pfx : Parser β} (h : Safe k pfx) (hn : n ≤ k) :
    Safe n (restOfLine pfx) := by
  unfold restOfLine; safe_tac
macro_rules | `(tactic| safe_leaf) => `(tactic| with_reducible apply safe_restOfLine)

theorem safe_detailComment : Safe 1 detailComment := by unfold detailComment; safe_tac
macro_rules | `(tactic| safe_leaf) => `(tactic| with_reducible apply Safe.mono safe_detailComment)
theorem safe_detailNote : Safe 1 detailNote := by unfold detailNote; safe_tac
macro_rules | `(tactic| safe_leaf) => `(tactic| with_reducible apply Safe.mono safe_detailNote)
theorem safe_detailAlias : Safe 7 detailAlias := by unfold detailAlias; safe_tac
macro_rules | `(tactic| safe_leaf) => `(tactic| with_reducible apply Safe.mono safe_detailAlias)

theorem safe_accountDeclaration : Safe 8 accountDeclaration := by unfold accountDeclaration; safe_tac
macro_rules | `(tactic| safe_leaf) => `(tactic| with_reducible apply Safe.mono safe_accountDeclaration)

theorem safe_commodityDeclaration : Safe 10 commodityDeclaration := by unfold commodityDeclaration; safe_tac
macro_rules | `(tactic| safe_leaf) => `(tactic| with_reducible apply Safe.mono safe_commodityDeclaration)

theorem safe_applyTag : Safe 11 applyTag := by unfold applyTag; safe_tac
macro_rules | `(tactic| safe_leaf) => `(tactic| with_reducible apply Safe.mono safe_applyTag)

theorem safe_endApplyTag : Safe 13 endApplyTag := by unfold endApplyTag; safe_tac
macro_rules | `(tactic| safe_leaf) => `(tactic| with_reducible apply Safe.mono safe_endApplyTag)

theorem safe_includeDirective : Safe 8 includeDirective := by unfold includeDirective; safe_tac
macro_rules | `(tactic| safe_leaf) => `(tactic| with_reducible apply Safe.mono safe_includeDirective)

theorem safe_topComment : Safe 1 topComment := by unfold topComment; safe_tac
macro_rules | `(tactic| safe_leaf) => `(tactic| with_reducible apply Safe.mono safe_topComment)

/-! ## `parse.rs` -/

/-- **`parse_ledger_entry` is total and consumes at least one character when it succeeds** -/
theorem safe_parseLedgerEntry : Safe 1 parseLedgerEntry := by
  unfold parseLedgerEntry
  refine safe_dispatch fun c => ?_
  safe_tac

end Okane.Parse
