import Okane.Lemmas.C05Round
import Okane.Lemmas.Literal
/-!
# C05, `commodity … format` detail: the amount `expr::amount` reads back from `Display for Amount`

* every text the literal scanner accepts has the token shape `-?[0-9,.]+` (`scan_ok_shape`), hence
  `primitive::pretty_decimal` hands exactly the printed number to `from_str` (`prettyDecimal_rt`);
* `Parse.amount (printAmount d c ++ '\n' :: X) = ok (d, c) ('\n' :: X)` for every `wfNumber d`,
  `isCommodityText c` (`amount_rt`).
-/
set_option linter.unusedSimpArgs false
namespace Okane.Unparse
open Okane Okane.Comb Okane.Parse Okane.Literal

/-! ## the shape of accepted literals -/

theorem step_ok_numChar {st st' : St} {i : Nat} {c : Char} (h : step st i c = .ok st') (hi : ¬ (i = 0 ∧ c = '-')) :
    isNumChar c = true := by
  by_cases hd : c.isDigit = true
  · simp [isNumChar, hd]
  · by_cases h2 : c = ','
    · simp [isNumChar, h2]
    · by_cases h3 : c = '.'
      · simp [isNumChar, h3]
      · obtain ⟨e, he⟩ := C07.step_other st i c (by simpa using hd) h2 h3 hi
        rw [he] at h; cases h

theorem loop_ok_numChars : ∀ (s : List Char) (st st' : St) (i : Nat), i ≠ 0 → loop st i s = .ok st' →
    ∀ c ∈ s, isNumChar c = true := by
  intro s
  induction s with
  | nil => intro _ _ _ _ _ c hc; cases hc
  | cons a t ih =>
    intro st st' i hi h c hc
    simp only [loop] at h
    cases hs : step st i a with
    | ok st1 =>
      rw [hs] at h
      rcases List.mem_cons.mp hc with rfl | hc
      · exact step_ok_numChar hs (by omega)
      · exact ih st1 st' (i + 1) (by omega) h c hc
    | err e => rw [hs] at h; cases h
    | panic p => rw [hs] at h; cases h
    | fuelOut => rw [hs] at h; cases h

/-- what `tokenSplit` needs to know about an accepted literal: an optional minus, then a non-empty run of
digits, commas and points -/
def TokenShape (s : List Char) : Prop :=
  ∃ sign body, s = sign ++ body ∧ (sign = [] ∨ sign = ['-']) ∧ body ≠ [] ∧ (∀ c ∈ body, isNumChar c = true) ∧
    (sign = [] → ∀ t, body ≠ '-' :: t)

theorem scan_ok_shape {s : List Char} {d : PDec} (h : scan s = .ok d) : TokenShape s := by
  cases s with
  | nil =>
    have : scan [] = .err (.unexpectedEnd 0) := by decide
    rw [this] at h; cases h
  | cons a t =>
    by_cases hm : a = '-' ∧ t = []
    · obtain ⟨rfl, rfl⟩ := hm
      have : scan ['-'] = .err (.unexpectedEnd 1) := by decide
      rw [this] at h; cases h
    unfold scan at h
    cases hl : loop {} 0 (a :: t) with
    | ok st =>
      simp only [loop] at hl
      cases hs : step {} 0 a with
      | ok st1 =>
        rw [hs] at hl
        have htl := loop_ok_numChars t st1 st 1 (by omega) hl
        by_cases ha : a = '-'
        · subst ha
          refine ⟨['-'], t, rfl, Or.inr rfl, ?_, htl, by intro h; cases h⟩
          intro ht
          exact hm ⟨rfl, ht⟩
        · have hna := step_ok_numChar hs (by simp [ha])
          refine ⟨[], a :: t, rfl, Or.inl rfl, by simp, ?_, ?_⟩
          · intro c hc
            rcases List.mem_cons.mp hc with rfl | hc
            · exact hna
            · exact htl c hc
          · intro _ t' e
            injection e with e1 _
            exact ha e1
      | err e => rw [hs] at hl; cases hl
      | panic p => rw [hs] at hl; cases hl
      | fuelOut => rw [hs] at hl; cases hl
    | err e => rw [hl] at h; cases h
    | panic p => rw [hl] at h; cases h
    | fuelOut => rw [hl] at h; cases h

theorem tokenSplit_cons_ne {b : Char} (hb : b ≠ '-') (t : List Char) :
    tokenSplit (b :: t) = if ((b :: t).takeWhile isNumChar).isEmpty then .error (b :: t)
      else .ok ((b :: t).takeWhile isNumChar, (b :: t).dropWhile isNumChar) := by
  simp [tokenSplit, hb]

theorem tokenSplit_minus (t : List Char) :
    tokenSplit ('-' :: t) = if (t.takeWhile isNumChar).isEmpty then .error t
      else .ok ('-' :: t.takeWhile isNumChar, t.dropWhile isNumChar) := by
  simp [tokenSplit]

/-- `tokenSplit` cuts an accepted literal off whatever follows, if that does not continue the number -/
theorem tokenSplit_shape {s X : List Char} (hs : TokenShape s) (hX : ∀ c r, X = c :: r → isNumChar c = false) :
    tokenSplit (s ++ X) = .ok (s, X) := by
  obtain ⟨sign, body, rfl, hsign, hne, hall, hnm⟩ := hs
  have hstop : Stop isNumChar X := hX
  have h1 : (body ++ X).takeWhile isNumChar = body := takeWhile_append_stop hall hstop
  have h2 : (body ++ X).dropWhile isNumChar = X := dropWhile_append_stop hall hstop
  rcases hsign with rfl | rfl
  · cases body with
    | nil => exact absurd rfl hne
    | cons b t =>
      have hb : b ≠ '-' := by intro e; exact hnm rfl t (by rw [e])
      simp only [List.nil_append, List.cons_append] at h1 h2 ⊢
      rw [tokenSplit_cons_ne hb, h1, h2]
      simp
  · simp only [List.cons_append, List.nil_append]
    rw [tokenSplit_minus, h1, h2]
    simp [hne]

theorem wfNumber_scan {d : PDec} (h : wfNumber d = true) : scan (printPDec d) = .ok d := by
  simpa [wfNumber] using h

theorem printPDec_shape {d : PDec} (h : wfNumber d = true) : TokenShape (printPDec d) :=
  scan_ok_shape (wfNumber_scan h)

/-- a printed number does not begin with a blank or a tab -/
theorem printPDec_stop_space {d : PDec} (h : wfNumber d = true) (X : List Char) :
    Stop isSpace (printPDec d ++ X) := by
  obtain ⟨sign, body, he, hsign, hne, hall, _⟩ := printPDec_shape h
  rw [he]
  rcases hsign with rfl | rfl
  · cases body with
    | nil => exact absurd rfl hne
    | cons b t =>
      have hb := hall b (by simp)
      simp only [List.nil_append, List.cons_append, Stop_cons]
      cases hsp : isSpace b with
      | false => rfl
      | true =>
        simp [isSpace] at hsp
        rcases hsp with rfl | rfl <;> exact absurd hb (by decide)
  · simp [isSpace]

/-- `primitive::pretty_decimal` reads back a printed number -/
theorem prettyDecimal_rt {d : PDec} (h : wfNumber d = true) {X : List Char}
    (hX : ∀ c r, X = c :: r → isNumChar c = false) :
    ExprSyntax.prettyDecimal (printPDec d ++ X) = .ok d X := by
  simp [ExprSyntax.prettyDecimal, tokenSplit_shape (printPDec_shape h) hX, wfNumber_scan h]

/-! ## the amount -/

theorem displayRescale_noPrec (d : PDec) (c : String) : displayRescale noPrec d c = d := by
  simp [displayRescale, noPrec, rescale]

theorem printAmount_eq (d : PDec) (c : String) :
    printAmount d c = if c.isEmpty then printPDec d else printPDec d ++ ' ' :: c.toList := by
  unfold printAmount printVExpr ExprSyntax.printVExpr
  rw [ExprSyntax.printVExprA]
  simp only [displayRescale_noPrec]
  split <;> rfl

theorem commodityChar_not_space {c : Char} (h : ExprSyntax.isCommodityChar c = true) : ExprSyntax.isSpace c = false := by
  cases hs : ExprSyntax.isSpace c with
  | false => rfl
  | true =>
    simp [ExprSyntax.isSpace] at hs
    rcases hs with rfl | rfl <;> exact absurd h (by decide)

/-- `primitive::commodity` after `space0` on a commodity followed by a new-line -/
theorem commodity_rt {c : List Char} (hc : isCommodityText c = true) (X : List Char) :
    ExprSyntax.commodity (ExprSyntax.skipSpaces (c ++ '\n' :: X)) = (c, '\n' :: X) := by
  simp [isCommodityText, List.all_eq_true] at hc
  have hnl : Stop ExprSyntax.isCommodityChar ('\n' :: X) := by
    simp only [Stop_cons]; decide
  have hsk : ExprSyntax.skipSpaces (c ++ '\n' :: X) = c ++ '\n' :: X := by
    cases c with
    | nil => simp [ExprSyntax.skipSpaces, List.dropWhile, ExprSyntax.isSpace]
    | cons a t =>
      have := commodityChar_not_space (hc a (by simp))
      simp [ExprSyntax.skipSpaces, List.dropWhile, this]
  rw [hsk]
  simp [ExprSyntax.commodity, takeWhile_append_stop hc hnl, dropWhile_append_stop hc hnl]

/-- `expr::amount` reads back `Display for Amount` (no precision context) before a new-line -/
theorem amount_rt {d : PDec} {c : String} (hd : wfNumber d = true) (hc : isCommodityText c.toList = true)
    (X : List Char) :
    Parse.amount (printAmount d c ++ '\n' :: X) = .ok (d, c) ('\n' :: X) := by
  rw [printAmount_eq]
  by_cases he : c.isEmpty = true
  · have hnil : c.toList = [] := by simpa using he
    have hpd := prettyDecimal_rt hd (X := '\n' :: X) (by intro a r e; cases e; decide)
    have hcm := commodity_rt (c := []) (by rfl) X
    simp only [List.nil_append] at hcm
    have hcs : String.ofList [] = c := by rw [← hnil, String.ofList_toList]
    simp [he, Parse.amount, hpd, hcm, hcs]
  · have hpd := prettyDecimal_rt hd (X := ' ' :: (c.toList ++ '\n' :: X)) (by intro a r e; cases e; decide)
    have hcm := commodity_rt hc X
    have hsk : ExprSyntax.skipSpaces (' ' :: (c.toList ++ '\n' :: X)) = ExprSyntax.skipSpaces (c.toList ++ '\n' :: X) := by
      simp [ExprSyntax.skipSpaces, List.dropWhile, ExprSyntax.isSpace]
    simp [he, Parse.amount, hpd, hsk, hcm]

example : wfNumber ⟨true, 1234567, 2, some .comma3dot⟩ = true := by decide +kernel
example : Parse.amount ("-12,345.67 JPY\nrest".toList) = .ok (⟨true, 1234567, 2, some .comma3dot⟩, "JPY") "\nrest".toList := by
  have := amount_rt (d := ⟨true, 1234567, 2, some .comma3dot⟩) (c := "JPY") (by decide +kernel) (by decide) "rest".toList
  have hp : printAmount ⟨true, 1234567, 2, some .comma3dot⟩ "JPY" = "-12,345.67 JPY".toList := by decide +kernel
  rw [hp] at this
  exact this

end Okane.Unparse
