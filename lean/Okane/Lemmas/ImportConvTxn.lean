import Okane.Lemmas.ImportConvBooks
import Okane.Lemmas.ImportTxn
/-!
# Importer transactions with a currency conversion, and ledgers the book-keeping accepts

A `Txn` with a transferred amount `tr sc` in a second commodity and a rate prints two postings
(`Txn.toDoubleEntry`): the account posting `amount c [@ r sc]` and the counter-posting `∓|tr| sc [@ r c]`, the
`@ rate` sitting on the commodity the rate prices (`Txn.rate` looks the posting's commodity up in `rates`).
This file states when such a transaction balances for the book-keeping (`Txn.ConvBalanced`), proves that it then
prints postings of the shape `Lemmas/ImportConvBooks.lean` accepts, and composes runs of plain and converted
transactions with `process`.
-/
set_option linter.unusedSectionVars false
set_option linter.unusedVariables false
namespace Okane
namespace Import

/-- magnitude of a decimal -/
def Dec.absRat (d : Dec) : Rat := (d.mant : Rat) / (10 : Rat) ^ d.scale

theorem Dec.toRat_eq (d : Dec) : d.toRat = if d.neg then - d.absRat else d.absRat := rfl

/-- the `@ r cr` that `Txn::rate` attaches to a posting in commodity `k` -/
def Txn.costOf (t : Txn) (k : String) : CostSpec :=
  (AMap.get? t.rates k).map fun x => (x.value.toPDec, x.commodity)

theorem Txn.rate_eq_costSyntax (t : Txn) (k : String) : t.rate k = costSyntax (t.costOf k) := by
  unfold Txn.rate Txn.costOf costSyntax Txn.asSyntaxAmount
  cases AMap.get? t.rates k <;> rfl

/-- the counter amount of a transaction with a transferred amount: magnitude of `tr`, sign flag opposite to the
primary amount (`amount_with_sign(transferred, -amount)`) -/
def counterDec (a tr : Dec) : Dec := ⟨!a.neg, tr.mant, tr.scale⟩

theorem amountWithSign_counter (a tr : Dec) (sc : String) :
    Txn.amountWithSign ⟨tr, sc⟩ a.negate = ⟨counterDec a tr, sc⟩ := by
  simp [Txn.amountWithSign, Dec.setSignPositive, Dec.isSignPositive, Dec.negate, counterDec]

theorem counterDec_toRat (a tr : Dec) : (counterDec a tr).toRat = if a.neg then tr.absRat else - tr.absRat := by
  unfold counterDec Dec.toRat Dec.absRat
  cases a.neg <;> simp

/-- **Balance condition of a converted transaction** (what `check_balance` will require, no commodity having a
declared precision): the two postings' contributions — each taken in the rate's commodity when the posting carries
`@ rate` — cancel in every commodity. -/
def Txn.ConvBalanced (t : Txn) (c sc : String) (tr : Dec) : Prop :=
  ∀ k, partAt k (some (deltaOf t.amount.value.toPDec c (t.costOf c))) +
       partAt k (some (deltaOf (counterDec t.amount.value tr).toPDec sc (t.costOf sc))) = 0

/-- **Shape of `to_double_entry` of a converted transaction for the book-keeping** (balanced or not): two postings
of the accepted shape, whose contributions are the two terms of `Txn.ConvBalanced`. -/
theorem toDoubleEntry_conv_shape (t : Txn) (acct c sc : String) (tr : Dec) (x : Rat)
    (hamount : t.amount.commodity = c) (htr : t.transferredAmount = some ⟨tr, sc⟩) (hch : t.charges = [])
    (hc : c ≠ "") (hsc : sc ≠ "") (hks : CostOK c (t.costOf c)) (hkd : CostOK sc (t.costOf sc))
    (ho : t.OtherAccounts acct)
    (hassert : t.balance = none ∨ ∃ b, t.balance = some ⟨b, c⟩ ∧ b.toRat = x + t.amount.value.toRat) :
    ∃ trn, t.toDoubleEntry acct = .ok trn ∧ trn.date = t.date ∧ PostingsOKx acct c x trn.posts ∧
      (∀ k, sumD k trn.posts = partAt k (some (deltaOf t.amount.value.toPDec c (t.costOf c))) +
        partAt k (some (deltaOf (counterDec t.amount.value tr).toPDec sc (t.costOf sc)))) ∧
      finalX acct x trn.posts = x + t.amount.value.toRat := by
  have hsrcAmt : (t.srcPosting acct).amount =
      some { amount := .amt t.amount.value.toPDec c, cost := costSyntax (t.costOf c), lot := {} } := by
    simp [Txn.srcPosting, Txn.srcAmount, Txn.toPostingAmount, Txn.asSyntaxAmount, Txn.rate_eq_costSyntax, hamount]
  have hsrcBal : ∀ y, y = x → ((t.srcPosting acct).balance = none ∨
      ((t.srcPosting acct).account = acct ∧ ∃ b : PDec, (t.srcPosting acct).balance = some (.amt b c) ∧
        b.toRat = stepX acct y (t.srcPosting acct).account t.amount.value.toPDec.toRat)) := by
    intro y hy
    subst hy
    rcases hassert with h | ⟨b, h, hb⟩
    · left; simp [Txn.srcPosting, h]
    · right
      refine ⟨rfl, b.toPDec, ?_, ?_⟩
      · simp [Txn.srcPosting, h, Txn.asSyntaxAmount]
      · simp [stepX, Txn.srcPosting, Dec.toPDec_toRat, hb]
  have hdestAmt : ∀ fb, (t.destPosting fb).amount =
      some { amount := .amt (counterDec t.amount.value tr).toPDec sc, cost := costSyntax (t.costOf sc), lot := {} } := by
    intro fb
    simp [Txn.destPosting, Txn.destAmount, htr, amountWithSign_counter, Txn.toPostingAmount, Txn.asSyntaxAmount,
      Txn.rate_eq_costSyntax]
  have hdestAcc : ∀ fb, (fb = "Income:Unknown" ∨ fb = "Expenses:Unknown") → (t.destPosting fb).account ≠ acct :=
    fun fb hfb => ho.dest fb hfb
  have hdestBal : ∀ fb, (t.destPosting fb).balance = none := fun _ => rfl
  have hstepSrc : ∀ y, stepX acct y (t.srcPosting acct).account t.amount.value.toPDec.toRat = y + t.amount.value.toRat := by
    intro y; simp [stepX, Txn.srcPosting, Dec.toPDec_toRat]
  have hstepDest : ∀ fb y v, (fb = "Income:Unknown" ∨ fb = "Expenses:Unknown") →
      stepX acct y (t.destPosting fb).account v = y := by
    intro fb y v hfb; simp [stepX, hdestAcc fb hfb]
  unfold Txn.toDoubleEntry Txn.postings Txn.chargePostings
  rw [hch]
  by_cases hpos : t.amount.value.isSignPositive = true
  · simp only [hpos, if_true, List.map_nil, List.append_nil, List.singleton_append]
    refine ⟨_, rfl, rfl, ?_, ?_, ?_⟩
    · refine ⟨_, _, _, hsrcAmt, hc, hks, fun _ => rfl, hsrcBal x rfl, ?_⟩
      refine ⟨_, _, _, hdestAmt _, hsc, hkd, fun h => absurd h (hdestAcc _ (Or.inl rfl)), Or.inl (hdestBal _), trivial⟩
    · intro k
      simp only [sumD, postDelta_shape _ _ _ _ _ hsrcAmt, postDelta_shape _ _ _ _ _ (hdestAmt _)]
      grind
    · rw [finalX_cons_amt acct x _ _ _ _ _ _ hsrcAmt, finalX_cons_amt acct _ _ _ _ _ _ _ (hdestAmt _)]
      simp only [finalX, hstepSrc, hstepDest _ _ _ (Or.inl rfl)]
  · have hneg : t.amount.value.isSignNegative = true := by
      unfold Dec.isSignPositive at hpos
      unfold Dec.isSignNegative
      cases h : t.amount.value.neg <;> simp [h] at hpos ⊢
    simp only [hpos, hneg, if_true, List.map_nil, List.append_nil, List.singleton_append]
    refine ⟨_, rfl, rfl, ?_, ?_, ?_⟩
    · refine ⟨_, _, _, hdestAmt _, hsc, hkd, fun h => absurd h (hdestAcc _ (Or.inr rfl)), Or.inl (hdestBal _), ?_⟩
      rw [hstepDest _ _ _ (Or.inr rfl)]
      exact ⟨_, _, _, hsrcAmt, hc, hks, fun _ => rfl, hsrcBal x rfl, trivial⟩
    · intro k
      simp only [sumD, postDelta_shape _ _ _ _ _ hsrcAmt, postDelta_shape _ _ _ _ _ (hdestAmt _)]
      grind
    · rw [finalX_cons_amt acct x _ _ _ _ _ _ (hdestAmt _), finalX_cons_amt acct _ _ _ _ _ _ _ hsrcAmt]
      simp only [finalX, hstepSrc, hstepDest _ _ _ (Or.inr rfl)]

/-- a balanced converted transaction prints a balanced transaction -/
theorem toDoubleEntry_conv_ok (t : Txn) (acct c sc : String) (tr : Dec) (x : Rat)
    (hamount : t.amount.commodity = c) (htr : t.transferredAmount = some ⟨tr, sc⟩) (hch : t.charges = [])
    (hc : c ≠ "") (hsc : sc ≠ "") (hks : CostOK c (t.costOf c)) (hkd : CostOK sc (t.costOf sc))
    (hbal : t.ConvBalanced c sc tr) (ho : t.OtherAccounts acct)
    (hassert : t.balance = none ∨ ∃ b, t.balance = some ⟨b, c⟩ ∧ b.toRat = x + t.amount.value.toRat) :
    ∃ trn, t.toDoubleEntry acct = .ok trn ∧ trn.date = t.date ∧ PostingsOKx acct c x trn.posts ∧
      (∀ k, sumD k trn.posts = 0) ∧ finalX acct x trn.posts = x + t.amount.value.toRat := by
  obtain ⟨trn, h1, h2, h3, h4, h5⟩ := toDoubleEntry_conv_shape t acct c sc tr x hamount htr hch hc hsc hks hkd ho hassert
  exact ⟨trn, h1, h2, h3, fun k => by rw [h4 k]; exact hbal k, h5⟩

/-! ## the consistency condition, by the commodity the rate prices -/

/-- **Rate on the account posting** (`price_of_primary`): `amount c @ r sc` against `∓|tr| sc`.
Consistent when the secondary magnitude is the primary magnitude times the rate, exactly. -/
structure Txn.ConvPrimary (t : Txn) (c sc : String) (tr r : Dec) : Prop where
  rateC : AMap.get? t.rates c = some ⟨r, sc⟩
  rateSc : AMap.get? t.rates sc = none
  consistent : tr.absRat = r.toRat * t.amount.value.absRat

/-- **Rate on the counter-posting** (`price_of_secondary`): `amount c` against `∓|tr| sc @ r c`.
Consistent when the primary magnitude is the secondary magnitude times the rate, exactly. -/
structure Txn.ConvSecondary (t : Txn) (c sc : String) (tr r : Dec) : Prop where
  rateC : AMap.get? t.rates c = none
  rateSc : AMap.get? t.rates sc = some ⟨r, c⟩
  consistent : t.amount.value.absRat = r.toRat * tr.absRat

theorem Txn.ConvPrimary.ok {t : Txn} {c sc : String} {tr r : Dec} (h : t.ConvPrimary c sc tr r)
    (hsc : sc ≠ "") (hne : sc ≠ c) (hr : r.toRat ≠ 0) :
    CostOK c (t.costOf c) ∧ CostOK sc (t.costOf sc) ∧ t.ConvBalanced c sc tr := by
  have h1 : t.costOf c = some (r.toPDec, sc) := by simp [Txn.costOf, h.rateC]
  have h2 : t.costOf sc = none := by simp [Txn.costOf, h.rateSc]
  refine ⟨?_, ?_, ?_⟩
  · rw [h1]; exact ⟨hsc, hne, hr⟩
  · rw [h2]; trivial
  · intro k
    rw [h1, h2]
    simp only [deltaOf, partAt, Dec.toPDec_toRat, counterDec_toRat]
    by_cases hk : sc = k
    · simp only [hk, if_true]
      rw [Dec.toRat_eq t.amount.value]
      have := h.consistent
      cases t.amount.value.neg <;> simp <;> grind
    · simp [hk]

theorem Txn.ConvSecondary.ok {t : Txn} {c sc : String} {tr r : Dec} (h : t.ConvSecondary c sc tr r)
    (hc : c ≠ "") (hne : sc ≠ c) (hr : r.toRat ≠ 0) :
    CostOK c (t.costOf c) ∧ CostOK sc (t.costOf sc) ∧ t.ConvBalanced c sc tr := by
  have h1 : t.costOf c = none := by simp [Txn.costOf, h.rateC]
  have h2 : t.costOf sc = some (r.toPDec, c) := by simp [Txn.costOf, h.rateSc]
  refine ⟨?_, ?_, ?_⟩
  · rw [h1]; trivial
  · rw [h2]; exact ⟨hc, Ne.symm hne, hr⟩
  · intro k
    rw [h1, h2]
    simp only [deltaOf, partAt, Dec.toPDec_toRat, counterDec_toRat]
    by_cases hk : c = k
    · simp only [hk, if_true]
      rw [Dec.toRat_eq t.amount.value]
      have := h.consistent
      cases t.amount.value.neg <;> simp <;> grind
    · simp [hk]

/-- a row with a conversion into `sc`: transferred amount `tr sc`, a non-zero rate attached to one of the two
commodities, and the amounts consistent with the rate -/
def Txn.ConvRow (c : String) (t : Txn) : Prop :=
  ∃ (sc : String) (tr r : Dec), sc ≠ "" ∧ sc ≠ c ∧ r.toRat ≠ 0 ∧ t.amount.commodity = c ∧
    t.transferredAmount = some ⟨tr, sc⟩ ∧ (t.ConvPrimary c sc tr r ∨ t.ConvSecondary c sc tr r)

/-- a row the book-keeping accepts: single-commodity and balanced, or converted consistently (and without charge) -/
def Txn.RowOK (c : String) (t : Txn) : Prop := (t.Mono c ∧ t.Balanced) ∨ (t.charges = [] ∧ t.ConvRow c)

/-! ## runs -/

/-- as `RunOK`, rows may carry a consistent conversion -/
def RunOKx (acct c : String) : Rat → List Txn → Prop
  | _, [] => True
  | x, t :: ts =>
    t.RowOK c ∧ t.OtherAccounts acct ∧
    (t.balance = none ∨ ∃ b, t.balance = some ⟨b, c⟩ ∧ b.toRat = x + t.amount.value.toRat) ∧
    RunOKx acct c (x + t.amount.value.toRat) ts

theorem toDoubleEntry_okx (t : Txn) (acct c : String) (x : Rat) (hc : c ≠ "") (hrow : t.RowOK c)
    (ho : t.OtherAccounts acct)
    (hassert : t.balance = none ∨ ∃ b, t.balance = some ⟨b, c⟩ ∧ b.toRat = x + t.amount.value.toRat) :
    ∃ trn, t.toDoubleEntry acct = .ok trn ∧ trn.date = t.date ∧ PostingsOKx acct c x trn.posts ∧
      (∀ k, sumD k trn.posts = 0) ∧ finalX acct x trn.posts = x + t.amount.value.toRat := by
  rcases hrow with ⟨hm, hb⟩ | ⟨hch, sc, tr, r, hsc, hne, hr, hamount, htr, hmode⟩
  · obtain ⟨trn, h1, h2, h3, h4, h5⟩ := toDoubleEntry_ok t acct c x hm hb ho hassert
    obtain ⟨h6, h7⟩ := PostingsOKx_of_PostingsOK acct c hc trn.posts x h3
    refine ⟨trn, h1, h2, h6, ?_, h5⟩
    intro k
    rw [h7 k, h4]
    simp
  · rcases hmode with hp | hs
    · obtain ⟨hks, hkd, hbal⟩ := hp.ok hsc hne hr
      exact toDoubleEntry_conv_ok t acct c sc tr x hamount htr hch hc hsc hks hkd hbal ho hassert
    · obtain ⟨hks, hkd, hbal⟩ := hs.ok hc hne hr
      exact toDoubleEntry_conv_ok t acct c sc tr x hamount htr hch hc hsc hks hkd hbal ho hassert

theorem ledgerOf_okx (acct c : String) (hc : c ≠ "") : ∀ (txns : List Txn) (x : Rat), RunOKx acct c x txns →
    ∃ trs, ledgerOf acct txns = .ok trs ∧ LedgerOKx acct c x trs ∧ ledgerX acct x trs = runX x txns := by
  intro txns
  induction txns with
  | nil => intro x _; exact ⟨[], rfl, trivial, rfl⟩
  | cons t ts ih =>
    intro x h
    obtain ⟨hrow, ho, ha, hrest⟩ := h
    obtain ⟨tr, htr, _, hp, hs, hx⟩ := toDoubleEntry_okx t acct c x hc hrow ho ha
    obtain ⟨trs, hl, hok, hlx⟩ := ih _ hrest
    refine ⟨tr :: trs, ?_, ⟨hp, hs, ?_⟩, ?_⟩
    · simp [ledgerOf, htr, hl]
    · rw [hx]; exact hok
    · simp only [ledgerX, runX, hx]; exact hlx

/-- **Composition of the importer's output with the book-keeping, conversions included.**  Given that the account
held `b₀` beforehand, a consistent run is accepted by `process` and the account ends at the running total. -/
theorem run_acceptsx (acct c : String) (hc : c ≠ "") (hne : "Equity:Opening" ≠ acct) (date : Date) (b₀ : Dec)
    (txns : List Txn) (h : RunOKx acct c b₀.toRat txns) :
    ∃ trs st, ledgerOf acct txns = .ok trs ∧
      process (Entry.txn (fundTxn acct date b₀ c) :: trs.map Entry.txn) = .ok st ∧
      Amount.getPart (Balance.get st.bal acct) c = runX b₀.toRat txns := by
  obtain ⟨trs, hl, hok, hx⟩ := ledgerOf_okx acct c hc txns _ h
  obtain ⟨hf1, hf2, hf3⟩ := fundTxn_ok acct c date b₀ hne
  obtain ⟨hf4, hf5⟩ := PostingsOKx_of_PostingsOK acct c hc _ 0 hf1
  have hledger : LedgerOKx acct c 0 (fundTxn acct date b₀ c :: trs) :=
    ⟨hf4, fun k => by rw [hf5 k, hf2]; simp, by rw [hf3]; exact hok⟩
  obtain ⟨st, hp, hv⟩ := process_okx acct c hc _ hledger
  refine ⟨trs, st, hl, ?_, ?_⟩
  · simpa using hp
  · rw [hv]
    simp only [ledgerX, hf3]
    exact hx

/-! ## zero charges -/

theorem Dec.toRat_of_isZero (d : Dec) (h : d.isZero = true) : d.toRat = 0 := by
  have hm : d.mant = 0 := by simpa [Dec.isZero] using h
  have h0 : (0 : Rat) / (10 : Rat) ^ d.scale = 0 := by rw [Rat.div_def, Rat.zero_mul]
  unfold Dec.toRat
  simp [hm, h0]

theorem chargeSum_zero : ∀ cs : List Charge, (∀ ch ∈ cs, ch.amount.value.isZero = true) → chargeSum cs = 0 := by
  intro cs
  induction cs with
  | nil => intro _; rfl
  | cons ch rest ih =>
    intro h
    simp only [chargeSum, Dec.toRat_of_isZero _ (h ch (by simp)), ih (fun ch' h' => h ch' (by simp [h']))]
    simp

/-- a single-commodity row without transferred amount whose charges are all zero balances -/
theorem Txn.balanced_of_zero_charges (t : Txn) (htr : t.transferredAmount = none)
    (hch : ∀ ch ∈ t.charges, ch.amount.value.isZero = true) : t.Balanced := by
  unfold Txn.Balanced Txn.destVal
  rw [htr, chargeSum_zero _ hch]
  simp only [Dec.negate_toRat]
  grind

/-! ## necessity: an inconsistent conversion is rejected -/

/-- the rate sits on the account posting (`price_of_primary`) -/
structure Txn.RatePrimary (t : Txn) (c sc : String) (r : Dec) : Prop where
  rateC : AMap.get? t.rates c = some ⟨r, sc⟩
  rateSc : AMap.get? t.rates sc = none

/-- the rate sits on the counter-posting (`price_of_secondary`) -/
structure Txn.RateSecondary (t : Txn) (c sc : String) (r : Dec) : Prop where
  rateC : AMap.get? t.rates c = none
  rateSc : AMap.get? t.rates sc = some ⟨r, c⟩

theorem Txn.ConvPrimary.rate {t : Txn} {c sc : String} {tr r : Dec} (h : t.ConvPrimary c sc tr r) :
    t.RatePrimary c sc r := ⟨h.rateC, h.rateSc⟩
theorem Txn.ConvSecondary.rate {t : Txn} {c sc : String} {tr r : Dec} (h : t.ConvSecondary c sc tr r) :
    t.RateSecondary c sc r := ⟨h.rateC, h.rateSc⟩

/-- the primary amount and the counter amount have opposite sign flags: `r·a + d = 0 ↔ |tr| = r·|a|` -/
theorem primary_cancel_iff (a tr : Dec) (r : Rat) :
    r * a.toRat + (counterDec a tr).toRat = 0 ↔ tr.absRat = r * a.absRat := by
  rw [counterDec_toRat, Dec.toRat_eq a]
  cases a.neg <;> simp <;> constructor <;> intro h <;> grind

theorem secondary_cancel_iff (a tr : Dec) (r : Rat) :
    a.toRat + r * (counterDec a tr).toRat = 0 ↔ a.absRat = r * tr.absRat := by
  rw [counterDec_toRat, Dec.toRat_eq a]
  cases a.neg <;> simp <;> constructor <;> intro h <;> grind

theorem Txn.RatePrimary.sum {t : Txn} {c sc : String} {r : Dec} (h : t.RatePrimary c sc r) (tr : Dec) (k : String) :
    partAt k (some (deltaOf t.amount.value.toPDec c (t.costOf c))) +
      partAt k (some (deltaOf (counterDec t.amount.value tr).toPDec sc (t.costOf sc))) =
    if sc = k then r.toRat * t.amount.value.toRat + (counterDec t.amount.value tr).toRat else 0 := by
  have h1 : t.costOf c = some (r.toPDec, sc) := by simp [Txn.costOf, h.rateC]
  have h2 : t.costOf sc = none := by simp [Txn.costOf, h.rateSc]
  rw [h1, h2]
  simp only [deltaOf, partAt, Dec.toPDec_toRat]
  by_cases hk : sc = k <;> simp [hk]

theorem Txn.RateSecondary.sum {t : Txn} {c sc : String} {r : Dec} (h : t.RateSecondary c sc r) (tr : Dec) (k : String) :
    partAt k (some (deltaOf t.amount.value.toPDec c (t.costOf c))) +
      partAt k (some (deltaOf (counterDec t.amount.value tr).toPDec sc (t.costOf sc))) =
    if c = k then t.amount.value.toRat + r.toRat * (counterDec t.amount.value tr).toRat else 0 := by
  have h1 : t.costOf c = none := by simp [Txn.costOf, h.rateC]
  have h2 : t.costOf sc = some (r.toPDec, c) := by simp [Txn.costOf, h.rateSc]
  rw [h1, h2]
  simp only [deltaOf, partAt, Dec.toPDec_toRat]
  by_cases hk : c = k <;> simp [hk]

/-- with the rate on the account posting, the transaction balances **iff** `|tr| = r·|amount|` -/
theorem Txn.RatePrimary.balanced_iff {t : Txn} {c sc : String} {r : Dec} (h : t.RatePrimary c sc r) (tr : Dec) :
    t.ConvBalanced c sc tr ↔ tr.absRat = r.toRat * t.amount.value.absRat := by
  rw [← primary_cancel_iff]
  unfold Txn.ConvBalanced
  constructor
  · intro hb
    have := hb sc
    rw [h.sum tr sc] at this
    simpa using this
  · intro hb k
    rw [h.sum tr k]
    by_cases hk : sc = k <;> simp [hk, hb]

/-- with the rate on the counter-posting, the transaction balances **iff** `|amount| = r·|tr|` -/
theorem Txn.RateSecondary.balanced_iff {t : Txn} {c sc : String} {r : Dec} (h : t.RateSecondary c sc r) (tr : Dec) :
    t.ConvBalanced c sc tr ↔ t.amount.value.absRat = r.toRat * tr.absRat := by
  rw [← secondary_cancel_iff]
  unfold Txn.ConvBalanced
  constructor
  · intro hb
    have := hb c
    rw [h.sum tr c] at this
    simpa using this
  · intro hb k
    rw [h.sum tr k]
    by_cases hk : c = k <;> simp [hk, hb]

/-- a converted row, consistent or not: transferred amount `tr sc`, a non-zero rate `r` on one of the two
commodities, no charge -/
structure Txn.ConvShape (c sc : String) (tr r : Dec) (t : Txn) : Prop where
  sc_ne : sc ≠ ""
  ne : sc ≠ c
  rate_ne : r.toRat ≠ 0
  amount : t.amount.commodity = c
  transferred : t.transferredAmount = some ⟨tr, sc⟩
  charges : t.charges = []
  mode : t.RatePrimary c sc r ∨ t.RateSecondary c sc r

/-- **the** consistency condition of a converted row, by where the rate sits -/
def Txn.ConvConsistent (t : Txn) (c sc : String) (tr r : Dec) : Prop :=
  (t.RatePrimary c sc r → tr.absRat = r.toRat * t.amount.value.absRat) ∧
  (t.RateSecondary c sc r → t.amount.value.absRat = r.toRat * tr.absRat)

theorem Txn.ConvShape.costs {t : Txn} {c sc : String} {tr r : Dec} (h : t.ConvShape c sc tr r) (hc : c ≠ "") :
    CostOK c (t.costOf c) ∧ CostOK sc (t.costOf sc) := by
  rcases h.mode with hp | hs
  · have h1 : t.costOf c = some (r.toPDec, sc) := by simp [Txn.costOf, hp.rateC]
    have h2 : t.costOf sc = none := by simp [Txn.costOf, hp.rateSc]
    rw [h1, h2]; exact ⟨⟨h.sc_ne, h.ne, h.rate_ne⟩, trivial⟩
  · have h1 : t.costOf c = none := by simp [Txn.costOf, hs.rateC]
    have h2 : t.costOf sc = some (r.toPDec, c) := by simp [Txn.costOf, hs.rateSc]
    rw [h1, h2]; exact ⟨trivial, ⟨hc, Ne.symm h.ne, h.rate_ne⟩⟩

/-- a rate cannot sit on both postings -/
theorem Txn.rate_modes_exclusive {t : Txn} {c sc : String} {r : Dec} (hp : t.RatePrimary c sc r)
    (hs : t.RateSecondary c sc r) : False := by
  have := hp.rateC
  rw [hs.rateC] at this
  simp at this

theorem Txn.ConvShape.row_of_consistent {t : Txn} {c sc : String} {tr r : Dec} (h : t.ConvShape c sc tr r)
    (hcons : t.ConvConsistent c sc tr r) : t.RowOK c := by
  refine Or.inr ⟨h.charges, sc, tr, r, h.sc_ne, h.ne, h.rate_ne, h.amount, h.transferred, ?_⟩
  rcases h.mode with hp | hs
  · exact Or.inl ⟨hp.rateC, hp.rateSc, hcons.1 hp⟩
  · exact Or.inr ⟨hs.rateC, hs.rateSc, hcons.2 hs⟩

/-- an inconsistent converted row leaves a residual in exactly one commodity -/
theorem Txn.ConvShape.residual {t : Txn} {c sc : String} {tr r : Dec} (h : t.ConvShape c sc tr r)
    (hcons : ¬ t.ConvConsistent c sc tr r) :
    ∃ k0, (partAt k0 (some (deltaOf t.amount.value.toPDec c (t.costOf c))) +
        partAt k0 (some (deltaOf (counterDec t.amount.value tr).toPDec sc (t.costOf sc))) ≠ 0) ∧
      ∀ k, k ≠ k0 → partAt k (some (deltaOf t.amount.value.toPDec c (t.costOf c))) +
        partAt k (some (deltaOf (counterDec t.amount.value tr).toPDec sc (t.costOf sc))) = 0 := by
  rcases h.mode with hp | hs
  · have hnot : ¬ tr.absRat = r.toRat * t.amount.value.absRat := by
      intro hc
      exact hcons ⟨fun _ => hc, fun hs => (Txn.rate_modes_exclusive hp hs).elim⟩
    refine ⟨sc, ?_, ?_⟩
    · rw [hp.sum tr sc]
      simp only [if_true]
      exact fun h0 => hnot ((primary_cancel_iff _ _ _).1 h0)
    · intro k hk
      rw [hp.sum tr k]
      simp [Ne.symm hk]
  · have hnot : ¬ t.amount.value.absRat = r.toRat * tr.absRat := by
      intro hc
      exact hcons ⟨fun hp => (Txn.rate_modes_exclusive hp hs).elim, fun _ => hc⟩
    refine ⟨c, ?_, ?_⟩
    · rw [hs.sum tr c]
      simp only [if_true]
      exact fun h0 => hnot ((secondary_cancel_iff _ _ _).1 h0)
    · intro k hk
      rw [hs.sum tr k]
      simp [Ne.symm hk]

theorem ledgerOf_cons (acct : String) (t : Txn) (rest : List Txn) (trs : List Transaction)
    (h : ledgerOf acct (t :: rest) = .ok trs) :
    ∃ x xs, t.toDoubleEntry acct = .ok x ∧ ledgerOf acct rest = .ok xs ∧ trs = x :: xs := by
  unfold ledgerOf at h
  split at h <;> try (simp at h; done)
  rename_i x hx
  split at h <;> try (simp at h; done)
  rename_i xs hxs
  simp only [Outcome.ok.injEq] at h
  exact ⟨x, xs, hx, hxs, h.symm⟩

theorem ledgerOf_length (acct : String) : ∀ (l : List Txn) (trs : List Transaction),
    ledgerOf acct l = .ok trs → trs.length = l.length := by
  intro l
  induction l with
  | nil => intro trs h; simp [ledgerOf] at h; subst h; rfl
  | cons t ts ih =>
    intro trs h
    obtain ⟨x, xs, _, hxs, he⟩ := ledgerOf_cons acct t ts trs h
    subst he
    simp [ih xs hxs]

theorem ledgerOf_append (acct : String) : ∀ (pre : List Txn) (rest : List Txn) (trs : List Transaction),
    ledgerOf acct (pre ++ rest) = .ok trs →
    ∃ t1 t2, ledgerOf acct pre = .ok t1 ∧ ledgerOf acct rest = .ok t2 ∧ trs = t1 ++ t2 := by
  intro pre
  induction pre with
  | nil => intro rest trs h; exact ⟨[], trs, rfl, h, rfl⟩
  | cons t ts ih =>
    intro rest trs h
    simp only [List.cons_append] at h
    unfold ledgerOf at h
    split at h <;> try (simp at h; done)
    rename_i x hx
    split at h <;> try (simp at h; done)
    rename_i xs hxs
    simp only [Outcome.ok.injEq] at h
    obtain ⟨t1, t2, h1, h2, h3⟩ := ih rest xs hxs
    refine ⟨x :: t1, t2, ?_, h2, ?_⟩
    · simp [ledgerOf, hx, h1]
    · rw [← h, h3]; rfl

/-- **Necessity.**  After any accepted run, a converted row that is *not* consistent with its rate is rejected by
the book-keeping as unbalanced — whatever follows it. -/
theorem run_rejects_inconsistent (acct c : String) (hc : c ≠ "") (hne : "Equity:Opening" ≠ acct) (date : Date)
    (b₀ : Dec) (pre : List Txn) (t : Txn) (post : List Txn) (sc : String) (tr r : Dec)
    (hpre : RunOKx acct c b₀.toRat pre) (hshape : t.ConvShape c sc tr r) (ho : t.OtherAccounts acct)
    (hassert : t.balance = none ∨
      ∃ b, t.balance = some ⟨b, c⟩ ∧ b.toRat = runX b₀.toRat pre + t.amount.value.toRat)
    (hcons : ¬ t.ConvConsistent c sc tr r) (trs : List Transaction)
    (hl : ledgerOf acct (pre ++ t :: post) = .ok trs) :
    ∃ res, process (Entry.txn (fundTxn acct date b₀ c) :: trs.map Entry.txn) = .err (pre.length + 1, .unbalanced res) := by
  obtain ⟨t1, t2, h1, h2, h3⟩ := ledgerOf_append acct pre (t :: post) trs hl
  obtain ⟨trs1, hl1, hok1, hx1⟩ := ledgerOf_okx acct c hc pre _ hpre
  rw [h1] at hl1
  simp only [Outcome.ok.injEq] at hl1
  subst hl1
  obtain ⟨hks, hkd⟩ := hshape.costs hc
  obtain ⟨trn, htrn, _, hp, hs, _⟩ := toDoubleEntry_conv_shape t acct c sc tr (runX b₀.toRat pre) hshape.amount
    hshape.transferred hshape.charges hc hshape.sc_ne hks hkd ho hassert
  obtain ⟨x, t3, hx, _, he⟩ := ledgerOf_cons acct t post t2 h2
  rw [htrn] at hx
  simp only [Outcome.ok.injEq] at hx
  subst hx
  subst he
  subst h3
  obtain ⟨hf1, hf2, hf3⟩ := fundTxn_ok acct c date b₀ hne
  obtain ⟨hf4, hf5⟩ := PostingsOKx_of_PostingsOK acct c hc _ 0 hf1
  have hledger : LedgerOKx acct c 0 (fundTxn acct date b₀ c :: t1) :=
    ⟨hf4, fun k => by rw [hf5 k, hf2]; simp, by rw [hf3]; exact hok1⟩
  have hX : ledgerX acct 0 (fundTxn acct date b₀ c :: t1) = runX b₀.toRat pre := by
    simp only [ledgerX, hf3]; exact hx1
  obtain ⟨k0, hk0, hothers⟩ := hshape.residual hcons
  obtain ⟨res, hres⟩ := process_rejectx acct c hc (fundTxn acct date b₀ c :: t1) trn t3 hledger (by rw [hX]; exact hp)
    ⟨k0, by rw [hs k0]; exact hk0, fun k hk => by rw [hs k]; exact hothers k hk⟩
  refine ⟨res, ?_⟩
  have hlen : t1.length = pre.length := ledgerOf_length acct pre t1 h1
  simpa [hlen, Nat.add_comm] using hres

end Import
end Okane
