import Okane.Model.Eval
import Okane.Spec.Expr
/-!
# Helper lemmas for C08: the association-list amounts compute pointwise commodity arithmetic
-/
namespace Okane.C08
open Okane Okane.Spec

/-- the model amount `a` represents the commodity family `(ks, f)`: unique keys, the same commodities
mentioned, the same quantity of every commodity -/
def RelAmt (a : Amount String) (ks : List String) (f : String → Rat) : Prop :=
  AMap.WF a ∧ (∀ c, c ∈ AMap.keys a ↔ c ∈ ks) ∧ (∀ c, Amount.getPart a c = f c)

/-- model value vs reference value -/
def Rel : Evaluated String → RVal → Prop
  | .number r, .num r' => r = r'
  | .commodities a, .com ks f => RelAmt a ks f
  | _, _ => False

theorem getPart_nil (c : String) : Amount.getPart ([] : Amount String) c = 0 := by
  simp [Amount.getPart]

theorem getPart_cons (k : String) (v : Rat) (t : Amount String) (c : String) :
    Amount.getPart ((k, v) :: t) c = if k = c then v else Amount.getPart t c := by
  simp only [Amount.getPart, AMap.get?]
  split <;> simp

theorem getPart_of_not_mem (a : Amount String) (c : String) (h : c ∉ AMap.keys a) : Amount.getPart a c = 0 := by
  have := (AMap.get?_none_iff_not_mem a c).2 h
  simp [Amount.getPart, this]

theorem getPart_addSingle (a : Amount String) (k : String) (v : Rat) (c : String) :
    Amount.getPart (Amount.addSingle a k v) c = if k = c then Amount.getPart a c + v else Amount.getPart a c := by
  simp only [Amount.addSingle, Amount.getPart, AMap.get?_insert]
  by_cases h : k = c
  · subst h; simp
  · simp [h]

theorem WF_addSingle (a : Amount String) (k : String) (v : Rat) (h : AMap.WF a) : AMap.WF (Amount.addSingle a k v) :=
  AMap.WF_insert a k _ h

theorem mem_keys_insert (a : Amount String) (k : String) (v : Rat) (c : String) :
    c ∈ AMap.keys (AMap.insert a k v) ↔ c ∈ AMap.keys a ∨ c = k := by
  cases hg : AMap.get? a k with
  | none =>
    rw [AMap.keys_insert_of_not_mem a k v hg]
    simp
  | some x =>
    rw [AMap.keys_insert_of_mem a k v (by simp [hg])]
    constructor
    · intro h; exact Or.inl h
    · rintro (h | h)
      · exact h
      · subst h
        apply Classical.byContradiction
        intro hn
        have := (AMap.get?_none_iff_not_mem a c).2 hn
        simp [this] at hg

theorem mem_keys_addSingle (a : Amount String) (k : String) (v : Rat) (c : String) :
    c ∈ AMap.keys (Amount.addSingle a k v) ↔ c ∈ AMap.keys a ∨ c = k :=
  mem_keys_insert a k _ c

theorem WF_cons {k : String} {v : Rat} {t : Amount String} (h : AMap.WF ((k, v) :: t)) :
    k ∉ AMap.keys t ∧ AMap.WF t := by
  unfold AMap.WF AMap.keys at *
  simpa using h

/-- the fold of `Amount::add_assign` / `sub_assign` (g = id / negation): pointwise -/
theorem fold_addSingle (g : Rat → Rat) (hg : g 0 = 0) (b a : Amount String) (hb : AMap.WF b) (ha : AMap.WF a) :
    AMap.WF (b.foldl (fun acc kv => Amount.addSingle acc kv.1 (g kv.2)) a) ∧
    (∀ c, c ∈ AMap.keys (b.foldl (fun acc kv => Amount.addSingle acc kv.1 (g kv.2)) a) ↔ c ∈ AMap.keys a ∨ c ∈ AMap.keys b) ∧
    (∀ c, Amount.getPart (b.foldl (fun acc kv => Amount.addSingle acc kv.1 (g kv.2)) a) c
        = Amount.getPart a c + g (Amount.getPart b c)) := by
  induction b generalizing a with
  | nil =>
    refine ⟨ha, ?_, ?_⟩
    · intro c; simp [AMap.keys]
    · intro c; simp [getPart_nil, hg, Rat.add_zero]
  | cons hd t ih =>
    obtain ⟨k, v⟩ := hd
    obtain ⟨hk, ht⟩ := WF_cons hb
    have ih' := ih (Amount.addSingle a k (g v)) ht (WF_addSingle a k _ ha)
    simp only [List.foldl_cons]
    refine ⟨ih'.1, ?_, ?_⟩
    · intro c
      rw [ih'.2.1 c, mem_keys_addSingle]
      simp only [AMap.keys, List.map_cons, List.mem_cons]
      constructor
      · rintro ((h | h) | h)
        · exact Or.inl h
        · exact Or.inr (Or.inl h)
        · exact Or.inr (Or.inr h)
      · rintro (h | h | h)
        · exact Or.inl (Or.inl h)
        · exact Or.inl (Or.inr h)
        · exact Or.inr h
    · intro c
      rw [ih'.2.2 c, getPart_addSingle, getPart_cons]
      by_cases h : k = c
      · subst h
        simp only [if_true]
        rw [getPart_of_not_mem t k hk, hg]
        grind
      · simp [h]

theorem getPart_mapVals (h : Rat → Rat) (h0 : h 0 = 0) (a : Amount String) (c : String) :
    Amount.getPart (AMap.mapVals h a) c = h (Amount.getPart a c) := by
  simp only [Amount.getPart, AMap.get?_mapVals]
  cases AMap.get? a c <;> simp [h0]

theorem relAmt_mapVals (h : Rat → Rat) (h0 : h 0 = 0) {a : Amount String} {ks : List String} {f : String → Rat}
    (hr : RelAmt a ks f) : RelAmt (AMap.mapVals h a) ks (fun c => h (f c)) := by
  obtain ⟨hw, hk, hv⟩ := hr
  refine ⟨AMap.WF_mapVals h a hw, ?_, ?_⟩
  · intro c; rw [AMap.keys_mapVals]; exact hk c
  · intro c; rw [getPart_mapVals h h0, hv]

theorem relAmt_add {a b : Amount String} {k1 k2 : List String} {f1 f2 : String → Rat}
    (h1 : RelAmt a k1 f1) (h2 : RelAmt b k2 f2) : RelAmt (Amount.add a b) (k1 ++ k2) (fun c => f1 c + f2 c) := by
  obtain ⟨hw1, hk1, hv1⟩ := h1
  obtain ⟨hw2, hk2, hv2⟩ := h2
  have := fold_addSingle (fun x => x) rfl b a hw2 hw1
  unfold Amount.add
  refine ⟨this.1, ?_, ?_⟩
  · intro c; rw [this.2.1 c, hk1, hk2]; simp
  · intro c; rw [this.2.2 c, hv1, hv2]

theorem relAmt_sub {a b : Amount String} {k1 k2 : List String} {f1 f2 : String → Rat}
    (h1 : RelAmt a k1 f1) (h2 : RelAmt b k2 f2) : RelAmt (Amount.sub a b) (k1 ++ k2) (fun c => f1 c - f2 c) := by
  obtain ⟨hw1, hk1, hv1⟩ := h1
  obtain ⟨hw2, hk2, hv2⟩ := h2
  have := fold_addSingle (fun x => -x) (by simp) b a hw2 hw1
  unfold Amount.sub
  refine ⟨this.1, ?_, ?_⟩
  · intro c; rw [this.2.1 c, hk1, hk2]; simp
  · intro c; rw [this.2.2 c, hv1, hv2]; show f1 c + -f2 c = f1 c - f2 c; rw [Rat.sub_eq_add_neg]

theorem mem_of_mem_keys (a : Amount String) (c : String) (h : c ∈ AMap.keys a) : ∃ v, (c, v) ∈ a := by
  unfold AMap.keys at h
  obtain ⟨⟨k, v⟩, hm, hk⟩ := List.mem_map.1 h
  simp at hk; subst hk
  exact ⟨v, hm⟩

theorem mem_keys_of_mem (a : Amount String) {c : String} {v : Rat} (h : (c, v) ∈ a) : c ∈ AMap.keys a := by
  unfold AMap.keys
  exact List.mem_map.2 ⟨(c, v), h, rfl⟩

theorem getPart_of_mem (a : Amount String) (hw : AMap.WF a) {c : String} {v : Rat} (h : (c, v) ∈ a) :
    Amount.getPart a c = v := by
  simp [Amount.getPart, AMap.get?_some_of_mem a hw h]

theorem relAmt_isZero {a : Amount String} {ks : List String} {f : String → Rat} (hr : RelAmt a ks f) :
    Amount.isZero a = RVal.isZero (.com ks f) := by
  obtain ⟨hw, hk, hv⟩ := hr
  rw [Bool.eq_iff_iff]
  simp only [Amount.isZero, RVal.isZero, List.all_eq_true, beq_iff_eq]
  constructor
  · intro h k hkk
    obtain ⟨v, hm⟩ := mem_of_mem_keys a k ((hk k).2 hkk)
    have := h (k, v) hm
    simp at this
    rw [← hv k, getPart_of_mem a hw hm, this]
  · rintro h ⟨k, v⟩ hm
    have hkk := (hk k).1 (mem_keys_of_mem a hm)
    have := h k hkk
    rw [← hv k, getPart_of_mem a hw hm] at this
    simpa using this

theorem single?_some {ks : List String} {k : String} (h : RVal.single? ks = some k) :
    k ∈ ks ∧ ∀ c ∈ ks, c = k := by
  cases ks with
  | nil => simp [RVal.single?] at h
  | cons x t =>
    simp only [RVal.single?] at h
    split at h
    · rename_i hall
      simp at h; subst h
      refine ⟨by simp, ?_⟩
      intro c hc
      simp only [List.mem_cons] at hc
      rcases hc with hc | hc
      · exact hc
      · simp only [List.all_eq_true, beq_iff_eq] at hall
        exact hall c hc
    · simp at h

theorem single?_none {ks : List String} (h : RVal.single? ks = none) :
    ks = [] ∨ ∃ c1 ∈ ks, ∃ c2 ∈ ks, c1 ≠ c2 := by
  cases ks with
  | nil => exact Or.inl rfl
  | cons x t =>
    right
    simp only [RVal.single?] at h
    split at h
    · simp at h
    · rename_i hall
      simp only [List.all_eq_true, beq_iff_eq] at hall
      have : ∃ c ∈ t, c ≠ x := by
        apply Classical.byContradiction
        intro hn
        apply hall
        intro c hc
        apply Classical.byContradiction
        intro hne
        exact hn ⟨c, hc, hne⟩
      obtain ⟨c, hc, hne⟩ := this
      exact ⟨c, by simp [hc], x, by simp, hne⟩

/-- `TryFrom<&Amount> for SingleAmount` accepts exactly the amounts that mention one commodity -/
theorem relAmt_toSingle {a : Amount String} {ks : List String} {f : String → Rat} (hr : RelAmt a ks f) :
    match RVal.single? ks with
    | some k => Amount.toSingle a = .ok ⟨f k, k⟩
    | none => Amount.toSingle a = .err .singleAmountRequired := by
  obtain ⟨hw, hk, hv⟩ := hr
  cases hs : RVal.single? ks with
  | some k =>
    obtain ⟨hmem, hall⟩ := single?_some hs
    simp only
    match a, hw, hk, hv with
    | [], _, hk, _ =>
      have := (hk k).2 hmem
      simp [AMap.keys] at this
    | [(c, v)], _, hk, hv =>
      have hc : c = k := hall c ((hk c).1 (by simp [AMap.keys]))
      subst hc
      have : f c = v := by rw [← hv c]; simp [Amount.getPart, AMap.get?]
      simp [Amount.toSingle, this]
    | (c1, v1) :: (c2, v2) :: rest, hw, hk, _ =>
      have h1 : c1 = k := hall c1 ((hk c1).1 (by simp [AMap.keys]))
      have h2 : c2 = k := hall c2 ((hk c2).1 (by simp [AMap.keys]))
      have := (WF_cons hw).1
      simp [AMap.keys, h1, h2] at this
  | none =>
    simp only
    match a, hw, hk, hv with
    | [], _, _, _ => simp [Amount.toSingle]
    | [(c, v)], _, hk, _ =>
      rcases single?_none hs with h | ⟨c1, h1, c2, h2, hne⟩
      · have := (hk c).1 (by simp [AMap.keys])
        simp [h] at this
      · have e1 := (hk c1).2 h1
        have e2 := (hk c2).2 h2
        simp [AMap.keys] at e1 e2
        exact absurd (e1.trans e2.symm) hne
    | (c1, v1) :: (c2, v2) :: rest, _, _, _ => simp [Amount.toSingle]

end Okane.C08
