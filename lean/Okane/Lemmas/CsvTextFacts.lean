import Okane.Lemmas.CsvTextImport
import Okane.Lemmas.CsvTextTerm
/-!
# Facts about the CSV reader and the importer from the file text

* `csvRows_length` / `csvImportText_count`: one transaction per record whose date cell is not empty;
* `delim_outside_quotes_splits` / `delim_inside_quotes_kept` / `quoted_field_one_cell`: field boundaries;
* `records_nonempty`: every record the reader hands out has at least one field;
* `stamps_*`: the `Position::line` of the records: starts at 1, never decreases, never exceeds 1 + the number of `\n`;
* witnesses that the side conditions of `readRecords_write` are needed (`needs_*`) and that a `\r\n` file names the line
  BEFORE the record (`crlf_line_lags`).
-/
namespace Okane.Import.CsvText
open Okane Okane.Import

/-! ## one transaction per dated record -/

/-- the record's date cell is present and empty: `csv::import` skips the record (`continue`) -/
def emptyDate (fm : FieldMap) (rec : List String) : Bool :=
  match fm.extract .date rec with
  | .ok (some s) => s.isEmpty
  | _ => false

theorem readRow_emptyDate (env : CsvEnv) (cfg : CsvCfg) (fm : FieldMap) (rec : List String) (r : Option RowValues)
    (h : readRow env cfg fm rec = .ok r) : r.isNone = emptyDate fm rec := by
  unfold readRow at h
  unfold emptyDate
  simp only [bind, Outcome.bind] at h
  split at h
  · simp at h
  · cases hd : fm.extract .date rec with
    | ok ds =>
      simp only [hd] at h
      cases ds with
      | none => simp at h
      | some s =>
        simp only at h
        by_cases hs : s.isEmpty = true
        · simp [hs] at h; subst h; simp [hs]
        · simp only [hs] at h
          have hs' : s.isEmpty = false := by simpa using hs
          simp only [hs']
          repeat' split at h
          all_goals first | (simp at h; done) | (simp at h; subst h; rfl) | simp_all
    | err e => simp [hd] at h
    | panic s => simp [hd] at h
    | fuelOut => simp [hd] at h

theorem csvRow_emptyDate (env : CsvEnv) (cfg : CsvCfg) (fm : FieldMap) (rec : List String) (r : Option (Txn × Bool))
    (h : csvRow env cfg fm rec = .ok r) : r.isNone = emptyDate fm rec := by
  unfold csvRow at h
  split at h
  · rename_i hr
    simp at h; subst h
    exact readRow_emptyDate env cfg fm rec none hr
  · rename_i v hr
    have := readRow_emptyDate env cfg fm rec (some v) hr
    split at h <;> simp at h
    subst h
    simpa using this
  all_goals simp at h

/-- **Record count.**  When the record loop succeeds, it hands over exactly one transaction per record whose date cell is not
empty (a record with an empty date cell is skipped, every other record either yields a transaction or aborts the import). -/
theorem csvRows_length (env : CsvEnv) (cfg : CsvCfg) (fm : FieldMap) : ∀ (records : List (List String))
    (ts : List (Txn × Bool)), csvRows env cfg fm records = .ok ts →
    ts.length = (records.filter fun rec => !emptyDate fm rec).length := by
  intro records
  induction records with
  | nil => intro ts h; simp [csvRows] at h; subst h; rfl
  | cons rec rest ih =>
    intro ts h
    unfold csvRows at h
    split at h <;> try (simp at h; done)
    rename_i r hrow
    split at h <;> try (simp at h; done)
    rename_i ts' hrest
    simp at h
    subst h
    have he := csvRow_emptyDate env cfg fm rec r hrow
    have := ih ts' hrest
    cases r with
    | none =>
      have : emptyDate fm rec = true := by simpa using he.symm
      simp [this, ih ts' hrest]
    | some p =>
      have : emptyDate fm rec = false := by simpa using he.symm
      simp [this, ih ts' hrest]

theorem applyRowOrder_length {α} (o : RowOrder) (l : List α) : (applyRowOrder o l).length = l.length := by
  cases o <;> simp [applyRowOrder]

theorem csvImportFlagged_count (env : CsvEnv) (cfg : CsvCfg) (header : List String) (records : List (List String))
    (ts : List (Txn × Bool)) (h : csvImportFlagged env cfg header records = .ok ts) :
    ∃ fm, FieldMap.tryNew cfg.fields header = .ok fm ∧
      ts.length = (records.filter fun rec => !emptyDate fm rec).length := by
  unfold csvImportFlagged at h
  split at h <;> try (simp at h; done)
  rename_i fm hfm
  split at h <;> try (simp at h; done)
  rename_i ts' hrows
  simp at h
  subst h
  exact ⟨fm, hfm, by rw [applyRowOrder_length, csvRows_length env cfg fm records ts' hrows]⟩

/-- **Record count, from the file text.**  A successful import of the bytes of a file yields exactly as many transactions as
the file has records (after the skipped lines and the header) with a non-empty date cell — the records being those the
`csv` reader model splits the text into, all of them UTF-8. -/
theorem csvImportText_count (env : CsvEnv) (cfg : CsvCfg) (t : TextCfg) (file : Bytes) (txns : List Txn)
    (h : csvImportText env cfg t file = .ok txns) :
    ∃ rest header records fm, skipHead t.skipHead.toNat file = .ok rest ∧
      decodeRecord (headerOf (readRecordsPos t.delimByte rest)) = some header ∧
      decodePrefix ((bodyOf (readRecordsPos t.delimByte rest)).map Prod.snd) = (records, false) ∧
      FieldMap.tryNew cfg.fields header = .ok fm ∧
      txns.length = (records.filter fun rec => !emptyDate fm rec).length := by
  unfold csvImportText at h
  cases hf : csvImportTextFlagged env cfg t file with
  | ok ts =>
    rw [hf] at h
    simp [Outcome.map'] at h
    rcases csvImportText_shape env cfg t file with ⟨_, h2⟩ | ⟨rest, hrest, hcase⟩
    · rw [hf] at h2; simp at h2
    · rcases hcase with ⟨_, h2⟩ | ⟨header, good, bad, hh, hp, hcase⟩
      · rw [hf] at h2; simp at h2
      · rcases hcase with ⟨hb, he⟩ | ⟨hb, hcase⟩
        · subst hb
          rw [hf] at he
          obtain ⟨fm, hfm, hlen⟩ := csvImportFlagged_count env cfg header good ts he.symm
          exact ⟨rest, header, good, fm, hrest, hh, hp, hfm, by rw [← h]; simpa using hlen⟩
        · rcases hcase with ⟨_, _, h2⟩ | ⟨hne, he⟩
          · rw [hf] at h2; simp at h2
          · rw [hf] at he
            exact absurd he.symm (hne ts)
  | err e => rw [hf] at h; simp [Outcome.map'] at h
  | panic s => rw [hf] at h; simp [Outcome.map'] at h
  | fuelOut => rw [hf] at h; simp [Outcome.map'] at h

/-! ## field boundaries -/

/-- **Outside quotes a delimiter always splits**: in every state of the reader except "inside a quoted field" the delimiter
byte closes the current field (the bytes copied so far) and nothing else changes. -/
theorem delim_outside_quotes_splits (d : UInt8) (hd : GoodDelim d) (s : Rd) (hs : TableState s.st)
    (hq : s.st ≠ .inQuotedField) :
    s.step d d = ⟨.endFieldDelim, [], s.fields ++ [s.cur], s.recs, s.line, s.recLine⟩ := by
  obtain ⟨h1, h2, h3, h4, h5⟩ := good_facts hd
  obtain ⟨st, cur, fields, recs, line, recLine⟩ := s
  simp only at hs hq ⊢
  rcases hs with h | h | h | h | h | h | h <;> subst h <;>
    first
    | (exact absurd rfl hq)
    | simp [Rd.step, dfaStep_startRecord, dfaStep_endRecord, dfaStep_endFieldDelim, dfaStep_inField,
        dfaStep_inDoubleEscapedQuote, dfaStep_crlf, h1, h3, h4, h5]

/-- **Inside quotes a delimiter never splits**: it is copied into the field like any other byte. -/
theorem delim_inside_quotes_kept (d : UInt8) (hd : GoodDelim d) (s : Rd) (hs : s.st = .inQuotedField) :
    s.step d d = ⟨.inQuotedField, s.cur ++ [d], s.fields, s.recs, s.line, s.recLine⟩ := by
  obtain ⟨h1, h2, h3, h4, h5⟩ := good_facts hd
  obtain ⟨st, cur, fields, recs, line, recLine⟩ := s
  simp only at hs ⊢
  subst hs
  simp [Rd.step, dfaStep_inQuotedField, h1, h4]

/-- a quoted field is ONE cell whatever it contains — delimiters, line ends, doubled quotes -/
theorem quoted_field_one_cell (d : UInt8) (hd : GoodDelim d) (f : Bytes) :
    readRecords d (QUOTE :: escapeQuotes f ++ [QUOTE, LF]) = [[f]] := by
  have hb : stripBom (QUOTE :: escapeQuotes f ++ [QUOTE, LF]) = QUOTE :: escapeQuotes f ++ [QUOTE, LF] :=
    noBom_of_head _ (by simp; decide)
  unfold readRecords readRecordsPos Rd.init
  rw [hb]
  have e : QUOTE :: escapeQuotes f ++ [QUOTE, LF] = QUOTE :: (escapeQuotes f ++ [QUOTE, LF]) := rfl
  rw [e, run_cons, step_start_quote d [] [] 1 1 .startRecord (Or.inl rfl), run_append, run_quoted]
  have e2 : Rd.step d ⟨.inQuotedField, [] ++ f, [], [], 1 + countLF f, 1⟩ QUOTE =
      ⟨.inDoubleEscapedQuote, f, [], [], 1 + countLF f, 1⟩ := by simp [Rd.step, dfaStep_inQuotedField]
  rw [run_cons, e2, run_cons, step_in_LF d f [] [] (1 + countLF f) 1 .inDoubleEscapedQuote (Or.inl (Or.inr rfl)) hd]
  simp [Rd.finish]

/-! ## every record has a field; the line stamps -/

/-- what holds of the reader between any two bytes: every record handed out has at least one field; the stamps start at 1,
never decrease, and the pending stamp is at most the current line -/
structure Inv (s : Rd) : Prop where
  nonempty : ∀ p ∈ s.recs, p.2 ≠ []
  low : ∀ p ∈ s.recs, 1 ≤ p.1
  recLow : 1 ≤ s.recLine
  sorted : s.recs.Pairwise (fun a b => a.1 ≤ b.1)
  below : ∀ p ∈ s.recs, p.1 ≤ s.recLine
  recLe : s.recLine ≤ s.line

theorem inv_init : Inv Rd.init := ⟨by simp [Rd.init], by simp [Rd.init], by simp [Rd.init], by simp [Rd.init],
  by simp [Rd.init], by simp [Rd.init]⟩

theorem inv_step (d : UInt8) (s : Rd) (c : UInt8) (h : Inv s) : Inv (s.step d c) := by
  obtain ⟨h1, h2, h3, h4, h5, h6⟩ := h
  have hl : s.line ≤ (if c == LF then s.line + 1 else s.line) := by split <;> omega
  unfold Rd.step
  dsimp only
  generalize (if c == LF then s.line + 1 else s.line) = l at hl
  split
  · exact ⟨h1, h2, h3, h4, h5, by simp only; omega⟩
  · refine ⟨?_, ?_, ?_, ?_, ?_, ?_⟩
    · intro p hp; simp only [List.mem_append, List.mem_singleton] at hp
      rcases hp with hp | hp
      · exact h1 p hp
      · subst hp; simp
    · intro p hp; simp only [List.mem_append, List.mem_singleton] at hp
      rcases hp with hp | hp
      · exact h2 p hp
      · subst hp; exact h3
    · simp only; omega
    · simp only [List.pairwise_append, List.pairwise_cons, List.Pairwise.nil, List.mem_singleton]
      exact ⟨h4, ⟨by simp, trivial⟩, fun a ha b hb => by subst hb; exact h5 a ha⟩
    · intro p hp; simp only [List.mem_append, List.mem_singleton] at hp
      rcases hp with hp | hp
      · have := h5 p hp; simp only; omega
      · subst hp; simp only; omega
    · simp only; omega
  · refine ⟨?_, ?_, ?_, ?_, ?_, ?_⟩
    · intro p hp; simp only [List.mem_append, List.mem_singleton] at hp
      rcases hp with hp | hp
      · exact h1 p hp
      · subst hp; simp
    · intro p hp; simp only [List.mem_append, List.mem_singleton] at hp
      rcases hp with hp | hp
      · exact h2 p hp
      · subst hp; exact h3
    · simp only; omega
    · simp only [List.pairwise_append, List.pairwise_cons, List.Pairwise.nil, List.mem_singleton]
      exact ⟨h4, ⟨by simp, trivial⟩, fun a ha b hb => by subst hb; exact h5 a ha⟩
    · intro p hp; simp only [List.mem_append, List.mem_singleton] at hp
      rcases hp with hp | hp
      · have := h5 p hp; simp only; omega
      · subst hp; simp only; omega
    · simp only; omega
  · exact ⟨h1, h2, h3, h4, h5, by simp only; omega⟩

theorem inv_run (d : UInt8) (bs : Bytes) : ∀ s : Rd, Inv s → Inv (Rd.run d s bs) := by
  induction bs with
  | nil => intro s h; exact h
  | cons c r ih => intro s h; exact ih _ (inv_step d s c h)

theorem finish_spec (s : Rd) (h : Inv s) :
    (∀ p ∈ s.finish, p.2 ≠ []) ∧ (∀ p ∈ s.finish, 1 ≤ p.1 ∧ p.1 ≤ s.line) ∧
    s.finish.Pairwise (fun a b => a.1 ≤ b.1) := by
  obtain ⟨h1, h2, h3, h4, h5, h6⟩ := h
  have hb : ∀ p ∈ s.recs, 1 ≤ p.1 ∧ p.1 ≤ s.line := fun p hp => ⟨h2 p hp, Nat.le_trans (h5 p hp) h6⟩
  unfold Rd.finish
  split
  all_goals first | exact ⟨h1, hb, h4⟩ | skip
  refine ⟨?_, ?_, ?_⟩
  · intro p hp; simp only [List.mem_append, List.mem_singleton] at hp
    rcases hp with hp | hp
    · exact h1 p hp
    · subst hp; simp
  · intro p hp; simp only [List.mem_append, List.mem_singleton] at hp
    rcases hp with hp | hp
    · exact hb p hp
    · subst hp; exact ⟨h3, h6⟩
  · simp only [List.pairwise_append, List.pairwise_cons, List.Pairwise.nil, List.mem_singleton]
    exact ⟨h4, ⟨by simp, trivial⟩, fun a ha b hb => by subst hb; exact h5 a ha⟩

/-- **every record the reader hands out has at least one field**: a record is never `[]` (only `rdr.headers()` of an input
without any record is the empty record) -/
theorem records_nonempty (d : UInt8) (bs : Bytes) : ∀ r ∈ readRecords d bs, r ≠ [] := by
  intro r hr
  unfold readRecords at hr
  obtain ⟨p, hp, rfl⟩ := List.mem_map.1 hr
  exact (finish_spec _ (inv_run d _ _ inv_init)).1 p hp

theorem stripBom_countLF (bs : Bytes) : countLF (stripBom bs) = countLF bs := by
  have a : ¬ ((239 : UInt8) = LF) := by decide
  have b : ¬ ((187 : UInt8) = LF) := by decide
  have c : ¬ ((191 : UInt8) = LF) := by decide
  unfold stripBom
  split
  · simp [countLF_cons, a, b, c]
  · rfl

/-- **the line a record's `Position` names** lies between 1 and 1 + the number of `\n` bytes of the text, and the lines named
never decrease from one record to the next -/
theorem stamps_bounds (d : UInt8) (bs : Bytes) :
    (∀ p ∈ readRecordsPos d bs, 1 ≤ p.1 ∧ p.1 ≤ 1 + countLF bs) ∧
    (readRecordsPos d bs).Pairwise (fun a b => a.1 ≤ b.1) := by
  have h := finish_spec _ (inv_run d (stripBom bs) _ inv_init)
  have hl := run_line d (stripBom bs) Rd.init
  rw [stripBom_countLF] at hl
  have h1 : Rd.init.line = 1 := rfl
  unfold readRecordsPos
  refine ⟨fun p hp => ?_, h.2.2⟩
  have := h.2.1 p hp
  omega

/-! ## the short record and the line its message names -/

/-- `if r.len() <= size { return Err("csv record length too short at line {}: want {}, got {}") }` is the first thing the
loop does with a record -/
theorem csvRow_short (env : CsvEnv) (cfg : CsvCfg) (fm : FieldMap) (rec : List String) (h : rec.length ≤ fm.maxColumn) :
    csvRow env cfg fm rec = .err (.other "csv record length too short") := by
  unfold csvRow readRow
  simp [h]

/-- in the canonical text of `pre ++ r :: post`, whose rows in `pre` are all long enough, the message names the line on which
`r` starts: the stamp of the first row plus the `\n` bytes of the rows in front (those inside quoted cells included) -/
theorem shortRecord_withLines (d : UInt8) (size : Nat) (r : List String) (post : List (List Bytes))
    (hr : r.length ≤ size) : ∀ (pre : List (List String)) (l : Nat), (∀ p ∈ pre, size < p.length) →
    shortRecord size (withLines d l (pre.map (List.map utf8) ++ r.map utf8 :: post)) =
      some (l + countLF (writeCsv d pre), size, r.length) := by
  intro pre
  induction pre with
  | nil =>
    intro l _
    simp [withLines, shortRecord, decodeRecord_utf8, hr, writeCsv, writeCsvBytes]
  | cons p pre ih =>
    intro l hp
    have hlen : ¬ p.length ≤ size := by have := hp p (by simp); omega
    have := ih (l + countLF (writeRow d (p.map utf8))) (fun x hx => hp x (by simp [hx]))
    simp only [List.map_cons, List.cons_append, withLines, shortRecord, decodeRecord_utf8, List.length_map, hlen,
      if_false, this]
    simp [writeCsv, writeCsvBytes, countLF_append, Nat.add_assoc]

/-! ## the bridge for `\r\n` / `\r` files and a last line without line end -/

theorem headerOf_eq (recs : List (Nat × List Bytes)) : headerOf recs = ((recs.map Prod.snd).head?).getD [] := by
  cases recs <;> rfl

theorem bodyOf_eq (recs : List (Nat × List Bytes)) : (bodyOf recs).map Prod.snd = (recs.map Prod.snd).drop 1 := by
  simp [bodyOf]

/-- **The bridge, for every line end.**  As `csvImportTextFlagged_write`, for a CSV part whose lines end in `\n`, `\r\n` or
`\r`, with or without a line end after the last row. -/
theorem csvImportTextFlagged_writeWith (env : CsvEnv) (cfg : CsvCfg) (t : TextCfg) (lines : List Bytes) (header : List String)
    (rows : List (List String)) (e : LineEnd) (final : Bool) (hd : GoodDelim t.delimByte) (hskip : t.skipHead = lines.length)
    (hlines : ∀ l ∈ lines, TextLine l) (hrows : ∀ r ∈ header :: rows, WritableText r)
    (hbom : NoBom (writeCsvWith t.delimByte e final ((header :: rows).map (List.map utf8)))) :
    csvImportTextFlagged env cfg t (lines.flatten ++ writeCsvWith t.delimByte e final ((header :: rows).map (List.map utf8))) =
      csvImportFlagged env cfg header rows := by
  unfold csvImportTextFlagged
  rw [hskip, Int.toNat_natCast, skipHead_lines lines _ hlines]
  unfold csvImportBytesFlagged
  have hw : ∀ r ∈ (header :: rows).map (List.map utf8), WritableRow r := by
    intro r hr
    obtain ⟨r', hr', rfl⟩ := List.mem_map.1 hr
    exact writableRow_of_text (hrows r' hr')
  have hread := readRecords_writeWith t.delimByte hd e final ((header :: rows).map (List.map utf8)) hw hbom
  unfold readRecords at hread
  dsimp only
  rw [headerOf_eq, bodyOf_eq, hread]
  simp only [List.map_cons, List.head?_cons, Option.getD_some, List.drop_succ_cons, List.drop_zero, decodeRecord_utf8,
    decodePrefix_utf8]

theorem csvImportText_writeWith (env : CsvEnv) (cfg : CsvCfg) (t : TextCfg) (lines : List Bytes) (header : List String)
    (rows : List (List String)) (e : LineEnd) (final : Bool) (hd : GoodDelim t.delimByte) (hskip : t.skipHead = lines.length)
    (hlines : ∀ l ∈ lines, TextLine l) (hrows : ∀ r ∈ header :: rows, WritableText r)
    (hbom : NoBom (writeCsvWith t.delimByte e final ((header :: rows).map (List.map utf8)))) :
    csvImportText env cfg t (lines.flatten ++ writeCsvWith t.delimByte e final ((header :: rows).map (List.map utf8))) =
      csvImport env cfg header rows := by
  unfold csvImportText csvImport
  rw [csvImportTextFlagged_writeWith env cfg t lines header rows e final hd hskip hlines hrows hbom]

/-! ## the side conditions are needed; `\r\n` -/

/-- a row that is a lone empty field is written as an empty line, which the reader skips -/
theorem needs_not_lone_empty : readRecords COMMA (writeCsvBytes COMMA [[[97]], [[]], [[98]]]) = [[[97]], [[98]]] := by
  decide +kernel

/-- a row without fields is written as an empty line as well -/
theorem needs_nonempty_row : readRecords COMMA (writeCsvBytes COMMA [[[97]], [], [[98]]]) = [[[97]], [[98]]] := by
  decide +kernel

/-- a first cell that begins with U+FEFF loses it: the reader strips a byte order mark -/
theorem needs_no_bom : readRecords COMMA (writeCsvBytes COMMA [[[0xEF, 0xBB, 0xBF, 97]]]) = [[[97]]] := by
  decide +kernel

/-- the quote as delimiter: an empty first cell makes the delimiter open a quoted field -/
theorem needs_delim_not_quote : readRecords QUOTE (writeCsvBytes QUOTE [[[], [97]]]) = [[[97, 10]]] := by
  decide +kernel

/-- `\n` as delimiter: the line end is a delimiter inside a record -/
theorem needs_delim_not_lf : readRecords LF (writeCsvBytes LF [[[97], [98]]]) = [[[97], [98], []]] := by
  decide +kernel

/-- **`\r\n` files: the line named lags.**  A record is handed out as soon as the `\r` is consumed; the next read starts
before the `\n` is counted.  In `a\r\nb\r\nc\r\n` the records are stamped 1, 1, 2 (in the same text with `\n` line ends:
1, 2, 3): from the second record on, `csv record length too short at line N` names the line BEFORE the record. -/
theorem crlf_line_lags :
    (readRecordsPos COMMA [97, 13, 10, 98, 13, 10, 99, 13, 10]).map Prod.fst = [1, 1, 2] ∧
    (readRecordsPos COMMA [97, 10, 98, 10, 99, 10]).map Prod.fst = [1, 2, 3] := by
  decide +kernel

end Okane.Import.CsvText
