import Okane.Lemmas.Price
/-!
# Termination of the price-table work list within an explicit fuel bound, for every pop order

Every label ever stored is realised by a chain that visits no commodity twice (a chain through an already
labelled commodity cannot improve that commodity's label, since labels only decrease), hence has at most `|V|`
steps; staleness ranges over a bounded interval; so a label can improve only boundedly often, and the potential
`2 · Σ_v rank(label v) + |queue|` strictly decreases with every loop iteration.
-/
set_option linter.unusedSectionVars false
namespace Okane.Price
variable {κ : Type} [DecidableEq κ]

/-! ## arithmetic of lexicographic ranks -/

theorem lex_lt (M a b a' b' : Nat) (hb : b < M) (h : a < a' ∨ (a = a' ∧ b < b')) : a * M + b < a' * M + b' := by
  rcases h with h | ⟨h, h'⟩
  · have h1 : (a + 1) * M ≤ a' * M := Nat.mul_le_mul_right M h
    have h2 : (a + 1) * M = a * M + M := Nat.succ_mul a M
    omega
  · subst h; omega

theorem pair_lt (A B x y : Nat) (hx : x < A) (hy : y < B) : x * B + y < A * B := by
  have h1 : (x + 1) * B ≤ A * B := Nat.mul_le_mul_right B hx
  have h2 : (x + 1) * B = x * B + B := Nat.succ_mul x B
  omega

section Term
variable (out : κ → List (Edge κ)) (V : List κ) (Smax : Int)

/-- admissible distances: what chains of at most `|V|` steps over edges with staleness in `[0, Smax]` can have. -/
def Adm (d : Dist) : Prop := d.ledger ≤ d.all ∧ d.all ≤ V.length ∧ 0 ≤ d.stale ∧ d.stale ≤ Smax

def rank (d : Dist) : Nat := (d.ledger * (V.length + 1) + d.all) * (Smax.toNat + 1) + d.stale.toNat

def rankTop : Nat := (V.length + 1) * (V.length + 1) * (Smax.toNat + 1)

/-- potential of one table slot. -/
def pot : Option (Dist × Rat) → Nat
  | none => rankTop V Smax
  | some (d, _) => rank V Smax d

def potSum (t : Table κ) : List κ → Nat
  | [] => 0
  | v :: vs => pot V Smax (AMap.get? t v) + potSum t vs

variable {V Smax}

theorem rank_lt_of_lt {d d' : Dist} (h : Adm V Smax d) (h' : Adm V Smax d') (hlt : d < d') :
    rank V Smax d < rank V Smax d' := by
  obtain ⟨h1, h2, h3, h4⟩ := h
  obtain ⟨h1', h2', h3', h4'⟩ := h'
  rw [Dist.lt_def] at hlt
  unfold rank
  apply lex_lt
  · omega
  · by_cases hl : d.ledger = d'.ledger
    · by_cases ha : d.all = d'.all
      · right
        refine ⟨by rw [hl, ha], by omega⟩
      · left
        have : d.all < d'.all := by omega
        rw [hl]; omega
    · left
      have hl' : d.ledger < d'.ledger := by omega
      exact lex_lt _ _ _ _ _ (by omega) (Or.inl hl')

theorem rank_lt_top {d : Dist} (h : Adm V Smax d) : rank V Smax d < rankTop V Smax := by
  obtain ⟨h1, h2, h3, h4⟩ := h
  unfold rank rankTop
  apply pair_lt
  · exact pair_lt _ _ _ _ (by omega) (by omega)
  · omega

/-- a witness that label `d` of commodity `j` comes from a chain visiting distinct commodities, all of whose
intermediate labels are still at least as good in the table. -/
def Wit (t : Table κ) (d : Dist) (j : κ) (w : List (κ × Dist)) : Prop :=
  (w.map Prod.fst).Nodup ∧ (∀ x ∈ w, x.1 ∈ V) ∧ (∀ x ∈ w, x.2 ≤ d) ∧
  (∀ x ∈ w, ∃ d' r', AMap.get? t x.1 = some (d', r') ∧ d' ≤ x.2) ∧
  w.length = d.all ∧ (w = [] ∨ (j, d) ∈ w)

theorem Wit.mono {t t' : Table κ} (h : TableLE t t') {d : Dist} {j : κ} {w : List (κ × Dist)}
    (hw : Wit (V := V) t d j w) : Wit (V := V) t' d j w := by
  obtain ⟨h1, h2, h3, h4, h5, h6⟩ := hw
  refine ⟨h1, h2, h3, ?_, h5, h6⟩
  intro x hx
  obtain ⟨d1, r1, hg, hle⟩ := h4 x hx
  obtain ⟨d2, r2, hg2, hle2⟩ := h _ d1 r1 hg
  exact ⟨d2, r2, hg2, Dist.le_trans hle2 hle⟩

theorem Wit.all_le {t : Table κ} {d : Dist} {j : κ} {w : List (κ × Dist)} (hw : Wit (V := V) t d j w) :
    d.all ≤ V.length := by
  obtain ⟨h1, h2, _, _, h5, _⟩ := hw
  have hsub : (w.map Prod.fst) ⊆ V := by
    intro v hv
    obtain ⟨x, hx, rfl⟩ := List.mem_map.1 hv
    exact h2 x hx
  have := List.Nodup.length_le_of_subset h1 hsub
  simp at this
  omega

/-- what the work list maintains besides `Inv`. -/
structure TInv (t : Table κ) (q : List (Item κ)) : Prop where
  labT : ∀ j d r, AMap.get? t j = some (d, r) → j ∈ V ∧ d.ledger ≤ d.all ∧ 0 ≤ d.stale ∧ d.stale ≤ Smax ∧
          ∃ w, Wit (V := V) t d j w
  labQ : ∀ it ∈ q, it.dist.ledger ≤ it.dist.all ∧ 0 ≤ it.dist.stale ∧ it.dist.stale ≤ Smax ∧
          ∃ w, Wit (V := V) t it.dist it.node w

theorem TInv.adm {t : Table κ} {q : List (Item κ)} (h : TInv (V := V) (Smax := Smax) t q) {j : κ} {d : Dist} {r : Rat}
    (hg : AMap.get? t j = some (d, r)) : Adm V Smax d := by
  obtain ⟨_, h1, h2, h3, w, hw⟩ := h.labT j d r hg
  exact ⟨h1, hw.all_le, h2, h3⟩

theorem potSum_le {t t' : Table κ} (h : ∀ v, pot V Smax (AMap.get? t' v) ≤ pot V Smax (AMap.get? t v)) :
    ∀ vs : List κ, potSum V Smax t' vs ≤ potSum V Smax t vs := by
  intro vs
  induction vs with
  | nil => exact Nat.le_refl _
  | cons v vs ih => simp only [potSum]; have := h v; omega

theorem potSum_lt {t t' : Table κ} (h : ∀ v, pot V Smax (AMap.get? t' v) ≤ pot V Smax (AMap.get? t v)) (k : κ)
    (hk : pot V Smax (AMap.get? t' k) < pot V Smax (AMap.get? t k)) :
    ∀ vs : List κ, k ∈ vs → potSum V Smax t' vs + 1 ≤ potSum V Smax t vs := by
  intro vs
  induction vs with
  | nil => intro hm; simp at hm
  | cons v vs ih =>
    intro hm
    simp only [potSum]
    rcases List.mem_cons.1 hm with rfl | hm
    · have := potSum_le h vs; omega
    · have := ih hm; have := h v; omega

variable (hclosed : ∀ j e, e ∈ out j → e.to ∈ V) (hstale : ∀ j e, e ∈ out j → 0 ≤ e.stale ∧ e.stale ≤ Smax)
include hclosed hstale

/-- one `relax` keeps `TInv`, only improves labels, and does not increase the potential. -/
theorem relax_term {t : Table κ} {q : List (Item κ)} {p : κ} {d : Dist} {r : Rat} {e : Edge κ} {w : List (κ × Dist)}
    (hinv : TInv (V := V) (Smax := Smax) t q) (hd : d.ledger ≤ d.all ∧ 0 ≤ d.stale ∧ d.stale ≤ Smax)
    (hw : Wit (V := V) t d p w) (he : e ∈ out p) :
    TInv (V := V) (Smax := Smax) (relax d r (t, q) e).1 (relax d r (t, q) e).2 ∧
    TableLE t (relax d r (t, q) e).1 ∧
    2 * potSum V Smax (relax d r (t, q) e).1 V + (relax d r (t, q) e).2.length ≤ 2 * potSum V Smax t V + q.length := by
  rcases relax_cases d r t q e with ⟨heq, _⟩ | ⟨heq, hlt⟩
  · rw [heq]; exact ⟨hinv, TableLE.refl t, Nat.le_refl _⟩
  · rw [heq]
    simp only
    generalize hnd : d.extend e.source e.stale = nd at *
    have hkV : e.to ∈ V := hclosed p e he
    obtain ⟨hs0, hs1⟩ := hstale p e he
    have hdnd : d < nd := by rw [← hnd]; exact Dist.lt_extend d _ _
    have hle : TableLE t (AMap.insert t e.to (nd, r * e.rate)) := by
      intro j dj rj hj
      by_cases hje : e.to = j
      · subst hje
        exact ⟨_, _, AMap.get?_insert_self _ _ _, Dist.le_of_lt (hlt dj rj hj)⟩
      · exact ⟨dj, rj, by rw [AMap.get?_insert_ne _ _ hje]; exact hj, Dist.le_refl dj⟩
    -- the new label's basic bounds
    have hnd_basic : nd.ledger ≤ nd.all ∧ 0 ≤ nd.stale ∧ nd.stale ≤ Smax := by
      rw [← hnd]
      obtain ⟨a1, a2, a3⟩ := hd
      cases hsrc : e.source <;> simp only [Dist.extend] <;> omega
    -- the new witness
    obtain ⟨w1, w2, w3, w4, w5, w6⟩ := hw
    have hnotin : e.to ∉ w.map Prod.fst := by
      intro hin
      obtain ⟨x, hx, hx1⟩ := List.mem_map.1 hin
      obtain ⟨d', r', hg, hle'⟩ := w4 x hx
      rw [hx1] at hg
      have h1 : nd < d' := hlt d' r' hg
      have h2 : d' ≤ d := Dist.le_trans hle' (w3 x hx)
      exact Dist.not_lt_of_le (Dist.le_trans h2 (Dist.le_of_lt hdnd)) h1
    have hwit : Wit (V := V) (AMap.insert t e.to (nd, r * e.rate)) nd e.to (w ++ [(e.to, nd)]) := by
      refine ⟨?_, ?_, ?_, ?_, ?_, Or.inr (by simp)⟩
      · rw [List.map_append, List.nodup_append]
        refine ⟨w1, by simp, ?_⟩
        intro a ha b hb
        simp at hb
        subst hb
        intro hab; subst hab; exact hnotin ha
      · intro x hx
        rcases List.mem_append.1 hx with hx | hx
        · exact w2 x hx
        · simp at hx; subst hx; exact hkV
      · intro x hx
        rcases List.mem_append.1 hx with hx | hx
        · exact Dist.le_trans (w3 x hx) (Dist.le_of_lt hdnd)
        · simp at hx; subst hx; exact Dist.le_refl _
      · intro x hx
        rcases List.mem_append.1 hx with hx | hx
        · obtain ⟨d', r', hg, hle'⟩ := w4 x hx
          have hne : e.to ≠ x.1 := by
            intro h; apply hnotin; rw [h]; exact List.mem_map.2 ⟨x, hx, rfl⟩
          exact ⟨d', r', by rw [AMap.get?_insert_ne _ _ hne]; exact hg, hle'⟩
        · simp at hx; subst hx
          exact ⟨nd, _, AMap.get?_insert_self _ _ _, Dist.le_refl _⟩
      · rw [List.length_append, w5, ← hnd]; simp [Dist.extend]
    have hinv' : TInv (V := V) (Smax := Smax) (AMap.insert t e.to (nd, r * e.rate)) (q ++ [⟨nd, e.to, r * e.rate⟩]) := by
      constructor
      · intro j dj rj hj
        by_cases hje : e.to = j
        · subst hje
          rw [AMap.get?_insert_self] at hj; cases hj
          exact ⟨hkV, hnd_basic.1, hnd_basic.2.1, hnd_basic.2.2, _, hwit⟩
        · rw [AMap.get?_insert_ne _ _ hje] at hj
          obtain ⟨a1, a2, a3, a4, w', hw'⟩ := hinv.labT j dj rj hj
          exact ⟨a1, a2, a3, a4, w', hw'.mono hle⟩
      · intro it hit
        rcases List.mem_append.1 hit with hit | hit
        · obtain ⟨a2, a3, a4, w', hw'⟩ := hinv.labQ it hit
          exact ⟨a2, a3, a4, w', hw'.mono hle⟩
        · simp at hit; subst hit
          exact ⟨hnd_basic.1, hnd_basic.2.1, hnd_basic.2.2, _, hwit⟩
    refine ⟨hinv', hle, ?_⟩
    -- potential
    have hadm_nd : Adm V Smax nd := ⟨hnd_basic.1, hwit.all_le, hnd_basic.2.1, hnd_basic.2.2⟩
    have hpot_le : ∀ v, pot V Smax (AMap.get? (AMap.insert t e.to (nd, r * e.rate)) v) ≤ pot V Smax (AMap.get? t v) := by
      intro v
      by_cases hv : e.to = v
      · subst hv
        rw [AMap.get?_insert_self]
        cases hg : AMap.get? t e.to with
        | none => exact Nat.le_of_lt (rank_lt_top hadm_nd)
        | some x =>
          obtain ⟨d', r'⟩ := x
          exact Nat.le_of_lt (rank_lt_of_lt hadm_nd (hinv.adm hg) (hlt d' r' hg))
      · rw [AMap.get?_insert_ne _ _ hv]; exact Nat.le_refl _
    have hpot_lt : pot V Smax (AMap.get? (AMap.insert t e.to (nd, r * e.rate)) e.to) < pot V Smax (AMap.get? t e.to) := by
      rw [AMap.get?_insert_self]
      cases hg : AMap.get? t e.to with
      | none => exact rank_lt_top hadm_nd
      | some x =>
        obtain ⟨d', r'⟩ := x
        exact rank_lt_of_lt hadm_nd (hinv.adm hg) (hlt d' r' hg)
    have := potSum_lt hpot_le e.to hpot_lt V hkV
    rw [List.length_append]
    simp only [List.length_cons, List.length_nil]
    omega

theorem fold_term {p : κ} {d : Dist} {r : Rat} {w : List (κ × Dist)}
    (hd : d.ledger ≤ d.all ∧ 0 ≤ d.stale ∧ d.stale ≤ Smax) :
    ∀ (es : List (Edge κ)) (t : Table κ) (q : List (Item κ)), (∀ e ∈ es, e ∈ out p) →
    TInv (V := V) (Smax := Smax) t q → Wit (V := V) t d p w →
    TInv (V := V) (Smax := Smax) (es.foldl (relax d r) (t, q)).1 (es.foldl (relax d r) (t, q)).2 ∧
    2 * potSum V Smax (es.foldl (relax d r) (t, q)).1 V + (es.foldl (relax d r) (t, q)).2.length
      ≤ 2 * potSum V Smax t V + q.length := by
  intro es
  induction es with
  | nil => intro t q _ hinv _; exact ⟨hinv, Nat.le_refl _⟩
  | cons e es ih =>
    intro t q hsub hinv hw
    obtain ⟨h1, h2, h3⟩ := relax_term out hclosed hstale (r := r) hinv hd hw (hsub e List.mem_cons_self)
    obtain ⟨h4, h5⟩ := ih _ _ (fun e' he' => hsub e' (List.mem_cons_of_mem _ he')) h1 (hw.mono h2)
    simp only [List.foldl_cons]
    exact ⟨h4, Nat.le_trans h5 h3⟩

/-- with fuel at least the potential the loop ends with a table. -/
theorem loop_terminates (pick : Nat → List (Item κ) → Nat) :
    ∀ (fuel : Nat) (t : Table κ) (q : List (Item κ)), TInv (V := V) (Smax := Smax) t q →
      2 * potSum V Smax t V + q.length ≤ fuel → ∃ tbl, loop out pick fuel t q = .ok tbl := by
  intro fuel
  induction fuel with
  | zero =>
    intro t q _ hpot
    cases q with
    | nil => exact ⟨t, by simp [loop]⟩
    | cons x xs => simp at hpot
  | succ n ih =>
    intro t q hinv hpot
    cases q with
    | nil => exact ⟨t, by simp [loop]⟩
    | cons x xs =>
      simp only [loop]
      have hlt : pick n (x :: xs) % (x :: xs).length < (x :: xs).length := Nat.mod_lt _ (by simp)
      have hit := getD_mem_of_lt (x :: xs) _ x hlt
      have hlen : ((x :: xs).eraseIdx (pick n (x :: xs) % (x :: xs).length)).length = xs.length := by
        rw [List.length_eraseIdx]
        simp only [List.length_cons] at hlt ⊢
        rw [if_pos hlt]; omega
      have hsub : ∀ y ∈ (x :: xs).eraseIdx (pick n (x :: xs) % (x :: xs).length), y ∈ x :: xs :=
        fun y hy => List.mem_of_mem_eraseIdx hy
      have hinv' : TInv (V := V) (Smax := Smax) t ((x :: xs).eraseIdx (pick n (x :: xs) % (x :: xs).length)) :=
        ⟨hinv.labT, fun it hit' => hinv.labQ it (hsub it hit')⟩
      simp only [List.length_cons] at hpot
      split
      · exact ih _ _ hinv' (by rw [hlen]; omega)
      · obtain ⟨a2, a3, a4, w, hw⟩ := hinv.labQ _ hit
        obtain ⟨h1, h2⟩ := fold_term out hclosed hstale (r := ((x :: xs).getD (pick n (x :: xs) % (x :: xs).length) x).rate)
          ⟨a2, a3, a4⟩ (out _) t _ (fun e he => he) hinv' hw
        exact ih _ _ h1 (by rw [hlen] at h2; omega)

/-- `compute_price_table` ends within `2·|V|·rankTop + 1` iterations. -/
theorem tableOf_terminates (pick : Nat → List (Item κ) → Nat) (src : κ) (fuel : Nat)
    (hfuel : 2 * (V.length * rankTop V Smax) + 1 ≤ fuel) (hS : 0 ≤ Smax) :
    ∃ tbl, tableOf out pick fuel src = .ok tbl := by
  unfold tableOf
  apply loop_terminates out hclosed hstale pick fuel
  · constructor
    · intro j d r h; simp at h
    · intro it hit
      simp only [List.mem_singleton] at hit
      subst hit
      refine ⟨Nat.le_refl _, Int.le_refl _, hS, [], ?_⟩
      exact ⟨by simp, by simp, by simp, by simp, rfl, Or.inl rfl⟩
  · have hsum : ∀ vs : List κ, potSum V Smax ([] : Table κ) vs = vs.length * rankTop V Smax := by
      intro vs
      induction vs with
      | nil => simp [potSum]
      | cons v vs ih => simp only [potSum, ih, pot, AMap.get?_nil, List.length_cons]; rw [Nat.succ_mul]; omega
    rw [hsum]
    simp only [List.length_cons, List.length_nil]
    omega

end Term
end Okane.Price

/-! ## instantiation to a repository -/
namespace Okane.Price
variable {κ : Type} [DecidableEq κ]

/-- every commodity mentioned in the repository (with repetitions). -/
def nodes (repo : Builder κ) : List κ := repo.flatMap fun kv => kv.1 :: kv.2.map Prod.fst

/-- every record date of the repository. -/
def allDates (repo : Builder κ) : List Date :=
  repo.flatMap fun kv => kv.2.flatMap fun je => je.2.recs.map Prod.fst

def foldMax (l : List Int) (m : Int) : Int := l.foldl max m

theorem foldMax_ge (l : List Int) : ∀ m, m ≤ foldMax l m ∧ ∀ x ∈ l, x ≤ foldMax l m := by
  induction l with
  | nil => intro m; exact ⟨Int.le_refl _, by simp⟩
  | cons a l ih =>
    intro m
    obtain ⟨h1, h2⟩ := ih (max m a)
    simp only [foldMax, List.foldl_cons] at h1 h2 ⊢
    refine ⟨by omega, ?_⟩
    intro x hx
    rcases List.mem_cons.1 hx with rfl | hx
    · omega
    · exact h2 x hx

/-- the greatest staleness any record can have at `D` (at least 0). -/
def staleMax (repo : Builder κ) (D : Date) : Int :=
  foldMax ((allDates repo).map fun d => D.dayNumber - d.dayNumber) 0

/-- iterations `compute_price_table(_, D)` can take on `repo`, whatever the pop order. -/
def fuelBound (repo : Builder κ) (D : Date) : Nat :=
  2 * ((nodes repo).length * rankTop (nodes repo) (staleMax repo D)) + 1

theorem asOf_mem (recs : List (Date × Rat)) (D : Date) (d : Date) (r : Rat) (h : asOf recs D = some (d, r)) :
    (d, r) ∈ recs ∧ d ≤ D := by
  rw [asOf_eq_getLast] at h
  obtain ⟨ys, hys⟩ := List.getLast?_eq_some_iff.1 h
  have hm : (d, r) ∈ recs.takeWhile fun r => decide (r.1 ≤ D) := by rw [hys]; simp
  refine ⟨(List.takeWhile_sublist _).subset hm, ?_⟩
  have key : ∀ (l : List (Date × Rat)) (x : Date × Rat), x ∈ l.takeWhile (fun r => decide (r.1 ≤ D)) → x.1 ≤ D := by
    intro l
    induction l with
    | nil => intro x hx; simp at hx
    | cons a l ih =>
      intro x hx
      rw [List.takeWhile_cons] at hx
      by_cases hp : a.1 ≤ D
      · simp only [hp, decide_true, if_true, List.mem_cons] at hx
        rcases hx with rfl | hx
        · exact hp
        · exact ih x hx
      · simp [hp] at hx
  exact key recs (d, r) hm

theorem priceTable_terminates (cfg : Cfg κ) (repo : Builder κ) (T : κ) (D : Date)
    (hord : ∀ p l x, x ∈ cfg.ord p l → x ∈ l) (hfuel : fuelBound repo D ≤ cfg.fuel) :
    ∃ tbl, priceTable cfg repo T D = .ok tbl := by
  unfold priceTable
  apply tableOf_terminates (edgesAt cfg.ord repo D) (V := nodes repo) (Smax := staleMax repo D)
  · intro j e he
    rw [mem_edgesAt] at he
    obtain ⟨inner, entry, d, hg, hmem, _⟩ := he
    have h1 := hord _ _ _ hmem
    have h2 := AMap.mem_of_get?_some repo hg
    unfold nodes
    rw [List.mem_flatMap]
    exact ⟨(j, inner), h2, List.mem_cons_of_mem _ (List.mem_map.2 ⟨(e.to, entry), h1, rfl⟩)⟩
  · intro j e he
    rw [mem_edgesAt] at he
    obtain ⟨inner, entry, d, hg, hmem, hasof, _, hst⟩ := he
    obtain ⟨hrec, hle⟩ := asOf_mem _ _ _ _ hasof
    have h1 := hord _ _ _ hmem
    have h2 := AMap.mem_of_get?_some repo hg
    have hd : d ∈ allDates repo := by
      unfold allDates
      rw [List.mem_flatMap]
      refine ⟨(j, inner), h2, ?_⟩
      rw [List.mem_flatMap]
      exact ⟨(e.to, entry), h1, List.mem_map.2 ⟨(d, e.rate), hrec, rfl⟩⟩
    have hle' : d.dayNumber ≤ D.dayNumber := hle
    refine ⟨by omega, ?_⟩
    rw [hst]
    exact (foldMax_ge _ 0).2 _ (List.mem_map.2 ⟨d, hd, rfl⟩)
  · exact hfuel
  · exact (foldMax_ge _ 0).1

end Okane.Price
