import Okane.Lemmas.C05Decl
/-!
# C05: what the parser reads from a printed declaration whose details are *not* `noAdjacentA/C`

`multiline_text` reads consecutive comment (note) lines as one text, so a declaration printed from a tree with
two consecutive comment (note) details is read back with those details concatenated: `mergeA` / `mergeC`.
`parseLedgerEntry_account_merge`, `parseLedgerEntry_commodity_merge` state this for **every** list of
well-formed details (no adjacency hypothesis); `entryRT_account` / `entryRT_commodity` are the special case
`mergeA ds = ds`.  Consequently one `format` pass normalises a declaration and a second pass changes nothing.
-/
set_option linter.unusedSimpArgs false
namespace Okane.Unparse
open Okane Okane.Comb Okane.Parse

/-! ## multi-line texts can be concatenated -/

theorem linesAux_append : ∀ (s cur : List Char) (ls : List (List Char)) (t : List Char),
    splitLines s cur = some ls → linesAux (s ++ t) cur = linesAux s cur ++ linesAux t [] := by
  intro s
  induction s with
  | nil =>
    intro cur ls t h
    cases cur with
    | nil => simp [linesAux]
    | cons c r => simp [splitLines] at h
  | cons c r ih =>
    intro cur ls t h
    by_cases hc : c = '\n'
    · subst hc
      simp [splitLines] at h
      obtain ⟨ls', h1, _⟩ := h
      simp [linesAux, ih [] ls' t h1]
    · have h' : splitLines (c :: r) cur = splitLines r (c :: cur) := by simp [splitLines, hc]
      rw [h'] at h
      have e1 : linesAux (c :: r ++ t) cur = linesAux (r ++ t) (c :: cur) := by simp [linesAux, hc]
      have e2 : linesAux (c :: r) cur = linesAux r (c :: cur) := by simp [linesAux, hc]
      rw [e1, e2, ih (c :: cur) ls t h]

theorem splitLines_append : ∀ (s cur : List Char) (ls lt : List (List Char)) (t : List Char),
    splitLines s cur = some ls → splitLines t [] = some lt → splitLines (s ++ t) cur = some (ls ++ lt) := by
  intro s
  induction s with
  | nil =>
    intro cur ls lt t h ht
    cases cur with
    | nil => simp [splitLines] at h; subst h; simpa using ht
    | cons c r => simp [splitLines] at h
  | cons c r ih =>
    intro cur ls lt t h ht
    by_cases hc : c = '\n'
    · subst hc
      simp [splitLines] at h
      obtain ⟨ls', h1, h2⟩ := h
      subst h2
      simp [splitLines, ih [] ls' lt t h1 ht]
    · have h' : splitLines (c :: r) cur = splitLines r (c :: cur) := by simp [splitLines, hc]
      rw [h'] at h
      have e1 : splitLines (c :: r ++ t) cur = splitLines (r ++ t) (c :: cur) := by simp [splitLines, hc]
      rw [e1, ih (c :: cur) ls lt t h ht]

theorem wfMultiline_append {sb : Char → Bool} {s t : List Char} (hs : wfMultiline sb s = true)
    (ht : wfMultiline sb t = true) : wfMultiline sb (s ++ t) = true := by
  unfold wfMultiline at hs ht ⊢
  cases h1 : splitLines s [] with
  | none => simp [h1] at hs
  | some ls =>
    cases h2 : splitLines t [] with
    | none => simp [h2] at ht
    | some lt =>
      rw [h1] at hs
      rw [h2] at ht
      rw [splitLines_append s [] ls lt t h1 h2]
      simp only [Bool.and_eq_true, List.all_append] at hs ht ⊢
      refine ⟨?_, hs.2, ht.2⟩
      have := hs.1
      cases ls with
      | nil => simp at this
      | cons a b => simp

theorem lineWrap_append {sb : Char → Bool} (P : List Char) (s t : String) (hs : wfMultiline sb s.toList = true) :
    lineWrap P (s ++ t) = lineWrap P s ++ lineWrap P t := by
  unfold wfMultiline at hs
  cases h1 : splitLines s.toList [] with
  | none => simp [h1] at hs
  | some ls =>
    simp [lineWrap, lines, String.toList_append, linesAux_append s.toList [] ls t.toList h1]

/-! ## account details -/

/-- put a detail in front of an already merged list: a comment joins a following comment, a note a following note -/
def consA (x : AccountDetail) (r : List AccountDetail) : List AccountDetail :=
  match x, r with
  | .comment s, .comment t :: r' => .comment (s ++ t) :: r'
  | .note s, .note t :: r' => .note (s ++ t) :: r'
  | x, r' => x :: r'

/-- consecutive comment (note) details concatenated: what `multiline_text` makes of the printed lines -/
def mergeA : List AccountDetail → List AccountDetail
  | [] => []
  | x :: r => consA x (mergeA r)

theorem consA_wf (x : AccountDetail) (r : List AccountDetail) (hx : wfAccountDetail x = true) (hr : ∀ d ∈ r, wfAccountDetail d = true) :
    ∀ d ∈ consA x r, wfAccountDetail d = true := by
  have key : ∀ (sb : Char → Bool) (s t : String), wfMultiline sb s.toList = true → wfMultiline sb t.toList = true →
      wfMultiline sb (s ++ t).toList = true := by
    intro sb s t h1 h2; rw [String.toList_append]; exact wfMultiline_append h1 h2
  rcases r with _ | ⟨y, ys⟩
  · cases x <;> simpa [consA] using hx
  · have hy := hr y (by simp)
    have hys : ∀ d ∈ ys, wfAccountDetail d = true := fun d hd => hr d (by simp [hd])
    cases x <;> cases y <;> simp only [consA, List.mem_cons, forall_eq_or_imp] <;>
      first
        | exact ⟨hx, hy, hys⟩
        | exact ⟨key _ _ _ (by simpa [wfAccountDetail] using hx) (by simpa [wfAccountDetail] using hy), hys⟩

theorem consA_print (x : AccountDetail) (r : List AccountDetail) (hx : wfAccountDetail x = true) :
    (consA x r).flatMap printAccountDetail = printAccountDetail x ++ r.flatMap printAccountDetail := by
  rcases r with _ | ⟨y, ys⟩
  · cases x <;> simp [consA]
  · cases x <;> cases y <;> simp only [consA, List.flatMap_cons] <;>
      first
        | rfl
        | (simp only [wfAccountDetail] at hx
           simp [printAccountDetail, lineWrap_append _ _ _ hx])

theorem consA_noAdjacent (x : AccountDetail) (r : List AccountDetail) (hr : noAdjacentA r = true) :
    noAdjacentA (consA x r) = true := by
  rcases r with _ | ⟨y, ys⟩
  · cases x <;> rfl
  · rcases ys with _ | ⟨z, zs⟩
    · cases x <;> cases y <;> simp_all [consA, noAdjacentA]
    · cases x <;> cases y <;> cases z <;> simp_all [consA, noAdjacentA]

theorem consA_self (x : AccountDetail) (r : List AccountDetail) (h : noAdjacentA (x :: r) = true) : consA x r = x :: r := by
  rcases r with _ | ⟨y, ys⟩
  · cases x <;> rfl
  · cases x <;> cases y <;> simp_all [consA, noAdjacentA]

theorem mergeA_wf : ∀ (ds : List AccountDetail), (∀ d ∈ ds, wfAccountDetail d = true) →
    ∀ d ∈ mergeA ds, wfAccountDetail d = true := by
  intro ds
  induction ds with
  | nil => intro _ d hd; simp [mergeA] at hd
  | cons x r ih =>
    intro h
    exact consA_wf x (mergeA r) (h x (by simp)) (ih (fun d hd => h d (by simp [hd])))

theorem mergeA_print : ∀ (ds : List AccountDetail), (∀ d ∈ ds, wfAccountDetail d = true) →
    (mergeA ds).flatMap printAccountDetail = ds.flatMap printAccountDetail := by
  intro ds
  induction ds with
  | nil => intro _; rfl
  | cons x r ih =>
    intro h
    rw [mergeA, consA_print x _ (h x (by simp)), ih (fun d hd => h d (by simp [hd]))]
    rfl

theorem mergeA_noAdjacent : ∀ (ds : List AccountDetail), noAdjacentA (mergeA ds) = true := by
  intro ds
  induction ds with
  | nil => rfl
  | cons x r ih => exact consA_noAdjacent x _ ih

theorem mergeA_eq_self : ∀ (ds : List AccountDetail), noAdjacentA ds = true → mergeA ds = ds := by
  intro ds
  induction ds with
  | nil => intro _; rfl
  | cons x r ih =>
    intro h
    rw [mergeA, ih (noAdjacentA_tail x r h)]
    exact consA_self x r h

/-- what `account_declaration` reads from **any** printed declaration with well-formed name and details -/
theorem accountDeclaration_merge (w : List Char → Nat) (n : String) (ds : List AccountDetail)
    (hn : wfAccountName n.toList = true) (hds : ∀ d ∈ ds, wfAccountDetail d = true) (rest : List Char) :
    accountDeclaration (printEntry w (.account n ds) ++ '\n' :: rest) =
      .ok (.account n (mergeA ds)) ('\n' :: rest) := by
  have hp : printEntry w (.account n ds) = printEntry w (.account n (mergeA ds)) := by
    simp [printEntry, mergeA_print ds hds]
  rw [hp]
  exact accountDeclaration_rt w n (mergeA ds) hn (mergeA_wf ds hds) (mergeA_noAdjacent ds) rest

/-- the entry parser on any printed `account` declaration with well-formed name and details -/
theorem parseLedgerEntry_account_merge (w : List Char → Nat) (n : String) (ds : List AccountDetail)
    (hn : wfAccountName n.toList = true) (hds : ∀ d ∈ ds, wfAccountDetail d = true) (rest : List Char) :
    parseLedgerEntry (printEntry w (.account n ds) ++ '\n' :: rest) =
      .ok (.account n (mergeA ds)) ('\n' :: rest) := by
  have := accountDeclaration_merge w n ds hn hds rest
  simp only [printEntry, List.append_assoc] at this ⊢
  exact parseLedgerEntry_account this

/-! ## commodity details -/

/-- put a detail in front of an already merged list: a comment joins a following comment, a note a following note -/
def consC (x : CommodityDetail) (r : List CommodityDetail) : List CommodityDetail :=
  match x, r with
  | .comment s, .comment t :: r' => .comment (s ++ t) :: r'
  | .note s, .note t :: r' => .note (s ++ t) :: r'
  | x, r' => x :: r'

/-- consecutive comment (note) details concatenated: what `multiline_text` makes of the printed lines -/
def mergeC : List CommodityDetail → List CommodityDetail
  | [] => []
  | x :: r => consC x (mergeC r)

theorem consC_wf (x : CommodityDetail) (r : List CommodityDetail) (hx : wfCommodityDetail x = true) (hr : ∀ d ∈ r, wfCommodityDetail d = true) :
    ∀ d ∈ consC x r, wfCommodityDetail d = true := by
  have key : ∀ (sb : Char → Bool) (s t : String), wfMultiline sb s.toList = true → wfMultiline sb t.toList = true →
      wfMultiline sb (s ++ t).toList = true := by
    intro sb s t h1 h2; rw [String.toList_append]; exact wfMultiline_append h1 h2
  rcases r with _ | ⟨y, ys⟩
  · cases x <;> simpa [consC] using hx
  · have hy := hr y (by simp)
    have hys : ∀ d ∈ ys, wfCommodityDetail d = true := fun d hd => hr d (by simp [hd])
    cases x <;> cases y <;> simp only [consC, List.mem_cons, forall_eq_or_imp] <;>
      first
        | exact ⟨hx, hy, hys⟩
        | exact ⟨key _ _ _ (by simpa [wfCommodityDetail] using hx) (by simpa [wfCommodityDetail] using hy), hys⟩

theorem consC_print (x : CommodityDetail) (r : List CommodityDetail) (hx : wfCommodityDetail x = true) :
    (consC x r).flatMap printCommodityDetail = printCommodityDetail x ++ r.flatMap printCommodityDetail := by
  rcases r with _ | ⟨y, ys⟩
  · cases x <;> simp [consC]
  · cases x <;> cases y <;> simp only [consC, List.flatMap_cons] <;>
      first
        | rfl
        | (simp only [wfCommodityDetail] at hx
           simp [printCommodityDetail, lineWrap_append _ _ _ hx])

theorem consC_noAdjacent (x : CommodityDetail) (r : List CommodityDetail) (hr : noAdjacentC r = true) :
    noAdjacentC (consC x r) = true := by
  rcases r with _ | ⟨y, ys⟩
  · cases x <;> rfl
  · rcases ys with _ | ⟨z, zs⟩
    · cases x <;> cases y <;> simp_all [consC, noAdjacentC]
    · cases x <;> cases y <;> cases z <;> simp_all [consC, noAdjacentC]

theorem consC_self (x : CommodityDetail) (r : List CommodityDetail) (h : noAdjacentC (x :: r) = true) : consC x r = x :: r := by
  rcases r with _ | ⟨y, ys⟩
  · cases x <;> rfl
  · cases x <;> cases y <;> simp_all [consC, noAdjacentC]

theorem mergeC_wf : ∀ (ds : List CommodityDetail), (∀ d ∈ ds, wfCommodityDetail d = true) →
    ∀ d ∈ mergeC ds, wfCommodityDetail d = true := by
  intro ds
  induction ds with
  | nil => intro _ d hd; simp [mergeC] at hd
  | cons x r ih =>
    intro h
    exact consC_wf x (mergeC r) (h x (by simp)) (ih (fun d hd => h d (by simp [hd])))

theorem mergeC_print : ∀ (ds : List CommodityDetail), (∀ d ∈ ds, wfCommodityDetail d = true) →
    (mergeC ds).flatMap printCommodityDetail = ds.flatMap printCommodityDetail := by
  intro ds
  induction ds with
  | nil => intro _; rfl
  | cons x r ih =>
    intro h
    rw [mergeC, consC_print x _ (h x (by simp)), ih (fun d hd => h d (by simp [hd]))]
    rfl

theorem mergeC_noAdjacent : ∀ (ds : List CommodityDetail), noAdjacentC (mergeC ds) = true := by
  intro ds
  induction ds with
  | nil => rfl
  | cons x r ih => exact consC_noAdjacent x _ ih

theorem mergeC_eq_self : ∀ (ds : List CommodityDetail), noAdjacentC ds = true → mergeC ds = ds := by
  intro ds
  induction ds with
  | nil => intro _; rfl
  | cons x r ih =>
    intro h
    rw [mergeC, ih (noAdjacentC_tail x r h)]
    exact consC_self x r h

/-- what `commodity_declaration` reads from **any** printed declaration with well-formed name and details -/
theorem commodityDeclaration_merge (w : List Char → Nat) (n : String) (ds : List CommodityDetail)
    (hn : wfAccountName n.toList = true) (hds : ∀ d ∈ ds, wfCommodityDetail d = true) (rest : List Char) :
    commodityDeclaration (printEntry w (.commodity n ds) ++ '\n' :: rest) =
      .ok (.commodity n (mergeC ds)) ('\n' :: rest) := by
  have hp : printEntry w (.commodity n ds) = printEntry w (.commodity n (mergeC ds)) := by
    simp [printEntry, mergeC_print ds hds]
  rw [hp]
  exact commodityDeclaration_rt w n (mergeC ds) hn (mergeC_wf ds hds) (mergeC_noAdjacent ds) rest

/-- the entry parser on any printed `commodity` declaration with well-formed name and details -/
theorem parseLedgerEntry_commodity_merge (w : List Char → Nat) (n : String) (ds : List CommodityDetail)
    (hn : wfAccountName n.toList = true) (hds : ∀ d ∈ ds, wfCommodityDetail d = true) (rest : List Char) :
    parseLedgerEntry (printEntry w (.commodity n ds) ++ '\n' :: rest) =
      .ok (.commodity n (mergeC ds)) ('\n' :: rest) := by
  have := commodityDeclaration_merge w n ds hn hds rest
  have hdsp : parseLedgerEntry (printEntry w (.commodity n ds) ++ '\n' :: rest) =
      commodityDeclaration (printEntry w (.commodity n ds) ++ '\n' :: rest) := by
    simp [printEntry, kwCommodity, parseLedgerEntry, dispatch_cons]
  rw [hdsp, this]

/-! ## one `format` pass normalises a declaration: the merged tree is `wfEntry` and prints the same text -/

theorem wfEntry_account_merge (n : String) (ds : List AccountDetail) (hn : wfAccountName n.toList = true)
    (hds : ∀ d ∈ ds, wfAccountDetail d = true) : wfEntry (.account n (mergeA ds)) = true := by
  simp only [wfEntry, Bool.and_eq_true, List.all_eq_true]
  exact ⟨⟨hn, mergeA_wf ds hds⟩, mergeA_noAdjacent ds⟩

theorem wfEntry_commodity_merge (n : String) (ds : List CommodityDetail) (hn : wfAccountName n.toList = true)
    (hds : ∀ d ∈ ds, wfCommodityDetail d = true) : wfEntry (.commodity n (mergeC ds)) = true := by
  simp only [wfEntry, Bool.and_eq_true, List.all_eq_true]
  exact ⟨⟨hn, mergeC_wf ds hds⟩, mergeC_noAdjacent ds⟩

/-! ## ledgers of directives and declarations: `format` output is a fixed point of `format` -/

/-- `wfEntry` without the adjacency conditions (and without transactions) -/
def wfLoose : Entry → Bool
  | .txn _ => false
  | .account n ds => wfAccountName n.toList && ds.all wfAccountDetail
  | .commodity n ds => wfAccountName n.toList && ds.all wfCommodityDetail
  | e => wfEntry e

/-- the tree the parser reads from the printed form of a `wfLoose` tree -/
def mergeEntry : Entry → Entry
  | .account n ds => .account n (mergeA ds)
  | .commodity n ds => .commodity n (mergeC ds)
  | e => e

theorem printEntry_mergeEntry (w : List Char → Nat) (e : Entry) (h : wfLoose e = true) :
    printEntry w (mergeEntry e) = printEntry w e := by
  cases e with
  | account n ds =>
    simp [wfLoose, List.all_eq_true] at h
    simp [mergeEntry, printEntry, mergeA_print ds h.2]
  | commodity n ds =>
    simp [wfLoose, List.all_eq_true] at h
    simp [mergeEntry, printEntry, mergeC_print ds h.2]
  | _ => rfl

theorem entryRT_mergeEntry (w : List Char → Nat) (e : Entry) (h : wfLoose e = true) : EntryRT w (mergeEntry e) := by
  cases e with
  | txn t => simp [wfLoose] at h
  | account n ds =>
    simp [wfLoose, List.all_eq_true] at h
    exact entryRT_account w n (mergeA ds) (wfEntry_account_merge n ds h.1 h.2)
  | commodity n ds =>
    simp [wfLoose, List.all_eq_true] at h
    exact entryRT_commodity w n (mergeC ds) (wfEntry_commodity_merge n ds h.1 h.2)
  | comment s => exact entryRT_nonTxn w _ h (by intro t e; cases e)
  | applyTag k v => exact entryRT_nonTxn w _ h (by intro t e; cases e)
  | endApplyTag => exact entryRT_nonTxn w _ h (by intro t e; cases e)
  | «include» p => exact entryRT_nonTxn w _ h (by intro t e; cases e)

theorem formatEntries_mergeEntry (w : List Char → Nat) (es : List Entry) (h : ∀ e ∈ es, wfLoose e = true) :
    formatEntries w (es.map mergeEntry) = formatEntries w es := by
  induction es with
  | nil => rfl
  | cons e t ih =>
    have := ih (fun x hx => h x (by simp [hx]))
    simp only [formatEntries, List.map_cons, List.flatMap_cons] at this ⊢
    rw [this, printEntry_mergeEntry w e (h e (by simp))]

/-- parsing what the printer writes for **any** list of directives and declarations with well-formed fields gives
the merged trees -/
theorem parseEntries_format_merge (w : List Char → Nat) (es : List Entry) (h : ∀ e ∈ es, wfLoose e = true) :
    parseEntries (formatEntries w es) = .ok (es.map mergeEntry) := by
  rw [← formatEntries_mergeEntry w es h]
  apply parseEntries_format
  intro e he
  obtain ⟨x, hx, rfl⟩ := List.mem_map.mp he
  exact entryRT_mergeEntry w x (h x hx)

/-- the printed text is a fixed point of `format`, whether or not consecutive comment / note details occur -/
theorem format_formatEntries_decl (w : List Char → Nat) (es : List Entry) (h : ∀ e ∈ es, wfLoose e = true) :
    format w (formatEntries w es) = .ok (formatEntries w es) := by
  simp [format, parseEntries_format_merge w es h, Outcome.map', formatEntries_mergeEntry w es h]

/-! ## non-vacuity -/

example : mergeA [.comment "a\n", .comment "b\n", .comment "c\n", .alias "x", .note "n\n", .note "m\n", .comment "d\n"] =
    [.comment "a\nb\nc\n", .alias "x", .note "n\nm\n", .comment "d\n"] := by decide

example : parseLedgerEntry (printEntry widthStd (.account "A" [.comment "a\n", .comment "b\n", .alias "x", .note "n\n", .note "m\n"])
      ++ '\n' :: "rest".toList) =
    .ok (.account "A" [.comment "a\nb\n", .alias "x", .note "n\nm\n"]) ('\n' :: "rest".toList) :=
  parseLedgerEntry_account_merge _ _ _ (by decide) (by decide) _

example : parseLedgerEntry (printEntry widthStd (.commodity "C" [.note "n\n", .note "m\n", .format ⟨false, 1050, 2, none⟩ "C", .comment "a\n", .comment "b\n"])
      ++ '\n' :: "rest".toList) =
    .ok (.commodity "C" [.note "n\nm\n", .format ⟨false, 1050, 2, none⟩ "C", .comment "a\nb\n"]) ('\n' :: "rest".toList) :=
  parseLedgerEntry_commodity_merge _ _ _ (by decide) (by decide +kernel) _

example : wfLoose (.account "A" [.comment "a\n", .comment "b\n"]) = true ∧
    wfEntry (.account "A" [.comment "a\n", .comment "b\n"]) = false := by decide
example : format widthStd (formatEntries widthStd [.account "A" [.comment "a\n", .comment "b\n"], .include "x"]) =
    .ok (formatEntries widthStd [.account "A" [.comment "a\n", .comment "b\n"], .include "x"]) :=
  format_formatEntries_decl _ _ (by decide)

end Okane.Unparse
