import Okane.Props.C07
import Okane.Lemmas.ExprParseImage
/-!
# Image lemmas for C05, part 2: numbers, commodities, value expressions

* `scan_wfNumber`      — every number the literal scanner returns is, after `canonPDec`, printed and read back as itself;
* `commodity_text`     — what `primitive::commodity` returns is made of commodity characters;
* `valueExpr_canon`    — for EVERY input and fuel: a tree returned by `value_expr` satisfies, after `canonVExpr`, the
  printer's well-formedness predicate `wfVExpr` and is plain (`plainV`).
-/
set_option linter.unusedSimpArgs false
set_option linter.unusedVariables false
namespace Okane.C05Image
open Okane Okane.Literal Okane.ExprSyntax Okane.Unparse Okane.ExprParse

/-! ## numbers -/

theorem printedFmt_small (d : PDec) (h : d.mant / 10 ^ d.scale < 1000) : C07.printedFmt { d with fmt := none } = none := by
  unfold C07.printedFmt
  simp only
  rw [if_neg (by omega)]

/-- **image of the literal scanner**: a scanned number, normalised by `canonPDec`, is a number the printer writes and the
scanner reads back unchanged -/
theorem scan_wfNumber {s : List Char} {d : PDec} (h : scan s = .ok d) : wfNumber (canonPDec d) = true := by
  obtain ⟨f1, f2, f3, f4, f5, f6⟩ := C07.C07_sound_fields s d h
  have hneg : (d.neg && d.mant != 0) = d.neg := by
    rw [f2, f1]; cases Spec.isNegative s <;> simp
  unfold wfNumber canonPDec
  split
  · rename_i hsmall
    rw [C07.C07_print_exact { d with fmt := none } f5 f6]
    simp only [printedFmt_small d hsmall, hneg]
    simp
  · rename_i hbig
    obtain ⟨d', h1, h2, h3, h4, h5⟩ := C07.C07_print s d h
    have h5' := h5 (by omega)
    have : d' = d := by
      cases d'; cases d; simp_all
    rw [h1, this]
    simp

theorem canonPDec_neg (d : PDec) : (canonPDec d).neg = d.neg := by
  unfold canonPDec; split <;> rfl

theorem prettyDecimal_wfNumber {inp rest : List Char} {d : PDec} (h : prettyDecimal inp = .ok d rest) :
    wfNumber (canonPDec d) = true := by
  unfold prettyDecimal at h
  split at h
  · cases h
  · split at h
    · rename_i d' hsc
      cases h
      exact scan_wfNumber hsc
    · cases h

/-! ## commodities -/

theorem commodity_text (inp : List Char) : isCommodityText (commodity inp).1 = true := by
  simp only [commodity, isCommodityText]
  exact C07.all_takeWhile _ _

theorem amount_canon {inp rest : List Char} {v : VExpr} (h : ExprSyntax.amount inp = .ok v rest) :
    wfVExpr (canonVExpr v) = true := by
  unfold ExprSyntax.amount at h
  split at h
  · rename_i d rest0 hpd
    simp only at h
    cases h
    simp only [canonVExpr, wfVExpr, prettyDecimal_wfNumber hpd, Bool.true_and, String.toList_ofList]
    exact commodity_text _
  · cases h
  · cases h

/-- `expr::amount` of the ledger grammar (`format` sub-directive) -/
theorem parseAmount_canon {inp rest : List Char} {d : PDec} {c : String} (h : Okane.Parse.amount inp = .ok (d, c) rest) :
    wfNumber (canonPDec d) = true ∧ isCommodityText c.toList = true := by
  unfold Okane.Parse.amount at h
  split at h
  · rename_i d' rest0 hpd
    simp only at h
    cases h
    refine ⟨prettyDecimal_wfNumber hpd, ?_⟩
    simp only [String.toList_ofList]
    exact commodity_text _
  · cases h
  · cases h

/-! ## value expressions -/

theorem wfMul_of_wfUnary {e : Expr} (h : wfUnary e = true) : wfMul e = true := by
  cases e with
  | neg e' => simpa [wfMul] using h
  | val v => simpa [wfMul] using h
  | bin op l r => simp [wfUnary] at h

theorem wfAdd_of_wfMul {e : Expr} (h : wfMul e = true) : wfAdd e = true := by
  cases e with
  | neg e' => simpa [wfAdd] using h
  | val v => simpa [wfAdd] using h
  | bin op l r =>
    cases op with
    | add => simp [wfMul] at h
    | sub => simp [wfMul] at h
    | mul => simpa [wfAdd] using h
    | div => simpa [wfAdd] using h

theorem unsignedV_canon (v : VExpr) : unsignedV (canonVExpr v) = unsignedV v := by
  cases v with
  | paren e => simp only [canonVExpr, unsignedV]
  | amt d c => simp only [canonVExpr, unsignedV, canonPDec_neg]

def CV (v : VExpr) : Prop := wfVExpr (canonVExpr v) = true ∧ plainV (canonVExpr v) = true
def CU (e : Expr) : Prop := wfUnary (canonExpr e) = true ∧ plainE (canonExpr e) = true
def CM (e : Expr) : Prop := wfMul (canonExpr e) = true ∧ plainE (canonExpr e) = true
def CA (e : Expr) : Prop := wfAdd (canonExpr e) = true ∧ plainE (canonExpr e) = true

theorem CM.of_unary {e : Expr} (h : CU e) : CM e := ⟨wfMul_of_wfUnary h.1, h.2⟩
theorem CA.of_mul {e : Expr} (h : CM e) : CA e := ⟨wfAdd_of_wfMul h.1, h.2⟩

theorem CM.bin {op : BinOp} {l r : Expr} (hop : op = .mul ∨ op = .div) (hl : CM l) (hr : CU r) : CM (.bin op l r) := by
  rcases hop with rfl | rfl
  · exact ⟨by simp only [canonExpr, wfMul, hl.1, hr.1, Bool.and_self], by simp only [canonExpr, plainE, hl.2, hr.2, Bool.and_self]⟩
  · exact ⟨by simp only [canonExpr, wfMul, hl.1, hr.1, Bool.and_self], by simp only [canonExpr, plainE, hl.2, hr.2, Bool.and_self]⟩

theorem CA.bin {op : BinOp} {l r : Expr} (hop : op = .add ∨ op = .sub) (hl : CA l) (hr : CM r) : CA (.bin op l r) := by
  rcases hop with rfl | rfl
  · exact ⟨by simp only [canonExpr, wfAdd, hl.1, hr.1, Bool.and_self], by simp only [canonExpr, plainE, hl.2, hr.2, Bool.and_self]⟩
  · exact ⟨by simp only [canonExpr, wfAdd, hl.1, hr.1, Bool.and_self], by simp only [canonExpr, plainE, hl.2, hr.2, Bool.and_self]⟩

/-- the combined statement, by induction on the fuel -/
theorem canonImage (f : Nat) :
    (∀ inp v rest, valueExpr f inp = .ok v rest → CV v ∧ ((∀ r, inp ≠ '-' :: r) → unsignedV v = true)) ∧
    (∀ inp e rest, unaryExpr f inp = .ok e rest → CU e) ∧
    (∀ inp e rest, mulExpr f inp = .ok e rest → CM e) ∧
    (∀ l inp e rest, CM l → ExprSyntax.mulLoop f l inp = .ok e rest → CM e) ∧
    (∀ inp e rest, addExpr f inp = .ok e rest → CA e) ∧
    (∀ l inp e rest, CA l → addLoop f l inp = .ok e rest → CA e) := by
  induction f with
  | zero =>
    refine ⟨?_, ?_, ?_, ?_, ?_, ?_⟩ <;> intros <;> rename_i h <;>
      simp [valueExpr, unaryExpr, mulExpr, ExprSyntax.mulLoop, addExpr, addLoop] at h
  | succ f ih =>
    obtain ⟨ihV, ihU, ihM, ihML, ihA, ihAL⟩ := ih
    refine ⟨?_, ?_, ?_, ?_, ?_, ?_⟩
    · intro inp v rest h
      unfold valueExpr at h
      split at h
      · cases h
      · rename_i r
        split at h
        · rename_i e rest1 hadd
          split at h
          · cases h
            obtain ⟨hw, hp⟩ := ihA _ _ _ hadd
            exact ⟨⟨by simpa only [canonVExpr, wfVExpr] using hw, by simpa only [canonVExpr, plainV] using hp⟩, fun _ => rfl⟩
          · cases h
        · cases h
        · cases h
      · refine ⟨⟨amount_canon h, ?_⟩, (amount_img h).2⟩
        unfold ExprSyntax.amount at h
        split at h
        · simp only at h; cases h; rfl
        · cases h
        · cases h
    · intro inp e rest h
      unfold unaryExpr at h
      split at h
      · cases h
      · rename_i r
        split at h
        · rename_i v rest1 hv
          cases h
          obtain ⟨⟨hw, hp⟩, _⟩ := ihV _ _ _ hv
          exact ⟨by simpa only [canonExpr, wfUnary] using hw, by simpa only [canonExpr, plainE] using hp⟩
        · cases h
        · cases h
      · rename_i hnil hneg
        split at h
        · rename_i v rest1 hv
          cases h
          obtain ⟨⟨hw, hp⟩, hu⟩ := ihV _ _ _ hv
          refine ⟨by simpa only [canonExpr, wfUnary] using hw, ?_⟩
          simp only [canonExpr, plainE, hp, unsignedV_canon, hu (fun r hr => hneg r hr), Bool.and_self]
        · cases h
        · cases h
    · intro inp e rest h
      unfold mulExpr at h
      split at h
      · rename_i l rest1 hu
        exact ihML _ _ _ _ (CM.of_unary (ihU _ _ _ hu)) h
      · cases h
      · cases h
    · intro l inp e rest hl h
      unfold ExprSyntax.mulLoop at h
      split at h
      · cases h; exact hl
      · rename_i op r hsep
        split at h
        · rename_i e' rest1 hu
          exact ihML _ _ _ _ (CM.bin (sepOp_mul hsep) hl (ihU _ _ _ hu)) h
        · cases h; exact hl
        · cases h
    · intro inp e rest h
      unfold addExpr at h
      split at h
      · rename_i l rest1 hm
        exact ihAL _ _ _ _ (CA.of_mul (ihM _ _ _ hm)) h
      · cases h
      · cases h
    · intro l inp e rest hl h
      unfold addLoop at h
      split at h
      · cases h; exact hl
      · rename_i op r hsep
        split at h
        · rename_i e' rest1 hm
          exact ihAL _ _ _ _ (CA.bin (sepOp_add hsep) hl (ihM _ _ _ hm)) h
        · cases h; exact hl
        · cases h

/-- **image of `value_expr`**: whatever the input and the fuel, the meaning-normal form of a tree the parser returns is a
tree the printer prints unambiguously (`wfVExpr`) without a negative literal in operand position (`plainV`) -/
theorem valueExpr_canon {f : Nat} {inp rest : List Char} {v : VExpr} (h : valueExpr f inp = .ok v rest) :
    wfVExpr (canonVExpr v) = true ∧ plainV (canonVExpr v) = true :=
  ((canonImage f).1 inp v rest h).1

/-- the same for the ledger grammar's `value_expr` -/
theorem parseValueExpr_canon {inp rest : List Char} {v : VExpr} (h : Okane.Parse.valueExpr inp = .ok v rest) :
    wfVExpr (canonVExpr v) = true ∧ plainV (canonVExpr v) = true := by
  unfold Okane.Parse.valueExpr at h
  cases hp : parseValueExpr inp with
  | ok v' r' =>
    rw [hp] at h
    simp only [Okane.Parse.ofPRes] at h
    cases h
    exact valueExpr_canon hp
  | fail p => rw [hp] at h; simp [Okane.Parse.ofPRes] at h
  | fuelOut => rw [hp] at h; simp [Okane.Parse.ofPRes] at h

example : Okane.Parse.valueExpr "(0,100.5 USD * -2) rest".toList =
    .ok (.paren (.bin .mul (.val (.amt ⟨false, 1005, 1, some .comma3dot⟩ "USD")) (.neg (.val (.amt ⟨false, 2, 0, none⟩ ""))))) " rest".toList := by
  decide +kernel

end Okane.C05Image
