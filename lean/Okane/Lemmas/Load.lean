import Okane.Spec.Load
/-! Helper lemmas for C11 (loader vs. substitution semantics). -/
namespace Okane.Load

/-! ## `andThen` -/

theorem andThen_ok_iff (a : LoadRes) (b : Unit → LoadRes) :
    (a.andThen b).status = .ok () ↔ a.status = .ok () ∧ (b ()).status = .ok () := by
  unfold LoadRes.andThen
  cases h : a.status with
  | ok u => cases u; simp
  | err e => simp [h]
  | panic s => simp [h]
  | fuelOut => simp [h]

theorem andThen_delivered_of_ok (a : LoadRes) (b : Unit → LoadRes) (h : a.status = .ok ()) :
    (a.andThen b).delivered = a.delivered ++ (b ()).delivered ∧ (a.andThen b).status = (b ()).status := by
  unfold LoadRes.andThen
  simp [h]

theorem andThen_of_not_ok (a : LoadRes) (b : Unit → LoadRes) (h : a.status ≠ .ok ()) :
    a.andThen b = a := by
  unfold LoadRes.andThen
  cases h' : a.status with
  | ok u => cases u; exact absurd h' h
  | err e => rfl
  | panic s => rfl
  | fuelOut => rfl

theorem LoadRes.ext' {a b : LoadRes} (h1 : a.delivered = b.delivered) (h2 : a.status = b.status) : a = b := by
  cases a; cases b; simp_all

/-! ## soundness: what the loader delivers on success is the expansion -/

section sound
variable (fs : FSI) (recL : Path → LoadRes) (recE : Path → Option Tagged)

theorem loadList_sound (h : ∀ q, (recL q).status = .ok () → recE q = some (recL q).delivered) :
    ∀ qs, (loadListWith recL qs).status = .ok () → expandListWith recE qs = some (loadListWith recL qs).delivered := by
  intro qs
  induction qs with
  | nil => intro _; simp [loadListWith, expandListWith, LoadRes.done]
  | cons q qs ih =>
    intro hok
    simp only [loadListWith] at hok ⊢
    rw [andThen_ok_iff] at hok
    have := andThen_delivered_of_ok (recL q) (fun _ => loadListWith recL qs) hok.1
    rw [this.1]
    simp [expandListWith, h q hok.1, ih hok.2]

theorem loadInclude_sound (h : ∀ q, (recL q).status = .ok () → recE q = some (recL q).delivered)
    (cp : Path) (g : String) (hok : (loadInclude fs recL cp g).status = .ok ()) :
    expandInclude fs recE cp g = some (loadInclude fs recL cp g).delivered := by
  unfold loadInclude at hok ⊢
  unfold expandInclude
  cases hp : parent cp with
  | none => simp [hp, LoadRes.fail] at hok
  | some dir =>
    simp only [hp] at hok ⊢
    cases hg : fs.glob (joinStr dir g) with
    | ok paths =>
      simp only [hg] at hok ⊢
      by_cases he : paths.isEmpty = true
      · simp [he, LoadRes.fail] at hok
      · simp only [he] at hok ⊢
        exact loadList_sound recL recE h _ hok
    | err e => simp [hg, LoadRes.fail] at hok
    | panic s => simp [hg] at hok
    | fuelOut => simp [hg] at hok

theorem loadEntries_sound (h : ∀ q, (recL q).status = .ok () → recE q = some (recL q).delivered) (cp : Path) :
    ∀ es, (loadEntriesWith fs recL cp es).status = .ok () →
      expandEntriesWith fs recE cp es = some (loadEntriesWith fs recL cp es).delivered := by
  intro es
  induction es with
  | nil => intro _; simp [loadEntriesWith, expandEntriesWith, LoadRes.done]
  | cons e es ih =>
    intro hok
    cases e with
    | «include» g =>
      simp only [loadEntriesWith] at hok ⊢
      rw [andThen_ok_iff] at hok
      have := andThen_delivered_of_ok (loadInclude fs recL cp g) (fun _ => loadEntriesWith fs recL cp es) hok.1
      rw [this.1]
      simp [expandEntriesWith, loadInclude_sound fs recL recE h cp g hok.1, ih hok.2]
    | _ =>
      simp only [loadEntriesWith] at hok ⊢
      simp [expandEntriesWith, ih hok]

end sound

/-! ## completeness: a defined expansion is what the loader delivers -/

section complete
variable (fs : FSI) (recL : Path → LoadRes) (recE : Path → Option Tagged)

theorem loadList_complete (h : ∀ q ys, recE q = some ys → recL q = ⟨ys, .ok ()⟩) :
    ∀ qs xs, expandListWith recE qs = some xs → loadListWith recL qs = ⟨xs, .ok ()⟩ := by
  intro qs
  induction qs with
  | nil => intro xs hx; simp [expandListWith] at hx; subst hx; rfl
  | cons q qs ih =>
    intro xs hx
    simp only [expandListWith] at hx
    cases h1 : recE q with
    | none => simp [h1] at hx
    | some a =>
      cases h2 : expandListWith recE qs with
      | none => simp [h1, h2] at hx
      | some b =>
        simp [h1, h2] at hx
        subst hx
        simp [loadListWith, h q a h1, ih b h2, LoadRes.andThen]

theorem loadInclude_complete (h : ∀ q ys, recE q = some ys → recL q = ⟨ys, .ok ()⟩) (cp : Path) (g : String)
    (xs : Tagged) (hx : expandInclude fs recE cp g = some xs) : loadInclude fs recL cp g = ⟨xs, .ok ()⟩ := by
  unfold expandInclude at hx
  unfold loadInclude
  cases hp : parent cp with
  | none => simp [hp] at hx
  | some dir =>
    simp only [hp] at hx ⊢
    cases hg : fs.glob (joinStr dir g) with
    | ok paths =>
      simp only [hg] at hx ⊢
      by_cases he : paths.isEmpty = true
      · simp [he] at hx
      · simp only [he] at hx ⊢
        exact loadList_complete recL recE h _ _ hx
    | err e => simp [hg] at hx
    | panic s => simp [hg] at hx
    | fuelOut => simp [hg] at hx

theorem loadEntries_complete (h : ∀ q ys, recE q = some ys → recL q = ⟨ys, .ok ()⟩) (cp : Path) :
    ∀ es xs, expandEntriesWith fs recE cp es = some xs → loadEntriesWith fs recL cp es = ⟨xs, .ok ()⟩ := by
  intro es
  induction es with
  | nil => intro xs hx; simp [expandEntriesWith] at hx; subst hx; rfl
  | cons e es ih =>
    intro xs hx
    cases e with
    | «include» g =>
      simp only [expandEntriesWith] at hx
      cases h1 : expandInclude fs recE cp g with
      | none => simp [h1] at hx
      | some a =>
        cases h2 : expandEntriesWith fs recE cp es with
        | none => simp [h1, h2] at hx
        | some b =>
          simp [h1, h2] at hx
          subst hx
          simp [loadEntriesWith, loadInclude_complete fs recL recE h cp g a h1, ih b h2, LoadRes.andThen]
    | _ =>
      simp only [expandEntriesWith, Option.map_eq_some_iff] at hx
      obtain ⟨ys, hy, rfl⟩ := hx
      simp [loadEntriesWith, ih ys hy]

end complete

/-! ## monotonicity in the recursive call (fuel independence) -/

section mono
variable (fs : FSI) (rec rec' : Path → Option Tagged)

theorem expandList_mono (h : ∀ q ys, rec q = some ys → rec' q = some ys) :
    ∀ qs xs, expandListWith rec qs = some xs → expandListWith rec' qs = some xs := by
  intro qs
  induction qs with
  | nil => intro xs hx; simpa [expandListWith] using hx
  | cons q qs ih =>
    intro xs hx
    simp only [expandListWith] at hx ⊢
    cases h1 : rec q with
    | none => simp [h1] at hx
    | some a =>
      cases h2 : expandListWith rec qs with
      | none => simp [h1, h2] at hx
      | some b =>
        simp [h1, h2] at hx
        simp [h q a h1, ih b h2, hx]

theorem expandInclude_mono (h : ∀ q ys, rec q = some ys → rec' q = some ys) (cp : Path) (g : String) (xs : Tagged)
    (hx : expandInclude fs rec cp g = some xs) : expandInclude fs rec' cp g = some xs := by
  unfold expandInclude at hx ⊢
  cases hp : parent cp with
  | none => simp [hp] at hx
  | some dir =>
    simp only [hp] at hx ⊢
    cases hg : fs.glob (joinStr dir g) with
    | ok paths =>
      simp only [hg] at hx ⊢
      by_cases he : paths.isEmpty = true
      · simp [he] at hx
      · simp only [he] at hx ⊢
        exact expandList_mono rec rec' h _ _ hx
    | err e => simp [hg] at hx
    | panic s => simp [hg] at hx
    | fuelOut => simp [hg] at hx

theorem expandEntries_mono (h : ∀ q ys, rec q = some ys → rec' q = some ys) (cp : Path) :
    ∀ es xs, expandEntriesWith fs rec cp es = some xs → expandEntriesWith fs rec' cp es = some xs := by
  intro es
  induction es with
  | nil => intro xs hx; simpa [expandEntriesWith] using hx
  | cons e es ih =>
    intro xs hx
    cases e with
    | «include» g =>
      simp only [expandEntriesWith] at hx ⊢
      cases h1 : expandInclude fs rec cp g with
      | none => simp [h1] at hx
      | some a =>
        cases h2 : expandEntriesWith fs rec cp es with
        | none => simp [h1, h2] at hx
        | some b =>
          simp [h1, h2] at hx
          simp [expandInclude_mono fs rec rec' h cp g a h1, ih b h2, hx]
    | _ =>
      simp only [expandEntriesWith, Option.map_eq_some_iff] at hx ⊢
      obtain ⟨ys, hy, rfl⟩ := hx
      exact ⟨ys, ih ys hy, rfl⟩

end mono

theorem expand_succ (fs : FSI) : ∀ n p xs, expand fs n p = some xs → expand fs (n + 1) p = some xs := by
  intro n
  induction n with
  | zero => intro p xs h; simp [expand] at h
  | succ n ih =>
    intro p xs h
    rw [expand] at h ⊢
    cases hr : fs.read (fs.canon p) with
    | ok c =>
      simp only [hr] at h ⊢
      by_cases hp : c.parseErr = true
      · simp [hp] at h
      · simp only [hp] at h ⊢
        exact expandEntries_mono fs _ _ ih _ _ _ h
    | err e => simp [hr] at h
    | panic s => simp [hr] at h
    | fuelOut => simp [hr] at h

theorem expand_mono (fs : FSI) {n m : Nat} (hnm : n ≤ m) {p : Path} {xs : Tagged}
    (h : expand fs n p = some xs) : expand fs m p = some xs := by
  induction hnm with
  | refl => exact h
  | step _ ih => exact expand_succ fs _ _ _ ih

/-- the expansion only looks at the canonical path. -/
theorem expand_canon (fs : FSI) (hc : ∀ p, fs.canon (fs.canon p) = fs.canon p) (n : Nat) (p : Path) :
    expand fs n (fs.canon p) = expand fs n p := by
  cases n with
  | zero => rfl
  | succ n => simp [expand, hc]

/-! ## pigeonhole -/

theorem length_le_of_nodup_subset {α : Type} [DecidableEq α] :
    ∀ (l m : List α), l.Nodup → (∀ a ∈ l, a ∈ m) → l.length ≤ m.length := by
  intro l
  induction l with
  | nil => intros; simp
  | cons a t ih =>
    intro m hnd hsub
    have ha : a ∈ m := hsub a (by simp)
    have hnd' := List.nodup_cons.1 hnd
    have hsub' : ∀ b ∈ t, b ∈ m.erase a := by
      intro b hb
      have hne : b ≠ a := by intro h; subst h; exact hnd'.1 hb
      exact (List.mem_erase_of_ne hne).2 (hsub b (by simp [hb]))
    have := ih (m.erase a) hnd'.2 hsub'
    rw [List.length_erase_of_mem ha] at this
    have hpos : 0 < m.length := List.length_pos_of_mem ha
    simp only [List.length_cons]
    omega

/-! ## no crash of the `With` loops when the recursive call does not crash -/

section nocrash
variable (fs : FSI) (rec : Path → LoadRes)

theorem loadList_status (P : Outcome LoadErr Unit → Prop) (hok : P (.ok ())) (h : ∀ q, P (rec q).status) :
    ∀ qs, P (loadListWith rec qs).status := by
  intro qs
  induction qs with
  | nil => simpa [loadListWith, LoadRes.done] using hok
  | cons q qs ih =>
    simp only [loadListWith]
    by_cases h1 : (rec q).status = .ok ()
    · rw [(andThen_delivered_of_ok _ _ h1).2]; exact ih
    · rw [andThen_of_not_ok _ _ h1]; exact h q

end nocrash

/-! ## `std::fs::canonicalize` on a tree: the result is a fixed point -/

def isNormalC : Comp → Bool
  | .normal _ => true
  | _ => false

/-- a resolved path: the root followed by normal components, and resolving it again reproduces it. -/
def ResolvedInv (t : Tree) (cur : Path) : Prop :=
  ∃ ns : List Comp, (∀ c ∈ ns, isNormalC c = true) ∧ cur = .root :: ns ∧ ns.foldl (resolveStep t) (some [.root]) = some cur

theorem resolveStep_none (t : Tree) : ∀ cs : List Comp, cs.foldl (resolveStep t) none = none := by
  intro cs
  induction cs with
  | nil => rfl
  | cons c cs ih => simpa [List.foldl_cons, resolveStep] using ih

theorem resolvedInv_step (t : Tree) (cur cur' : Path) (c : Comp) (hi : ResolvedInv t cur)
    (hs : resolveStep t (some cur) c = some cur') : ResolvedInv t cur' := by
  obtain ⟨ns, hns, rfl, hf⟩ := hi
  cases c with
  | root => simp [resolveStep] at hs; subst hs; exact ⟨[], by simp, rfl, rfl⟩
  | cur =>
    simp only [resolveStep] at hs
    split at hs
    · simp at hs; subst hs; exact ⟨ns, hns, rfl, hf⟩
    · simp at hs
  | normal s =>
    simp only [resolveStep] at hs
    split at hs
    next hcond =>
      simp at hs
      subst hs
      refine ⟨ns ++ [.normal s], ?_, by simp, ?_⟩
      · intro c hc
        rcases List.mem_append.1 hc with h | h
        · exact hns c h
        · simp at h; subst h; rfl
      · rw [List.foldl_append, hf]
        have hcond' : (t.isDir (Comp.root :: ns) && t.pathExists (Comp.root :: ns ++ [Comp.normal s])) = true := hcond
        simp only [List.foldl_cons, List.foldl_nil, resolveStep, hcond', if_true]
        simp
    · simp at hs
  | parent =>
    simp only [resolveStep] at hs
    split at hs
    · simp at hs
      subst hs
      -- pop (root :: ns)
      rcases List.eq_nil_or_concat ns with rfl | ⟨ns', x, hcc⟩
      · exact ⟨[], by simp, by simp [pop, parent], rfl⟩
      · rw [List.concat_eq_append] at hcc
        subst hcc
        have hx : isNormalC x = true := hns x (by simp)
        have hpop : pop (.root :: (ns' ++ [x])) = .root :: ns' := by
          have hl : (Comp.root :: (ns' ++ [x])).getLast? = some x := by
            rw [show Comp.root :: (ns' ++ [x]) = (Comp.root :: ns') ++ [x] by simp]
            exact List.getLast?_concat
          have hd : (Comp.root :: (ns' ++ [x])).dropLast = .root :: ns' := by
            rw [show Comp.root :: (ns' ++ [x]) = (Comp.root :: ns') ++ [x] by simp]
            exact List.dropLast_concat
          cases x <;> simp [isNormalC] at hx
          simp [pop, parent, hl, hd]
        rw [hpop]
        refine ⟨ns', fun c hc => hns c (by simp [hc]), rfl, ?_⟩
        rw [List.foldl_append] at hf
        cases h0 : ns'.foldl (resolveStep t) (some [.root]) with
        | none => rw [h0] at hf; simp [resolveStep] at hf
        | some c0 =>
          rw [h0] at hf
          cases x with
          | normal nm =>
            simp only [List.foldl_cons, List.foldl_nil, resolveStep] at hf
            split at hf
            · simp at hf
              have : c0 ++ [Comp.normal nm] = (Comp.root :: ns') ++ [Comp.normal nm] := by simpa using hf
              exact congrArg some (List.append_cancel_right this)
            · simp at hf
          | root => simp [isNormalC] at hx
          | cur => simp [isNormalC] at hx
          | parent => simp [isNormalC] at hx
    · simp at hs

theorem resolvedInv_foldl (t : Tree) : ∀ (cs : List Comp) (cur q : Path), ResolvedInv t cur →
    cs.foldl (resolveStep t) (some cur) = some q → ResolvedInv t q := by
  intro cs
  induction cs with
  | nil => intro cur q hi h; simp at h; subst h; exact hi
  | cons c cs ih =>
    intro cur q hi h
    simp only [List.foldl_cons] at h
    cases hs : resolveStep t (some cur) c with
    | none => rw [hs, resolveStep_none] at h; cases h
    | some cur' => rw [hs] at h; exact ih cur' q (resolvedInv_step t cur cur' c hi hs) h

/-- a successfully resolved path resolves to itself. -/
theorem resolveReal_fixed (t : Tree) (p q : Path) (h : resolveReal t p = some q) : resolveReal t q = some q := by
  unfold resolveReal at h
  split at h
  · next rest =>
    obtain ⟨ns, _, rfl, hf⟩ := resolvedInv_foldl t rest [.root] q ⟨[], by simp, rfl, rfl⟩ h
    simpa [resolveReal] using hf
  · cases h

/-- `ProdFileSystem::canonicalize_path` (on a tree without symbolic links) is idempotent. -/
theorem prodCanon_idem (t : Tree) (p : Path) : prodCanon t (prodCanon t p) = prodCanon t p := by
  unfold prodCanon
  cases h : resolveReal t p with
  | none => simp [h]
  | some q => simp [resolveReal_fixed t p q h]

end Okane.Load
