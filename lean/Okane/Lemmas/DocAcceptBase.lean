import Okane.Spec.DocGrammar
import Okane.Model.Parse
import Okane.Lemmas.C05Comb
/-!
# Acceptance of the documented grammar — basic facts about the grammar combinators (`Okane.Spec.Doc.G`)

How a derivation `X i r` of the relational grammar is turned into facts about texts: `i = s ++ r` with a description of
`s`, for the character-level productions (`sp*`, `no-new-line*`, literals, `new-line`).
-/
set_option linter.unusedSimpArgs false
set_option linter.unusedVariables false
namespace Okane.DocAccept
open Okane Okane.Spec.Doc Okane.Comb

/-! ## the character classes of the document and of the parser are the same sets -/

theorem isSp_eq_isSpace : Spec.Doc.isSp = Comb.isSpace := rfl
theorem isSp_eq_exprSpace : Spec.Doc.isSp = ExprSyntax.isSpace := rfl
theorem isNoNewLine_eq (c : Char) : isNoNewLine c = !Comb.isEol c := rfl
theorem isCommentPrefix_eq : Spec.Doc.isCommentPrefix = Parse.isCommentPrefix := rfl

/-! ## unfolding -/

theorem lit_iff (s : String) (i r : List Char) : G.lit s i r ↔ i = s.toList ++ r := Iff.rfl
/-- a literal, with its characters spelled out -/
theorem lit_eq {s : String} {i r : List Char} (l : List Char) (hl : s.toList = l) (h : G.lit s i r) : i = l ++ r := hl ▸ h
theorem seq_iff (a b : G) (i r : List Char) : (a ⬝ b) i r ↔ ∃ m, a i m ∧ b m r := Iff.rfl
theorem alt_iff (a b : G) (i r : List Char) : (a ∥ b) i r ↔ a i r ∨ b i r := Iff.rfl
theorem opt_iff (a : G) (i r : List Char) : G.opt a i r ↔ a i r ∨ i = r := Iff.rfl
theorem chr_iff (p : Char → Bool) (i r : List Char) : G.chr p i r ↔ ∃ c, i = c :: r ∧ p c = true := Iff.rfl

theorem star_one {a : G} {i r : List Char} (h : a i r) : G.star a i r := .cons h (.nil r)

theorem star_append {a : G} {i m r : List Char} (h1 : G.star a i m) (h2 : G.star a m r) : G.star a i r := by
  induction h1 with
  | nil _ => exact h2
  | cons h _ ih => exact .cons h (ih h2)

/-- a run of characters of one class: the text and the class of each character -/
theorem star_chr {p : Char → Bool} {i r : List Char} (h : G.star (G.chr p) i r) :
    ∃ s, i = s ++ r ∧ ∀ c ∈ s, p c = true := by
  induction h with
  | nil _ => exact ⟨[], rfl, by simp⟩
  | cons h _ ih =>
    obtain ⟨c, rfl, hc⟩ := h
    obtain ⟨s, rfl, hs⟩ := ih
    exact ⟨c :: s, rfl, by
      intro d hd
      rcases List.mem_cons.mp hd with rfl | hd
      · exact hc
      · exact hs d hd⟩

theorem plus_chr {p : Char → Bool} {i r : List Char} (h : G.plus (G.chr p) i r) :
    ∃ s, i = s ++ r ∧ s ≠ [] ∧ ∀ c ∈ s, p c = true := by
  obtain ⟨m, ⟨c, rfl, hc⟩, h2⟩ := h
  obtain ⟨s, rfl, hs⟩ := star_chr h2
  exact ⟨c :: s, rfl, by simp, by
    intro d hd
    rcases List.mem_cons.mp hd with rfl | hd
    · exact hc
    · exact hs d hd⟩

/-- conversely -/
theorem star_chr_of {p : Char → Bool} (s r : List Char) (hs : ∀ c ∈ s, p c = true) : G.star (G.chr p) (s ++ r) r := by
  induction s with
  | nil => exact .nil r
  | cons c t ih =>
    exact .cons ⟨c, rfl, hs c (by simp)⟩ (ih fun d hd => hs d (by simp [hd]))

theorem plus_chr_of {p : Char → Bool} (s r : List Char) (hne : s ≠ []) (hs : ∀ c ∈ s, p c = true) :
    G.plus (G.chr p) (s ++ r) r := by
  cases s with
  | nil => exact absurd rfl hne
  | cons c t => exact ⟨t ++ r, ⟨c, rfl, hs c (by simp)⟩, star_chr_of t r fun d hd => hs d (by simp [hd])⟩

theorem mem_takeWhile {p : Char → Bool} {l : List Char} {c : Char} (h : c ∈ l.takeWhile p) : p c = true := by
  induction l with
  | nil => cases h
  | cons a t ih =>
    cases ha : p a with
    | false => simp [List.takeWhile, ha] at h
    | true =>
      simp only [List.takeWhile, ha] at h
      rcases List.mem_cons.mp h with rfl | h
      · exact ha
      · exact ih h

/-! ## blanks -/

theorem star_sp {i r : List Char} (h : G.star sp i r) : ∃ s, i = s ++ r ∧ ∀ c ∈ s, Comb.isSpace c = true :=
  star_chr h

theorem plus_sp {i r : List Char} (h : G.plus sp i r) : ∃ s, i = s ++ r ∧ s ≠ [] ∧ ∀ c ∈ s, Comb.isSpace c = true :=
  plus_chr h

/-- `rest` is empty or begins with a character that does not satisfy `p` (Boolean form of `Comb.Stop`) -/
def stopsB (p : Char → Bool) : List Char → Bool
  | [] => true
  | c :: _ => !p c

theorem stop_of_stopsB {p : Char → Bool} {r : List Char} (h : stopsB p r = true) : Stop p r := by
  cases r with
  | nil => simp
  | cons c t => simpa [stopsB] using h

theorem stopsB_of_stop {p : Char → Bool} {r : List Char} (h : Stop p r) : stopsB p r = true := by
  cases r with
  | nil => rfl
  | cons c t => simpa [stopsB] using h

/-- `space0` over `sp*` followed by something that is not a blank -/
theorem space0_star_sp {i r : List Char} (h : G.star sp i r) (hr : Stop Comb.isSpace r) : ∃ s, space0 i = .ok s r := by
  obtain ⟨s, rfl, hs⟩ := star_sp h
  exact ⟨s, space0_append hs hr⟩

theorem space1_plus_sp {i r : List Char} (h : G.plus sp i r) (hr : Stop Comb.isSpace r) : ∃ s, space1 i = .ok s r := by
  obtain ⟨s, rfl, hne, hs⟩ := plus_sp h
  exact ⟨s, space1_append hne hs hr⟩

/-- `skipSpaces` (the expression parser's `space0`) -/
theorem skipSpaces_star_sp {i r : List Char} (h : G.star sp i r) (hr : Stop Comb.isSpace r) :
    ExprSyntax.skipSpaces i = r := by
  obtain ⟨s, rfl, hs⟩ := star_sp h
  exact dropWhile_append_stop hs hr

theorem skipSpaces_of_stop {r : List Char} (hr : Stop Comb.isSpace r) : ExprSyntax.skipSpaces r = r := by
  have := dropWhile_append_stop (a := []) (p := Comb.isSpace) (rest := r) (by simp) hr
  exact this

/-! ## `new-line` -/

/-- the three ways a `new-line` is derived -/
theorem newLine_cases {i r : List Char} (h : newLine i r) :
    i = '\n' :: r ∨ i = '\r' :: '\n' :: r ∨ (i = [] ∧ r = []) := by
  rcases h with ⟨m, h1, h2⟩ | h
  · rcases h1 with h1 | rfl
    · rw [lit_iff] at h1 h2
      subst h2; subst h1
      exact Or.inr (Or.inl rfl)
    · rw [lit_iff] at h2
      exact Or.inl h2
  · exact Or.inr (Or.inr h)

theorem newLine_nl (r : List Char) : newLine ('\n' :: r) r := Or.inl ⟨_, Or.inr rfl, rfl⟩
theorem newLine_crnl (r : List Char) : newLine ('\r' :: '\n' :: r) r := Or.inl ⟨'\n' :: r, Or.inl rfl, rfl⟩
theorem newLine_eof : newLine [] [] := Or.inr ⟨rfl, rfl⟩

/-- `line_ending_or_eof` accepts a documented `new-line` -/
theorem lineEndingOrEof_newLine {i r : List Char} (h : newLine i r) : Parse.lineEndingOrEof i = .ok () r := by
  rcases newLine_cases h with rfl | rfl | ⟨rfl, rfl⟩ <;> simp [Parse.lineEndingOrEof, alt2, lineEnding, eof]

/-- a position at which a `new-line` can be derived is the end of the text or begins with CR or LF -/
theorem newLine_head {i r : List Char} (h : newLine i r) : i = [] ∨ ∃ c t, i = c :: t ∧ Comb.isEol c = true := by
  rcases newLine_cases h with rfl | rfl | ⟨rfl, rfl⟩
  · exact Or.inr ⟨_, _, rfl, by decide⟩
  · exact Or.inr ⟨_, _, rfl, by decide⟩
  · exact Or.inl rfl

theorem newLine_stop_space {i r : List Char} (h : newLine i r) : Stop Comb.isSpace i := by
  rcases newLine_cases h with rfl | rfl | ⟨rfl, rfl⟩ <;> simp [Comb.isSpace]

/-- `till_line_ending` on a text without CR / LF followed by a `new-line` -/
theorem tillLineEnding_newLine {a i r : List Char} (ha : ∀ c ∈ a, isNoNewLine c = true) (h : newLine i r) :
    tillLineEnding (a ++ i) = .ok a i := by
  have ha' : ∀ c ∈ a, (fun c => !Comb.isEol c) c = true := fun c hc => by simpa [isNoNewLine_eq] using ha c hc
  have hst : Stop (fun c => !Comb.isEol c) i := by
    rcases newLine_cases h with rfl | rfl | ⟨rfl, rfl⟩ <;> simp [Comb.isEol]
  have h1 : (a ++ i).takeWhile (fun c => !isEol c) = a := takeWhile_append_stop ha' hst
  have h2 : (a ++ i).dropWhile (fun c => !isEol c) = i := dropWhile_append_stop ha' hst
  rcases newLine_cases h with rfl | rfl | ⟨rfl, rfl⟩
  · simp [tillLineEnding, h1, h2]
  · simp [tillLineEnding, h1, h2]
  · simp only [List.append_nil] at h1 h2 ⊢
    simp [tillLineEnding, h1, h2]

/-! ## lengths: a derivation only moves forward -/

theorem star_chr_length {p : Char → Bool} {i r : List Char} (h : G.star (G.chr p) i r) : r.length ≤ i.length := by
  obtain ⟨s, rfl, _⟩ := star_chr h; simp

theorem newLine_length {i r : List Char} (h : newLine i r) : r.length ≤ i.length := by
  rcases newLine_cases h with rfl | rfl | ⟨rfl, rfl⟩ <;> simp <;> omega

/-! ## `repeat(0.., p)` over a starred production -/

/-- the start of a starred run satisfies the follow condition of its predecessor -/
theorem star_first {g : G} {F : List Char → Prop} (hF : ∀ i m, g i m → F i) {i r : List Char} (h : G.star g i r)
    (hFr : F r) : F i := by
  cases h with
  | nil _ => exact hFr
  | cons h _ => exact hF _ _ h

/-- `repeat0Loop p` follows a derivation of `g*` when `p` accepts each `g` (given the follow condition `F`), consuming,
and backtracks at the end -/
theorem repeat0Loop_star {α : Type} {p : Parser α} {g : G} (F : List Char → Prop)
    (hacc : ∀ i m, g i m → F m → ∃ a, p i = .ok a m ∧ m.length < i.length)
    (hF : ∀ i m, g i m → F i) {i r : List Char} (h : G.star g i r) (hFr : F r) (hstop : ∃ z, p r = .bt z) :
    ∀ (n : Nat) (acc : List α), i.length < n → ∃ acc', repeat0Loop p n i acc = .ok acc' r := by
  induction h with
  | nil _ =>
    intro n acc hn
    obtain ⟨z, hz⟩ := hstop
    cases n with
    | zero => omega
    | succ n => exact ⟨acc, repeat0Loop_stop hz⟩
  | cons h hs ih =>
    intro n acc hn
    cases n with
    | zero => omega
    | succ n =>
      obtain ⟨a, ha, hlt⟩ := hacc _ _ h (star_first hF hs hFr)
      obtain ⟨acc', h'⟩ := ih hFr hstop n (acc ++ [a]) (by omega)
      exact ⟨acc', by rw [repeat0Loop_step ha hlt, h']⟩

theorem repeat0_star {α : Type} {p : Parser α} {g : G} (F : List Char → Prop)
    (hacc : ∀ i m, g i m → F m → ∃ a, p i = .ok a m ∧ m.length < i.length)
    (hF : ∀ i m, g i m → F i) {i r : List Char} (h : G.star g i r) (hFr : F r) (hstop : ∃ z, p r = .bt z) :
    ∃ acc, repeat0 p i = .ok acc r :=
  repeat0Loop_star F hacc hF h hFr hstop (i.length + 1) [] (by omega)

end Okane.DocAccept
