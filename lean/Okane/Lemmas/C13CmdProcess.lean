import Okane.Lemmas.C13CmdBase
import Okane.Model.Process
/-!
# C13, command level (2): book-keeping (`process`) does not depend on the layout of any of its hash maps

The accumulator of `process` holds five kinds of hash maps: the two intern stores, the declared formats, the balance
(a map of maps) and the amounts inside the evaluated postings.  `ProcEq st st'` says that `st` and `st'` are the same
accumulator up to the order of the entries of every one of these maps.  The theorems: every step of the model
(`evalMut`, `resolvePosting`, `processPosting`, `stepPosting`, `check_balance`, `add_transaction`, `process`) maps
related states to related results, to errors that differ only in the order of the amounts they carry, to the same
panic site, to the same fuel exhaustion.
-/
set_option linter.unusedSectionVars false
set_option linter.unusedSimpArgs false
namespace Okane.C13
open Okane

theorem MEq.single {κ ν : Type} [DecidableEq κ] (c : κ) (v : ν) : ([(c, v)] : AMap κ ν) ≈ₘ [(c, v)] :=
  MEq.refl (by simp [AMap.WF, AMap.keys])

/-! ## intern stores and the report context -/

/-- the same intern store. -/
def StoreEq (s s' : Store) : Prop := s.recs ≈ₘ s'.recs

namespace StoreEq

theorem refl {s : Store} (h : AMap.WF s.recs) : StoreEq s s := MEq.refl h
theorem symm {s s' : Store} (h : StoreEq s s') : StoreEq s' s := MEq.symm h
theorem trans {a b c : Store} (h1 : StoreEq a b) (h2 : StoreEq b c) : StoreEq a c := MEq.trans h1 h2

theorem resolve {s s' : Store} (h : StoreEq s s') (n : String) : s.resolve n = s'.resolve n := by
  unfold Store.resolve; rw [MEq.get? h n]

theorem ensure {s s' : Store} (h : StoreEq s s') (n : String) :
    (s.ensure n).1 = (s'.ensure n).1 ∧ StoreEq (s.ensure n).2 (s'.ensure n).2 := by
  unfold Store.ensure
  rw [resolve h n]
  cases s'.resolve n with
  | some c => exact ⟨rfl, h⟩
  | none => exact ⟨rfl, MEq.insert h _ _⟩

theorem insertCanonical {s s' : Store} (h : StoreEq s s') (n : String) :
    ORel (· = ·) (fun p p' => p.1 = p'.1 ∧ StoreEq p.2 p'.2) (s.insertCanonical n) (s'.insertCanonical n) := by
  unfold Store.insertCanonical
  rw [MEq.get? h n]
  match AMap.get? s'.recs n with
  | none => exact ⟨rfl, MEq.insert h _ _⟩
  | some none => exact ⟨rfl, h⟩
  | some (some _) => simp [ORel]

theorem insertAlias {s s' : Store} (h : StoreEq s s') (n c : String) :
    ORel (· = ·) StoreEq (s.insertAlias n c) (s'.insertAlias n c) := by
  unfold Store.insertAlias
  rw [MEq.get? h n]
  match AMap.get? s'.recs n with
  | none => exact MEq.insert h _ _
  | some none => simp [ORel]
  | some (some f) =>
    simp only []
    split
    · exact h
    · simp [ORel]

end StoreEq

/-- the same `ReportContext`. -/
structure CtxEq (c c' : Ctx) : Prop where
  accounts : StoreEq c.accounts c'.accounts
  commodities : StoreEq c.commodities c'.commodities
  formatting : c.formatting ≈ₘ c'.formatting

theorem CtxEq.prec {c c' : Ctx} (h : CtxEq c c') : c.prec = c'.prec := by
  funext k; unfold Ctx.prec; exact MEq.get? h.formatting k

theorem CtxEq.symm {c c' : Ctx} (h : CtxEq c c') : CtxEq c' c :=
  ⟨h.accounts.symm, h.commodities.symm, h.formatting.symm⟩
theorem CtxEq.trans {a b c : Ctx} (h1 : CtxEq a b) (h2 : CtxEq b c) : CtxEq a c :=
  ⟨h1.accounts.trans h2.accounts, h1.commodities.trans h2.commodities, h1.formatting.trans h2.formatting⟩

/-! ## expression evaluation -/

/-- result of an evaluation step: related value, related store. -/
def EvStore (p p' : Evaluated String × Store) : Prop := EvEq p.1 p'.1 ∧ StoreEq p.2 p'.2

/-- a leaf evaluator that respects the store relation. -/
def LeafOK (leaf : Store → PDec → String → Outcome EvalErr (Evaluated String × Store)) : Prop :=
  ∀ s s', StoreEq s s' → ∀ v c, ORel (· = ·) EvStore (leaf s v c) (leaf s' v c)

theorem leafMut_ok : LeafOK leafMut := by
  intro s s' h v c
  unfold leafMut
  split
  · exact ⟨rfl, h⟩
  · have := h.ensure c
    refine ⟨?_, this.2⟩
    show ([((s.ensure c).1, v.toRat)] : Amount String) ≈ₘ [((s'.ensure c).1, v.toRat)]
    rw [this.1]; exact MEq.single _ _

theorem leafRo_ok : LeafOK leafRo := by
  intro s s' h v c
  unfold leafRo
  split
  · exact ⟨rfl, h⟩
  · rw [h.resolve c]
    cases s'.resolve c with
    | none => simp [ORel]
    | some x => exact ⟨MEq.single _ _, h⟩

theorem applyBin_meq (op : BinOp) {l l' r r' : Evaluated String} (hl : EvEq l l') (hr : EvEq r r') :
    ORel (· = ·) EvEq (applyBin op l r) (applyBin op l' r') := by
  cases op
  · exact EvEq.checkAdd hl hr
  · exact EvEq.checkSub hl hr
  · exact EvEq.checkMul hl hr
  · exact EvEq.checkDiv hl hr

mutual
theorem evalExprWith_meq {leaf} (hleaf : LeafOK leaf) : ∀ (e : Expr) (s s' : Store), StoreEq s s' →
    ORel (· = ·) EvStore (evalExprWith leaf s e) (evalExprWith leaf s' e)
  | .neg e, s, s', h => by
    have ih := evalExprWith_meq hleaf e s s' h
    simp only [evalExprWith]
    revert ih
    cases evalExprWith leaf s e <;> cases evalExprWith leaf s' e <;> simp only [ORel] <;> intro ih
    · exact ⟨ih.1.negate, ih.2⟩
    all_goals first | exact ih | exact ih.elim | trivial
  | .bin op l r, s, s', h => by
    have ih := evalExprWith_meq hleaf l s s' h
    simp only [evalExprWith]
    revert ih
    cases evalExprWith leaf s l <;> cases evalExprWith leaf s' l <;> simp only [ORel] <;> intro ih
    · rename_i a b
      obtain ⟨lv, s1⟩ := a
      obtain ⟨lv', s1'⟩ := b
      have ih2 := evalExprWith_meq hleaf r s1 s1' ih.2
      simp only []
      revert ih2
      cases evalExprWith leaf s1 r <;> cases evalExprWith leaf s1' r <;> simp only [ORel] <;> intro ih2
      · rename_i a b
        obtain ⟨rv, s2⟩ := a
        obtain ⟨rv', s2'⟩ := b
        have h3 := applyBin_meq op ih.1 ih2.1
        simp only []
        revert h3
        cases applyBin op lv rv <;> cases applyBin op lv' rv' <;> simp only [ORel] <;> intro h3
        · exact ⟨h3, ih2.2⟩
        all_goals first | exact h3 | exact h3.elim | trivial
      all_goals first | exact ih2 | exact ih2.elim | trivial
    all_goals first | exact ih | exact ih.elim | trivial
  | .val v, s, s', h => by
    simp only [evalExprWith]
    exact evalVExprWith_meq hleaf v s s' h
theorem evalVExprWith_meq {leaf} (hleaf : LeafOK leaf) : ∀ (e : VExpr) (s s' : Store), StoreEq s s' →
    ORel (· = ·) EvStore (evalVExprWith leaf s e) (evalVExprWith leaf s' e)
  | .paren e, s, s', h => by
    simp only [evalVExprWith]
    exact evalExprWith_meq hleaf e s s' h
  | .amt v c, s, s', h => by
    simp only [evalVExprWith]
    exact hleaf s s' h v c
end

theorem evalMut_meq (e : VExpr) {s s' : Store} (h : StoreEq s s') :
    ORel (· = ·) EvStore (evalMut s e) (evalMut s' e) := evalVExprWith_meq leafMut_ok e s s' h

/-- `eval_ro` returns related values. -/
theorem evalRo_meq (e : VExpr) {s s' : Store} (h : StoreEq s s') :
    ORel (· = ·) EvEq (evalRo s e) (evalRo s' e) :=
  ORel.map' _ _ (fun _ _ h => h.1) (evalVExprWith_meq leafRo_ok e s s' h)

end Okane.C13
