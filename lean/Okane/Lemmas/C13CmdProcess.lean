import Okane.Lemmas.C13CmdBook
import Okane.Model.Process
/-!
# C13, command level (2): book-keeping (`process`) does not depend on the layout of any of its hash maps

The accumulator of `process` holds five kinds of hash maps: the two intern stores, the declared formats, the balance
(a map of maps) and the amounts inside the evaluated postings.  `ProcEq st st'` says that `st` and `st'` are the same
accumulator up to the order of the entries of every one of these maps.  The theorems: every step of the model
(`evalMut`, `resolvePosting`, `processPosting`, `stepPosting`, `check_balance`, `add_transaction`, `process`) maps
related states to related results, to errors that differ only in the order of the amounts they carry, to the same
panic site, to the same fuel exhaustion.
-/
set_option linter.unusedSectionVars false
set_option linter.unusedSimpArgs false
namespace Okane.C13
open Okane

theorem MEq.single {κ ν : Type} [DecidableEq κ] (c : κ) (v : ν) : ([(c, v)] : AMap κ ν) ≈ₘ [(c, v)] :=
  MEq.refl (by simp [AMap.WF, AMap.keys])

/-! ## intern stores and the report context -/

/-- the same intern store. -/
def StoreEq (s s' : Store) : Prop := s.recs ≈ₘ s'.recs

namespace StoreEq

theorem refl {s : Store} (h : AMap.WF s.recs) : StoreEq s s := MEq.refl h
theorem symm {s s' : Store} (h : StoreEq s s') : StoreEq s' s := MEq.symm h
theorem trans {a b c : Store} (h1 : StoreEq a b) (h2 : StoreEq b c) : StoreEq a c := MEq.trans h1 h2

theorem resolve {s s' : Store} (h : StoreEq s s') (n : String) : s.resolve n = s'.resolve n := by
  unfold Store.resolve; rw [MEq.get? h n]

theorem ensure {s s' : Store} (h : StoreEq s s') (n : String) :
    (s.ensure n).1 = (s'.ensure n).1 ∧ StoreEq (s.ensure n).2 (s'.ensure n).2 := by
  unfold Store.ensure
  rw [resolve h n]
  cases s'.resolve n with
  | some c => exact ⟨rfl, h⟩
  | none => exact ⟨rfl, MEq.insert h _ _⟩

theorem insertCanonical {s s' : Store} (h : StoreEq s s') (n : String) :
    ORel (· = ·) (fun p p' => p.1 = p'.1 ∧ StoreEq p.2 p'.2) (s.insertCanonical n) (s'.insertCanonical n) := by
  unfold Store.insertCanonical
  rw [MEq.get? h n]
  match AMap.get? s'.recs n with
  | none => exact ⟨rfl, MEq.insert h _ _⟩
  | some none => exact ⟨rfl, h⟩
  | some (some _) => simp [ORel]

theorem insertAlias {s s' : Store} (h : StoreEq s s') (n c : String) :
    ORel (· = ·) StoreEq (s.insertAlias n c) (s'.insertAlias n c) := by
  unfold Store.insertAlias
  rw [MEq.get? h n]
  match AMap.get? s'.recs n with
  | none => exact MEq.insert h _ _
  | some none => simp [ORel]
  | some (some f) =>
    simp only []
    split
    · exact h
    · simp [ORel]

end StoreEq

/-- the same `ReportContext`. -/
structure CtxEq (c c' : Ctx) : Prop where
  accounts : StoreEq c.accounts c'.accounts
  commodities : StoreEq c.commodities c'.commodities
  formatting : c.formatting ≈ₘ c'.formatting

theorem CtxEq.prec {c c' : Ctx} (h : CtxEq c c') : c.prec = c'.prec := by
  funext k; unfold Ctx.prec; exact MEq.get? h.formatting k

theorem CtxEq.symm {c c' : Ctx} (h : CtxEq c c') : CtxEq c' c :=
  ⟨h.accounts.symm, h.commodities.symm, h.formatting.symm⟩
theorem CtxEq.trans {a b c : Ctx} (h1 : CtxEq a b) (h2 : CtxEq b c) : CtxEq a c :=
  ⟨h1.accounts.trans h2.accounts, h1.commodities.trans h2.commodities, h1.formatting.trans h2.formatting⟩

/-! ## expression evaluation -/

/-- result of an evaluation step: related value, related store. -/
def EvStore (p p' : Evaluated String × Store) : Prop := EvEq p.1 p'.1 ∧ StoreEq p.2 p'.2

/-- a leaf evaluator that respects the store relation. -/
def LeafOK (leaf : Store → PDec → String → Outcome EvalErr (Evaluated String × Store)) : Prop :=
  ∀ s s', StoreEq s s' → ∀ v c, ORel (· = ·) EvStore (leaf s v c) (leaf s' v c)

theorem leafMut_ok : LeafOK leafMut := by
  intro s s' h v c
  unfold leafMut
  split
  · exact ⟨rfl, h⟩
  · have := h.ensure c
    refine ⟨?_, this.2⟩
    show ([((s.ensure c).1, v.toRat)] : Amount String) ≈ₘ [((s'.ensure c).1, v.toRat)]
    rw [this.1]; exact MEq.single _ _

theorem leafRo_ok : LeafOK leafRo := by
  intro s s' h v c
  unfold leafRo
  split
  · exact ⟨rfl, h⟩
  · rw [h.resolve c]
    cases s'.resolve c with
    | none => simp [ORel]
    | some x => exact ⟨MEq.single _ _, h⟩

theorem applyBin_meq (op : BinOp) {l l' r r' : Evaluated String} (hl : EvEq l l') (hr : EvEq r r') :
    ORel (· = ·) EvEq (applyBin op l r) (applyBin op l' r') := by
  cases op
  · exact EvEq.checkAdd hl hr
  · exact EvEq.checkSub hl hr
  · exact EvEq.checkMul hl hr
  · exact EvEq.checkDiv hl hr

mutual
theorem evalExprWith_meq {leaf} (hleaf : LeafOK leaf) : ∀ (e : Expr) (s s' : Store), StoreEq s s' →
    ORel (· = ·) EvStore (evalExprWith leaf s e) (evalExprWith leaf s' e)
  | .neg e, s, s', h => by
    have ih := evalExprWith_meq hleaf e s s' h
    simp only [evalExprWith]
    revert ih
    cases evalExprWith leaf s e <;> cases evalExprWith leaf s' e <;> simp only [ORel] <;> intro ih
    · exact ⟨ih.1.negate, ih.2⟩
    all_goals first | exact ih | exact ih.elim | trivial
  | .bin op l r, s, s', h => by
    have ih := evalExprWith_meq hleaf l s s' h
    simp only [evalExprWith]
    revert ih
    cases evalExprWith leaf s l <;> cases evalExprWith leaf s' l <;> simp only [ORel] <;> intro ih
    · rename_i a b
      obtain ⟨lv, s1⟩ := a
      obtain ⟨lv', s1'⟩ := b
      have ih2 := evalExprWith_meq hleaf r s1 s1' ih.2
      simp only []
      revert ih2
      cases evalExprWith leaf s1 r <;> cases evalExprWith leaf s1' r <;> simp only [ORel] <;> intro ih2
      · rename_i a b
        obtain ⟨rv, s2⟩ := a
        obtain ⟨rv', s2'⟩ := b
        have h3 := applyBin_meq op ih.1 ih2.1
        simp only []
        revert h3
        cases applyBin op lv rv <;> cases applyBin op lv' rv' <;> simp only [ORel] <;> intro h3
        · exact ⟨h3, ih2.2⟩
        all_goals first | exact h3 | exact h3.elim | trivial
      all_goals first | exact ih2 | exact ih2.elim | trivial
    all_goals first | exact ih | exact ih.elim | trivial
  | .val v, s, s', h => by
    simp only [evalExprWith]
    exact evalVExprWith_meq hleaf v s s' h
theorem evalVExprWith_meq {leaf} (hleaf : LeafOK leaf) : ∀ (e : VExpr) (s s' : Store), StoreEq s s' →
    ORel (· = ·) EvStore (evalVExprWith leaf s e) (evalVExprWith leaf s' e)
  | .paren e, s, s', h => by
    simp only [evalVExprWith]
    exact evalExprWith_meq hleaf e s s' h
  | .amt v c, s, s', h => by
    simp only [evalVExprWith]
    exact hleaf s s' h v c
end

theorem evalMut_meq (e : VExpr) {s s' : Store} (h : StoreEq s s') :
    ORel (· = ·) EvStore (evalMut s e) (evalMut s' e) := evalVExprWith_meq leafMut_ok e s s' h

/-- `eval_ro` returns related values. -/
theorem evalRo_meq (e : VExpr) {s s' : Store} (h : StoreEq s s') :
    ORel (· = ·) EvEq (evalRo s e) (evalRo s' e) :=
  ORel.map' _ _ (fun _ _ h => h.1) (evalVExprWith_meq leafRo_ok e s s' h)

/-- a value (without maps) and a store. -/
def EqStore {β : Type} (p p' : β × Store) : Prop := p.1 = p'.1 ∧ StoreEq p.2 p'.2

theorem liftEval_meq {β : Type} {R : β → β → Prop} {x x' : Outcome EvalErr β} (h : ORel (· = ·) R x x') :
    ORel (ErrEq (κ := String)) R (liftEval x) (liftEval x') := by
  cases x <;> cases x' <;> simp_all [ORel, liftEval, ErrEq]

/-- `Exchange::try_from_syntax` -/
theorem resolveExchange_meq {s s' : Store} (h : StoreEq s s') (amount : PostingAmt String) (x : Exchange) :
    ORel ErrEq EqStore (resolveExchange s amount x) (resolveExchange s' amount x) := by
  have key : ∀ (isTotal : Bool) (e : VExpr),
      ORel (ErrEq (κ := String)) EqStore
        (match evalMut s e with
          | .ok (v, s') =>
            match v.toSingle with
            | .ok rate =>
              if rate.value = 0 then .err .zeroExchangeRate
              else match amount with
                | .zero => .err .zeroAmountWithExchange
                | .single a =>
                  if a.commodity = rate.commodity then .err .exchangeWithAmountCommodity
                  else .ok (if isTotal then RExchange.total rate else .rate rate, s')
            | .err e => .err (.evalFailure e)
            | .panic p => .panic p
            | .fuelOut => .fuelOut
          | .err e => .err (.evalFailure e)
          | .panic p => .panic p
          | .fuelOut => .fuelOut)
        (match evalMut s' e with
          | .ok (v, s') =>
            match v.toSingle with
            | .ok rate =>
              if rate.value = 0 then .err .zeroExchangeRate
              else match amount with
                | .zero => .err .zeroAmountWithExchange
                | .single a =>
                  if a.commodity = rate.commodity then .err .exchangeWithAmountCommodity
                  else .ok (if isTotal then RExchange.total rate else .rate rate, s')
            | .err e => .err (.evalFailure e)
            | .panic p => .panic p
            | .fuelOut => .fuelOut
          | .err e => .err (.evalFailure e)
          | .panic p => .panic p
          | .fuelOut => .fuelOut) := by
    intro isTotal e
    have ih := evalMut_meq e h
    orel_cases ih, evalMut s e, evalMut s' e
    · rename_i a b
      obtain ⟨v, s1⟩ := a
      obtain ⟨v', s1'⟩ := b
      simp only [EvEq.toSingle ih.1]
      cases v'.toSingle with
      | ok rate =>
        simp only []
        by_cases hz : rate.value = 0
        · simp [hz, ORel, ErrEq]
        · simp only [hz, if_false]
          cases amount with
          | zero => simp [ORel, ErrEq]
          | single a =>
            simp only []
            by_cases hc : a.commodity = rate.commodity
            · simp [hc, ORel, ErrEq]
            · simp only [hc, if_false, ORel]; exact ⟨rfl, ih.2⟩
      | err e => simp [ORel, ErrEq]
      | panic p => simp [ORel]
      | fuelOut => simp [ORel]
    all_goals orel_done ih
  cases x with
  | total e => exact key true e
  | rate e => exact key false e

theorem resolveOptExchange_meq {s s' : Store} (h : StoreEq s s') (amount : PostingAmt String) (x : Option Exchange) :
    ORel ErrEq EqStore (resolveOptExchange s amount x) (resolveOptExchange s' amount x) := by
  cases x with
  | none => exact ⟨rfl, h⟩
  | some x =>
    have ih := resolveExchange_meq h amount x
    simp only [resolveOptExchange]
    orel_cases ih, resolveExchange s amount x, resolveExchange s' amount x
    · rename_i a b
      obtain ⟨r, s1⟩ := a
      obtain ⟨r', s1'⟩ := b
      obtain ⟨h1, h2⟩ := ih
      simp only at h1; subst h1
      exact ⟨rfl, h2⟩
    all_goals orel_done ih

theorem evalPostingAmt_meq {s s' : Store} (h : StoreEq s s') (e : VExpr) :
    ORel ErrEq EqStore (evalPostingAmt s e) (evalPostingAmt s' e) := by
  have ih := evalMut_meq e h
  simp only [evalPostingAmt]
  orel_cases ih, evalMut s e, evalMut s' e
  · rename_i a b
    obtain ⟨v, s1⟩ := a
    obtain ⟨v', s1'⟩ := b
    simp only [EvEq.toPosting ih.1]
    cases v'.toPosting with
    | ok p => exact ⟨rfl, ih.2⟩
    | err e => simp [ORel, ErrEq]
    | panic p => simp [ORel]
    | fuelOut => simp [ORel]
  all_goals orel_done ih

/-- `ComputedPosting::compute_from_syntax` -/
theorem resolveAmount_meq {s s' : Store} (h : StoreEq s s') (pa : PostingAmount) :
    ORel ErrEq EqStore (resolveAmount s pa) (resolveAmount s' pa) := by
  have ih := evalPostingAmt_meq h pa.amount
  simp only [resolveAmount]
  orel_cases ih, evalPostingAmt s pa.amount, evalPostingAmt s' pa.amount
  · rename_i a b
    obtain ⟨amount, s1⟩ := a
    obtain ⟨amount', s1'⟩ := b
    obtain ⟨h1, h2⟩ := ih
    simp only at h1 h2; subst h1
    have ih2 := resolveOptExchange_meq h2 amount pa.cost
    simp only []
    orel_cases ih2, resolveOptExchange s1 amount pa.cost, resolveOptExchange s1' amount pa.cost
    · rename_i a b
      obtain ⟨cost, s2⟩ := a
      obtain ⟨cost', s2'⟩ := b
      obtain ⟨h3, h4⟩ := ih2
      simp only at h3 h4; subst h3
      have ih3 := resolveOptExchange_meq h4 amount pa.lot.price
      simp only []
      orel_cases ih3, resolveOptExchange s2 amount pa.lot.price, resolveOptExchange s2' amount pa.lot.price
      · rename_i a b
        obtain ⟨lot, s3⟩ := a
        obtain ⟨lot', s3'⟩ := b
        obtain ⟨h5, h6⟩ := ih3
        simp only at h5 h6; subst h5
        cases amount <;> cases cost <;> cases lot <;> simp only [ORel] <;>
          first | exact ⟨rfl, h6⟩ | rfl | trivial
      all_goals orel_done ih3
    all_goals orel_done ih2
  all_goals orel_done ih

theorem resolveOptBalance_meq {s s' : Store} (h : StoreEq s s') (e : Option VExpr) :
    ORel ErrEq EqStore (resolveOptBalance s e) (resolveOptBalance s' e) := by
  cases e with
  | none => exact ⟨rfl, h⟩
  | some e =>
    have ih := evalPostingAmt_meq h e
    simp only [resolveOptBalance]
    orel_cases ih, evalPostingAmt s e, evalPostingAmt s' e
    · rename_i a b
      obtain ⟨r, s1⟩ := a
      obtain ⟨r', s1'⟩ := b
      obtain ⟨h1, h2⟩ := ih
      simp only at h1; subst h1
      exact ⟨rfl, h2⟩
    all_goals orel_done ih

/-- a resolved posting (it contains no map) and the context. -/
def EqCtx {β : Type} (p p' : β × Ctx) : Prop := p.1 = p'.1 ∧ CtxEq p.2 p'.2

/-- **name resolution and evaluation of one posting** give the same resolved posting. -/
theorem resolvePosting_meq {c c' : Ctx} (h : CtxEq c c') (p : Posting) :
    ORel ErrEq EqCtx (resolvePosting c p) (resolvePosting c' p) := by
  have he := h.accounts.ensure p.account
  simp only [resolvePosting]
  rw [he.1]
  cases hp : p.amount with
  | none =>
    have ih := resolveOptBalance_meq h.commodities p.balance
    simp only []
    orel_cases ih, resolveOptBalance c.commodities p.balance, resolveOptBalance c'.commodities p.balance
    · rename_i a b
      obtain ⟨r, s1⟩ := a
      obtain ⟨r', s1'⟩ := b
      obtain ⟨h1, h2⟩ := ih
      simp only at h1; subst h1
      exact ⟨rfl, ⟨he.2, h2, h.formatting⟩⟩
    all_goals orel_done ih
  | some pa =>
    have ih := resolveAmount_meq h.commodities pa
    simp only []
    orel_cases ih, resolveAmount c.commodities pa, resolveAmount c'.commodities pa
    · rename_i a b
      obtain ⟨ra, s1⟩ := a
      obtain ⟨ra', s1'⟩ := b
      obtain ⟨h1, h2⟩ := ih
      simp only at h1 h2; subst h1
      have ih2 := resolveOptBalance_meq h2 p.balance
      simp only []
      orel_cases ih2, resolveOptBalance s1 p.balance, resolveOptBalance s1' p.balance
      · rename_i a b
        obtain ⟨r, s2⟩ := a
        obtain ⟨r', s2'⟩ := b
        obtain ⟨h3, h4⟩ := ih2
        simp only at h3; subst h3
        exact ⟨rfl, ⟨he.2, h4, h.formatting⟩⟩
      all_goals orel_done ih2
    all_goals orel_done ih

/-! ## `add_transaction` on a syntax transaction -/

/-- the context and the loop state. -/
def CtxSt (p p' : Ctx × TxnState String String) : Prop := CtxEq p.1 p'.1 ∧ TxnStEq p.2 p'.2

theorem loopSyntax_meq (date : Date) (ps : List Posting) : ∀ {c c' : Ctx} {st st' : TxnState String String},
    CtxEq c c' → TxnStEq st st' → ∀ (idx : Nat),
    ORel ErrEq CtxSt (loopSyntax date c st idx ps) (loopSyntax date c' st' idx ps) := by
  induction ps with
  | nil => intro c c' st st' hc hs idx; exact ⟨hc, hs⟩
  | cons p ps ih =>
    intro c c' st st' hc hs idx
    have h1 := resolvePosting_meq hc p
    simp only [loopSyntax]
    orel_cases h1, resolvePosting c p, resolvePosting c' p
    · rename_i a b
      obtain ⟨rp, c1⟩ := a
      obtain ⟨rp', c1'⟩ := b
      obtain ⟨e1, e2⟩ := h1
      simp only at e1 e2; subst e1
      have h2 := stepPosting_meq date hs idx rp
      simp only []
      orel_cases h2, stepPosting date st idx rp, stepPosting date st' idx rp
      · exact ih e2 h2 (idx + 1)
      all_goals orel_done h2
    all_goals orel_done h1

theorem finishTxn_eq_finishK (prec : String → Option Nat) (date : Date) (st : TxnState String String) :
    finishTxn prec date st = finishK prec date st := by
  unfold finishTxn finishK
  cases st.unfilled with
  | none =>
    simp only []
    cases checkBalance prec date st.postings st.balance <;> rfl
  | some u =>
    simp only []
    cases (st.postings[u]?).map (·.account) <;> rfl

/-- the context and the result of `add_transaction`. -/
def CtxRes (p p' : Ctx × TxnResult String String) : Prop := CtxEq p.1 p'.1 ∧ TxnResEq p.2 p'.2

/-- **`add_transaction`** (evaluation, book-keeping, `check_balance`) on related contexts and balances. -/
theorem addTransactionSyntax_meq {c c' : Ctx} (hc : CtxEq c c') {bal bal' : Balance String String} (hb : bal ≈ᵦ bal')
    (t : Transaction) :
    ORel ErrEq CtxRes (addTransactionSyntax c bal t) (addTransactionSyntax c' bal' t) := by
  have h1 := loopSyntax_meq t.date t.posts hc (TxnStEq.init hb) 0
  simp only [addTransactionSyntax]
  orel_cases h1, loopSyntax t.date c ⟨[], none, [], bal, [], []⟩ 0 t.posts,
    loopSyntax t.date c' ⟨[], none, [], bal', [], []⟩ 0 t.posts
  · rename_i a b
    obtain ⟨c1, st⟩ := a
    obtain ⟨c1', st'⟩ := b
    obtain ⟨e1, e2⟩ := h1
    simp only at e1 e2
    have h2 := finishK_meq c1.prec t.date e2
    simp only [finishTxn_eq_finishK, ← e1.prec]
    orel_cases h2, finishK c1.prec t.date st, finishK c1.prec t.date st'
    · exact ⟨e1, h2⟩
    all_goals orel_done h2
  all_goals orel_done h1

/-! ## `process` -/

/-- **the accumulator of `process`, up to the layout of every hash map in it**: the intern stores, the declared
formats, the balance (and each account's amount), the amount of every evaluated posting; the price events logged
by `check_balance` may name their two sides in either order. -/
structure ProcEq (st st' : ProcState) : Prop where
  ctx : CtxEq st.ctx st'.ctx
  bal : st.bal ≈ᵦ st'.bal
  txns : LRel TxnEq st.txns st'.txns
  events : LRel PEvEq st.events st'.events

@[inherit_doc] scoped infix:50 " ≈ₚ " => ProcEq

theorem ProcEq.symm {st st' : ProcState} (h : st ≈ₚ st') : st' ≈ₚ st :=
  ⟨h.ctx.symm, h.bal.symm, LRel.symm (R := TxnEq) (S := TxnEq) (fun _ _ => TxnEq.symm) h.txns,
    LRel.symm (R := PEvEq) (S := PEvEq) (fun _ _ => PEvEq.symm) h.events⟩

theorem ProcEq.trans {a b c : ProcState} (h1 : a ≈ₚ b) (h2 : b ≈ₚ c) : a ≈ₚ c :=
  ⟨h1.ctx.trans h2.ctx, h1.bal.trans h2.bal, LRel.trans (R := TxnEq) (S := TxnEq) (T := TxnEq) (fun _ _ _ => TxnEq.trans) h1.txns h2.txns,
    LRel.trans (R := PEvEq) (S := PEvEq) (T := PEvEq) (fun _ _ _ => PEvEq.trans) h1.events h2.events⟩

/-- a related state is a well-formed state (all maps have distinct keys). -/
theorem ProcEq.left {st st' : ProcState} (h : st ≈ₚ st') : st ≈ₚ st := h.trans h.symm
theorem ProcEq.right {st st' : ProcState} (h : st ≈ₚ st') : st' ≈ₚ st' := h.symm.trans h

/-- the empty accumulator. -/
theorem ProcEq.init : ({} : ProcState) ≈ₚ {} :=
  ⟨⟨MEq.nil, MEq.nil, MEq.nil⟩, NEq.nil, .nil, .nil⟩

theorem insertAliases_meq {s s' : Store} (h : StoreEq s s') (canonical : String) (as : List String) :
    ORel (· = ·) StoreEq (insertAliases s canonical as) (insertAliases s' canonical as) := by
  induction as generalizing s s' with
  | nil => exact h
  | cons a rest ih =>
    have h1 := h.insertAlias a canonical
    simp only [insertAliases]
    orel_cases h1, s.insertAlias a canonical, s'.insertAlias a canonical
    · exact ih h1
    all_goals orel_done h1

theorem applyCommodityDetails_meq {c c' : Ctx} (h : CtxEq c c') (canonical : String) (ds : List CommodityDetail) :
    ORel ErrEq CtxEq (applyCommodityDetails c canonical ds) (applyCommodityDetails c' canonical ds) := by
  induction ds generalizing c c' with
  | nil => exact h
  | cons d rest ih =>
    cases d with
    | «alias» a =>
      have h1 := h.commodities.insertAlias a canonical
      simp only [applyCommodityDetails]
      orel_cases h1, c.commodities.insertAlias a canonical, c'.commodities.insertAlias a canonical
      · exact ih ⟨h.accounts, h1, h.formatting⟩
      all_goals orel_done h1
    | format value x =>
      simp only [applyCommodityDetails]
      exact ih ⟨h.accounts, h.commodities, h.formatting.insert _ _⟩
    | comment x => simp only [applyCommodityDetails]; exact ih h
    | note x => simp only [applyCommodityDetails]; exact ih h

/-- **one entry of `ProcessAccumulator::process`.** -/
theorem stepEntry_meq {st st' : ProcState} (h : st ≈ₚ st') (e : Entry) :
    ORel ErrEq ProcEq (stepEntry st e) (stepEntry st' e) := by
  cases e with
  | txn t =>
    have h1 := addTransactionSyntax_meq h.ctx h.bal t
    simp only [stepEntry]
    orel_cases h1, addTransactionSyntax st.ctx st.bal t, addTransactionSyntax st'.ctx st'.bal t
    · rename_i a b
      obtain ⟨c1, r⟩ := a
      obtain ⟨c1', r'⟩ := b
      obtain ⟨e1, e2⟩ := h1
      exact ⟨e1, e2.bal, h.txns.append (.cons ⟨e2.date, e2.postings⟩ .nil), h.events.append e2.events⟩
    all_goals orel_done h1
  | account name details =>
    have h1 := h.ctx.accounts.insertCanonical name
    simp only [stepEntry]
    orel_cases h1, st.ctx.accounts.insertCanonical name, st'.ctx.accounts.insertCanonical name
    · rename_i a b
      obtain ⟨canonical, s1⟩ := a
      obtain ⟨canonical', s1'⟩ := b
      obtain ⟨e1, e2⟩ := h1
      simp only at e1 e2; subst e1
      have h2 := insertAliases_meq e2 canonical (details.filterMap fun | .alias a => some a | _ => none)
      simp only []
      orel_cases h2, insertAliases s1 canonical (details.filterMap fun | .alias a => some a | _ => none),
        insertAliases s1' canonical (details.filterMap fun | .alias a => some a | _ => none)
      · exact ⟨⟨h2, h.ctx.commodities, h.ctx.formatting⟩, h.bal, h.txns, h.events⟩
      all_goals orel_done h2
    all_goals orel_done h1
  | commodity name details =>
    have h1 := h.ctx.commodities.insertCanonical name
    simp only [stepEntry]
    orel_cases h1, st.ctx.commodities.insertCanonical name, st'.ctx.commodities.insertCanonical name
    · rename_i a b
      obtain ⟨canonical, s1⟩ := a
      obtain ⟨canonical', s1'⟩ := b
      obtain ⟨e1, e2⟩ := h1
      simp only at e1 e2; subst e1
      have h2 := applyCommodityDetails_meq (c := { st.ctx with commodities := s1 })
        (c' := { st'.ctx with commodities := s1' }) ⟨h.ctx.accounts, e2, h.ctx.formatting⟩ canonical details
      simp only []
      orel_cases h2, applyCommodityDetails { st.ctx with commodities := s1 } canonical details,
        applyCommodityDetails { st'.ctx with commodities := s1' } canonical details
      · exact ⟨h2, h.bal, h.txns, h.events⟩
      all_goals orel_done h2
    all_goals orel_done h1
  | comment s => exact h
  | applyTag k v => exact h
  | endApplyTag => exact h
  | «include» p => exact h

/-- the error of `process`: the index of the offending entry and the book-keeping error. -/
def PErrEq (x x' : Nat × BkErrS) : Prop := x.1 = x'.1 ∧ ErrEq x.2 x'.2

/-- **`process` maps related accumulators to related accumulators and fails with the same error at the same
entry.** -/
theorem processFrom_meq (es : List Entry) : ∀ {st st' : ProcState}, st ≈ₚ st' → ∀ (i : Nat),
    ORel PErrEq ProcEq (processFrom st i es) (processFrom st' i es) := by
  induction es with
  | nil => intro st st' h i; exact h
  | cons e es ih =>
    intro st st' h i
    have h1 := stepEntry_meq h e
    simp only [processFrom]
    orel_cases h1, stepEntry st e, stepEntry st' e
    · exact ih h1 (i + 1)
    · exact False.elim h1
    · exact False.elim h1
    · exact False.elim h1
    · exact False.elim h1
    · exact ⟨rfl, h1⟩
    all_goals orel_done h1

/-- **`process` as a function of the entry list** reaches a well-formed accumulator (every map has distinct
keys), whatever it does. -/
theorem process_wf (es : List Entry) : ORel PErrEq ProcEq (process es) (process es) :=
  processFrom_meq es ProcEq.init 0

/-! ## `process` with an explicit re-layout of every hash map between entries

A Rust `HashMap` may change its iteration order whenever it is modified (growth re-hashes), and the order is
different in every process.  `processScr π` is `process` where after entry `i` the accumulator is replaced by
`π i` of it; `Relayout π` says that `π` only re-orders maps.  The result does not depend on `π`. -/

def processScr (π : Nat → ProcState → ProcState) : ProcState → Nat → List Entry → Outcome (Nat × BkErrS) ProcState
  | st, _, [] => .ok st
  | st, i, e :: es =>
    match stepEntry st e with
    | .ok st' => processScr π (π i st') (i + 1) es
    | .err x => .err (i, x)
    | .panic s => .panic s
    | .fuelOut => .fuelOut

/-- `π` changes nothing but the order of the entries of the maps of a (well-formed) accumulator. -/
def Relayout (π : Nat → ProcState → ProcState) : Prop := ∀ i st, st ≈ₚ st → st ≈ₚ π i st

theorem relayout_id : Relayout (fun _ st => st) := fun _ _ h => h

theorem processScr_id (st : ProcState) (i : Nat) (es : List Entry) :
    processScr (fun _ st => st) st i es = processFrom st i es := by
  induction es generalizing st i with
  | nil => rfl
  | cons e es ih =>
    simp only [processScr, processFrom]
    cases stepEntry st e <;> simp only [ih]

theorem processScr_meq {π₁ π₂ : Nat → ProcState → ProcState} (h1 : Relayout π₁) (h2 : Relayout π₂) (es : List Entry) :
    ∀ {st st' : ProcState}, st ≈ₚ st' → ∀ (i : Nat),
    ORel PErrEq ProcEq (processScr π₁ st i es) (processScr π₂ st' i es) := by
  induction es with
  | nil => intro st st' h i; exact h
  | cons e es ih =>
    intro st st' h i
    have hs := stepEntry_meq h e
    simp only [processScr]
    orel_cases hs, stepEntry st e, stepEntry st' e
    · rename_i a b
      exact ih (((h1 i a hs.left).symm.trans hs).trans (h2 i b hs.right)) (i + 1)
    · exact False.elim hs
    · exact False.elim hs
    · exact False.elim hs
    · exact False.elim hs
    · exact ⟨rfl, hs⟩
    all_goals orel_done hs

/-! ## a non-trivial re-layout: every map reversed -/

theorem LRel.map_right_of_refl {β : Type} {R : β → β → Prop} (f : β → β) (hf : ∀ a, R a a → R a (f a)) :
    ∀ (l : List β), LRel R l l → LRel R l (l.map f)
  | [], _ => .nil
  | a :: l, h => by
    cases h with
    | cons hab htl => exact .cons (hf a hab) (LRel.map_right_of_refl f hf l htl)

theorem MEq.reverse {κ ν : Type} [DecidableEq κ] {m : AMap κ ν} (h : m ≈ₘ m) : m ≈ₘ m.reverse :=
  ⟨h.wf, (List.reverse_perm m).symm⟩

theorem NEq.reverse {b : Balance String String} (h : b ≈ᵦ b) :
    b ≈ᵦ (b.map fun kv => (kv.1, kv.2.reverse)).reverse := by
  have hw : AMap.WF (AMap.mapVals List.reverse b) := AMap.WF_mapVals _ _ h.wf
  have hp : (AMap.mapVals List.reverse b).Perm (b.map fun kv => (kv.1, kv.2.reverse)).reverse :=
    (List.reverse_perm _).symm
  refine ⟨h.wf, (WF_perm hp).1 hw, fun a => ?_⟩
  rw [← get?_perm hp hw a, AMap.get?_mapVals]
  have := h.rel a
  revert this
  cases AMap.get? b a <;> simp only [OptRel, Option.map] <;> intro hx
  · trivial
  · exact MEq.reverse hx

/-- every hash map of the accumulator in the opposite iteration order; price events with their sides exchanged. -/
def relayoutRev (st : ProcState) : ProcState :=
  { ctx := ⟨⟨st.ctx.accounts.recs.reverse⟩, ⟨st.ctx.commodities.recs.reverse⟩, st.ctx.formatting.reverse⟩
    bal := (st.bal.map fun kv => (kv.1, kv.2.reverse)).reverse
    txns := st.txns.map fun t => ⟨t.date, t.postings.map fun p => { p with amount := p.amount.reverse }⟩
    events := st.events.map fun e => if e.x.commodity = e.y.commodity then e else ⟨e.date, e.y, e.x⟩ }

theorem relayoutRev_meq {st : ProcState} (h : st ≈ₚ st) : st ≈ₚ relayoutRev st := by
  refine ⟨⟨MEq.reverse h.ctx.accounts, MEq.reverse h.ctx.commodities, MEq.reverse h.ctx.formatting⟩,
    NEq.reverse h.bal, ?_, ?_⟩
  · refine LRel.map_right_of_refl _ (fun t ht => ⟨rfl, ?_⟩) _ h.txns
    exact LRel.map_right_of_refl (R := PostEq) (fun p => { p with amount := p.amount.reverse })
      (fun p hp => ⟨rfl, MEq.reverse hp.2.1, rfl⟩) _ ht.2
  · refine LRel.map_right_of_refl _ (fun e _ => ?_) _ h.events
    split
    · exact Or.inl rfl
    · rename_i hne; exact Or.inr ⟨rfl, hne⟩

/-- reversing every map after every entry is a re-layout (so `Relayout` has non-trivial instances). -/
theorem relayout_rev : Relayout (fun _ st => relayoutRev st) := fun _ _ h => relayoutRev_meq h

/-- … and so is reversing after the even entries only (the layouts of two runs need not be related). -/
theorem relayout_rev_even : Relayout (fun i st => if i % 2 = 0 then relayoutRev st else st) := by
  intro i st h
  simp only []
  split
  · exact relayoutRev_meq h
  · exact h

end Okane.C13
