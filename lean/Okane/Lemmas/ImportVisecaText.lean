import Okane.Lemmas.ImportVisecaRound
/-!
# Viseca statement importer — from lines to text

`printStatement_linesOf`: the lines `printStatement` writes for canonical entries are exactly what `BufRead::read_line` cuts out of
the concatenated text (`linesOf`): no printed line contains a line feed except as its last character.  With it the round-trip
theorem speaks about the statement *text*: `parseEntries_statementText`.
-/
set_option linter.unusedSimpArgs false
namespace Okane.Import.Viseca
open Okane Okane.Import Okane.Literal Okane.C07

theorem splitAfterLF_line : ∀ (body cur rest : List Char), body.all isDot = true →
    splitAfterLF cur (body ++ '\n' :: rest) = (cur.reverse ++ body ++ ['\n']) :: splitAfterLF [] rest := by
  intro body
  induction body with
  | nil => intro cur rest _; simp [splitAfterLF]
  | cons b bs ih =>
    intro cur rest h
    simp only [List.all_cons, Bool.and_eq_true] at h
    have hb : (b == '\n') = false := by
      have := h.1; simp only [isDot, bne_iff_ne, ne_eq] at this; simpa using this
    rw [List.cons_append, splitAfterLF]
    simp only [hb, Bool.false_eq_true, if_false]
    rw [ih (b :: cur) rest h.2]
    simp

/-- cutting the concatenation of lines `body ++ "\n"` (no line feed inside a body) gives the lines back -/
theorem splitAfterLF_flatten : ∀ (bodies : List (List Char)), (∀ b ∈ bodies, b.all isDot = true) →
    splitAfterLF [] ((bodies.map (· ++ ['\n'])).flatten) = bodies.map (· ++ ['\n']) := by
  intro bodies
  induction bodies with
  | nil => intro _; rfl
  | cons b bs ih =>
    intro h
    simp only [List.map_cons, List.flatten_cons, List.append_assoc, List.singleton_append]
    rw [splitAfterLF_line b [] _ (h b List.mem_cons_self), ih (fun x hx => h x (List.mem_cons_of_mem _ hx))]
    simp

/-! ## no printed line holds a line feed -/

theorem isNumChar_isDot {c : Char} (h : isNumChar c = true) : isDot c = true := by
  have : c ≠ '\n' := by intro hc; subst hc; revert h; decide
  simpa [isDot] using this

theorem isRateChar_isDot {c : Char} (h : isRateChar c = true) : isDot c = true := by
  have : c ≠ '\n' := by intro hc; subst hc; revert h; decide
  simpa [isDot] using this

theorem isUpperAZ_isDot {c : Char} (h : isUpperAZ c = true) : isDot c = true := by
  have : c ≠ '\n' := by intro hc; subst hc; revert h; decide
  simpa [isDot] using this

theorem all_isDot_of {p : Char → Bool} (hp : ∀ c, p c = true → isDot c = true) {s : List Char} (h : s.all p = true) :
    s.all isDot = true := by
  rw [List.all_eq_true] at h ⊢
  exact fun c hc => hp c (h c hc)

theorem printGrouped_isDot (d : Dec) : (printGrouped d).all isDot = true :=
  all_isDot_of (fun _ => isNumChar_isDot) (printGrouped_all d)

theorem printMagnitude_isDot (d : Dec) : (printMagnitude d).all isDot = true :=
  all_isDot_of (fun _ => isRateChar_isDot) (printMagnitude_all d)

theorem printEuroDate_isDot (d : Date) : (printEuroDate d).all isDot = true := by
  obtain ⟨a, b, h1, ha, hb, _⟩ := twoDigits_spec d.d
  obtain ⟨c, e, h2, hc, he, _⟩ := twoDigits_spec d.m
  obtain ⟨f, g, h3, hf, hg, _⟩ := twoDigits_spec (d.y.toNat % 100)
  have hdot : isDot '.' = true := by decide
  simp [printEuroDate, h1, h2, h3, isDigit_isDot, ha, hb, hc, he, hf, hg, hdot]

theorem ccy_isDot {s : String} (h : canonCcy s = true) : s.toList.all isDot = true := by
  obtain ⟨x, y, z, hs, hx, hy, hz⟩ := ccy_of_canon h
  rw [hs]
  simp [isUpperAZ_isDot hx, isUpperAZ_isDot hy, isUpperAZ_isDot hz]

theorem printHead_isDot {primary : String} (e : Entry) (hc : Canon primary e) : (printHead e).all isDot = true := by
  have hsp : isDot ' ' = true := by decide
  have hdash : isDot '-' = true := by decide
  have hspent := hc.spent
  unfold printHead
  simp only [List.all_append, printEuroDate_isDot, hc.payee, printGrouped_isDot, List.all_cons, List.all_nil, hsp,
    Bool.and_true, Bool.true_and]
  cases hs : e.spent with
  | none => cases negMark e <;> simp [hsp, hdash]
  | some s =>
    rw [hs] at hspent
    simp only [List.all_append, List.all_cons, List.all_nil, hsp, ccy_isDot hspent.1, printGrouped_isDot, Bool.and_true, Bool.true_and]
    cases negMark e <;> simp [hsp, hdash]

theorem canon_catLine {primary : String} {e : Entry} (h : canonEntry primary e = true) : e.category.toList.all isDot = true := by
  simp only [canonEntry, Bool.and_eq_true] at h
  exact h.1.1.1.1.1.2

theorem lit_isDot_exchange : "Exchange rate ".toList.all isDot = true ∧ " of ".toList.all isDot = true ∧
    "Credit of processing fee ".toList.all isDot = true ∧ "Processing fee ".toList.all isDot = true ∧ "% ".toList.all isDot = true := by
  decide

theorem printExchange_isDot (x : Viseca.Exchange) (h : canonExchange x = true) : (printExchange x).all isDot = true := by
  simp only [canonExchange, Bool.and_eq_true] at h
  have hsp : isDot ' ' = true := by decide
  unfold printExchange
  simp only [List.all_append, lit_isDot_exchange.1, lit_isDot_exchange.2.1, printMagnitude_isDot, printEuroDate_isDot,
    ccy_isDot h.1.2, printGrouped_isDot, List.all_cons, List.all_nil, hsp, Bool.and_true, Bool.true_and]

theorem printFee_isDot (f : Fee) (h : canonFee f = true) : (printFee f).all isDot = true := by
  simp only [canonFee, Bool.and_eq_true] at h
  have hsp : isDot ' ' = true := by decide
  unfold printFee
  cases f.amount.value.neg <;>
    simp only [List.all_append, lit_isDot_exchange.2.2.1, lit_isDot_exchange.2.2.2.1, lit_isDot_exchange.2.2.2.2, printMagnitude_isDot,
      ccy_isDot h.1.2, printGrouped_isDot, List.all_cons, List.all_nil, hsp, Bool.and_true, Bool.true_and, if_true,
      Bool.false_eq_true, if_false]

/-- the bodies (without line feed) of the lines of an entry -/
def entryBodies (e : Entry) : List (List Char) :=
  [printHead e] ++
  (if hasDetail e then
    [e.category.toList] ++
    (match e.exchange with | some x => [printExchange x] | none => []) ++
    (match e.fee with | some f => [printFee f] | none => [])
   else [])

theorem printEntry_bodies (e : Entry) : printEntry e = (entryBodies e).map (· ++ ['\n']) := by
  unfold printEntry entryBodies
  cases hasDetail e <;> cases e.exchange <;> cases e.fee <;> simp

theorem entryBodies_isDot {primary : String} (e : Entry) (h : canonEntry primary e = true) :
    ∀ b ∈ entryBodies e, b.all isDot = true := by
  have hc := canon_of h
  have hx := hc.exchange
  have hf := hc.fee
  intro b hb
  unfold entryBodies at hb
  cases hd : hasDetail e <;> rw [hd] at hb
  · simp only [Bool.false_eq_true, if_false, List.append_nil, List.mem_singleton] at hb
    rw [hb]; exact printHead_isDot e hc
  · simp only [if_true, List.append_assoc, List.mem_append, List.mem_singleton] at hb
    rcases hb with hb | hb | hb | hb
    · rw [hb]; exact printHead_isDot e hc
    · rw [hb]; exact canon_catLine h
    · cases hxe : e.exchange with
      | none => rw [hxe] at hb; simp at hb
      | some x => rw [hxe] at hb hx; simp only [List.mem_singleton] at hb; rw [hb]; exact printExchange_isDot x hx
    · cases hfe : e.fee with
      | none => rw [hfe] at hb; simp at hb
      | some f => rw [hfe] at hb hf; simp only [List.mem_singleton] at hb; rw [hb]; exact printFee_isDot f hf

/-- the statement text: the printed lines one after the other -/
def statementText (es : List Entry) : List Char := (es.flatMap printEntry).flatten

/-- **the lines of a canonical statement are the lines of its text**: `BufRead::read_line` cuts the text `printStatement` writes
back into exactly the lines it wrote -/
theorem printStatement_linesOf (primary : String) (es : List Entry) (h : canonStatement primary es = true) :
    linesOf (statementText es) = printStatement es := by
  have hb : es.flatMap printEntry = (es.flatMap entryBodies).map (· ++ ['\n']) := by
    induction es with
    | nil => rfl
    | cons e es ih =>
      simp only [canonStatement, List.all_cons, Bool.and_eq_true] at h
      simp only [List.flatMap_cons, List.map_append]
      rw [printEntry_bodies, ih (by simpa [canonStatement] using h.2)]
  unfold linesOf statementText printStatement
  rw [hb, splitAfterLF_flatten]
  intro b hbm
  rw [List.mem_flatMap] at hbm
  obtain ⟨e, he, hbe⟩ := hbm
  have : canonEntry primary e = true := by
    simp only [canonStatement, List.all_eq_true] at h
    exact h e he
  exact entryBodies_isDot e this b hbe

/-- **(c) round trip on the text**: the text of a canonical statement, cut into lines as `BufRead::read_line` does, is read back
as exactly its entries -/
theorem parseEntries_statementText (primary : String) (es : List Entry) (h : canonStatement primary es = true) :
    parseEntries primary (linesOf (statementText es)) = .ok (renumber 0 es) := by
  rw [printStatement_linesOf primary es h]
  exact parseEntries_printStatement primary es h
