import Okane.Props.C04
/-!
# Lifting the core theorems from resolved transactions to `process` over syntax entries
-/
set_option linter.unusedSectionVars false
namespace Okane
open Spec

/-- the syntax-level posting loop is the core loop on *some* resolved postings -/
theorem loopSyntax_core (date : Date) (ps : List Posting) (c c' : Ctx) (st st' : TxnState String String) (idx : Nat)
    (h : loopSyntax date c st idx ps = .ok (c', st')) :
    ∃ rps : List (RPosting String String), rps.length = ps.length ∧ loopPostings date st idx rps = .ok st' ∧ c'.prec = c.prec := by
  induction ps generalizing c st idx with
  | nil =>
    simp only [loopSyntax, Outcome.ok.injEq, Prod.mk.injEq] at h
    obtain ⟨h1, h2⟩ := h
    subst h1; subst h2
    exact ⟨[], rfl, rfl, rfl⟩
  | cons p ps ih =>
    simp only [loopSyntax] at h
    cases hr : resolvePosting c p with
    | ok r =>
      obtain ⟨rp, c1⟩ := r
      rw [hr] at h
      simp only at h
      cases hs : stepPosting date st idx rp with
      | ok st1 =>
        rw [hs] at h
        simp only at h
        obtain ⟨rps, hl, hloop, hprec⟩ := ih c1 st1 (idx + 1) h
        refine ⟨rp :: rps, by simp [hl], by simp [loopPostings, hs, hloop], ?_⟩
        rw [hprec]
        -- resolving a posting never changes the declared formats
        unfold resolvePosting at hr
        simp only at hr
        split at hr
        · split at hr
          · simp only [Outcome.ok.injEq, Prod.mk.injEq] at hr; rw [← hr.2]; rfl
          all_goals simp at hr
        · split at hr
          · split at hr
            · simp only [Outcome.ok.injEq, Prod.mk.injEq] at hr; rw [← hr.2]; rfl
            all_goals simp at hr
          all_goals simp at hr
      | err e => rw [hs] at h; simp at h
      | panic e => rw [hs] at h; simp at h
      | fuelOut => rw [hs] at h; simp at h
    | err e => rw [hr] at h; simp at h
    | panic e => rw [hr] at h; simp at h
    | fuelOut => rw [hr] at h; simp at h

/-- the tail of `add_transaction` after the posting loop (generic copy of `finishTxn`) -/
def finishG {α κ : Type} [DecidableEq α] [DecidableEq κ] (prec : κ → Option Nat) (date : Date) (st : TxnState α κ) :
    Outcome (BkErr κ) (TxnResult α κ) :=
  match st.unfilled with
  | some u =>
    let deduced := st.balance.neg
    let postings := st.postings.modify u (fun p => { p with amount := deduced })
    let account? := (st.postings[u]?).map (·.account)
    match account? with
    | some acct =>
      let (bal', _) := Balance.addAmount st.bal acct deduced
      .ok ⟨⟨date, postings⟩, bal', st.events⟩
    | none => .panic "unfilled index out of range"
  | none =>
    match checkBalance prec date st.postings st.balance with
    | .ok (postings, pe) => .ok ⟨⟨date, postings⟩, st.bal, st.events ++ pe.toList⟩
    | .err e => .err e
    | .panic s => .panic s
    | .fuelOut => .fuelOut

theorem addTransaction_eq_finish {α κ : Type} [DecidableEq α] [DecidableEq κ]
    (prec : κ → Option Nat) (bal : Balance α κ) (t : RTxn α κ) :
    addTransaction prec bal t =
      match loopPostings t.date ⟨[], none, [], bal, [], []⟩ 0 t.posts with
      | .ok st => finishG prec t.date st
      | .err e => .err e
      | .panic s => .panic s
      | .fuelOut => .fuelOut := by
  unfold addTransaction finishG
  rfl

theorem finishTxn_eq (prec : String → Option Nat) (date : Date) (st : TxnState String String) :
    finishTxn prec date st = finishG prec date st := by
  unfold finishTxn finishG
  cases st.unfilled with
  | none =>
    simp only
    cases checkBalance prec date st.postings st.balance with
    | ok r => obtain ⟨a, b⟩ := r; rfl
    | err e => rfl
    | panic e => rfl
    | fuelOut => rfl
  | some u =>
    simp only
    cases st.postings[u]? <;> rfl

/-- a syntax transaction accepted by the model was accepted by the core `addTransaction` on some resolution of
its postings, with the declared precisions in force -/
theorem addTransactionSyntax_core (c c' : Ctx) (bal : Balance String String) (t : Transaction)
    (r : TxnResult String String) (h : addTransactionSyntax c bal t = .ok (c', r)) :
    ∃ rps : List (RPosting String String), rps.length = t.posts.length ∧
      addTransaction c.prec bal ⟨t.date, rps⟩ = .ok r ∧ c'.prec = c.prec := by
  unfold addTransactionSyntax at h
  cases hl : loopSyntax t.date c ⟨[], none, [], bal, [], []⟩ 0 t.posts with
  | ok x =>
    obtain ⟨c1, st⟩ := x
    rw [hl] at h
    simp only at h
    obtain ⟨rps, hlen, hloop, hprec⟩ := loopSyntax_core t.date t.posts c c1 _ st 0 hl
    cases hf : finishTxn c1.prec t.date st with
    | ok r' =>
      rw [hf] at h
      simp only [Outcome.ok.injEq, Prod.mk.injEq] at h
      obtain ⟨h1, h2⟩ := h
      subst h1; subst h2
      refine ⟨rps, hlen, ?_, hprec⟩
      rw [addTransaction_eq_finish, hloop]
      simp only
      rw [← hprec, ← finishTxn_eq]
      exact hf
    | err e => rw [hf] at h; simp at h
    | panic e => rw [hf] at h; simp at h
    | fuelOut => rw [hf] at h; simp at h
  | err e => rw [hl] at h; simp at h
  | panic e => rw [hl] at h; simp at h
  | fuelOut => rw [hl] at h; simp at h

/-- sum over all accepted transactions of the amounts posted to `a` in `c` -/
def ledgerSum (txns : List (OutTxn String String)) (a : String) (c : String) : Rat :=
  (txns.map fun t => acctSum t.postings a c).sum

/-- the accumulator's balance is the sum of everything posted so far -/
def ProcState.RawOK (st : ProcState) : Prop :=
  Balance.Inv st.bal ∧ ∀ a c, Amount.getPart (Balance.get st.bal a) c = ledgerSum st.txns a c

theorem RawOK_init : ({} : ProcState).RawOK :=
  ⟨Balance.Inv_nil, fun a c => by simp [ledgerSum, Balance.get]⟩

theorem RawOK_step (st st' : ProcState) (e : Entry) (h : stepEntry st e = .ok st') (hr : st.RawOK) : st'.RawOK := by
  cases e with
  | txn t =>
    simp only [stepEntry] at h
    cases ha : addTransactionSyntax st.ctx st.bal t with
    | ok x =>
      obtain ⟨c', r⟩ := x
      rw [ha] at h
      simp only [Outcome.ok.injEq] at h
      subst h
      obtain ⟨rps, _, hcore, _⟩ := addTransactionSyntax_core st.ctx c' st.bal t r ha
      obtain ⟨hinv, hsum⟩ := txn_balance st.ctx.prec st.bal ⟨t.date, rps⟩ r hcore hr.1
      refine ⟨hinv, fun a c => ?_⟩
      simp only
      rw [hsum a c, hr.2 a c]
      simp [ledgerSum, List.sum_append]
    | err e => rw [ha] at h; simp at h
    | panic e => rw [ha] at h; simp at h
    | fuelOut => rw [ha] at h; simp at h
  | account name details =>
    simp only [stepEntry] at h
    split at h
    · split at h
      · simp only [Outcome.ok.injEq] at h; subst h; exact hr
      all_goals simp at h
    all_goals simp at h
  | commodity name details =>
    simp only [stepEntry] at h
    split at h
    · split at h
      · simp only [Outcome.ok.injEq] at h; subst h; exact hr
      all_goals simp at h
    all_goals simp at h
  | comment s => simp only [stepEntry, Outcome.ok.injEq] at h; subst h; exact hr
  | applyTag k v => simp only [stepEntry, Outcome.ok.injEq] at h; subst h; exact hr
  | endApplyTag => simp only [stepEntry, Outcome.ok.injEq] at h; subst h; exact hr
  | «include» p => simp only [stepEntry, Outcome.ok.injEq] at h; subst h; exact hr

theorem RawOK_processFrom (es : List Entry) (st st' : ProcState) (i : Nat)
    (h : processFrom st i es = .ok st') (hr : st.RawOK) : st'.RawOK := by
  induction es generalizing st i with
  | nil => simp only [processFrom, Outcome.ok.injEq] at h; subst h; exact hr
  | cons e es ih =>
    simp only [processFrom] at h
    cases hs : stepEntry st e with
    | ok st1 => rw [hs] at h; exact ih st1 (i + 1) h (RawOK_step st st1 e hs hr)
    | err x => rw [hs] at h; simp at h
    | panic x => rw [hs] at h; simp at h
    | fuelOut => rw [hs] at h; simp at h

end Okane
