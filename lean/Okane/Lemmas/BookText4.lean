import Okane.Lemmas.BookText3
import Okane.Props.C05
/-!
# C12 at the level of ledger TEXT

* `C12_text_transparent` — two texts whose parsed entries are a common part `pre` (holding the `alias` declarations)
  followed by entries that differ only by writing declared aliases instead of canonical names (at any subset of the
  occurrences) denote the same ledger: `process` returns the same state or the same error; one is accepted iff the other
  is.  No hypothesis on the parser.
* `C12_text_transparent_at` — the single-token form: replacing the account of ONE posting line (entry `k`, line `j`) by
  the canonical name it is declared an alias of.
* the replacement **as text**: `formatEntries_replace_account` shows that in the layout `format` writes — for any
  display-width function that gives both names the same width, in particular a constant one — the two texts are literally
  `L ++ alias ++ R` and `L ++ canonical ++ R`; `C12_text_token` composes this with the round trip of C05
  (`C05_format_fixed`: what `format` writes parses back to the tree it was written from) and with `C12_transparent_decl`:
  the two TEXTS parse, to the two trees, and denote the same ledger.
  What is *not* proved: the same for a token replaced in an arbitrary hand-written layout (that needs a locality theorem
  for the whole parser: the parse before the token does not depend on the token, the parse after it only on what follows).
* `C12_text_conflict*` — a text that declares a conflicting alias is rejected at that declaration.
-/
set_option linter.unusedSectionVars false
set_option linter.unusedVariables false
set_option linter.unusedSimpArgs false
namespace Okane.BookText
open Okane Okane.Spec Okane.Unparse

/-! ## transparency -/

/-- **C12_text_transparent**: for any two TEXTS `t`, `t'` whose parsed entries are `pre ++ es` and `pre ++ es'`, where `pre`
declares every pair of the alias table and `es'` is `es` with aliases written for canonical names at any subset of the
occurrences: book-keeping gives the same result (state or error), so both texts are accepted or both rejected, and they
denote the same ledger — same transactions, balances, price events, hence the same balance and register reports. -/
theorem C12_text_transparent (σ : AliasTable) (t t' : List Char) (pre es es' : List Entry)
    (hp : Parse.parseEntries t = .ok (pre ++ es)) (hp' : Parse.parseEntries t' = .ok (pre ++ es'))
    (hacc : ∀ a k, (a, k) ∈ σ.accounts → DeclaresAccount pre a k)
    (hcom : ∀ a k, (a, k) ∈ σ.commodities → DeclaresCommodity pre a k ∧ a.isEmpty = false ∧ k.isEmpty = false)
    (hsub : SubstEntries σ es es') :
    process (pre ++ es') = process (pre ++ es) ∧ (okaneAccepts t' ↔ okaneAccepts t) ∧
    ∀ st, Denotes t' (pre ++ es') st ↔ Denotes t (pre ++ es) st := by
  have heq := C12_transparent_decl σ pre es es' hacc hcom hsub
  refine ⟨heq, ?_, ?_⟩
  · constructor
    · rintro ⟨es1, st, h1, h2⟩
      have := parse_unique hp' h1
      subst this
      exact ⟨pre ++ es, st, hp, by rw [← heq]; exact h2⟩
    · rintro ⟨es1, st, h1, h2⟩
      have := parse_unique hp h1
      subst this
      exact ⟨pre ++ es', st, hp', by rw [heq]; exact h2⟩
  · intro st
    constructor
    · rintro ⟨_, h2⟩; exact ⟨hp, by rw [← heq]; exact h2⟩
    · rintro ⟨_, h2⟩; exact ⟨hp', by rw [heq]; exact h2⟩

/-! ## one token -/

/-- the entries with the account of posting line `j` of entry `k` replaced by `name` -/
def substAccountAt (es : List Entry) (k j : Nat) (name : String) : List Entry :=
  es.modify k fun e =>
    match e with
    | .txn tx => .txn { tx with posts := tx.posts.modify j fun p => { p with account := name } }
    | e => e

theorem listRel_modify {α : Type} {r : α → α → Prop} (hr : ∀ a, r a a) (f : α → α) :
    ∀ (l : List α) (k : Nat), (∀ x, l[k]? = some x → r (f x) x) → listRel r (l.modify k f) l
  | [], _, _ => by simp [listRel]
  | a :: l, 0, h => by
    simp only [List.modify_cons, if_true, listRel]
    exact ⟨h a (by simp), listRel_refl hr l⟩
  | a :: l, k + 1, h => by
    simp only [List.modify_cons, listRel]
    refine ⟨hr a, listRel_modify hr f l k ?_⟩
    intro x hx
    exact h x (by simpa using hx)

theorem Entry.rel_refl' {Ra Rc : String → String → Prop} (ha : ∀ x, Ra x x) (hc : ∀ x, Rc x x) (e : Entry) :
    Entry.Rel Ra Rc e e := by
  cases e <;> simp [Entry.Rel]
  exact Transaction.rel_refl ha hc _

/-- replacing a declared alias by its canonical name in one posting line is a substitution in the sense of C12 -/
theorem substEntries_at (σ : AliasTable) (es' : List Entry) (k j : Nat) (canonical : String)
    (h : ∀ tx p, es'[k]? = some (.txn tx) → tx.posts[j]? = some p → (p.account, canonical) ∈ σ.accounts) :
    SubstEntries σ (substAccountAt es' k j canonical) es' := by
  have hra : ∀ x, AliasTable.subst σ.accounts x x := fun _ => Or.inl rfl
  have hrc : ∀ x, AliasTable.subst σ.commodities x x := fun _ => Or.inl rfl
  unfold SubstEntries substAccountAt
  apply listRel_modify (Entry.rel_refl' hra hrc)
  intro e he
  cases e with
  | txn tx =>
    simp only [Entry.Rel, Transaction.Rel, true_and]
    refine ⟨?_, trivial⟩ <;> try rfl
    apply listRel_modify (Posting.rel_refl hra hrc)
    intro p hp
    refine ⟨Or.inr (h tx p he hp), rfl, optRel_refl (fun a => ?_) _, optRel_refl (VExpr.rel_refl hrc) _, rfl⟩
    exact ⟨VExpr.rel_refl hrc _, optRel_refl (Exchange.rel_refl hrc) _, optRel_refl (Exchange.rel_refl hrc) _, rfl, rfl⟩
  | _ => exact Entry.rel_refl' hra hrc _

/-- **C12_text_transparent_at**: the single-token form.  `t'` writes, in posting line `j` of entry `k` (after the common part
`pre`), an account name `a` that `pre` declares an alias of `canonical`; `t` is any text that parses to the same entries
with that one account replaced by `canonical`.  Then the two texts denote the same ledger. -/
theorem C12_text_transparent_at (t t' : List Char) (pre es' : List Entry) (k j : Nat) (a canonical : String)
    (hp' : Parse.parseEntries t' = .ok (pre ++ es'))
    (hp : Parse.parseEntries t = .ok (pre ++ substAccountAt es' k j canonical))
    (hdecl : DeclaresAccount pre a canonical)
    (hline : ∀ tx p, es'[k]? = some (.txn tx) → tx.posts[j]? = some p → p.account = a) :
    process (pre ++ es') = process (pre ++ substAccountAt es' k j canonical) ∧ (okaneAccepts t' ↔ okaneAccepts t) ∧
    ∀ st, Denotes t' (pre ++ es') st ↔ Denotes t (pre ++ substAccountAt es' k j canonical) st := by
  refine C12_text_transparent { accounts := [(a, canonical)] } t t' pre _ es' hp hp' ?_ ?_ ?_
  · intro a' k' hm
    simp only [List.mem_singleton, Prod.mk.injEq] at hm
    obtain ⟨rfl, rfl⟩ := hm
    exact hdecl
  · intro a' k' hm
    simp at hm
  · apply substEntries_at
    intro tx p h1 h2
    rw [hline tx p h1 h2]
    simp

/-! ## the replacement as TEXT, in the layout `format` writes -/

theorem flatMap_modify_split {α β : Type} (g : α → List β) (f : α → α) :
    ∀ (l : List α) (j : Nat) (x : α), l[j]? = some x →
      l.flatMap g = (l.take j).flatMap g ++ (g x ++ (l.drop (j + 1)).flatMap g) ∧
      (l.modify j f).flatMap g = (l.take j).flatMap g ++ (g (f x) ++ (l.drop (j + 1)).flatMap g)
  | [], _, _, h => by simp at h
  | a :: l, 0, x, h => by
    simp only [List.getElem?_cons_zero, Option.some.injEq] at h
    subst h
    simp [List.modify_cons]
  | a :: l, j + 1, x, h => by
    simp only [List.getElem?_cons_succ] at h
    obtain ⟨h1, h2⟩ := flatMap_modify_split g f l j x h
    simp only [List.modify_cons, List.flatMap_cons, List.take_succ_cons, List.drop_succ_cons, List.append_assoc]
    simp only [Nat.add_one_ne_zero, if_false, Nat.add_sub_cancel, List.flatMap_cons, List.append_assoc]
    exact ⟨by rw [h1], by rw [h2]⟩

/-- a posting line is `indent clear ACCOUNT rest`, where `rest` depends on the account only through its display width -/
theorem printPosting_account (w : List Char → Nat) (p : Posting) (name : String)
    (hw : w p.account.toList = w name.toList) :
    ∃ R, printPosting w p = (indent4 ++ printClear p.clear) ++ (p.account.toList ++ R) ∧
      printPosting w { p with account := name } = (indent4 ++ printClear p.clear) ++ (name.toList ++ R) := by
  refine ⟨printPostingTail w (w p.account.toList + (printClear p.clear).length) p ++
    '\n' :: p.metadata.flatMap printMetaLine, ?_, ?_⟩
  · simp [printPosting]
  · simp only [printPosting, ← hw, List.append_assoc]
    rfl

/-- **the substitution is a token replacement in the text `format` writes**: if the display-width function gives the alias
and the canonical name the same width (always the case for a constant width function), the formatted texts of the two
trees are `L ++ alias ++ R` and `L ++ canonical ++ R` for the same `L` and `R`. -/
theorem formatEntries_replace_account (w : List Char → Nat) (es : List Entry) (k j : Nat) (tx : Transaction) (p : Posting)
    (name : String) (hk : es[k]? = some (.txn tx)) (hj : tx.posts[j]? = some p)
    (hw : w p.account.toList = w name.toList) :
    ∃ L R, formatEntries w es = L ++ (p.account.toList ++ R) ∧
      formatEntries w (substAccountAt es k j name) = L ++ (name.toList ++ R) := by
  obtain ⟨R0, hr1, hr2⟩ := printPosting_account w p name hw
  obtain ⟨hp1, hp2⟩ := flatMap_modify_split (printPosting w) (fun p => { p with account := name }) tx.posts j p hj
  obtain ⟨he1, he2⟩ := flatMap_modify_split (fun e => printEntry w e ++ ['\n'])
    (fun e => match e with
      | .txn tx => .txn { tx with posts := tx.posts.modify j fun p => { p with account := name } }
      | e => e) es k _ hk
  refine ⟨(es.take k).flatMap (fun e => printEntry w e ++ ['\n']) ++
      (printTxnHeader tx ++ tx.metadata.flatMap printMetaLine ++
        ((tx.posts.take j).flatMap (printPosting w) ++ (indent4 ++ printClear p.clear))),
    R0 ++ (tx.posts.drop (j + 1)).flatMap (printPosting w) ++ ['\n'] ++
      (es.drop (k + 1)).flatMap (fun e => printEntry w e ++ ['\n']), ?_, ?_⟩
  · unfold formatEntries
    rw [he1]
    simp only [printEntry, printTransaction, hp1, hr1, List.append_assoc]
  · unfold formatEntries substAccountAt
    rw [he2]
    simp only [printEntry, printTransaction, hp2, hr2, List.append_assoc]
    rfl

/-! ## the substituted tree is printable when the original is and the new name is an account name -/

theorem mem_modify {α : Type} (f : α → α) : ∀ (l : List α) (k : Nat) (e : α), e ∈ l.modify k f →
    e ∈ l ∨ ∃ x, l[k]? = some x ∧ e = f x
  | [], _, e, h => by simp at h
  | a :: l, 0, e, h => by
    simp only [List.modify_cons, if_true, List.mem_cons] at h
    rcases h with rfl | h
    · exact .inr ⟨a, by simp, rfl⟩
    · exact .inl (List.mem_cons_of_mem _ h)
  | a :: l, k + 1, e, h => by
    simp only [List.modify_cons, Nat.add_one_ne_zero, if_false, Nat.add_sub_cancel, List.mem_cons] at h
    rcases h with rfl | h
    · exact .inl (by simp)
    · rcases mem_modify f l k e h with h1 | ⟨x, h1, h2⟩
      · exact .inl (List.mem_cons_of_mem _ h1)
      · exact .inr ⟨x, by simpa using h1, h2⟩

theorem flatMap_modify_same {α β : Type} (g : α → List β) (f : α → α) (hg : ∀ x, g (f x) = g x) :
    ∀ (l : List α) (k : Nat), (l.modify k f).flatMap g = l.flatMap g
  | [], _ => by simp
  | a :: l, 0 => by simp [List.modify_cons, hg]
  | a :: l, k + 1 => by
    simp only [List.modify_cons, Nat.add_one_ne_zero, if_false, Nat.add_sub_cancel, List.flatMap_cons]
    rw [flatMap_modify_same g f hg l k]

theorem modify_append_right' {α : Type} (f : α → α) (l : List α) (k : Nat) :
    ∀ pre : List α, (pre ++ l).modify (pre.length + k) f = pre ++ l.modify k f
  | [] => by simp
  | a :: pre => by
    simp only [List.cons_append, List.length_cons, List.modify_cons]
    have : pre.length + 1 + k ≠ 0 := by omega
    simp only [this, if_false]
    rw [show pre.length + 1 + k - 1 = pre.length + k by omega, modify_append_right' f l k pre]

/-- the conditions on the new account name: it is a posting-account name, and (when the line carries no clear mark) does
not begin with one -/
def accountNameOk (p : Posting) (name : String) : Bool :=
  wfAccount name.toList && (p.clear != .uncleared || notClearMarkStart name.toList)

theorem wf_substAccountAt (es : List Entry) (k j : Nat) (name : String)
    (hwf : ∀ e ∈ es, wfEntry e = true ∧ C05.plainEntry e = true)
    (hname : ∀ tx p, es[k]? = some (.txn tx) → tx.posts[j]? = some p → accountNameOk p name = true) :
    ∀ e ∈ substAccountAt es k j name, wfEntry e = true ∧ C05.plainEntry e = true := by
  intro e he
  rcases mem_modify _ es k e he with h | ⟨x, hx, rfl⟩
  · exact hwf e h
  · have hxm : x ∈ es := List.mem_of_getElem? hx
    obtain ⟨w1, w2⟩ := hwf x hxm
    cases x with
    | txn tx =>
      simp only
      constructor
      · simp only [wfEntry, wfTransaction, wfPayee, Bool.and_eq_true, List.all_eq_true] at w1 ⊢
        refine ⟨w1.1, ?_⟩
        intro q hq
        rcases mem_modify _ tx.posts j q hq with h | ⟨p, hp, rfl⟩
        · exact w1.2 q h
        · have hpw := w1.2 p (List.mem_of_getElem? hp)
          have hn := hname tx p hx hp
          simp only [wfPosting, accountNameOk, Bool.and_eq_true] at hpw hn ⊢
          exact ⟨⟨⟨⟨hn.1, hn.2⟩, hpw.1.1.2⟩, hpw.1.2⟩, hpw.2⟩
      · unfold C05.plainEntry at w2 ⊢
        simp only [exprsOfEntry, exprsOfTransaction] at w2 ⊢
        rw [flatMap_modify_same exprsOfPosting (fun p => { p with account := name }) (fun _ => rfl)]
        exact w2
    | _ => exact ⟨w1, w2⟩

/-- **C12_text_token**: the substitution as TEXT.  Take any printable entries `pre ++ es'` (what the parser returns is
printable: `C05_image`), `pre` declaring the account of posting line `j` of entry `k` of `es'` an alias of `canonical`, and
a display-width function giving both names the same width.  Then there are `L`, `R` such that
* `L ++ alias ++ R` is the text `format` writes for `pre ++ es'`, and it parses to `pre ++ es'`;
* `L ++ canonical ++ R` — the same text with that one token replaced — parses to the entries with the account replaced;
* both texts denote the same ledger (same `process` result; accepted together). -/
theorem C12_text_token (w : List Char → Nat) (pre es' : List Entry) (k j : Nat) (tx : Transaction) (p : Posting)
    (canonical : String) (hk : es'[k]? = some (.txn tx)) (hj : tx.posts[j]? = some p)
    (hw : w p.account.toList = w canonical.toList)
    (hdecl : DeclaresAccount pre p.account canonical)
    (hwf : ∀ e ∈ pre ++ es', wfEntry e = true ∧ C05.plainEntry e = true)
    (hname : accountNameOk p canonical = true) :
    ∃ L R,
      formatEntries w (pre ++ es') = L ++ (p.account.toList ++ R) ∧
      Parse.parseEntries (L ++ (p.account.toList ++ R)) = .ok (pre ++ es') ∧
      Parse.parseEntries (L ++ (canonical.toList ++ R)) = .ok (pre ++ substAccountAt es' k j canonical) ∧
      process (pre ++ es') = process (pre ++ substAccountAt es' k j canonical) ∧
      (okaneAccepts (L ++ (p.account.toList ++ R)) ↔ okaneAccepts (L ++ (canonical.toList ++ R))) := by
  have hk' : (pre ++ es')[pre.length + k]? = some (.txn tx) := by
    rw [List.getElem?_append_right (by omega)]; simpa using hk
  obtain ⟨L, R, h1, h2⟩ := formatEntries_replace_account w (pre ++ es') (pre.length + k) j tx p canonical hk' hj hw
  have hsub : substAccountAt (pre ++ es') (pre.length + k) j canonical = pre ++ substAccountAt es' k j canonical := by
    unfold substAccountAt
    rw [modify_append_right']
  rw [hsub] at h2
  have hp1 := (C05.C05_format_fixed w (pre ++ es') (fun e he => (hwf e he).1) (fun e he => (hwf e he).2)).1
  have hwf2 : ∀ e ∈ pre ++ substAccountAt es' k j canonical, wfEntry e = true ∧ C05.plainEntry e = true := by
    intro e he
    rcases List.mem_append.1 he with h | h
    · exact hwf e (List.mem_append_left _ h)
    · refine wf_substAccountAt es' k j canonical (fun e he => hwf e (List.mem_append_right _ he)) ?_ e h
      intro tx' p' h1' h2'
      rw [hk] at h1'
      simp only [Option.some.injEq, Entry.txn.injEq] at h1'
      subst h1'
      rw [hj] at h2'
      simp only [Option.some.injEq] at h2'
      subst h2'
      exact hname
  have hp2 := (C05.C05_format_fixed w _ (fun e he => (hwf2 e he).1) (fun e he => (hwf2 e he).2)).1
  rw [h1] at hp1
  rw [h2] at hp2
  have hline : ∀ tx' p', es'[k]? = some (.txn tx') → tx'.posts[j]? = some p' → p'.account = p.account := by
    intro tx' p' h1' h2'
    rw [hk] at h1'
    simp only [Option.some.injEq, Entry.txn.injEq] at h1'
    subst h1'
    rw [hj] at h2'
    simp only [Option.some.injEq] at h2'
    subst h2'
    rfl
  obtain ⟨g1, g2, _⟩ := C12_text_transparent_at _ _ pre es' k j p.account canonical hp1 hp2 hdecl hline
  exact ⟨L, R, h1, hp1, hp2, g1, g2⟩

/-! ## conflicts -/

/-- a text whose entry `k` fails its step with `e`, the entries before it being accepted, is rejected at entry `k` -/
theorem text_reject_at (t : List Char) (es : List Entry) (hp : Parse.parseEntries t = .ok es) (k : Nat)
    (hk : k < es.length) (stk : ProcState) (hpre : process (es.take k) = .ok stk) (e : BkErrS)
    (hstep : stepEntry stk es[k] = .err e) : process es = .err (k, e) ∧ ¬ okaneAccepts t := by
  have hrun := process_err_at es {} stk 0 k e hk hpre hstep
  rw [Nat.zero_add] at hrun
  refine ⟨hrun, ?_⟩
  rintro ⟨es', st, hp', hproc⟩
  have := parse_unique hp hp'
  subst this
  unfold process at hproc
  rw [hrun] at hproc
  cases hproc

theorem stepEntry_of_processFrom_err {st : ProcState} {e : Entry} {x : BkErrS}
    (h : processFrom st 0 [e] = .err (0, x)) : stepEntry st e = .err x := by
  simp only [processFrom] at h
  cases hs : stepEntry st e with
  | ok st' => rw [hs] at h; simp at h
  | err y => rw [hs] at h; simp only [Outcome.err.injEq, Prod.mk.injEq, true_and] at h; rw [h]
  | panic y => rw [hs] at h; simp at h
  | fuelOut => rw [hs] at h; simp at h

/-- **C12_text_conflict (store form)**: a TEXT whose entry `k` is an `account` declaration whose name is already an alias,
or one of whose aliases is already a canonical name or an alias of another account (in the account store left by the
entries before it), or which declares its own name as alias, is rejected at that declaration with `InvalidAccount`. -/
theorem C12_text_conflict_store (t : List Char) (es : List Entry) (hp : Parse.parseEntries t = .ok es) (k : Nat)
    (hk : k < es.length) (name : String) (ds : List AccountDetail) (hek : es[k] = .account name ds)
    (stk : ProcState) (hpre : process (es.take k) = .ok stk)
    (h : (∃ c, AMap.get? stk.ctx.accounts.recs name = some (some c)) ∨
         (∃ a ∈ accountAliases ds, a ≠ name ∧ (AMap.get? stk.ctx.accounts.recs a = some none ∨
            ∃ f, AMap.get? stk.ctx.accounts.recs a = some (some f) ∧ f ≠ name)) ∨
         name ∈ accountAliases ds) :
    process es = .err (k, .invalidAccount) ∧ ¬ okaneAccepts t := by
  have hstep := stepEntry_of_processFrom_err (C12_conflict_process stk 0 name ds [] h)
  exact text_reject_at t es hp k hk stk hpre _ (by rw [hek]; exact hstep)

/-- **C12_text_conflict**: a TEXT that declares `a` an alias of the account `k'` (some entry before entry `k`, accepted)
and then, at entry `k`, declares `a` an alias of a different account `name`, is rejected at that second declaration. -/
theorem C12_text_conflict (t : List Char) (es : List Entry) (hp : Parse.parseEntries t = .ok es) (k : Nat)
    (hk : k < es.length) (name : String) (ds : List AccountDetail) (hek : es[k] = .account name ds)
    (stk : ProcState) (hpre : process (es.take k) = .ok stk)
    (a k' : String) (ha : a ∈ accountAliases ds) (hdecl : DeclaresAccount (es.take k) a k') (hne : k' ≠ name) :
    process es = .err (k, .invalidAccount) ∧ ¬ okaneAccepts t := by
  have hreg := (declared_after (es.take k) {} stk 0 hpre).1 a k' hdecl
  by_cases han : a = name
  · subst han
    exact C12_text_conflict_store t es hp k hk a ds hek stk hpre (.inl ⟨k', hreg.1⟩)
  · exact C12_text_conflict_store t es hp k hk name ds hek stk hpre (.inr (.inl ⟨a, ha, han, .inr ⟨k', hreg.1, hne⟩⟩))

/-- … declaring as alias a name that an earlier declaration (with at least one alias) made a canonical account -/
theorem C12_text_conflict_canonical (t : List Char) (es : List Entry) (hp : Parse.parseEntries t = .ok es) (k : Nat)
    (hk : k < es.length) (name : String) (ds : List AccountDetail) (hek : es[k] = .account name ds)
    (stk : ProcState) (hpre : process (es.take k) = .ok stk)
    (a b : String) (ha : a ∈ accountAliases ds) (hdecl : DeclaresAccount (es.take k) b a) :
    process es = .err (k, .invalidAccount) ∧ ¬ okaneAccepts t := by
  have hreg := (declared_after (es.take k) {} stk 0 hpre).1 b a hdecl
  by_cases han : a = name
  · subst han
    exact C12_text_conflict_store t es hp k hk a ds hek stk hpre (.inr (.inr ha))
  · exact C12_text_conflict_store t es hp k hk name ds hek stk hpre (.inr (.inl ⟨a, ha, han, .inl hreg.2⟩))

/-- … declaring as alias an account name that an earlier, accepted transaction of the text used (use before declare) -/
theorem C12_text_conflict_used (t : List Char) (es : List Entry) (hp : Parse.parseEntries t = .ok es) (k : Nat)
    (hk : k < es.length) (name : String) (ds : List AccountDetail) (hek : es[k] = .account name ds)
    (stk : ProcState) (hpre : process (es.take k) = .ok stk)
    (i : Nat) (hi : i < k) (tx : Transaction) (hei : es[i]? = some (.txn tx)) (p : Posting) (hpm : p ∈ tx.posts)
    (sti : ProcState) (hprei : process (es.take i) = .ok sti) (hnew : sti.ctx.accounts.resolve p.account = none)
    (ha : p.account ∈ accountAliases ds) :
    process es = .err (k, .invalidAccount) ∧ ¬ okaneAccepts t := by
  -- the run up to `k` passes through the step of entry `i`
  have hik : i < (es.take k).length := by simp; omega
  obtain ⟨sti', sti'', g1, g2, _, g4⟩ := process_at (es.take k) stk i hik hpre
  have hti : (es.take k).take i = es.take i := by rw [List.take_take]; congr 1; omega
  rw [hti, hprei] at g1
  simp only [Outcome.ok.injEq] at g1
  subst g1
  have hei' : (es.take k)[i] = .txn tx := by
    have : (es.take k)[i]? = some (.txn tx) := by rw [List.getElem?_take]; simp [hi, hei]
    exact (List.getElem?_eq_some_iff.1 this).2
  rw [hei'] at g2
  have hcanon := C12_use_makes_canonical sti sti'' tx g2 p hpm hnew
  have hle := (processFrom_le _ sti'' stk (i + 1) g4).1
  have hc := hle _ _ hcanon
  by_cases han : p.account = name
  · exact C12_text_conflict_store t es hp k hk name ds hek stk hpre (.inr (.inr (han ▸ ha)))
  · exact C12_text_conflict_store t es hp k hk name ds hek stk hpre (.inr (.inl ⟨p.account, ha, han, .inl hc⟩))

/-- the same for commodities: a `commodity` declaration whose name is already an alias -/
theorem C12_text_conflict_commodity (t : List Char) (es : List Entry) (hp : Parse.parseEntries t = .ok es) (k : Nat)
    (hk : k < es.length) (name : String) (ds : List CommodityDetail) (hek : es[k] = .commodity name ds)
    (stk : ProcState) (hpre : process (es.take k) = .ok stk) (k' : String)
    (hdecl : DeclaresCommodity (es.take k) name k') :
    process es = .err (k, .invalidCommodity) ∧ ¬ okaneAccepts t := by
  have hreg := (declared_after (es.take k) {} stk 0 hpre).2 name k' hdecl
  have hstep := stepEntry_of_processFrom_err (C12_conflict_commodity stk 0 name k' ds [] hreg.1)
  exact text_reject_at t es hp k hk stk hpre _ (by rw [hek]; exact hstep)

end Okane.BookText
