import Okane.Lemmas.Decimal96Basic
/-!
# `round_dp_with_strategy`, `rescale`, comparison

Integer-level laws of the model functions (`roundDp`, `rescale`, `cmpImpl`), then their `Rat` readings.
-/
namespace Okane.Dec96

/-! ## `round_dp_with_strategy` -/

/-- rounding never increases the scale: the result has scale `min d.scale dp`. -/
theorem roundDp_scale (d : D96) (dp : Nat) (st : Strategy) : (roundDp d dp st).scale = min d.scale dp := by
  unfold roundDp
  split
  · omega
  · split
    · simp; omega
    · simp; omega

theorem roundDp_of_le (d : D96) (dp : Nat) (st : Strategy) (h : d.scale ≤ dp) : roundDp d dp st = d := by
  unfold roundDp; simp [h]

/-- rounding is idempotent (for every strategy). -/
theorem roundDp_idem (d : D96) (dp : Nat) (st : Strategy) : roundDp (roundDp d dp st) dp st = roundDp d dp st := by
  apply roundDp_of_le
  rw [roundDp_scale]; omega

theorem pow_split (s dp : Nat) (h : dp < s) : 10 ^ (s - dp) = 10 * 10 ^ (s - dp - 1) := by
  have : s - dp = (s - dp - 1) + 1 := by omega
  rw [this, Nat.pow_succ]; simp; omega

/-- the rounding decision of `round_dp_with_strategy`, by strategy (`frac` is the dropped part, `cap` half a unit). -/
def roundUp (neg : Bool) (value frac cap : Nat) : Strategy → Bool
  | .midpointNearestEven => decide (frac > cap) || (frac == cap && value % 2 == 1)
  | .midpointTowardZero => decide (frac > cap)
  | .midpointAwayFromZero => decide (frac ≥ cap)
  | .awayFromZero => frac != 0
  | .toPositiveInfinity => !neg && frac != 0
  | .toNegativeInfinity => neg && frac != 0
  | .toZero => false

theorem roundDp_eq (d : D96) (dp : Nat) (st : Strategy) (h : dp < d.scale) (hm : d.mant ≠ 0) :
    roundDp d dp st = fromParts d.neg
      (if roundUp d.neg (d.mant / 10 ^ (d.scale - dp)) (d.mant % 10 ^ (d.scale - dp)) (5 * 10 ^ (d.scale - dp - 1)) st
        then d.mant / 10 ^ (d.scale - dp) + 1 else d.mant / 10 ^ (d.scale - dp)) dp := by
  unfold roundDp
  have h1 : ¬ d.scale ≤ dp := by omega
  simp only [h1, if_false, hm]
  have e : d.mant - d.mant / 10 ^ (d.scale - dp) * 10 ^ (d.scale - dp) = d.mant % 10 ^ (d.scale - dp) := by
    have hdm := Nat.div_add_mod d.mant (10 ^ (d.scale - dp))
    have : d.mant / 10 ^ (d.scale - dp) * 10 ^ (d.scale - dp) = 10 ^ (d.scale - dp) * (d.mant / 10 ^ (d.scale - dp)) :=
      Nat.mul_comm _ _
    omega
  rw [e]
  cases st <;> rfl

/-- the mantissa of the rounded value: `m / p` or `m / p + 1` with `p = 10^(s - dp)`. -/
theorem roundDp_mant (d : D96) (dp : Nat) (st : Strategy) (h : dp < d.scale) :
    (roundDp d dp st).mant = d.mant / 10 ^ (d.scale - dp) ∨ (roundDp d dp st).mant = d.mant / 10 ^ (d.scale - dp) + 1 := by
  by_cases hm : d.mant = 0
  · left; unfold roundDp
    have h1 : ¬ d.scale ≤ dp := by omega
    simp [h1, hm]
  · rw [roundDp_eq d dp st h hm, fromParts_mant]
    split
    · right; rfl
    · left; rfl

theorem roundDp_wf (d : D96) (dp : Nat) (st : Strategy) (hw : d.wf) : (roundDp d dp st).wf := by
  by_cases h : d.scale ≤ dp
  · rw [roundDp_of_le d dp st h]; exact hw
  · refine ⟨?_, ?_⟩
    · have hp : 10 ≤ 10 ^ (d.scale - dp) := by
        rw [pow_split d.scale dp (by omega)]
        have := natpow10_pos (d.scale - dp - 1)
        omega
      have hq : d.mant / 10 ^ (d.scale - dp) ≤ d.mant / 10 := Nat.div_le_div_left hp (by decide)
      have := hw.1
      rcases roundDp_mant d dp st (by omega) with e | e <;> rw [e] <;> omega
    · rw [roundDp_scale]; have := hw.2; omega

/-- the sign flag survives rounding unless the value rounds to zero (then it is cleared) — except that a zero INPUT keeps
its flag. -/
theorem roundDp_neg (d : D96) (dp : Nat) (st : Strategy) (h : (roundDp d dp st).mant ≠ 0) :
    (roundDp d dp st).neg = d.neg := by
  by_cases hs : d.scale ≤ dp
  · rw [roundDp_of_le d dp st hs]
  · by_cases hm : d.mant = 0
    · unfold roundDp; simp [hs, hm]
    · rw [roundDp_eq d dp st (by omega) hm] at h ⊢
      exact fromParts_neg_of_pos _ _ _ h

/-- **half a unit.** For the three midpoint strategies the rounded mantissa `r` satisfies `2·|r·p − m| ≤ p`, `p = 10^(s−dp)`:
the value moves by at most half a unit of the last place kept. -/
theorem roundDp_midpoint_bound (d : D96) (dp : Nat) (st : Strategy) (h : dp < d.scale)
    (hst : st = .midpointNearestEven ∨ st = .midpointAwayFromZero ∨ st = .midpointTowardZero) :
    2 * ((roundDp d dp st).mant * 10 ^ (d.scale - dp)) ≤ 2 * d.mant + 10 ^ (d.scale - dp) ∧
    2 * d.mant ≤ 2 * ((roundDp d dp st).mant * 10 ^ (d.scale - dp)) + 10 ^ (d.scale - dp) := by
  by_cases hm : d.mant = 0
  · unfold roundDp
    have h1 : ¬ d.scale ≤ dp := by omega
    simp [h1, hm]
  · rw [roundDp_eq d dp st h hm, fromParts_mant]
    have hsplit := pow_split d.scale dp h
    have hc := natpow10_pos (d.scale - dp - 1)
    generalize 10 ^ (d.scale - dp - 1) = c at hsplit hc ⊢
    generalize 10 ^ (d.scale - dp) = p at hsplit ⊢
    have hdm := Nat.div_add_mod d.mant p
    have hml : d.mant % p < p := Nat.mod_lt _ (by omega)
    generalize d.mant % p = f at hdm hml ⊢
    generalize hq : d.mant / p = q at hdm ⊢
    have hqp : p * q = q * p := Nat.mul_comm _ _
    rcases hst with rfl | rfl | rfl <;> unfold roundUp <;> simp only <;> split <;> rename_i hup <;>
      (try simp at hup) <;> (try simp only [Nat.add_mul, Nat.one_mul]) <;> omega

/-- **ties go to even** (`MidpointNearestEven`, the only strategy okane passes): when the dropped part is exactly half a
unit, the mantissa kept is even. -/
theorem roundDp_even_tie (d : D96) (dp : Nat) (h : dp < d.scale) (hm : d.mant ≠ 0)
    (htie : 2 * (d.mant % 10 ^ (d.scale - dp)) = 10 ^ (d.scale - dp)) :
    (roundDp d dp .midpointNearestEven).mant % 2 = 0 := by
  rw [roundDp_eq d dp _ h hm, fromParts_mant]
  have hsplit := pow_split d.scale dp h
  generalize 10 ^ (d.scale - dp - 1) = c at hsplit ⊢
  generalize 10 ^ (d.scale - dp) = p at hsplit htie ⊢
  have hf : d.mant % p = 5 * c := by omega
  rw [hf]
  unfold roundUp
  by_cases hodd : d.mant / p % 2 = 1
  · simp [hodd]; omega
  · simp [hodd]; omega

/-- an exact value (nothing dropped) is not changed by any strategy. -/
theorem roundDp_exact (d : D96) (dp : Nat) (st : Strategy) (h : dp < d.scale) (hm : d.mant ≠ 0)
    (hex : d.mant % 10 ^ (d.scale - dp) = 0) :
    (roundDp d dp st).mant = d.mant / 10 ^ (d.scale - dp) := by
  rw [roundDp_eq d dp st h hm, fromParts_mant, hex]
  have hc := natpow10_pos (d.scale - dp - 1)
  generalize 10 ^ (d.scale - dp - 1) = c at hc ⊢
  have hc5 : ¬ (0 > 5 * c) := by omega
  have hc6 : ¬ (0 ≥ 5 * c) := by omega
  have hc7 : (0 == 5 * c) = false := by simp; omega
  cases st <;> simp [roundUp, hc5, hc6, hc7]

/-! ## `rescale` -/

theorem scaleUp_spec : ∀ (diff m : Nat), m ≠ 0 →
    ∃ j, j ≤ diff ∧ scaleUp diff m = (m * 10 ^ j, diff - j) ∧ (m * 10 ^ j < two96 ∨ j = 0) ∧
      (j < diff → ¬ m * 10 ^ (j + 1) < two96)
  | 0, m, _ => ⟨0, Nat.le_refl _, by simp [scaleUp], Or.inr rfl, fun h => absurd h (by omega)⟩
  | diff + 1, m, hm => by
    unfold scaleUp
    by_cases h : m * 10 < two96
    · simp only [h, if_true]
      obtain ⟨j, hj, he, hfit, hmax⟩ := scaleUp_spec diff (m * 10) (by omega)
      refine ⟨j + 1, by omega, ?_, ?_, ?_⟩
      · rw [he, Nat.pow_succ]
        have : m * 10 * 10 ^ j = m * (10 ^ j * 10) := by rw [Nat.mul_assoc, Nat.mul_comm 10]
        rw [this]; simp
      · left
        rcases hfit with hfit | rfl
        · rw [Nat.pow_succ]
          have : m * (10 ^ j * 10) = m * 10 * 10 ^ j := by rw [Nat.mul_assoc, Nat.mul_comm 10]
          rw [this]; exact hfit
        · simpa using h
      · intro hlt
        have := hmax (by omega)
        rw [Nat.pow_succ] at this ⊢
        have e : m * (10 ^ (j + 1) * 10) = m * 10 * (10 ^ j * 10) := by
          rw [Nat.pow_succ]; simp [Nat.mul_assoc, Nat.mul_comm, Nat.mul_left_comm]
        rw [e]; exact this
    · simp only [h, if_false]
      exact ⟨0, by omega, by simp, Or.inr rfl, fun _ => by simpa using h⟩

/-- rescaling UP inside the range (`n ≤ 28`, the mantissa times `10^(n − scale)` below `2^96`) is exact and reaches the
requested scale. -/
theorem rescale_up_exact (d : D96) (n : Nat) (h : d.scale ≤ n) (hn : n ≤ 28) (hfit : d.mant * 10 ^ (n - d.scale) < 2 ^ 96) :
    rescale d n = ⟨d.neg, d.mant * 10 ^ (n - d.scale), n⟩ := by
  unfold rescale
  by_cases he : d.scale = n
  · simp only [he, if_true]
    have : n - n = 0 := by omega
    rw [this]
    cases d; simp at he ⊢; exact he
  · simp only [he, if_false]
    by_cases h0 : d.mant = 0
    · simp [h0]; omega
    · have hlt : ¬ n < d.scale := by omega
      simp only [h0, hlt, if_false]
      obtain ⟨j, hj, hs, hf, hmax⟩ := scaleUp_spec (n - d.scale) d.mant h0
      have hjj : j = n - d.scale := by
        by_cases hjlt : j < n - d.scale
        · exfalso
          have h1 := hmax hjlt
          have h2 : d.mant * 10 ^ (j + 1) ≤ d.mant * 10 ^ (n - d.scale) :=
            Nat.mul_le_mul_left _ (Nat.pow_le_pow_right (by decide) (by omega))
          unfold two96 at h1; omega
        · omega
      rw [hs, hjj]
      simp

/-- rescaling DOWN: scale `n`, mantissa within half a unit (the first dropped digit decides, half away from zero). -/
theorem rescale_down (d : D96) (n : Nat) (h : n < d.scale) (hm : d.mant ≠ 0) :
    (rescale d n).scale = n ∧ (rescale d n).neg = d.neg ∧
    2 * ((rescale d n).mant * 10 ^ (d.scale - n)) ≤ 2 * d.mant + 10 ^ (d.scale - n) ∧
    2 * d.mant < 2 * ((rescale d n).mant * 10 ^ (d.scale - n)) + 10 ^ (d.scale - n) := by
  unfold rescale
  have h1 : ¬ d.scale = n := by omega
  simp only [h1, hm, h, if_false, if_true]
  refine ⟨trivial, trivial, ?_⟩
  have hsplit := pow_split d.scale n h
  have hc := natpow10_pos (d.scale - n - 1)
  generalize 10 ^ (d.scale - n - 1) = c at hsplit hc ⊢
  rw [hsplit]
  -- m = (10c) q + f ; last = (m / c) % 10
  have hdd : d.mant / c % 10 = d.mant % (10 * c) / c := by
    rw [Nat.mul_comm 10 c, Nat.mod_mul_right_div_self]
  rw [hdd]
  have hdm := Nat.div_add_mod d.mant (10 * c)
  have hml : d.mant % (10 * c) < 10 * c := Nat.mod_lt _ (by omega)
  generalize d.mant % (10 * c) = f at hdm hml ⊢
  generalize d.mant / (10 * c) = q at hdm ⊢
  have hfd := Nat.div_add_mod f c
  have hfl : f % c < c := Nat.mod_lt _ hc
  generalize f / c = g at hfd ⊢
  generalize f % c = e at hfd hfl
  have hcg : c * g = g * c := Nat.mul_comm _ _
  have hq : 10 * c * q = q * (10 * c) := Nat.mul_comm _ _
  split
  · rename_i hg
    have : 5 * c ≤ g * c := Nat.mul_le_mul_right c hg
    simp only [Nat.add_mul, Nat.one_mul]
    constructor <;> omega
  · rename_i hg
    have : g * c ≤ 4 * c := Nat.mul_le_mul_right c (by omega)
    constructor <;> omega

theorem rescale_wf (d : D96) (n : Nat) (hw : d.wf) (hn : n ≤ 28) : (rescale d n).wf := by
  unfold rescale
  split
  · exact hw
  · split
    · exact ⟨by simp, by simp; omega⟩
    · split
      · rename_i h1 h0 hlt
        refine ⟨?_, hn⟩
        simp only
        have hp : 10 ≤ 10 ^ (d.scale - n) := by
          rw [pow_split d.scale n hlt]
          have := natpow10_pos (d.scale - n - 1)
          omega
        have hq : d.mant / 10 ^ (d.scale - n) ≤ d.mant / 10 := Nat.div_le_div_left hp (by decide)
        have := hw.1
        split <;> omega
      · rename_i h1 h0 hlt
        obtain ⟨j, hj, hs, hf, _⟩ := scaleUp_spec (n - d.scale) d.mant h0
        rw [hs]
        refine ⟨?_, by simp; omega⟩
        simp only
        rcases hf with hf | rfl
        · exact hf
        · simpa using hw.1

/-! ## comparison = comparison of values -/

/-- the order of the signed mantissas after alignment to a common scale. -/
def cmpAligned (a b : D96) : Ordering :=
  compare (a.int * 10 ^ (max a.scale b.scale - a.scale)) (b.int * 10 ^ (max a.scale b.scale - b.scale))

theorem compare_nat_int (x y : Nat) : compare (x : Int) (y : Int) = compare x y := by
  rcases Nat.lt_trichotomy x y with h | h | h
  · rw [Nat.compare_eq_lt.mpr h, Int.compare_eq_lt.mpr (by omega)]
  · subst h; simp
  · rw [Nat.compare_eq_gt.mpr h, Int.compare_eq_gt.mpr (by omega)]

theorem cmpInternal_spec (m1 s1 m2 s2 : Nat) (h1 : m1 < 2 ^ 96) (h2 : m2 < 2 ^ 96) :
    cmpInternal m1 s1 m2 s2 = compare (m1 * 10 ^ (max s1 s2 - s1)) (m2 * 10 ^ (max s1 s2 - s2)) := by
  unfold cmpInternal
  split
  · rename_i h; subst h; simp
  · split
    · rename_i hne hlt
      have e1 : max s1 s2 - s1 = 0 := by omega
      have e2 : max s1 s2 - s2 = s1 - s2 := by omega
      rw [e1, e2]; simp only [Nat.pow_zero, Nat.mul_one]
      split
      · rename_i hov
        unfold two96 at hov
        symm; apply Nat.compare_eq_lt.mpr; omega
      · rfl
    · rename_i hne hlt
      have e1 : max s1 s2 - s1 = s2 - s1 := by omega
      have e2 : max s1 s2 - s2 = 0 := by omega
      rw [e1, e2]; simp only [Nat.pow_zero, Nat.mul_one]
      split
      · rename_i hov
        unfold two96 at hov
        symm; apply Nat.compare_eq_gt.mpr; omega
      · rfl

theorem compare_neg_swap (x y : Nat) : compare (-(x : Int)) (-(y : Int)) = compare y x := by
  rcases Nat.lt_trichotomy x y with h | h | h
  · rw [Nat.compare_eq_gt.mpr h, Int.compare_eq_gt.mpr (by omega)]
  · subst h; simp
  · rw [Nat.compare_eq_lt.mpr h, Int.compare_eq_lt.mpr (by omega)]

/-- **`Ord`/`PartialOrd` for `Decimal` compares values**: the crate's `cmp_impl` (zero shortcuts, sign shortcuts, rescaling
with overflow detection) is the comparison of the signed mantissas aligned to the larger scale. Negative zero equals zero. -/
theorem cmpImpl_eq_cmpAligned (a b : D96) (ha : a.wf) (hb : b.wf) : cmpImpl a b = cmpAligned a b := by
  unfold cmpImpl cmpAligned
  have pa := natpow10_pos (max a.scale b.scale - a.scale)
  have pb := natpow10_pos (max a.scale b.scale - b.scale)
  by_cases hb0 : b.mant = 0
  · have eb : b.int = 0 := (int_eq_zero_iff b).mpr hb0
    simp only [hb0, if_true, eb, Int.zero_mul]
    by_cases ha0 : a.mant = 0
    · have ea : a.int = 0 := (int_eq_zero_iff a).mpr ha0
      simp [ha0, ea]
    · simp only [ha0, if_false]
      have hpos : 0 < a.mant * 10 ^ (max a.scale b.scale - a.scale) := Nat.mul_pos (by omega) pa
      rw [int_scaled]
      generalize a.mant * 10 ^ (max a.scale b.scale - a.scale) = x at hpos
      cases a.neg
      · simp only [sgn_false, Int.one_mul, Bool.false_eq_true, if_false]
        symm; apply Int.compare_eq_gt.mpr; omega
      · simp only [sgn_true, if_true]
        symm; apply Int.compare_eq_lt.mpr; omega
  · simp only [hb0, if_false]
    have hposb : 0 < b.mant * 10 ^ (max a.scale b.scale - b.scale) := Nat.mul_pos (by omega) pb
    by_cases ha0 : a.mant = 0
    · have ea : a.int = 0 := (int_eq_zero_iff a).mpr ha0
      simp only [ha0, if_true, ea, Int.zero_mul]
      rw [int_scaled]
      generalize b.mant * 10 ^ (max a.scale b.scale - b.scale) = y at hposb
      cases b.neg
      · simp only [sgn_false, Int.one_mul, Bool.false_eq_true, if_false]
        symm; apply Int.compare_eq_lt.mpr; omega
      · simp only [sgn_true, if_true]
        symm; apply Int.compare_eq_gt.mpr; omega
    · simp only [ha0, if_false]
      have hposa : 0 < a.mant * 10 ^ (max a.scale b.scale - a.scale) := Nat.mul_pos (by omega) pa
      rw [int_scaled a, int_scaled b]
      have hc1 := cmpInternal_spec a.mant a.scale b.mant b.scale ha.1 hb.1
      have hc2 := cmpInternal_spec b.mant b.scale a.mant a.scale hb.1 ha.1
      have emax : max b.scale a.scale = max a.scale b.scale := Nat.max_comm _ _
      rw [emax] at hc2
      generalize a.mant * 10 ^ (max a.scale b.scale - a.scale) = x at hposa hc1 hc2
      generalize b.mant * 10 ^ (max a.scale b.scale - b.scale) = y at hposb hc1 hc2
      cases hna : a.neg <;> cases hnb : b.neg <;> simp only [sgn_true, sgn_false, Int.one_mul, bne_self_eq_false,
        Bool.false_eq_true, if_false, if_true, Bool.true_bne, Bool.false_bne, Bool.not_false]
      · rw [hc1, compare_nat_int]
      · symm; apply Int.compare_eq_gt.mpr; omega
      · symm; apply Int.compare_eq_lt.mpr; omega
      · rw [hc2]
        have : (-1 : Int) * (x : Int) = -(x : Int) := by omega
        have h2 : (-1 : Int) * (y : Int) = -(y : Int) := by omega
        rw [this, h2, compare_neg_swap]

end Okane.Dec96
