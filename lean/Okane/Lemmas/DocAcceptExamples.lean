import Okane.Lemmas.DocAcceptFindings
/-!
# Acceptance of the documented grammar — non-vacuity

Concrete derivations (in `Dialect.accepted`) to which the acceptance theorems apply, and the value the parser model
computes on the same text (kernel evaluation), so that hypotheses and conclusions are seen to be about real inputs:
* `ex_expr`    — `(1 + 2 * -3 EUR)` for `valueExpr_accept`;
* `ex_posting` — `* A:b c  -1,234.50 USD {2 EUR} (n) @@ 3 EUR = 0 ; c⏎  ; k: v⏎` for `posting_accept`;
* `ex_ledger`  — a file with a comment, a transaction (effective date, clear mark, code, payee, tag words, two postings),
  an account declaration with a note, blank lines, and a last transaction **ended by the end of the file**, for
  `DocAccept_ledger`.
-/
set_option linter.unusedSimpArgs false
set_option linter.unusedVariables false
set_option maxRecDepth 20000
namespace Okane.DocAccept
open Okane Okane.Spec.Doc Okane.Comb

local notation "𝔸" => Dialect.accepted

/-- one blank -/
theorem sp1 (r : List Char) : G.star sp (' ' :: r) r := .cons ⟨' ', rfl, rfl⟩ (.nil r)
theorem psp1 (r : List Char) : G.plus sp (' ' :: r) r := ⟨r, ⟨' ', rfl, rfl⟩, .nil r⟩
theorem psp2 (r : List Char) : G.plus sp (' ' :: ' ' :: r) r := ⟨' ' :: r, ⟨' ', rfl, rfl⟩, sp1 r⟩

/-- an amount: digits, one blank, a commodity -/
theorem amount_com (ds cs r : List Char) (hne : ds ≠ []) (h : ∀ c ∈ ds, c.isDigit = true)
    (hok : Spec.Representable ds = true) (hcne : cs ≠ []) (hcs : ∀ c ∈ cs, isCommodityChar c = true) :
    amountExpr 𝔸 (ds ++ ' ' :: (cs ++ r)) r :=
  ⟨' ' :: (cs ++ r), ⟨commaDecimal_digits ds _ hne h, ds, rfl, hok⟩, cs ++ r, sp1 _, Or.inl (plus_chr_of cs r hcne hcs)⟩

/-! ## an expression -/

theorem ex_expr : ValueExpr 𝔸 "(1 + 2 * -3 EUR)\n".toList ['\n'] := by
  refine .paren (.mk (.nil _) (i1 := "1 + 2 * -3 EUR)\n".toList) (i2 := ")\n".toList) ?_ (.nil _))
  refine .mk (m := " + 2 * -3 EUR)\n".toList)
    (.mk (.pos (amount_digits ['1'] _ (by simp) (by decide) (by decide))) (.nil _)) ?_
  refine .cons '+' (i1 := " 2 * -3 EUR)\n".toList) (sp1 _) (Or.inl rfl) (i2 := "2 * -3 EUR)\n".toList) (sp1 _)
    (i3 := ")\n".toList) ?_ (.nil _)
  refine .mk (m := " * -3 EUR)\n".toList) (.pos (amount_digits ['2'] _ (by simp) (by decide) (by decide))) ?_
  refine .cons '*' (i1 := " -3 EUR)\n".toList) (sp1 _) (Or.inl rfl) (i2 := "-3 EUR)\n".toList) (sp1 _)
    (i3 := ")\n".toList) ?_ (.nil _)
  exact .neg (.amount (amount_com ['3'] "EUR".toList ")\n".toList (by simp) (by decide) (by decide) (by simp) (by decide)))

/-- the hypotheses of `valueExpr_accept` are satisfiable, and its conclusion is what the model computes -/
example : ∃ r', After ['\n'] r' ∧ ∃ v, Parse.valueExpr "(1 + 2 * -3 EUR)\n".toList = .ok v r' :=
  valueExpr_accept ex_expr (by decide)

example : Parse.valueExpr "(1 + 2 * -3 EUR)\n".toList =
    .ok (.paren (.bin .add (.val (.amt ⟨false, 1, 0, none⟩ ""))
      (.bin .mul (.val (.amt ⟨false, 2, 0, none⟩ "")) (.neg (.val (.amt ⟨false, 3, 0, none⟩ "EUR")))))) ['\n'] := by
  decide +kernel

/-! ## a posting -/

/-- `-1,234.50` -/
theorem ex_number (r : List Char) : (commaDecimal.sat (𝔸).numOk) ('-' :: '1' :: ',' :: '2' :: '3' :: '4' :: '.' :: '5' :: '0' :: r) r :=
  ⟨⟨_, Or.inl rfl, '.' :: '5' :: '0' :: r,
      Or.inr ⟨',' :: '2' :: '3' :: '4' :: '.' :: '5' :: '0' :: r, ⟨_, ⟨'1', rfl, rfl⟩, _, Or.inr rfl, Or.inr rfl⟩,
        .cons ⟨_, rfl, _, ⟨'2', rfl, rfl⟩, _, ⟨'3', rfl, rfl⟩, ⟨'4', rfl, rfl⟩⟩ (.nil _)⟩,
      Or.inl ⟨_, rfl, .cons ⟨'5', rfl, rfl⟩ (.cons ⟨'0', rfl, rfl⟩ (.nil r))⟩⟩,
    "-1,234.50".toList, rfl, by decide⟩

def exPostingText : List Char := "* A:b c  -1,234.50 USD {2 EUR} (n) @@ 3 EUR = 0 ; c\n  ; k: v\n".toList

/-- the pieces of `* A:b c  -1,234.50 USD {2 EUR} (n) @@ 3 EUR = 0 ; c⏎  ; k: v⏎` -/
theorem ex_posting : ∃ i2 i3 m, G.opt (clearState ⬝ G.star sp) exPostingText i2 ∧
    (account.sat (𝔸).postingAccountOk) i2 i3 ∧ G.opt (postingValue 𝔸) i3 m ∧
    (G.opt metadata ⬝ newLine ⬝ G.star metadataLine) m [] := by
  refine ⟨"A:b c  -1,234.50 USD {2 EUR} (n) @@ 3 EUR = 0 ; c\n  ; k: v\n".toList,
    "  -1,234.50 USD {2 EUR} (n) @@ 3 EUR = 0 ; c\n  ; k: v\n".toList, "; c\n  ; k: v\n".toList,
    Or.inl ⟨_, Or.inl rfl, sp1 _⟩, ⟨?_, "A:b c".toList, rfl, by decide⟩, ?_, ?_⟩
  · exact ⟨_, ⟨'A', rfl, by decide⟩, .cons (Or.inl ⟨':', rfl, by decide⟩) (.cons (Or.inl ⟨'b', rfl, by decide⟩)
      (.cons (Or.inr ⟨_, rfl, 'c', rfl, by decide⟩) (.nil _)))⟩
  · refine Or.inl ⟨"-1,234.50 USD {2 EUR} (n) @@ 3 EUR = 0 ; c\n  ; k: v\n".toList, Or.inl rfl, _, .nil _,
      "= 0 ; c\n  ; k: v\n".toList, Or.inl ⟨" = 0 ; c\n  ; k: v\n".toList, ?_, sp1 _⟩, Or.inl ?_⟩
    · -- the amount with lot and cost
      refine ⟨" {2 EUR} (n) @@ 3 EUR = 0 ; c\n  ; k: v\n".toList,
        .amount ⟨_, ex_number _, "USD {2 EUR} (n) @@ 3 EUR = 0 ; c\n  ; k: v\n".toList, sp1 _,
          Or.inl (plus_chr_of "USD".toList _ (by simp) (by decide))⟩,
        "{2 EUR} (n) @@ 3 EUR = 0 ; c\n  ; k: v\n".toList, sp1 _, "@@ 3 EUR = 0 ; c\n  ; k: v\n".toList, Or.inl ?_, Or.inl ?_⟩
      · refine Or.inl ⟨"(n) @@ 3 EUR = 0 ; c\n  ; k: v\n".toList, Or.inl ⟨" (n) @@ 3 EUR = 0 ; c\n  ; k: v\n".toList, ?_, sp1 _⟩,
          _, Or.inr rfl, Or.inl ⟨" @@ 3 EUR = 0 ; c\n  ; k: v\n".toList, ?_, sp1 _⟩⟩
        · exact Or.inr ⟨_, rfl, _, .nil _, "} (n) @@ 3 EUR = 0 ; c\n  ; k: v\n".toList,
            amount_com ['2'] "EUR".toList _ (by simp) (by decide) (by decide) (by simp) (by decide), _, .nil _, rfl⟩
        · exact ⟨_, rfl, ") @@ 3 EUR = 0 ; c\n  ; k: v\n".toList, .cons ⟨'n', rfl, by decide⟩ (.nil _), rfl⟩
      · exact Or.inl ⟨_, rfl, "3 EUR = 0 ; c\n  ; k: v\n".toList, sp1 _,
          .amount (amount_com ['3'] "EUR".toList _ (by simp) (by decide) (by decide) (by simp) (by decide))⟩
    · exact ⟨_, rfl, "0 ; c\n  ; k: v\n".toList, sp1 _, " ; c\n  ; k: v\n".toList,
        amount_digits ['0'] _ (by simp) (by decide) (by decide), sp1 _⟩
  · exact ⟨_, Or.inl (metadata_of_text (s := " c".toList) (by decide)), "  ; k: v\n".toList, newLine_nl _,
      .cons ⟨_, psp2 _, ['\n'], metadata_of_text (s := " k: v".toList) (by decide), newLine_nl []⟩ (.nil [])⟩

/-- `posting_accept` applies to it -/
example : ∃ p, Parse.posting exPostingText = .ok p [] := by
  obtain ⟨i2, i3, m, h1, h2, h3, h4⟩ := ex_posting
  exact posting_accept h1 h2 h3 h4 (by intro s x e _; cases s <;> cases e)

/-- and this is the posting the model reads: cleared, account `A:b c`, amount with lot price, lot note and total cost,
balance assertion, two metadata items -/
example : (match Parse.posting exPostingText with
    | .ok p [] => p.account == "A:b c" && p.clear == .cleared && p.metadata.length == 2 && p.balance.isSome &&
        (p.amount.map fun a => a.cost.isSome && a.lot.price.isSome && a.lot.note == some "n" && a.lot.date.isNone) == some true
    | _ => false) = true := by decide +kernel

/-! ## a file, ended by the end of the file -/

/-- `; c⏎` -/
theorem ex_comment (r : List Char) : topLevelComment (';' :: ' ' :: 'c' :: '\n' :: r) r :=
  ⟨r, ⟨_, ⟨';', rfl, rfl⟩, '\n' :: r, star_chr_of [' ', 'c'] _ (by decide), newLine_nl r⟩, .nil r⟩

/-- `2024/01/05=2024/01/06 * (#1) Shop ; :t:⏎` -/
theorem ex_header (r : List Char) : transactionHeader 𝔸 ('2' :: '0' :: '2' :: '4' :: '/' :: '0' :: '1' :: '/' :: '0' :: '5' :: '=' :: '2' :: '0' :: '2' :: '4' :: '/' :: '0' :: '1' :: '/' :: '0' :: '6' :: ' ' :: '*' :: ' ' :: '(' :: '#' :: '1' :: ')' :: ' ' :: 'S' :: 'h' :: 'o' :: 'p' :: ' ' :: ';' :: ' ' :: ':' :: 't' :: ':' :: '\n' :: r) r := by
  refine ⟨(' ' :: '*' :: ' ' :: '(' :: '#' :: '1' :: ')' :: ' ' :: 'S' :: 'h' :: 'o' :: 'p' :: ' ' :: ';' :: ' ' :: ':' :: 't' :: ':' :: '\n' :: r),
    ⟨('=' :: '2' :: '0' :: '2' :: '4' :: '/' :: '0' :: '1' :: '/' :: '0' :: '6' :: ' ' :: '*' :: ' ' :: '(' :: '#' :: '1' :: ')' :: ' ' :: 'S' :: 'h' :: 'o' :: 'p' :: ' ' :: ';' :: ' ' :: ':' :: 't' :: ':' :: '\n' :: r), date_slash ['2','0','2','4'] ['0','1'] ['0','5'] _ rfl rfl rfl (by decide) (by decide),
      Or.inl ⟨_, rfl, date_slash ['2','0','2','4'] ['0','1'] ['0','6'] _ rfl rfl rfl (by decide) (by decide)⟩⟩,
    (';' :: ' ' :: ':' :: 't' :: ':' :: '\n' :: r), Or.inl ⟨('*' :: ' ' :: '(' :: '#' :: '1' :: ')' :: ' ' :: 'S' :: 'h' :: 'o' :: 'p' :: ' ' :: ';' :: ' ' :: ':' :: 't' :: ':' :: '\n' :: r), psp1 _, ?_⟩,
    Or.inr ⟨'\n' :: r, ?_, newLine_nl r⟩⟩
  · -- clear mark, code, payee
    refine ⟨('(' :: '#' :: '1' :: ')' :: ' ' :: 'S' :: 'h' :: 'o' :: 'p' :: ' ' :: ';' :: ' ' :: ':' :: 't' :: ':' :: '\n' :: r), Or.inl ⟨_, Or.inl rfl, sp1 _⟩, ('S' :: 'h' :: 'o' :: 'p' :: ' ' :: ';' :: ' ' :: ':' :: 't' :: ':' :: '\n' :: r), Or.inl ⟨_, ?_, sp1 _⟩,
      star_chr_of ['S', 'h', 'o', 'p', ' '] _ (by decide)⟩
    exact ⟨_, rfl, _, .nil _, (')' :: ' ' :: 'S' :: 'h' :: 'o' :: 'p' :: ' ' :: ';' :: ' ' :: ':' :: 't' :: ':' :: '\n' :: r), star_chr_of ['#', '1'] _ (by decide), _, .nil _, rfl⟩
  · -- tag words ` :t:`
    exact ⟨_, rfl, Or.inr (Or.inl ⟨_, sp1 _, 't' :: ':' :: '\n' :: r, rfl, _, ⟨':' :: '\n' :: r,
      plus_chr_of ['t'] _ (by simp) (by decide), rfl⟩, .nil _⟩)⟩

/-- ` A  -1 USD⏎` -/
theorem ex_p1 (r : List Char) : posting 𝔸 (' ' :: 'A' :: ' ' :: ' ' :: '-' :: '1' :: ' ' :: 'U' :: 'S' :: 'D' :: '\n' :: r) r := by
  refine ⟨'\n' :: r, ⟨('A' :: ' ' :: ' ' :: '-' :: '1' :: ' ' :: 'U' :: 'S' :: 'D' :: '\n' :: r), psp1 _, _, Or.inr rfl, (' ' :: ' ' :: '-' :: '1' :: ' ' :: 'U' :: 'S' :: 'D' :: '\n' :: r),
      ⟨account_one 'A' _ (by decide), ['A'], rfl, by decide⟩, Or.inl ?_⟩,
    ⟨_, Or.inr rfl, r, newLine_nl r, .nil r⟩⟩
  refine ⟨('-' :: '1' :: ' ' :: 'U' :: 'S' :: 'D' :: '\n' :: r), Or.inl rfl, _, .nil _, '\n' :: r, Or.inl ⟨'\n' :: r, ?_, .nil _⟩, Or.inr rfl⟩
  refine ⟨'\n' :: r, .amount ⟨(' ' :: 'U' :: 'S' :: 'D' :: '\n' :: r), ⟨?_, ['-', '1'], rfl, by decide⟩, ('U' :: 'S' :: 'D' :: '\n' :: r), sp1 _,
    Or.inl (plus_chr_of ['U', 'S', 'D'] _ (by simp) (by decide))⟩, _, .nil _, _, Or.inr rfl, Or.inr rfl⟩
  exact ⟨_, Or.inl rfl, _, Or.inl (plus_chr_of ['1'] _ (by simp) (by decide)), Or.inr rfl⟩

/-- ` B⏎` -/
theorem ex_p2 (r : List Char) : posting 𝔸 (' ' :: 'B' :: '\n' :: r) r :=
  ⟨'\n' :: r, ⟨'B' :: '\n' :: r, psp1 _, _, Or.inr rfl, _, ⟨account_one 'B' _ (by decide), ['B'], rfl, by decide⟩, Or.inr rfl⟩,
    ⟨_, Or.inr rfl, r, newLine_nl r, .nil r⟩⟩

/-- `account A⏎ note n⏎` -/
theorem ex_account (r : List Char) : accountDeclaration ('a' :: 'c' :: 'c' :: 'o' :: 'u' :: 'n' :: 't' :: ' ' :: 'A' :: '\n' :: ' ' :: 'n' :: 'o' :: 't' :: 'e' :: ' ' :: 'n' :: '\n' :: r) r := by
  refine ⟨(' ' :: 'A' :: '\n' :: ' ' :: 'n' :: 'o' :: 't' :: 'e' :: ' ' :: 'n' :: '\n' :: r), rfl, ('A' :: '\n' :: ' ' :: 'n' :: 'o' :: 't' :: 'e' :: ' ' :: 'n' :: '\n' :: r), psp1 _, ('\n' :: ' ' :: 'n' :: 'o' :: 't' :: 'e' :: ' ' :: 'n' :: '\n' :: r), account_one 'A' _ (by decide),
    _, .nil _, (' ' :: 'n' :: 'o' :: 't' :: 'e' :: ' ' :: 'n' :: '\n' :: r), newLine_nl _, .cons (Or.inl ?_) (.nil r)⟩
  exact ⟨('n' :: 'o' :: 't' :: 'e' :: ' ' :: 'n' :: '\n' :: r), psp1 _, (' ' :: 'n' :: '\n' :: r), rfl, 'n' :: '\n' :: r, psp1 _, '\n' :: r, star_chr_of ['n'] _ (by decide), newLine_nl r⟩

/-- `2024/01/07` ended by the end of the file -/
theorem ex_lastTxn : transaction 𝔸 ('2' :: '0' :: '2' :: '4' :: '/' :: '0' :: '1' :: '/' :: '0' :: '7' :: []) [] :=
  ⟨[], ⟨[], ⟨[], date_slash ['2','0','2','4'] ['0','1'] ['0','7'] [] rfl rfl rfl (by decide) (by decide), Or.inr rfl⟩,
    [], Or.inr rfl, Or.inl newLine_eof⟩, [], .nil _, .nil _⟩

def exLedgerText : List Char :=
  "; c\n2024/01/05=2024/01/06 * (#1) Shop ; :t:\n A  -1 USD\n B\naccount A\n note n\n\n2024/01/07".toList

theorem exLedgerText_eq : exLedgerText = (';' :: ' ' :: 'c' :: '\n' :: '2' :: '0' :: '2' :: '4' :: '/' :: '0' :: '1' :: '/' :: '0' :: '5' :: '=' :: '2' :: '0' :: '2' :: '4' :: '/' :: '0' :: '1' :: '/' :: '0' :: '6' :: ' ' :: '*' :: ' ' :: '(' :: '#' :: '1' :: ')' :: ' ' :: 'S' :: 'h' :: 'o' :: 'p' :: ' ' :: ';' :: ' ' :: ':' :: 't' :: ':' :: '\n' :: ' ' :: 'A' :: ' ' :: ' ' :: '-' :: '1' :: ' ' :: 'U' :: 'S' :: 'D' :: '\n' :: ' ' :: 'B' :: '\n' :: 'a' :: 'c' :: 'c' :: 'o' :: 'u' :: 'n' :: 't' :: ' ' :: 'A' :: '\n' :: ' ' :: 'n' :: 'o' :: 't' :: 'e' :: ' ' :: 'n' :: '\n' :: '\n' :: '2' :: '0' :: '2' :: '4' :: '/' :: '0' :: '1' :: '/' :: '0' :: '7' :: []) := by decide

theorem ex_ledger : DocLedger 𝔸 exLedgerText := by
  rw [exLedgerText_eq]
  refine ⟨_, .nil _, .cons ⟨_, Or.inr (Or.inl (ex_comment _)), .nil _⟩
    (.cons ⟨_, Or.inl ⟨_, ex_header _, _, .nil _, .cons (ex_p1 _) (.cons (ex_p2 _) (.nil _))⟩, .nil _⟩
    (.cons ⟨_, Or.inr (Or.inr (Or.inl (ex_account _))), .cons ⟨_, .nil _, newLine_nl _⟩ (.nil _)⟩
    (.cons ⟨[], Or.inl ex_lastTxn, .nil _⟩ (.nil []))))⟩

/-- **`DocAccept_ledger` applies**: the file is accepted — its last line is ended by the end of the file -/
example : ∃ es, Parse.parseEntries exLedgerText = .ok es := DocAccept_ledger _ ex_ledger

/-- the model reads four entries: a comment, a transaction with two postings, an account declaration, a transaction -/
example : (match Parse.parseEntries exLedgerText with
    | .ok [.comment _, .txn t1, .account _ [_], .txn t2] => t1.posts.length == 2 && t1.code == some "#1" && t2.posts.isEmpty
    | _ => false) = true := by decide +kernel

/-- the last character of that text is not a line feed (the end-of-file clause is exercised) -/
example : exLedgerText.getLast? = some '7' := by decide

/-- `transaction_accept` on the first transaction of the file, followed by a line that begins in column one -/
example (r : List Char) (hr : DirFollow r) : ∃ t, Parse.transaction ('2' :: '0' :: '2' :: '4' :: '/' :: '0' :: '1' :: '/' :: '0' :: '5' :: '=' :: '2' :: '0' :: '2' :: '4' :: '/' :: '0' :: '1' :: '/' :: '0' :: '6' :: ' ' :: '*' :: ' ' :: '(' :: '#' :: '1' :: ')' :: ' ' :: 'S' :: 'h' :: 'o' :: 'p' :: ' ' :: ';' :: ' ' :: ':' :: 't' :: ':' :: '\n' :: ' ' :: 'A' :: ' ' :: ' ' :: '-' :: '1' :: ' ' :: 'U' :: 'S' :: 'D' :: '\n' :: ' ' :: 'B' :: '\n' :: r) = .ok t r :=
  transaction_accept ⟨_, ex_header _, _, .nil _, .cons (ex_p1 _) (.cons (ex_p2 r) (.nil r))⟩ hr

/-! ## a second file: the other directives, CR LF line ends, a hyphenated date, a lot date, a rate cost -/

/-- `1,000.00` -/
theorem ex_number2 (r : List Char) : (commaDecimal.sat (𝔸).numOk) ('1' :: ',' :: '0' :: '0' :: '0' :: '.' :: '0' :: '0' :: r) r :=
  ⟨⟨_, Or.inr rfl, '.' :: '0' :: '0' :: r,
      Or.inr ⟨',' :: '0' :: '0' :: '0' :: '.' :: '0' :: '0' :: r, ⟨_, ⟨'1', rfl, rfl⟩, _, Or.inr rfl, Or.inr rfl⟩,
        .cons ⟨_, rfl, _, ⟨'0', rfl, rfl⟩, _, ⟨'0', rfl, rfl⟩, ⟨'0', rfl, rfl⟩⟩ (.nil _)⟩,
      Or.inl ⟨_, rfl, .cons ⟨'0', rfl, rfl⟩ (.cons ⟨'0', rfl, rfl⟩ (.nil r))⟩⟩,
    "1,000.00".toList, rfl, by decide⟩

/-- `commodity USD␍⏎ format 1,000.00 USD␍⏎` -/
theorem ex_commodity (r : List Char) : commodityDeclaration 𝔸 ('c' :: 'o' :: 'm' :: 'm' :: 'o' :: 'd' :: 'i' :: 't' :: 'y' :: ' ' :: 'U' :: 'S' :: 'D' :: '\r' :: '\n' :: ' ' :: 'f' :: 'o' :: 'r' :: 'm' :: 'a' :: 't' :: ' ' :: '1' :: ',' :: '0' :: '0' :: '0' :: '.' :: '0' :: '0' :: ' ' :: 'U' :: 'S' :: 'D' :: '\r' :: '\n' :: r) r := by
  refine ⟨(' ' :: 'U' :: 'S' :: 'D' :: '\r' :: '\n' :: ' ' :: 'f' :: 'o' :: 'r' :: 'm' :: 'a' :: 't' :: ' ' :: '1' :: ',' :: '0' :: '0' :: '0' :: '.' :: '0' :: '0' :: ' ' :: 'U' :: 'S' :: 'D' :: '\r' :: '\n' :: r), rfl, ('U' :: 'S' :: 'D' :: '\r' :: '\n' :: ' ' :: 'f' :: 'o' :: 'r' :: 'm' :: 'a' :: 't' :: ' ' :: '1' :: ',' :: '0' :: '0' :: '0' :: '.' :: '0' :: '0' :: ' ' :: 'U' :: 'S' :: 'D' :: '\r' :: '\n' :: r), psp1 _, ('\r' :: '\n' :: ' ' :: 'f' :: 'o' :: 'r' :: 'm' :: 'a' :: 't' :: ' ' :: '1' :: ',' :: '0' :: '0' :: '0' :: '.' :: '0' :: '0' :: ' ' :: 'U' :: 'S' :: 'D' :: '\r' :: '\n' :: r), plus_chr_of ['U', 'S', 'D'] _ (by simp) (by decide), _, .nil _,
    (' ' :: 'f' :: 'o' :: 'r' :: 'm' :: 'a' :: 't' :: ' ' :: '1' :: ',' :: '0' :: '0' :: '0' :: '.' :: '0' :: '0' :: ' ' :: 'U' :: 'S' :: 'D' :: '\r' :: '\n' :: r), newLine_crnl _, .cons (Or.inr (Or.inr (Or.inl ?_))) (.nil r)⟩
  exact ⟨('f' :: 'o' :: 'r' :: 'm' :: 'a' :: 't' :: ' ' :: '1' :: ',' :: '0' :: '0' :: '0' :: '.' :: '0' :: '0' :: ' ' :: 'U' :: 'S' :: 'D' :: '\r' :: '\n' :: r), psp1 _, (' ' :: '1' :: ',' :: '0' :: '0' :: '0' :: '.' :: '0' :: '0' :: ' ' :: 'U' :: 'S' :: 'D' :: '\r' :: '\n' :: r), rfl, ('1' :: ',' :: '0' :: '0' :: '0' :: '.' :: '0' :: '0' :: ' ' :: 'U' :: 'S' :: 'D' :: '\r' :: '\n' :: r), psp1 _, '\r' :: '\n' :: r,
    ⟨(' ' :: 'U' :: 'S' :: 'D' :: '\r' :: '\n' :: r), ex_number2 _, ('U' :: 'S' :: 'D' :: '\r' :: '\n' :: r), sp1 _, Or.inl (plus_chr_of ['U', 'S', 'D'] _ (by simp) (by decide))⟩, newLine_crnl r⟩

/-- `apply tag k: v⏎` -/
theorem ex_apply (r : List Char) : applyTag 𝔸 ('a' :: 'p' :: 'p' :: 'l' :: 'y' :: ' ' :: 't' :: 'a' :: 'g' :: ' ' :: 'k' :: ':' :: ' ' :: 'v' :: '\n' :: r) r := by
  refine ⟨('k' :: ':' :: ' ' :: 'v' :: '\n' :: r), ⟨(' ' :: 't' :: 'a' :: 'g' :: ' ' :: 'k' :: ':' :: ' ' :: 'v' :: '\n' :: r), rfl, ('t' :: 'a' :: 'g' :: ' ' :: 'k' :: ':' :: ' ' :: 'v' :: '\n' :: r), psp1 _, (' ' :: 'k' :: ':' :: ' ' :: 'v' :: '\n' :: r), rfl, psp1 _⟩, '\n' :: r, Or.inr (Or.inl ?_), newLine_nl r⟩
  exact ⟨_, .nil _, (':' :: ' ' :: 'v' :: '\n' :: r), ⟨plus_chr_of ['k'] _ (by simp) (by decide), ['k'], rfl, by decide⟩, _, .nil _,
    (' ' :: 'v' :: '\n' :: r), rfl, 'v' :: '\n' :: r, sp1 _, star_chr_of ['v'] _ (by decide)⟩

/-- `end apply tag⏎` -/
theorem ex_end (r : List Char) : endApplyTag ('e' :: 'n' :: 'd' :: ' ' :: 'a' :: 'p' :: 'p' :: 'l' :: 'y' :: ' ' :: 't' :: 'a' :: 'g' :: '\n' :: r) r :=
  ⟨(' ' :: 'a' :: 'p' :: 'p' :: 'l' :: 'y' :: ' ' :: 't' :: 'a' :: 'g' :: '\n' :: r), rfl, ('a' :: 'p' :: 'p' :: 'l' :: 'y' :: ' ' :: 't' :: 'a' :: 'g' :: '\n' :: r), psp1 _, (' ' :: 't' :: 'a' :: 'g' :: '\n' :: r), rfl, ('t' :: 'a' :: 'g' :: '\n' :: r), psp1 _, '\n' :: r, rfl, _, .nil _, newLine_nl r⟩

/-- `include a b⏎` -/
theorem ex_include (r : List Char) : includeDirective ('i' :: 'n' :: 'c' :: 'l' :: 'u' :: 'd' :: 'e' :: ' ' :: 'a' :: ' ' :: 'b' :: '\n' :: r) r :=
  ⟨(' ' :: 'a' :: ' ' :: 'b' :: '\n' :: r), rfl, ('a' :: ' ' :: 'b' :: '\n' :: r), psp1 _, '\n' :: r, plus_chr_of ['a', ' ', 'b'] _ (by simp) (by decide), newLine_nl r⟩

/-- `2024-02-29 x␍⏎ A  1 S [2024/01/02] @ 2 T␍⏎` -/
theorem ex_txn2 (r : List Char) : transaction 𝔸 ('2' :: '0' :: '2' :: '4' :: '-' :: '0' :: '2' :: '-' :: '2' :: '9' :: ' ' :: 'x' :: '\r' :: '\n' :: ' ' :: 'A' :: ' ' :: ' ' :: '1' :: ' ' :: 'S' :: ' ' :: '[' :: '2' :: '0' :: '2' :: '4' :: '/' :: '0' :: '1' :: '/' :: '0' :: '2' :: ']' :: ' ' :: '@' :: ' ' :: '2' :: ' ' :: 'T' :: '\r' :: '\n' :: r) r := by
  refine ⟨(' ' :: 'A' :: ' ' :: ' ' :: '1' :: ' ' :: 'S' :: ' ' :: '[' :: '2' :: '0' :: '2' :: '4' :: '/' :: '0' :: '1' :: '/' :: '0' :: '2' :: ']' :: ' ' :: '@' :: ' ' :: '2' :: ' ' :: 'T' :: '\r' :: '\n' :: r), ?_, _, .nil _, .cons ?_ (.nil r)⟩
  · exact ⟨(' ' :: 'x' :: '\r' :: '\n' :: ' ' :: 'A' :: ' ' :: ' ' :: '1' :: ' ' :: 'S' :: ' ' :: '[' :: '2' :: '0' :: '2' :: '4' :: '/' :: '0' :: '1' :: '/' :: '0' :: '2' :: ']' :: ' ' :: '@' :: ' ' :: '2' :: ' ' :: 'T' :: '\r' :: '\n' :: r), ⟨_, Or.inr ⟨['2','0','2','4'], ['0','2'], ['2','9'], rfl, rfl, rfl, rfl, by decide, by decide⟩, Or.inr rfl⟩,
      ('\r' :: '\n' :: ' ' :: 'A' :: ' ' :: ' ' :: '1' :: ' ' :: 'S' :: ' ' :: '[' :: '2' :: '0' :: '2' :: '4' :: '/' :: '0' :: '1' :: '/' :: '0' :: '2' :: ']' :: ' ' :: '@' :: ' ' :: '2' :: ' ' :: 'T' :: '\r' :: '\n' :: r), Or.inl ⟨('x' :: '\r' :: '\n' :: ' ' :: 'A' :: ' ' :: ' ' :: '1' :: ' ' :: 'S' :: ' ' :: '[' :: '2' :: '0' :: '2' :: '4' :: '/' :: '0' :: '1' :: '/' :: '0' :: '2' :: ']' :: ' ' :: '@' :: ' ' :: '2' :: ' ' :: 'T' :: '\r' :: '\n' :: r), psp1 _, ⟨_, Or.inr rfl, _, Or.inr rfl, star_chr_of ['x'] _ (by decide)⟩⟩,
      Or.inl (newLine_crnl _)⟩
  · refine ⟨'\r' :: '\n' :: r, ⟨('A' :: ' ' :: ' ' :: '1' :: ' ' :: 'S' :: ' ' :: '[' :: '2' :: '0' :: '2' :: '4' :: '/' :: '0' :: '1' :: '/' :: '0' :: '2' :: ']' :: ' ' :: '@' :: ' ' :: '2' :: ' ' :: 'T' :: '\r' :: '\n' :: r), psp1 _, _, Or.inr rfl, (' ' :: ' ' :: '1' :: ' ' :: 'S' :: ' ' :: '[' :: '2' :: '0' :: '2' :: '4' :: '/' :: '0' :: '1' :: '/' :: '0' :: '2' :: ']' :: ' ' :: '@' :: ' ' :: '2' :: ' ' :: 'T' :: '\r' :: '\n' :: r),
        ⟨account_one 'A' _ (by decide), ['A'], rfl, by decide⟩, Or.inl ?_⟩,
      ⟨_, Or.inr rfl, r, newLine_crnl r, .nil r⟩⟩
    refine ⟨('1' :: ' ' :: 'S' :: ' ' :: '[' :: '2' :: '0' :: '2' :: '4' :: '/' :: '0' :: '1' :: '/' :: '0' :: '2' :: ']' :: ' ' :: '@' :: ' ' :: '2' :: ' ' :: 'T' :: '\r' :: '\n' :: r), Or.inl rfl, _, .nil _, '\r' :: '\n' :: r, Or.inl ⟨'\r' :: '\n' :: r, ?_, .nil _⟩, Or.inr rfl⟩
    refine ⟨(' ' :: '[' :: '2' :: '0' :: '2' :: '4' :: '/' :: '0' :: '1' :: '/' :: '0' :: '2' :: ']' :: ' ' :: '@' :: ' ' :: '2' :: ' ' :: 'T' :: '\r' :: '\n' :: r), .amount (amount_com ['1'] ['S'] _ (by simp) (by decide) (by decide) (by simp) (by decide)),
      ('[' :: '2' :: '0' :: '2' :: '4' :: '/' :: '0' :: '1' :: '/' :: '0' :: '2' :: ']' :: ' ' :: '@' :: ' ' :: '2' :: ' ' :: 'T' :: '\r' :: '\n' :: r), sp1 _, ('@' :: ' ' :: '2' :: ' ' :: 'T' :: '\r' :: '\n' :: r), Or.inl ?_, Or.inl ?_⟩
    · -- the lot: only a date
      refine Or.inl ⟨_, Or.inr rfl, _, Or.inl ⟨(' ' :: '@' :: ' ' :: '2' :: ' ' :: 'T' :: '\r' :: '\n' :: r), ?_, sp1 _⟩, Or.inr rfl⟩
      exact ⟨('2' :: '0' :: '2' :: '4' :: '/' :: '0' :: '1' :: '/' :: '0' :: '2' :: ']' :: ' ' :: '@' :: ' ' :: '2' :: ' ' :: 'T' :: '\r' :: '\n' :: r), rfl, _, .nil _, (']' :: ' ' :: '@' :: ' ' :: '2' :: ' ' :: 'T' :: '\r' :: '\n' :: r),
        date_slash ['2','0','2','4'] ['0','1'] ['0','2'] _ rfl rfl rfl (by decide) (by decide), _, .nil _, rfl⟩
    · exact Or.inr ⟨(' ' :: '2' :: ' ' :: 'T' :: '\r' :: '\n' :: r), rfl, ('2' :: ' ' :: 'T' :: '\r' :: '\n' :: r), sp1 _,
        .amount (amount_com ['2'] ['T'] _ (by simp) (by decide) (by decide) (by simp) (by decide))⟩

def exLedgerText2 : List Char :=
  "commodity USD\r\n format 1,000.00 USD\r\napply tag k: v\nend apply tag\ninclude a b\n2024-02-29 x\r\n A  1 S [2024/01/02] @ 2 T\r\n".toList

theorem exLedgerText2_eq : exLedgerText2 = ('c' :: 'o' :: 'm' :: 'm' :: 'o' :: 'd' :: 'i' :: 't' :: 'y' :: ' ' :: 'U' :: 'S' :: 'D' :: '\r' :: '\n' :: ' ' :: 'f' :: 'o' :: 'r' :: 'm' :: 'a' :: 't' :: ' ' :: '1' :: ',' :: '0' :: '0' :: '0' :: '.' :: '0' :: '0' :: ' ' :: 'U' :: 'S' :: 'D' :: '\r' :: '\n' :: 'a' :: 'p' :: 'p' :: 'l' :: 'y' :: ' ' :: 't' :: 'a' :: 'g' :: ' ' :: 'k' :: ':' :: ' ' :: 'v' :: '\n' :: 'e' :: 'n' :: 'd' :: ' ' :: 'a' :: 'p' :: 'p' :: 'l' :: 'y' :: ' ' :: 't' :: 'a' :: 'g' :: '\n' :: 'i' :: 'n' :: 'c' :: 'l' :: 'u' :: 'd' :: 'e' :: ' ' :: 'a' :: ' ' :: 'b' :: '\n' :: '2' :: '0' :: '2' :: '4' :: '-' :: '0' :: '2' :: '-' :: '2' :: '9' :: ' ' :: 'x' :: '\r' :: '\n' :: ' ' :: 'A' :: ' ' :: ' ' :: '1' :: ' ' :: 'S' :: ' ' :: '[' :: '2' :: '0' :: '2' :: '4' :: '/' :: '0' :: '1' :: '/' :: '0' :: '2' :: ']' :: ' ' :: '@' :: ' ' :: '2' :: ' ' :: 'T' :: '\r' :: '\n' :: []) := by decide

theorem ex_ledger2 : DocLedger 𝔸 exLedgerText2 := by
  rw [exLedgerText2_eq]
  exact ⟨_, .nil _, .cons ⟨_, Or.inr (Or.inr (Or.inr (Or.inl (ex_commodity _)))), .nil _⟩
    (.cons ⟨_, Or.inr (Or.inr (Or.inr (Or.inr (Or.inl (ex_apply _))))), .nil _⟩
    (.cons ⟨_, Or.inr (Or.inr (Or.inr (Or.inr (Or.inr (Or.inl (ex_end _)))))), .nil _⟩
    (.cons ⟨_, Or.inr (Or.inr (Or.inr (Or.inr (Or.inr (Or.inr (ex_include _)))))), .nil _⟩
    (.cons ⟨[], Or.inl (ex_txn2 []), .nil _⟩ (.nil [])))))⟩

example : ∃ es, Parse.parseEntries exLedgerText2 = .ok es := DocAccept_ledger _ ex_ledger2

example : (match Parse.parseEntries exLedgerText2 with
    | .ok [.commodity "USD" [.format _ "USD"], .applyTag "k" (some (.text "v")), .endApplyTag, .include "a b", .txn t] =>
        t.posts.length == 1 && t.payee == "x"
    | _ => false) = true := by decide +kernel

/-- the directive theorems apply to these derivations (any admissible continuation `r`) -/
example (r : List Char) (hr : DirFollow r) : ∃ e, Parse.commodityDeclaration ('c' :: 'o' :: 'm' :: 'm' :: 'o' :: 'd' :: 'i' :: 't' :: 'y' :: ' ' :: 'U' :: 'S' :: 'D' :: '\r' :: '\n' :: ' ' :: 'f' :: 'o' :: 'r' :: 'm' :: 'a' :: 't' :: ' ' :: '1' :: ',' :: '0' :: '0' :: '0' :: '.' :: '0' :: '0' :: ' ' :: 'U' :: 'S' :: 'D' :: '\r' :: '\n' :: r) = .ok e r :=
  commodityDeclaration_accept (ex_commodity r) hr
example (r : List Char) : ∃ e, Parse.applyTag ('a' :: 'p' :: 'p' :: 'l' :: 'y' :: ' ' :: 't' :: 'a' :: 'g' :: ' ' :: 'k' :: ':' :: ' ' :: 'v' :: '\n' :: r) = .ok e r := applyTag_accept (ex_apply r)
example (r : List Char) : ∃ e, Parse.endApplyTag ('e' :: 'n' :: 'd' :: ' ' :: 'a' :: 'p' :: 'p' :: 'l' :: 'y' :: ' ' :: 't' :: 'a' :: 'g' :: '\n' :: r) = .ok e r := endApplyTag_accept (ex_end r)
example (r : List Char) : ∃ e, Parse.includeDirective ('i' :: 'n' :: 'c' :: 'l' :: 'u' :: 'd' :: 'e' :: ' ' :: 'a' :: ' ' :: 'b' :: '\n' :: r) = .ok e r := include_accept (ex_include r)
example (r : List Char) (hr : DirFollow r) : ∃ e, Parse.accountDeclaration ('a' :: 'c' :: 'c' :: 'o' :: 'u' :: 'n' :: 't' :: ' ' :: 'A' :: '\n' :: ' ' :: 'n' :: 'o' :: 't' :: 'e' :: ' ' :: 'n' :: '\n' :: r) = .ok e r :=
  accountDeclaration_accept (ex_account r) hr

end Okane.DocAccept
