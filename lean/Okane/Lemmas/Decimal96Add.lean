import Okane.Lemmas.Decimal96Basic
/-!
# `rust_decimal` addition and subtraction are exact whenever the exact result fits the larger of the two scales

`alignedSum a b subtract` is the exact result as an integer at scale `max a.scale b.scale`.  `addSub_exact`: if its
magnitude is below `2^96`, `add_sub_internal` returns it — through whichever of the crate's paths (32-bit fast path,
aligned 96-bit path, rescaled left operand that still fits, 192-bit buffer with a borrow) the operands take.
Zero operands are special in the crate (the other operand is returned as it is, with ITS scale): `addSub_zero_left/right`.
-/
namespace Okane.Dec96

/-- the exact sum / difference as a signed mantissa at scale `max a.scale b.scale`. -/
def alignedSum (a b : D96) (subtract : Bool) : Int :=
  a.int * 10 ^ (max a.scale b.scale - a.scale) + sgn subtract * (b.int * 10 ^ (max a.scale b.scale - b.scale))

theorem upperWord_eq3 (v : Nat) (h1 : 2 ^ 96 ≤ v) (h2 : v < 2 ^ 128) : upperWord v = 3 := by
  unfold upperWord
  have hv : v ≠ 0 := by omega
  simp only [hv, if_false]
  have a : 96 ≤ v.log2 := (Nat.le_log2 hv).mpr h1
  have b : v.log2 < 128 := (Nat.log2_lt hv).mpr h2
  omega

theorem upperWord_le2 (v : Nat) (h : v < 2 ^ 96) : upperWord v ≤ 2 := by
  unfold upperWord
  split
  · omega
  · rename_i hv
    have b : v.log2 < 96 := (Nat.log2_lt hv).mpr h
    omega

/-- a rescaled left operand that needs 97 bits minus a right operand that brings the difference back under `2^96`: the
buffer path returns the exact difference at the unchanged scale (the borrow clears word 3; the garbage the crate's borrow
loop leaves in word 4 is never looked at). -/
theorem buf_sub_small (v r sc : Nat) (hv : 2 ^ 96 ≤ v) (hr : r < 2 ^ 96) (h : v - r < 2 ^ 96) (hsc : sc ≤ 28) :
    bufRescale (bufSub v r) (upperWord v) sc = some (v - r, sc) := by
  have hv2 : v < 2 ^ 97 := by omega
  rw [upperWord_eq3 v hv (by omega)]
  have hb : bufSub v r = v - r := by
    unfold bufSub
    rw [upperWord_eq3 v hv (by omega)]
    have e1 : v / two96 % two32 = 1 := by unfold two96 two32; omega
    have e2 : v / 2 ^ 128 % two32 = 0 := by unfold two32; omega
    have e3 : v / 2 ^ 160 % two32 = 0 := by unfold two32; omega
    have e4 : v % two96 < r := by unfold two96; omega
    simp only [e1, e2, e3, e4, if_true]
    have : borrowWords 1 0 0 = (0, two32 - 1, 0) := by decide
    rw [this]
    simp only [two96, two32]
    omega
  rw [hb]
  unfold bufRescale
  have : (v - r) / 2 ^ (32 * 3) = 0 := by omega
  have h28 : ¬ (28 : Int) < sc := by omega
  simp [this, lz32, two96, h28]
  omega

/-- `fast_add` computes `±(lo1 ± lo2)` exactly. -/
theorem fastAdd_spec (lo1 lo2 : Nat) (neg : Bool) (sc : Nat) (sub : Bool) :
    ∃ r, fastAdd lo1 lo2 neg sc sub = .ok r ∧ r.scale = sc ∧ r.int = sgn neg * ((lo1 : Int) + sgn sub * lo2) := by
  unfold fastAdd
  cases sub
  · refine ⟨_, rfl, rfl, ?_⟩
    rw [fromParts_int]; simp
  · simp only [if_true]
    split
    · refine ⟨_, rfl, rfl, ?_⟩
      rw [fromParts_int, sgn_not]
      cases neg <;> simp [sgn] <;> omega
    · refine ⟨_, rfl, rfl, ?_⟩
      rw [fromParts_int]
      cases neg <;> simp [sgn] <;> omega

/-- `aligned_add` computes `±(l ± r)` exactly, unless it is an addition that needs 97 bits. -/
theorem alignedAdd_spec (l r : Nat) (neg : Bool) (sc : Nat) (sub : Bool) (h : sub = false → l + r < 2 ^ 96) :
    ∃ d, alignedAdd l r neg sc sub = .ok d ∧ d.scale = sc ∧ d.int = sgn neg * ((l : Int) + sgn sub * r) := by
  unfold alignedAdd
  cases sub
  · have := h rfl
    simp only [Bool.false_eq_true, if_false, two96, this, if_true]
    refine ⟨_, rfl, rfl, ?_⟩
    rw [fromParts_int]; simp
  · simp only [if_true]
    split
    · refine ⟨_, rfl, rfl, ?_⟩
      rw [fromParts_int]
      cases neg <;> simp [sgn] <;> omega
    · refine ⟨_, rfl, rfl, ?_⟩
      rw [fromParts_int, sgn_not]
      cases neg <;> simp [sgn] <;> omega

/-- `unaligned_add` with an exact result below `2^96`: exact, whichever way the rescaled operand goes. -/
theorem unalignedAdd_spec (l r : Nat) (neg : Bool) (sc rf : Nat) (sub : Bool) (hr : r < 2 ^ 96) (hsc : sc ≤ 28)
    (h : (((l * 10 ^ rf : Nat) : Int) + sgn sub * r).natAbs < 2 ^ 96) :
    ∃ d, unalignedAdd l r neg sc rf sub = .ok d ∧ d.scale = sc ∧
      d.int = sgn neg * (((l * 10 ^ rf : Nat) : Int) + sgn sub * r) := by
  unfold unalignedAdd
  generalize l * 10 ^ rf = v at h ⊢
  simp only
  by_cases hv : v < two96
  · simp only [hv, if_true]
    apply alignedAdd_spec
    intro hs; subst hs
    simp [sgn] at h; omega
  · simp only [hv, if_false]
    unfold two96 at hv
    cases sub
    · simp [sgn] at h; omega
    · simp only [if_true]
      have h' : v - r < 2 ^ 96 := by simp [sgn] at h; omega
      rw [buf_sub_small v r sc (by omega) hr h' hsc]
      refine ⟨_, rfl, rfl, ?_⟩
      rw [fromParts_int]
      cases neg <;> simp [sgn] <;> omega

/-- the sign bookkeeping of `add_sub_internal`: with `eff = subtract ^ (signs differ)`,
`a ± b = sign(a) * (|a| ± |b|)` where the inner sign is minus iff `eff`. -/
theorem sign_identity (na nb subtract : Bool) (x y : Int) :
    sgn na * x + sgn subtract * (sgn nb * y) = sgn na * (x + sgn (subtract != (na != nb)) * y) := by
  cases na <;> cases nb <;> cases subtract <;> simp [sgn] <;> omega

theorem rescale32_some (num rf m : Nat) (h : rescale32 num rf = some m) : m = num * 10 ^ rf := by
  unfold rescale32 at h
  split at h
  · cases h
  · split at h
    · cases h; rfl
    · cases h

/-- non-zero operands whose exact sum fits `2^96` at the larger scale: `add_sub_internal` returns exactly that sum, at that
scale. -/
theorem addSub_exact_nz (a b : D96) (subtract : Bool) (ha : a.wf) (hb : b.wf) (ha0 : a.mant ≠ 0) (hb0 : b.mant ≠ 0)
    (hfit : (alignedSum a b subtract).natAbs < 2 ^ 96) :
    ∃ r, addSub a b subtract = .ok r ∧ r.scale = max a.scale b.scale ∧ r.int = alignedSum a b subtract := by
  obtain ⟨ham, has⟩ := ha
  obtain ⟨hbm, hbs⟩ := hb
  unfold alignedSum at hfit ⊢
  rw [int_scaled a, int_scaled b, sign_identity] at hfit ⊢
  unfold addSub
  simp only [ha0, hb0, if_false]
  generalize hsub : (subtract != (a.neg != b.neg)) = eff at hfit ⊢
  rcases Nat.lt_trichotomy a.scale b.scale with hlt | heq | hgt
  · -- a has the smaller scale: a is rescaled
    have hmax : max a.scale b.scale = b.scale := by omega
    rw [hmax] at hfit ⊢
    have e1 : b.scale - b.scale = 0 := by omega
    rw [e1] at hfit ⊢
    simp only [Nat.pow_zero, Nat.mul_one] at hfit ⊢
    have hne : ¬ a.scale = b.scale := by omega
    have hnlt : ¬ b.scale < a.scale := by omega
    simp only [hne, hnlt, if_false]
    have hfit' : (((a.mant * 10 ^ (b.scale - a.scale) : Nat) : Int) + sgn eff * b.mant).natAbs < 2 ^ 96 := by
      have : (sgn a.neg * (((a.mant * 10 ^ (b.scale - a.scale) : Nat) : Int) + sgn eff * b.mant)).natAbs
          = (((a.mant * 10 ^ (b.scale - a.scale) : Nat) : Int) + sgn eff * b.mant).natAbs := by
        cases a.neg <;> simp [sgn]
      omega
    split
    · rename_i c hc
      split at hc
      · cases hr : rescale32 a.mant (b.scale - a.scale) with
        | none => rw [hr] at hc; cases hc
        | some m1 =>
          rw [hr] at hc
          simp only [Option.map_some, Option.some.injEq] at hc
          subst hc
          have := rescale32_some _ _ _ hr
          subst this
          exact fastAdd_spec _ _ _ _ _
      · cases hc
    · exact unalignedAdd_spec a.mant b.mant a.neg b.scale (b.scale - a.scale) eff hbm hbs hfit'
  · -- equal scales
    have hmax : max a.scale b.scale = a.scale := by omega
    rw [hmax] at hfit ⊢
    have e1 : a.scale - a.scale = 0 := by omega
    have e2 : a.scale - b.scale = 0 := by omega
    rw [e1, e2] at hfit ⊢
    simp only [Nat.pow_zero, Nat.mul_one] at hfit ⊢
    simp only [heq, if_true]
    have hfit' : ((a.mant : Int) + sgn eff * b.mant).natAbs < 2 ^ 96 := by
      have : (sgn a.neg * ((a.mant : Int) + sgn eff * b.mant)).natAbs = ((a.mant : Int) + sgn eff * b.mant).natAbs := by
        cases a.neg <;> simp [sgn]
      omega
    split
    · rename_i c hc
      split at hc
      · simp only [Option.some.injEq] at hc
        subst hc
        rw [← heq]
        exact fastAdd_spec _ _ _ _ _
      · cases hc
    · rw [← heq]
      apply alignedAdd_spec
      intro hs; subst hs
      simp [sgn] at hfit'; omega
  · -- b has the smaller scale: b is rescaled and becomes the LEFT operand of `unaligned_add`
    have hmax : max a.scale b.scale = a.scale := by omega
    rw [hmax] at hfit ⊢
    have e1 : a.scale - a.scale = 0 := by omega
    rw [e1] at hfit ⊢
    simp only [Nat.pow_zero, Nat.mul_one] at hfit ⊢
    have hne : ¬ a.scale = b.scale := by omega
    simp only [hne, hgt, if_false, if_true]
    have hfit' : (((b.mant * 10 ^ (a.scale - b.scale) : Nat) : Int) + sgn eff * a.mant).natAbs < 2 ^ 96 := by
      have : (sgn a.neg * ((a.mant : Int) + sgn eff * ((b.mant * 10 ^ (a.scale - b.scale) : Nat) : Int))).natAbs
          = (((b.mant * 10 ^ (a.scale - b.scale) : Nat) : Int) + sgn eff * a.mant).natAbs := by
        cases a.neg <;> cases eff <;> simp [sgn] <;> omega
      omega
    split
    · rename_i c hc
      split at hc
      · cases hr : rescale32 b.mant (a.scale - b.scale) with
        | none => rw [hr] at hc; cases hc
        | some m2 =>
          rw [hr] at hc
          simp only [Option.map_some, Option.some.injEq] at hc
          subst hc
          have := rescale32_some _ _ _ hr
          subst this
          exact fastAdd_spec _ _ _ _ _
      · cases hc
    · obtain ⟨d, hd, hs, hi⟩ :=
        unalignedAdd_spec b.mant a.mant (eff != a.neg) a.scale (a.scale - b.scale) eff ham has hfit'
      refine ⟨d, hd, hs, ?_⟩
      rw [hi, sgn_bne]
      generalize ((b.mant * 10 ^ (a.scale - b.scale) : Nat) : Int) = B
      cases a.neg <;> cases eff <;> simp [sgn] <;> omega


/-! ## zero operands, and the statement over `Rat` -/

theorem addSub_zero_left (a b : D96) (subtract : Bool) (h : a.mant = 0) :
    addSub a b subtract = .ok (if subtract && b.mant != 0 then negate b else b) := by
  unfold addSub negate; simp [h]

theorem addSub_zero_right (a b : D96) (subtract : Bool) (ha : a.mant ≠ 0) (hb : b.mant = 0) :
    addSub a b subtract = .ok a := by
  unfold addSub; simp [ha, hb]

/-- `x` is a decimal with at most `s` places and a mantissa below `2^96`. -/
def ReprAt (x : Rat) (s : Nat) : Prop := ∃ m : Int, m.natAbs < 2 ^ 96 ∧ x = (m : Rat) / (10 : Rat) ^ s

/-- `1` / `-1` as rationals -/
def sgnR (b : Bool) : Rat := if b then -1 else 1

theorem val_aligned (d : D96) (s : Nat) (h : d.scale ≤ s) :
    val d = ((d.int * 10 ^ (s - d.scale) : Int) : Rat) / (10 : Rat) ^ s := by
  have := val_of_int_scaled d (s - d.scale)
  have e : d.scale + (s - d.scale) = s := by omega
  rw [e] at this; exact this

theorem val_addsub_eq (a b : D96) (subtract : Bool) :
    val a + sgnR subtract * val b = ((alignedSum a b subtract : Int) : Rat) / (10 : Rat) ^ (max a.scale b.scale) := by
  rw [val_aligned a (max a.scale b.scale) (by omega), val_aligned b (max a.scale b.scale) (by omega)]
  unfold alignedSum
  have hp := pow10_ne_zero (max a.scale b.scale)
  rw [Rat.intCast_add, Rat.intCast_mul (sgn subtract)]
  cases subtract <;> simp [sgn, sgnR] <;> grind

theorem intCast_div_pow10_inj (m n : Int) (s : Nat) (h : (m : Rat) / (10 : Rat) ^ s = (n : Rat) / (10 : Rat) ^ s) : m = n := by
  have hp := pow10_ne_zero s
  have : (m : Rat) = (n : Rat) := by grind
  exact_mod_cast this

theorem reprAt_iff (a b : D96) (subtract : Bool) :
    ReprAt (val a + sgnR subtract * val b) (max a.scale b.scale) ↔ (alignedSum a b subtract).natAbs < 2 ^ 96 := by
  rw [val_addsub_eq]
  constructor
  · rintro ⟨m, hm, he⟩
    rw [intCast_div_pow10_inj _ _ _ he]; exact hm
  · intro h; exact ⟨_, h, rfl⟩

/-- **exactness of `+`/`-`, `checked_add`/`checked_sub`.** Well-formed operands; the exact result `val a ± val b` is a decimal
with `max a.scale b.scale` places whose mantissa fits 96 bits.  Then the crate returns a well-formed decimal with exactly
that value, and — unless an operand is zero (then the OTHER operand comes back unchanged, with its own scale) — with scale
`max a.scale b.scale`. -/
theorem addSub_exact (a b : D96) (subtract : Bool) (ha : a.wf) (hb : b.wf)
    (h : ReprAt (val a + sgnR subtract * val b) (max a.scale b.scale)) :
    ∃ r, addSub a b subtract = .ok r ∧ r.wf ∧ val r = val a + sgnR subtract * val b ∧
      (a.mant ≠ 0 → b.mant ≠ 0 → r.scale = max a.scale b.scale) ∧
      (a.mant = 0 → r.scale = b.scale) ∧ (a.mant ≠ 0 → b.mant = 0 → r = a) := by
  by_cases ha0 : a.mant = 0
  · refine ⟨_, addSub_zero_left a b subtract ha0, ?_, ?_, fun h => absurd ha0 h, ?_, fun h => absurd ha0 h⟩
    · split
      · exact negate_wf b hb
      · exact hb
    · rw [val_of_mant_zero a ha0, Rat.zero_add]
      by_cases hb0 : b.mant = 0
      · simp [hb0, val_of_mant_zero b hb0]
      · have : (b.mant != 0) = true := by simpa using hb0
        cases subtract
        · simp [sgnR]
        · simp [this, sgnR, val_negate, Rat.neg_mul]
    · intro _; split <;> rfl
  · by_cases hb0 : b.mant = 0
    · refine ⟨_, addSub_zero_right a b subtract ha0 hb0, ha, ?_, fun _ h => absurd hb0 h, fun h => absurd h ha0, fun _ _ => rfl⟩
      rw [val_of_mant_zero b hb0, Rat.mul_zero, Rat.add_zero]
    · have hfit := (reprAt_iff a b subtract).mp h
      obtain ⟨r, hr, hs, hi⟩ := addSub_exact_nz a b subtract ha hb ha0 hb0 hfit
      refine ⟨r, hr, ⟨?_, ?_⟩, ?_, fun _ _ => hs, fun h => absurd h ha0, fun _ h => absurd h hb0⟩
      · rw [← int_natAbs r, hi]; exact hfit
      · rw [hs]; have := ha.2; have := hb.2; omega
      · rw [val_addsub_eq, ← hi]
        unfold val; rw [hs]

theorem add_exact (a b : D96) (ha : a.wf) (hb : b.wf) (h : ReprAt (val a + val b) (max a.scale b.scale)) :
    ∃ r, addImpl a b = .ok r ∧ r.wf ∧ val r = val a + val b ∧
      (a.mant ≠ 0 → b.mant ≠ 0 → r.scale = max a.scale b.scale) := by
  have h' : ReprAt (val a + sgnR false * val b) (max a.scale b.scale) := by simpa [sgnR] using h
  obtain ⟨r, h1, h2, h3, h4, _⟩ := addSub_exact a b false ha hb h'
  exact ⟨r, h1, h2, by simpa [sgnR] using h3, h4⟩

theorem sub_exact (a b : D96) (ha : a.wf) (hb : b.wf) (h : ReprAt (val a - val b) (max a.scale b.scale)) :
    ∃ r, subImpl a b = .ok r ∧ r.wf ∧ val r = val a - val b ∧
      (a.mant ≠ 0 → b.mant ≠ 0 → r.scale = max a.scale b.scale) := by
  have e : val a - val b = val a + sgnR true * val b := by simp [sgnR, Rat.sub_eq_add_neg, Rat.neg_mul]
  rw [e] at h ⊢
  obtain ⟨r, h1, h2, h3, h4, _⟩ := addSub_exact a b true ha hb h
  exact ⟨r, h1, h2, h3, h4⟩

/-- the forms okane calls: `checked_add` is `Some`, the operator does not panic. -/
theorem checkedAdd_exact (a b : D96) (ha : a.wf) (hb : b.wf) (h : ReprAt (val a + val b) (max a.scale b.scale)) :
    ∃ r, checkedAdd a b = some r ∧ opAdd a b = .val r ∧ r.wf ∧ val r = val a + val b := by
  obtain ⟨r, h1, h2, h3, _⟩ := add_exact a b ha hb h
  exact ⟨r, by simp [checkedAdd, h1, Calc.toOption], by simp [opAdd, h1], h2, h3⟩

theorem checkedSub_exact (a b : D96) (ha : a.wf) (hb : b.wf) (h : ReprAt (val a - val b) (max a.scale b.scale)) :
    ∃ r, checkedSub a b = some r ∧ opSub a b = .val r ∧ r.wf ∧ val r = val a - val b := by
  obtain ⟨r, h1, h2, h3, _⟩ := sub_exact a b ha hb h
  exact ⟨r, by simp [checkedSub, h1, Calc.toOption], by simp [opSub, h1], h2, h3⟩

end Okane.Dec96
