import Okane.Lemmas.Alias
/-! Helper lemmas for `C12_canonical_accounts`: every account name that reaches the ledger came out of `ensure`,
and `ensure` only hands out canonical names as long as every alias record points to a canonical record. -/
namespace Okane

def Store.Canon (s : Store) (a : String) : Prop := AMap.get? s.recs a = some none

/-- every alias record points to a canonical record. -/
def Store.AliasWF (s : Store) : Prop := ∀ a k, AMap.get? s.recs a = some (some k) → AMap.get? s.recs k = some none

/-- account names held by the posting loop's state: postings so far and keys of the balance. -/
def stateAccounts (tst : TxnState String String) : List String := tst.postings.map (·.account) ++ AMap.keys tst.bal

theorem Store.aliasWF_insert_canonical (s : Store) (x : String) (h : AMap.get? s.recs x = none) (hw : s.AliasWF) :
    (Store.mk (AMap.insert s.recs x none)).AliasWF := by
  intro a k ha
  have hax : x ≠ a := by intro e; subst e; simp [AMap.get?_insert_self] at ha
  rw [AMap.get?_insert_ne _ _ hax] at ha
  exact Store.le_insert_new s x none h _ _ (hw a k ha)

theorem Store.ensure_canon (s : Store) (x : String) (hw : s.AliasWF) :
    (s.ensure x).2.Canon (s.ensure x).1 ∧ (s.ensure x).2.AliasWF := by
  cases hr : s.resolve x with
  | some c =>
    have : s.ensure x = (c, s) := Store.ensure_of_resolve hr
    rw [this]
    refine ⟨?_, hw⟩
    rcases Store.resolve_eq_some hr with ⟨hg, rfl⟩ | hg
    · exact hg
    · exact hw _ _ hg
  | none =>
    have hg := Store.resolve_none hr
    have : s.ensure x = (x, ⟨AMap.insert s.recs x none⟩) := by simp [Store.ensure, hr]
    rw [this]
    exact ⟨by simp [Store.Canon, AMap.get?_insert_self], Store.aliasWF_insert_canonical s x hg hw⟩

theorem Store.insertCanonical_wf {s s' : Store} {x c : String} (h : s.insertCanonical x = .ok (c, s')) (hw : s.AliasWF) :
    s'.AliasWF := by
  unfold Store.insertCanonical at h
  cases hg : AMap.get? s.recs x with
  | none => simp [hg] at h; rw [← h.2]; exact Store.aliasWF_insert_canonical s x hg hw
  | some v =>
    cases v with
    | none => simp [hg] at h; rw [← h.2]; exact hw
    | some k => simp [hg] at h

theorem Store.insertAlias_wf {s s' : Store} {a k : String} (h : s.insertAlias a k = .ok s') (hw : s.AliasWF)
    (hk : s.Canon k) : s'.AliasWF := by
  unfold Store.insertAlias at h
  cases hg : AMap.get? s.recs a with
  | none =>
    simp [hg] at h
    subst h
    intro b j hb
    by_cases hab : a = b
    · subst hab
      simp [AMap.get?_insert_self] at hb
      subst hb
      exact Store.le_insert_new s a (some k) hg _ _ hk
    · rw [AMap.get?_insert_ne _ _ hab] at hb
      exact Store.le_insert_new s a (some k) hg _ _ (hw b j hb)
  | some v =>
    cases v with
    | none => simp [hg] at h
    | some found =>
      simp only [hg] at h
      by_cases hf : found = k
      · simp [hf] at h; subst h; exact hw
      · simp [hf] at h

theorem insertAliases_wf : ∀ (as : List String) (s s' : Store) (k : String), insertAliases s k as = .ok s' →
    s.AliasWF → s.Canon k → s'.AliasWF
  | [], s, s', k, h, hw, _ => by simp [insertAliases] at h; subst h; exact hw
  | a :: as, s, s', k, h, hw, hk => by
    simp only [insertAliases] at h
    cases ha : s.insertAlias a k with
    | ok s1 =>
      simp only [ha] at h
      exact insertAliases_wf as s1 s' k h (Store.insertAlias_wf ha hw hk) ((Store.insertAlias_ok ha).1 _ _ hk)
    | err x => simp [ha] at h
    | panic q => simp [ha] at h
    | fuelOut => simp [ha] at h

theorem applyCommodityDetails_accounts : ∀ (ds : List CommodityDetail) (c c' : Ctx) (k : String),
    applyCommodityDetails c k ds = .ok c' → c'.accounts = c.accounts
  | [], c, c', k, h => by simp [applyCommodityDetails] at h; subst h; rfl
  | d :: ds, c, c', k, h => by
    cases d with
    | alias a =>
      simp only [applyCommodityDetails] at h
      cases ha : c.commodities.insertAlias a k with
      | ok s1 => simp only [ha] at h; exact (applyCommodityDetails_accounts ds _ c' k h).trans rfl
      | err x => simp [ha] at h
      | panic q => simp [ha] at h
      | fuelOut => simp [ha] at h
    | format v cc => simp only [applyCommodityDetails] at h; exact (applyCommodityDetails_accounts ds _ c' k h).trans rfl
    | comment x => simp only [applyCommodityDetails] at h; exact applyCommodityDetails_accounts ds _ c' k h
    | note x => simp only [applyCommodityDetails] at h; exact applyCommodityDetails_accounts ds _ c' k h

/-! ## keys of the balance -/

theorem mem_keys_insert {ν : Type} (m : AMap String ν) (k : String) (v : ν) (a : String)
    (h : a ∈ AMap.keys (AMap.insert m k v)) : a ∈ AMap.keys m ∨ a = k := by
  cases hg : AMap.get? m k with
  | some x =>
    rw [AMap.keys_insert_of_mem m k v (by simp [hg])] at h
    exact Or.inl h
  | none =>
    rw [AMap.keys_insert_of_not_mem m k v hg] at h
    simpa using h

theorem processPosting_keys {bal bal' : Balance String String} {date : Date} {idx : Nat} {p : RPosting String String}
    {ev : Option (EvaluatedPosting String)} {pe : Option (PriceEvent String)}
    (h : processPosting bal date idx p = .ok (ev, pe, bal')) :
    ∀ a ∈ AMap.keys bal', a ∈ AMap.keys bal ∨ a = p.account := by
  unfold processPosting at h
  split at h
  · simp at h; rw [← h.2.2]; exact fun a ha => Or.inl ha
  · next current _ _ =>
    split at h
    · next bal1 prev hsp =>
      have hk : ∀ a ∈ AMap.keys bal1, a ∈ AMap.keys bal ∨ a = p.account := by
        unfold Balance.setPartial at hsp
        split at hsp
        · split at hsp
          · simp at hsp; rw [← hsp.1]; exact fun a ha => mem_keys_insert _ _ _ a ha
          · simp at hsp
        · simp at hsp; rw [← hsp.1]; exact fun a ha => mem_keys_insert _ _ _ a ha
      split at h
      · simp at h; rw [← h.2.2]; exact hk
      · simp at h
      · simp at h
      · simp at h
    · simp at h
    · simp at h
    · simp at h
  · simp only at h
    split at h
    · simp at h
    · simp at h
      rw [← h.2.2]
      exact fun a ha => mem_keys_insert _ _ _ a ha

theorem stepPosting_accounts {date : Date} {tst tst' : TxnState String String} {idx : Nat} {rp : RPosting String String}
    (h : stepPosting date tst idx rp = .ok tst') :
    ∀ a ∈ stateAccounts tst', a ∈ stateAccounts tst ∨ a = rp.account := by
  unfold stepPosting at h
  split at h
  · next ev pe bal' hpp =>
    simp at h
    subst h
    intro a ha
    simp only [stateAccounts, List.map_append, List.mem_append, List.mem_map, List.mem_cons] at ha ⊢
    rcases ha with (⟨q, hq, rfl⟩ | ⟨q, hq, rfl⟩) | ha
    · exact Or.inl (Or.inl ⟨q, hq, rfl⟩)
    · rcases hq with rfl | hq
      · exact Or.inr rfl
      · simp at hq
    · rcases processPosting_keys hpp a ha with h1 | h1
      · exact Or.inl (Or.inr h1)
      · exact Or.inr h1
  · next pe bal' hpp =>
    split at h
    · simp at h
    · simp at h
      subst h
      intro a ha
      simp only [stateAccounts, List.map_append, List.mem_append, List.mem_map, List.mem_cons] at ha ⊢
      rcases ha with (⟨q, hq, rfl⟩ | ⟨q, hq, rfl⟩) | ha
      · exact Or.inl (Or.inl ⟨q, hq, rfl⟩)
      · rcases hq with rfl | hq
        · exact Or.inr rfl
        · simp at hq
      · rcases processPosting_keys hpp a ha with h1 | h1
        · exact Or.inl (Or.inr h1)
        · exact Or.inr h1
  · simp at h
  · simp at h
  · simp at h

theorem resolvePosting_account {c c' : Ctx} {p : Posting} {rp : RPosting String String}
    (h : resolvePosting c p = .ok (rp, c')) :
    rp.account = (c.accounts.ensure p.account).1 ∧ c'.accounts = (c.accounts.ensure p.account).2 := by
  unfold resolvePosting at h
  simp only at h
  split at h
  · split at h <;> simp at h
    exact ⟨by rw [← h.1], by rw [← h.2]⟩
  · split at h
    · split at h <;> simp at h
      exact ⟨by rw [← h.1], by rw [← h.2]⟩
    · simp at h
    · simp at h
    · simp at h

theorem loopSyntax_canon (date : Date) : ∀ (ps : List Posting) (c c' : Ctx) (tst tst' : TxnState String String) (idx : Nat),
    loopSyntax date c tst idx ps = .ok (c', tst') → c.accounts.AliasWF → (∀ a ∈ stateAccounts tst, c.accounts.Canon a) →
    c'.accounts.AliasWF ∧ ∀ a ∈ stateAccounts tst', c'.accounts.Canon a
  | [], c, c', tst, tst', idx, h, hw, hc => by
    simp [loopSyntax] at h
    rw [← h.1, ← h.2]; exact ⟨hw, hc⟩
  | p :: ps, c, c', tst, tst', idx, h, hw, hc => by
    simp only [loopSyntax] at h
    cases hr : resolvePosting c p with
    | ok r =>
      obtain ⟨rp, c1⟩ := r
      simp only [hr] at h
      cases hs : stepPosting date tst idx rp with
      | ok tst1 =>
        simp only [hs] at h
        have hacc := resolvePosting_account hr
        have hen := Store.ensure_canon c.accounts p.account hw
        have hle : c.accounts.le c1.accounts := by rw [hacc.2]; exact Store.ensure_le _ _
        refine loopSyntax_canon date ps c1 c' tst1 tst' (idx + 1) h (by rw [hacc.2]; exact hen.2) ?_
        intro a ha
        rcases stepPosting_accounts hs a ha with h1 | h1
        · exact hle _ _ (hc a h1)
        · rw [h1, hacc.1, hacc.2]; exact hen.1
      | err x => simp [hs] at h
      | panic q => simp [hs] at h
      | fuelOut => simp [hs] at h
    | err x => simp [hr] at h
    | panic q => simp [hr] at h
    | fuelOut => simp [hr] at h

theorem map_account_modify (l : List (OutPosting String String)) (u : Nat) (amt : Amount String) :
    (l.modify u (fun p => { p with amount := amt })).map (·.account) = l.map (·.account) := by
  induction l generalizing u with
  | nil => simp
  | cons x xs ih =>
    cases u with
    | zero => simp
    | succ n => simp [ih]

theorem fillConverted_account_str (a1 a2 : SingleAmount String) (p : OutPosting String String) :
    (fillConverted a1 a2 p).account = p.account := by
  unfold fillConverted
  split
  · split
    · rfl
    · split <;> rfl
  · rfl

theorem finishTxn_accounts {prec : String → Option Nat} {date : Date} {tst : TxnState String String}
    {r : TxnResult String String} (h : finishTxn prec date tst = .ok r) :
    ∀ a ∈ r.txn.postings.map (·.account) ++ AMap.keys r.bal, a ∈ stateAccounts tst := by
  unfold finishTxn at h
  split at h
  · next u _ =>
    simp only at h
    split at h
    · next acct hacct =>
      simp at h
      subst h
      intro a ha
      simp only [List.mem_append] at ha
      rcases ha with ha | ha
      · rw [map_account_modify] at ha
        exact List.mem_append.2 (Or.inl ha)
      · simp only [Balance.addAmount] at ha
        rcases mem_keys_insert _ _ _ a ha with h1 | h1
        · exact List.mem_append.2 (Or.inr h1)
        · subst h1
          refine List.mem_append.2 (Or.inl ?_)
          simp only [Option.map_eq_some_iff] at hacct
          obtain ⟨q, hq, rfl⟩ := hacct
          exact List.mem_map.2 ⟨q, List.mem_of_getElem? hq, rfl⟩
    · simp at h
  · split at h
    · next postings pe hcb =>
      simp at h
      subst h
      have hp : postings.map (·.account) = tst.postings.map (·.account) := by
        unfold checkBalance at hcb
        simp only at hcb
        split at hcb
        · simp at hcb; rw [← hcb.1]
        · split at hcb
          · simp at hcb
            rw [← hcb.1]
            simp [List.map_map, Function.comp_def, fillConverted_account_str]
          · simp at hcb
      intro a ha
      simp only [List.mem_append] at ha
      rcases ha with ha | ha
      · rw [hp] at ha; exact List.mem_append.2 (Or.inl ha)
      · exact List.mem_append.2 (Or.inr ha)
    · simp at h
    · simp at h
    · simp at h

/-- the invariant of `process`: alias records point to canonical records, and every account name in the ledger so far
(keys of the balance, posting accounts of the transactions) is a canonical record. -/
def CanonInv (st : ProcState) : Prop :=
  st.ctx.accounts.AliasWF ∧ ∀ a ∈ ledgerAccounts st, st.ctx.accounts.Canon a

theorem stepEntry_canon {st st' : ProcState} {e : Entry} (h : stepEntry st e = .ok st') (hi : CanonInv st) : CanonInv st' := by
  have hle := stepEntry_le h
  obtain ⟨hw, hc⟩ := hi
  cases e with
  | txn t =>
    simp only [stepEntry] at h
    cases ha : addTransactionSyntax st.ctx st.bal t with
    | ok r =>
      obtain ⟨c', rr⟩ := r
      simp [ha] at h
      subst h
      unfold addTransactionSyntax at ha
      split at ha
      · next c1 tst hl =>
        split at ha
        · next r2 hf =>
          simp at ha
          obtain ⟨rfl, rfl⟩ := ha
          have hloop := loopSyntax_canon t.date t.posts st.ctx c1 _ tst 0 hl hw (by
            intro a ha
            simp only [stateAccounts, List.map_nil, List.nil_append] at ha
            exact hc a (by simp only [ledgerAccounts, List.mem_append]; exact Or.inl (by simpa [AMap.keys] using ha)))
          refine ⟨hloop.1, ?_⟩
          intro a ha
          simp only [ledgerAccounts, List.mem_append, List.flatMap_append, List.flatMap_cons, List.flatMap_nil,
            List.append_nil] at ha
          rcases ha with ha | ha | ha
          · exact hloop.2 a (finishTxn_accounts hf a (List.mem_append.2 (Or.inr (by simpa [AMap.keys] using ha))))
          · exact hle.1 _ _ (hc a (by simp only [ledgerAccounts, List.mem_append]; exact Or.inr ha))
          · exact hloop.2 a (finishTxn_accounts hf a (List.mem_append.2 (Or.inl ha)))
        · simp at ha
        · simp at ha
        · simp at ha
      · simp at ha
      · simp at ha
      · simp at ha
    | err x => simp [ha] at h
    | panic q => simp [ha] at h
    | fuelOut => simp [ha] at h
  | account name details =>
    have hnames : ledgerAccounts st' = ledgerAccounts st := by
      simp only [stepEntry] at h
      split at h
      · split at h <;> simp at h
        rw [← h]; rfl
      · simp at h
      · simp at h
      · simp at h
    refine ⟨?_, fun a ha => hle.1 _ _ (hc a (hnames ▸ ha))⟩
    simp only [stepEntry] at h
    cases hcn : st.ctx.accounts.insertCanonical name with
    | ok r =>
      obtain ⟨k, s1⟩ := r
      simp only [hcn] at h
      split at h
      · next s2 his =>
        simp at h
        rw [← h]
        have h1 := Store.insertCanonical_ok hcn
        exact insertAliases_wf _ s1 s2 k his (Store.insertCanonical_wf hcn hw) (h1.2.1 ▸ h1.2.2)
      · simp at h
      · simp at h
      · simp at h
    | err x => simp [hcn] at h
    | panic q => simp [hcn] at h
    | fuelOut => simp [hcn] at h
  | commodity name details =>
    have hsame : st'.ctx.accounts = st.ctx.accounts ∧ ledgerAccounts st' = ledgerAccounts st := by
      simp only [stepEntry] at h
      split at h
      · split at h
        · next c' hcd =>
          simp at h
          rw [← h]
          exact ⟨(applyCommodityDetails_accounts _ _ _ _ hcd).trans rfl, rfl⟩
        · simp at h
        · simp at h
        · simp at h
      · simp at h
      · simp at h
      · simp at h
    refine ⟨hsame.1 ▸ hw, fun a ha => ?_⟩
    have := hc a (hsame.2 ▸ ha)
    simpa [Store.Canon, hsame.1] using this
  | comment s => simp [stepEntry] at h; rw [← h]; exact ⟨hw, hc⟩
  | applyTag k v => simp [stepEntry] at h; rw [← h]; exact ⟨hw, hc⟩
  | endApplyTag => simp [stepEntry] at h; rw [← h]; exact ⟨hw, hc⟩
  | «include» p => simp [stepEntry] at h; rw [← h]; exact ⟨hw, hc⟩

theorem processFrom_canon : ∀ (es : List Entry) (st st' : ProcState) (i : Nat), processFrom st i es = .ok st' →
    CanonInv st → CanonInv st'
  | [], st, st', i, h, hi => by simp [processFrom] at h; rw [← h]; exact hi
  | e :: es, st, st', i, h, hi => by
    simp only [processFrom] at h
    cases hs : stepEntry st e with
    | ok st1 => simp only [hs] at h; exact processFrom_canon es st1 st' (i + 1) h (stepEntry_canon hs hi)
    | err x => simp [hs] at h
    | panic q => simp [hs] at h
    | fuelOut => simp [hs] at h

end Okane
