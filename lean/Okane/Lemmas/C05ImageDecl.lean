import Okane.Lemmas.C05ImageMeta
import Okane.Lemmas.C05ImageNum
/-!
# Image lemmas for C05, part 7: directives, declarations, top-level comments

* `restOfLine_image` (rest-of-line fields: `include` path, account / commodity name, alias), `multilineText_image`
  (comment and note texts; also: `multiline_text` is greedy — run again where it stopped, it fails);
* `applyTag_image`, `includeDirective_image`, `topComment_image`;
* `accountDeclaration_image`, `commodityDeclaration_image`: every sub-directive is well formed and no two comment (or
  note) sub-directives are adjacent (`noAdjacentA` / `noAdjacentC`), because `multiline_text` is greedy.
-/
set_option linter.unusedSimpArgs false
set_option linter.unusedVariables false
namespace Okane.C05Image
open Okane Okane.Comb Okane.Parse Okane.Unparse

variable {α : Type}

/-! ## rest-of-line fields -/

theorem restOfLine_image {pfx : Parser α} {i r : List Char} {s : String}
    (hpfx : ∀ j a j', pfx j = .ok a j' → Stop isSpace j') (h : restOfLine pfx i = .ok s r) :
    wfRestOfLine s.toList = true := by
  unfold restOfLine at h
  obtain ⟨l, hl, rfl⟩ := map_ok_iff.1 h
  obtain ⟨a, r1, r2, c, hp, htl, _⟩ := delimited_ok_iff.1 hl
  obtain ⟨hr1, hnoeol, _⟩ := tillLineEnding_ok htl
  have hstop : Stop isSpace l := by
    intro c t e
    exact hpfx _ _ _ hp c (t ++ r2) (by rw [hr1, e]; rfl)
  simp only [String.toList_ofList]
  exact trimEnd_wfRestOfLine hnoeol hstop

theorem kwSpace1_stop (kw : List Char) : ∀ j a j', pair (literal kw) space1 j = .ok a j' → Stop isSpace j' := by
  intro j a j' h
  obtain ⟨_, _, h2⟩ := pair_ok_iff.1 h
  exact (space1_ok h2).2.2.2

theorem indentKw_stop (kw : List Char) :
    ∀ j a j', pair space1 (pair (literal kw) space1) j = .ok a j' → Stop isSpace j' := by
  intro j a j' h
  obtain ⟨_, _, h2⟩ := pair_ok_iff.1 h
  exact kwSpace1_stop kw _ _ _ h2

/-! ## multi-line texts -/

theorem splitLines_line : ∀ (l rest cur : List Char), (∀ c ∈ l, c ≠ '\n') →
    splitLines (l ++ '\n' :: rest) cur = (splitLines rest []).map ((cur.reverse ++ l) :: ·) := by
  intro l
  induction l with
  | nil => intro rest cur _; simp [splitLines]
  | cons c t ih =>
    intro rest cur h
    have hc : c ≠ '\n' := h c (by simp)
    have h1 : splitLines (c :: t ++ '\n' :: rest) cur = splitLines (t ++ '\n' :: rest) (c :: cur) := by
      simp [splitLines, hc]
    rw [h1, ih rest (c :: cur) (fun d hd => h d (by simp [hd]))]
    simp

theorem splitLines_flatMap (ls : List (List Char)) (h : ∀ l ∈ ls, ∀ c ∈ l, c ≠ '\n') :
    splitLines (ls.flatMap (· ++ ['\n'])) [] = some ls := by
  induction ls with
  | nil => simp [splitLines]
  | cons l t ih =>
    have := splitLines_line l (t.flatMap (· ++ ['\n'])) [] (h l (by simp))
    simp only [List.flatMap_cons, List.append_assoc, List.cons_append, List.nil_append] at this ⊢
    rw [this, ih (fun x hx => h x (by simp [hx]))]
    simp

/-- **image of `multiline_text(prefix)`**: a well-formed multi-line text, and the parser is greedy -/
theorem multilineText_image {pfx : Parser α} {startBad : Char → Bool} {i r : List Char} {s : String}
    (hpfx : ∀ j a j', pfx j = .ok a j' → Stop startBad j') (h : multilineText pfx i = .ok s r) :
    wfMultiline startBad s.toList = true ∧ ∃ z, multilineText pfx r = .bt z := by
  unfold multilineText at h ⊢
  obtain ⟨ls, hrep, rfl⟩ := map_ok_iff.1 h
  obtain ⟨hne, hsteps, z, hz⟩ := repeat1_ok hrep
  refine ⟨?_, z, by simp only [map_apply, repeat1_bt hz, Res.map_bt]⟩
  have hlines := (Steps.forall
    (Q := fun l : List Char => (∀ c ∈ l, isEol c = false) ∧ Stop startBad l) (S := fun _ => True)
    (fun j l r _ hp => by
      obtain ⟨a, r1, r2, c, hpf, htl, _⟩ := delimited_ok_iff.1 hp
      obtain ⟨hr1, hnoeol, _⟩ := tillLineEnding_ok htl
      refine ⟨⟨hnoeol, ?_⟩, trivial⟩
      intro c t e
      exact hpfx _ _ _ hpf c (t ++ r2) (by rw [hr1, e]; rfl))
    hsteps trivial).1
  have hnl : ∀ l ∈ ls, ∀ c ∈ l, c ≠ '\n' := by
    intro l hl c hc e
    have := (hlines l hl).1 c hc
    simp [isEol, e] at this
  simp only [wfMultiline, String.toList_ofList, splitLines_flatMap ls hnl, Bool.and_eq_true, Bool.not_eq_true',
    List.all_eq_true]
  refine ⟨by cases ls <;> simp_all, ?_⟩
  intro l hl
  refine ⟨?_, ?_⟩
  · intro c hc
    have := (hlines l hl).1 c hc
    simp only [isEol, Bool.or_eq_false_iff, beq_eq_false_iff_ne] at this
    simpa using this.1
  · cases l with
    | nil => rfl
    | cons c t => simpa using (hlines (c :: t) hl).2 c t rfl

theorem commentPfx_stop : ∀ j a j', pair space1 (takeWhile1 isCommentPrefix) j = .ok a j' → Stop isCommentPrefix j' := by
  intro j a j' h
  obtain ⟨_, _, h2⟩ := pair_ok_iff.1 h
  exact (takeWhile1_ok h2).2.2.2

theorem detailComment_image {i r : List Char} {s : String} (h : detailComment i = .ok s r) :
    wfMultiline isCommentPrefix s.toList = true ∧ ∃ z, detailComment r = .bt z :=
  multilineText_image commentPfx_stop h

theorem detailNote_image {i r : List Char} {s : String} (h : detailNote i = .ok s r) :
    wfMultiline isSpace s.toList = true ∧ ∃ z, detailNote r = .bt z :=
  multilineText_image (indentKw_stop kwNote) h

theorem detailAlias_image {i r : List Char} {s : String} (h : detailAlias i = .ok s r) : wfRestOfLine s.toList = true :=
  restOfLine_image (indentKw_stop kwAlias) h

/-! ## directives -/

theorem includeDirective_image {i r : List Char} {e : Entry} (h : includeDirective i = .ok e r) : wfEntry e = true := by
  unfold includeDirective at h
  obtain ⟨s, hs, rfl⟩ := map_ok_iff.1 h
  simpa only [wfEntry] using restOfLine_image (kwSpace1_stop kwInclude) hs

theorem topComment_image {i r : List Char} {e : Entry} (h : topComment i = .ok e r) : wfEntry e = true := by
  unfold topComment at h
  obtain ⟨s, hs, rfl⟩ := map_ok_iff.1 h
  simpa only [wfEntry] using
    (multilineText_image (startBad := isCommentPrefix) (fun j a j' hj => (takeWhile1_ok hj).2.2.2) hs).1

theorem endApplyTag_image {i r : List Char} {e : Entry} (h : endApplyTag i = .ok e r) : wfEntry e = true := by
  unfold endApplyTag at h
  rw [(value_ok_iff.1 h).2]
  rfl

theorem applyTag_image {i r : List Char} {e : Entry} (h : applyTag i = .ok e r) : wfEntry e = true := by
  unfold applyTag at h
  simp only [bind_ok_iff, pure_ok_iff] at h
  obtain ⟨key, r1, hk, v, r2, hv, rfl, _⟩ := h
  obtain ⟨_, _, _, hkey⟩ := preceded_ok_iff.1 hk
  obtain ⟨_, _, _, _, _, hopt, _⟩ := delimited_ok_iff.1 hv
  simp only [wfEntry, String.toList_ofList, (tagKey_image hkey).1, Bool.true_and]
  rcases opt_ok_iff.1 hopt with ⟨x, hx, rfl⟩ | ⟨_, rfl, _⟩
  · exact metadataValue_image hx
  · rfl

/-! ## account declarations -/

def elemA : Parser AccountDetail :=
  map AccountDetail.comment detailComment <|| map AccountDetail.note detailNote <|| map AccountDetail.alias detailAlias

theorem elemA_inv {j r : List Char} {a : AccountDetail} (h : elemA j = .ok a r) :
    (∃ s, a = .comment s ∧ detailComment j = .ok s r) ∨
    (∃ s, a = .note s ∧ (∃ z, detailComment j = .bt z) ∧ detailNote j = .ok s r) ∨
    (∃ s, a = .alias s ∧ detailAlias j = .ok s r) := by
  unfold elemA at h
  rcases alt2_ok_iff.1 h with h1 | ⟨⟨z, hz⟩, h2⟩
  · obtain ⟨s, hs, rfl⟩ := map_ok_iff.1 h1
    exact Or.inl ⟨s, rfl, hs⟩
  · have hcbt : ∃ z, detailComment j = .bt z := by
      cases hc : detailComment j with
      | bt q => exact ⟨q, rfl⟩
      | ok a r => simp [hc] at hz
      | cut q => simp [hc] at hz
      | panic q => simp [hc] at hz
      | fuel => simp [hc] at hz
    rcases alt2_ok_iff.1 h2 with h3 | ⟨_, h3⟩
    · obtain ⟨s, hs, rfl⟩ := map_ok_iff.1 h3
      exact Or.inr (Or.inl ⟨s, rfl, hcbt, hs⟩)
    · obtain ⟨s, hs, rfl⟩ := map_ok_iff.1 h3
      exact Or.inr (Or.inr ⟨s, rfl, hs⟩)

theorem elemA_wf {j r : List Char} {a : AccountDetail} (h : elemA j = .ok a r) : wfAccountDetail a = true := by
  rcases elemA_inv h with ⟨s, rfl, hs⟩ | ⟨s, rfl, _, hs⟩ | ⟨s, rfl, hs⟩
  · exact (detailComment_image hs).1
  · exact (detailNote_image hs).1
  · exact detailAlias_image hs

theorem noAdjacentA_single (a : AccountDetail) : noAdjacentA [a] = true := by
  cases a <;> simp [noAdjacentA]

theorem noAdjacentA_cons {a b : AccountDetail} {bs : List AccountDetail}
    (h1 : ∀ s s', ¬ (a = .comment s ∧ b = .comment s')) (h2 : ∀ s s', ¬ (a = .note s ∧ b = .note s')) :
    noAdjacentA (a :: b :: bs) = noAdjacentA (b :: bs) := by
  rw [noAdjacentA]
  · intro s s' t ea e
    simp only [List.cons.injEq] at e
    exact h1 s s' ⟨ea, e.1⟩
  · intro s s' t ea e
    simp only [List.cons.injEq] at e
    exact h2 s s' ⟨ea, e.1⟩

theorem stepsA_noAdjacent {j r : List Char} {ds : List AccountDetail} (h : Steps elemA j ds r) :
    noAdjacentA ds = true := by
  induction h with
  | nil i => rfl
  | cons hp hs ih =>
    rename_i i r1 r' a as
    cases hs with
    | nil _ => exact noAdjacentA_single a
    | cons hp2 hs2 =>
      rename_i r2 b bs
      rw [noAdjacentA_cons]
      · exact ih
      · rintro s s' ⟨rfl, rfl⟩
        rcases elemA_inv hp with ⟨s1, e1, hs1⟩ | ⟨s1, e1, _⟩ | ⟨s1, e1, _⟩
        · obtain ⟨z, hz⟩ := (detailComment_image hs1).2
          rcases elemA_inv hp2 with ⟨s2, e2, hs2'⟩ | ⟨s2, e2, _⟩ | ⟨s2, e2, _⟩
          · rw [hz] at hs2'; cases hs2'
          · cases e2
          · cases e2
        · cases e1
        · cases e1
      · rintro s s' ⟨rfl, rfl⟩
        rcases elemA_inv hp with ⟨s1, e1, _⟩ | ⟨s1, e1, _, hs1⟩ | ⟨s1, e1, _⟩
        · cases e1
        · obtain ⟨z, hz⟩ := (detailNote_image hs1).2
          rcases elemA_inv hp2 with ⟨s2, e2, _⟩ | ⟨s2, e2, _, hs2'⟩ | ⟨s2, e2, _⟩
          · cases e2
          · rw [hz] at hs2'; cases hs2'
          · cases e2
        · cases e1

/-- **image of `directive::account_declaration`** -/
theorem accountDeclaration_image {i r : List Char} {e : Entry} (h : accountDeclaration i = .ok e r) : wfEntry e = true := by
  have hdef : accountDeclaration = (restOfLine (pair (literal kwAccount) space1) >>- fun name =>
      repeat0 elemA >>- fun details => pure (Entry.account name details)) := rfl
  rw [hdef] at h
  simp only [bind_ok_iff, pure_ok_iff] at h
  obtain ⟨name, r1, hn, ds, r2, hds, rfl, _⟩ := h
  obtain ⟨hsteps, _⟩ := repeat0_ok hds
  have hall := (Steps.forall (Q := fun a => wfAccountDetail a = true) (S := fun _ => True)
    (fun j a r _ hp => ⟨elemA_wf hp, trivial⟩) hsteps trivial).1
  simp only [wfEntry, wfAccountName, Bool.and_eq_true, List.all_eq_true]
  exact ⟨⟨restOfLine_image (kwSpace1_stop kwAccount) hn, hall⟩, stepsA_noAdjacent hsteps⟩

/-! ## commodity declarations -/

def formatLine : Parser (PDec × String) :=
  delimited (pair space1 (pair (literal kwFormat) space1)) amount lineEndingOrEof

def elemC : Parser CommodityDetail :=
  map CommodityDetail.comment detailComment <|| map CommodityDetail.note detailNote
    <|| map CommodityDetail.alias detailAlias <|| map (fun (d, c) => CommodityDetail.format d c) formatLine

/-- the normalisation `canonEntry` applies to the sub-directives of a commodity declaration -/
def canonDetail : CommodityDetail → CommodityDetail
  | .format d c => .format (canonPDec d) c
  | x => x

theorem canonEntry_commodity (n : String) (ds : List CommodityDetail) :
    canonEntry (.commodity n ds) = .commodity n (ds.map canonDetail) := by
  simp only [canonEntry]
  congr 1

theorem elemC_inv {j r : List Char} {a : CommodityDetail} (h : elemC j = .ok a r) :
    (∃ s, a = .comment s ∧ detailComment j = .ok s r) ∨
    (∃ s, a = .note s ∧ (∃ z, detailComment j = .bt z) ∧ detailNote j = .ok s r) ∨
    (∃ s, a = .alias s ∧ detailAlias j = .ok s r) ∨
    (∃ d c, a = .format d c ∧ formatLine j = .ok (d, c) r) := by
  unfold elemC at h
  rcases alt2_ok_iff.1 h with h1 | ⟨⟨z, hz⟩, h2⟩
  · obtain ⟨s, hs, rfl⟩ := map_ok_iff.1 h1
    exact Or.inl ⟨s, rfl, hs⟩
  · have hcbt : ∃ z, detailComment j = .bt z := by
      cases hc : detailComment j with
      | bt q => exact ⟨q, rfl⟩
      | ok a r => simp [hc] at hz
      | cut q => simp [hc] at hz
      | panic q => simp [hc] at hz
      | fuel => simp [hc] at hz
    rcases alt2_ok_iff.1 h2 with h3 | ⟨_, h3⟩
    · obtain ⟨s, hs, rfl⟩ := map_ok_iff.1 h3
      exact Or.inr (Or.inl ⟨s, rfl, hcbt, hs⟩)
    · rcases alt2_ok_iff.1 h3 with h4 | ⟨_, h4⟩
      · obtain ⟨s, hs, rfl⟩ := map_ok_iff.1 h4
        exact Or.inr (Or.inr (Or.inl ⟨s, rfl, hs⟩))
      · obtain ⟨⟨d, c⟩, hs, rfl⟩ := map_ok_iff.1 h4
        exact Or.inr (Or.inr (Or.inr ⟨d, c, rfl, hs⟩))

theorem elemC_wf {j r : List Char} {a : CommodityDetail} (h : elemC j = .ok a r) :
    wfCommodityDetail (canonDetail a) = true := by
  rcases elemC_inv h with ⟨s, rfl, hs⟩ | ⟨s, rfl, _, hs⟩ | ⟨s, rfl, hs⟩ | ⟨d, c, rfl, hs⟩
  · exact (detailComment_image hs).1
  · exact (detailNote_image hs).1
  · exact detailAlias_image hs
  · unfold formatLine at hs
    obtain ⟨_, _, _, _, _, ham, _⟩ := delimited_ok_iff.1 hs
    obtain ⟨h1, h2⟩ := parseAmount_canon ham
    simp only [canonDetail, wfCommodityDetail, h1, h2, Bool.and_self]

theorem noAdjacentC_single (a : CommodityDetail) : noAdjacentC [a] = true := by
  cases a <;> simp [noAdjacentC]

theorem noAdjacentC_cons {a b : CommodityDetail} {bs : List CommodityDetail}
    (h1 : ∀ s s', ¬ (a = .comment s ∧ b = .comment s')) (h2 : ∀ s s', ¬ (a = .note s ∧ b = .note s')) :
    noAdjacentC (a :: b :: bs) = noAdjacentC (b :: bs) := by
  rw [noAdjacentC]
  · intro s s' t ea e
    simp only [List.cons.injEq] at e
    exact h1 s s' ⟨ea, e.1⟩
  · intro s s' t ea e
    simp only [List.cons.injEq] at e
    exact h2 s s' ⟨ea, e.1⟩

theorem canonDetail_comment {a : CommodityDetail} {s : String} (h : canonDetail a = .comment s) : a = .comment s := by
  cases a <;> simp_all [canonDetail]

theorem canonDetail_note {a : CommodityDetail} {s : String} (h : canonDetail a = .note s) : a = .note s := by
  cases a <;> simp_all [canonDetail]

theorem stepsC_noAdjacent {j r : List Char} {ds : List CommodityDetail} (h : Steps elemC j ds r) :
    noAdjacentC (ds.map canonDetail) = true := by
  induction h with
  | nil i => rfl
  | cons hp hs ih =>
    rename_i i r1 r' a as
    cases hs with
    | nil _ => exact noAdjacentC_single _
    | cons hp2 hs2 =>
      rename_i r2 b bs
      simp only [List.map_cons] at ih ⊢
      rw [noAdjacentC_cons]
      · exact ih
      · rintro s s' ⟨ea, eb⟩
        have ea' := canonDetail_comment ea
        have eb' := canonDetail_comment eb
        subst ea' eb'
        rcases elemC_inv hp with ⟨s1, e1, hs1⟩ | ⟨s1, e1, _⟩ | ⟨s1, e1, _⟩ | ⟨d, c, e1, _⟩
        · obtain ⟨z, hz⟩ := (detailComment_image hs1).2
          rcases elemC_inv hp2 with ⟨s2, e2, hs2'⟩ | ⟨s2, e2, _⟩ | ⟨s2, e2, _⟩ | ⟨d, c, e2, _⟩
          · rw [hz] at hs2'; cases hs2'
          · cases e2
          · cases e2
          · cases e2
        · cases e1
        · cases e1
        · cases e1
      · rintro s s' ⟨ea, eb⟩
        have ea' := canonDetail_note ea
        have eb' := canonDetail_note eb
        subst ea' eb'
        rcases elemC_inv hp with ⟨s1, e1, _⟩ | ⟨s1, e1, _, hs1⟩ | ⟨s1, e1, _⟩ | ⟨d, c, e1, _⟩
        · cases e1
        · obtain ⟨z, hz⟩ := (detailNote_image hs1).2
          rcases elemC_inv hp2 with ⟨s2, e2, _⟩ | ⟨s2, e2, _, hs2'⟩ | ⟨s2, e2, _⟩ | ⟨d, c, e2, _⟩
          · cases e2
          · rw [hz] at hs2'; cases hs2'
          · cases e2
          · cases e2
        · cases e1
        · cases e1

/-- **image of `directive::commodity_declaration`** -/
theorem commodityDeclaration_image {i r : List Char} {e : Entry} (h : commodityDeclaration i = .ok e r) :
    wfEntry (canonEntry e) = true := by
  have hdef : commodityDeclaration = (restOfLine (pair (literal kwCommodity) space1) >>- fun name =>
      repeat0 elemC >>- fun details => pure (Entry.commodity name details)) := rfl
  rw [hdef] at h
  simp only [bind_ok_iff, pure_ok_iff] at h
  obtain ⟨name, r1, hn, ds, r2, hds, rfl, _⟩ := h
  obtain ⟨hsteps, _⟩ := repeat0_ok hds
  have hall := (Steps.forall (Q := fun a => wfCommodityDetail (canonDetail a) = true) (S := fun _ => True)
    (fun j a r _ hp => ⟨elemC_wf hp, trivial⟩) hsteps trivial).1
  rw [canonEntry_commodity]
  simp only [wfEntry, wfAccountName, Bool.and_eq_true, List.all_eq_true]
  refine ⟨⟨restOfLine_image (kwSpace1_stop kwCommodity) hn, ?_⟩, stepsC_noAdjacent hsteps⟩
  intro d hd
  obtain ⟨d', hd', rfl⟩ := List.mem_map.mp hd
  exact hall d' hd'

example : (match accountDeclaration "account A:B \n ; c1\n ; c2\n note n\n alias x \n".toList with
    | .ok e [] => e == .account "A:B" [.comment " c1\n c2\n", .note "n\n", .alias "x"]
    | _ => false) = true := by decide +kernel

example : (match commodityDeclaration "commodity USD\n format 0,100.00 USD\n".toList with
    | .ok e [] => e == .commodity "USD" [.format ⟨false, 10000, 2, some .comma3dot⟩ "USD"]
    | _ => false) = true := by decide +kernel

end Okane.C05Image
