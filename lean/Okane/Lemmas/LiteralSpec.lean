import Okane.Lemmas.Literal
/-!
# C07 — reduction of the scanner's closed form (`bodySpec`) to the split-style predicates of `Spec/Literal.lean`

Main result: `bodySpec_eq_spec` — for every body `b` (the text after the optional minus)
`bodySpec n pl b = if bWF b ∧ fraction ≤ 28 places ∧ mantissa < 2^96 then some ⟨…as written…⟩ else none`,
where `bWF`, `bFracPart`, `bMant`, `bFmt` are literally the `Spec` predicates on the body.
-/
set_option linter.unusedSimpArgs false
namespace Okane.C07
open Okane Okane.Literal

/-! ## the `Spec` predicates on the body (text after the optional minus) -/

def bIntPart (b : List Char) : List Char := b.takeWhile (· != '.')
def bFracPart (b : List Char) : List Char := (b.dropWhile (· != '.')).drop 1
def bWF (b : List Char) : Bool :=
  Spec.intOk (bIntPart b) && (bFracPart b).all Char.isDigit && b.any Char.isDigit
def bMant (b : List Char) : Nat := foldMant 0 (b.filter Char.isDigit)
def bFmt (b : List Char) : Option Fmt :=
  if b.contains ',' then some .comma3dot else if (bIntPart b).length ≥ 4 then some .plain else none
def bRep (b : List Char) : Bool := decide ((bFracPart b).length ≤ 28) && decide (bMant b < 2 ^ 96)
def bDec (n : Bool) (b : List Char) : PDec :=
  { neg := n && bMant b != 0, mant := bMant b, scale := (bFracPart b).length, fmt := bFmt b }

/-! ## `finish` in closed form -/

theorem acc_finish (st : St) (len : Nat) :
    acc (finish st len) =
      if st.hasDigit = true ∧ (∀ cp, st.commaPos = some cp → cp = len) ∧ st.scale.getD 0 ≤ 28 ∧ st.mant < 2 ^ 96 then
        some { neg := st.neg && st.mant != 0, mant := st.mant, scale := st.scale.getD 0, fmt := st.fmt }
      else none := by
  unfold finish
  by_cases h1 : st.hasDigit = true
  · by_cases h2 : ∀ cp, st.commaPos = some cp → cp = len
    · have h2' : ¬ (∃ cp, st.commaPos = some cp ∧ cp ≠ len) := by
        intro ⟨cp, a, b⟩; exact b (h2 cp a)
      by_cases h3 : st.scale.getD 0 ≤ 28
      · by_cases h4 : st.mant < 2 ^ 96
        · have h4' : ¬ (st.mant > maxMant) := by simp only [maxMant]; omega
          have h3' : ¬ (st.scale.getD 0 > maxScale) := by simp only [maxScale]; omega
          simp [h1, h2', h3, h4, h4', h3', acc]
        · have h4' : st.mant > maxMant := by simp only [maxMant]; omega
          have h3' : ¬ (st.scale.getD 0 > maxScale) := by simp only [maxScale]; omega
          simp [h1, h2', h3', h4, h4', acc]
      · have h3' : st.scale.getD 0 > maxScale := by simp only [maxScale]; omega
        simp [h1, h2', h3, h3', acc]
    · have h2' : ∃ cp, st.commaPos = some cp ∧ cp ≠ len := by
        simp only [Classical.not_forall] at h2
        obtain ⟨cp, ha, hb⟩ := h2
        exact ⟨cp, ha, hb⟩
      simp [h2, h2', acc]
  · have h1' : st.hasDigit = false := by simpa using h1
    simp [h1', acc]


/-! ## list helpers -/

theorem isDigit_ne_dot {c : Char} (h : c.isDigit = true) : (c != '.') = true := by
  have := (digit_ne h).2.2
  simpa using this

theorem isDigit_ne_comma {c : Char} (h : c.isDigit = true) : (c == ',') = false := by
  have := (digit_ne h).2.1
  simpa using this

theorem all_ne_dot_of_digits {g : List Char} (h : g.all Char.isDigit = true) :
    ∀ a ∈ g, (a != '.') = true := by
  intro a ha
  exact isDigit_ne_dot (List.all_eq_true.mp h a ha)

theorem mem_digits_of_all {g : List Char} (h : g.all Char.isDigit = true) :
    ∀ a ∈ g, Char.isDigit a = true := List.all_eq_true.mp h

theorem contains_comma_digits {g : List Char} (h : g.all Char.isDigit = true) : g.contains ',' = false := by
  induction g with
  | nil => rfl
  | cons c cs ih =>
    simp only [List.all_cons, Bool.and_eq_true] at h
    have := (digit_ne h.1).2.1
    have ih' := ih h.2
    simp only [List.contains_cons, ih', Bool.or_false]
    simpa using Ne.symm this

theorem any_digits {g : List Char} (h : g.all Char.isDigit = true) : g.any Char.isDigit = !g.isEmpty := by
  cases g with
  | nil => rfl
  | cons c cs =>
    simp only [List.all_cons, Bool.and_eq_true] at h
    simp [h.1]

theorem tw_cons_pos (a : Char) (l : List Char) (h : a ≠ '.') :
    (a :: l).takeWhile (· != '.') = a :: l.takeWhile (· != '.') :=
  List.takeWhile_cons_of_pos (p := fun x => x != '.') (by simpa using h)
theorem dw_cons_pos (a : Char) (l : List Char) (h : a ≠ '.') :
    (a :: l).dropWhile (· != '.') = l.dropWhile (· != '.') :=
  List.dropWhile_cons_of_pos (p := fun x => x != '.') (by simpa using h)
theorem tw_cons_dot (l : List Char) : ('.' :: l).takeWhile (· != '.') = [] :=
  List.takeWhile_cons_of_neg (p := fun x => x != '.') (by simp)
theorem dw_cons_dot (l : List Char) : ('.' :: l).dropWhile (· != '.') = '.' :: l :=
  List.dropWhile_cons_of_neg (p := fun x => x != '.') (by simp)
theorem tw_cons_digit (a : Char) (l : List Char) (h : a.isDigit = true) :
    (a :: l).takeWhile (· != '.') = a :: l.takeWhile (· != '.') := tw_cons_pos a l (digit_ne h).2.2
theorem dw_cons_digit (a : Char) (l : List Char) (h : a.isDigit = true) :
    (a :: l).dropWhile (· != '.') = l.dropWhile (· != '.') := dw_cons_pos a l (digit_ne h).2.2

/-! ## `tailSpec` / `tailScale` against the split view -/

theorem tailSpec_split : ∀ (t : List Char),
    tailSpec t = (Spec.groupsOk (t.takeWhile (· != '.')) && ((t.dropWhile (· != '.')).drop 1).all Char.isDigit) := by
  intro t
  fun_induction tailSpec t with
  | case1 => rfl
  | case2 fp => simp [Spec.groupsOk]
  | case3 a b c tl ih =>
    have hd : ('.' : Char).isDigit = false := by decide
    by_cases ha : a = '.'
    · subst ha
      simp [tw_cons_pos, tw_cons_dot, Spec.groupsOk, hd]
    · by_cases hb : b = '.'
      · subst hb
        simp [tw_cons_pos, tw_cons_dot, Spec.groupsOk, hd, ha]
      · by_cases hc : c = '.'
        · subst hc
          simp [tw_cons_pos, tw_cons_dot, Spec.groupsOk, hd, ha, hb]
        · rw [tw_cons_pos _ _ (by decide), tw_cons_pos _ _ ha, tw_cons_pos _ _ hb, tw_cons_pos _ _ hc,
            dw_cons_pos _ _ (by decide), dw_cons_pos _ _ ha, dw_cons_pos _ _ hb, dw_cons_pos _ _ hc, ih]
          simp [Spec.groupsOk, Bool.and_assoc]
  | case4 t h1 h2 h3 =>
    match t, h1, h2, h3 with
    | [], h1, _, _ => exact absurd rfl h1
    | x :: xs, _, h2, h3 =>
      have hx : x ≠ '.' := fun h => h2 xs (by rw [h])
      by_cases hc : x = ','
      · subst hc
        match xs, h3 with
        | [], _ => simp [Spec.groupsOk]
        | [a], _ => by_cases ha : a = '.' <;> simp [Spec.groupsOk, ha]
        | [a, b], _ => by_cases ha : a = '.' <;> by_cases hb : b = '.' <;> simp [Spec.groupsOk, ha, hb]
        | a :: b :: c :: tl, h3 => exact absurd rfl (h3 a b c tl)
      · rw [tw_cons_pos _ _ hx]
        have : Spec.groupsOk (x :: List.takeWhile (fun x => x != '.') xs) = false := by
          unfold Spec.groupsOk
          split <;> simp_all
        simp [this]


theorem tailScale_split : ∀ (t : List Char), tailSpec t = true →
    (tailScale t).getD 0 = ((t.dropWhile (· != '.')).drop 1).length := by
  intro t
  fun_induction tailSpec t with
  | case1 => intro _; rfl
  | case2 fp => intro _; simp [tailScale, dw_cons_dot]
  | case3 a b c tl ih =>
    intro h
    simp only [Bool.and_eq_true] at h
    obtain ⟨⟨⟨ha, hb⟩, hc⟩, ht⟩ := h
    rw [dw_cons_pos _ _ (by decide), dw_cons_digit _ _ ha, dw_cons_digit _ _ hb, dw_cons_digit _ _ hc, ← ih ht]
    simp [tailScale]
  | case4 t h1 h2 h3 => intro h; simp at h

/-- `intOk` of a digit run followed by something that does not start with a digit -/
theorem intOk_append (g x : List Char) (hg : g.all Char.isDigit = true)
    (hx : ∀ c cs, x = c :: cs → c.isDigit = false) :
    Spec.intOk (g ++ x) = (x.isEmpty || (decide (1 ≤ g.length) && decide (g.length ≤ 3) && Spec.groupsOk x)) := by
  have h1 : (g ++ x).takeWhile Char.isDigit = g := by
    rw [List.takeWhile_append_of_pos (mem_digits_of_all hg)]
    cases x with
    | nil => simp
    | cons c cs => rw [List.takeWhile_cons_of_neg (by simp [hx c cs rfl])]; simp
  have h2 : (g ++ x).dropWhile Char.isDigit = x := by
    rw [List.dropWhile_append_of_pos (mem_digits_of_all hg)]
    cases x with
    | nil => simp
    | cons c cs => rw [List.dropWhile_cons_of_neg (by simp [hx c cs rfl])]
  unfold Spec.intOk
  simp only [h1, h2]

/-- `bodySpec` with the digit run and the remainder named -/
def bodyForm (n : Bool) (pl : Nat) (g r : List Char) : Option PDec :=
  let st1 : St := { prefixLen := pl, neg := n, mant := foldMant 0 g, hasDigit := !g.isEmpty,
                    fmt := if g.length ≥ 4 then some Fmt.plain else none }
  if foldMant 0 g ≤ i128Max then
    match r with
    | [] => acc (finish st1 (pl + g.length))
    | '.' :: fp =>
      if fp.all Char.isDigit = true ∧ foldMant (foldMant 0 g) fp ≤ i128Max then
        acc (finish { st1 with scale := some fp.length, mant := foldMant (foldMant 0 g) fp,
                               hasDigit := !g.isEmpty || !fp.isEmpty } (pl + g.length + (fp.length + 1)))
      else none
    | ',' :: cs =>
      if 1 ≤ g.length ∧ g.length ≤ 3 ∧ tailSpec (',' :: cs) = true ∧
          foldMant (foldMant 0 g) (cs.filter Char.isDigit) ≤ i128Max then
        acc (finish { st1 with commaPos := if cs.contains '.' then none else some (pl + g.length + (cs.length + 1)),
                               mant := foldMant (foldMant 0 g) (cs.filter Char.isDigit),
                               scale := tailScale (',' :: cs), fmt := some .comma3dot, hasDigit := true }
                    (pl + g.length + (cs.length + 1)))
      else none
    | _ => none
  else none

theorem bodySpec_eq_bodyForm (n : Bool) (pl : Nat) (b : List Char) :
    bodySpec n pl b = bodyForm n pl (b.takeWhile Char.isDigit) (b.dropWhile Char.isDigit) := rfl

theorem i128_of_lt {m : Nat} (h : m < 2 ^ 96) : m ≤ i128Max := by
  simp only [i128Max]; omega

section shape
variable (g r : List Char) (hg : g.all Char.isDigit = true)
include hg

theorem bIntPart_append : bIntPart (g ++ r) = g ++ r.takeWhile (· != '.') := by
  unfold bIntPart
  exact List.takeWhile_append_of_pos (p := fun x => x != '.') (all_ne_dot_of_digits hg)

theorem bFracPart_append : bFracPart (g ++ r) = (r.dropWhile (· != '.')).drop 1 := by
  unfold bFracPart
  rw [List.dropWhile_append_of_pos (p := fun x => x != '.') (all_ne_dot_of_digits hg)]

theorem bMant_append : bMant (g ++ r) = foldMant (foldMant 0 g) (r.filter Char.isDigit) := by
  unfold bMant
  rw [List.filter_append, filter_digits_of_all g hg, foldMant_append]

theorem contains_comma_append : (g ++ r).contains ',' = r.contains ',' := by
  rw [List.contains_append, contains_comma_digits hg, Bool.false_or]

theorem any_append_digits : (g ++ r).any Char.isDigit = (!g.isEmpty || r.any Char.isDigit) := by
  rw [List.any_append, any_digits hg]

end shape


theorem bodyForm_nil (n : Bool) (pl : Nat) (g : List Char) (hg : g.all Char.isDigit = true) :
    bodyForm n pl g [] = if bWF g = true ∧ bRep g = true then some (bDec n g) else none := by
  have e1 := bIntPart_append g [] hg
  have e2 := bFracPart_append g [] hg
  have e3 := bMant_append g [] hg
  have e4 := contains_comma_append g [] hg
  have e5 := any_append_digits g [] hg
  have e6 := intOk_append g [] hg (by intro c cs h; simp at h)
  simp only [List.takeWhile_nil, List.append_nil, List.dropWhile_nil, List.drop_nil, List.filter_nil, foldMant_nil,
    List.contains_nil, List.any_nil, Bool.or_false, List.isEmpty_nil, Bool.true_or] at e1 e2 e3 e4 e5 e6
  unfold bodyForm bWF bRep bDec bFmt
  rw [e1, e2, e3, e4, e5, e6]
  simp only [acc_finish]
  by_cases hm : foldMant 0 g < 2 ^ 96
  · have := i128_of_lt hm
    simp [hm, this]
  · simp [hm]


theorem bodyForm_dot (n : Bool) (pl : Nat) (g fp : List Char) (hg : g.all Char.isDigit = true) :
    bodyForm n pl g ('.' :: fp) =
      if bWF (g ++ '.' :: fp) = true ∧ bRep (g ++ '.' :: fp) = true then some (bDec n (g ++ '.' :: fp)) else none := by
  have hd : ('.' : Char).isDigit = false := by decide
  have e1 := bIntPart_append g ('.' :: fp) hg
  have e2 := bFracPart_append g ('.' :: fp) hg
  have e3 := bMant_append g ('.' :: fp) hg
  have e4 := contains_comma_append g ('.' :: fp) hg
  have e5 := any_append_digits g ('.' :: fp) hg
  have e6 := intOk_append g [] hg (by intro c cs h; simp at h)
  rw [tw_cons_dot] at e1
  rw [dw_cons_dot] at e2
  simp only [List.append_nil, List.drop_succ_cons, List.drop_zero, List.isEmpty_nil, Bool.true_or] at e1 e2 e6
  unfold bodyForm bWF bRep bDec bFmt
  rw [e1, e2, e3, e4, e5, e6]
  simp only [acc_finish]
  by_cases hall : fp.all Char.isDigit = true
  · have f1 : ('.' :: fp).filter Char.isDigit = fp := by
      rw [List.filter_cons_of_neg (by simp [hd]), filter_digits_of_all fp hall]
    have f2 : ('.' :: fp).contains ',' = false := by
      have := contains_comma_digits hall
      rw [List.contains_cons, this]; decide
    have f3 : ('.' :: fp).any Char.isDigit = !fp.isEmpty := by
      simp only [List.any_cons, hd, Bool.false_or]; exact any_digits hall
    rw [f1, f2, f3]
    by_cases hm : foldMant (foldMant 0 g) fp < 2 ^ 96
    · have h1 := i128_of_lt hm
      have h2 : foldMant 0 g ≤ i128Max := Nat.le_trans (foldMant_ge _ fp) h1
      simp [hm, h1, h2, hall]
    · simp [hm, hall]
  · simp [hall]


theorem bodyForm_comma (n : Bool) (pl : Nat) (g cs : List Char) (hg : g.all Char.isDigit = true) :
    bodyForm n pl g (',' :: cs) =
      if bWF (g ++ ',' :: cs) = true ∧ bRep (g ++ ',' :: cs) = true then some (bDec n (g ++ ',' :: cs)) else none := by
  have hd : (',' : Char).isDigit = false := by decide
  have e1 := bIntPart_append g (',' :: cs) hg
  have e2 := bFracPart_append g (',' :: cs) hg
  have e3 := bMant_append g (',' :: cs) hg
  have e4 := contains_comma_append g (',' :: cs) hg
  have e5 := any_append_digits g (',' :: cs) hg
  have htw : (',' :: cs).takeWhile (· != '.') = ',' :: cs.takeWhile (· != '.') := tw_cons_pos _ _ (by decide)
  have e6 := intOk_append g ((',' :: cs).takeWhile (· != '.')) hg (by
    intro c cs' h; rw [htw] at h; injection h with h1 _; rw [← h1]; exact hd)
  have e7 := tailSpec_split (',' :: cs)
  have f1 : (',' :: cs).filter Char.isDigit = cs.filter Char.isDigit := List.filter_cons_of_neg (by simp [hd])
  have f2 : (',' :: cs).contains ',' = true := by simp
  have f3 : ((',' :: cs).takeWhile (· != '.')).isEmpty = false := by rw [htw]; rfl
  rw [f1] at e3
  rw [f2] at e4
  rw [f3, Bool.false_or] at e6
  unfold bodyForm bWF bRep bDec bFmt
  rw [e1, e2, e3, e4, e5, e6]
  simp only [acc_finish]
  by_cases hts : tailSpec (',' :: cs) = true
  · have e8 := tailScale_split (',' :: cs) hts
    rw [e7] at hts
    simp only [Bool.and_eq_true] at hts
    by_cases hlen : 1 ≤ g.length ∧ g.length ≤ 3
    · have hne : g.isEmpty = false := by cases g <;> simp_all
      by_cases hm : foldMant (foldMant 0 g) (cs.filter Char.isDigit) < 2 ^ 96
      · have h1 := i128_of_lt hm
        have h2 : foldMant 0 g ≤ i128Max := Nat.le_trans (foldMant_ge _ _) h1
        simp only [e7, e8, hts, hlen, hm, h1, h2, hne]
        by_cases hdot : cs.contains '.' = true <;> simp [hdot]
      · simp [hm]
    · have : ¬ (1 ≤ g.length ∧ g.length ≤ 3 ∧ tailSpec (',' :: cs) = true ∧
          foldMant (foldMant 0 g) (cs.filter Char.isDigit) ≤ i128Max) := fun ⟨a, b, _⟩ => hlen ⟨a, b⟩
      rw [if_neg this]
      have : ¬ ((decide (1 ≤ g.length) && decide (g.length ≤ 3)) = true) := by simpa using hlen
      simp [this]
  · have : ¬ (1 ≤ g.length ∧ g.length ≤ 3 ∧ tailSpec (',' :: cs) = true ∧
        foldMant (foldMant 0 g) (cs.filter Char.isDigit) ≤ i128Max) := fun ⟨_, _, c, _⟩ => hts c
    rw [if_neg this]
    rw [e7] at hts
    simp only [Bool.and_eq_true, not_and] at hts
    rw [ite_self]
    refine (if_neg ?_).symm
    intro ⟨h, _⟩
    simp only [Bool.and_eq_true] at h
    exact hts h.1.1.2 h.1.2


theorem bodyForm_other (n : Bool) (pl : Nat) (g : List Char) (c : Char) (cs : List Char) (hg : g.all Char.isDigit = true)
    (hc : c.isDigit = false) (h1 : c ≠ '.') (h2 : c ≠ ',') :
    bodyForm n pl g (c :: cs) =
      if bWF (g ++ c :: cs) = true ∧ bRep (g ++ c :: cs) = true then some (bDec n (g ++ c :: cs)) else none := by
  have hl : bodyForm n pl g (c :: cs) = none := by
    unfold bodyForm
    dsimp only
    split
    · split
      · rename_i h; exact absurd h (List.cons_ne_nil _ _)
      · rename_i h; injection h with ha _; exact absurd ha h1
      · rename_i h; injection h with ha _; exact absurd ha h2
      · rfl
    · rfl
  rw [hl]
  refine (if_neg ?_).symm
  intro ⟨h, _⟩
  unfold bWF at h
  have e1 := bIntPart_append g (c :: cs) hg
  rw [tw_cons_pos _ _ h1] at e1
  have e6 := intOk_append g (c :: cs.takeWhile (· != '.')) hg (by
    intro c' cs' h; injection h with ha _; rw [← ha]; exact hc)
  have hgo : Spec.groupsOk (c :: cs.takeWhile (· != '.')) = false := by
    unfold Spec.groupsOk
    split <;> simp_all
  rw [e1, e6, hgo] at h
  simp at h

/-- **the closed form is the specification** (on the body): `bodySpec` accepts exactly the well-formed representable
bodies and returns the decimal as written. -/
theorem bodySpec_eq_spec (n : Bool) (pl : Nat) (b : List Char) :
    bodySpec n pl b = if bWF b = true ∧ bRep b = true then some (bDec n b) else none := by
  rw [bodySpec_eq_bodyForm]
  have hg : (b.takeWhile Char.isDigit).all Char.isDigit = true := all_takeWhile _ b
  have hsplit : b.takeWhile Char.isDigit ++ b.dropWhile Char.isDigit = b := List.takeWhile_append_dropWhile
  generalize b.takeWhile Char.isDigit = g at hg hsplit
  cases hr : b.dropWhile Char.isDigit with
  | nil =>
    rw [hr, List.append_nil] at hsplit
    subst hsplit
    exact bodyForm_nil n pl g hg
  | cons c cs =>
    have hnd : c.isDigit = false := dropWhile_head_not b hr
    rw [hr] at hsplit
    subst hsplit
    by_cases h1 : c = '.'
    · subst h1; exact bodyForm_dot n pl g cs hg
    · by_cases h2 : c = ','
      · subst h2; exact bodyForm_comma n pl g cs hg
      · exact bodyForm_other n pl g c cs hg hnd h1 h2


/-! ## from the body to the whole literal -/

theorem stripMinus_cases (s : List Char) :
    (∃ b, s = '-' :: b ∧ Spec.stripMinus s = b ∧ Spec.isNegative s = true) ∨
    (Spec.stripMinus s = s ∧ Spec.isNegative s = false ∧ ∀ t, s ≠ '-' :: t) := by
  match s with
  | [] => right; exact ⟨rfl, rfl, by intro t h; simp at h⟩
  | c :: cs =>
    by_cases hc : c = '-'
    · subst hc; left; exact ⟨cs, rfl, rfl, rfl⟩
    · right
      refine ⟨?_, ?_, ?_⟩
      · unfold Spec.stripMinus; split <;> simp_all
      · unfold Spec.isNegative; split <;> simp_all
      · intro t h; injection h with h1 _; exact hc h1

theorem filter_stripMinus (s : List Char) : s.filter Char.isDigit = (Spec.stripMinus s).filter Char.isDigit := by
  rcases stripMinus_cases s with ⟨b, hs, hb, _⟩ | ⟨h, _, _⟩
  · rw [hb, hs, List.filter_cons_of_neg (by decide)]
  · rw [h]

theorem contains_comma_stripMinus (s : List Char) : s.contains ',' = (Spec.stripMinus s).contains ',' := by
  rcases stripMinus_cases s with ⟨b, hs, hb, _⟩ | ⟨h, _, _⟩
  · rw [hb, hs, List.contains_cons]; simp
  · rw [h]

theorem wf_eq_bWF (s : List Char) : Spec.WellFormedLiteral s = bWF (Spec.stripMinus s) := rfl
theorem litScale_eq (s : List Char) : Spec.litScale s = (bFracPart (Spec.stripMinus s)).length := rfl
theorem litMant_eq (s : List Char) : Spec.litMant s = bMant (Spec.stripMinus s) := by
  unfold Spec.litMant bMant
  rw [filter_stripMinus]
  rfl
theorem rep_eq_bRep (s : List Char) : Spec.Representable s = bRep (Spec.stripMinus s) := by
  unfold Spec.Representable bRep
  rw [litScale_eq, litMant_eq]
theorem grouping_eq (s : List Char) : Spec.grouping s = bFmt (Spec.stripMinus s) := by
  unfold Spec.grouping bFmt Spec.hasThousands
  rw [contains_comma_stripMinus]
  rfl

/-- the decimal that is written -/
def litDec (s : List Char) : PDec :=
  { neg := Spec.isNegative s && Spec.litMant s != 0, mant := Spec.litMant s, scale := Spec.litScale s, fmt := Spec.grouping s }

theorem litDec_eq (s : List Char) : litDec s = bDec (Spec.isNegative s) (Spec.stripMinus s) := by
  unfold litDec bDec
  rw [litMant_eq, litScale_eq, grouping_eq]

end Okane.C07
