import Okane.Model.InlineDisplay
/-!
# Helper lemmas for C13 (determinism): permutations of association lists

`AMap` lists stand for hash maps; their order is the hash-iteration order.  These lemmas say which observations
of a map survive a permutation (`List.Perm`) of its entries.  The property theorems are in `Okane/Props/C13.lean`.
-/
set_option linter.unusedSectionVars false
set_option linter.unusedSimpArgs false
namespace Okane.C13
open Okane
variable {κ ν : Type} [DecidableEq κ]

/-- key uniqueness is a property of the map, not of the order. -/
theorem WF_perm {m m' : AMap κ ν} (h : m.Perm m') : AMap.WF m ↔ AMap.WF m' := by
  unfold AMap.WF AMap.keys
  exact (h.map Prod.fst).nodup_iff

/-- lookups do not depend on the iteration order. -/
theorem get?_perm {m m' : AMap κ ν} (h : m.Perm m') (hwf : AMap.WF m) (k : κ) :
    AMap.get? m k = AMap.get? m' k := by
  induction h with
  | nil => rfl
  | @cons x l₁ l₂ _ ih =>
    obtain ⟨a, b⟩ := x
    have htl : AMap.WF l₁ := by unfold AMap.WF AMap.keys at *; simp at hwf; exact hwf.2
    simp [AMap.get?, ih htl]
  | swap x y l =>
    obtain ⟨a, b⟩ := x
    obtain ⟨c, d⟩ := y
    have hne : c ≠ a := by unfold AMap.WF AMap.keys at hwf; simp at hwf; exact hwf.1.1
    simp only [AMap.get?]
    by_cases h1 : c = k
    · subst h1; simp [Ne.symm hne]
    · simp [h1]
  | trans h1 _ ih1 ih2 => rw [ih1 hwf, ih2 ((WF_perm h1).1 hwf)]

/-- extensional equality of maps: the same value (or absence) at every key. -/
def Ext (m m' : AMap κ ν) : Prop := ∀ k, AMap.get? m k = AMap.get? m' k

theorem Ext.refl (m : AMap κ ν) : Ext m m := fun _ => rfl
theorem Ext.symm {m m' : AMap κ ν} (h : Ext m m') : Ext m' m := fun k => (h k).symm
theorem Ext.trans {a b c : AMap κ ν} (h1 : Ext a b) (h2 : Ext b c) : Ext a c := fun k => (h1 k).trans (h2 k)
theorem Ext.of_perm {m m' : AMap κ ν} (h : m.Perm m') (hwf : AMap.WF m) : Ext m m' := fun k => get?_perm h hwf k

theorem perm_short {α : Type} {l l' : List α} (h : l.Perm l') (hl : l.length ≤ 1) : l = l' := by
  match l, hl with
  | [], _ => exact (List.nil_perm.1 h).symm
  | [x], _ => exact List.singleton_perm.1 h

theorem perm_pair {β : Type} {x y : β} {l : List β} (h : [x, y].Perm l) : l = [x, y] ∨ l = [y, x] := by
  have hlen := h.length_eq
  match l, hlen with
  | [p, q], _ =>
    have hx : x ∈ [p, q] := h.subset (by simp)
    have hy : y ∈ [p, q] := h.subset (by simp)
    have hp : p ∈ [x, y] := h.symm.subset (by simp)
    have hq : q ∈ [x, y] := h.symm.subset (by simp)
    simp only [List.mem_cons, List.not_mem_nil, or_false] at hx hy hp hq
    rcases hp with rfl | rfl
    · rcases hq with rfl | rfl
      · -- l = [p, p]; then y = p
        rcases hy with rfl | rfl <;> simp
      · simp
    · rcases hq with rfl | rfl
      · simp
      · rcases hx with rfl | rfl <;> simp

theorem mem_unique {m : AMap κ ν} (hwf : AMap.WF m) {k : κ} {v v' : ν} (h1 : (k, v) ∈ m) (h2 : (k, v') ∈ m) :
    v = v' := by
  have a := AMap.get?_some_of_mem m hwf h1
  have b := AMap.get?_some_of_mem m hwf h2
  rw [a] at b; exact Option.some.inj b

/-- a total preorder on keys that is antisymmetric (the order of distinct names). -/
structure KeyOrder (le : κ → κ → Bool) : Prop where
  total : ∀ a b, (le a b || le b a) = true
  trans : ∀ a b c, le a b = true → le b c = true → le a c = true
  antisymm : ∀ a b, le a b = true → le b a = true → a = b

/-- **sorting by key erases the iteration order**: two orders of the same map sort to the same list
(whatever correct sort is used: the sorted list is unique because keys are distinct). -/
theorem sortByKey_perm {le : κ → κ → Bool} (ho : KeyOrder le) {m m' : AMap κ ν} (h : m.Perm m')
    (hwf : AMap.WF m) : sortByKey le m = sortByKey le m' := by
  unfold sortByKey
  have hle_trans : ∀ a b c : κ × ν, le a.1 b.1 = true → le b.1 c.1 = true → le a.1 c.1 = true :=
    fun a b c => ho.trans a.1 b.1 c.1
  have hle_total : ∀ a b : κ × ν, (le a.1 b.1 || le b.1 a.1) = true := fun a b => ho.total a.1 b.1
  have s1 := List.pairwise_mergeSort (le := fun x y : κ × ν => le x.1 y.1) hle_trans hle_total m
  have s2 := List.pairwise_mergeSort (le := fun x y : κ × ν => le x.1 y.1) hle_trans hle_total m'
  have p1 := List.mergeSort_perm m (fun x y => le x.1 y.1)
  have p2 := List.mergeSort_perm m' (fun x y => le x.1 y.1)
  have hp : (m.mergeSort fun x y => le x.1 y.1).Perm (m'.mergeSort fun x y => le x.1 y.1) :=
    p1.trans (h.trans p2.symm)
  refine List.Perm.eq_of_pairwise (le := fun a b : κ × ν => le a.1 b.1 = true) ?_ s1 s2 hp
  intro a b ha hb hab hba
  have hk : a.1 = b.1 := ho.antisymm _ _ hab hba
  have ha' : a ∈ m := p1.subset ha
  have hb' : b ∈ m := (h.symm.subset (p2.subset hb))
  obtain ⟨ak, av⟩ := a
  obtain ⟨bk, bv⟩ := b
  simp only at hk
  subst hk
  rw [mem_unique hwf ha' hb']

theorem keyOrder_nat : KeyOrder (fun a b : Nat => decide (a ≤ b)) where
  total := by intro a b; simp; omega
  trans := by intro a b c; simp; omega
  antisymm := by intro a b; simp; omega

/-- the order of `str::cmp` on names (byte-wise = code-point-wise lexicographic), as Lean's `String` order. -/
theorem keyOrder_string : KeyOrder (fun a b : String => decide (a ≤ b)) where
  total := by intro a b; simpa using String.le_total a b
  trans := by intro a b c h1 h2; simp at *; exact String.le_trans h1 h2
  antisymm := by intro a b h1 h2; simp at *; exact String.le_antisymm h1 h2

namespace Amount
open Okane.Amount

theorem getPart_ext {a a' : Amount κ} (h : Ext a a') (c : κ) : getPart a c = getPart a' c := by
  simp [getPart, h c]

theorem get?_addSingle (a : Amount κ) (k : κ) (v : Rat) (c : κ) :
    AMap.get? (addSingle a k v) c = if k = c then some (getPart a k + v) else AMap.get? a c := by
  simp [addSingle, AMap.get?_insert]

theorem addSingle_ext {a a' : Amount κ} (h : Ext a a') (k : κ) (v : Rat) :
    Ext (addSingle a k v) (addSingle a' k v) := by
  intro c
  simp [get?_addSingle, getPart_ext h k, h c]

/-- two `entry(c) += v` updates commute (as maps). -/
theorem addSingle_comm (a : Amount κ) (k1 k2 : κ) (v1 v2 : Rat) :
    Ext (addSingle (addSingle a k1 v1) k2 v2) (addSingle (addSingle a k2 v2) k1 v1) := by
  intro c
  simp only [get?_addSingle, getPart]
  by_cases h12 : k1 = k2
  · subst h12
    by_cases h1 : k1 = c
    · simp [h1, Rat.add_assoc, Rat.add_comm v1 v2]
    · simp [h1]
  · have h21 : ¬ k2 = k1 := fun h => h12 h.symm
    by_cases h1 : k1 = c <;> by_cases h2 : k2 = c <;> simp_all

theorem foldAdd_ext (f : Rat → Rat) (b : Amount κ) : ∀ {a a' : Amount κ}, Ext a a' →
    Ext (b.foldl (fun acc kv => addSingle acc kv.1 (f kv.2)) a) (b.foldl (fun acc kv => addSingle acc kv.1 (f kv.2)) a') := by
  induction b with
  | nil => intro a a' h; exact h
  | cons x xs ih => intro a a' h; exact ih (addSingle_ext h x.1 (f x.2))

theorem foldAdd_perm (f : Rat → Rat) {b b' : Amount κ} (h : b.Perm b') : ∀ (a : Amount κ),
    Ext (b.foldl (fun acc kv => addSingle acc kv.1 (f kv.2)) a) (b'.foldl (fun acc kv => addSingle acc kv.1 (f kv.2)) a) := by
  induction h with
  | nil => intro a; exact Ext.refl _
  | cons x _ ih => intro a; exact ih _
  | swap x y l => intro a; exact foldAdd_ext f l (addSingle_comm a y.1 x.1 (f y.2) (f x.2))
  | trans _ _ ih1 ih2 => intro a; exact (ih1 a).trans (ih2 a)

end Amount

section Book
variable {α : Type} [DecidableEq α]

/-- swapping the two entries swaps the pair. -/
theorem impliedExchange_swap (e1 e2 : κ × Rat) :
    impliedExchange [e2, e1] = (impliedExchange [e1, e2]).map Prod.swap := by
  obtain ⟨c1, v1⟩ := e1
  obtain ⟨c2, v2⟩ := e2
  simp only [impliedExchange, Amount.maybePair]
  by_cases h1 : v1 = 0 <;> by_cases h2 : v2 = 0 <;> by_cases hs : (0 ≤ v1) = (0 ≤ v2) <;>
    simp_all [Prod.swap, eq_comm]

theorem impliedExchange_commodities {e1 e2 : κ × Rat} {a1 a2 : SingleAmount κ}
    (hx : impliedExchange [e1, e2] = some (a1, a2)) : a1.commodity = e1.1 ∧ a2.commodity = e2.1 := by
  obtain ⟨c1, v1⟩ := e1
  obtain ⟨c2, v2⟩ := e2
  simp only [impliedExchange, Amount.maybePair] at hx
  split at hx
  · simp at hx; obtain ⟨rfl, rfl⟩ := hx; exact ⟨rfl, rfl⟩
  · simp at hx

/-- the converted amounts written into the postings are the same whichever entry comes first. -/
theorem fillConverted_swap (a1 a2 : SingleAmount κ) (hne : a1.commodity ≠ a2.commodity) (p : OutPosting α κ) :
    fillConverted a2 a1 p = fillConverted a1 a2 p := by
  unfold fillConverted
  split
  · rename_i amt _
    by_cases h1 : a1.commodity = amt.commodity
    · have h2 : ¬ a2.commodity = amt.commodity := fun h => hne (h1.trans h.symm)
      simp [h1, h2]
    · by_cases h2 : a2.commodity = amt.commodity <;> simp [h1, h2]
  · rfl

/-- when are two results of `check_balance` the same observable outcome: same postings (with the converted
amounts filled in), the same price event up to the order of its two sides, or the same error with the residual
as the same map. -/
def CBSame : Outcome (BkErr κ) (List (OutPosting α κ) × Option (PriceEvent κ)) →
    Outcome (BkErr κ) (List (OutPosting α κ) × Option (PriceEvent κ)) → Prop
  | .ok (ps, none), .ok (ps', none) => ps = ps'
  | .ok (ps, some e), .ok (ps', some e') => ps = ps' ∧ (e' = e ∨ e' = ⟨e.date, e.y, e.x⟩)
  | .err (.unbalanced r), .err (.unbalanced r') => r.Perm r'
  | _, _ => False

/-- the part of `check_balance` after rounding and the zero test. -/
def cbTail (date : Date) (ps : List (OutPosting α κ)) (b : Amount κ) :
    Outcome (BkErr κ) (List (OutPosting α κ) × Option (PriceEvent κ)) :=
  match impliedExchange b with
  | some (a1, a2) => .ok (ps.map (fillConverted a1 a2), some ⟨date, a1.abs, a2.abs⟩)
  | none => .err (.unbalanced b)

theorem cbTail_swap (date : Date) (ps : List (OutPosting α κ)) (e1 e2 : κ × Rat) (hne : e1.1 ≠ e2.1) :
    CBSame (cbTail date ps [e1, e2]) (cbTail date ps [e2, e1]) := by
  unfold cbTail
  rw [impliedExchange_swap e1 e2]
  cases hx : impliedExchange [e1, e2] with
  | none => simp only [Option.map, CBSame]; exact List.Perm.swap _ _ _
  | some pr =>
    obtain ⟨a1, a2⟩ := pr
    have hc : a1.commodity ≠ a2.commodity := by
      have := impliedExchange_commodities hx; rw [this.1, this.2]; exact hne
    simp only [Option.map, Prod.swap, CBSame, SingleAmount.abs]
    refine ⟨?_, by simp⟩
    exact List.map_congr_left (fun p _ => (fillConverted_swap a1 a2 hc p).symm)

theorem cbTail_refl (date : Date) (ps : List (OutPosting α κ)) (b : Amount κ) :
    CBSame (cbTail date ps b) (cbTail date ps b) := by
  unfold cbTail
  cases impliedExchange b with
  | none => simp only [CBSame]; exact List.Perm.refl _
  | some pr => obtain ⟨a1, a2⟩ := pr; simp [CBSame]

theorem cbTail_perm (date : Date) (ps : List (OutPosting α κ)) {b b' : Amount κ} (hr : b.Perm b')
    (hwf : AMap.WF b) : CBSame (cbTail date ps b) (cbTail date ps b') := by
  match b, hr, hwf with
  | [e1, e2], hr, hwf =>
    have hne : e1.1 ≠ e2.1 := by unfold AMap.WF AMap.keys at hwf; simpa using hwf
    rcases perm_pair hr with rfl | rfl
    · exact cbTail_refl _ _ _
    · exact cbTail_swap date ps e1 e2 hne
  | [], hr, _ => rw [List.nil_perm.1 hr]; exact cbTail_refl _ _ _
  | [x], hr, _ => rw [List.singleton_perm.1 hr]; exact cbTail_refl _ _ _
  | x :: y :: z :: r, hr, _ =>
    have hl := hr.length_eq
    match b', hl, hr with
    | _ :: _ :: _ :: _, _, hr =>
      simp only [cbTail, impliedExchange, Amount.maybePair, CBSame]; exact hr

end Book
end Okane.C13
