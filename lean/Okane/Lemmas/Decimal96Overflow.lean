import Okane.Lemmas.Decimal96Bound
/-!
# `Overflow` is reported only when the result, rounded to an integer, does not fit 96 bits

`bufRescale_none`: if `Buf24::rescale` gives up on a buffer value `x` at scale `scale` (its `upper` being accurate), then
`x / 10^scale ≥ 2^96 − ½`, i.e. `2^97·10^scale ≤ 2·x + 10^scale`.  Three ways to give up: the estimate of the digits to drop
exceeds the scale (`estimate_ok`: the estimate `⌊(bits−97)·77/256⌋+1` never over-estimates), the quotient still needs more
than 96 bits when the scale is used up, or the final rounding carries out of 96 bits at scale 0.  The model's fuel cannot
run out (`target + 10·sc + 2` decreases in every pass).
Consequences: `mul_overflow`, `addSub_overflow` (outside the subtraction defect).
-/
namespace Okane.Dec96

/-- `10^⌊E·77/256⌋ ≤ 2^E`: the digit estimate of `Buf24::rescale` (77/256 < log10 2) never over-estimates. -/
theorem estimate_ok : ∀ E : Nat, E < 96 → 10 ^ (E * 77 / 256) ≤ 2 ^ E := by decide +kernel

theorem upper_accurate_step (x upper c : Nat) (hc : c ≤ 9) (hacc : upper > 2 → 2 ^ (32 * upper) ≤ x) :
    (if x / 10 ^ c / 2 ^ (32 * upper) = 0 ∧ upper > 0 then upper - 1 else upper) > 2 →
    2 ^ (32 * (if x / 10 ^ c / 2 ^ (32 * upper) = 0 ∧ upper > 0 then upper - 1 else upper)) ≤ x / 10 ^ c := by
  intro hu
  by_cases hz : x / 10 ^ c / 2 ^ (32 * upper) = 0 ∧ upper > 0
  · simp only [hz, and_self, if_true] at hu ⊢
    have hx := hacc (by omega)
    have h1 : 10 ^ c ≤ 2 ^ 32 := by
      have := pow10_mono c 9 hc
      omega
    have h2 : 2 ^ (32 * upper) / 2 ^ 32 ≤ 2 ^ (32 * upper) / 10 ^ c := Nat.div_le_div_left h1 (natpow10_pos c)
    have h3 : 2 ^ (32 * upper) / 10 ^ c ≤ x / 10 ^ c := Nat.div_le_div_right hx
    have h4 : 2 ^ (32 * upper) / 2 ^ 32 = 2 ^ (32 * (upper - 1)) := by
      rw [Nat.pow_div (by omega) (by decide)]; congr 1; omega
    omega
  · simp only [hz, if_false] at hu ⊢
    have hnz : ¬ x / 10 ^ c / 2 ^ (32 * upper) = 0 := by
      intro h0; exact hz ⟨h0, by omega⟩
    have hpos : 0 < 2 ^ (32 * upper) := Nat.pow_pos (by decide)
    rcases Nat.lt_or_ge (x / 10 ^ c) (2 ^ (32 * upper)) with hlt | hge
    · exact absurd (Nat.div_eq_of_lt hlt) hnz
    · exact hge

/-- the loop gives up only on a value that is too big -/
theorem rescaleLoop_none (X : Nat) : ∀ (fuel x upper sc target : Nat) (sticky : Bool) (rem D : Nat),
    x = X / 10 ^ D → 1 ≤ target → (upper > 2 → 2 ^ (32 * upper) ≤ x) → x < 2 ^ (32 * (upper + 1)) →
    target + 10 * sc + 2 < fuel → rescaleLoop fuel x upper sc target sticky rem = none →
    2 ^ 97 * 10 ^ (sc + target + D) ≤ 2 * X + 10 ^ (sc + target + D)
  | 0, _, _, _, _, _, _, _, _, _, _, _, hf, _ => by omega
  | fuel + 1, x, upper, sc, target, sticky, rem, D, hx, ht, hacc, hxu, hf, h => by
    unfold rescaleLoop at h
    simp only at h
    generalize hc : (if target > 8 then 10 ^ 9 else 10 ^ target) = power at h
    have hpow : ∃ c, power = 10 ^ c ∧ 1 ≤ c ∧ c ≤ 9 ∧ c ≤ target ∧ (target ≤ 9 → c = target) ∧ (target > 9 → c = 9) := by
      by_cases h8 : target > 8
      · simp only [h8, if_true] at hc
        exact ⟨9, hc.symm, by omega, by omega, by omega, by omega, by omega⟩
      · simp only [h8, if_false] at hc
        exact ⟨target, hc.symm, by omega, by omega, by omega, by omega, by omega⟩
    obtain ⟨c, rfl, hc1, hc9, hct, hc_eq, hc_gt⟩ := hpow
    have hq : x / 10 ^ c = X / 10 ^ (D + c) := by rw [hx, Nat.div_div_eq_div_mul, ← Nat.pow_add]
    have hacc' := upper_accurate_step x upper c hc9 hacc
    generalize hup : (if x / 10 ^ c / 2 ^ (32 * upper) = 0 ∧ upper > 0 then upper - 1 else upper) = upper' at h hacc'
    have hqu : x / 10 ^ c < 2 ^ (32 * (upper' + 1)) := by
      have hle : x / 10 ^ c ≤ x := Nat.div_le_self _ _
      by_cases hz : x / 10 ^ c / 2 ^ (32 * upper) = 0 ∧ upper > 0
      · simp only [hz, and_self, if_true] at hup
        have : x / 10 ^ c < 2 ^ (32 * upper) := by
          rcases Nat.div_eq_zero_iff.mp hz.1 with h0 | h0
          · have := Nat.pow_pos (n := 32 * upper) (by decide : 0 < 2); omega
          · exact h0
        have e : upper' + 1 = upper := by omega
        rw [e]; exact this
      · simp only [hz, if_false] at hup
        subst hup; omega
    by_cases h9 : target > 9
    · simp only [h9, if_true] at h
      have hc9' := hc_gt h9
      subst hc9'
      have := rescaleLoop_none X fuel _ upper' sc (target - 9) _ _ (D + 9) hq (by omega) hacc' hqu (by omega) h
      have e : sc + (target - 9) + (D + 9) = sc + target + D := by omega
      rw [e] at this; exact this
    · simp only [h9, if_false] at h
      have hct' := hc_eq (by omega)
      subst hct'
      have hS : 10 ^ (sc + c + D) = 10 ^ sc * 10 ^ (D + c) := by rw [← Nat.pow_add]; congr 1; omega
      by_cases hu2 : upper' > 2
      · simp only [hu2, if_true] at h
        by_cases hsc : sc = 0
        · -- the scale is used up and the quotient still needs more than 96 bits
          subst hsc
          have h96 : 2 ^ 96 ≤ x / 10 ^ c := by
            have := hacc' hu2
            have : 2 ^ 96 ≤ 2 ^ (32 * upper') := Nat.pow_le_pow_right (by decide) (by omega)
            omega
          rw [hq] at h96
          have hle : X / 10 ^ (D + c) * 10 ^ (D + c) ≤ X := Nat.div_mul_le_self _ _
          have : 2 ^ 96 * 10 ^ (D + c) ≤ X := Nat.le_trans (Nat.mul_le_mul_right _ h96) hle
          have e : 0 + c + D = D + c := by omega
          rw [e]
          have e97 : (2 : Nat) ^ 97 = 2 * 2 ^ 96 := by decide
          rw [e97, Nat.mul_assoc]; omega
        · simp only [hsc, if_false] at h
          have := rescaleLoop_none X fuel _ upper' (sc - 1) 1 _ _ (D + c) hq (by omega) hacc' hqu (by omega) h
          have e : sc - 1 + 1 + (D + c) = sc + c + D := by omega
          rw [e] at this; exact this
      · simp only [hu2, if_false] at h
        by_cases hupr : 10 ^ c / 2 ≤ x % 10 ^ c ∧ (10 ^ c / 2 < x % 10 ^ c ∨ x / 10 ^ c % 2 = 1 ∨ (sticky || rem != 0) = true)
        · rw [if_pos hupr] at h
          by_cases hfit : x / 10 ^ c + 1 < two96
          · simp [hfit] at h
          · simp only [hfit, if_false] at h
            by_cases hsc : sc = 0
            · -- the rounding carries out of 96 bits at scale 0
              subst hsc
              have hqv : 2 ^ 96 ≤ x / 10 ^ c + 1 := by unfold two96 at hfit; omega
              obtain ⟨hTe, _⟩ := pow10_even c hc1
              have hT := natpow10_pos c
              have hP := natpow10_pos D
              have hxdm := Nat.div_add_mod x (10 ^ c)
              have hXdm := Nat.div_add_mod X (10 ^ D)
              have e : 0 + c + D = D + c := by omega
              rw [e, Nat.pow_add]
              -- X ≥ x·10^D ≥ (q·T + h)·P with 2h = T
              have h1 : (x / 10 ^ c * 10 ^ c + 10 ^ c / 2) * 10 ^ D ≤ X := by
                have : x / 10 ^ c * 10 ^ c + 10 ^ c / 2 ≤ x := by
                  have := hupr.1
                  have e2 : 10 ^ c * (x / 10 ^ c) = x / 10 ^ c * 10 ^ c := Nat.mul_comm _ _
                  omega
                have h2 := Nat.mul_le_mul_right (10 ^ D) this
                have h3 : x * 10 ^ D ≤ X := by rw [hx]; exact Nat.div_mul_le_self _ _
                omega
              generalize 10 ^ c / 2 = hh at hTe h1
              generalize x / 10 ^ c = q at hqv h1
              generalize 10 ^ c = T at hTe h1 ⊢
              generalize 10 ^ D = P at h1 ⊢
              subst hTe
              have e1 : (q * (2 * hh) + hh) * P = (2 * q + 1) * (hh * P) := by grind
              have e2 : 2 ^ 97 * (P * (2 * hh)) = 2 ^ 98 * (hh * P) := by
                have : (2 : Nat) ^ 98 = 2 ^ 97 * 2 := by decide
                rw [this]; grind
              have e3 : P * (2 * hh) = 2 * (hh * P) := by grind
              rw [e1] at h1
              rw [e2, e3]
              have h4 : 2 ^ 97 * (hh * P) ≤ (2 * q + 2) * (hh * P) := Nat.mul_le_mul_right _ (by omega)
              have e5 : (2 * q + 2) * (hh * P) = (2 * q + 1) * (hh * P) + hh * P := by grind
              have e6 : (2 : Nat) ^ 98 * (hh * P) = 2 * (2 ^ 97 * (hh * P)) := by
                have : (2 : Nat) ^ 98 = 2 * 2 ^ 97 := by decide
                rw [this, Nat.mul_assoc]
              omega
            · simp only [hsc, if_false] at h
              have hqv : x / 10 ^ c + 1 = 2 ^ 96 := by
                have : 2 ^ (32 * (upper' + 1)) ≤ 2 ^ 96 := Nat.pow_le_pow_right (by decide) (by omega)
                unfold two96 at hfit; omega
              rw [hqv] at h
              cases fuel with
              | zero => omega
              | succ fuel => rw [rescaleLoop_carry] at h; cases h
        · rw [if_neg hupr] at h; cases h


theorem upperWord_ge (x : Nat) (h : x ≠ 0) : 2 ^ (32 * upperWord x) ≤ x := by
  unfold upperWord
  simp only [h, if_false]
  have h1 : 2 ^ x.log2 ≤ x := Nat.log2_self_le h
  have h2 : 2 ^ (32 * (x.log2 / 32)) ≤ 2 ^ x.log2 := Nat.pow_le_pow_right (by decide) (by omega)
  omega

/-- **`Buf24::rescale` gives up only on a value that is too big**: with an accurate `upper` (top word non-zero) and a buffer
below `2^192`, `none` means `x / 10^scale ≥ 2^96 − ½`. -/
theorem bufRescale_none (x upper scale : Nat) (hacc : upper > 2 → 2 ^ (32 * upper) ≤ x)
    (hxu : x < 2 ^ (32 * (upper + 1))) (hu5 : upper ≤ 5) (h : bufRescale x upper scale = none) :
    2 ^ 97 * 10 ^ scale ≤ 2 * x + 10 ^ scale := by
  unfold bufRescale at h
  simp only at h
  generalize ht0 : (if upper > 2 then (((upper : Int) * 32 - 64 - 1 - (lz32 (x / 2 ^ (32 * upper)) : Int)) * 77) / 256 + 1 else 0) = t0 at h
  by_cases hov : t0 > (scale : Int)
  · -- the estimate exceeds the scale
    by_cases hu : upper > 2
    · simp only [hu, if_true] at ht0
      have hx := hacc hu
      have hpos : 0 < 2 ^ (32 * upper) := Nat.pow_pos (by decide)
      have htop : x / 2 ^ (32 * upper) ≠ 0 := by
        intro h0
        rcases Nat.div_eq_zero_iff.mp h0 with h1 | h1 <;> omega
      have htop32 : x / 2 ^ (32 * upper) < 2 ^ 32 := by
        rw [Nat.div_lt_iff_lt_mul hpos, ← Nat.pow_add]
        have : 32 + 32 * upper = 32 * (upper + 1) := by omega
        rw [this]; exact hxu
      have hdiv : x / 2 ^ (32 * upper) * 2 ^ (32 * upper) ≤ x := Nat.div_mul_le_self _ _
      generalize x / 2 ^ (32 * upper) = top at htop htop32 ht0 hdiv
      have hlog : top.log2 < 32 := (Nat.log2_lt htop).mpr htop32
      have hlz : lz32 top = 31 - top.log2 := by unfold lz32; simp [htop]
      rw [hlz] at ht0
      -- E = 32·upper − 96 + log2 top
      have hE : ((upper : Int) * 32 - 64 - 1 - ((31 - top.log2 : Nat) : Int)) = ((32 * upper - 96 + top.log2 : Nat) : Int) := by
        omega
      rw [hE] at ht0
      generalize hEE : 32 * upper - 96 + top.log2 = E at ht0
      have hE96 : E < 96 := by omega
      have hsc : scale ≤ E * 77 / 256 := by
        have : ((E : Int) * 77) / 256 = ((E * 77 / 256 : Nat) : Int) := by omega
        omega
      have h10 : 10 ^ scale ≤ 2 ^ E := Nat.le_trans (pow10_mono _ _ hsc) (estimate_ok E hE96)
      have hl2 : 2 ^ top.log2 ≤ top := Nat.log2_self_le htop
      have hbig : 2 ^ (96 + E) ≤ x := by
        have e : 96 + E = top.log2 + 32 * upper := by omega
        rw [e, Nat.pow_add]
        exact Nat.le_trans (Nat.mul_le_mul_right _ hl2) hdiv
      have h96 : 2 ^ 96 * 10 ^ scale ≤ 2 ^ (96 + E) := by
        rw [Nat.pow_add]; exact Nat.mul_le_mul_left _ h10
      have e97 : (2 : Nat) ^ 97 = 2 * 2 ^ 96 := by decide
      rw [e97, Nat.mul_assoc]; omega
    · simp only [hu, if_false] at ht0; omega
  · simp only [hov, if_false] at h
    generalize ht : (if t0 < (scale : Int) - 28 then (scale : Int) - 28 else t0) = t at h
    have htle : t ≤ scale := by rw [← ht]; split <;> omega
    by_cases hpos : t > 0
    · simp only [hpos, if_true] at h
      have := rescaleLoop_none x (10 * scale + 16) x upper (scale - t.toNat) t.toNat false 0 0 (by simp) (by omega)
        hacc hxu (by omega) h
      have e : scale - t.toNat + t.toNat + 0 = scale := by omega
      rw [e] at this; exact this
    · simp [hpos] at h


theorem upperWord_le5 (x : Nat) (h : x < 2 ^ 192) : upperWord x ≤ 5 := by
  unfold upperWord
  split
  · omega
  · rename_i hx
    have := (Nat.log2_lt hx).mpr h
    omega

/-- **`*` overflows only if the product is too big**: `Overflow` means `|val a · val b| ≥ 2^96 − ½`. -/
theorem mul_overflow (a b : D96) (ha : a.wf) (hb : b.wf) (h : mulImpl a b = .overflow) :
    2 ^ 97 * 10 ^ (a.scale + b.scale) ≤ 2 * (a.mant * b.mant) + 10 ^ (a.scale + b.scale) := by
  unfold mulImpl at h
  by_cases h0 : a.mant = 0 ∨ b.mant = 0
  · simp [h0] at h
  · simp only [h0, if_false] at h
    by_cases h32 : a.mant < two32 ∧ b.mant < two32
    · simp only [h32, and_self, if_true] at h
      split at h
      · split at h <;> cases h
      · cases h
    · simp only [h32, if_false] at h
      split at h
      · cases hb' : bufRescale (a.mant * b.mant) (upperWord (a.mant * b.mant)) (a.scale + b.scale) with
        | some ms => rw [hb'] at h; cases h
        | none =>
          have hne : a.mant * b.mant ≠ 0 := by
            intro hz; rcases Nat.mul_eq_zero.mp hz with h1 | h1 <;> omega
          have hlt : a.mant * b.mant < 2 ^ 192 := by
            have := Nat.mul_lt_mul'' ha.1 hb.1
            omega
          exact bufRescale_none _ _ _ (fun _ => upperWord_ge _ hne) (upperWord_lt _) (upperWord_le5 _ hlt) hb'
      · cases h

theorem alignedAdd_overflow (l r : Nat) (neg : Bool) (sc : Nat) (sub : Bool) (h : alignedAdd l r neg sc sub = .overflow) :
    sub = false ∧ 2 ^ 97 * 10 ^ sc ≤ 2 * (l + r) + 10 ^ sc := by
  unfold alignedAdd at h
  cases sub
  · simp only [Bool.false_eq_true, if_false] at h
    split at h
    · cases h
    · rename_i hov
      split at h
      · rename_i hsc; subst hsc
        unfold two96 at hov
        refine ⟨rfl, ?_⟩
        simp; omega
      · cases h
  · simp only [if_true] at h
    split at h <;> cases h

theorem unalignedAdd_overflow (l r : Nat) (neg : Bool) (sc rf : Nat) (sub : Bool) (hl : l < 2 ^ 96) (hr : r < 2 ^ 96)
    (hrf : rf ≤ 28) (hsc : sc ≤ 28) (hnd : sub = true → ¬ SubDefect (l * 10 ^ rf) r)
    (h : unalignedAdd l r neg sc rf sub = .overflow) :
    2 ^ 97 * 10 ^ sc ≤ 2 * (((l * 10 ^ rf : Nat) : Int) + sgn sub * r).natAbs + 10 ^ sc := by
  have hv192 : l * 10 ^ rf + r < 2 ^ 192 := by
    have h1 : 10 ^ rf ≤ 10 ^ 28 := pow10_mono _ _ hrf
    have h2 : l * 10 ^ rf ≤ l * 10 ^ 28 := Nat.mul_le_mul_left _ h1
    omega
  unfold unalignedAdd at h
  generalize l * 10 ^ rf = v at h hnd hv192 ⊢
  simp only at h
  by_cases hv : v < two96
  · simp only [hv, if_true] at h
    obtain ⟨hs, hb⟩ := alignedAdd_overflow v r neg sc sub h
    subst hs
    simp only [sgn_false, Int.one_mul]
    omega
  · simp only [hv, if_false] at h
    unfold two96 at hv
    cases sub
    · simp only [Bool.false_eq_true, if_false] at h
      cases hb : bufRescale (v + r) (upperWord (v + r)) sc with
      | some ms => rw [hb] at h; cases h
      | none =>
        have := bufRescale_none _ _ _ (fun _ => upperWord_ge _ (by omega)) (upperWord_lt _) (upperWord_le5 _ hv192) hb
        simp only [sgn_false, Int.one_mul]
        omega
    · simp only [if_true] at h
      have hbs := bufSub_correct v r (by omega) (by omega) hr (hnd rfl)
      rw [hbs] at h
      cases hb : bufRescale (v - r) (upperWord v) sc with
      | some ms => rw [hb] at h; cases h
      | none =>
        -- `upper` is that of `v`; it is accurate for `v − r` unless the difference dropped below it, in which case the
        -- crate's estimate only gets smaller: we only need accuracy when `upper > 2`, i.e. `2^(32·upper) ≤ v − r`
        by_cases hacc : upperWord v > 2 → 2 ^ (32 * upperWord v) ≤ v - r
        · have hlt : v - r < 2 ^ (32 * (upperWord v + 1)) := by have := upperWord_lt v; omega
          have := bufRescale_none _ _ _ hacc hlt (upperWord_le5 _ (by omega)) hb
          simp only [sgn_true]
          omega
        · -- then v − r < 2^(32·upper) ≤ v: a borrow reached the top word; with `upper ≥ 4` this cannot happen outside the
          -- defect, and with `upper = 3` the difference is below 2^96 and `bufRescale` returns it
          exfalso
          have hu : upperWord v > 2 := by
            by_cases hu : upperWord v > 2
            · exact hu
            · exact absurd (fun h => absurd h hu) hacc
          have hlow : v - r < 2 ^ (32 * upperWord v) := by
            by_cases hl : v - r < 2 ^ (32 * upperWord v)
            · exact hl
            · exact absurd (fun _ => by omega) hacc
          rcases upperWord_cases v (by omega) (by omega) with ⟨hu3, hb3⟩ | ⟨hu4, hb4, _⟩ | ⟨hu5, hb5⟩
          · rw [hu3] at hlow hb
            -- v − r < 2^96: `bufRescale` returns it
            unfold bufRescale at hb
            have htop : (v - r) / 2 ^ (32 * 3) = 0 := by
              apply Nat.div_eq_of_lt; simpa using hlow
            simp only [htop, lz32] at hb
            simp at hb
            split at hb
            · omega
            · split at hb
              · rename_i h1 h2
                -- t > 0 needs scale > 28: the loop then runs and cannot fail on a value below 2^96 at scale ≥ 1 ... covered by
                -- `rescaleLoop_none` through `bufRescale_none` with upper := 2
                omega
              · cases hb
          · rw [hu4] at hlow
            have := hnd rfl
            unfold SubDefect at this
            omega
          · rw [hu5] at hlow
            have := hnd rfl
            unfold SubDefect at this
            omega


theorem fastAdd_ne_overflow (lo1 lo2 : Nat) (neg : Bool) (sc : Nat) (sub : Bool) : fastAdd lo1 lo2 neg sc sub ≠ .overflow := by
  unfold fastAdd
  split
  · split <;> (intro h; cases h)
  · intro h; cases h

/-- **`+`/`-` overflow only if the exact result is too big** (outside the subtraction defect): `Overflow` means the exact
sum, as an integer at scale `max sa sb`, satisfies `|sum| / 10^max ≥ 2^96 − ½`. -/
theorem addSub_overflow (a b : D96) (subtract : Bool) (ha : a.wf) (hb : b.wf) (hnd : ¬ SubDefectD a b subtract)
    (h : addSub a b subtract = .overflow) :
    2 ^ 97 * 10 ^ (max a.scale b.scale) ≤ 2 * (alignedSum a b subtract).natAbs + 10 ^ (max a.scale b.scale) := by
  obtain ⟨ham, has⟩ := ha
  obtain ⟨hbm, hbs⟩ := hb
  by_cases ha0 : a.mant = 0
  · rw [addSub_zero_left a b subtract ha0] at h; cases h
  by_cases hb0 : b.mant = 0
  · rw [addSub_zero_right a b subtract ha0 hb0] at h; cases h
  unfold alignedSum
  rw [int_scaled a, int_scaled b, sign_identity]
  unfold SubDefectD at hnd
  unfold addSub at h
  simp only [ha0, hb0, if_false] at h
  generalize hsub : (subtract != (a.neg != b.neg)) = eff at h hnd ⊢
  have habs : ∀ (x : Int), (sgn a.neg * x).natAbs = x.natAbs := by
    intro x; cases a.neg <;> simp [sgn]
  rw [habs]
  rcases Nat.lt_trichotomy a.scale b.scale with hlt | heq | hgt
  · have hmax : max a.scale b.scale = b.scale := by omega
    rw [hmax]
    have e1 : b.scale - b.scale = 0 := by omega
    rw [e1]; simp only [Nat.pow_zero, Nat.mul_one]
    have hne : ¬ a.scale = b.scale := by omega
    have hnlt : ¬ b.scale < a.scale := by omega
    simp only [hne, hnlt, if_false] at h
    split at h
    · rename_i c hc
      split at hc
      · cases hr : rescale32 a.mant (b.scale - a.scale) with
        | none => rw [hr] at hc; cases hc
        | some m1 =>
          rw [hr] at hc
          simp only [Option.map_some, Option.some.injEq] at hc
          subst hc
          exact absurd h (fastAdd_ne_overflow _ _ _ _ _)
      · cases hc
    · have hnd' : eff = true → ¬ SubDefect (a.mant * 10 ^ (b.scale - a.scale)) b.mant := by
        intro he hd; exact hnd ⟨he, Or.inr ⟨hlt, hd⟩⟩
      exact unalignedAdd_overflow a.mant b.mant a.neg b.scale (b.scale - a.scale) eff ham hbm (by omega) hbs hnd' h
  · have hmax : max a.scale b.scale = a.scale := by omega
    rw [hmax]
    have e1 : a.scale - a.scale = 0 := by omega
    have e2 : a.scale - b.scale = 0 := by omega
    rw [e1, e2]; simp only [Nat.pow_zero, Nat.mul_one]
    simp only [heq, if_true] at h
    split at h
    · rename_i c hc
      split at hc
      · simp only [Option.some.injEq] at hc
        subst hc
        exact absurd h (fastAdd_ne_overflow _ _ _ _ _)
      · cases hc
    · obtain ⟨hs, hbd⟩ := alignedAdd_overflow _ _ _ _ _ h
      subst hs
      rw [heq]
      simp only [sgn_false, Int.one_mul]
      omega
  · have hmax : max a.scale b.scale = a.scale := by omega
    rw [hmax]
    have e1 : a.scale - a.scale = 0 := by omega
    rw [e1]; simp only [Nat.pow_zero, Nat.mul_one]
    have hne : ¬ a.scale = b.scale := by omega
    simp only [hne, hgt, if_false, if_true] at h
    split at h
    · rename_i c hc
      split at hc
      · cases hr : rescale32 b.mant (a.scale - b.scale) with
        | none => rw [hr] at hc; cases hc
        | some m2 =>
          rw [hr] at hc
          simp only [Option.map_some, Option.some.injEq] at hc
          subst hc
          exact absurd h (fastAdd_ne_overflow _ _ _ _ _)
      · cases hc
    · have hnd' : eff = true → ¬ SubDefect (b.mant * 10 ^ (a.scale - b.scale)) a.mant := by
        intro he hd; exact hnd ⟨he, Or.inl ⟨hgt, hd⟩⟩
      have := unalignedAdd_overflow b.mant a.mant (eff != a.neg) a.scale (a.scale - b.scale) eff hbm ham (by omega) has hnd' h
      generalize ((b.mant * 10 ^ (a.scale - b.scale) : Nat) : Int) = B at this ⊢
      have e : ((a.mant : Int) + sgn eff * B).natAbs = (B + sgn eff * (a.mant : Int)).natAbs := by
        cases eff <;> simp [sgn] <;> omega
      rw [e]; exact this


/-! ## the scale kept is the largest at which the rounded value fits -/

/-- every digit the loop drops beyond the `target` it was asked for was necessary: either exactly `D + target` digits are
dropped, or with one digit fewer the value would not fit (`X / 10^(K−1) ≥ 2^96 − ½`). -/
theorem rescaleLoop_maximal (X : Nat) : ∀ (fuel x upper sc target : Nat) (sticky : Bool) (rem D : Nat),
    x = X / 10 ^ D → 1 ≤ target → (upper > 2 → 2 ^ (32 * upper) ≤ x) → x < 2 ^ (32 * (upper + 1)) →
    ∀ m s', rescaleLoop fuel x upper sc target sticky rem = some (m, s') →
      s' = sc ∨ (s' < sc ∧ 2 ^ 97 * 10 ^ (sc + target + D - s' - 1) ≤ 2 * X + 10 ^ (sc + target + D - s' - 1))
  | 0, _, _, _, _, _, _, _, _, _, _, _, _, _, h => by simp [rescaleLoop] at h
  | fuel + 1, x, upper, sc, target, sticky, rem, D, hx, ht, hacc, hxu, m, s', h => by
    unfold rescaleLoop at h
    simp only at h
    generalize hc : (if target > 8 then 10 ^ 9 else 10 ^ target) = power at h
    have hpow : ∃ c, power = 10 ^ c ∧ 1 ≤ c ∧ c ≤ 9 ∧ c ≤ target ∧ (target ≤ 9 → c = target) ∧ (target > 9 → c = 9) := by
      by_cases h8 : target > 8
      · simp only [h8, if_true] at hc
        exact ⟨9, hc.symm, by omega, by omega, by omega, by omega, by omega⟩
      · simp only [h8, if_false] at hc
        exact ⟨target, hc.symm, by omega, by omega, by omega, by omega, by omega⟩
    obtain ⟨c, rfl, hc1, hc9, hct, hc_eq, hc_gt⟩ := hpow
    have hq : x / 10 ^ c = X / 10 ^ (D + c) := by rw [hx, Nat.div_div_eq_div_mul, ← Nat.pow_add]
    have hacc' := upper_accurate_step x upper c hc9 hacc
    generalize hup : (if x / 10 ^ c / 2 ^ (32 * upper) = 0 ∧ upper > 0 then upper - 1 else upper) = upper' at h hacc'
    have hqu : x / 10 ^ c < 2 ^ (32 * (upper' + 1)) := by
      have hle : x / 10 ^ c ≤ x := Nat.div_le_self _ _
      by_cases hz : x / 10 ^ c / 2 ^ (32 * upper) = 0 ∧ upper > 0
      · simp only [hz, and_self, if_true] at hup
        have : x / 10 ^ c < 2 ^ (32 * upper) := by
          rcases Nat.div_eq_zero_iff.mp hz.1 with h0 | h0
          · have := Nat.pow_pos (n := 32 * upper) (by decide : 0 < 2); omega
          · exact h0
        have e : upper' + 1 = upper := by omega
        rw [e]; exact this
      · simp only [hz, if_false] at hup
        subst hup; omega
    by_cases h9 : target > 9
    · simp only [h9, if_true] at h
      have hc9' := hc_gt h9
      subst hc9'
      have := rescaleLoop_maximal X fuel _ upper' sc (target - 9) _ _ (D + 9) hq (by omega) hacc' hqu m s' h
      have e : sc + (target - 9) + (D + 9) = sc + target + D := by omega
      rw [e] at this; exact this
    · simp only [h9, if_false] at h
      have hct' := hc_eq (by omega)
      subst hct'
      by_cases hu2 : upper' > 2
      · simp only [hu2, if_true] at h
        by_cases hsc : sc = 0
        · simp [hsc] at h
        · simp only [hsc, if_false] at h
          have ih := rescaleLoop_maximal X fuel _ upper' (sc - 1) 1 _ _ (D + c) hq (by omega) hacc' hqu m s' h
          right
          have h96 : 2 ^ 96 ≤ X / 10 ^ (D + c) := by
            rw [← hq]
            have := hacc' hu2
            have : 2 ^ 96 ≤ 2 ^ (32 * upper') := Nat.pow_le_pow_right (by decide) (by omega)
            omega
          have hle : X / 10 ^ (D + c) * 10 ^ (D + c) ≤ X := Nat.div_mul_le_self _ _
          have hbig : 2 ^ 96 * 10 ^ (D + c) ≤ X := Nat.le_trans (Nat.mul_le_mul_right _ h96) hle
          rcases ih with rfl | ⟨hlt, hb⟩
          · refine ⟨by omega, ?_⟩
            have e : sc + c + D - (sc - 1) - 1 = D + c := by omega
            rw [e]
            have e97 : (2 : Nat) ^ 97 = 2 * 2 ^ 96 := by decide
            rw [e97, Nat.mul_assoc]; omega
          · refine ⟨by omega, ?_⟩
            have e : sc - 1 + 1 + (D + c) - s' - 1 = sc + c + D - s' - 1 := by omega
            rw [e] at hb; exact hb
      · simp only [hu2, if_false] at h
        by_cases hupr : 10 ^ c / 2 ≤ x % 10 ^ c ∧ (10 ^ c / 2 < x % 10 ^ c ∨ x / 10 ^ c % 2 = 1 ∨ (sticky || rem != 0) = true)
        · rw [if_pos hupr] at h
          by_cases hfit : x / 10 ^ c + 1 < two96
          · simp only [hfit, if_true, Option.some.injEq, Prod.mk.injEq] at h
            left; exact h.2.symm
          · simp only [hfit, if_false] at h
            by_cases hsc : sc = 0
            · simp [hsc] at h
            · simp only [hsc, if_false] at h
              have hqv : x / 10 ^ c + 1 = 2 ^ 96 := by
                have : 2 ^ (32 * (upper' + 1)) ≤ 2 ^ 96 := Nat.pow_le_pow_right (by decide) (by omega)
                unfold two96 at hfit; omega
              rw [hqv] at h
              cases fuel with
              | zero => simp [rescaleLoop] at h
              | succ fuel =>
                rw [rescaleLoop_carry] at h
                simp only [Option.some.injEq, Prod.mk.injEq] at h
                obtain ⟨_, rfl⟩ := h
                right
                refine ⟨by omega, ?_⟩
                have e : sc + c + D - (sc - 1) - 1 = D + c := by omega
                rw [e, Nat.pow_add]
                obtain ⟨hTe, _⟩ := pow10_even c hc1
                have hxdm := Nat.div_add_mod x (10 ^ c)
                have h1 : (x / 10 ^ c * 10 ^ c + 10 ^ c / 2) * 10 ^ D ≤ X := by
                  have : x / 10 ^ c * 10 ^ c + 10 ^ c / 2 ≤ x := by
                    have := hupr.1
                    have e2 : 10 ^ c * (x / 10 ^ c) = x / 10 ^ c * 10 ^ c := Nat.mul_comm _ _
                    omega
                  have h2 := Nat.mul_le_mul_right (10 ^ D) this
                  have h3 : x * 10 ^ D ≤ X := by rw [hx]; exact Nat.div_mul_le_self _ _
                  omega
                have hqv' : 2 ^ 96 ≤ x / 10 ^ c + 1 := by omega
                generalize 10 ^ c / 2 = hh at hTe h1
                generalize x / 10 ^ c = q at hqv' h1
                generalize 10 ^ c = T at hTe h1 ⊢
                generalize 10 ^ D = P at h1 ⊢
                subst hTe
                have e1 : (q * (2 * hh) + hh) * P = (2 * q + 1) * (hh * P) := by grind
                have e2 : 2 ^ 97 * (P * (2 * hh)) = 2 ^ 98 * (hh * P) := by
                  have : (2 : Nat) ^ 98 = 2 ^ 97 * 2 := by decide
                  rw [this]; grind
                have e3 : P * (2 * hh) = 2 * (hh * P) := by grind
                rw [e1] at h1
                rw [e2, e3]
                have h4 : 2 ^ 97 * (hh * P) ≤ (2 * q + 2) * (hh * P) := Nat.mul_le_mul_right _ (by omega)
                have e5 : (2 * q + 2) * (hh * P) = (2 * q + 1) * (hh * P) + hh * P := by grind
                have e6 : (2 : Nat) ^ 98 * (hh * P) = 2 * (2 ^ 97 * (hh * P)) := by
                  have : (2 : Nat) ^ 98 = 2 * 2 ^ 97 := by decide
                  rw [this, Nat.mul_assoc]
                omega
        · rw [if_neg hupr] at h
          simp only [Option.some.injEq, Prod.mk.injEq] at h
          left; exact h.2.symm

/-- **`Buf24::rescale` keeps the largest scale at which the rounded value fits** (within the 28-place limit): if it returns
scale `s'`, then either nothing was dropped (`s' = scale`), or the 28-place limit alone forced the reduction (`s' = 28`),
or with one more place kept (`K − 1` digits dropped, `K = scale − s'`) the value would be `≥ 2^96 − ½`. -/
theorem bufRescale_maximal (x upper scale m s' : Nat) (hacc : upper > 2 → 2 ^ (32 * upper) ≤ x)
    (hxu : x < 2 ^ (32 * (upper + 1))) (hu5 : upper ≤ 5) (h : bufRescale x upper scale = some (m, s')) :
    s' = scale ∨ s' = 28 ∨
      (s' < scale ∧ 2 ^ 97 * 10 ^ (scale - s' - 1) ≤ 2 * x + 10 ^ (scale - s' - 1)) := by
  unfold bufRescale at h
  simp only at h
  generalize ht0 : (if upper > 2 then (((upper : Int) * 32 - 64 - 1 - (lz32 (x / 2 ^ (32 * upper)) : Int)) * 77) / 256 + 1 else 0) = t0 at h
  by_cases hov : t0 > (scale : Int)
  · simp [hov] at h
  · simp only [hov, if_false] at h
    generalize ht : (if t0 < (scale : Int) - 28 then (scale : Int) - 28 else t0) = t at h
    have htle : t ≤ scale := by rw [← ht]; split <;> omega
    by_cases hpos : t > 0
    · simp only [hpos, if_true] at h
      have hm := rescaleLoop_maximal x (10 * scale + 16) x upper (scale - t.toNat) t.toNat false 0 0 (by simp) (by omega)
        hacc hxu m s' h
      rcases hm with rfl | ⟨hlt, hb⟩
      · -- exactly t digits dropped
        by_cases hforced : t0 < (scale : Int) - 28
        · simp only [hforced, if_true] at ht
          right; left; omega
        · simp only [hforced, if_false] at ht
          subst ht
          -- t = t0 ≥ 1 comes from the estimate: one digit fewer does not fit
          right; right
          refine ⟨by omega, ?_⟩
          have hu : upper > 2 := by
            by_cases hu : upper > 2
            · exact hu
            · simp only [hu, if_false] at ht0; omega
          simp only [hu, if_true] at ht0
          have hx := hacc hu
          have hpos2 : 0 < 2 ^ (32 * upper) := Nat.pow_pos (by decide)
          have htop : x / 2 ^ (32 * upper) ≠ 0 := by
            intro h0
            rcases Nat.div_eq_zero_iff.mp h0 with h1 | h1 <;> omega
          have htop32 : x / 2 ^ (32 * upper) < 2 ^ 32 := by
            rw [Nat.div_lt_iff_lt_mul hpos2, ← Nat.pow_add]
            have : 32 + 32 * upper = 32 * (upper + 1) := by omega
            rw [this]; exact hxu
          have hdiv : x / 2 ^ (32 * upper) * 2 ^ (32 * upper) ≤ x := Nat.div_mul_le_self _ _
          generalize x / 2 ^ (32 * upper) = top at htop htop32 ht0 hdiv
          have hlog : top.log2 < 32 := (Nat.log2_lt htop).mpr htop32
          have hlz : lz32 top = 31 - top.log2 := by unfold lz32; simp [htop]
          rw [hlz] at ht0
          have hE : ((upper : Int) * 32 - 64 - 1 - ((31 - top.log2 : Nat) : Int)) = ((32 * upper - 96 + top.log2 : Nat) : Int) := by
            omega
          rw [hE] at ht0
          generalize hEE : 32 * upper - 96 + top.log2 = E at ht0
          have hE96 : E < 96 := by omega
          have hK : scale - (scale - t0.toNat) - 1 = E * 77 / 256 := by
            have : ((E : Int) * 77) / 256 = ((E * 77 / 256 : Nat) : Int) := by omega
            omega
          rw [hK]
          have h10 : 10 ^ (E * 77 / 256) ≤ 2 ^ E := estimate_ok E hE96
          have hl2 : 2 ^ top.log2 ≤ top := Nat.log2_self_le htop
          have hbig : 2 ^ (96 + E) ≤ x := by
            have e : 96 + E = top.log2 + 32 * upper := by omega
            rw [e, Nat.pow_add]
            exact Nat.le_trans (Nat.mul_le_mul_right _ hl2) hdiv
          have h96 : 2 ^ 96 * 10 ^ (E * 77 / 256) ≤ 2 ^ (96 + E) := by
            rw [Nat.pow_add]; exact Nat.mul_le_mul_left _ h10
          have e97 : (2 : Nat) ^ 97 = 2 * 2 ^ 96 := by decide
          rw [e97, Nat.mul_assoc]; omega
      · right; right
        refine ⟨by omega, ?_⟩
        have e : scale - t.toNat + t.toNat + 0 - s' - 1 = scale - s' - 1 := by omega
        rw [e] at hb; exact hb
    · simp only [hpos, if_false, Option.some.injEq, Prod.mk.injEq] at h
      left; exact h.2.symm


/-- **the scale of a product is the largest possible**: `sa + sb` if that fits, else 28 if the 28-place limit is the only
obstacle, else the largest scale at which the rounded mantissa fits 96 bits — except that two 32-bit operands whose scales
add up to more than 47 give `Decimal::ZERO` outright. -/
theorem mul_scale_maximal (a b r : D96) (ha : a.wf) (hb : b.wf) (ha0 : a.mant ≠ 0) (hb0 : b.mant ≠ 0)
    (h : mulImpl a b = .ok r) :
    r.scale = a.scale + b.scale ∨ r.scale = 28 ∨
      (r.scale < a.scale + b.scale ∧
        2 ^ 97 * 10 ^ (a.scale + b.scale - r.scale - 1) ≤ 2 * (a.mant * b.mant) + 10 ^ (a.scale + b.scale - r.scale - 1)) ∨
      (a.scale + b.scale > 47 ∧ r = zero) := by
  unfold mulImpl at h
  have h0 : ¬ (a.mant = 0 ∨ b.mant = 0) := by omega
  simp only [h0, if_false] at h
  by_cases h32 : a.mant < two32 ∧ b.mant < two32
  · simp only [h32, and_self, if_true] at h
    split at h
    · split at h
      · rename_i hs; cases h; right; right; right; exact ⟨by omega, rfl⟩
      · cases h; right; left; rfl
    · cases h; left; rfl
  · simp only [h32, if_false] at h
    split at h
    · cases hb' : bufRescale (a.mant * b.mant) (upperWord (a.mant * b.mant)) (a.scale + b.scale) with
      | none => rw [hb'] at h; cases h
      | some ms =>
        obtain ⟨m, s'⟩ := ms
        rw [hb'] at h; cases h
        have hne : a.mant * b.mant ≠ 0 := by
          intro hz; rcases Nat.mul_eq_zero.mp hz with h1 | h1 <;> omega
        have hlt : a.mant * b.mant < 2 ^ 192 := by
          have := Nat.mul_lt_mul'' ha.1 hb.1
          omega
        rcases bufRescale_maximal _ _ _ m s' (fun _ => upperWord_ge _ hne) (upperWord_lt _) (upperWord_le5 _ hlt) hb' with
          h1 | h1 | h1
        · left; exact h1
        · right; left; exact h1
        · right; right; left; exact h1
    · cases h; left; rfl

end Okane.Dec96
