/-! # C09 — property theorems (stub) -/
