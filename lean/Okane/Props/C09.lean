import Okane.Lemmas.Price
import Okane.Lemmas.PriceTerm
import Okane.Lemmas.PriceDbFile
/-!
# C09 — commodity conversion uses the right price

All statements are about `Okane.Price` (the model of `core/src/report/price_db.rs`) and hold **for every pop
choice `cfg.pick`, every neighbour order `cfg.ord` and every fuel** unless a hypothesis says otherwise.
`out := edgesAt cfg.ord repo D` lists, per commodity, one step per stored neighbour that has a record dated on or
before `D`, carrying that pair's as-of record (`C09_step_is_asof`).  Chains start at the target commodity `T`
(where `compute_price_table` starts) and end at the commodity being converted; `chainDist` accumulates
`Distance::extend`, `chainRate` multiplies the rates.
-/
namespace Okane.Price
variable {κ : Type} [DecidableEq κ]

/-- a neighbour order is valid when it visits exactly the stored neighbours (any permutation is; so is the
sorted order the Rust uses since b2e85da). -/
def OrdValid (ord : κ → List (κ × PEntry) → List (κ × PEntry)) : Prop := ∀ p l x, x ∈ ord p l ↔ x ∈ l

/-! ## identity -/

/-- A into A is the identity, whatever the repository holds. -/
theorem C09_identity (cfg : Cfg κ) (repo : Builder κ) (v : SingleAmount κ) (D : Date) :
    convertSingle cfg repo v v.commodity D = .ok v := by
  simp [convertSingle]

/-! ## as-of selection -/

/-- every record vector of a built repository is sorted by `(date, rate)`. -/
theorem C09_build_sorted (b : Builder κ) (w o : κ) : Sorted (entryOf (build b) w o).recs := by
  rw [entryOf_build]; exact isortBy_sorted _

/-- On a sorted record vector the lookup returns a stored record dated on or before `D`, no stored record dated
on or before `D` is more recent (or, on the same day, has a larger rate), and it fails exactly when every record
is dated after `D`. -/
theorem C09_asof (recs : List (Date × Rat)) (D : Date) (hs : Sorted recs) :
    (∀ d r, asOf recs D = some (d, r) →
        (d, r) ∈ recs ∧ d ≤ D ∧ ∀ d' r', (d', r') ∈ recs → d' ≤ D → d' ≤ d ∧ recLe (d', r') (d, r) = true) ∧
    (asOf recs D = none ↔ ∀ d' r', (d', r') ∈ recs → ¬ d' ≤ D) := by
  rw [asOf_sorted recs D hs]
  have hsf : (recs.filter fun r => decide (r.1 ≤ D)).Pairwise (fun a b => recLe a b = true) := List.Pairwise.filter _ hs
  constructor
  · intro d r h
    obtain ⟨hmem, hall⟩ := pairwise_getLast hsf h
    rw [List.mem_filter] at hmem
    refine ⟨hmem.1, by simpa using hmem.2, ?_⟩
    intro d' r' hm hd
    have : (d', r') ∈ recs.filter fun r => decide (r.1 ≤ D) := List.mem_filter.2 ⟨hm, by simpa using hd⟩
    rcases hall _ this with heq | hle
    · have h1 : recLe (d', r') (d, r) = true := by rw [heq]; exact recLe_refl _
      exact ⟨recLe_date_pair h1, h1⟩
    · exact ⟨recLe_date_pair hle, hle⟩
  · rw [List.getLast?_eq_none_iff, List.filter_eq_nil_iff]
    constructor
    · intro h d' r' hm; simpa using h (d', r') hm
    · intro h a ha; simpa using h a.1 a.2 ha

/-- Records dated after `D` are never read: the lookup gives the same answer when they are all removed. -/
theorem C09_asof_filter (recs : List (Date × Rat)) (D : Date) (hs : Sorted recs) :
    asOf recs D = asOf (recs.filter fun r => decide (r.1 ≤ D)) D := by
  have hsf : Sorted (recs.filter fun r => decide (r.1 ≤ D)) := List.Pairwise.filter _ hs
  rw [asOf_sorted recs D hs, asOf_sorted _ D hsf, List.filter_filter]
  simp

/-- every step the table computation can take out of `p` carries the as-of record of a stored ordered pair,
that pair's source, and the staleness `D - record date`. -/
theorem C09_step_is_asof (ord : κ → List (κ × PEntry) → List (κ × PEntry)) (repo : Builder κ) (D : Date) (p : κ)
    (e : Edge κ) :
    e ∈ edgesAt ord repo D p ↔
      ∃ inner entry d, AMap.get? repo p = some inner ∧ (e.to, entry) ∈ ord p inner ∧
        asOf entry.recs D = some (d, e.rate) ∧ e.source = entry.source ∧ e.stale = D.dayNumber - d.dayNumber :=
  mem_edgesAt ord repo D p e

/-! ## both directions, reciprocal rates -/

/-- `insert_price src {d, x X, y Y}` (non-zero amounts, X ≠ Y) appends `(d, y/x)` to `records[Y][X]` and
`(d, x/y)` to `records[X][Y]`; the two rates are reciprocal. -/
theorem C09_reciprocal (b b' : Builder κ) (src : Source) (ev : PriceEvent κ)
    (hx : ev.x.value ≠ 0) (hy : ev.y.value ≠ 0) (hne : ev.x.commodity ≠ ev.y.commodity)
    (h : insertPrice b src ev = .ok b') :
    (entryOf b' ev.y.commodity ev.x.commodity).recs.getLast? = some (ev.date, ev.y.value / ev.x.value) ∧
    (entryOf b' ev.x.commodity ev.y.commodity).recs.getLast? = some (ev.date, ev.x.value / ev.y.value) ∧
    (ev.y.value / ev.x.value) * (ev.x.value / ev.y.value) = 1 := by
  have hz : ¬ (ev.x.value = 0 ∨ ev.y.value = 0) := by simp [hx, hy]
  refine ⟨?_, ?_, ?_⟩
  · rw [entryOf_insertPrice h]
    simp [contrib1, hz, hne, Ne.symm hne, bump]
  · rw [entryOf_insertPrice h]
    simp [contrib1, hz, hne, Ne.symm hne, bump]
  · grind

/-! ## source priority -/

/-- `process` inserts the ledger's events first, then the price-db lines.  Afterwards an ordered pair holds:
exactly the price-db records for it if there is any, else exactly the ledger records; and the source says which. -/
theorem C09_priority (ledgerEvents dbEvents : List (PriceEvent κ)) (b : Builder κ)
    (h : buildFrom ledgerEvents dbEvents = .ok b) (w o : κ) :
    entryOf b w o =
      if contrib dbEvents w o = [] then ⟨.ledger, contrib ledgerEvents w o⟩ else ⟨.priceDB, contrib dbEvents w o⟩ := by
  unfold buildFrom at h
  cases h1 : insertAll .ledger ([] : Builder κ) ledgerEvents with
  | ok b1 =>
    simp only [h1] at h
    rw [entryOf_insertAll _ _ _ _ h w o, entryOf_insertAll _ _ _ _ h1 w o, entryOf_nil]
    by_cases hd : contrib dbEvents w o = []
    · by_cases hl : contrib ledgerEvents w o = []
      · simp [bump, hd, hl]
      · simp [bump, hd, hl, Source.rank]
    · by_cases hl : contrib ledgerEvents w o = []
      · simp [bump, hd, hl, Source.rank]
      · simp [bump, hd, hl, Source.rank]
  | err e => simp [h1] at h
  | panic s => simp [h1] at h
  | fuelOut => simp [h1] at h

/-- … and the repository used by queries holds those records sorted. -/
theorem C09_priority_built (ledgerEvents dbEvents : List (PriceEvent κ)) (b : Builder κ)
    (h : buildFrom ledgerEvents dbEvents = .ok b) (w o : κ) :
    entryOf (build b) w o =
      if contrib dbEvents w o = [] then ⟨.ledger, isortBy recLe (contrib ledgerEvents w o)⟩
      else ⟨.priceDB, isortBy recLe (contrib dbEvents w o)⟩ := by
  rw [entryOf_build, C09_priority ledgerEvents dbEvents b h w o]
  split <;> rfl

/-- building never panics: `insert_price` guards the division (fix F4). -/
theorem C09_insert_no_panic (ledgerEvents dbEvents : List (PriceEvent κ)) :
    ∃ b, buildFrom ledgerEvents dbEvents = .ok b := by
  obtain ⟨b1, h1⟩ := insertAll_ok .ledger ledgerEvents ([] : Builder κ)
  obtain ⟨b2, h2⟩ := insertAll_ok .priceDB dbEvents b1
  exact ⟨b2, by simp [buildFrom, h1, h2]⟩

/-! ## the table: soundness and optimality -/

theorem table_inv {cfg : Cfg κ} {repo : Builder κ} {T : κ} {D : Date} {tbl : Table κ}
    (h : priceTable cfg repo T D = .ok tbl) : Inv (edgesAt cfg.ord repo D) T tbl [] none :=
  loop_inv (cfg.pick T D) cfg.fuel [] _ tbl init_inv h

/-- Every table entry is realised by a chain of as-of steps from the target with exactly that distance and that
rate product. -/
theorem C09_sound (cfg : Cfg κ) (repo : Builder κ) (T : κ) (D : Date) (tbl : Table κ)
    (h : priceTable cfg repo T D = .ok tbl) (A : κ) (d : Dist) (r : Rat) (hA : AMap.get? tbl A = some (d, r)) :
    ∃ es, IsChain (edgesAt cfg.ord repo D) T es A ∧ chainDist Dist.zero es = d ∧ chainRate 1 es = r :=
  ((table_inv h).walkT A d r hA).toChain

/-- At termination, for every commodity other than the target: the tabled distance is at most the distance of
**every** chain of as-of steps reaching it (so, with `C09_sound`, it is the minimum, attained), and the commodity
is absent from the table exactly when no chain reaches it.  For every pop order and neighbour order. -/
theorem C09_optimal (cfg : Cfg κ) (repo : Builder κ) (T : κ) (D : Date) (tbl : Table κ)
    (h : priceTable cfg repo T D = .ok tbl) (A : κ) (hA : A ≠ T) :
    (∀ es, IsChain (edgesAt cfg.ord repo D) T es A →
        ∃ d r, AMap.get? tbl A = some (d, r) ∧ d ≤ chainDist Dist.zero es) ∧
    (AMap.get? tbl A = none ↔ ¬ ∃ es, IsChain (edgesAt cfg.ord repo D) T es A) := by
  have hinv := table_inv h
  have hlb : ∀ es, IsChain (edgesAt cfg.ord repo D) T es A →
      ∃ d r, AMap.get? tbl A = some (d, r) ∧ d ≤ chainDist Dist.zero es := by
    intro es hc
    have hw := Walk.ofChain es T Dist.zero 1 A Walk.nil hc
    rcases final_lower_bound hinv A _ _ hw with ⟨hAT, _⟩ | hex
    · exact absurd hAT hA
    · exact hex
  refine ⟨hlb, ?_⟩
  constructor
  · rintro hnone ⟨es, hc⟩
    obtain ⟨d, r, hg, _⟩ := hlb es hc
    rw [hnone] at hg; cases hg
  · intro hno
    cases hg : AMap.get? tbl A with
    | none => rfl
    | some v =>
      obtain ⟨d, r⟩ := v
      obtain ⟨es, hc, _, _⟩ := C09_sound cfg repo T D tbl h A d r hg
      exact absurd ⟨es, hc⟩ hno

/-- the tabled distance is the least distance of a chain, and the tabled rate is the rate product of a chain
attaining it. -/
theorem C09_best (cfg : Cfg κ) (repo : Builder κ) (T : κ) (D : Date) (tbl : Table κ)
    (h : priceTable cfg repo T D = .ok tbl) (A : κ) (hA : A ≠ T) (d : Dist) (r : Rat)
    (hg : AMap.get? tbl A = some (d, r)) :
    (∃ es, IsChain (edgesAt cfg.ord repo D) T es A ∧ chainDist Dist.zero es = d ∧ chainRate 1 es = r) ∧
    (∀ es, IsChain (edgesAt cfg.ord repo D) T es A → d ≤ chainDist Dist.zero es) := by
  refine ⟨C09_sound cfg repo T D tbl h A d r hg, ?_⟩
  intro es hc
  obtain ⟨d', r', hg', hle⟩ := (C09_optimal cfg repo T D tbl h A hA).1 es hc
  rw [hg] at hg'; cases hg'; exact hle

/-- Conversion of `v A` into `T ≠ A` fails exactly when no chain exists, and otherwise multiplies by the tabled
rate. -/
theorem C09_fail_iff (cfg : Cfg κ) (repo : Builder κ) (T : κ) (D : Date) (tbl : Table κ)
    (h : priceTable cfg repo T D = .ok tbl) (v : Rat) (A : κ) (hA : A ≠ T) :
    (convertSingle cfg repo ⟨v, A⟩ T D = .err (.rateNotFound ⟨v, A⟩ T D) ↔
        ¬ ∃ es, IsChain (edgesAt cfg.ord repo D) T es A) ∧
    (∀ d r, AMap.get? tbl A = some (d, r) → convertSingle cfg repo ⟨v, A⟩ T D = .ok ⟨v * r, T⟩) := by
  have hopt := (C09_optimal cfg repo T D tbl h A hA).2
  constructor
  · rw [← hopt]
    unfold convertSingle
    simp only [hA, if_false, h]
    cases hg : AMap.get? tbl A with
    | none => simp
    | some x => obtain ⟨d, r⟩ := x; simp
  · intro d r hg
    unfold convertSingle
    simp [hA, h, hg]

/-- Direct pair: if the pair (T, A) has an as-of record, the table holds A with a distance no worse than the
one-step chain (special case of `C09_optimal`). -/
theorem C09_direct (cfg : Cfg κ) (repo : Builder κ) (T : κ) (D : Date) (tbl : Table κ)
    (h : priceTable cfg repo T D = .ok tbl) (e : Edge κ) (he : e ∈ edgesAt cfg.ord repo D T) (hA : e.to ≠ T) :
    ∃ d r, AMap.get? tbl e.to = some (d, r) ∧ d ≤ Dist.zero.extend e.source e.stale :=
  (C09_optimal cfg repo T D tbl h e.to hA).1 [e] ⟨he, rfl⟩

/-- Two hops (special case of `C09_optimal`). -/
theorem C09_two_hop (cfg : Cfg κ) (repo : Builder κ) (T : κ) (D : Date) (tbl : Table κ)
    (h : priceTable cfg repo T D = .ok tbl) (e1 e2 : Edge κ) (h1 : e1 ∈ edgesAt cfg.ord repo D T)
    (h2 : e2 ∈ edgesAt cfg.ord repo D e1.to) (hA : e2.to ≠ T) :
    ∃ d r, AMap.get? tbl e2.to = some (d, r) ∧
      d ≤ (Dist.zero.extend e1.source e1.stale).extend e2.source e2.stale :=
  (C09_optimal cfg repo T D tbl h e2.to hA).1 [e1, e2] ⟨h1, h2, rfl⟩

theorem IsChain.mono {out out' : κ → List (Edge κ)} (hsub : ∀ j e, e ∈ out j → e ∈ out' j) :
    ∀ (es : List (Edge κ)) (a b : κ), IsChain out a es b → IsChain out' a es b := by
  intro es
  induction es with
  | nil => intro a b h; exact h
  | cons e es ih => intro a b h; exact ⟨hsub _ _ h.1, ih _ _ h.2⟩

theorem edgesAt_congr {ord ord' : κ → List (κ × PEntry) → List (κ × PEntry)} (h : OrdValid ord) (h' : OrdValid ord')
    (repo : Builder κ) (D : Date) (j : κ) (e : Edge κ) (he : e ∈ edgesAt ord repo D j) : e ∈ edgesAt ord' repo D j := by
  rw [mem_edgesAt] at he ⊢
  obtain ⟨inner, entry, d, h1, h2, h3⟩ := he
  exact ⟨inner, entry, d, h1, (h' _ _ _).2 ((h _ _ _).1 h2), h3⟩

/-- The distance found does not depend on the pop order, the neighbour order or the fuel (as long as the run
terminates): two runs agree on which commodities are convertible and on every distance.  (The *rate* may differ
between equally good chains; see `C09_tie_witness`.) -/
theorem C09_order_independent_distance (cfg cfg' : Cfg κ) (hv : OrdValid cfg.ord) (hv' : OrdValid cfg'.ord)
    (repo : Builder κ) (T : κ) (D : Date) (tbl tbl' : Table κ)
    (h : priceTable cfg repo T D = .ok tbl) (h' : priceTable cfg' repo T D = .ok tbl') (A : κ) (hA : A ≠ T) :
    (AMap.get? tbl A).map (·.1) = (AMap.get? tbl' A).map (·.1) := by
  have key : ∀ (c c' : Cfg κ) (t t' : Table κ), OrdValid c.ord → OrdValid c'.ord →
      priceTable c repo T D = .ok t → priceTable c' repo T D = .ok t' →
      ∀ d r, AMap.get? t A = some (d, r) → ∃ d' r', AMap.get? t' A = some (d', r') ∧ d' ≤ d := by
    intro c c' t t' hc hc' ht ht' d r hg
    obtain ⟨es, hch, hd, _⟩ := C09_sound c repo T D t ht A d r hg
    have hch' := IsChain.mono (fun j e => edgesAt_congr hc hc' repo D j e) es T A hch
    obtain ⟨d', r', hg', hle⟩ := (C09_optimal c' repo T D t' ht' A hA).1 es hch'
    exact ⟨d', r', hg', hd ▸ hle⟩
  cases hg : AMap.get? tbl A with
  | none =>
    cases hg' : AMap.get? tbl' A with
    | none => rfl
    | some x =>
      obtain ⟨d, r⟩ := x
      obtain ⟨_, _, h1, _⟩ := key cfg' cfg tbl' tbl hv' hv h' h d r hg'
      rw [hg] at h1; cases h1
  | some x =>
    obtain ⟨d, r⟩ := x
    obtain ⟨d', r', hg', hle⟩ := key cfg cfg' tbl tbl' hv hv' h h' d r hg
    obtain ⟨d'', r'', hg'', hle'⟩ := key cfg' cfg tbl' tbl hv' hv h' h d' r' hg'
    rw [hg] at hg''; cases hg''
    simp [hg', Dist.le_antisymm hle hle']

/-! ## the cache -/

/-- every cached table is what `compute_price_table` returns for its key. -/
def CacheOK (cfg : Cfg κ) (repo : Builder κ) (cache : Cache κ) : Prop :=
  ∀ T D tbl, AMap.get? cache (T, D) = some tbl → priceTable cfg repo T D = .ok tbl

/-- The `(commodity_with, date)` cache is a memo table: answers are those of the uncached function and the cache
stays coherent (the empty cache is). -/
theorem C09_cache_transparent (cfg : Cfg κ) (repo : Builder κ) (cache : Cache κ) (hc : CacheOK cfg repo cache)
    (v : SingleAmount κ) (T : κ) (D : Date) :
    (convertSingleCached cfg repo cache v T D).1 = convertSingle cfg repo v T D ∧
    CacheOK cfg repo (convertSingleCached cfg repo cache v T D).2 := by
  unfold convertSingleCached convertSingle
  by_cases hv : v.commodity = T
  · simp [hv, hc]
  · simp only [hv, if_false]
    cases hg : AMap.get? cache (T, D) with
    | some tbl =>
      have := hc T D tbl hg
      simp only [this]
      cases AMap.get? tbl v.commodity with
      | none => exact ⟨rfl, hc⟩
      | some x => exact ⟨rfl, hc⟩
    | none =>
      cases hp : priceTable cfg repo T D with
      | ok tbl =>
        have hc' : CacheOK cfg repo (AMap.insert cache (T, D) tbl) := by
          intro T' D' tbl' hg'
          by_cases hk : (T, D) = (T', D')
          · cases hk; rw [AMap.get?_insert_self] at hg'; cases hg'; exact hp
          · rw [AMap.get?_insert_ne _ _ hk] at hg'; exact hc T' D' tbl' hg'
        simp only
        cases AMap.get? tbl v.commodity with
        | none => exact ⟨rfl, hc'⟩
        | some x => exact ⟨rfl, hc'⟩
      | err e => exact ⟨rfl, hc⟩
      | panic s => exact ⟨rfl, hc⟩
      | fuelOut => exact ⟨rfl, hc⟩


/-! ## termination -/

/-- **Termination within a fuel bound.**  `fuelBound repo D = 2·|V|·(|V|+1)²·(Smax+1) + 1`, where `V` lists the
commodities mentioned in the repository and `Smax` is the greatest staleness a record can have at `D`.  With
that much fuel the table computation ends with a table — for every pop order and every neighbour order that
visits only stored neighbours.  (Each iteration pops one element; an element is pushed only when a label strictly
improves; labels come from chains that visit no commodity twice, so a label can improve only boundedly often.) -/
theorem C09_terminates (cfg : Cfg κ) (repo : Builder κ) (T : κ) (D : Date)
    (hord : ∀ p l x, x ∈ cfg.ord p l → x ∈ l) (hfuel : fuelBound repo D ≤ cfg.fuel) :
    ∃ tbl, priceTable cfg repo T D = .ok tbl :=
  priceTable_terminates cfg repo T D hord hfuel

/-- whatever the fuel, a run never panics and never returns an error: it ends with a table or runs out of fuel. -/
theorem C09_no_crash (cfg : Cfg κ) (repo : Builder κ) (T : κ) (D : Date) :
    (∃ tbl, priceTable cfg repo T D = .ok tbl) ∨ priceTable cfg repo T D = .fuelOut := by
  unfold priceTable tableOf
  generalize ([] : Table κ) = t
  generalize [(⟨Dist.zero, T, 1⟩ : Item κ)] = q
  induction cfg.fuel generalizing t q with
  | zero =>
    cases q with
    | nil => left; exact ⟨t, by simp [loop]⟩
    | cons x xs => right; simp [loop]
  | succ n ih =>
    cases q with
    | nil => left; exact ⟨t, by simp [loop]⟩
    | cons x xs =>
      simp only [loop]
      split
      · exact ih _ _
      · exact ih _ _

/-- Conversion with enough fuel is total: it answers with the best chain's rate or reports that no chain exists —
no panic, no hang. -/
theorem C09_convert_total (cfg : Cfg κ) (repo : Builder κ) (v : SingleAmount κ) (T : κ) (D : Date)
    (hord : ∀ p l x, x ∈ cfg.ord p l → x ∈ l) (hfuel : fuelBound repo D ≤ cfg.fuel) :
    (∃ w, convertSingle cfg repo v T D = .ok w) ∨ convertSingle cfg repo v T D = .err (.rateNotFound v T D) := by
  obtain ⟨tbl, h⟩ := C09_terminates cfg repo T D hord hfuel
  unfold convertSingle
  by_cases hv : v.commodity = T
  · left; exact ⟨v, by simp [hv]⟩
  · simp only [hv, if_false, h]
    cases AMap.get? tbl v.commodity with
    | none => right; rfl
    | some x => left; exact ⟨_, rfl⟩

/-! ## non-vacuity and witnesses (commodities are numbers here: 0 = target) -/
section Examples

private def day (n : Nat) : Date := ⟨2024, 1, n⟩
private def cfgFifo : Cfg Nat := ⟨64, fun _ _ _ _ => 0, fun _ l => l⟩
private def cfgLifoRev : Cfg Nat := ⟨64, fun _ _ _ q => q.length - 1, fun _ l => l.reverse⟩
private def cfgFifoRev : Cfg Nat := ⟨64, fun _ _ _ _ => 0, fun _ l => l.reverse⟩

/-- ledger: 1 c1 = 2 c0 on day 5; 10 c1 = 30 c0 on day 9.  price db: 1 c2 = 4 c1 on day 7. -/
private def repo1 : Builder Nat :=
  match buildFrom [⟨day 5, ⟨1, 1⟩, ⟨2, 0⟩⟩, ⟨day 9, ⟨10, 1⟩, ⟨30, 0⟩⟩] [⟨day 7, ⟨1, 2⟩, ⟨4, 1⟩⟩] with
  | .ok b => build b
  | _ => []

-- on the price's own date the price is used; the day before it is not there yet
example : convertSingle cfgFifo repo1 ⟨1, 1⟩ 0 (day 5) = .ok ⟨2, 0⟩ := by decide +kernel
example : convertSingle cfgFifo repo1 ⟨1, 1⟩ 0 (day 4) = .err (.rateNotFound ⟨1, 1⟩ 0 (day 4)) := by decide +kernel
-- reciprocal direction
example : convertSingle cfgFifo repo1 ⟨1, 0⟩ 1 (day 6) = .ok ⟨1/2, 1⟩ := by decide +kernel
-- two hops through the price db; the most recent ledger price (day 9: 3) is used once it exists
example : convertSingle cfgFifo repo1 ⟨1, 2⟩ 0 (day 8) = .ok ⟨8, 0⟩ := by decide +kernel
example : convertSingle cfgFifo repo1 ⟨1, 2⟩ 0 (day 9) = .ok ⟨12, 0⟩ := by decide +kernel
example : convertSingle cfgLifoRev repo1 ⟨1, 2⟩ 0 (day 9) = .ok ⟨12, 0⟩ := by decide +kernel
example : (match priceTable cfgFifo repo1 0 (day 9) with | .ok tbl => AMap.get? tbl 2 | _ => none)
    = some (⟨1, 2, 2⟩, 12) := by decide +kernel

/-- price db replaces the ledger price of the same pair: ledger says 1 c1 = 2 c0 (day 5), db says 1 c1 = 5 c0 (day 3). -/
private def repo2 : Builder Nat :=
  match buildFrom [⟨day 5, ⟨1, 1⟩, ⟨2, 0⟩⟩] [⟨day 3, ⟨1, 1⟩, ⟨5, 0⟩⟩] with
  | .ok b => build b
  | _ => []
example : convertSingle cfgFifo repo2 ⟨1, 1⟩ 0 (day 6) = .ok ⟨5, 0⟩ := by decide +kernel
example : contrib [(⟨day 3, ⟨1, 1⟩, ⟨5, 0⟩⟩ : PriceEvent Nat)] 0 1 = [(day 3, 5)] := by decide +kernel

/-- Two equally good chains 3→1→0 and 3→2→0 (all price db, all on day 1) with products 2 and 4. -/
private def repoTie : Builder Nat :=
  match buildFrom [] [⟨day 1, ⟨1, 1⟩, ⟨2, 0⟩⟩, ⟨day 1, ⟨1, 2⟩, ⟨4, 0⟩⟩, ⟨day 1, ⟨1, 3⟩, ⟨1, 1⟩⟩, ⟨day 1, ⟨1, 3⟩, ⟨1, 2⟩⟩] with
  | .ok b => build b
  | _ => []

/-- The *rate* (not the distance) depends on the visiting order when equally good chains disagree: this is why
the property accepts any best chain, and why the Rust now visits neighbours in commodity order (b2e85da). -/
theorem C09_tie_witness :
    convertSingle cfgFifo repoTie ⟨1, 3⟩ 0 (day 1) = .ok ⟨2, 0⟩ ∧
    convertSingle cfgFifoRev repoTie ⟨1, 3⟩ 0 (day 1) = .ok ⟨4, 0⟩ :=
  ⟨by decide +kernel, by decide +kernel⟩

example : Sorted (entryOf repo1 0 1).recs := C09_build_sorted _ 0 1
example : asOf [(day 5, 2), (day 9, 3)] (day 8) = some (day 5, 2) := by decide +kernel
example : asOf [(day 5, 2), (day 5, 3), (day 9, 1)] (day 5) = some (day 5, 3) := by decide +kernel
example : OrdValid (fun (_ : Nat) l => l.reverse) := fun _ _ _ => List.mem_reverse
-- the fuel bound is a concrete number: 7 mentions, staleness at most 4 days on day 9
example : fuelBound repo1 (day 9) = 4481 := by decide +kernel

end Examples

end Okane.Price

/-!
# C09 (continued) — the price-database *file*: parser, loader, and what `process` holds afterwards

`Okane.PriceDbFile` (`Model/PriceDbFile.lean`) models `parse::price::parse_price_db` (the `ParsedIter` of
`adaptor.rs` over `price_db_entry`, separated by `character::newlines`) and `PriceRepositoryBuilder::load_price_db`;
the proofs are in `Lemmas/PriceDbFile.lean`.  Texts are `List Char`; `printDb` prints one
`P <date> <commodity> <number> <commodity>\n` line per record; `canon s name` is the interned commodity
`ctx.commodities.ensure(name)` returns (an alias resolves to its canonical name).
-/
namespace Okane.Price
open Okane Okane.PriceDbFile Okane.Parse

/-! ## (a) round trip -/

/-- The parser reads back every list of well-formed records printed one per line. -/
theorem C09_pdb_roundtrip (rs : List PriceRec) (hwf : ∀ r ∈ rs, wfRec r = true) :
    parsePriceDb (printDb rs) = .ok rs := parsePriceDb_rt rs hwf

/-- … and in every other layout the grammar admits for such lines: each line ended by `\n` or `\r\n`, any runs of
`\r` / `\n` characters (empty lines, stray carriage returns) before, between and after the lines. -/
theorem C09_pdb_roundtrip_layout (ls : List Line) (trailer : List Char) (htr : trailer.all isNl = true)
    (hwf : ∀ l ∈ ls, l.1.all isNl = true ∧ wfRec l.2.1 = true) :
    parsePriceDb (printLayout ls trailer) = .ok (ls.map fun l => l.2.1) :=
  parsePriceDb_layout_rt ls trailer htr hwf

/-! ## (b) totality, and where the errors are -/

/-- For every text the parser returns the records or a `ParseError` whose checkpoint and failure position are
nested suffixes of the text (what `ParseError::new`'s `offset_from` / `compute_line_number` need): it never
reaches a `ParserError::assert` and the iteration needs no more than `length + 1` rounds. -/
theorem C09_pdb_parse_total (t : List Char) :
    (∃ rs, parsePriceDb t = .ok rs) ∨
    (∃ e, parsePriceDb t = .err e ∧
      ∃ i' pos, pos <:+ i' ∧ i' <:+ t ∧ parseErrorNew t i' pos e.isCut = .ok e) := parsePriceDb_total t

/-- … for every fuel above the text's length (the model's fuel is not what makes it terminate). -/
theorem C09_pdb_parse_fuel (t : List Char) (n : Nat) (hn : t.length < n) :
    GoodEnding t (parsedIter priceDbEntry newlines t n t []).2 := parsedIter_priceDb_total t n hn

/-- `load_price_db` returns `Ok` exactly when the parser accepts the text, with every record inserted, and the
parser's error otherwise; no panic (the division of `insert_impl` is guarded), no hang — for every text, every
commodity store and every builder. -/
theorem C09_pdb_load_total (t : List Char) (s : Store) (b : Builder String) :
    (∃ rs b', parsePriceDb t = .ok rs ∧ insertAll .priceDB b (eventsOf s rs) = .ok b' ∧
      loadPriceDb t s b = .ok (storeAfter s rs, b')) ∨
    (∃ e, parsePriceDb t = .err e ∧ loadPriceDb t s b = .err e) := by
  rcases parsePriceDb_total t with ⟨rs, h⟩ | ⟨e, h, _⟩
  · obtain ⟨b', h1, _, h3⟩ := loadPriceDb_of_ok h s b
    exact .inl ⟨rs, b', h, h1, h3⟩
  · exact .inr ⟨e, h, loadPriceDb_of_err h s b⟩

/-- the price-db part of `report::process` (ledger events, then the file, then `build`) is total as well, and on an
accepted text it is `buildFrom` on the parsed records followed by `build`. -/
theorem C09_pdb_process_total (ledgerEvents : List (PriceEvent String)) (t : List Char) (s : Store) :
    (∃ rs b, parsePriceDb t = .ok rs ∧ buildFrom ledgerEvents (eventsOf s rs) = .ok b ∧
      processPriceDb ledgerEvents t s = .ok (storeAfter s rs, build b)) ∨
    (∃ e, parsePriceDb t = .err e ∧ processPriceDb ledgerEvents t s = .err e) :=
  processPriceDb_total ledgerEvents t s

/-- A line that does not start with `P` (a comment, a blank-only line, an indented line …) after any number of
well-formed lines is rejected; the error span is its first character. -/
theorem C09_pdb_rejects_nonP (ls : List Line) (hwf : ∀ l ∈ ls, l.1.all isNl = true ∧ wfRec l.2.1 = true)
    (c : Char) (Y : List Char) (hP : c ≠ 'P') (hnl : isNl c = false) :
    ∃ e, parsePriceDb (printLines ls ++ c :: Y) = .err e ∧ e.offset = 0 ∧ e.spanEnd = c.utf8Size :=
  parsePriceDb_rejects_nonP ls hwf c Y hP hnl

/-- A well-formed line that is not followed by a line end — the last line of a file without final new-line
(`Z = []`), or a line going on with `;`, a lone `\r`, … — is rejected; the error is where the line end is missing. -/
theorem C09_pdb_rejects_unterminated (ls : List Line) (hwf : ∀ l ∈ ls, l.1.all isNl = true ∧ wfRec l.2.1 = true)
    (b : List Char) (hb : b.all isNl = true) (r : PriceRec) (hr : wfRec r = true)
    (Z : List Char) (hZ : AmountEnd Z) (hle : Comb.lineEnding Z = .bt Z) :
    ∃ e, parsePriceDb (printLines ls ++ (b ++ (printBody r ++ Z))) = .err e ∧
      e.offset = Comb.utf8Len (b ++ printBody r) ∧ e.spanEnd = e.offset + headSize Z :=
  parsePriceDb_rejects_unterminated ls hwf b hb r hr Z hZ hle

/-! ## (c) the loader -/

/-- After `load_price_db`, every record `P d A x B` of the file with `x ≠ 0` is in the builder under `B → A`
(`records[B][A]`: "1 A is worth x B") with rate `x` and under `A → B` with rate `1 / x`; both entries have source
`PriceDB`; the two rates are reciprocal.  (This is `C09_reciprocal` for every line of the file.) -/
theorem C09_pdb_loaded (t : List Char) (s s' : Store) (b b' : Builder String) (rs : List PriceRec)
    (hp : parsePriceDb t = .ok rs) (h : loadPriceDb t s b = .ok (s', b'))
    (r : PriceRec) (hr : r ∈ rs) (hx : r.rate.toRat ≠ 0) :
    (r.date, r.rate.toRat) ∈ (entryOf b' (canon s r.commodity) (canon s r.target)).recs ∧
    (entryOf b' (canon s r.commodity) (canon s r.target)).source = .priceDB ∧
    (r.date, 1 / r.rate.toRat) ∈ (entryOf b' (canon s r.target) (canon s r.commodity)).recs ∧
    (entryOf b' (canon s r.target) (canon s r.commodity)).source = .priceDB ∧
    r.rate.toRat * (1 / r.rate.toRat) = 1 := by
  obtain ⟨b2, _, h2, h3⟩ := loadPriceDb_of_ok hp s b
  rw [h3] at h
  simp only [Outcome.ok.injEq, Prod.mk.injEq] at h
  rw [← h.2]
  exact load_member h2 hr hx

/-- What an ordered pair holds after loading, exactly: the entry it had, bumped (`Price.bump`: source raised to
`PriceDB`, ledger records dropped) by the contributions of the file's records in file order. -/
theorem C09_pdb_entry (t : List Char) (s s' : Store) (b b' : Builder String) (rs : List PriceRec)
    (hp : parsePriceDb t = .ok rs) (h : loadPriceDb t s b = .ok (s', b')) (w o : String) :
    entryOf b' w o = bump .priceDB (entryOf b w o) (contrib (eventsOf s rs) w o) := by
  obtain ⟨b2, _, h2, h3⟩ := loadPriceDb_of_ok hp s b
  rw [h3] at h
  simp only [Outcome.ok.injEq, Prod.mk.injEq] at h
  rw [← h.2]
  exact load_entry h2 w o

/-- Records with `x = 0` change nothing: the builder after loading the records is the builder after loading them
without the zero-amount ones (which only register their commodities); `x = 0` means a zero mantissa. -/
theorem C09_pdb_zero (rs : List PriceRec) (s s' : Store) (b b' : Builder String)
    (h : loadRecs s b rs = .ok (s', b')) :
    (∃ s'', loadRecs s b (rs.filter fun r => decide (r.rate.toRat ≠ 0)) = .ok (s'', b')) ∧
    (∀ r : PriceRec, r.rate.toRat = 0 ↔ r.rate.mant = 0) :=
  ⟨load_zero rs s b s' b' h, fun r => toRat_eq_zero_iff r.rate⟩

/-- `C09_priority_built` for the text: after `process` with a price-db file, an ordered pair holds exactly the
file's records for it (sorted) if the file has any, else exactly the ledger's. -/
theorem C09_pdb_priority (ledgerEvents : List (PriceEvent String)) (t : List Char) (s s' : Store)
    (repo : Builder String) (rs : List PriceRec) (hp : parsePriceDb t = .ok rs)
    (h : processPriceDb ledgerEvents t s = .ok (s', repo)) (w o : String) :
    entryOf repo w o =
      if contrib (eventsOf s rs) w o = [] then ⟨.ledger, isortBy recLe (contrib ledgerEvents w o)⟩
      else ⟨.priceDB, isortBy recLe (contrib (eventsOf s rs) w o)⟩ := by
  obtain ⟨b, h1, h2⟩ := processPriceDb_of_ok hp ledgerEvents s
  rw [h2] at h
  simp only [Outcome.ok.injEq, Prod.mk.injEq] at h
  rw [← h.2]
  exact C09_priority_built ledgerEvents (eventsOf s rs) b h1 w o

/-- Round trip and loader together: loading the printed file of well-formed records puts every non-zero record
into the builder in both directions. -/
theorem C09_pdb_print_load (rs : List PriceRec) (hwf : ∀ r ∈ rs, wfRec r = true) (s : Store) (b : Builder String) :
    ∃ b', loadPriceDb (printDb rs) s b = .ok (storeAfter s rs, b') ∧
      ∀ r ∈ rs, r.rate.toRat ≠ 0 →
        (r.date, r.rate.toRat) ∈ (entryOf b' (canon s r.commodity) (canon s r.target)).recs ∧
        (r.date, 1 / r.rate.toRat) ∈ (entryOf b' (canon s r.target) (canon s r.commodity)).recs := by
  obtain ⟨b', _, h2, h3⟩ := loadPriceDb_of_ok (parsePriceDb_rt rs hwf) s b
  refine ⟨b', h3, fun r hr hx => ?_⟩
  have := load_member h2 hr hx
  exact ⟨this.1, this.2.2.1⟩

/-! ## non-vacuity -/
section PdbExamples

/-- `P 2024/01/05 AB 12.5 USD`, a zero line, a grouped number, a line without commodity -/
private def exDb : List PriceRec :=
  [⟨⟨2024, 1, 5⟩, "AB", ⟨false, 125, 1, none⟩, "USD"⟩,
   ⟨⟨2024, 1, 6⟩, "AB", ⟨false, 0, 2, none⟩, "EUR"⟩,
   ⟨⟨2023, 12, 31⟩, "JRTOK", ⟨false, 3584, 0, some .comma3dot⟩, "JPY"⟩,
   ⟨⟨2024, 2, 29⟩, "€", ⟨true, 5, 0, none⟩, ""⟩]

private theorem exDb_wf : ∀ r ∈ exDb, wfRec r = true := by decide +kernel

example : String.ofList (printDb exDb) =
    "P 2024/01/05 AB 12.5 USD\nP 2024/01/06 AB 0.00 EUR\nP 2023/12/31 JRTOK 3,584 JPY\nP 2024/02/29 € -5\n" := by
  decide +kernel
example : parsePriceDb (printDb exDb) = .ok exDb := C09_pdb_roundtrip exDb exDb_wf
-- CRLF, empty lines, a stray `\r`, no trailer
example : parsePriceDb (printLayout (exDb.map fun r => (['\n', '\r', '\r', '\n'], r, true)) ['\r']) = .ok exDb := by
  have := C09_pdb_roundtrip_layout (exDb.map fun r => (['\n', '\r', '\r', '\n'], r, true)) ['\r'] rfl
    (by decide +kernel)
  rw [this]; rfl
-- the model against okane's own unit-test inputs (`price_db_parses_valid_with_date`)
example : parsePriceDb "P 2023/12/31 JRTOK 3,584 JPY\nP 2024-10-28 EUR 0.9367 CHF\n".toList =
    .ok [⟨⟨2023, 12, 31⟩, "JRTOK", ⟨false, 3584, 0, some .comma3dot⟩, "JPY"⟩,
         ⟨⟨2024, 10, 28⟩, "EUR", ⟨false, 9367, 4, none⟩, "CHF"⟩] := by decide +kernel
-- the ignored unit test (`price_db_parses_valid_with_datetime`): a time of day is not accepted
example : (parsePriceDb "P 2022/02/02 17:06:00 DCTOPIX 22,745 JPY\n".toList).isErr = true := by decide +kernel
-- rejected texts: no final new-line (error at end of input, empty span), comment line (line 2), bad date, expression
example : parsePriceDb "P 2024/01/05 AB 12.5 USD".toList = .err ⟨24, 24, 1, false⟩ := by decide +kernel
example : parsePriceDb "P 2024/01/05 AB 12.5 USD\n; comment\n".toList = .err ⟨0, 1, 2, false⟩ := by decide +kernel
example : parsePriceDb "\n\nP 2024/02/30 AB 12.5 USD\n".toList = .err ⟨4, 5, 1, false⟩ := by decide +kernel
example : parsePriceDb "P 2024/01/05 AB (1 + 2) USD\n".toList = .err ⟨16, 17, 1, false⟩ := by decide +kernel
example : ∃ e, parsePriceDb (printLines [] ++ ([] ++ (printBody exDb.head! ++ []))) = .err e ∧
    e.offset = Comb.utf8Len ([] ++ printBody exDb.head!) ∧ e.spanEnd = e.offset + headSize [] :=
  C09_pdb_rejects_unterminated [] (by simp) [] rfl _ (exDb_wf _ (by decide)) [] amountEnd_nil rfl
example : ∃ e, parsePriceDb (printLines [([], exDb.head!, false)] ++ ';' :: " c\n".toList) = .err e ∧
    e.offset = 0 ∧ e.spanEnd = (';' : Char).utf8Size :=
  C09_pdb_rejects_nonP [([], exDb.head!, false)] (by decide +kernel) ';' _ (by decide) (by decide)
-- the loader on the example file, starting from an empty store and an empty builder: 1 AB = 12.5 USD both ways,
-- the zero line leaves no trace, source PriceDB
example : (match loadPriceDb (printDb exDb) {} [] with
    | .ok (_, b) => ((entryOf b "USD" "AB").recs, (entryOf b "AB" "USD").recs, (entryOf b "EUR" "AB").recs,
        (entryOf b "USD" "AB").source)
    | _ => ([], [], [], .ledger)) =
    ([(⟨2024, 1, 5⟩, 25 / 2)], [(⟨2024, 1, 5⟩, 2 / 25)], [], .priceDB) := by decide +kernel
-- an alias declared in the ledger is resolved before the pair is stored
example : canon ⟨[("$", some "USD"), ("USD", none)]⟩ "$" = "USD" := by decide +kernel
example : ∃ b', loadPriceDb (printDb exDb) {} [] = .ok (storeAfter {} exDb, b') :=
  (C09_pdb_print_load exDb exDb_wf {} []).elim fun b' h => ⟨b', h.1⟩
-- the price db replaces a ledger price of the same pair, `process`-level
example : (match processPriceDb [⟨⟨2024, 1, 9⟩, ⟨1, "AB"⟩, ⟨7, "USD"⟩⟩] (printDb exDb) {} with
    | .ok (_, repo) => some ((entryOf repo "USD" "AB").source, (entryOf repo "USD" "AB").recs)
    | _ => none) = some (.priceDB, [(⟨2024, 1, 5⟩, 25 / 2)]) := by decide +kernel

end PdbExamples

end Okane.Price
