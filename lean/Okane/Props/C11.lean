import Okane.Lemmas.Load
import Okane.Model.Process
import Okane.Lemmas.C11TextLoad
import Okane.Lemmas.C11TextExact
/-!
# C11 — includes expand in place, in order; splitting a ledger changes nothing

All theorems are about `Okane.Load.loadFile` (the model of `Loader::load_impl`, generic in the `FileSystem`
implementation `fs : FSI`, exactly like the Rust) and the substitution semantics `Okane.Load.expand`.
-/
namespace Okane.Load

/-! ## what is delivered -/

theorem mem_andThen_delivered {a : LoadRes} {b : Unit → LoadRes} {x : Path × Entry}
    (h : x ∈ (a.andThen b).delivered) : x ∈ a.delivered ∨ x ∈ (b ()).delivered := by
  by_cases h1 : a.status = .ok ()
  · rw [(andThen_delivered_of_ok a b h1).1] at h
    simpa using h
  · rw [andThen_of_not_ok a b h1] at h
    exact Or.inl h

theorem loadEntries_forall (fs : FSI) (rec : Path → LoadRes) (cp : Path) (Q : Path × Entry → Prop)
    (hrec : ∀ q, ∀ x ∈ (rec q).delivered, Q x) :
    ∀ es, (∀ e ∈ es, isInclude e = false → Q (cp, e)) → ∀ x ∈ (loadEntriesWith fs rec cp es).delivered, Q x := by
  have hlist : ∀ qs, ∀ x ∈ (loadListWith rec qs).delivered, Q x := by
    intro qs
    induction qs with
    | nil => simp [loadListWith, LoadRes.done]
    | cons q qs ih =>
      intro x hx
      simp only [loadListWith] at hx
      rcases mem_andThen_delivered hx with h | h
      · exact hrec q x h
      · exact ih x h
  have hincl : ∀ g, ∀ x ∈ (loadInclude fs rec cp g).delivered, Q x := by
    intro g x hx
    unfold loadInclude at hx
    cases hp : parent cp with
    | none => simp [hp, LoadRes.fail] at hx
    | some dir =>
      simp only [hp] at hx
      cases hg : fs.glob (joinStr dir g) with
      | ok paths =>
        simp only [hg] at hx
        by_cases he : paths.isEmpty = true
        · simp [he, LoadRes.fail] at hx
        · simp only [he] at hx
          exact hlist _ x hx
      | err e => simp [hg, LoadRes.fail] at hx
      | panic s => simp [hg] at hx
      | fuelOut => simp [hg] at hx
  intro es
  induction es with
  | nil => simp [loadEntriesWith, LoadRes.done]
  | cons e es ih =>
    intro hes x hx
    have ih' := ih (fun e' he' => hes e' (List.mem_cons_of_mem _ he'))
    cases e with
    | «include» g =>
      simp only [loadEntriesWith] at hx
      rcases mem_andThen_delivered hx with h | h
      · exact hincl g x h
      · exact ih' x h
    | _ =>
      simp only [loadEntriesWith, List.mem_cons] at hx
      rcases hx with rfl | h
      · exact hes _ (by simp) rfl
      · exact ih' x h

/-- Whatever the outcome, (a) the include line itself is never delivered and (b) every delivered entry is
tagged with the canonical path of a readable file that contains it. -/
theorem C11_delivered (fs : FSI) : ∀ n stack p, ∀ x ∈ (loadFile fs n stack p).delivered,
    isInclude x.2 = false ∧ ∃ c, fs.read x.1 = .ok c ∧ x.2 ∈ c.entries := by
  intro n
  induction n with
  | zero => intro stack p x hx; simp [loadFile] at hx
  | succ n ih =>
    intro stack p x hx
    rw [loadFile] at hx
    split at hx
    · simp [LoadRes.fail] at hx
    · split at hx
      next content hr =>
        rcases mem_andThen_delivered hx with h | h
        · refine loadEntries_forall fs _ _ (fun x => isInclude x.2 = false ∧ ∃ c, fs.read x.1 = .ok c ∧ x.2 ∈ c.entries)
            (fun q => ih _ q) content.entries ?_ x h
          intro e he hne
          exact ⟨hne, content, hr, he⟩
        · split at h <;> simp [LoadRes.fail, LoadRes.done] at h
      · simp [LoadRes.fail] at hx
      · simp at hx
      · simp at hx

/-! ## C11_expand: a successful load delivers exactly the substitution expansion -/

theorem loadFile_sound (fs : FSI) : ∀ n stack p, (loadFile fs n stack p).status = .ok () →
    expand fs n p = some (loadFile fs n stack p).delivered := by
  intro n
  induction n with
  | zero => intro stack p h; simp [loadFile] at h
  | succ n ih =>
    intro stack p h
    rw [loadFile] at h ⊢
    rw [expand]
    by_cases hs : fs.canon p ∈ stack
    · simp [hs, LoadRes.fail] at h
    · simp only [hs, if_false] at h ⊢
      cases hr : fs.read (fs.canon p) with
      | ok content =>
        simp only [hr] at h ⊢
        rw [andThen_ok_iff] at h
        have hd := andThen_delivered_of_ok _ (fun _ => if content.parseErr then LoadRes.fail (.parse (fs.canon p)) else LoadRes.done) h.1
        rw [hd.1]
        by_cases hp : content.parseErr = true
        · simp [hp, LoadRes.fail] at h
        · simp only [hp]
          have := loadEntries_sound fs _ (expand fs n) (fun q hq => ih (fs.canon p :: stack) q hq) (fs.canon p)
            content.entries h.1
          simpa [LoadRes.done] using this
      | err e => simp [hr, LoadRes.fail] at h
      | panic s => simp [hr] at h
      | fuelOut => simp [hr] at h

/-- **C11_expand.**  If loading `root` succeeds, the callback sequence is the substitution expansion of `root`
(each `include` replaced in place by the expansions of its sorted matches), for the fuel used and for every
larger one; no `include` entry is delivered; every entry carries the path of the file that contains it. -/
theorem C11_expand (fs : FSI) (fuel : Nat) (root : Path) (h : (load fs fuel root).status = .ok ()) :
    (∀ m, fuel ≤ m → expand fs m root = some (load fs fuel root).delivered) ∧
    (∀ x ∈ (load fs fuel root).delivered, isInclude x.2 = false ∧ ∃ c, fs.read x.1 = .ok c ∧ x.2 ∈ c.entries) :=
  ⟨fun _ hm => expand_mono fs hm (loadFile_sound fs fuel [] root h), C11_delivered fs fuel [] root⟩

/-! ## C11_split: a tree of files whose substitution expansion is `xs` loads as `xs` -/

theorem expand_none_of_succ (fs : FSI) {n : Nat} {q : Path} (h : expand fs (n + 1) q = none) : expand fs n q = none := by
  cases h' : expand fs n q with
  | none => rfl
  | some ys => rw [expand_succ fs n q ys h'] at h; cases h

/-- completeness of the loader w.r.t. the substitution semantics, under any include stack none of whose
members can itself be expanded within depth `n` (they are the files currently being expanded). -/
theorem loadFile_complete (fs : FSI) (hc : ∀ p, fs.canon (fs.canon p) = fs.canon p) :
    ∀ n p xs stack m, expand fs n p = some xs → (∀ q ∈ stack, expand fs n q = none) → n ≤ m →
      loadFile fs m stack p = ⟨xs, .ok ()⟩ := by
  intro n
  induction n with
  | zero => intro p xs stack m h; simp [expand] at h
  | succ n ih =>
    intro p xs stack m h hst hm
    have hst' : ∀ q ∈ stack, expand fs n q = none := fun q hq => expand_none_of_succ fs (hst q hq)
    cases hA : expand fs n p with
    | some xs' =>
      have := expand_succ fs n p xs' hA
      rw [h] at this
      cases this
      exact ih p xs stack m hA hst' (by omega)
    | none =>
      obtain ⟨m', rfl⟩ : ∃ m', m = m' + 1 := ⟨m - 1, by omega⟩
      have hcp : fs.canon p ∉ stack := by
        intro hmem
        have := hst _ hmem
        rw [expand_canon fs hc, h] at this
        cases this
      rw [expand] at h
      rw [loadFile]
      simp only [hcp, if_false]
      cases hr : fs.read (fs.canon p) with
      | ok content =>
        simp only [hr] at h ⊢
        by_cases hp : content.parseErr = true
        · simp [hp] at h
        · simp only [hp] at h
          have hrec : ∀ q ys, expand fs n q = some ys → loadFile fs m' (fs.canon p :: stack) q = ⟨ys, .ok ()⟩ := by
            intro q ys hq
            refine ih q ys _ m' hq ?_ (by omega)
            intro q' hq'
            rcases List.mem_cons.1 hq' with rfl | hq'
            · rw [expand_canon fs hc]; exact hA
            · exact hst' q' hq'
          rw [loadEntries_complete fs _ (expand fs n) hrec (fs.canon p) content.entries xs h]
          simp [LoadRes.andThen, hp, LoadRes.done]
      | err e => simp [hr] at h
      | panic s => simp [hr] at h
      | fuelOut => simp [hr] at h

/-- **load = expand.**  With an idempotent `canonicalize_path`, loading succeeds with callback sequence `xs`
exactly when the substitution expansion is defined and equals `xs`. -/
theorem C11_load_eq_expand (fs : FSI) (hc : ∀ p, fs.canon (fs.canon p) = fs.canon p) (fuel : Nat) (root : Path)
    (xs : Tagged) : load fs fuel root = ⟨xs, .ok ()⟩ ↔ expand fs fuel root = some xs := by
  constructor
  · intro h
    have hs : (load fs fuel root).status = .ok () := by rw [h]
    have := loadFile_sound fs fuel [] root hs
    unfold load at h
    rw [h] at this
    exact this
  · intro h
    exact loadFile_complete fs hc fuel root xs [] fuel h (by simp) (Nat.le_refl _)

/-! ### cutting -/

theorem expandEntries_append (fs : FSI) (rec : Path → Option Tagged) (cp : Path) :
    ∀ (as bs : List Entry), expandEntriesWith fs rec cp (as ++ bs) =
      match expandEntriesWith fs rec cp as, expandEntriesWith fs rec cp bs with
      | some a, some b => some (a ++ b)
      | _, _ => none := by
  intro as bs
  induction as with
  | nil => cases h : expandEntriesWith fs rec cp bs <;> simp [expandEntriesWith, h]
  | cons e as ih =>
    cases e with
    | «include» g =>
      simp only [List.cons_append, expandEntriesWith, ih]
      cases expandInclude fs rec cp g <;> cases expandEntriesWith fs rec cp as <;>
        cases expandEntriesWith fs rec cp bs <;> simp
    | _ =>
      simp only [List.cons_append, expandEntriesWith, ih]
      cases expandEntriesWith fs rec cp as <;> cases expandEntriesWith fs rec cp bs <;> simp

/-- entries that are not includes expand to themselves, tagged with the file. -/
theorem expandEntries_plain (fs : FSI) (rec : Path → Option Tagged) (cp : Path) :
    ∀ es : List Entry, (∀ e ∈ es, isInclude e = false) → expandEntriesWith fs rec cp es = some (es.map fun e => (cp, e)) := by
  intro es
  induction es with
  | nil => intro _; rfl
  | cons e es ih =>
    intro h
    have ih' := ih (fun e' he' => h e' (List.mem_cons_of_mem _ he'))
    cases e with
    | «include» g => have := h (.include g) (by simp); simp [isInclude] at this
    | _ => simp [expandEntriesWith, ih']

/-- the expansions of a list of files, concatenated in the given order. -/
def ExpandsTo (rec : Path → Option Tagged) : List Path → List Tagged → Prop
  | [], [] => True
  | q :: qs, piece :: pieces => rec q = some piece ∧ ExpandsTo rec qs pieces
  | _, _ => False

theorem expandList_eq (rec : Path → Option Tagged) :
    ∀ (qs : List Path) (pieces : List Tagged), ExpandsTo rec qs pieces →
      expandListWith rec qs = some pieces.flatten := by
  intro qs
  induction qs with
  | nil => intro pieces h; cases pieces <;> simp_all [ExpandsTo, expandListWith]
  | cons q qs ih =>
    intro pieces h
    cases pieces with
    | nil => simp [ExpandsTo] at h
    | cons piece pieces =>
      simp only [ExpandsTo] at h
      simp [expandListWith, h.1, ih pieces h.2]

/-- **C11_cut (one cut).**  Take a file's entry list `pre ++ seg ++ post` (`seg` free of includes), move `seg` into
other files and put `include g` in its place, where the sorted matches of `g` (relative to the file's directory) are
files whose expansions, concatenated in that order, read `seg`.  The expansion of the file reads the same entries as
before.  (`rec` is the expansion of the other files — the statement composes: the pieces may themselves have been cut,
include through `..`, or be matched by a glob.) -/
theorem C11_cut (fs : FSI) (rec : Path → Option Tagged) (cp dir : Path) (g : String) (pre seg post : List Entry)
    (paths : List Path) (pieces : List Tagged)
    (hdir : parent cp = some dir) (hglob : fs.glob (joinStr dir g) = .ok paths) (hne : paths ≠ [])
    (hpieces : ExpandsTo rec (sortPaths paths) pieces)
    (hseg : untag pieces.flatten = seg) (hplain : ∀ e ∈ seg, isInclude e = false) :
    (expandEntriesWith fs rec cp (pre ++ .include g :: post)).map untag =
      (expandEntriesWith fs rec cp (pre ++ seg ++ post)).map untag := by
  have hinc : expandInclude fs rec cp g = some pieces.flatten := by
    unfold expandInclude
    have : paths.isEmpty = false := by cases paths <;> simp_all
    simp [hdir, hglob, this, expandList_eq rec _ _ hpieces]
  rw [List.append_assoc, expandEntries_append, expandEntries_append fs rec cp pre (seg ++ post),
    expandEntries_append fs rec cp seg post, expandEntries_plain fs rec cp seg hplain]
  simp only [expandEntriesWith, hinc]
  cases expandEntriesWith fs rec cp pre <;> cases expandEntriesWith fs rec cp post <;>
    simp [untag, ← hseg, List.map_map, Function.comp_def]

/-- **C11_split.**  Two file trees (e.g. a ledger in one file, and the same ledger cut into a tree of files) whose
substitution expansions read the same entries: both load successfully, with any fuel at least the nesting depth, the
callbacks receive the same entry sequence, and therefore `process` — and every report, each being a function of the
delivered entry list — gives the same result. -/
theorem C11_split (fs₁ fs₂ : FSI) (hc₁ : ∀ p, fs₁.canon (fs₁.canon p) = fs₁.canon p)
    (hc₂ : ∀ p, fs₂.canon (fs₂.canon p) = fs₂.canon p) (r₁ r₂ : Path) (n₁ n₂ : Nat) (xs₁ xs₂ : Tagged)
    (h₁ : expand fs₁ n₁ r₁ = some xs₁) (h₂ : expand fs₂ n₂ r₂ = some xs₂) (heq : untag xs₁ = untag xs₂)
    (m₁ m₂ : Nat) (hm₁ : n₁ ≤ m₁) (hm₂ : n₂ ≤ m₂) :
    (load fs₁ m₁ r₁).status = .ok () ∧ (load fs₂ m₂ r₂).status = .ok () ∧
    untag (load fs₁ m₁ r₁).delivered = untag (load fs₂ m₂ r₂).delivered ∧
    process (untag (load fs₁ m₁ r₁).delivered) = process (untag (load fs₂ m₂ r₂).delivered) := by
  have e₁ := loadFile_complete fs₁ hc₁ n₁ r₁ xs₁ [] m₁ h₁ (by simp) hm₁
  have e₂ := loadFile_complete fs₂ hc₂ n₂ r₂ xs₂ [] m₂ h₂ (by simp) hm₂
  unfold load
  rw [e₁, e₂]
  simp [heq]

/-- a ledger kept in one file without includes expands to itself. -/
theorem expand_single (fs : FSI) (p : Path) (es : List Entry) (hr : fs.read (fs.canon p) = .ok ⟨es, false⟩)
    (hplain : ∀ e ∈ es, isInclude e = false) (n : Nat) :
    expand fs (n + 1) p = some (es.map fun e => (fs.canon p, e)) := by
  simp [expand, hr, expandEntries_plain fs _ _ es hplain]

/-! ## C11_empty -/

/-- **C11_empty.**  An include whose pattern matches nothing stops the load with `IO(NotFound)`; nothing after it
is delivered, and the expansion is undefined. -/
theorem C11_empty (fs : FSI) (rec : Path → LoadRes) (cp dir : Path) (g : String) (pre post : List Entry)
    (hdir : parent cp = some dir) (hglob : fs.glob (joinStr dir g) = .ok [])
    (hpre : ∀ e ∈ pre, isInclude e = false) :
    loadEntriesWith fs rec cp (pre ++ .include g :: post) =
      ⟨pre.map fun e => (cp, e), .err (.io .notFound (parsePath (joinStr dir g)))⟩ := by
  induction pre with
  | nil => simp [loadEntriesWith, loadInclude, hdir, hglob, LoadRes.fail, LoadRes.andThen]
  | cons e pre ih =>
    have ih' := ih (fun e' he' => hpre e' (List.mem_cons_of_mem _ he'))
    cases e with
    | «include» g' => have := hpre (.include g') (by simp); simp [isInclude] at this
    | _ => simp [loadEntriesWith, ih']

theorem C11_empty_load (fs : FSI) (n : Nat) (stack : List Path) (p dir : Path) (g : String) (pre post : List Entry)
    (perr : Bool) (hs : fs.canon p ∉ stack) (hr : fs.read (fs.canon p) = .ok ⟨pre ++ .include g :: post, perr⟩)
    (hdir : parent (fs.canon p) = some dir) (hglob : fs.glob (joinStr dir g) = .ok [])
    (hpre : ∀ e ∈ pre, isInclude e = false) :
    (loadFile fs (n + 1) stack p).status = .err (.io .notFound (parsePath (joinStr dir g))) ∧
    (loadFile fs (n + 1) stack p).delivered = pre.map fun e => (fs.canon p, e) := by
  rw [loadFile]
  simp only [hs, if_false, hr, C11_empty fs _ _ dir g pre post hdir hglob hpre]
  simp [LoadRes.andThen]

/-! ## C11_order -/

theorem compLt_irrefl (a : Comp) : compLt a a = false := by
  cases a <;> simp [compLt, String.lt_irrefl]

theorem compLt_trans {a b c : Comp} (h1 : compLt a b = true) (h2 : compLt b c = true) : compLt a c = true := by
  cases a <;> cases b <;> cases c <;> simp_all [compLt, Comp.rank]
  exact String.lt_trans h1 h2

theorem compLt_asymm {a b : Comp} (h1 : compLt a b = true) : compLt b a = false := by
  cases h : compLt b a with
  | false => rfl
  | true => have := compLt_trans h1 h; rw [compLt_irrefl] at this; cases this

/-- two components neither of which is below the other are equal (`Ord for Component` is a total order). -/
theorem compLt_total {a b : Comp} (h1 : compLt a b = false) (h2 : compLt b a = false) : a = b := by
  cases a <;> cases b <;> simp_all [compLt, Comp.rank]
  rename_i s t
  exact String.le_antisymm (String.not_lt.1 h2) (String.not_lt.1 h1)

theorem compLt_trans_eq {a b c : Comp} (h1 : compLt a b = false) (h2 : compLt b a = false) :
    compLt a c = compLt b c ∧ compLt c a = compLt c b := by
  rw [compLt_total h1 h2]; exact ⟨rfl, rfl⟩

theorem pathLe_total : ∀ p q : Path, (pathLe p q || pathLe q p) = true := by
  intro p
  induction p with
  | nil => intro q; simp [pathLe]
  | cons a as ih =>
    intro q
    cases q with
    | nil => simp [pathLe]
    | cons b bs =>
      simp only [pathLe]
      by_cases h1 : compLt a b = true
      · simp [h1]
      · by_cases h2 : compLt b a = true
        · simp [h2]
        · simp only [h1, h2]; exact ih bs

theorem pathLe_trans : ∀ p q r : Path, pathLe p q = true → pathLe q r = true → pathLe p r = true := by
  intro p
  induction p with
  | nil => intros; simp [pathLe]
  | cons a as ih =>
    intro q r h1 h2
    cases q with
    | nil => simp [pathLe] at h1
    | cons b bs =>
      cases r with
      | nil => simp [pathLe] at h2
      | cons c cs =>
        simp only [pathLe] at h1 h2 ⊢
        by_cases hab : compLt a b = true
        · by_cases hbc : compLt b c = true
          · simp [compLt_trans hab hbc]
          · simp only [hbc] at h2
            by_cases hcb : compLt c b = true
            · simp [hcb] at h2
            · have hbceq := compLt_total (by simpa using hbc) (by simpa using hcb)
              subst hbceq
              simp [hab]
        · simp only [hab] at h1
          by_cases hba : compLt b a = true
          · simp [hba] at h1
          · have habeq := compLt_total (by simpa using hab) (by simpa using hba)
            subst habeq
            simp only [hba] at h1
            by_cases hbc : compLt a c = true
            · simp [hbc]
            · simp only [hbc] at h2 ⊢
              by_cases hcb : compLt c a = true
              · simp [hcb] at h2
              · simp only [hcb] at h2 ⊢
                exact ih bs cs h1 h2

theorem insertPath_perm (p : Path) : ∀ qs, (insertPath p qs).Perm (p :: qs) := by
  intro qs
  induction qs with
  | nil => simp [insertPath]
  | cons q qs ih =>
    simp only [insertPath]
    split
    · exact List.Perm.refl _
    · exact (List.Perm.cons q ih).trans (List.Perm.swap p q qs)

theorem sortPaths_perm : ∀ ps, (sortPaths ps).Perm ps := by
  intro ps
  induction ps with
  | nil => exact List.Perm.refl _
  | cons p ps ih => exact (insertPath_perm p _).trans (List.Perm.cons p ih)

theorem insertPath_sorted (p : Path) : ∀ qs, qs.Pairwise (fun a b => pathLe a b = true) →
    (insertPath p qs).Pairwise (fun a b => pathLe a b = true) := by
  intro qs
  induction qs with
  | nil => intro _; simp [insertPath]
  | cons q qs ih =>
    intro h
    have hq := List.pairwise_cons.1 h
    simp only [insertPath]
    split
    next hpq =>
      refine List.pairwise_cons.2 ⟨?_, h⟩
      intro x hx
      rcases List.mem_cons.1 hx with rfl | hx
      · exact hpq
      · exact pathLe_trans _ _ _ hpq (hq.1 x hx)
    next hpq =>
      have hqp : pathLe q p = true := by
        have := pathLe_total p q
        simp only [Bool.or_eq_true] at this
        rcases this with h | h
        · exact absurd h hpq
        · exact h
      refine List.pairwise_cons.2 ⟨?_, ih hq.2⟩
      intro x hx
      rcases List.mem_cons.1 ((insertPath_perm p qs).subset hx) with rfl | hx
      · exact hqp
      · exact hq.1 x hx

/-- **C11_order (1).**  The matches of an include are visited in ascending component-wise path order (`Ord for PathBuf`),
each exactly once, whatever order the file system enumerates them in. -/
theorem C11_order_sorted (ps : List Path) :
    (sortPaths ps).Pairwise (fun a b => pathLe a b = true) ∧ (sortPaths ps).Perm ps := by
  refine ⟨?_, sortPaths_perm ps⟩
  induction ps with
  | nil => simp [sortPaths]
  | cons p ps ih => exact insertPath_sorted p _ ih

/-- **C11_order (2).**  The callbacks of one include are the callbacks of its matches, concatenated in that order,
placed where the include line stood (between the entries before and after it). -/
theorem C11_order_in_place (fs : FSI) (rec : Path → LoadRes) (cp dir : Path) (g : String) (pre post : List Entry)
    (paths : List Path) (hdir : parent cp = some dir) (hglob : fs.glob (joinStr dir g) = .ok paths) (hne : paths ≠ [])
    (hpre : ∀ e ∈ pre, isInclude e = false) (hpost : ∀ e ∈ post, isInclude e = false)
    (hall : ∀ q ∈ paths, (rec q).status = .ok ()) :
    loadEntriesWith fs rec cp (pre ++ .include g :: post) =
      ⟨pre.map (fun e => (cp, e)) ++ (sortPaths paths).flatMap (fun q => (rec q).delivered) ++ post.map (fun e => (cp, e)),
       .ok ()⟩ := by
  have hlist : ∀ qs, (∀ q ∈ qs, (rec q).status = .ok ()) →
      loadListWith rec qs = ⟨qs.flatMap (fun q => (rec q).delivered), .ok ()⟩ := by
    intro qs
    induction qs with
    | nil => intro _; rfl
    | cons q qs ih =>
      intro h
      have h1 := h q (by simp)
      have ih' := ih (fun q' hq' => h q' (List.mem_cons_of_mem _ hq'))
      simp only [loadListWith]
      apply LoadRes.ext'
      · rw [(andThen_delivered_of_ok _ _ h1).1, ih']; simp
      · rw [(andThen_delivered_of_ok _ _ h1).2, ih']
  have hplain : ∀ es : List Entry, (∀ e ∈ es, isInclude e = false) →
      loadEntriesWith fs rec cp es = ⟨es.map (fun e => (cp, e)), .ok ()⟩ := by
    intro es
    induction es with
    | nil => intro _; rfl
    | cons e es ih =>
      intro h
      have ih' := ih (fun e' he' => h e' (List.mem_cons_of_mem _ he'))
      cases e with
      | «include» g' => have := h (.include g') (by simp); simp [isInclude] at this
      | _ => simp [loadEntriesWith, ih']
  have hsorted : ∀ q ∈ sortPaths paths, (rec q).status = .ok () :=
    fun q hq => hall q ((sortPaths_perm paths).subset hq)
  have hempty : paths.isEmpty = false := by cases paths <;> simp_all
  induction pre with
  | nil =>
    simp [loadEntriesWith, loadInclude, hdir, hglob, hempty, hlist _ hsorted, hplain post hpost, LoadRes.andThen]
  | cons e pre ih =>
    have ih' := ih (fun e' he' => hpre e' (List.mem_cons_of_mem _ he'))
    cases e with
    | «include» g' => have := hpre (.include g') (by simp); simp [isInclude] at this
    | _ => simp [loadEntriesWith, ih']

/-- **C11_order (3'), in-memory file system (after fix F26).**  No path returned by `FakeFileSystem::glob` has a component that
starts with `.` at a position where the (canonicalized) pattern's component starts with a wildcard. -/
theorem C11_dotfile_fake (o : GlobOpts) (t : Tree) (pat : String) (ps : List Path) (ts : List Tok)
    (hfrag : tokenize (pathStr (canonFake (parsePath pat))).toList = .ok ts) (h : fakeGlob o t pat = .ok ps) :
    ∀ p ∈ ps, wildcardMatchedDotFile (parsePath (pathStr (canonFake (parsePath pat)))) p = false := by
  intro p hp
  simp only [fakeGlob, hfrag] at h
  cases h
  simp only [List.mem_map, List.mem_filter] at hp
  obtain ⟨kv, ⟨_, hk⟩, rfl⟩ := hp
  simp only [Bool.and_eq_true, Bool.not_eq_true'] at hk
  exact hk.2

/-- a pattern (component) that can match a leading dot: after any number of `*`, its next token is a literal dot. -/
def dotOpen (o : GlobOpts) : List Tok → Bool
  | .star :: ts => dotOpen o ts
  | .recStar :: ts => dotOpen o ts
  | .lit c :: _ => charsEq o '.' c
  | _ => false

/-- **C11_order (3): dot-files.**  With `require_literal_leading_dot`, a name that starts with `.` is matched only by a
pattern that spells that dot literally: `?` never matches it, `*` can only match the empty string in front of it. -/
theorem C11_dotfile (o : GlobOpts) (hdot : o.literalLeadingDot = true) :
    ∀ (ts : List Tok) (rest : List Char), dotOpen o ts = false → matchToks o ts ('.' :: rest) true = false := by
  intro ts
  induction ts with
  | nil => intros; simp [matchToks]
  | cons t ts ih =>
    intro rest h
    cases t with
    | lit c => simp only [dotOpen] at h; simp [matchToks, h]
    | any => simp [matchToks, hdot]
    | within neg cs => simp [matchToks, hdot]
    | star =>
      simp only [dotOpen] at h
      simp [matchToks, starLoop, hdot, ih rest h]
    | recStar =>
      simp only [dotOpen] at h
      simp [matchToks, recLoop, hdot, ih rest h]

/-- the same after a separator inside a path pattern. -/
theorem C11_dotfile_in_path (o : GlobOpts) (hdot : o.literalLeadingDot = true) (ts : List Tok) (rest : List Char)
    (sep : Bool) (h : dotOpen o ts = false) : matchToks o (.lit '/' :: ts) ('/' :: '.' :: rest) sep = false := by
  simp [matchToks, C11_dotfile o hdot ts rest h]

/-- with `require_literal_separator`, `*`, `?` and character classes (also negated ones, also `[/]`) never match a `/`: wildcards
stay inside one path component. -/
theorem C11_wildcard_no_separator (o : GlobOpts) (hsep : o.literalSeparator = true) (ts : List Tok) (rest : List Char)
    (sep : Bool) :
    matchToks o (.any :: ts) ('/' :: rest) sep = false ∧
    matchToks o (.star :: ts) ('/' :: rest) sep = matchToks o ts ('/' :: rest) sep ∧
    ∀ neg cs, matchToks o (.within neg cs :: ts) ('/' :: rest) sep = false := by
  simp [matchToks, starLoop, hsep]

/-- a character class matches exactly one character, the one its specifiers describe (`[!..]`: do not describe), and never a
leading dot or a separator -/
theorem C11_class_matches (o : GlobOpts) (neg : Bool) (cs : List CharSpec) (ts : List Tok) (x : Char) (xs : List Char) (sep : Bool) :
    matchToks o (.within neg cs :: ts) (x :: xs) sep =
      (!((o.literalSeparator && x == '/') || (sep && o.literalLeadingDot && x == '.')) && (inSpecs o x cs != neg) &&
        matchToks o ts xs (x == '/')) ∧
    matchToks o (.within neg cs :: ts) [] sep = false := by
  simp [matchToks]

/-- `Pattern::new` on classes: `[a-c]` is one range, `[a-]` two single characters, `[]]` the class of `]`, `[!]]` its complement;
`[`, `[]`, `[!]`, `[a` are invalid patterns -/
example : tokenize "p[a-c].x".toList = .ok [.lit 'p', .within false [.range 'a' 'c'], .lit '.', .lit 'x'] ∧
    tokenize "[a-]".toList = .ok [.within false [.single 'a', .single '-']] ∧
    tokenize "[]]".toList = .ok [.within false [.single ']']] ∧
    tokenize "[!]]".toList = .ok [.within true [.single ']']] ∧
    tokenize "[a-c-e]".toList = .ok [.within false [.range 'a' 'c', .single '-', .single 'e']] ∧
    tokenize "[".toList = .invalid ∧ tokenize "[]".toList = .invalid ∧ tokenize "[!]".toList = .invalid ∧
    tokenize "x[a".toList = .invalid := by
  decide

/-- `**` is a token only as a whole path component; the slash behind it belongs to it; `a**`, `**b`, `***` are refused -/
example : tokenize "a/**/b".toList = .ok [.lit 'a', .lit '/', .recStar, .lit 'b'] ∧
    tokenize "**/x".toList = .ok [.recStar, .lit 'x'] ∧ tokenize "a/**".toList = .ok [.lit 'a', .lit '/', .recStar] ∧
    tokenize "a**/b".toList = .invalid ∧ tokenize "a/**b".toList = .invalid ∧ tokenize "***".toList = .invalid := by
  decide

/-- `**` spans directories but never enters one whose name begins with a dot, and what follows it starts a component -/
example : let o : GlobOpts := {}
    globMatches o [.lit 'r', .lit '/', .recStar, .star, .lit '.', .lit 'l'] "r/a.l" = true ∧
    globMatches o [.lit 'r', .lit '/', .recStar, .star, .lit '.', .lit 'l'] "r/m/n/c.l" = true ∧
    globMatches o [.lit 'r', .lit '/', .recStar, .star, .lit '.', .lit 'l'] "r/.git/c.l" = false ∧
    globMatches o [.lit 'r', .lit '/', .recStar, .lit 'c'] "r/m/xc" = false := by
  decide

/-! ## termination: every load ends in `ok` or `err` (cycles in `err RecursiveInclude`) — reused by C06 -/

theorem loadEntries_status (fs : FSI) (rec : Path → LoadRes) (cp : Path) (P : Outcome LoadErr Unit → Prop)
    (hok : P (.ok ())) (herr : ∀ e, P (.err e)) (hglob : ∀ s, P ((fs.glob s).map' fun _ => ()))
    (h : ∀ q, P (rec q).status) : ∀ es, P (loadEntriesWith fs rec cp es).status := by
  have hincl : ∀ g, P (loadInclude fs rec cp g).status := by
    intro g
    unfold loadInclude
    cases hp : parent cp with
    | none => exact herr _
    | some dir =>
      simp only
      have hg' := hglob (joinStr dir g)
      cases hg : fs.glob (joinStr dir g) with
      | ok paths =>
        simp only
        by_cases he : paths.isEmpty = true
        · simp only [he, if_true]; exact herr _
        · simp only [he]; exact loadList_status rec P hok h _
      | err e => exact herr _
      | panic s => simpa [hg, Outcome.map'] using hg'
      | fuelOut => simpa [hg, Outcome.map'] using hg'
  intro es
  induction es with
  | nil => simpa [loadEntriesWith, LoadRes.done] using hok
  | cons e es ih =>
    cases e with
    | «include» g =>
      simp only [loadEntriesWith]
      by_cases h1 : (loadInclude fs rec cp g).status = .ok ()
      · rw [(andThen_delivered_of_ok _ _ h1).2]; exact ih
      · rw [andThen_of_not_ok _ _ h1]; exact hincl g
    | _ => simpa [loadEntriesWith] using ih

/-- **C11_terminates.**  Let `readable` list every path the file system can read.  With fuel above its length, a load never
runs out of fuel and never panics (provided `read`/`glob` themselves do not): it ends in `ok` or in a `LoadError`.
The include stack holds distinct readable files, so the recursion depth is at most `readable.length`. -/
theorem C11_terminates_canon (fs : FSI) (readable : List Path)
    (hread : ∀ q c, fs.read (fs.canon q) = .ok c → fs.canon q ∈ readable)
    (hreadc : ∀ q, (fs.read q).crashes = false) (hglobc : ∀ s, (fs.glob s).crashes = false) :
    ∀ n stack p, stack.Nodup → (∀ q ∈ stack, q ∈ readable) → readable.length < n + stack.length →
      (loadFile fs n stack p).status.crashes = false := by
  intro n
  induction n with
  | zero =>
    intro stack p hnd hsub hlen
    have := length_le_of_nodup_subset stack readable hnd hsub
    omega
  | succ n ih =>
    intro stack p hnd hsub hlen
    rw [loadFile]
    by_cases hs : fs.canon p ∈ stack
    · simp [hs, LoadRes.fail, Outcome.crashes]
    · simp only [hs, if_false]
      have hrc := hreadc (fs.canon p)
      cases hr : fs.read (fs.canon p) with
      | ok content =>
        simp only
        have hrec : ∀ q, (loadFile fs n (fs.canon p :: stack) q).status.crashes = false := by
          intro q
          refine ih _ q (List.nodup_cons.2 ⟨hs, hnd⟩) ?_ (by simp only [List.length_cons]; omega)
          intro q' hq'
          rcases List.mem_cons.1 hq' with rfl | hq'
          · exact hread _ _ hr
          · exact hsub q' hq'
        have hloop := loadEntries_status fs _ (fs.canon p) (fun st => st.crashes = false) rfl (fun _ => rfl)
          (fun s => by have := hglobc s; cases hg : fs.glob s <;> simp_all [Outcome.map', Outcome.crashes])
          hrec content.entries
        by_cases h1 : (loadEntriesWith fs (fun q => loadFile fs n (fs.canon p :: stack) q) (fs.canon p) content.entries).status = .ok ()
        · rw [(andThen_delivered_of_ok _ _ h1).2]
          by_cases hp : content.parseErr = true <;> simp [hp, LoadRes.fail, LoadRes.done, Outcome.crashes]
        · rw [andThen_of_not_ok _ _ h1]; exact hloop
      | err e => simp [LoadRes.fail, Outcome.crashes]
      | panic s => simp [hr, Outcome.crashes] at hrc
      | fuelOut => simp [hr, Outcome.crashes] at hrc

theorem C11_terminates (fs : FSI) (readable : List Path)
    (hread : ∀ q c, fs.read q = .ok c → q ∈ readable)
    (hreadc : ∀ q, (fs.read q).crashes = false) (hglobc : ∀ s, (fs.glob s).crashes = false) :
    ∀ n stack p, stack.Nodup → (∀ q ∈ stack, q ∈ readable) → readable.length < n + stack.length →
      (loadFile fs n stack p).status.crashes = false :=
  C11_terminates_canon fs readable (fun _ c h => hread _ c h) hreadc hglobc

theorem C11_terminates_load (fs : FSI) (readable : List Path)
    (hread : ∀ q c, fs.read q = .ok c → q ∈ readable)
    (hreadc : ∀ q, (fs.read q).crashes = false) (hglobc : ∀ s, (fs.glob s).crashes = false)
    (fuel : Nat) (hfuel : readable.length < fuel) (root : Path) : (load fs fuel root).status.crashes = false :=
  C11_terminates fs readable hread hreadc hglobc fuel [] root List.nodup_nil (by simp) (by simpa using hfuel)

/-- **C11_cycle.**  A file that (transitively) includes a file already being loaded ends the load with
`RecursiveInclude`, delivering nothing more. -/
theorem C11_cycle (fs : FSI) (n : Nat) (stack : List Path) (p : Path) (h : fs.canon p ∈ stack) :
    loadFile fs (n + 1) stack p = ⟨[], .err (.recursiveInclude (fs.canon p))⟩ := by
  simp [loadFile, h, LoadRes.fail]

/-- a file that includes itself, whatever else it holds, cannot be expanded and fails to load with any fuel ≥ 2. -/
theorem C11_self_include (fs : FSI) (hc : ∀ p, fs.canon (fs.canon p) = fs.canon p) (p dir : Path) (g : String)
    (pre post : List Entry) (perr : Bool) (hpre : ∀ e ∈ pre, isInclude e = false)
    (hr : fs.read (fs.canon p) = .ok ⟨pre ++ .include g :: post, perr⟩) (hdir : parent (fs.canon p) = some dir)
    (hglob : fs.glob (joinStr dir g) = .ok [fs.canon p]) (n : Nat) :
    (loadFile fs (n + 2) [] p).status = .err (.recursiveInclude (fs.canon p)) := by
  have hplain : ∀ (rec : Path → LoadRes) (es : List Entry), (∀ e ∈ es, isInclude e = false) →
      loadEntriesWith fs rec (fs.canon p) es = ⟨es.map (fun e => (fs.canon p, e)), .ok ()⟩ := by
    intro rec es
    induction es with
    | nil => intro _; rfl
    | cons e es ih =>
      intro h
      have ih' := ih (fun e' he' => h e' (List.mem_cons_of_mem _ he'))
      cases e with
      | «include» g' => have := h (.include g') (by simp); simp [isInclude] at this
      | _ => simp [loadEntriesWith, ih']
  have happ : ∀ (rec : Path → LoadRes) (as bs : List Entry), (∀ e ∈ as, isInclude e = false) →
      (loadEntriesWith fs rec (fs.canon p) (as ++ bs)).status = (loadEntriesWith fs rec (fs.canon p) bs).status := by
    intro rec as bs
    induction as with
    | nil => intro _; rfl
    | cons e as ih =>
      intro h
      have ih' := ih (fun e' he' => h e' (List.mem_cons_of_mem _ he'))
      cases e with
      | «include» g' => have := h (.include g') (by simp); simp [isInclude] at this
      | _ => simp [loadEntriesWith, ih']
  rw [loadFile]
  simp only [List.not_mem_nil, if_false, hr]
  have hinner : (loadEntriesWith fs (fun q => loadFile fs (n + 1) [fs.canon p] q) (fs.canon p)
      (pre ++ .include g :: post)).status = .err (.recursiveInclude (fs.canon p)) := by
    rw [happ _ pre _ hpre]
    simp [loadEntriesWith, loadInclude, hdir, hglob, sortPaths, insertPath, loadListWith, loadFile, hc, LoadRes.fail,
      LoadRes.andThen]
  rw [andThen_of_not_ok _ _ (by rw [hinner]; simp)]
  exact hinner

/-! ## `FakeFileSystem::canonicalize_path` is idempotent (the law the completeness theorems ask for) -/

def isNormal : Comp → Bool
  | .normal _ => true
  | _ => false

/-- canonical shape: normal components, optionally preceded by the root. -/
def Canonical (p : Path) : Prop := ∃ ns : List Comp, (∀ c ∈ ns, isNormal c = true) ∧ (p = ns ∨ p = .root :: ns)

theorem canonStep_canonical (ret : Path) (c : Comp) (h : Canonical ret) : Canonical (canonStep ret c) := by
  obtain ⟨ns, hns, hp⟩ := h
  cases c with
  | cur => exact ⟨ns, hns, hp⟩
  | root => exact ⟨[], by simp, Or.inr rfl⟩
  | normal s =>
    refine ⟨ns ++ [.normal s], ?_, ?_⟩
    · intro c hc
      rcases List.mem_append.1 hc with h | h
      · exact hns c h
      · simp at h; subst h; rfl
    · rcases hp with rfl | rfl <;> simp [canonStep, push]
  | parent =>
    simp only [canonStep, pop, parent]
    rcases hp with hp | hp
    · subst hp
      cases hl : List.getLast? ret with
      | none => simp; exact ⟨ret, hns, Or.inl rfl⟩
      | some c =>
        have hc : c ∈ ret := List.mem_of_getLast? hl
        have hcn := hns c hc
        cases c <;> simp [isNormal] at hcn
        simp
        exact ⟨ret.dropLast, fun c hc => hns c (List.dropLast_subset _ hc), Or.inl rfl⟩
    · subst hp
      cases ns with
      | nil => simp; exact ⟨[], by simp, Or.inr rfl⟩
      | cons a as =>
        have : (Comp.root :: a :: as).getLast? = (a :: as).getLast? := by simp [List.getLast?_cons_cons]
        rw [this]
        cases hl : (a :: as).getLast? with
        | none => simp at hl
        | some c =>
          have hc : c ∈ (a :: as) := List.mem_of_getLast? hl
          have hcn := hns c hc
          cases c <;> simp [isNormal] at hcn
          simp
          refine ⟨(a :: as).dropLast, fun c hc => hns c (List.dropLast_subset _ hc), Or.inr ?_⟩
          exact List.dropLast_cons_of_ne_nil (l := a :: as) (by simp)

theorem foldl_canonical (p : Path) : ∀ ret, Canonical ret → Canonical (p.foldl canonStep ret) := by
  induction p with
  | nil => intro ret h; exact h
  | cons c p ih => intro ret h; exact ih _ (canonStep_canonical ret c h)

theorem canonFake_canonical (p : Path) : Canonical (canonFake p) :=
  foldl_canonical p [] ⟨[], by simp, Or.inl rfl⟩

theorem foldl_normals (ns : List Comp) (hns : ∀ c ∈ ns, isNormal c = true) :
    ∀ ret, ns.foldl canonStep ret = ret ++ ns := by
  induction ns with
  | nil => intro ret; simp
  | cons c ns ih =>
    intro ret
    have hc := hns c (by simp)
    cases c <;> simp [isNormal] at hc
    simp [List.foldl_cons, canonStep, push, ih (fun c hc => hns c (List.mem_cons_of_mem _ hc))]

theorem canonFake_of_canonical (p : Path) (h : Canonical p) : canonFake p = p := by
  obtain ⟨ns, hns, hp | hp⟩ := h
  · subst hp; simp [canonFake, foldl_normals p hns]
  · subst hp; simp [canonFake, List.foldl_cons, canonStep, push, foldl_normals ns hns]

/-- `FakeFileSystem::canonicalize_path` is idempotent; its results contain no `.`/`..` components. -/
theorem canonFake_idem (p : Path) : canonFake (canonFake p) = canonFake p :=
  canonFake_of_canonical _ (canonFake_canonical p)

/-- **C11 on the in-memory file system**: load = expand, for every tree, glob options and fuel. -/
theorem C11_fake_load_eq_expand (o : GlobOpts) (t : Tree) (fuel : Nat) (root : Path) (xs : Tagged) :
    load (fakeFS o t) fuel root = ⟨xs, .ok ()⟩ ↔ expand (fakeFS o t) fuel root = some xs :=
  C11_load_eq_expand (fakeFS o t) (fun p => canonFake_idem p) fuel root xs

theorem readRaw_crashes (r : Option Raw) : (readRaw r).crashes = false := by
  cases r with
  | none => rfl
  | some r => cases r <;> rfl

/-- **C11 termination on the in-memory file system**: with more fuel than there are files, a load of any tree —
cyclic or not — ends in `ok` or `err`. -/
theorem C11_fake_terminates (o : GlobOpts) (t : Tree) (fuel : Nat) (hfuel : t.files.length < fuel) (root : Path) :
    (load (fakeFS o t) fuel root).status.crashes = false := by
  refine C11_terminates_load (fakeFS o t) (t.files.map fun kv => parsePath kv.1) ?_ ?_ ?_ fuel (by simpa using hfuel) root
  · intro q c h
    simp only [fakeFS, Tree.lookup] at h
    cases hf : t.files.find? (fun kv => parsePath kv.1 = q) with
    | none => simp [hf, readRaw] at h
    | some kv =>
      have hm := List.mem_of_find?_eq_some hf
      have hq := List.find?_some hf
      simp at hq
      exact List.mem_map.2 ⟨kv, hm, hq⟩
  · intro q; exact readRaw_crashes _
  · intro s
    simp only [fakeFS, fakeGlob]
    split
    · rfl
    · rfl
    · simp only [Tree.extGlob]; split <;> rfl

/-! ## the real file system (`ProdFileSystem` on a directory tree without symbolic links) -/

/-- **C11 on the real file system**: load = expand, for every tree, glob options and fuel. -/
theorem C11_prod_load_eq_expand (o : GlobOpts) (t : Tree) (fuel : Nat) (root : Path) (xs : Tagged) :
    load (prodFS o t) fuel root = ⟨xs, .ok ()⟩ ↔ expand (prodFS o t) fuel root = some xs :=
  C11_load_eq_expand (prodFS o t) (fun p => prodCanon_idem t p) fuel root xs

/-- **C11_split across the two file systems**: a ledger in one file on the in-memory file system and the same ledger cut
into a tree on disk (or vice versa, or both on the same kind) deliver the same entries and give the same `process`. -/
theorem C11_split_fake_prod (o o' : GlobOpts) (t t' : Tree) (r r' : Path) (n n' : Nat) (xs xs' : Tagged)
    (h : expand (fakeFS o t) n r = some xs) (h' : expand (prodFS o' t') n' r' = some xs') (heq : untag xs = untag xs')
    (m m' : Nat) (hm : n ≤ m) (hm' : n' ≤ m') :
    (load (fakeFS o t) m r).status = .ok () ∧ (load (prodFS o' t') m' r').status = .ok () ∧
    untag (load (fakeFS o t) m r).delivered = untag (load (prodFS o' t') m' r').delivered ∧
    process (untag (load (fakeFS o t) m r).delivered) = process (untag (load (prodFS o' t') m' r').delivered) :=
  C11_split (fakeFS o t) (prodFS o' t') (fun p => canonFake_idem p) (fun p => prodCanon_idem t' p) r r' n n' xs xs'
    h h' heq m m' hm hm'

theorem extGlob_crashes (t : Tree) (pat : String) : (t.extGlob pat).crashes = false := by
  simp only [Tree.extGlob]
  split <;> rfl

/-- **C11 termination on the real file system** (no symbolic links): with more fuel than files, every load ends in
`ok` or `err`. -/
theorem C11_prod_terminates (o : GlobOpts) (t : Tree) (fuel : Nat) (hfuel : t.files.length < fuel) (root : Path) :
    (load (prodFS o t) fuel root).status.crashes = false := by
  refine C11_terminates_canon (prodFS o t) (t.files.map fun kv => parsePath kv.1) ?_ ?_ ?_ fuel [] root
    List.nodup_nil (by simp) (by simpa using hfuel)
  · intro q c h
    simp only [prodFS] at h ⊢
    unfold prodRead at h
    cases hr : resolveReal t (prodCanon t q) with
    | none => simp [hr] at h
    | some q' =>
      simp only [hr] at h
      -- the canonical path resolves to itself
      have hq' : q' = prodCanon t q := by
        unfold prodCanon at hr ⊢
        cases h0 : resolveReal t q with
        | none => simp [h0] at hr ⊢
        | some q0 =>
          simp only [h0, Option.getD_some] at hr ⊢
          rw [resolveReal_fixed t q q0 h0] at hr
          cases hr; rfl
      by_cases hf : t.isFile q' = true
      · simp only [Tree.isFile, List.any_eq_true, decide_eq_true_eq] at hf
        obtain ⟨kv, hm, hk⟩ := hf
        exact List.mem_map.2 ⟨kv, hm, hk.trans hq'⟩
      · simp [hf] at h
  · intro q
    simp only [prodFS, prodRead]
    split
    · rfl
    · split
      · exact readRaw_crashes _
      · rfl
  · intro s
    simp only [prodFS, prodGlob]
    split
    · rfl
    · exact extGlob_crashes t s
    · split
      · exact extGlob_crashes t s
      · split
        · split <;> rfl
        · exact extGlob_crashes t s

/-! ## non-vacuity: the hypotheses are met by concrete trees, and the negative cases really fail -/

section examples
private def pMain : Path := [.root, .normal "r", .normal "main.ledger"]
private def pA : Path := [.root, .normal "r", .normal "sub", .normal "a.ledger"]
private def pB : Path := [.root, .normal "r", .normal "sub", .normal "b.ledger"]
private def pX : Path := [.root, .normal "r", .normal "x.ledger"]

/-- `/r/main.ledger` = `; m1`, `include sub/*.ledger`, `; m2`; `/r/sub/a.ledger` = `; a`;
`/r/sub/b.ledger` = `; b`, `include ../x.ledger`; `/r/x.ledger` = `; x`.  The glob answers in reverse order. -/
private def exFS : FSI where
  canon := canonFake
  read p :=
    if p = pMain then .ok ⟨[.comment "m1", .include "sub/*.ledger", .comment "m2"], false⟩
    else if p = pA then .ok ⟨[.comment "a"], false⟩
    else if p = pB then .ok ⟨[.comment "b", .include "../x.ledger"], false⟩
    else if p = pX then .ok ⟨[.comment "x"], false⟩
    else .err .notFound
  glob s := if s = "/r/sub/*.ledger" then .ok [pB, pA] else if s = "/r/sub/../x.ledger" then .ok [pX ++ []] else .ok []

/-- the same with `x.ledger` including `main.ledger` again (a cycle through three files). -/
private def exCyc : FSI where
  canon := canonFake
  read p :=
    if p = pMain then .ok ⟨[.comment "m1", .include "sub/*.ledger", .comment "m2"], false⟩
    else if p = pA then .ok ⟨[.comment "a"], false⟩
    else if p = pB then .ok ⟨[.comment "b", .include "../x.ledger"], false⟩
    else if p = pX then .ok ⟨[.include "main.ledger"], false⟩
    else .err .notFound
  glob s := if s = "/r/sub/*.ledger" then .ok [pB, pA] else if s = "/r/sub/../x.ledger" then .ok [pX]
    else if s = "/r/main.ledger" then .ok [pMain] else .ok []

-- C11_expand / C11_split / C11_order: the load succeeds, entries come in place and in sorted order, tagged by file
example : (load exFS 3 pMain).status = .ok () ∧
    (load exFS 3 pMain).delivered.map (·.1) = [pMain, pA, pB, pX, pMain] ∧
    ((load exFS 3 pMain).delivered.map fun x => isInclude x.2) = [false, false, false, false, false] ∧
    (expand exFS 3 pMain).isSome = true ∧ (expand exFS 2 pMain).isSome = false := by decide +kernel
-- C11_terminates / C11_cycle: the cyclic tree ends in RecursiveInclude with fuel 4 (= number of files), not in fuelOut
example : (load exCyc 4 pMain).status = .err (.recursiveInclude pMain) ∧ (load exCyc 400 pMain).status.crashes = false ∧
    (load exCyc 3 pMain).status = .fuelOut ∧ (expand exCyc 50 pMain).isSome = false := by decide +kernel
-- C11_empty: an include that matches nothing
example : (loadEntriesWith exFS (fun _ => LoadRes.done) pMain [.comment "k", .include "nothing*", .comment "l"]).status =
    .err (.io .notFound (parsePath (joinStr [.root, .normal "r"] "nothing*"))) := by
  simpa using congrArg LoadRes.status (C11_empty exFS (fun _ => LoadRes.done) pMain [.root, .normal "r"] "nothing*" [.comment "k"] [.comment "l"]
    (by decide +kernel) (by decide +kernel) (by simp [isInclude]))
-- component-wise order differs from string order: `d/x` sorts before `d.e/x` although "d.e/x" < "d/x" as strings
example : sortPaths [[.normal "d.e", .normal "x"], [.normal "d", .normal "x"]] =
    [[.normal "d", .normal "x"], [.normal "d.e", .normal "x"]] ∧ "d.e/x" < "d/x" := by decide
-- dot-files: `*.ledger` and `?a.ledger` do not match `.a.ledger`; `.a*` does; `*.ledger` does match `.ledger` itself
example : matchToks {} [.star, .lit '.', .lit 'l'] ".a.l".toList true = false ∧
    matchToks {} [.any, .lit 'a', .lit '.', .lit 'l'] ".a.l".toList true = false ∧
    matchToks {} [.lit '.', .lit 'a', .star] ".a.l".toList true = true ∧
    matchToks {} [.star, .lit '.', .lit 'l'] "b.l".toList true = true ∧
    matchToks {} [.star, .lit '.', .lit 'l'] ".l".toList true = true ∧
    matchToks {} [.star, .lit '/', .star] "a/b".toList true = true ∧
    matchToks {} [.star] "a/b".toList true = false := by decide
-- canonicalize_path
example : canonFake [.root, .normal "r", .normal "sub", .parent, .cur, .normal "x"] = [.root, .normal "r", .normal "x"] ∧
    canonFake [.parent, .parent, .normal "a"] = [.normal "a"] ∧ canonFake [.root, .parent] = [.root] := by decide
end examples

/-! ## C11 at the level of file contents: cutting a ledger TEXT at entry boundaries

The theorems above speak about files that are already parsed.  Here the files are texts (`TextFS`, parsed by the parser model:
`parseFS`), and a piece of TEXT is cut out of a file and replaced by the paragraph `include g⏎⏎`.  The parser theorem
`Parse.parseEntries_append_at` (`Lemmas/C11TextAppend.lean`) turns cuts of the text at entry boundaries (`Parse.EntryBoundary`) into
cuts of the entry list, to which `C11_cut` / `C11_split` apply.  `Parse.entryBoundary_iff` (`Lemmas/C11TextExact.lean`): for a cut
after a line feed (in a text without carriage returns) `EntryBoundary` is not only sufficient but necessary. -/

section text
open Okane.Parse

/-- **C11_cut_text (one cut of the text).**  A file's text `pre ++ seg ++ post`, cut at entry boundaries; `seg` (free of includes)
is moved into other files and the paragraph `include g⏎⏎` is put in its place, where the sorted matches of `g` are files whose
expansions, concatenated in that order, read the entries of `seg`.  Both texts are ledgers, and the expansion of the file reads
the same entries as before.  (`rec` = the expansion of the other files, as in `C11_cut`: the pieces may have been cut
themselves, be included through `..`, or be matched by a glob.) -/
theorem C11_cut_text (fs : FSI) (rec : Path → Option Tagged) (cp dir : Path) (g : String) (pre seg post : List Char)
    (epre eseg epost : List Entry) (paths : List Path) (pieces : List Tagged)
    (hpre : parseEntries pre = .ok epre) (hseg : parseEntries seg = .ok eseg) (hpost : parseEntries post = .ok epost)
    (hb1 : EntryBoundary pre epre (seg ++ post)) (hb2 : EntryBoundary seg eseg post) (hl : EndsLine pre)
    (hg : wfIncludePath g)
    (hdir : parent cp = some dir) (hglob : fs.glob (joinStr dir g) = .ok paths) (hne : paths ≠ [])
    (hpieces : ExpandsTo rec (sortPaths paths) pieces) (hread : untag pieces.flatten = eseg)
    (hplain : ∀ e ∈ eseg, isInclude e = false) :
    parseEntries (pre ++ seg ++ post) = .ok (epre ++ eseg ++ epost) ∧
    parseEntries (pre ++ includeText g ++ post) = .ok (epre ++ .include g :: epost) ∧
    (expandEntriesWith fs rec cp (epre ++ .include g :: epost)).map untag =
      (expandEntriesWith fs rec cp (epre ++ eseg ++ epost)).map untag :=
  ⟨parseEntries_append3_at hpre hseg hpost hb1 hb2, parseEntries_cut g hg hpre hpost hl,
    C11_cut fs rec cp dir g epre eseg epost paths pieces hdir hglob hne hpieces hread hplain⟩

/-- the entries of a text without includes, as the expansion of its file -/
theorem expand_text_single (T : TextFS) (p : Path) (t : List Char) (es : List Entry) (ht : T.text (T.canon p) = some t)
    (hp : parseEntries t = .ok es) (hplain : ∀ e ∈ es, isInclude e = false) (n : Nat) :
    expand (parseFS T) (n + 1) p = some (es.map fun e => (T.canon p, e)) :=
  expand_single (parseFS T) p es (parseFS_read ht hp) hplain n

/-- **C11_split_text.**  A ledger kept as ONE text `pre ++ seg ++ post` (no includes) in the file system `T₁`, and the same
ledger in `T₂` with `seg` cut out at entry boundaries: the root file reads `pre ++ "include g⏎⏎" ++ post`, and the sorted
matches of `g` are files (plain, cut again, included through `..` or a glob: whatever expands, within depth `n`) whose expansions
read the entries of `seg`.  Both loads succeed with any fuel at least the nesting depth, the callbacks receive the same entry
sequence — the entries `parse_ledger` reads from the unsplit text — and `process` gives the same result. -/
theorem C11_split_text (T₁ T₂ : TextFS) (hc₁ : ∀ p, T₁.canon (T₁.canon p) = T₁.canon p)
    (hc₂ : ∀ p, T₂.canon (T₂.canon p) = T₂.canon p) (r₁ r₂ dir : Path) (g : String) (pre seg post : List Char)
    (epre eseg epost : List Entry) (paths : List Path) (pieces : List Tagged) (n : Nat)
    (h₁ : T₁.text (T₁.canon r₁) = some (pre ++ seg ++ post))
    (h₂ : T₂.text (T₂.canon r₂) = some (pre ++ includeText g ++ post))
    (hpre : parseEntries pre = .ok epre) (hseg : parseEntries seg = .ok eseg) (hpost : parseEntries post = .ok epost)
    (hb1 : EntryBoundary pre epre (seg ++ post)) (hb2 : EntryBoundary seg eseg post) (hl : EndsLine pre)
    (hg : wfIncludePath g)
    (hdir : parent (T₂.canon r₂) = some dir) (hglob : T₂.glob (joinStr dir g) = .ok paths) (hne : paths ≠ [])
    (hpieces : ExpandsTo (expand (parseFS T₂) n) (sortPaths paths) pieces) (hread : untag pieces.flatten = eseg)
    (hplain : ∀ e ∈ epre ++ eseg ++ epost, isInclude e = false)
    (m₁ m₂ : Nat) (hm₁ : 1 ≤ m₁) (hm₂ : n + 1 ≤ m₂) :
    (load (parseFS T₁) m₁ r₁).status = .ok () ∧ (load (parseFS T₂) m₂ r₂).status = .ok () ∧
    untag (load (parseFS T₁) m₁ r₁).delivered = epre ++ eseg ++ epost ∧
    untag (load (parseFS T₂) m₂ r₂).delivered = epre ++ eseg ++ epost ∧
    process (untag (load (parseFS T₁) m₁ r₁).delivered) = process (untag (load (parseFS T₂) m₂ r₂).delivered) := by
  have hps : ∀ e ∈ eseg, isInclude e = false := fun e he => hplain e (by simp [he])
  obtain ⟨p1, p2, p3⟩ := C11_cut_text (parseFS T₂) (expand (parseFS T₂) n) (T₂.canon r₂) dir g pre seg post epre eseg epost
    paths pieces hpre hseg hpost hb1 hb2 hl hg hdir hglob hne hpieces hread hps
  -- the unsplit ledger
  have e₁ := expand_text_single T₁ r₁ _ _ h₁ p1 hplain 0
  -- the split ledger: the root file expands to the same entries
  have hpl := expandEntries_plain (parseFS T₂) (expand (parseFS T₂) n) (T₂.canon r₂) (epre ++ eseg ++ epost) hplain
  rw [hpl] at p3
  have e₂ : ∃ xs₂, expand (parseFS T₂) (n + 1) r₂ = some xs₂ ∧ untag xs₂ = epre ++ eseg ++ epost := by
    have hr := parseFS_read h₂ p2
    have hr' : (parseFS T₂).read ((parseFS T₂).canon r₂) = .ok ⟨epre ++ .include g :: epost, false⟩ := hr
    rw [expand]
    simp only [hr', Bool.false_eq_true, if_false]
    change Option.map untag (expandEntriesWith (parseFS T₂) (expand (parseFS T₂) n) ((parseFS T₂).canon r₂)
      (epre ++ .include g :: epost)) = _ at p3
    cases hx : expandEntriesWith (parseFS T₂) (expand (parseFS T₂) n) ((parseFS T₂).canon r₂) (epre ++ .include g :: epost) with
    | none => rw [hx] at p3; simp at p3
    | some xs₂ =>
      rw [hx] at p3
      simp only [Option.map_some, Option.some.injEq] at p3
      exact ⟨xs₂, rfl, by rw [p3]; simp [untag, List.map_map, Function.comp_def]⟩
  obtain ⟨xs₂, e₂, hu₂⟩ := e₂
  have hu₁ : untag ((epre ++ eseg ++ epost).map fun e => (T₁.canon r₁, e)) = epre ++ eseg ++ epost := by
    simp [untag, List.map_map, Function.comp_def]
  have := C11_split (parseFS T₁) (parseFS T₂) hc₁ hc₂ r₁ r₂ 1 (n + 1) _ xs₂ e₁ e₂ (by rw [hu₁, hu₂]) m₁ m₂ hm₁ hm₂
  obtain ⟨s1, s2, s3, s4⟩ := this
  have l₁ := loadFile_complete (parseFS T₁) hc₁ 1 r₁ _ [] m₁ e₁ (by simp) hm₁
  have l₂ := loadFile_complete (parseFS T₂) hc₂ (n + 1) r₂ _ [] m₂ e₂ (by simp) hm₂
  refine ⟨s1, s2, ?_, ?_, s4⟩
  · unfold load; rw [l₁]; exact hu₁
  · unfold load; rw [l₂]; exact hu₂

/-- **every report is unchanged**: a report is a function of the entry sequence the loader delivers -/
theorem C11_split_text_reports {β : Type} (report : List Entry → β) (fs₁ fs₂ : FSI) (m₁ m₂ : Nat) (r₁ r₂ : Path)
    (es : List Entry) (h₁ : untag (load fs₁ m₁ r₁).delivered = es) (h₂ : untag (load fs₂ m₂ r₂).delivered = es) :
    report (untag (load fs₁ m₁ r₁).delivered) = report (untag (load fs₂ m₂ r₂).delivered) := by rw [h₁, h₂]

/-- the pieces of a cut as plain text files: each is a ledger without includes that ends with an empty line -/
structure PieceFile (T : TextFS) (q : Path) (t : List Char) (es : List Entry) : Prop where
  text : T.text (T.canon q) = some t
  parse : parseEntries t = .ok es
  blank : EndsBlank t
  plain : ∀ e ∈ es, isInclude e = false

theorem expandsTo_pieceFiles (T : TextFS) : ∀ (ps : List (Path × List Char × List Entry)),
    (∀ x ∈ ps, PieceFile T x.1 x.2.1 x.2.2) →
      ExpandsTo (expand (parseFS T) 1) (ps.map (·.1)) (ps.map fun x => x.2.2.map fun e => (T.canon x.1, e)) ∧
      untag (ps.map fun x => x.2.2.map fun e => (T.canon x.1, e)).flatten = (ps.map (·.2.2)).flatten ∧
      parseEntries (ps.map (·.2.1)).flatten = .ok (ps.map (·.2.2)).flatten ∧ EndsBlank (ps.map (·.2.1)).flatten := by
  intro ps
  induction ps with
  | nil => intro _; exact ⟨trivial, rfl, parseEntries_nil, Or.inl rfl⟩
  | cons x ps ih =>
    intro h
    obtain ⟨i1, i2, i3, i4⟩ := ih fun y hy => h y (List.mem_cons_of_mem _ hy)
    have hx := h x (by simp)
    refine ⟨⟨expand_text_single T x.1 x.2.1 x.2.2 hx.text hx.parse hx.plain 0, i1⟩, ?_, ?_, ?_⟩
    · simp only [List.map_cons, List.flatten_cons, untag, List.map_append] at i2 ⊢
      rw [i2]; simp [List.map_map, Function.comp_def]
    · simp only [List.map_cons, List.flatten_cons]
      exact parseEntries_append hx.parse i3 (hx.blank.boundary _)
    · simp only [List.map_cons, List.flatten_cons]
      exact hx.blank.append i4

/-- **C11_split_text, concretely: a glob over plain piece files.**  The text `pre ++ s₁ ++ … ++ sₖ ++ post` in one file, against
the root `pre ++ "include g⏎⏎" ++ post` whose include matches — in sorted order — `k ≥ 1` files holding `s₁ … sₖ`; `pre` and every
`sᵢ` end with an empty line (or are empty).  Same entries delivered, same `process`. -/
theorem C11_split_text_glob (T₁ T₂ : TextFS) (hc₁ : ∀ p, T₁.canon (T₁.canon p) = T₁.canon p)
    (hc₂ : ∀ p, T₂.canon (T₂.canon p) = T₂.canon p) (r₁ r₂ dir : Path) (g : String) (pre post : List Char)
    (epre epost : List Entry) (paths : List Path) (ps : List (Path × List Char × List Entry))
    (h₁ : T₁.text (T₁.canon r₁) = some (pre ++ (ps.map (·.2.1)).flatten ++ post))
    (h₂ : T₂.text (T₂.canon r₂) = some (pre ++ includeText g ++ post))
    (hpre : parseEntries pre = .ok epre) (hpost : parseEntries post = .ok epost) (hbl : EndsBlank pre) (hg : wfIncludePath g)
    (hdir : parent (T₂.canon r₂) = some dir) (hglob : T₂.glob (joinStr dir g) = .ok paths) (hne : paths ≠ [])
    (hsorted : sortPaths paths = ps.map (·.1)) (hps : ∀ x ∈ ps, PieceFile T₂ x.1 x.2.1 x.2.2)
    (hplain : ∀ e ∈ epre ++ epost, isInclude e = false)
    (m₁ m₂ : Nat) (hm₁ : 1 ≤ m₁) (hm₂ : 2 ≤ m₂) :
    (load (parseFS T₁) m₁ r₁).status = .ok () ∧ (load (parseFS T₂) m₂ r₂).status = .ok () ∧
    untag (load (parseFS T₁) m₁ r₁).delivered = epre ++ (ps.map (·.2.2)).flatten ++ epost ∧
    untag (load (parseFS T₂) m₂ r₂).delivered = epre ++ (ps.map (·.2.2)).flatten ++ epost ∧
    process (untag (load (parseFS T₁) m₁ r₁).delivered) = process (untag (load (parseFS T₂) m₂ r₂).delivered) := by
  obtain ⟨i1, i2, i3, i4⟩ := expandsTo_pieceFiles T₂ ps hps
  refine C11_split_text T₁ T₂ hc₁ hc₂ r₁ r₂ dir g pre _ post epre _ epost paths _ 1 h₁ h₂ hpre i3 hpost
    ((hbl.boundary _).entryBoundary _) ((i4.boundary _).entryBoundary _) hbl.endsLine hg hdir hglob hne (by rw [hsorted]; exact i1) i2 ?_ m₁ m₂ hm₁ hm₂
  intro e he
  simp only [List.mem_append, List.mem_flatten, List.mem_map] at he
  rcases he with (he | ⟨l, ⟨x, hx, rfl⟩, hel⟩) | he
  · exact hplain e (by simp [he])
  · exact (hps x hx).plain e hel
  · exact hplain e (by simp [he])

/-! ### non-vacuity: a concrete ledger text, cut into a root file and two pieces matched by a glob -/

/-- decidable observation (entries have no decidable equality): the text is a ledger without includes -/
def plainLedger (t : List Char) : Bool :=
  match parseEntries t with
  | .ok es => es.all fun e => !isInclude e
  | _ => false

theorem plainLedger_ok {t : List Char} (h : plainLedger t = true) :
    ∃ es, parseEntries t = .ok es ∧ ∀ e ∈ es, isInclude e = false := by
  unfold plainLedger at h
  cases hp : parseEntries t with
  | ok es =>
    rw [hp] at h
    refine ⟨es, rfl, fun e he => ?_⟩
    have := List.all_eq_true.1 h e he
    simpa using this
  | err e => rw [hp] at h; cases h
  | panic s => rw [hp] at h; cases h
  | fuelOut => rw [hp] at h; cases h

private def tMain : Path := [.root, .normal "r", .normal "main.ledger"]
private def tA : Path := [.root, .normal "r", .normal "sub", .normal "a.ledger"]
private def tB : Path := [.root, .normal "r", .normal "sub", .normal "b.ledger"]
private def sPre : List Char := "; ledger\n\n2024/01/01 open\n Assets:Cash  100 USD\n Equity\n\n".toList
private def sA : List Char := "2024/01/02 shop\n Expenses:Food  10 USD\n Assets:Cash  = 90 USD\n\n".toList
private def sB : List Char := "account Assets:Cash\n alias Cash\n\n; between\n\n".toList
private def sPost : List Char := "; tail comment\n2024/01/03 x\n Cash  -1 USD\n Expenses:Misc\n".toList

/-- the whole ledger in `/r/main.ledger` -/
private def exT1 : TextFS where
  canon := canonFake
  text p := if p = tMain then some (sPre ++ (sA ++ (sB ++ [])) ++ sPost) else none
  glob _ := .ok []

/-- `/r/main.ledger` = the first paragraphs, `include sub/*.ledger`, the last paragraphs; the glob answers in reverse order -/
private def exT2 : TextFS where
  canon := canonFake
  text p := if p = tMain then some (sPre ++ includeText "sub/*.ledger" ++ sPost)
    else if p = tA then some sA else if p = tB then some sB else none
  glob s := if s = "/r/sub/*.ledger" then .ok [tB, tA] else .ok []

-- the text after the cut starts with a comment here: the cut is a boundary only because `sB` ends with an empty line
example : boundaryB sB sPost = true ∧ boundaryB (sB.dropLast) sPost = false := by decide +kernel

example : ∃ es : List Entry, es.length = 7 ∧
    (load (parseFS exT1) 1 tMain).status = .ok () ∧ (load (parseFS exT2) 2 tMain).status = .ok () ∧
    untag (load (parseFS exT1) 1 tMain).delivered = es ∧ untag (load (parseFS exT2) 2 tMain).delivered = es ∧
    process (untag (load (parseFS exT1) 1 tMain).delivered) = process (untag (load (parseFS exT2) 2 tMain).delivered) := by
  obtain ⟨epre, hpre, plpre⟩ := plainLedger_ok (t := sPre) (by decide +kernel)
  obtain ⟨ea, ha, pla⟩ := plainLedger_ok (t := sA) (by decide +kernel)
  obtain ⟨eb, hb, plb⟩ := plainLedger_ok (t := sB) (by decide +kernel)
  obtain ⟨epost, hpost, plpost⟩ := plainLedger_ok (t := sPost) (by decide +kernel)
  have n1 : entryCount sPre = .ok 2 := by decide +kernel
  have n2 : entryCount sA = .ok 1 := by decide +kernel
  have n3 : entryCount sB = .ok 2 := by decide +kernel
  have n4 : entryCount sPost = .ok 2 := by decide +kernel
  rw [entryCount_of_ok hpre] at n1
  rw [entryCount_of_ok ha] at n2
  rw [entryCount_of_ok hb] at n3
  rw [entryCount_of_ok hpost] at n4
  simp only [Outcome.ok.injEq] at n1 n2 n3 n4
  have blank : ∀ x : List Char, (x.isEmpty || (x.getLast? == some '\n' && x.dropLast.getLast? == some '\n')) = true →
      EndsBlank x := by
    intro x hx
    simp only [Bool.or_eq_true, Bool.and_eq_true, beq_iff_eq, List.isEmpty_iff] at hx
    rcases hx with hx | ⟨h1, h2⟩
    · exact Or.inl hx
    · obtain ⟨a1, rfl⟩ := getLast?_eq_some_iff'.1 h1
      rw [List.dropLast_concat] at h2
      obtain ⟨a2, rfl⟩ := getLast?_eq_some_iff'.1 h2
      exact Or.inr ⟨a2, by simp⟩
  have := C11_split_text_glob exT1 exT2 (fun p => canonFake_idem p) (fun p => canonFake_idem p) tMain tMain
    [.root, .normal "r"] "sub/*.ledger" sPre sPost epre epost [tB, tA] [(tA, sA, ea), (tB, sB, eb)]
    (by show exT1.text (exT1.canon tMain) = some (sPre ++ (sA ++ (sB ++ [])) ++ sPost); decide +kernel)
    (by decide +kernel) hpre hpost (blank _ (by decide +kernel)) (by decide +kernel)
    (by decide +kernel) (by decide +kernel) (by simp) (by show sortPaths [tB, tA] = [tA, tB]; decide +kernel)
    (by
      intro x hx
      simp only [List.mem_cons, List.not_mem_nil, or_false] at hx
      rcases hx with rfl | rfl
      · exact ⟨by show exT2.text (exT2.canon tA) = some sA; decide +kernel, ha, blank sA (by decide +kernel), pla⟩
      · exact ⟨by show exT2.text (exT2.canon tB) = some sB; decide +kernel, hb, blank sB (by decide +kernel), plb⟩)
    (by
      intro e he
      rcases List.mem_append.1 he with h | h
      · exact plpre e h
      · exact plpost e h)
    1 2 (Nat.le_refl _) (Nat.le_refl _)
  obtain ⟨s1, s2, s3, s4, s5⟩ := this
  exact ⟨_, by simp [n1, n2, n3, n4], s1, s2, s3, s4, s5⟩

end text

end Okane.Load
