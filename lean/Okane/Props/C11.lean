/-! # C11 — property theorems (stub) -/
