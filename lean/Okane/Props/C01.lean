/-! # C01 — property theorems (stub) -/
