import Okane.Lemmas.BookSpec
import Okane.Lemmas.Num
/-!
# C01 — accepted transactions balance; unbalanced ones are rejected, not crashed on

Theorems about `Okane.addTransaction` (model of `add_transaction` + `check_balance`, after name resolution),
for every prior balance, every posting list and every iteration order of the residual map.
-/
set_option linter.unusedSectionVars false
namespace Okane
variable {α κ : Type} [DecidableEq α] [DecidableEq κ]
open Spec

/-- rounding commutes with reading a commodity's value -/
theorem rounded_getPart (prec : κ → Option Nat) (a : Amount κ) (c : κ) :
    Spec.rounded prec (fun c => Amount.getPart a c) c = Amount.getPart (Amount.round prec a) c := by
  rw [Amount.getPart_round]
  unfold Spec.rounded Amount.getPart
  cases hg : AMap.get? a c with
  | none =>
    cases prec c with
    | none => simp [hg]
    | some dp => simp [hg, roundHalfEven_zero]
  | some v => cases prec c <;> simp [hg]

/-- the omitted-amount postings seen by the loop -/
theorem loop_omitted (date : Date) (ps : List (RPosting α κ)) (st st' : TxnState α κ) (idx : Nat)
    (h : loopPostings date st idx ps = .ok st') :
    (st.unfilled = none → (st'.unfilled = none ∧ omittedCount ps = 0) ∨ (st'.unfilled.isSome ∧ omittedCount ps = 1)) ∧
    (st.unfilled.isSome → st'.unfilled = st.unfilled ∧ omittedCount ps = 0) := by
  induction ps generalizing st idx with
  | nil => simp [loopPostings] at h; subst h; simp [omittedCount]
  | cons p ps ih =>
    simp only [loopPostings] at h
    split at h
    · rename_i st1 h1
      have ih' := ih st1 (idx + 1) h
      by_cases hom : isOmitted p = true
      · -- omitted posting
        have ha : p.amount = none := by simp [isOmitted] at hom; exact hom.1
        have hb : p.balance = none := by simp [isOmitted] at hom; exact hom.2
        rw [stepPosting_omitted date st idx p ha hb] at h1
        cases hu : st.unfilled with
        | some first => simp [hu] at h1
        | none =>
          simp only [hu, Outcome.ok.injEq] at h1
          have hst1 : st1.unfilled = some idx := by rw [← h1]
          have := ih'.2 (by simp [hst1])
          refine ⟨fun _ => Or.inr ⟨by rw [this.1, hst1]; rfl, ?_⟩, by simp⟩
          simp [omittedCount, hom] at this ⊢
          exact this.2
      · -- any other posting leaves `unfilled` as it is
        have hunf : st1.unfilled = st.unfilled := by
          cases ha : p.amount with
          | some ra =>
            rw [stepPosting_amount date st idx p ra ha] at h1
            split at h1
            · simp at h1
            · simp only [Outcome.ok.injEq] at h1; rw [← h1]
          | none =>
            cases hb : p.balance with
            | none => simp [isOmitted, ha, hb] at hom
            | some x =>
              rw [stepPosting_assign date st idx p x ha hb] at h1
              split at h1
              · split at h1
                · simp only [Outcome.ok.injEq] at h1; rw [← h1]
                all_goals simp at h1
              all_goals simp at h1
        have hcount : omittedCount (p :: ps) = omittedCount ps := by
          simp [omittedCount, hom]
        rw [hcount, ← hunf]
        exact ih'
    all_goals simp at h

/-- `fillConverted` never touches the amount -/
theorem fillConverted_amount (a1 a2 : SingleAmount κ) (p : OutPosting α κ) :
    (fillConverted a1 a2 p).amount = p.amount := by
  unfold fillConverted
  split
  · split
    · rfl
    · split <;> rfl
  · rfl

/-- **C01_sound**: whatever `add_transaction` accepts is balanced in the sense of the property. -/
theorem C01_sound (prec : κ → Option Nat) (bal : Balance α κ) (t : RTxn α κ) (res : TxnResult α κ)
    (h : addTransaction prec bal t = .ok res) :
    Spec.Balanced prec t (res.txn.postings.map (·.amount)) := by
  unfold addTransaction at h
  split at h
  · rename_i st hloop
    have hbal := BalOK_loop t.date t.posts _ st 0 hloop (BalOK_init bal)
    obtain ⟨outs, ds, hp, hd, hal⟩ := loop_aligned t.date t.posts _ st 0 hloop
    simp only [List.nil_append] at hp hd
    have hom := (loop_omitted t.date t.posts _ st 0 hloop).1 rfl
    split at h
    · -- an omitted posting absorbed the remainder
      rename_i u hu
      rcases hom with ⟨h1, _⟩ | ⟨_, h2⟩
      · simp [hu] at h1
      · exact Or.inr (Or.inl h2)
    · rename_i hu
      split at h
      · rename_i postings pe hcb
        simp only [Outcome.ok.injEq] at h
        subst h
        simp only
        -- totals of the result are the running balance
        have htot : ∀ postings' : List (OutPosting α κ), postings'.map (·.amount) = st.postings.map (·.amount) →
            ∀ c, Spec.total t.posts (postings'.map (·.amount)) c = Amount.getPart st.balance c := by
          intro postings' hm c
          rw [hm, hp, ← aligned_total t.posts outs ds hal c, hbal.2 c, hd]
        unfold checkBalance at hcb
        simp only at hcb
        split at hcb
        · -- rounded residual is zero everywhere
          rename_i hz
          simp only [Outcome.ok.injEq, Prod.mk.injEq] at hcb
          obtain ⟨hpost, _⟩ := hcb
          subst hpost
          left
          intro c
          have hfun : Spec.total t.posts (st.postings.map (·.amount)) = fun c => Amount.getPart st.balance c :=
            funext (htot st.postings rfl)
          rw [hfun, rounded_getPart]
          exact (Amount.isZero_iff_getPart _ (Amount.WF_round _ _ hbal.1)).1 hz c
        · rename_i hz
          split at hcb
          · -- implied exchange between exactly two commodities
            rename_i a1 a2 himp
            simp only [Outcome.ok.injEq, Prod.mk.injEq] at hcb
            obtain ⟨hpost, _⟩ := hcb
            subst hpost
            right; right
            have hm : (st.postings.map (fillConverted a1 a2)).map (·.amount) = st.postings.map (·.amount) := by
              simp [List.map_map, Function.comp_def, fillConverted_amount]
            have hfun : Spec.total t.posts ((st.postings.map (fillConverted a1 a2)).map (·.amount)) =
                fun c => Amount.getPart st.balance c := funext (htot _ hm)
            rw [hfun]
            -- shape of the rounded residual
            unfold impliedExchange at himp
            split at himp
            · rename_i b1 b2 hpair
              split at himp
              · rename_i hcond
                simp only [Option.some.injEq, Prod.mk.injEq] at himp
                obtain ⟨e1, e2⟩ := himp
                subst e1; subst e2
                -- the rounded map is exactly the two entries
                have hshape : Amount.round prec st.balance = [(b1.commodity, b1.value), (b2.commodity, b2.value)] := by
                  unfold Amount.maybePair at hpair
                  split at hpair
                  · rename_i c1 v1 c2 v2 heq
                    simp only [Option.some.injEq, Prod.mk.injEq] at hpair
                    obtain ⟨e1, e2⟩ := hpair
                    subst e1; subst e2
                    exact heq
                  · simp at hpair
                have hwf := Amount.WF_round prec _ hbal.1
                rw [hshape] at hwf
                have hne : b1.commodity ≠ b2.commodity := by
                  unfold AMap.WF AMap.keys at hwf
                  simp at hwf
                  exact hwf
                refine ⟨b1.commodity, b2.commodity, hne, ?_, ?_, ?_, ?_⟩
                · rw [rounded_getPart, hshape]; simp [Amount.getPart, AMap.get?]; exact hcond.1
                · rw [rounded_getPart, hshape]; simp [Amount.getPart, AMap.get?, hne]; exact hcond.2.1
                · rw [rounded_getPart, rounded_getPart, hshape]
                  simp [Amount.getPart, AMap.get?, hne]
                  obtain ⟨n1, n2, hs⟩ := hcond
                  have h1 : ¬ ((0 ≤ b1.value) ↔ (0 ≤ b2.value)) := fun hh => hs (propext hh)
                  grind
                · intro c hc1 hc2
                  rw [rounded_getPart, hshape]
                  simp [Amount.getPart, AMap.get?, Ne.symm hc1, Ne.symm hc2]
              · simp at himp
            · simp at himp
          · simp at hcb
      all_goals simp at h
  all_goals simp at h

end Okane

namespace Okane
variable {α κ : Type} [DecidableEq α] [DecidableEq κ]
open Spec

/-! ## no crash -/

theorem SingleAmount.checkAdd_no_crash (a b : SingleAmount κ) : (a.checkAdd b).crashes = false := by
  unfold SingleAmount.checkAdd; split <;> rfl

theorem PostingAmt.checkSub_no_crash (l r : PostingAmt κ) : (l.checkSub r).crashes = false := by
  unfold PostingAmt.checkSub PostingAmt.checkAdd
  cases l <;> cases r <;> simp [PostingAmt.neg, Outcome.crashes]
  rename_i a b
  have := SingleAmount.checkAdd_no_crash a b.neg
  cases h : a.checkAdd b.neg <;> simp [Outcome.map', Outcome.crashes, h] at this ⊢

theorem Balance.setPartial_no_crash (b : Balance α κ) (a : α) (x : PostingAmt κ) :
    (Balance.setPartial b a x).crashes = false := by
  cases x with
  | zero =>
    simp only [Balance.setPartial]
    cases (Balance.get b a).toPosting <;> rfl
  | single s => rfl

theorem processPosting_no_crash (bal : Balance α κ) (date : Date) (idx : Nat) (p : RPosting α κ) :
    (processPosting bal date idx p).crashes = false := by
  unfold processPosting
  cases p.amount with
  | none =>
    cases p.balance with
    | none => rfl
    | some current =>
      simp only
      have h1 := Balance.setPartial_no_crash bal p.account current
      cases hs : Balance.setPartial bal p.account current with
      | ok r =>
        obtain ⟨bal', prev⟩ := r
        simp only
        have h2 := PostingAmt.checkSub_no_crash current prev
        cases hc : current.checkSub prev <;> simp [Outcome.crashes, hc] at h2 ⊢
      | err e => rfl
      | panic s => rw [hs] at h1; simp [Outcome.crashes] at h1
      | fuelOut => rw [hs] at h1; simp [Outcome.crashes] at h1
  | some ra =>
    simp only
    split <;> rfl

theorem stepPosting_no_crash (date : Date) (st : TxnState α κ) (idx : Nat) (p : RPosting α κ) :
    (stepPosting date st idx p).crashes = false := by
  have := processPosting_no_crash st.bal date idx p
  unfold stepPosting
  split
  · rfl
  · split <;> rfl
  · rfl
  · rename_i s hs; rw [hs] at this; simp [Outcome.crashes] at this
  · rename_i hs; rw [hs] at this; simp [Outcome.crashes] at this

theorem loopPostings_no_crash (date : Date) (ps : List (RPosting α κ)) (st : TxnState α κ) (idx : Nat) :
    (loopPostings date st idx ps).crashes = false := by
  induction ps generalizing st idx with
  | nil => rfl
  | cons p ps ih =>
    have := stepPosting_no_crash date st idx p
    simp only [loopPostings]
    split
    · exact ih _ _
    · rfl
    · rename_i s hs; rw [hs] at this; simp [Outcome.crashes] at this
    · rename_i hs; rw [hs] at this; simp [Outcome.crashes] at this

/-- position bookkeeping of the loop: `idx` is the number of postings emitted so far and the omitted
posting's index points at one of them -/
def TxnState.IdxOK (st : TxnState α κ) (idx : Nat) : Prop :=
  st.postings.length = idx ∧ ∀ u, st.unfilled = some u → u < st.postings.length

theorem IdxOK_step (date : Date) (st st' : TxnState α κ) (idx : Nat) (p : RPosting α κ)
    (h : stepPosting date st idx p = .ok st') (hi : st.IdxOK idx) : st'.IdxOK (idx + 1) := by
  obtain ⟨out, d, hp, _, _, _⟩ := stepPosting_shape date st st' idx p h
  refine ⟨by rw [hp]; simp [hi.1], fun u hu => ?_⟩
  rw [hp]; simp only [List.length_append, List.length_cons, List.length_nil]
  -- either `unfilled` was already set, or it was set now to `idx`
  unfold stepPosting at h
  split at h
  · simp only [Outcome.ok.injEq] at h; subst h
    have := hi.2 u hu; omega
  · split at h
    · simp at h
    · simp only [Outcome.ok.injEq] at h; subst h
      simp only [Option.some.injEq] at hu
      have := hi.1; omega
  all_goals simp at h

theorem IdxOK_loop (date : Date) (ps : List (RPosting α κ)) (st st' : TxnState α κ) (idx : Nat)
    (h : loopPostings date st idx ps = .ok st') (hi : st.IdxOK idx) : st'.IdxOK (idx + ps.length) := by
  induction ps generalizing st idx with
  | nil => simp [loopPostings] at h; subst h; simpa using hi
  | cons p ps ih =>
    simp only [loopPostings] at h
    split at h
    · rename_i st1 h1
      have := ih st1 (idx + 1) h (IdxOK_step date st st1 idx p h1 hi)
      simp only [List.length_cons]
      have e : idx + (ps.length + 1) = idx + 1 + ps.length := by omega
      rw [e]; exact this
    all_goals simp at h

theorem checkBalance_no_crash (prec : κ → Option Nat) (date : Date) (postings : List (OutPosting α κ)) (b : Amount κ) :
    (checkBalance prec date postings b).crashes = false := by
  unfold checkBalance
  simp only
  split
  · rfl
  · split <;> rfl

/-- **C01_no_crash**: `add_transaction` never panics and never loops, whatever the transaction and history. -/
theorem C01_no_crash (prec : κ → Option Nat) (bal : Balance α κ) (t : RTxn α κ) :
    (addTransaction prec bal t).crashes = false := by
  have hl := loopPostings_no_crash t.date t.posts (⟨[], none, [], bal, [], []⟩ : TxnState α κ) 0
  unfold addTransaction
  split
  · rename_i st hloop
    have hidx := IdxOK_loop t.date t.posts _ st 0 hloop ⟨rfl, by simp⟩
    split
    · rename_i u hu
      have hlt := hidx.2 u hu
      simp only
      split
      · rfl
      · rename_i hnone
        simp at hnone
        omega
    · have hcb := checkBalance_no_crash prec t.date st.postings st.balance
      cases hc : checkBalance prec t.date st.postings st.balance with
      | ok r => rfl
      | err e => rfl
      | panic s => rw [hc] at hcb; simp [Outcome.crashes] at hcb
      | fuelOut => rw [hc] at hcb; simp [Outcome.crashes] at hcb
  · rfl
  · rename_i s hs; rw [hs] at hl; simp [Outcome.crashes] at hl
  · rename_i hs; rw [hs] at hl; simp [Outcome.crashes] at hl

/-- **C01_reject**: a transaction that is not balanced (for any choice of inferred amounts) makes
`add_transaction` return an error: it is never accepted and never crashes. -/
theorem C01_reject (prec : κ → Option Nat) (bal : Balance α κ) (t : RTxn α κ)
    (hnb : ∀ outs, ¬ Spec.Balanced prec t outs) :
    ∃ e, addTransaction prec bal t = .err e := by
  have hc := C01_no_crash prec bal t
  cases h : addTransaction prec bal t with
  | ok res => exact absurd (C01_sound prec bal t res h) (hnb _)
  | err e => exact ⟨e, rfl⟩
  | panic s => rw [h] at hc; simp [Outcome.crashes] at hc
  | fuelOut => rw [h] at hc; simp [Outcome.crashes] at hc

/-- **C01_complete**: if evaluating the postings and their assertions succeeds ("assertions permitting")
and either one amount is omitted or the rounded totals are all zero, the transaction is accepted. -/
theorem C01_complete (prec : κ → Option Nat) (bal : Balance α κ) (t : RTxn α κ) (st : TxnState α κ)
    (hloop : loopPostings t.date ⟨[], none, [], bal, [], []⟩ 0 t.posts = .ok st)
    (hgood : omittedCount t.posts = 1 ∨ AllZero prec (Spec.total t.posts (st.postings.map (·.amount)))) :
    ∃ res, addTransaction prec bal t = .ok res := by
  have hbal := BalOK_loop t.date t.posts _ st 0 hloop (BalOK_init bal)
  obtain ⟨outs, ds, hp, hd, hal⟩ := loop_aligned t.date t.posts _ st 0 hloop
  simp only [List.nil_append] at hp hd
  have hom := (loop_omitted t.date t.posts _ st 0 hloop).1 rfl
  have hidx := IdxOK_loop t.date t.posts _ st 0 hloop ⟨rfl, by simp⟩
  have hc := C01_no_crash prec bal t
  unfold addTransaction at hc ⊢
  rw [hloop] at hc ⊢
  simp only at hc ⊢
  cases hu : st.unfilled with
  | some u =>
    simp only [hu] at hc ⊢
    have hlt := hidx.2 u hu
    have : st.postings[u]? = some st.postings[u] := by simp [hlt]
    simp [this]
  | none =>
    simp only [hu] at hc ⊢
    rcases hom with ⟨_, h0⟩ | ⟨h1, _⟩
    · rcases hgood with h1 | hz
      · omega
      · -- rounded totals all zero ⇒ check_balance's first test succeeds
        have hisz : (Amount.round prec st.balance).isZero = true := by
          rw [Amount.isZero_iff_getPart _ (Amount.WF_round _ _ hbal.1)]
          intro c
          have := hz c
          have hfun : Spec.total t.posts (st.postings.map (·.amount)) = fun c => Amount.getPart st.balance c := by
            funext c
            rw [hp, ← aligned_total t.posts outs ds hal c, hbal.2 c, hd]
          rw [hfun, rounded_getPart] at this
          exact this
        simp [checkBalance, hisz]
    · simp [hu] at h1

-- non-vacuity: a concrete two-commodity transaction (keys and accounts are numbers) is accepted,
-- a same-sign one is rejected, and the hypotheses above are satisfiable.
example : (addTransaction (α := Nat) (κ := Nat) (fun _ => none) []
    ⟨⟨2024, 1, 1⟩, [⟨0, some (.plain (.single ⟨10, 1⟩)), none⟩, ⟨1, some (.plain (.single ⟨-5, 2⟩)), none⟩]⟩).isOk = true := by
  decide +kernel
example : (addTransaction (α := Nat) (κ := Nat) (fun _ => none) []
    ⟨⟨2024, 1, 1⟩, [⟨0, some (.plain (.single ⟨10, 1⟩)), none⟩, ⟨1, some (.plain (.single ⟨5, 2⟩)), none⟩]⟩).isErr = true := by
  decide +kernel
example : (addTransaction (α := Nat) (κ := Nat) (fun _ => none) []
    ⟨⟨2024, 1, 1⟩, [⟨0, some (.plain (.single ⟨10, 1⟩)), none⟩, ⟨1, some (.plain (.single ⟨0, 2⟩)), none⟩]⟩).isErr = true := by
  decide +kernel

end Okane
