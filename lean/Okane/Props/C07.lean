import Okane.Lemmas.LiteralSpec
import Okane.Lemmas.LiteralPrint
import Okane.Lemmas.LiteralPositions
/-!
# C07 — numeric literals mean exactly what is written

Model: `Okane.Literal.scan` / `printPDec` (`core/src/syntax/pretty_decimal.rs`).
Statement: `Okane.Spec.WellFormedLiteral`, `Representable`, `litValue`, `litScale`, `grouping` (`Spec/Literal.lean`).

What is proved here, for ALL strings (no length bound, any characters):
* `C07_total`        — the scanner returns a value or an error: no panic site, no fuel (no crash, no hang).
* `C07_closed_form`  — the byte state machine (`comma_pos` / `format` / `mantissa` / `scale` / `prefix_len` / `sign` /
  `has_digit`, i128 checked arithmetic, end-of-input validation, `try_from_i128_with_scale`) equals a closed form
  (`bodySpec`, Lemmas/Literal.lean).
* `C07_scan_spec`    — the closed form IS the specification (Lemmas/LiteralSpec.lean, `bodySpec_eq_spec`):
  `acc (scan s) = if WellFormedLiteral s ∧ Representable s then some (litDec s) else none`, where `litDec s` is the
  decimal written (sign unless zero, `litMant`, `litScale`, `grouping`).
* `C07_sound`, `C07_complete`, `C07_reject` — the three statements of the property, exactly as stated
  (`C07_sound_stmt`, `C07_complete_stmt`, `C07_reject_stmt`), all corollaries of `C07_scan_spec`; `C07_sound_fields`
  adds mantissa and sign (never a negative zero).  The corners `-0`, `-0.00`, leading zeros (`0012`), `0,123`, `.5`, `5.`
  do not falsify the statements as written: `litValue` of `-0` is `0 = toRat`, and `grouping "0,123" = comma3dot` is
  what the scanner records.
* `C07_print_exact`  — for EVERY decimal with mantissa < 2^96 and scale ≤ 28 (not only scanner outputs): the printed text
  (`Display for Decimal` for Plain/None, the hand-written `Comma3Dot` loop) is accepted again with the same mantissa,
  scale, sign (zero unsigned) and grouping style `printedFmt d` (Lemmas/LiteralPrint.lean: `printPlain_spec`,
  `printComma_spec`, `groupLoop_first`, `groupLoop_tail`).
* `C07_print`        — the print law as stated (`C07_print_stmt`); `C07_print_value` / `C07_print_text`: the printed
  text is a well-formed literal with the value and decimal places that were written.
* `C07_print_naive_false` — `scan (print d) = d` is refuted by `0,123` (prints `123`): that is why the grouping clause
  of `C07_print_stmt` is conditional on an integer part ≥ 1000.
-/
namespace Okane.C07
open Okane Okane.Literal

/-! ## Totality -/

theorem step_total (st : St) (i : Nat) (c : Char) : (∃ st', step st i c = .ok st') ∨ (∃ e, step st i c = .err e) := by
  unfold step
  dsimp only
  repeat' split
  all_goals first | exact Or.inl ⟨_, rfl⟩ | exact Or.inr ⟨_, rfl⟩

theorem loop_total : ∀ (s : List Char) (st : St) (i : Nat),
    (∃ st', loop st i s = .ok st') ∨ (∃ e, loop st i s = .err e) := by
  intro s
  induction s with
  | nil => intro st i; exact Or.inl ⟨st, rfl⟩
  | cons c cs ih =>
    intro st i
    simp only [loop]
    rcases step_total st i c with ⟨st', h⟩ | ⟨e, h⟩
    · rw [h]; exact ih st' (i + 1)
    · rw [h]; exact Or.inr ⟨e, rfl⟩

theorem finish_total (st : St) (n : Nat) : (∃ d, finish st n = .ok d) ∨ (∃ e, finish st n = .err e) := by
  unfold finish
  dsimp only
  repeat' split
  all_goals first | exact Or.inl ⟨_, rfl⟩ | exact Or.inr ⟨_, rfl⟩

/-- **C07_total**: for every string the scanner returns a decimal or an error value — it has no reachable panic
site (the i128 arithmetic is checked) and needs no fuel. -/
theorem C07_total (s : List Char) : (∃ d, scan s = .ok d) ∨ (∃ e, scan s = .err e) := by
  unfold scan
  rcases loop_total s {} 0 with ⟨st', h⟩ | ⟨e, h⟩
  · rw [h]; exact finish_total st' s.length
  · rw [h]; exact Or.inr ⟨e, rfl⟩

/-- **C07_reject** (shape of the failure): whatever is not accepted is an error value, never a crash. -/
theorem C07_reject_is_error (s : List Char) (h : acc (scan s) = none) : ∃ e, scan s = .err e := by
  rcases C07_total s with ⟨d, hd⟩ | he
  · rw [hd] at h; simp [acc] at h
  · exact he

/-! ## The closed form -/

/-- what `from_str` computes, without the state machine -/
def closedForm (s : List Char) : Option PDec :=
  bodySpec (Spec.isNegative s) (if Spec.isNegative s then 1 else 0) (Spec.stripMinus s)

/-- **C07_closed_form**: for every string, the scanner accepts exactly what the closed form accepts and returns
exactly the decimal the closed form describes. -/
theorem C07_closed_form (s : List Char) : acc (scan s) = closedForm s := by
  rw [scan_eq_run]
  unfold closedForm
  match s with
  | '-' :: b =>
    have hstep : step {} 0 '-' = .ok { prefixLen := 1, neg := true } := by simp [step]
    rw [acc_run_cons, hstep, acc_ok]
    simp only [Spec.isNegative, Spec.stripMinus, if_true]
    exact run_body true 1 b (by omega)
  | [] =>
    simp only [Spec.isNegative, Spec.stripMinus]
    exact run_body false 0 [] (by intro _ t h; simp at h)
  | c :: cs =>
    by_cases hc : c = '-'
    · subst hc
      have hstep : step {} 0 '-' = .ok { prefixLen := 1, neg := true } := by simp [step]
      rw [acc_run_cons, hstep, acc_ok]
      simp only [Spec.isNegative, Spec.stripMinus, if_true]
      exact run_body true 1 cs (by omega)
    · have h1 : Spec.isNegative (c :: cs) = false := by
        unfold Spec.isNegative; split <;> simp_all
      have h2 : Spec.stripMinus (c :: cs) = c :: cs := by
        unfold Spec.stripMinus; split <;> simp_all
      rw [h1, h2]
      simp only [Bool.false_eq_true, if_false]
      exact run_body false 0 (c :: cs) (by intro _ t h; simp at h; exact hc h.1)

/-! ## The closed form is the specification -/

/-- the closed form accepts exactly the well-formed, representable literals and returns the decimal as written -/
theorem closedForm_eq_spec (s : List Char) :
    closedForm s = if Spec.WellFormedLiteral s = true ∧ Spec.Representable s = true then some (litDec s) else none := by
  unfold closedForm
  rw [bodySpec_eq_spec, wf_eq_bWF, rep_eq_bRep, litDec_eq]

/-- **C07_scan_spec** (the whole property in one equation): for every string, `from_str` accepts iff the string is a
well-formed literal within rust_decimal's range, and then returns exactly the sign, mantissa, scale and grouping
style that are written (`litDec`); otherwise it returns no value. -/
theorem C07_scan_spec (s : List Char) :
    acc (scan s) = if Spec.WellFormedLiteral s = true ∧ Spec.Representable s = true then some (litDec s) else none := by
  rw [C07_closed_form, closedForm_eq_spec]

theorem scan_ok_iff (s : List Char) (d : PDec) :
    scan s = .ok d ↔ (Spec.WellFormedLiteral s = true ∧ Spec.Representable s = true) ∧ d = litDec s := by
  have h := C07_scan_spec s
  constructor
  · intro hd
    rw [hd, acc_ok] at h
    by_cases hw : Spec.WellFormedLiteral s = true ∧ Spec.Representable s = true
    · rw [if_pos hw] at h; exact ⟨hw, Option.some.inj h⟩
    · rw [if_neg hw] at h; exact absurd h (by simp)
  · intro ⟨hw, hd⟩
    rw [if_pos hw] at h
    rcases C07_total s with ⟨d', hd'⟩ | ⟨e, he⟩
    · rw [hd', acc_ok] at h; rw [hd', hd, Option.some.inj h]
    · rw [he] at h; simp [acc] at h

/-- the value of the decimal as written is the number written (a zero has no sign) -/
theorem litDec_toRat (s : List Char) : (litDec s).toRat = Spec.litValue s := by
  unfold PDec.toRat Spec.litValue litDec
  dsimp only
  by_cases hn : Spec.isNegative s = true
  · by_cases hm : Spec.litMant s = 0
    · simp only [hn, hm, Bool.true_and, bne_self_eq_false, Bool.false_eq_true, if_false, if_true]
      grind
    · simp [hn, hm]
  · simp [hn]

/-! ## Full-strength statements against `Spec/Literal.lean`, and their proofs -/

/-- accepted ⇒ well formed, and value / decimal places / grouping exactly as written -/
def C07_sound_stmt : Prop := ∀ s d, scan s = .ok d →
  Spec.WellFormedLiteral s = true ∧ Spec.Representable s = true ∧ d.toRat = Spec.litValue s ∧ d.scale = Spec.litScale s ∧
  d.fmt = Spec.grouping s
/-- well formed and representable ⇒ accepted -/
def C07_complete_stmt : Prop := ∀ s, Spec.WellFormedLiteral s = true → Spec.Representable s = true → ∃ d, scan s = .ok d
/-- anything else ⇒ an error value -/
def C07_reject_stmt : Prop := ∀ s, ¬ (Spec.WellFormedLiteral s = true ∧ Spec.Representable s = true) → ∃ e, scan s = .err e
/-- printing preserves value, decimal places and (where there is something to group) the grouping style -/
def C07_print_stmt : Prop := ∀ s d, scan s = .ok d →
  ∃ d', scan (printPDec d) = .ok d' ∧ d'.neg = d.neg ∧ d'.mant = d.mant ∧ d'.scale = d.scale ∧
    (d.mant / 10 ^ d.scale ≥ 1000 → d'.fmt = d.fmt)

/-- **C07_sound**: whatever `from_str` accepts is a well-formed literal within range, and the decimal it returns has
exactly the value, the number of decimal places and the grouping style that are written. -/
theorem C07_sound : C07_sound_stmt := by
  intro s d h
  obtain ⟨⟨hw, hr⟩, hd⟩ := (scan_ok_iff s d).mp h
  subst hd
  exact ⟨hw, hr, litDec_toRat s, rfl, rfl⟩

/-- sharper form of soundness: sign and mantissa too (a zero is never negative) -/
theorem C07_sound_fields (s : List Char) (d : PDec) (h : scan s = .ok d) :
    d.mant = Spec.litMant s ∧ d.neg = (Spec.isNegative s && Spec.litMant s != 0) ∧ d.scale = Spec.litScale s ∧
    d.fmt = Spec.grouping s ∧ d.mant < 2 ^ 96 ∧ d.scale ≤ 28 := by
  obtain ⟨⟨_, hr⟩, hd⟩ := (scan_ok_iff s d).mp h
  subst hd
  simp only [Spec.Representable, Bool.and_eq_true, decide_eq_true_eq] at hr
  exact ⟨rfl, rfl, rfl, rfl, hr.2, hr.1⟩

/-- **C07_complete**: every well-formed literal within range is accepted. -/
theorem C07_complete : C07_complete_stmt := by
  intro s hw hr
  exact ⟨litDec s, (scan_ok_iff s _).mpr ⟨⟨hw, hr⟩, rfl⟩⟩

/-- **C07_reject**: everything else — malformed, too large, too precise — is an error value (not a value, not a crash). -/
theorem C07_reject : C07_reject_stmt := by
  intro s h
  apply C07_reject_is_error
  rw [C07_scan_spec, if_neg h]

example : Spec.WellFormedLiteral "-1,234.50".toList = true ∧ Spec.Representable "-1,234.50".toList = true ∧
    litDec "-1,234.50".toList = ⟨true, 123450, 2, some .comma3dot⟩ := by decide +kernel
example : ¬ (Spec.WellFormedLiteral "12,50".toList = true ∧ Spec.Representable "12,50".toList = true) := by decide +kernel
example : Spec.WellFormedLiteral ('1' :: List.replicate 39 '0') = true ∧
    Spec.Representable ('1' :: List.replicate 39 '0') = false := by decide +kernel
example : Spec.WellFormedLiteral "-0.00".toList = true ∧ litDec "-0.00".toList = ⟨false, 0, 2, none⟩ := by decide +kernel

/-- the naive form of the print law (`scan (print d) = d`) is FALSE: a grouped literal below 1000 (`0,123`) prints
without a comma and re-reads without the grouping tag. -/
def C07_print_naive : Prop := ∀ s d, scan s = .ok d → scan (printPDec d) = .ok d

theorem C07_print_naive_false : ¬ C07_print_naive := by
  intro h
  have := h "0,123".toList ⟨false, 123, 0, some .comma3dot⟩ (by decide +kernel)
  revert this
  decide +kernel

/-! ## The print / re-read law -/

/-- the grouping style a printed decimal shows: none below 1000; otherwise commas iff the decimal is tagged `Comma3Dot` -/
def printedFmt (d : PDec) : Option Fmt :=
  if 1000 ≤ d.mant / 10 ^ d.scale then (if d.fmt = some .comma3dot then some .comma3dot else some .plain) else none

/-- **C07_print_exact**: for EVERY decimal within rust_decimal's range (not only scanner outputs), re-reading the printed
text succeeds and returns the same mantissa and scale, the same sign (a zero loses its sign), and the grouping style
`printedFmt d`. -/
theorem C07_print_exact (d : PDec) (hm : d.mant < 2 ^ 96) (hs : d.scale ≤ 28) :
    scan (printPDec d) = .ok ⟨d.neg && d.mant != 0, d.mant, d.scale, printedFmt d⟩ := by
  obtain ⟨h1, h2, h3, h4, h5⟩ := printPDec_spec d
  rw [scan_ok_iff]
  refine ⟨⟨h1, ?_⟩, ?_⟩
  · simp [Spec.Representable, h2, h3, hm, hs]
  · unfold litDec printedFmt
    rw [h2, h3, h4, h5]

/-- **C07_print**: printing an accepted literal and reading the text again yields the same sign, mantissa and scale
(hence the same value and decimal places) and, where there is something to group (integer part ≥ 1000), the same
grouping style. -/
theorem C07_print : C07_print_stmt := by
  intro s d h
  obtain ⟨⟨hw, _⟩, hd⟩ := (scan_ok_iff s d).mp h
  obtain ⟨f1, f2, f3, f4, f5, f6⟩ := C07_sound_fields s d h
  refine ⟨_, C07_print_exact d f5 f6, ?_, rfl, rfl, ?_⟩
  · show (d.neg && d.mant != 0) = d.neg
    rw [f2, f1]
    cases Spec.isNegative s <;> simp
  · intro hge
    show printedFmt d = d.fmt
    unfold printedFmt
    rw [if_pos hge]
    cases hfmt : d.fmt with
    | none =>
      exfalso
      have := grouping_none_small s hw (by rw [← f4]; exact hfmt)
      rw [← f1, ← f3] at this
      omega
    | some f => cases f <;> simp

/-- printing preserves the value -/
theorem C07_print_value (s : List Char) (d : PDec) (h : scan s = .ok d) :
    ∃ d', scan (printPDec d) = .ok d' ∧ d'.toRat = Spec.litValue s ∧ d'.scale = Spec.litScale s := by
  obtain ⟨d', h1, h2, h3, h4, _⟩ := C07_print s d h
  obtain ⟨_, _, h5, h6, _⟩ := C07_sound s d h
  refine ⟨d', h1, ?_, by rw [h4, h6]⟩
  rw [← h5]
  unfold PDec.toRat
  rw [h2, h3, h4]

/-- the printed text is itself a well-formed literal with the value and decimal places that were written -/
theorem C07_print_text (s : List Char) (d : PDec) (h : scan s = .ok d) :
    Spec.WellFormedLiteral (printPDec d) = true ∧ Spec.litValue (printPDec d) = Spec.litValue s ∧
    Spec.litScale (printPDec d) = Spec.litScale s := by
  obtain ⟨d', h1, h2, h3⟩ := C07_print_value s d h
  obtain ⟨g1, _, g3, g4, _⟩ := C07_sound _ _ h1
  exact ⟨g1, by rw [← g3, h2], by rw [← g4, h3]⟩

example : scan "1,234.50".toList = .ok ⟨false, 123450, 2, some .comma3dot⟩ ∧
    printPDec ⟨false, 123450, 2, some .comma3dot⟩ = "1,234.50".toList := by decide +kernel
example : printPDec ⟨true, 1234567, 0, some .plain⟩ = "-1234567".toList ∧
    printedFmt ⟨true, 1234567, 0, some .plain⟩ = some .plain := by decide +kernel
example : printPDec ⟨false, 5, 3, some .comma3dot⟩ = "0.005".toList := by decide +kernel

/-! ## Non-vacuity: the theorems applied to concrete literals -/

example : Spec.litValue "-1,234.50".toList = (-123450 : Rat) / 100 := by decide +kernel
/-- soundness instantiated: the hypothesis is satisfiable and the conclusion is informative -/
example : (⟨true, 123450, 2, some .comma3dot⟩ : PDec).toRat = Spec.litValue "-1,234.50".toList :=
  (C07_sound "-1,234.50".toList _ (by decide +kernel)).2.2.1
example : ∃ d, scan "0012.5".toList = .ok d := C07_complete _ (by decide +kernel) (by decide +kernel)
example : ∃ e, scan "1,234,56".toList = .err e := C07_reject _ (by decide +kernel)
example : ∃ e, scan ('0' :: '.' :: List.replicate 29 '1') = .err e := C07_reject _ (by decide +kernel)
example : ∃ d', scan (printPDec ⟨false, 123450, 2, some .comma3dot⟩) = .ok d' ∧ d'.fmt = some .comma3dot := by
  obtain ⟨d', h1, _, _, _, h5⟩ := C07_print "1,234.50".toList ⟨false, 123450, 2, some .comma3dot⟩ (by decide +kernel)
  exact ⟨d', h1, h5 (by decide)⟩
example : scan (printPDec ⟨true, 0, 2, none⟩) = .ok ⟨false, 0, 2, none⟩ :=
  C07_print_exact ⟨true, 0, 2, none⟩ (by decide) (by decide)

/-! ## Non-vacuity: accepted and rejected witnesses through the closed form -/

example : scan "1,234.50".toList = .ok ⟨false, 123450, 2, some .comma3dot⟩ := by decide +kernel
example : scan "-0.05".toList = .ok ⟨true, 5, 2, none⟩ := by decide +kernel
example : scan "12,50".toList = .err (.unexpectedEnd 5) := by decide +kernel
example : scan "1.2.3".toList = .err (.unexpectedChar 3) := by decide +kernel
example : closedForm "1,234.50".toList = some ⟨false, 123450, 2, some .comma3dot⟩ := by decide +kernel
example : closedForm "1,234,56".toList = none := by decide +kernel
example : scan ('1' :: List.replicate 39 '0') = .err .invalidDecimal := by decide +kernel

end Okane.C07

/-! ## C07_positions — the token handed to the scanner is maximal, in every syntactic position

Proved in `Lemmas/LiteralPositions.lean` (for all inputs); restated here and combined with `C07_scan_spec`. -/
namespace Okane.C07
open Okane Okane.Literal Okane.LiteralPositions

/-- **C07_positions (token extent)**: `tokenSplit inp = (tok, rest)` iff `inp = tok ++ rest`, `tok` is an optional `-`
followed by a non-empty run over `[0-9,.]` and `rest` does not begin with a character of `[0-9,.]` (maximal munch). -/
theorem C07_positions_token (inp tok rest : List Char) :
    tokenSplit inp = .ok (tok, rest) ↔ inp = tok ++ rest ∧ IsToken tok ∧ NoNumHead rest :=
  tokenSplit_ok_iff inp tok rest

/-- every token that starts at the same position is a prefix of the one taken -/
theorem C07_positions_maximal {inp tok rest tok' rest' : List Char} (h : tokenSplit inp = .ok (tok, rest))
    (ht' : IsToken tok') (he : inp = tok' ++ rest') : tok' <+: tok :=
  tokenSplit_maximal h ht' he

/-- **C07_positions (failure)**: `tokenSplit` fails iff no token starts at the input -/
theorem C07_positions_no_token (inp : List Char) :
    (∃ pos, tokenSplit inp = .error pos) ↔ ¬ ∃ tok rest, inp = tok ++ rest ∧ IsToken tok :=
  tokenSplit_error_iff inp

/-- the token alphabet is the one the Rust source spells out now -/
theorem C07_positions_alphabet (c : Char) :
    isNumChar c = (c.isDigit || Params.numberTokenExtra.toList.contains c || Params.numberTokenExtra2.toList.contains c) :=
  isNumChar_source c

/-- **`expr::amount` reads the maximal token or nothing**: it succeeds at `inp` iff the maximal token there is a
well-formed, representable literal; the decimal in the tree is then exactly the decimal written by the WHOLE token. -/
theorem C07_positions_amount (inp : List Char) (v : VExpr) (r : List Char) :
    ExprSyntax.amount inp = .ok v r ↔ ∃ tok rest, inp = tok ++ rest ∧ IsToken tok ∧ NoNumHead rest ∧
      (Spec.WellFormedLiteral tok = true ∧ Spec.Representable tok = true) ∧
      v = .amt (litDec tok) (String.ofList ((ExprSyntax.skipSpaces rest).takeWhile ExprSyntax.isCommodityChar)) ∧
      r = (ExprSyntax.skipSpaces rest).dropWhile ExprSyntax.isCommodityChar := by
  rw [amount_uses_tokenSplit]
  constructor
  · rintro ⟨tok, rest, d, h1, h2, h3, h4⟩
    obtain ⟨g1, g2, g3⟩ := tokenSplit_ok_shape h1
    obtain ⟨hw, rfl⟩ := (scan_ok_iff tok d).1 h2
    exact ⟨tok, rest, g1, g2, g3, hw, h3, h4⟩
  · rintro ⟨tok, rest, rfl, g2, g3, hw, h3, h4⟩
    exact ⟨tok, rest, litDec tok, tokenSplit_of_shape g2 g3, (scan_ok_iff tok _).2 ⟨hw, rfl⟩, h3, h4⟩

/-- **no short read**: if the maximal token at a position is not a well-formed representable literal, both `amount`
parsers fail there (stream reset to the start of the token); a shorter prefix of the token is never tried. -/
theorem C07_positions_reject {tok rest : List Char} (ht : IsToken tok) (hr : NoNumHead rest)
    (hbad : ¬ (Spec.WellFormedLiteral tok = true ∧ Spec.Representable tok = true)) :
    ExprSyntax.amount (tok ++ rest) = .fail (tok ++ rest) ∧ Parse.amount (tok ++ rest) = .bt (tok ++ rest) := by
  refine amount_rejects (tokenSplit_of_shape ht hr) ?_
  intro d hd
  exact hbad ((scan_ok_iff tok d).1 hd).1

/-- **C07_positions (whole ledger)**: every numeric literal in the tree of an accepted ledger text — posting amounts,
costs, lot prices, balance assertions (through all operators and parentheses) and `format` sub-directives — is the
decimal written by a maximal token of the text, and that token is a well-formed, representable literal. -/
theorem C07_positions (t : List Char) (es : List Entry) (h : Parse.parseEntries t = .ok es) :
    ∀ e ∈ es, ∀ d ∈ numsEntry e, ∃ pre tok post, t = pre ++ (tok ++ post) ∧ IsToken tok ∧ NoNumHead post ∧
      Spec.WellFormedLiteral tok = true ∧ Spec.Representable tok = true ∧ d = litDec tok := by
  intro e he d hd
  obtain ⟨pre, tok, post, h1, h2, h3, h4⟩ := C07_positions_ledger t es h e he d hd
  obtain ⟨⟨hw, hrep⟩, rfl⟩ := (scan_ok_iff tok d).1 h4
  exact ⟨pre, tok, post, h1, h2, h3, hw, hrep, rfl⟩

/-- **C07_positions (price-db file)**: the rate of every record of an accepted price-db text -/
theorem C07_positions_pricedb (t : List Char) (rs : List PriceDbFile.PriceRec)
    (h : PriceDbFile.parsePriceDb t = .ok rs) :
    ∀ x ∈ rs, ∃ pre tok post, t = pre ++ (tok ++ post) ∧ IsToken tok ∧ NoNumHead post ∧
      Spec.WellFormedLiteral tok = true ∧ Spec.Representable tok = true ∧ x.rate = litDec tok := by
  intro x hx
  obtain ⟨pre, tok, post, h1, h2, h3, h4⟩ := C07_positions_priceDb t rs h x hx
  obtain ⟨⟨hw, hrep⟩, hd⟩ := (scan_ok_iff tok x.rate).1 h4
  exact ⟨pre, tok, post, h1, h2, h3, hw, hrep, hd⟩

/-- non-vacuity: `12,50` followed by ` USD` is a maximal token that is not a well-formed literal, so `amount` fails
there — it is not read as `12` -/
example : ExprSyntax.amount ("12,50".toList ++ " USD".toList) = .fail ("12,50".toList ++ " USD".toList) :=
  (C07_positions_reject ⟨_, ⟨by simp, by decide⟩, .inr rfl⟩ (by intro c r h; injection h with h1 _; subst h1; decide)
    (by decide +kernel)).1

/-- non-vacuity: `-1,234.50 USD` is read, as the whole token -/
example : ∃ v r, ExprSyntax.amount "-1,234.50 USD".toList = .ok v r ∧
    v = .amt (litDec "-1,234.50".toList) (String.ofList ((ExprSyntax.skipSpaces " USD".toList).takeWhile ExprSyntax.isCommodityChar)) :=
  ⟨_, _, (C07_positions_amount _ _ _).2 ⟨"-1,234.50".toList, " USD".toList, by decide,
    ⟨"1,234.50".toList, ⟨by simp, by decide⟩, .inl (by decide)⟩,
    (by intro c r h; injection h with h1 _; subst h1; decide), by decide +kernel, rfl, rfl⟩, rfl⟩

end Okane.C07
