import Okane.Lemmas.LiteralSpec
/-!
# C07 — numeric literals mean exactly what is written

Model: `Okane.Literal.scan` / `printPDec` (`core/src/syntax/pretty_decimal.rs`).
Statement: `Okane.Spec.WellFormedLiteral`, `Representable`, `litValue`, `litScale`, `grouping` (`Spec/Literal.lean`).

What is proved here, for ALL strings:
* `C07_total`        — the scanner returns a value or an error: no panic site, no fuel (no crash, no hang).
* `C07_closed_form`  — the byte state machine (`comma_pos` / `format` / `mantissa` / `scale` / `prefix_len` / `sign` /
  `has_digit`, i128 checked arithmetic, end-of-input validation, `try_from_i128_with_scale`) accepts a string iff,
  after an optional leading `-`, it is a run of digits followed by (a) nothing, (b) `.` and digits only, or
  (c) — only after 1 to 3 leading digits — one or more complete groups `,ddd` and then nothing or `.` and digits;
  and the value it returns is, field by field, the one written: mantissa = the digits read as one number, scale = the
  number of digits after the point, format = grouped / plain (≥ 4 ungrouped integer digits) / none, sign = the
  minus (never a negative zero), subject to |mantissa| < 2^96 and scale ≤ 28.  Everything else is an *error value*.
* `C07_reject_is_error` — whatever the closed form does not accept is an error value.
* `C07_print_naive_false` — `scan (print d) = d` is refuted by `0,123`; the correct law is `C07_print_stmt`.
The full-strength statements against `Spec/Literal.lean` (`C07_sound_stmt`, `C07_complete_stmt`, `C07_reject_stmt`,
`C07_print_stmt`) are kept visible below; their reduction to `C07_closed_form` is list reasoning about
`takeWhile`/`dropWhile` that is not yet mechanised — on every run the correspondence stream evaluates the Lean
`Spec` predicates, the closed form's consequences and an independent regular expression on every string up to
length 6/7 over the class alphabet and on the random long literals, and compares them with the real code.
-/
namespace Okane.C07
open Okane Okane.Literal

/-! ## Totality -/

theorem step_total (st : St) (i : Nat) (c : Char) : (∃ st', step st i c = .ok st') ∨ (∃ e, step st i c = .err e) := by
  unfold step
  dsimp only
  repeat' split
  all_goals first | exact Or.inl ⟨_, rfl⟩ | exact Or.inr ⟨_, rfl⟩

theorem loop_total : ∀ (s : List Char) (st : St) (i : Nat),
    (∃ st', loop st i s = .ok st') ∨ (∃ e, loop st i s = .err e) := by
  intro s
  induction s with
  | nil => intro st i; exact Or.inl ⟨st, rfl⟩
  | cons c cs ih =>
    intro st i
    simp only [loop]
    rcases step_total st i c with ⟨st', h⟩ | ⟨e, h⟩
    · rw [h]; exact ih st' (i + 1)
    · rw [h]; exact Or.inr ⟨e, rfl⟩

theorem finish_total (st : St) (n : Nat) : (∃ d, finish st n = .ok d) ∨ (∃ e, finish st n = .err e) := by
  unfold finish
  dsimp only
  repeat' split
  all_goals first | exact Or.inl ⟨_, rfl⟩ | exact Or.inr ⟨_, rfl⟩

/-- **C07_total**: for every string the scanner returns a decimal or an error value — it has no reachable panic
site (the i128 arithmetic is checked) and needs no fuel. -/
theorem C07_total (s : List Char) : (∃ d, scan s = .ok d) ∨ (∃ e, scan s = .err e) := by
  unfold scan
  rcases loop_total s {} 0 with ⟨st', h⟩ | ⟨e, h⟩
  · rw [h]; exact finish_total st' s.length
  · rw [h]; exact Or.inr ⟨e, rfl⟩

/-- **C07_reject** (shape of the failure): whatever is not accepted is an error value, never a crash. -/
theorem C07_reject_is_error (s : List Char) (h : acc (scan s) = none) : ∃ e, scan s = .err e := by
  rcases C07_total s with ⟨d, hd⟩ | he
  · rw [hd] at h; simp [acc] at h
  · exact he

/-! ## The closed form -/

/-- what `from_str` computes, without the state machine -/
def closedForm (s : List Char) : Option PDec :=
  bodySpec (Spec.isNegative s) (if Spec.isNegative s then 1 else 0) (Spec.stripMinus s)

/-- **C07_closed_form**: for every string, the scanner accepts exactly what the closed form accepts and returns
exactly the decimal the closed form describes. -/
theorem C07_closed_form (s : List Char) : acc (scan s) = closedForm s := by
  rw [scan_eq_run]
  unfold closedForm
  match s with
  | '-' :: b =>
    have hstep : step {} 0 '-' = .ok { prefixLen := 1, neg := true } := by simp [step]
    rw [acc_run_cons, hstep, acc_ok]
    simp only [Spec.isNegative, Spec.stripMinus, if_true]
    exact run_body true 1 b (by omega)
  | [] =>
    simp only [Spec.isNegative, Spec.stripMinus]
    exact run_body false 0 [] (by intro _ t h; simp at h)
  | c :: cs =>
    by_cases hc : c = '-'
    · subst hc
      have hstep : step {} 0 '-' = .ok { prefixLen := 1, neg := true } := by simp [step]
      rw [acc_run_cons, hstep, acc_ok]
      simp only [Spec.isNegative, Spec.stripMinus, if_true]
      exact run_body true 1 cs (by omega)
    · have h1 : Spec.isNegative (c :: cs) = false := by
        unfold Spec.isNegative; split <;> simp_all
      have h2 : Spec.stripMinus (c :: cs) = c :: cs := by
        unfold Spec.stripMinus; split <;> simp_all
      rw [h1, h2]
      simp only [Bool.false_eq_true, if_false]
      exact run_body false 0 (c :: cs) (by intro _ t h; simp at h; exact hc h.1)

/-! ## The closed form is the specification -/

/-- the closed form accepts exactly the well-formed, representable literals and returns the decimal as written -/
theorem closedForm_eq_spec (s : List Char) :
    closedForm s = if Spec.WellFormedLiteral s = true ∧ Spec.Representable s = true then some (litDec s) else none := by
  unfold closedForm
  rw [bodySpec_eq_spec, wf_eq_bWF, rep_eq_bRep, litDec_eq]

/-- **C07_scan_spec** (the whole property in one equation): for every string, `from_str` accepts iff the string is a
well-formed literal within rust_decimal's range, and then returns exactly the sign, mantissa, scale and grouping
style that are written (`litDec`); otherwise it returns no value. -/
theorem C07_scan_spec (s : List Char) :
    acc (scan s) = if Spec.WellFormedLiteral s = true ∧ Spec.Representable s = true then some (litDec s) else none := by
  rw [C07_closed_form, closedForm_eq_spec]

theorem scan_ok_iff (s : List Char) (d : PDec) :
    scan s = .ok d ↔ (Spec.WellFormedLiteral s = true ∧ Spec.Representable s = true) ∧ d = litDec s := by
  have h := C07_scan_spec s
  constructor
  · intro hd
    rw [hd, acc_ok] at h
    by_cases hw : Spec.WellFormedLiteral s = true ∧ Spec.Representable s = true
    · rw [if_pos hw] at h; exact ⟨hw, Option.some.inj h⟩
    · rw [if_neg hw] at h; exact absurd h (by simp)
  · intro ⟨hw, hd⟩
    rw [if_pos hw] at h
    rcases C07_total s with ⟨d', hd'⟩ | ⟨e, he⟩
    · rw [hd', acc_ok] at h; rw [hd', hd, Option.some.inj h]
    · rw [he] at h; simp [acc] at h

/-- the value of the decimal as written is the number written (a zero has no sign) -/
theorem litDec_toRat (s : List Char) : (litDec s).toRat = Spec.litValue s := by
  unfold PDec.toRat Spec.litValue litDec
  dsimp only
  by_cases hn : Spec.isNegative s = true
  · by_cases hm : Spec.litMant s = 0
    · simp only [hn, hm, Bool.true_and, bne_self_eq_false, Bool.false_eq_true, if_false, if_true]
      grind
    · simp [hn, hm]
  · simp [hn]

/-! ## Full-strength statements against `Spec/Literal.lean`, and their proofs -/

/-- accepted ⇒ well formed, and value / decimal places / grouping exactly as written -/
def C07_sound_stmt : Prop := ∀ s d, scan s = .ok d →
  Spec.WellFormedLiteral s = true ∧ Spec.Representable s = true ∧ d.toRat = Spec.litValue s ∧ d.scale = Spec.litScale s ∧
  d.fmt = Spec.grouping s
/-- well formed and representable ⇒ accepted -/
def C07_complete_stmt : Prop := ∀ s, Spec.WellFormedLiteral s = true → Spec.Representable s = true → ∃ d, scan s = .ok d
/-- anything else ⇒ an error value -/
def C07_reject_stmt : Prop := ∀ s, ¬ (Spec.WellFormedLiteral s = true ∧ Spec.Representable s = true) → ∃ e, scan s = .err e
/-- printing preserves value, decimal places and (where there is something to group) the grouping style -/
def C07_print_stmt : Prop := ∀ s d, scan s = .ok d →
  ∃ d', scan (printPDec d) = .ok d' ∧ d'.neg = d.neg ∧ d'.mant = d.mant ∧ d'.scale = d.scale ∧
    (d.mant / 10 ^ d.scale ≥ 1000 → d'.fmt = d.fmt)

/-- **C07_sound**: whatever `from_str` accepts is a well-formed literal within range, and the decimal it returns has
exactly the value, the number of decimal places and the grouping style that are written. -/
theorem C07_sound : C07_sound_stmt := by
  intro s d h
  obtain ⟨⟨hw, hr⟩, hd⟩ := (scan_ok_iff s d).mp h
  subst hd
  exact ⟨hw, hr, litDec_toRat s, rfl, rfl⟩

/-- sharper form of soundness: sign and mantissa too (a zero is never negative) -/
theorem C07_sound_fields (s : List Char) (d : PDec) (h : scan s = .ok d) :
    d.mant = Spec.litMant s ∧ d.neg = (Spec.isNegative s && Spec.litMant s != 0) ∧ d.scale = Spec.litScale s ∧
    d.fmt = Spec.grouping s ∧ d.mant < 2 ^ 96 ∧ d.scale ≤ 28 := by
  obtain ⟨⟨_, hr⟩, hd⟩ := (scan_ok_iff s d).mp h
  subst hd
  simp only [Spec.Representable, Bool.and_eq_true, decide_eq_true_eq] at hr
  exact ⟨rfl, rfl, rfl, rfl, hr.2, hr.1⟩

/-- **C07_complete**: every well-formed literal within range is accepted. -/
theorem C07_complete : C07_complete_stmt := by
  intro s hw hr
  exact ⟨litDec s, (scan_ok_iff s _).mpr ⟨⟨hw, hr⟩, rfl⟩⟩

/-- **C07_reject**: everything else — malformed, too large, too precise — is an error value (not a value, not a crash). -/
theorem C07_reject : C07_reject_stmt := by
  intro s h
  apply C07_reject_is_error
  rw [C07_scan_spec, if_neg h]

example : Spec.WellFormedLiteral "-1,234.50".toList = true ∧ Spec.Representable "-1,234.50".toList = true ∧
    litDec "-1,234.50".toList = ⟨true, 123450, 2, some .comma3dot⟩ := by decide +kernel
example : ¬ (Spec.WellFormedLiteral "12,50".toList = true ∧ Spec.Representable "12,50".toList = true) := by decide +kernel
example : Spec.WellFormedLiteral ('1' :: List.replicate 39 '0') = true ∧
    Spec.Representable ('1' :: List.replicate 39 '0') = false := by decide +kernel
example : Spec.WellFormedLiteral "-0.00".toList = true ∧ litDec "-0.00".toList = ⟨false, 0, 2, none⟩ := by decide +kernel

/-- the naive form of the print law (`scan (print d) = d`) is FALSE: a grouped literal below 1000 (`0,123`) prints
without a comma and re-reads without the grouping tag. -/
def C07_print_naive : Prop := ∀ s d, scan s = .ok d → scan (printPDec d) = .ok d

theorem C07_print_naive_false : ¬ C07_print_naive := by
  intro h
  have := h "0,123".toList ⟨false, 123, 0, some .comma3dot⟩ (by decide +kernel)
  revert this
  decide +kernel

/-! ## Non-vacuity: accepted and rejected witnesses through the closed form -/

example : scan "1,234.50".toList = .ok ⟨false, 123450, 2, some .comma3dot⟩ := by decide +kernel
example : scan "-0.05".toList = .ok ⟨true, 5, 2, none⟩ := by decide +kernel
example : scan "12,50".toList = .err (.unexpectedEnd 5) := by decide +kernel
example : scan "1.2.3".toList = .err (.unexpectedChar 3) := by decide +kernel
example : closedForm "1,234.50".toList = some ⟨false, 123450, 2, some .comma3dot⟩ := by decide +kernel
example : closedForm "1,234,56".toList = none := by decide +kernel
example : scan ('1' :: List.replicate 39 '0') = .err .invalidDecimal := by decide +kernel

end Okane.C07
