/-! # C07 — property theorems (stub) -/
