/-! # C13 — property theorems (stub) -/
