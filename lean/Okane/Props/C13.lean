import Okane.Lemmas.C13Perm
import Okane.Lemmas.C13CmdFine
import Okane.Lemmas.CmdTextEq
import Okane.Lemmas.C13FormatImport
import Okane.Lemmas.C13Front
import Okane.Lemmas.C13FrontViseca
import Okane.Lemmas.C13FrontFormatCsv
import Okane.Lemmas.C13FrontCsvFields
/-!
# C13 — same input, same output: runs are deterministic

Rust's `HashMap`/`HashSet` use a per-process random seed, so the order in which a map is iterated differs from
process to process.  In the model a hash map is an association list (`AMap`) whose order *is* the iteration order,
and "the result does not depend on the hash seed" is "the result is the same for every permutation (`List.Perm`) of
the entries".  This file proves that for every place where `core/src/report` iterates a map
(`tools/hash_iter_sites.py` lists them, `corpus/C13/iteration_sites.json` maps each site to the theorem or to the
sort that covers it):

* amount arithmetic: `add_perm`, `sub_perm`, `getPart_add_perm`, `isZero_perm`, `removeZero_perm`, `round_perm`,
  `neg_perm`, `mulScalar_perm`, `toPosting_perm`, `toSingle_perm`, `assertBalance_perm`, `setPartial_perm`;
* `check_balance` / `maybe_pair`: `impliedExchange_perm`, `fillConverted_swap`, `priceRecords_swap`,
  `pushRecords_swap`, `checkBalance_perm`;
* printing: `inlineDisplay_perm` (the repaired `InlinePrintAmount`), `balanceReport_reorder`,
  `accountsReport_perm`, `bkErrText_unbalanced_perm`, `bkErrText_assertion_perm`, `C13_balance_report`;
* negations / witnesses: `inlineDisplayUnsorted_order_dependent` (F13 before its fix), `maybePair_order_dependent`,
  `C13_andElement_false` (F14, still open in the importer).

The end-to-end statements `C13_<command>` are `Prop`s (section EndToEnd); the process-level stream of `bin/check C13`
observes them on the real binary.

Section Commands lifts the per-operation results to the command models (`Lemmas/C13Cmd*.lean`): `st ≈ₚ st'` — the
accumulator of `process` up to the layout of every hash map in it (intern stores, formats, the balance and each of
its amounts, the amounts of the evaluated postings; price events up to the order of their two sides) — is preserved by
`process`, with the same error (`C13_process`, `C13_process_relayout`), and the lines printed by `balance` (whole
history and date ranges, no conversion), `accounts`, `register` are *equal* for related ledgers, so that the text of
each command as a function of the entry list does not depend on any layout (`C13_balance_cmd`, `C13_accounts_cmd`,
`C13_register_cmd`: instances of `C13_balance` / `C13_accounts` / `C13_register`).  With conversion (`-X`, up-to-date
or historical, with date ranges) and for `eval`: the price repositories built from the logged events are the same
maps even when `check_balance` named the sides of an implied exchange in opposite orders (`C13_price_repository`),
`Ledger::balance` / `Ledger::eval` return the same balance / amount or the same error (`C13_balance_query`,
`C13_eval_query`) provided the neighbour order of `compute_price_table` does not depend on the layout of the inner map
(`OrdOK`: true of the sorted order, false of the raw hash order: `ordSorted_ok`, `ordId_not_ok`), hence
`C13_balance_exchange_cmd`, `C13_eval_cmd`.  The `…_fine` versions quantify over re-layouts after every posting as
well (`processScr2`, `C13_process_relayout2`).  `format`, `import` (CSV from its cells, Viseca from the
statement text) and the loader / parser / price-db reader in front of `process` are covered by the sections appended at the end
(`C13_*_file`, `C13_format_file`, `C13_import_viseca`, `C13_import_csv_cells`); camt053 from XML text is not.
-/
set_option linter.unusedSectionVars false
set_option linter.unusedSimpArgs false
namespace Okane.C13
open Okane
variable {κ ν : Type} [DecidableEq κ]


/-! ## Amounts -/
namespace Amount
open Okane.Amount

/-- `get_part` does not depend on the iteration order. -/
theorem getPart_perm {a a' : Amount κ} (h : a.Perm a') (hwf : AMap.WF a) (c : κ) :
    getPart a c = getPart a' c := getPart_ext (Ext.of_perm h hwf) c

/-- **`self += rhs`**: the resulting map does not depend on the iteration order of either operand
(`rhs` is the one that is iterated; it need not even have unique keys). -/
theorem add_perm {a a' b b' : Amount κ} (ha : a.Perm a') (hwf : AMap.WF a) (hb : b.Perm b') :
    Ext (add a b) (add a' b') := by
  have h1 := foldAdd_perm (fun v => v) hb a
  have h2 := foldAdd_ext (fun v => v) b' (Ext.of_perm ha hwf)
  exact h1.trans h2

theorem getPart_add_perm {a a' b b' : Amount κ} (ha : a.Perm a') (hwf : AMap.WF a) (hb : b.Perm b') (c : κ) :
    getPart (add a b) c = getPart (add a' b') c := getPart_ext (add_perm ha hwf hb) c

/-- **`self -= rhs`**. -/
theorem sub_perm {a a' b b' : Amount κ} (ha : a.Perm a') (hwf : AMap.WF a) (hb : b.Perm b') :
    Ext (sub a b) (sub a' b') := by
  have h1 := foldAdd_perm (fun v => -v) hb a
  have h2 := foldAdd_ext (fun v => -v) b' (Ext.of_perm ha hwf)
  exact h1.trans h2

/-- `is_zero` -/
theorem isZero_perm {a a' : Amount κ} (h : a.Perm a') : isZero a = isZero a' := by
  unfold isZero; exact h.all_eq

/-- `is_absolute_zero` -/
theorem isAbsoluteZero_perm {a a' : Amount κ} (h : a.Perm a') : isAbsoluteZero a = isAbsoluteZero a' := by
  unfold isAbsoluteZero
  cases a with
  | nil => simp [List.nil_perm.1 h]
  | cons x xs =>
    cases a' with
    | nil => exact absurd h.symm (by simp)
    | cons y ys => rfl

/-- `remove_zero_entries` (`retain`) -/
theorem removeZero_perm {a a' : Amount κ} (h : a.Perm a') : (removeZero a).Perm (removeZero a') := by
  unfold removeZero AMap.filterVals; exact h.filter _

/-- `round` / `round_mut` -/
theorem round_perm (prec : κ → Option Nat) {a a' : Amount κ} (h : a.Perm a') :
    (round prec a).Perm (round prec a') := by
  unfold round AMap.mapValsK; exact h.map _

/-- `negate` -/
theorem neg_perm {a a' : Amount κ} (h : a.Perm a') : (neg a).Perm (neg a') := by
  unfold neg AMap.mapVals; exact h.map _

/-- `*= rhs` -/
theorem mulScalar_perm (r : Rat) {a a' : Amount κ} (h : a.Perm a') : (mulScalar a r).Perm (mulScalar a' r) := by
  unfold mulScalar AMap.mapVals; exact h.map _

/-- `TryFrom<&Amount> for PostingAmount` -/
theorem toPosting_perm {a a' : Amount κ} (h : a.Perm a') : toPosting a = toPosting a' := by
  by_cases hl : a.length ≤ 1
  · rw [perm_short h hl]
  · have hl' : ¬ a'.length ≤ 1 := by rw [← h.length_eq]; exact hl
    match a, a', hl, hl' with
    | _ :: _ :: _, _ :: _ :: _, _, _ => rfl
    | [], _, h1, _ => simp at h1
    | [_], _, h1, _ => simp at h1
    | _, [], _, h2 => simp at h2
    | _, [_], _, h2 => simp at h2

/-- `TryFrom<&Amount> for SingleAmount` (after fix 778e7a8: more than one entry is an error). -/
theorem toSingle_perm {a a' : Amount κ} (h : a.Perm a') : toSingle a = toSingle a' := by
  by_cases hl : a.length ≤ 1
  · rw [perm_short h hl]
  · have hl' : ¬ a'.length ≤ 1 := by rw [← h.length_eq]; exact hl
    match a, a', hl, hl' with
    | _ :: _ :: _, _ :: _ :: _, _, _ => rfl
    | [], _, h1, _ => simp at h1
    | [_], _, h1, _ => simp at h1
    | _, [], _, h2 => simp at h2
    | _, [_], _, h2 => simp at h2

/-- `assert_balance`: the diff is the same map whichever order the balance is stored in. -/
theorem assertBalance_perm {a a' : Amount κ} (h : a.Perm a') (hwf : AMap.WF a) (e : PostingAmt κ) :
    (assertBalance a e).Perm (assertBalance a' e) := by
  cases e with
  | zero =>
    simp only [assertBalance, isZero_perm h]
    split
    · exact List.Perm.refl _
    · exact neg_perm h
  | single s =>
    simp only [assertBalance, getPart_perm h hwf s.commodity]
    exact List.Perm.refl _

/-- `set_partial`: the previous value is the same, the updated maps agree at every key. -/
theorem setPartial_perm {a a' : Amount κ} (h : a.Perm a') (hwf : AMap.WF a) (s : SingleAmount κ) :
    (setPartial a s).2 = (setPartial a' s).2 ∧ Ext (setPartial a s).1 (setPartial a' s).1 := by
  have hwf' := (WF_perm h).1 hwf
  refine ⟨by simp [setPartial, getPart_perm h hwf], ?_⟩
  intro k
  simp only [setPartial]
  split
  · simp [AMap.get?_erase _ hwf, AMap.get?_erase _ hwf', get?_perm h hwf k]
  · simp [AMap.get?_insert, get?_perm h hwf k]

end Amount

/-! ## `check_balance`: the implied exchange does not depend on which entry `maybe_pair` returns first -/
section Book
variable {α : Type} [DecidableEq α]

/-- for every permutation of the residual: the same pair, possibly swapped. -/
theorem impliedExchange_perm {b b' : Amount κ} (h : b.Perm b') :
    impliedExchange b' = impliedExchange b ∨ impliedExchange b' = (impliedExchange b).map Prod.swap := by
  match b, h with
  | [e1, e2], h =>
    rcases perm_pair h with rfl | rfl
    · exact Or.inl rfl
    · exact Or.inr (impliedExchange_swap e1 e2)
  | [], h => rw [List.nil_perm.1 h]; exact Or.inl rfl
  | [x], h => rw [List.singleton_perm.1 h]; exact Or.inl rfl
  | x :: y :: z :: r, h =>
    have hl := h.length_eq
    match b', hl with
    | _ :: _ :: _ :: _, _ => exact Or.inl (by simp [impliedExchange, Amount.maybePair])

/-- the price event logged for `(a1, a2)` and for `(a2, a1)` push the same two records
(`records[c2][c1] += a2/a1`, `records[c1][c2] += a1/a2`), in the opposite order … -/
theorem priceRecords_swap (d : Date) (x y : SingleAmount κ) :
    (PriceEvent.records ⟨d, y, x⟩) = (PriceEvent.records ⟨d, x, y⟩).reverse := by
  simp [PriceEvent.records]

/-- … and since the two records go to different keys, the repository is the same map either way. -/
theorem pushRecords_swap (repo : AMap (κ × κ) (List (Date × Rat))) (d : Date) (x y : SingleAmount κ)
    (hne : x.commodity ≠ y.commodity) :
    Ext (pushRecords repo (PriceEvent.records ⟨d, y, x⟩)) (pushRecords repo (PriceEvent.records ⟨d, x, y⟩)) := by
  intro k
  have hk : (y.commodity, x.commodity) ≠ (x.commodity, y.commodity) := by
    intro h; exact hne (Prod.mk.inj h).2
  simp only [PriceEvent.records, pushRecords, AMap.get?_insert]
  by_cases h1 : (x.commodity, y.commodity) = k <;> by_cases h2 : (y.commodity, x.commodity) = k
  · exact absurd (h2.trans h1.symm) hk
  · simp [h1, h2]
  · simp [h1, h2]
  · simp [h1, h2]

/-- **`check_balance` is independent of the hash order of the residual.** -/
theorem checkBalance_perm (prec : κ → Option Nat) (date : Date) (ps : List (OutPosting α κ))
    {bal bal' : Amount κ} (h : bal.Perm bal') (hwf : AMap.WF bal) :
    CBSame (checkBalance prec date ps bal) (checkBalance prec date ps bal') := by
  have hr := Amount.round_perm prec h
  have hwfr : AMap.WF (Okane.Amount.round prec bal) := AMap.WF_mapValsK _ _ hwf
  have key := cbTail_perm date ps hr hwfr
  simp only [checkBalance, Amount.isZero_perm hr]
  split
  · simp [CBSame]
  · exact key

end Book

/-! ## What is printed: every report sorts before it writes -/
section Display
variable {α : Type} [DecidableEq α]

/-- **the printed form of an amount is the same for every iteration order** (model of the repaired
`InlinePrintAmount`). -/
theorem inlineDisplay_perm {le : κ → κ → Bool} (ho : KeyOrder le) (showEntry : κ → ν → String)
    {a a' : AMap κ ν} (h : a.Perm a') (hwf : AMap.WF a) :
    Okane.Amount.inlineDisplay le showEntry a = Okane.Amount.inlineDisplay le showEntry a' := by
  by_cases hl : a.length ≤ 1
  · rw [perm_short h hl]
  · have hl' : ¬ a'.length ≤ 1 := by rw [← h.length_eq]; exact hl
    match a, a', hl, hl', h, hwf with
    | x :: y :: r, x' :: y' :: r', _, _, h, hwf =>
      simp only [Okane.Amount.inlineDisplay, sortByKey_perm ho h hwf]
    | [], _, h1, _, _, _ => simp at h1
    | [_], _, h1, _, _, _ => simp at h1
    | _, [], _, h2, _, _ => simp at h2
    | _, [_], _, h2, _, _ => simp at h2

/-- every amount of the balance has distinct commodities (and the accounts are distinct). -/
def BalWF (b : Balance α κ) : Prop := AMap.WF b ∧ ∀ kv ∈ b, AMap.WF kv.2

/-- **`okane balance` prints the same lines for every internal order of the balance**: the accounts may be
stored in any order (`hperm`), and every account's amount in any order of its commodities (`ρ`, an arbitrary
re-ordering per account). -/
theorem balanceReport_reorder {leA : α → α → Bool} {leK : κ → κ → Bool} (hoA : KeyOrder leA) (hoK : KeyOrder leK)
    (showAcct : α → String) (showEntry : κ → Rat → String) {b mid : Balance α κ}
    (hperm : b.Perm mid) (hwf : BalWF b) (ρ : α → Amount κ → Amount κ) (hρ : ∀ k a, (ρ k a).Perm a) :
    balanceReport leA leK showAcct showEntry (mid.map fun kv => (kv.1, ρ kv.1 kv.2)) =
      balanceReport leA leK showAcct showEntry b := by
  unfold balanceReport
  have hsort : sortByKey leA (mid.map fun kv => (kv.1, ρ kv.1 kv.2)) =
      (sortByKey leA mid).map fun kv => (kv.1, ρ kv.1 kv.2) := by
    unfold sortByKey
    exact (List.map_mergeSort (r := fun x y : α × Amount κ => leA x.1 y.1)
      (s := fun x y : α × Amount κ => leA x.1 y.1) (f := fun kv => (kv.1, ρ kv.1 kv.2))
      (fun a _ b _ => rfl)).symm
  rw [hsort, ← sortByKey_perm hoA hperm hwf.1, List.map_map]
  apply List.map_congr_left
  intro kv hkv
  have hmem : kv ∈ b := (List.mergeSort_perm b _).subset hkv
  have hw : AMap.WF kv.2 := hwf.2 kv hmem
  simp only [Function.comp]
  rw [inlineDisplay_perm hoK showEntry (hρ kv.1 kv.2).symm hw]

/-- `okane accounts`: the sorted list of canonical names does not depend on the order of the intern store. -/
theorem accountsReport_perm {le : String → String → Bool} (ho : KeyOrder le)
    {recs recs' : AMap String (Option String)} (h : recs.Perm recs') (hwf : AMap.WF recs) :
    accountsReport le recs = accountsReport le recs' := by
  unfold accountsReport
  have hp : ((recs.filter fun kv => kv.2.isNone).map Prod.fst).Perm ((recs'.filter fun kv => kv.2.isNone).map Prod.fst) :=
    (h.filter _).map _
  have hnd : ((recs.filter fun kv => kv.2.isNone).map Prod.fst).Nodup := by
    have : ((recs.filter fun kv => kv.2.isNone).map Prod.fst).Sublist (recs.map Prod.fst) :=
      List.Sublist.map _ List.filter_sublist
    exact this.nodup hwf
  have s1 := List.pairwise_mergeSort (le := le) ho.trans ho.total ((recs.filter fun kv => kv.2.isNone).map Prod.fst)
  have s2 := List.pairwise_mergeSort (le := le) ho.trans ho.total ((recs'.filter fun kv => kv.2.isNone).map Prod.fst)
  refine List.Perm.eq_of_pairwise (le := fun a b => le a b = true) ?_ s1 s2
    ((List.mergeSort_perm _ _).trans (hp.trans (List.mergeSort_perm _ _).symm))
  intro a b _ _ hab hba
  exact ho.antisymm a b hab hba

/-- the text of a book-keeping error carrying amounts (`unbalanced postings: …`, assertion failures) is the
same for every order of those amounts. -/
theorem bkErrText_unbalanced_perm {leK : κ → κ → Bool} (hoK : KeyOrder leK) (showEntry : κ → Rat → String)
    {r r' : Amount κ} (h : r.Perm r') (hwf : AMap.WF r) :
    bkErrText leK showEntry (.unbalanced r) = bkErrText leK showEntry (.unbalanced r') := by
  have e := inlineDisplay_perm hoK showEntry h hwf
  show "unbalanced postings: " ++ Okane.Amount.inlineDisplay leK showEntry r =
    "unbalanced postings: " ++ Okane.Amount.inlineDisplay leK showEntry r'
  rw [e]

theorem bkErrText_assertion_perm {leK : κ → κ → Bool} (hoK : KeyOrder leK) (showEntry : κ → Rat → String) (i : Nat)
    {c c' d d' : Amount κ} (hc : c.Perm c') (hwc : AMap.WF c) (hd : d.Perm d') (hwd : AMap.WF d) :
    bkErrText leK showEntry (.assertionFailure i c d) = bkErrText leK showEntry (.assertionFailure i c' d') := by
  have e1 := inlineDisplay_perm hoK showEntry hc hwc
  have e2 := inlineDisplay_perm hoK showEntry hd hwd
  show "balance assertion failed at posting " ++ toString i ++ ": computed " ++
      Okane.Amount.inlineDisplay leK showEntry c ++ " diff " ++ Okane.Amount.inlineDisplay leK showEntry d =
    "balance assertion failed at posting " ++ toString i ++ ": computed " ++
      Okane.Amount.inlineDisplay leK showEntry c' ++ " diff " ++ Okane.Amount.inlineDisplay leK showEntry d'
  rw [e1, e2]

end Display

/-! ## Orders used by the driver and by the examples -/

/-! ## Non-vacuity: the hypotheses are met by non-trivial concrete states, and the conclusions are not
trivially true (the raw operations *are* order-sensitive) -/
section Examples

def showNat (c : Nat) (v : Rat) : String := toString v ++ " C" ++ toString c
def showNat' (c : String) (v : Rat) : String := toString v ++ " " ++ c

private def a3 : Amount Nat := [(2, 10), (1, -3), (3, 5)]
private def a3' : Amount Nat := [(3, 5), (2, 10), (1, -3)]
private theorem a3_perm : a3.Perm a3' := by decide
private theorem a3_wf : AMap.WF a3 := by simp [AMap.WF, AMap.keys, a3]

example : Okane.Amount.inlineDisplay (fun a b : Nat => decide (a ≤ b)) showNat a3 =
    Okane.Amount.inlineDisplay (fun a b : Nat => decide (a ≤ b)) showNat a3' :=
  inlineDisplay_perm keyOrder_nat showNat a3_perm a3_wf

example : ∀ c, Okane.Amount.getPart (Okane.Amount.add a3 a3') c = Okane.Amount.getPart (Okane.Amount.add a3' a3) c :=
  fun c => Amount.getPart_add_perm a3_perm a3_wf a3_perm.symm c

/-- the unsorted printer (the code before fix 9572056) is **not** order-independent: F13's witness. -/
theorem inlineDisplayUnsorted_order_dependent :
    ¬ ∀ (a a' : Amount Nat), a.Perm a' → AMap.WF a →
        Okane.Amount.inlineDisplayUnsorted showNat a = Okane.Amount.inlineDisplayUnsorted showNat a' := by
  intro h
  have := h [(1, 1), (2, 2)] [(2, 2), (1, 1)] (by decide) (by simp [AMap.WF, AMap.keys])
  revert this
  decide

/-- `maybe_pair` itself is order-sensitive (so `checkBalance_perm` says something). -/
theorem maybePair_order_dependent :
    ∃ b b' : Amount Nat, b.Perm b' ∧ AMap.WF b ∧ Okane.Amount.maybePair b ≠ Okane.Amount.maybePair b' :=
  ⟨[(1, 5), (2, -7)], [(2, -7), (1, 5)], by decide, by simp [AMap.WF, AMap.keys], by decide +kernel⟩

/-- a residual `5 C1 − 7 C2` is an implied exchange in both orders, with swapped roles. -/
example : impliedExchange ([(1, 5), (2, -7)] : Amount Nat) = some (⟨5, 1⟩, ⟨-7, 2⟩) ∧
    impliedExchange ([(2, -7), (1, 5)] : Amount Nat) = some (⟨-7, 2⟩, ⟨5, 1⟩) := by
  constructor <;> decide +kernel

example : CBSame (α := Nat)
    (checkBalance (fun _ => none) ⟨2024, 1, 1⟩ [⟨7, [(1, 5)], none⟩, ⟨8, [(2, -7)], none⟩] [(1, 5), (2, -7)])
    (checkBalance (fun _ => none) ⟨2024, 1, 1⟩ [⟨7, [(1, 5)], none⟩, ⟨8, [(2, -7)], none⟩] [(2, -7), (1, 5)]) :=
  checkBalance_perm _ _ _ (by decide) (by simp [AMap.WF, AMap.keys])

end Examples

/-! ## Rewrite rules: the AND-element of a matcher is folded in the hash order of its fields (F14)

`MatchAndExpr::extract` is `matchers.iter().try_fold(current, |prev, m| m.captures(&prev, entity).map(|c| prev + c))`
and `matchers` is built from `FieldMatcher.fields : HashMap<RewriteField, String>` in iteration order.  Abstractly a
matcher reads the payee captured so far and either fails or yields a new capture. -/
section AndElement

/-- what C13 needs of an AND element. -/
def C13_andElement : Prop := ∀ (ms ms' : List FieldM) (cur : Option String), ms.Perm ms' → andFold ms cur = andFold ms' cur

/-- **F14**: it does not hold — the element `{creditor_name: (?P<payee>.*), payee: ACME}` matches in one order and
not in the other (the real binary shows both behaviours across processes; witness in known_findings.json). -/
theorem C13_andElement_false : ¬ C13_andElement := by
  intro h
  have := h [captureCreditor, matchPayee] [matchPayee, captureCreditor] none (List.Perm.swap _ _ _)
  revert this
  decide

/-- what does hold: elements whose matchers neither read nor write the shared capture commute. -/
theorem andFold_perm_of_independent {ms ms' : List FieldM} (h : ms.Perm ms')
    (hind : ∀ m ∈ ms, ∃ ok : Bool, ∀ cur, m cur = if ok then some none else none) (cur : Option String) :
    andFold ms cur = andFold ms' cur := by
  induction h generalizing cur with
  | nil => rfl
  | @cons x l₁ l₂ _ ih =>
    obtain ⟨ok, hx⟩ := hind x (by simp)
    simp only [andFold, hx]
    cases ok
    · simp
    · simp only [if_true]
      exact ih (fun m hm => hind m (List.mem_cons_of_mem _ hm)) _
  | swap x y l =>
    obtain ⟨okx, hx⟩ := hind x (by simp)
    obtain ⟨oky, hy⟩ := hind y (by simp)
    simp only [andFold, hx, hy]
    cases okx <;> cases oky <;> simp [Option.orElse]
  | @trans l₁ l₂ l₃ h1 _ ih1 ih2 =>
    rw [ih1 hind, ih2 (fun m hm => hind m (h1.symm.subset hm))]

example : andFold [fun _ => some none, fun _ => some none] (some "x") = some (some "x") := by decide

end AndElement

/-! ## The end-to-end statements

`cmd π x`: the text (stdout, or the error text) the command prints for input `x` when the hash maps it builds iterate
in the orders `π`.  In the Rust every map is a `HashMap` with a per-process random seed, so a fresh process is a fresh
`π`.  The statement of C13 for a command is `Deterministic cmd`.  It is proved above for the layers whose models are
complete (amount arithmetic, `check_balance`, the printed form of amounts, the `balance` lines, the `accounts` list,
error texts carrying amounts); for whole commands the supporting models (loader, parser, price repository, importer)
are other properties' models, so the statements are recorded here as `Prop`s and the real binary is *observed*
(N fresh processes per input, byte-identical stdout / stderr / exit status) by the check's process-level stream.
Section Commands below proves the instances of `C13_balance`, `C13_balance_exchange`, `C13_accounts`, `C13_register`
and `C13_eval` in which the command is the book-keeping model followed by the report model and the orders are the
layout histories of all its hash maps. -/
section EndToEnd
variable {Orders Input Output : Type}

def Deterministic (cmd : Orders → Input → Output) : Prop := ∀ π₁ π₂ x, cmd π₁ x = cmd π₂ x

def C13_format (cmd : Orders → Input → Output) : Prop := Deterministic cmd
def C13_accounts (cmd : Orders → Input → Output) : Prop := Deterministic cmd
def C13_balance (cmd : Orders → Input → Output) : Prop := Deterministic cmd
def C13_balance_exchange (cmd : Orders → Input → Output) : Prop := Deterministic cmd
def C13_register (cmd : Orders → Input → Output) : Prop := Deterministic cmd
def C13_eval (cmd : Orders → Input → Output) : Prop := Deterministic cmd
def C13_import (cmd : Orders → Input → Output) : Prop := Deterministic cmd

/-- a command whose only use of the orders is to re-order a balance before `balanceReport` is deterministic:
the instance of `C13_balance` that the models above support (orders = an account permutation and a per-account
commodity re-ordering; input = the balance computed by book-keeping). -/
theorem C13_balance_report {α κ : Type} [DecidableEq α] [DecidableEq κ]
    {leA : α → α → Bool} {leK : κ → κ → Bool} (hoA : KeyOrder leA) (hoK : KeyOrder leK)
    (showAcct : α → String) (showEntry : κ → Rat → String) :
    C13_balance (Orders := { p : (Balance α κ → Balance α κ) × (α → Amount κ → Amount κ) //
                              (∀ b, (p.1 b).Perm b) ∧ ∀ k a, (p.2 k a).Perm a })
      (Input := { b : Balance α κ // BalWF b })
      (fun π b => balanceReport leA leK showAcct showEntry ((π.1.1 b.1).map fun kv => (kv.1, π.1.2 kv.1 kv.2))) := by
  intro π₁ π₂ b
  simp only []
  rw [balanceReport_reorder hoA hoK showAcct showEntry (π₁.2.1 b.1).symm b.2 π₁.1.2 π₁.2.2,
      balanceReport_reorder hoA hoK showAcct showEntry (π₂.2.1 b.1).symm b.2 π₂.1.2 π₂.2.2]

end EndToEnd

/-! ## Commands: book-keeping and the reports on the command models

`st ≈ₚ st'` (`ProcEq`): the two accumulators of `process` are the same up to the order of the entries of every hash map
they contain.  `≈ₘ` is the relation on one map, `≈ᵦ` on a map of maps (the balance), `ErrEq` on book-keeping errors
(the amounts an error carries are the same maps), `ORel` on outcomes (same constructor, related payload, same panic
site).  The lemmas are in `Lemmas/C13CmdBase.lean` (amounts, evaluated values), `C13CmdBook.lean` (`process_posting`,
`check_balance`, `add_transaction`), `C13CmdProcess.lean` (intern stores, evaluation, `process`), `C13CmdReport.lean`
(the reports). -/
section Commands

/-- **C13_process.**  Book-keeping of an entry list maps related accumulators to related accumulators; when it
fails, it fails at the same entry with the same error (up to the layout of the amounts in it); it reaches the same
panic site / runs out of fuel in both runs or in neither. -/
theorem C13_process (es : List Entry) {st st' : ProcState} (h : st ≈ₚ st') (i : Nat) :
    ORel PErrEq ProcEq (processFrom st i es) (processFrom st' i es) := processFrom_meq es h i

/-- … and the message of that error is the same text. -/
theorem C13_process_error_text {leK : String → String → Bool} (hoK : KeyOrder leK) (showEntry : String → Rat → String)
    (es : List Entry) {st st' : ProcState} (h : st ≈ₚ st') (i : Nat) {x x' : Nat × BkErrS}
    (hx : processFrom st i es = .err x) (hx' : processFrom st' i es = .err x') :
    x.1 = x'.1 ∧ bkErrText leK showEntry x.2 = bkErrText leK showEntry x'.2 := by
  have := C13_process es h i
  rw [hx, hx'] at this
  exact ⟨this.1, this.2.text hoK showEntry⟩

/-- one entry (`ProcessAccumulator::process`), one transaction (`add_transaction`), one posting
(`process_posting` after evaluation), `check_balance`, and evaluation (`eval_mut`) separately. -/
theorem C13_stepEntry {st st' : ProcState} (h : st ≈ₚ st') (e : Entry) :
    ORel ErrEq ProcEq (stepEntry st e) (stepEntry st' e) := stepEntry_meq h e

theorem C13_addTransaction {c c' : Ctx} (hc : CtxEq c c') {bal bal' : Balance String String} (hb : bal ≈ᵦ bal')
    (t : Transaction) : ORel ErrEq CtxRes (addTransactionSyntax c bal t) (addTransactionSyntax c' bal' t) :=
  addTransactionSyntax_meq hc hb t

theorem C13_addTransaction_resolved {α κ : Type} [DecidableEq α] [DecidableEq κ] (prec : κ → Option Nat)
    {bal bal' : Balance α κ} (h : bal ≈ᵦ bal') (t : RTxn α κ) :
    ORel ErrEq TxnResEq (addTransaction prec bal t) (addTransaction prec bal' t) := addTransaction_meq prec h t

theorem C13_processPosting {α κ : Type} [DecidableEq α] [DecidableEq κ] {bal bal' : Balance α κ} (h : bal ≈ᵦ bal')
    (date : Date) (idx : Nat) (p : RPosting α κ) :
    ORel ErrEq PPRel (processPosting bal date idx p) (processPosting bal' date idx p) :=
  processPosting_meq h date idx p

theorem C13_checkBalance {α κ : Type} [DecidableEq α] [DecidableEq κ] (prec : κ → Option Nat) (date : Date)
    {ps ps' : List (OutPosting α κ)} (hps : PostsEq ps ps') {bal bal' : Amount κ} (h : bal ≈ₘ bal') :
    ORel ErrEq CBRel (checkBalance prec date ps bal) (checkBalance prec date ps' bal') :=
  checkBalance_meq prec date hps h

theorem C13_evalMut (e : VExpr) {s s' : Store} (h : StoreEq s s') :
    ORel (· = ·) EvStore (evalMut s e) (evalMut s' e) := evalMut_meq e h

/-- **C13_process with explicit layouts.**  `processScr π` is `process` in which every hash map of the accumulator is
laid out afresh (`π i`) after entry `i`; for any two layout histories the results are related and the errors the
same. -/
theorem C13_process_relayout {π₁ π₂ : Nat → ProcState → ProcState} (h1 : Relayout π₁) (h2 : Relayout π₂)
    (es : List Entry) :
    ORel PErrEq ProcEq (processScr π₁ {} 0 es) (processScr π₂ {} 0 es) := processScr_meq h1 h2 es ProcEq.init 0

/-- the reports of two related ledgers are equal, line by line. -/
theorem C13_balance_lines {leA leK : String → String → Bool} (hoA : KeyOrder leA) (hoK : KeyOrder leK)
    (showAcct : String → String) (showEntry : String → Rat → String) (r : DateRange) {st st' : ProcState}
    (h : st ≈ₚ st') :
    balanceLines leA leK showAcct showEntry r st = balanceLines leA leK showAcct showEntry r st' :=
  balanceLines_meq hoA hoK showAcct showEntry r h

theorem C13_accounts_lines {leA : String → String → Bool} (hoA : KeyOrder leA) {st st' : ProcState} (h : st ≈ₚ st') :
    accountsLines leA st = accountsLines leA st' := accountsLines_meq hoA h

theorem C13_register_lines {leK : String → String → Bool} (hoK : KeyOrder leK) (showAcct : String → String)
    (showEntry : String → Rat → String) (acct : Option String) {st st' : ProcState} (h : st ≈ₚ st') :
    registerLines leK showAcct showEntry acct st = registerLines leK showAcct showEntry acct st' :=
  registerLines_meq hoK showAcct showEntry acct h

/-- **C13_balance_cmd**: `okane balance` (whole history or `--start` … `--end`, no `-X`) on the model — the lines on
success, the entry index and message on failure — is a function of the entry list: an instance of `C13_balance`
with the layout history as the orders. -/
theorem C13_balance_cmd {leA leK : String → String → Bool} (hoA : KeyOrder leA) (hoK : KeyOrder leK)
    (showAcct : String → String) (showEntry : String → Rat → String) (r : DateRange) :
    C13_balance (Orders := { π : Nat → ProcState → ProcState // Relayout π }) (Input := List Entry)
      (fun π es => balanceCmd leA leK showAcct showEntry r π.1 es) :=
  fun π₁ π₂ es => balanceCmd_det hoA hoK showAcct showEntry r π₁.2 π₂.2 es

/-- **C13_accounts_cmd**: `okane accounts` (`report::accounts`: intern the account of every posting, print
`all_accounts()` — no book-keeping) as a function of the layout history of the intern store. -/
theorem C13_accounts_cmd {leA : String → String → Bool} (hoA : KeyOrder leA) :
    C13_accounts (Orders := { σ : Nat → Store → Store // StoreRelayout σ }) (Input := List Entry)
      (fun σ es => accountsScanCmd leA σ.1 es) :=
  fun σ₁ σ₂ es => accountsScanCmd_det hoA σ₁.2 σ₂.2 es

/-- the account list of the *processed* ledger (`ctx.all_accounts()` after `process`, declarations included). -/
theorem C13_accounts_processed_cmd {leA leK : String → String → Bool} (hoA : KeyOrder leA) (hoK : KeyOrder leK)
    (showEntry : String → Rat → String) :
    C13_accounts (Orders := { π : Nat → ProcState → ProcState // Relayout π }) (Input := List Entry)
      (fun π es => accountsCmd leA leK showEntry π.1 es) :=
  fun π₁ π₂ es => accountsCmd_det hoA hoK showEntry π₁.2 π₂.2 es

/-- **C13_register_cmd** -/
theorem C13_register_cmd {leK : String → String → Bool} (hoK : KeyOrder leK) (showAcct : String → String)
    (showEntry : String → Rat → String) (acct : Option String) :
    C13_register (Orders := { π : Nat → ProcState → ProcState // Relayout π }) (Input := List Entry)
      (fun π es => registerCmd leK showAcct showEntry acct π.1 es) :=
  fun π₁ π₂ es => registerCmd_det hoK showAcct showEntry acct π₁.2 π₂.2 es

/-! ### non-vacuity: a ledger with three commodities in one account, an omitted posting, an alias and a format;
two layout histories (`id`, "reverse every map after every entry") that really produce different accumulators -/

private def mkAmt (v : Int) (c : String) : VExpr := .amt ⟨decide (v < 0), v.natAbs, 0, none⟩ c
private def post (a : String) (v : Int) (c : String) : Posting := { account := a, amount := some { amount := mkAmt v c } }
def exLedger : List Entry :=
  [ .commodity "USD" [.format ⟨false, 100, 2, none⟩ "USD"],
    .account "Equity:Opening" [.alias "EO"],
    .txn { date := ⟨2024, 1, 1⟩, posts :=
      [post "Assets:Bank" 100 "USD", post "Assets:Bank" 200 "EUR", post "Assets:Broker" 3 "ACME", { account := "EO" }] },
    .txn { date := ⟨2024, 1, 2⟩, posts := [post "Expenses:Food" 10 "USD", post "Assets:Bank" (-10) "USD"] } ]

def πid : { π : Nat → ProcState → ProcState // Relayout π } := ⟨fun _ st => st, relayout_id⟩
def πrev : { π : Nat → ProcState → ProcState // Relayout π } := ⟨fun _ st => relayoutRev st, relayout_rev⟩

/-- the two runs succeed and end with different lists for the balance (so `≈ₚ` is not `=` here) … -/
example : (match processScr πid.1 {} 0 exLedger, processScr πrev.1 {} 0 exLedger with
    | .ok st, .ok st' => decide (st.bal ≠ st'.bal ∧ st.bal.length = 4) | _, _ => false) = true := by decide +kernel

/- … are related … (`processScr` is sealed here only to keep the elaborator from evaluating the run when it
normalises the statement) -/
attribute [local irreducible] processScr in
example : ORel PErrEq ProcEq (processScr πid.1 {} 0 exLedger) (processScr πrev.1 {} 0 exLedger) :=
  C13_process_relayout (π₁ := πid.1) (π₂ := πrev.1) πid.2 πrev.2 exLedger

/-- … and print the same. -/
example : balanceCmd (fun a b => decide (a ≤ b)) (fun a b => decide (a ≤ b)) id showNat' {} πid.1 exLedger =
    balanceCmd (fun a b => decide (a ≤ b)) (fun a b => decide (a ≤ b)) id showNat' {} πrev.1 exLedger :=
  balanceCmd_det (π₁ := πid.1) (π₂ := πrev.1) keyOrder_string keyOrder_string id showNat' {} πid.2 πrev.2 exLedger

example : registerCmd (fun a b => decide (a ≤ b)) id showNat' (some "Assets:Bank") πid.1 exLedger =
    registerCmd (fun a b => decide (a ≤ b)) id showNat' (some "Assets:Bank") πrev.1 exLedger :=
  registerCmd_det (π₁ := πid.1) (π₂ := πrev.1) keyOrder_string id showNat' _ πid.2 πrev.2 exLedger

example : accountsScanCmd (fun a b => decide (a ≤ b)) (fun _ s => s) exLedger =
    accountsScanCmd (fun a b => decide (a ≤ b)) (fun _ s => ⟨s.recs.reverse⟩) exLedger :=
  accountsScanCmd_det keyOrder_string storeRelayout_id storeRelayout_rev exLedger

/-- the two scans really end with different record lists (4 accounts). -/
example : decide ((accountsScr (fun _ s => s) {} 0 exLedger).recs ≠
    (accountsScr (fun _ s => ⟨s.recs.reverse⟩) {} 0 exLedger).recs ∧
    (accountsScr (fun _ s => s) {} 0 exLedger).recs.length = 4) = true := by decide +kernel

example : accountsCmd (fun a b => decide (a ≤ b)) (fun a b => decide (a ≤ b)) showNat' πid.1 exLedger =
    accountsCmd (fun a b => decide (a ≤ b)) (fun a b => decide (a ≤ b)) showNat' πrev.1 exLedger :=
  accountsCmd_det (π₁ := πid.1) (π₂ := πrev.1) keyOrder_string keyOrder_string showNat' πid.2 πrev.2 exLedger

/-- an unbalanced three-commodity transaction is rejected in both runs with related residuals (same text). -/
def exBad : List Entry :=
  [ .txn { date := ⟨2024, 1, 1⟩, posts := [post "A" 1 "USD", post "B" 2 "EUR", post "C" 3 "CHF"] } ]

example : (match processScr πrev.1 {} 0 exBad with
    | .err (0, .unbalanced r) => decide (r.length = 3) | _ => false) = true := by decide +kernel

attribute [local irreducible] processScr in
example : ORel PErrEq ProcEq (processScr πid.1 {} 0 exBad) (processScr πrev.1 {} 0 exBad) :=
  C13_process_relayout (π₁ := πid.1) (π₂ := πrev.1) πid.2 πrev.2 exBad

/-- `≈ₘ` and `≈ᵦ` relate genuinely different lists. -/
example : ([(2, 10), (1, -3), (3, 5)] : Amount Nat) ≈ₘ [(3, 5), (2, 10), (1, -3)] :=
  ⟨by simp [AMap.WF, AMap.keys], by decide⟩

example : ([(7, [(2, 10), (1, -3)]), (8, [(3, 5)])] : Balance Nat Nat) ≈ᵦ [(8, [(3, 5)]), (7, [(1, -3), (2, 10)])] := by
  refine ⟨by simp [AMap.WF, AMap.keys], by simp [AMap.WF, AMap.keys], fun a => ?_⟩
  by_cases h7 : 7 = a
  · subst h7
    exact ⟨by simp [AMap.WF, AMap.keys], by decide⟩
  · by_cases h8 : 8 = a
    · subst h8; exact ⟨by simp [AMap.WF, AMap.keys], by decide⟩
    · simp [AMap.get?, h7, h8, OptRel]

/-! ### with commodity conversion -/
open Okane.Price Okane.Query

/-- **C13_price_repository.**  The repository built from the price events two runs logged (the same events, each
possibly with its two sides exchanged) and the same price-db events is the same map of maps. -/
theorem C13_price_repository {κ : Type} [DecidableEq κ] {evs evs' db db' : List (PriceEvent κ)}
    (he : LRel PEvEq evs evs') (hd : LRel PEvEq db db') :
    ORel (· = ·) RepoEq (buildFrom evs db) (buildFrom evs' db') := buildFrom_meq he hd

/-- the heart of it: `insert_price(x, y)` and `insert_price(y, x)` leave the same repository. -/
theorem C13_insertPrice_swap {κ : Type} [DecidableEq κ] {b : Builder κ} (h : RepoEq b b) (src : Source) (date : Date)
    (x y : SingleAmount κ) (hne : x.commodity ≠ y.commodity) :
    ORel (· = ·) RepoEq (insertPrice b src ⟨date, x, y⟩) (insertPrice b src ⟨date, y, x⟩) :=
  insertPrice_swap h src date x y hne

/-- **`convert_amount`**: the same outcome for the same amount against the same repository. -/
theorem C13_convertAmount {κ : Type} [DecidableEq κ] {cfg : Cfg κ} (hord : OrdOK cfg.ord) {repo repo' : Builder κ}
    (h : RepoEq repo repo') {leK : κ → κ → Bool} (hoK : KeyOrder leK) {a a' : Amount κ} (ha : a ≈ₘ a') (T : κ)
    (date : Date) : convertAmount cfg repo leK a T date = convertAmount cfg repo' leK a' T date :=
  convertAmount_meq hord h hoK ha T date

/-- **C13_balance_query.**  `Ledger::balance` (no conversion / up-to-date / historical, any date range) on related
ledgers and repositories: the same balance, or the same error. -/
theorem C13_balance_query {α κ : Type} [DecidableEq α] [DecidableEq κ] (prec : κ → Option Nat) {env env' : Env α κ}
    (he : EnvEq env env') (hok : EnvOK env) {txns txns' : List (OutTxn α κ)} (ht : LRel TxnEq txns txns')
    {raw raw' : Balance α κ} (hr : raw ≈ᵦ raw') (q : BalanceQuery κ) :
    ORel (· = ·) (· ≈ᵦ ·) (Query.balance prec env txns raw q) (Query.balance prec env' txns' raw' q) :=
  balance_meq prec he hok ht hr q

/-- **C13_eval_query.**  `Ledger::eval`. -/
theorem C13_eval_query {env env' : Env String String} (he : EnvEq env env') (hok : EnvOK env) {s s' : Store}
    (hs : StoreEq s s') (expr : VExpr) (date : Date) (exchange : Option String) :
    ORel (· = ·) (· ≈ₘ ·) (Query.eval env s expr date exchange) (Query.eval env' s' expr date exchange) :=
  eval_meq he hok hs expr date exchange

/-- **C13_balance_exchange_cmd**: `okane balance` with every option (`-X`, `--historical`, `--now`, `--start`,
`--end`, a price db) on the model is a function of its inputs: an instance of `C13_balance_exchange`.  `cfg.pick`
(the heap's pop order) is any function of the queue; `cfg.ord` any neighbour order that does not depend on the layout
of the inner map. -/
theorem C13_balance_exchange_cmd {cfg : Cfg String} (hord : OrdOK cfg.ord) {leA leK : String → String → Bool}
    (hoA : KeyOrder leA) (hoK : KeyOrder leK) (showAcct : String → String) (showEntry : String → Rat → String) :
    C13_balance_exchange (Orders := { π : Nat → ProcState → ProcState // Relayout π })
      (Input := List Entry × List (PriceEvent String) × BalOpts)
      (fun π x => balanceXCmd cfg leA leK showAcct showEntry π.1 x) :=
  fun π₁ π₂ x => balanceXCmd_det hord hoA hoK showAcct showEntry π₁.2 π₂.2 x

/-- **C13_eval_cmd**: `okane primitive eval`. -/
theorem C13_eval_cmd {cfg : Cfg String} (hord : OrdOK cfg.ord) {leA leK : String → String → Bool}
    (hoA : KeyOrder leA) (hoK : KeyOrder leK) (showEntry : String → Rat → String) :
    C13_eval (Orders := { π : Nat → ProcState → ProcState // Relayout π }) (Input := EvalIn)
      (fun π x => evalCmd cfg leA leK showEntry π.1 x) :=
  fun π₁ π₂ x => evalCmd_det hord hoA hoK showEntry π₁.2 π₂.2 x

/-- the neighbour order in use since fix b2e85da (the driver's `ordSorted`) satisfies the hypothesis … -/
theorem ordSorted_string_ok : OrdOK (κ := String) (fun _ l => isortBy (fun a b => decide (a.1 ≤ b.1)) l) :=
  ordSorted_ok keyOrder_string

/-- … the raw hash order (the code before that fix) does not. -/
theorem ordId_not_ok : ¬ OrdOK (κ := Nat) (fun _ l => l) := by
  intro h
  have := h 0 [(1, ⟨.ledger, []⟩), (2, ⟨.ledger, []⟩)] [(2, ⟨.ledger, []⟩), (1, ⟨.ledger, []⟩)]
    ⟨by simp [AMap.WF, AMap.keys], List.Perm.swap _ _ _⟩
  simp at this

/-! non-vacuity: a ledger whose second transaction implies an exchange (10 ACME against 1000 USD); the reversed run
logs the price event with its sides exchanged, and the two runs print the same converted balance. -/
def exLedgerX : List Entry :=
  exLedger ++ [ .txn { date := ⟨2024, 1, 5⟩, posts := [post "Assets:Broker" 10 "ACME", post "Assets:Bank" (-1000) "USD"] } ]

def cfgSorted : Cfg String := ⟨64, fun _ _ _ _ => 0, fun _ l => isortBy (fun a b => decide (a.1 ≤ b.1)) l⟩

example : (match processScr πid.1 {} 0 exLedgerX, processScr πrev.1 {} 0 exLedgerX with
    | .ok st, .ok st' => decide (st.events.map (·.x.commodity) = ["ACME"] ∧ st'.events.map (·.x.commodity) = ["USD"])
    | _, _ => false) = true := by decide +kernel

example : balanceXCmd cfgSorted (fun a b => decide (a ≤ b)) (fun a b => decide (a ≤ b)) id showNat' πid.1
      (exLedgerX, [], { exchange := some "USD", now := ⟨2024, 2, 1⟩ }) =
    balanceXCmd cfgSorted (fun a b => decide (a ≤ b)) (fun a b => decide (a ≤ b)) id showNat' πrev.1
      (exLedgerX, [], { exchange := some "USD", now := ⟨2024, 2, 1⟩ }) :=
  balanceXCmd_det (π₁ := πid.1) (π₂ := πrev.1) ordSorted_string_ok keyOrder_string keyOrder_string id showNat'
    πid.2 πrev.2 _

example : evalCmd cfgSorted (fun a b => decide (a ≤ b)) (fun a b => decide (a ≤ b)) showNat' πid.1
      ⟨exLedgerX, [], .amt ⟨false, 3, 0, none⟩ "ACME", ⟨2024, 2, 1⟩, some "USD"⟩ =
    evalCmd cfgSorted (fun a b => decide (a ≤ b)) (fun a b => decide (a ≤ b)) showNat' πrev.1
      ⟨exLedgerX, [], .amt ⟨false, 3, 0, none⟩ "ACME", ⟨2024, 2, 1⟩, some "USD"⟩ :=
  evalCmd_det (π₁ := πid.1) (π₂ := πrev.1) ordSorted_string_ok keyOrder_string keyOrder_string showNat' πid.2 πrev.2 _

/-! ### re-layouts between postings

`processScr2 π ρ`: besides the accumulator after every entry, the context and the state of the posting loop of
`add_transaction` (running residual, account balances, intern stores) are laid out afresh after every posting. -/

/-- the layout histories of a run: per entry and per posting. -/
abbrev Layouts := { p : (Nat → ProcState → ProcState) × (Nat → Nat → LoopSt → LoopSt) //
                    Relayout p.1 ∧ ∀ i, Relayout2 (p.2 i) }

/-- **C13_process_relayout2.**  Book-keeping does not depend on the layout history at entry or posting granularity. -/
theorem C13_process_relayout2 (l₁ l₂ : Layouts) (es : List Entry) :
    ORel PErrEq ProcEq (processScr2 l₁.1.1 l₁.1.2 {} 0 es) (processScr2 l₂.1.1 l₂.1.2 {} 0 es) :=
  processScr2_meq l₁.2.1 l₂.2.1 l₁.2.2 l₂.2.2 es ProcEq.init 0

/-- **C13_balance_cmd_fine / C13_accounts_processed_cmd_fine / C13_register_cmd_fine / C13_balance_exchange_cmd_fine /
C13_eval_cmd_fine**: the recorded end-to-end statements with `Layouts` as the orders. -/
theorem C13_balance_cmd_fine {leA leK : String → String → Bool} (hoA : KeyOrder leA) (hoK : KeyOrder leK)
    (showAcct : String → String) (showEntry : String → Rat → String) (r : DateRange) :
    C13_balance (Orders := Layouts) (Input := List Entry)
      (fun l es => cmdText (bkErrText leK showEntry) (balanceLines leA leK showAcct showEntry r)
        (processScr2 l.1.1 l.1.2 {} 0 es)) :=
  fun l₁ l₂ es => balanceCmd_det2 hoA hoK showAcct showEntry r l₁.2.1 l₂.2.1 l₁.2.2 l₂.2.2 es

theorem C13_accounts_processed_cmd_fine {leA leK : String → String → Bool} (hoA : KeyOrder leA) (hoK : KeyOrder leK)
    (showEntry : String → Rat → String) :
    C13_accounts (Orders := Layouts) (Input := List Entry)
      (fun l es => cmdText (bkErrText leK showEntry) (accountsLines leA) (processScr2 l.1.1 l.1.2 {} 0 es)) :=
  fun l₁ l₂ es => accountsCmd_det2 hoA hoK showEntry l₁.2.1 l₂.2.1 l₁.2.2 l₂.2.2 es

theorem C13_register_cmd_fine {leK : String → String → Bool} (hoK : KeyOrder leK) (showAcct : String → String)
    (showEntry : String → Rat → String) (acct : Option String) :
    C13_register (Orders := Layouts) (Input := List Entry)
      (fun l es => cmdText (bkErrText leK showEntry) (registerLines leK showAcct showEntry acct)
        (processScr2 l.1.1 l.1.2 {} 0 es)) :=
  fun l₁ l₂ es => registerCmd_det2 hoK showAcct showEntry acct l₁.2.1 l₂.2.1 l₁.2.2 l₂.2.2 es

theorem C13_balance_exchange_cmd_fine {cfg : Cfg String} (hord : OrdOK cfg.ord) {leA leK : String → String → Bool}
    (hoA : KeyOrder leA) (hoK : KeyOrder leK) (showAcct : String → String) (showEntry : String → Rat → String) :
    C13_balance_exchange (Orders := Layouts) (Input := List Entry × List (PriceEvent String) × BalOpts)
      (fun l x => balanceXOut cfg leA leK showAcct showEntry x.2.1 x.2.2 (processScr2 l.1.1 l.1.2 {} 0 x.1)) :=
  fun l₁ l₂ x => balanceXCmd_det2 hord hoA hoK showAcct showEntry x.2.1 x.2.2 l₁.2.1 l₂.2.1 l₁.2.2 l₂.2.2 x.1

theorem C13_eval_cmd_fine {cfg : Cfg String} (hord : OrdOK cfg.ord) {leA leK : String → String → Bool}
    (hoA : KeyOrder leA) (hoK : KeyOrder leK) (showEntry : String → Rat → String) :
    C13_eval (Orders := Layouts) (Input := EvalIn)
      (fun l x => evalOut cfg leA leK showEntry x.db x.expr x.date x.exchange (processScr2 l.1.1 l.1.2 {} 0 x.entries)) :=
  fun l₁ l₂ x => evalCmd_det2 hord hoA hoK showEntry x.db x.expr x.date x.exchange l₁.2.1 l₂.2.1 l₁.2.2 l₂.2.2 x.entries

/-! non-vacuity: the unbalanced three-commodity transaction, with and without reversal after every posting: the
residuals carried by the two errors are different lists (`USD, EUR, CHF` resp. another order), the message is the same. -/
def lid : Layouts := ⟨(fun _ st => st, fun _ _ p => p), relayout_id, fun _ => relayout2_id⟩
def lrev : Layouts := ⟨(fun _ st => relayoutRev st, fun _ _ p => relayoutRev2 p), relayout_rev, fun _ => relayout2_rev⟩

example : (match processScr2 lid.1.1 lid.1.2 {} 0 exBad, processScr2 lrev.1.1 lrev.1.2 {} 0 exBad with
    | .err (0, .unbalanced r), .err (0, .unbalanced r') =>
      decide (r.map Prod.fst = ["USD", "EUR", "CHF"] ∧ r'.map Prod.fst ≠ r.map Prod.fst ∧ r'.length = 3)
    | _, _ => false) = true := by decide +kernel

example : cmdText (bkErrText (fun a b => decide (a ≤ b)) showNat') (balanceLines (fun a b => decide (a ≤ b))
      (fun a b => decide (a ≤ b)) id showNat' {}) (processScr2 lid.1.1 lid.1.2 {} 0 exBad) =
    cmdText (bkErrText (fun a b => decide (a ≤ b)) showNat') (balanceLines (fun a b => decide (a ≤ b))
      (fun a b => decide (a ≤ b)) id showNat' {}) (processScr2 lrev.1.1 lrev.1.2 {} 0 exBad) :=
  balanceCmd_det2 (π₁ := lid.1.1) (π₂ := lrev.1.1) (ρ₁ := lid.1.2) (ρ₂ := lrev.1.2) keyOrder_string keyOrder_string
    id showNat' {} lid.2.1 lrev.2.1 lid.2.2 lrev.2.2 exBad

end Commands

/-! ## The text the binary prints (`Model/CmdText.lean`, `Lemmas/CmdTextEq.lean`)

`Okane.CmdText.run cmd es` is the executable function `drv c13 cmd` runs: the standard output of `okane balance
[--start ..] [--end ..]`, `okane register [ACCOUNT]`, `okane accounts` on success, and on a book-keeping error the index
of the offending entry with the title of the diagnostic (the Rust `#[error]` text).  `bin/check C13` compares it with
standard output / standard error / exit status of the real binary on every generated ledger (byte for byte outside
numerals; a numeral is a hole carrying the exact value, because the report layer of the model has no decimal scale).
The theorems: that function is the command model under **every** layout history (`Layouts`: a re-layout of every hash
map after every entry and after every posting), so the text compared with the binary is the text all the statements
above are about; and the statements `C13_balance` / `C13_register` / `C13_accounts` hold of the real text. -/
section CommandText
open Okane.CmdText Okane.Price Okane.Query

/-- **C13_balance_text.**  `okane balance [--start ..] [--end ..]` with the real messages: the text is the same for
every layout history. -/
theorem C13_balance_text (r : DateRange) :
    C13_balance (Orders := Layouts) (Input := List Entry)
      (fun l es => textScr (balanceLines leS leS id showEntry r) l.1.1 l.1.2 es) :=
  fun l₁ l₂ es => balanceText_det r l₁.2.1 l₂.2.1 l₁.2.2 l₂.2.2 es

/-- … and it is what the driver computes without any layout. -/
theorem C13_balance_text_run (r : DateRange) (l : Layouts) (es : List Entry) :
    CmdText.run (.balance r) es = textScr (balanceLines leS leS id showEntry r) l.1.1 l.1.2 es :=
  run_balance_layouts r l.2.1 l.2.2 es

/-- **C13_register_text.** -/
theorem C13_register_text (acct : Option String) :
    C13_register (Orders := Layouts) (Input := List Entry)
      (fun l es => textScr (registerLines leS id showEntry acct) l.1.1 l.1.2 es) :=
  fun l₁ l₂ es => registerText_det acct l₁.2.1 l₂.2.1 l₁.2.2 l₂.2.2 es

theorem C13_register_text_run (acct : Option String) (l : Layouts) (es : List Entry) :
    CmdText.run (.register acct) es = textScr (registerLines leS id showEntry acct) l.1.1 l.1.2 es :=
  run_register_layouts acct l.2.1 l.2.2 es

/-- **C13_accounts_text**: `okane accounts` (the scan of `report::accounts`) under every layout history of the intern
store prints what the driver computes. -/
theorem C13_accounts_text_run (σ : { σ : Nat → Store → Store // StoreRelayout σ }) (es : List Entry) :
    CmdText.run .accounts es = .ok (unlines (accountsScanCmd leS σ.1 es)) := run_accounts_layouts σ.2 es

/-- **`okane accounts` prints every account once, in strictly increasing byte order** (of the UTF-8 names). -/
theorem C13_accounts_text_strict (es : List Entry) :
    (CmdText.accountsLines es).Pairwise (fun a b => a < b) := accountsLines_strict es

/-- four accounts in the example (the alias `EO` written in a posting counts as one: the scan never sees the
`account` directive). -/
example : (CmdText.accountsLines exLedger).length = 4 := by
  unfold CmdText.accountsLines accountsReport
  rw [List.length_mergeSort]
  decide +kernel

/-- **`okane balance` prints one line per account, in strictly increasing byte order of the account names.** -/
theorem C13_balance_text_strict (r : DateRange) {es : List Entry} {st : ProcState} (h : process es = .ok st) :
    CmdText.balanceLines r st = (balanceRows r st).map (fun kv => kv.1 ++ ": " ++ showAmount kv.2) ∧
      ((balanceRows r st).map Prod.fst).Pairwise (fun a b => a < b) :=
  ⟨balanceLines_rows r st, balanceRows_strict r h⟩

/-- four rows for the example ledger. -/
example : (match process exLedger with | .ok st => decide ((balanceRows {} st).length = 4) | _ => false) = true := by
  simp only [balanceRows, sortByKey, List.length_mergeSort]
  decide +kernel

/-- the commands of section Commands (abstract error text) and `run` (Rust messages): same standard output, same
failing entry, same panic site. -/
theorem C13_balance_cmd_run (r : DateRange) (π : { π : Nat → ProcState → ProcState // Relayout π }) (es : List Entry) :
    errIndex (CmdText.run (.balance r) es) = errIndex ((balanceCmd leS leS id showEntry r π.1 es).map' unlines) :=
  run_balance_cmd r π.2 es

theorem C13_register_cmd_run (acct : Option String) (π : { π : Nat → ProcState → ProcState // Relayout π })
    (es : List Entry) :
    errIndex (CmdText.run (.register acct) es) = errIndex ((registerCmd leS id showEntry acct π.1 es).map' unlines) :=
  run_register_cmd acct π.2 es

/-- the real messages of related errors are the same text. -/
theorem C13_process_error_message (es : List Entry) {st st' : ProcState} (h : st ≈ₚ st') (i : Nat) {x x' : Nat × BkErrS}
    (hx : processFrom st i es = .err x) (hx' : processFrom st' i es = .err x') :
    x.1 = x'.1 ∧ bkErrMsg x.2 = bkErrMsg x'.2 := by
  have := C13_process es h i
  rw [hx, hx'] at this
  exact ⟨this.1, bkErrMsg_meq this.2⟩

/-! non-vacuity: the layout histories that reverse every map after every entry and every posting; the ledgers of
section Commands (three commodities in one account, an alias, a format; an unbalanced three-commodity transaction,
whose residual the two runs hold in different orders: see the `example`s there). -/
example : CmdText.run (.balance {}) exLedger =
    textScr (balanceLines leS leS id showEntry {}) lrev.1.1 lrev.1.2 exLedger := C13_balance_text_run {} lrev exLedger

example : CmdText.run (.balance ⟨some ⟨2024, 1, 2⟩, none⟩) exBad =
    textScr (balanceLines leS leS id showEntry ⟨some ⟨2024, 1, 2⟩, none⟩) lrev.1.1 lrev.1.2 exBad :=
  C13_balance_text_run _ lrev exBad

example : textScr (registerLines leS id showEntry (some "Assets:Bank")) lid.1.1 lid.1.2 exLedger =
    textScr (registerLines leS id showEntry (some "Assets:Bank")) lrev.1.1 lrev.1.2 exLedger :=
  C13_register_text (some "Assets:Bank") lid lrev exLedger

example : CmdText.run .accounts exLedger =
    .ok (unlines (accountsScanCmd leS (fun _ s => ⟨s.recs.reverse⟩) exLedger)) :=
  C13_accounts_text_run ⟨_, storeRelayout_rev⟩ exLedger

/-- the run on `exBad` really is an error at entry 0 carrying a three-commodity residual (so the error branch of the
statements is inhabited), and the run on `exLedger` succeeds. -/
example : (match process exBad with | .err (0, .unbalanced r) => decide (r.length = 3) | _ => false) = true := by
  decide +kernel
example : (process exLedger).isOk = true := by decide +kernel

/-! ### `okane balance -X …`, price db included -/

/-- **C13_balance_exchange_text.**  `okane balance -X C --now D [--historical] [--start ..] [--end ..] [--price-db F]`
with the Rust messages and the price db loaded the way `report::process` loads it (its commodities registered before
`-X` is resolved): the text is the same for every layout history.  `dbText` is the content of the price-db file. -/
theorem C13_balance_exchange_text {cfg : Cfg String} (hord : OrdOK cfg.ord) (dbText : Option (List Char)) (o : XOpts) :
    C13_balance_exchange (Orders := Layouts) (Input := List Entry)
      (fun l es => xTextScr cfg dbText o l.1.1 l.1.2 es) :=
  fun l₁ l₂ es => xText_det hord dbText o l₁.2.1 l₂.2.1 l₁.2.2 l₂.2.2 es

/-- … and it is what the driver computes. -/
theorem C13_balance_exchange_text_run {cfg : Cfg String} (hord : OrdOK cfg.ord) (dbText : Option (List Char)) (o : XOpts)
    (l : Layouts) (es : List Entry) : CmdText.runX cfg dbText o es = xTextScr cfg dbText o l.1.1 l.1.2 es :=
  runX_layouts hord dbText o l.2.1 l.2.2 es

/-- the price-db step of `process` on related accumulators. -/
theorem C13_price_db_load (dbText : Option (List Char)) {st st' : ProcState} (h : st ≈ₚ st') :
    ORel (· = ·) LoadedEq (loadRepo dbText st) (loadRepo dbText st') := loadRepo_meq dbText h

/-- without a price db `xFinish` and `balanceXOut` (section Commands) agree up to the wording of the messages. -/
theorem C13_balance_exchange_cmd_run (cfg : Cfg String) (o : XOpts) (x : Outcome (Nat × BkErrS) ProcState) :
    (xFinish cfg none o x).mapErr failIndex =
      ((balanceXOut cfg leS leS id showEntry [] ⟨some o.exchange, o.historical, o.now, o.range⟩ x).map' unlines).mapErr
        cmdErrIndex := xFinish_balanceXOut cfg o x

/-! non-vacuity: `exLedgerX` (its last transaction implies an exchange, which the reversed run logs with its sides
exchanged — see the `example` in section Commands), converted to USD, with a price db that introduces a commodity
the ledger does not mention. -/
def exDb : List Char := "P 2024/01/03 EUR 1.1 USD\nP 2024/01/03 USD 2 HUB\n".toList

example : CmdText.runX cfgSorted (some exDb) { exchange := "HUB", now := ⟨2024, 2, 1⟩ } exLedgerX =
    xTextScr cfgSorted (some exDb) { exchange := "HUB", now := ⟨2024, 2, 1⟩ } lrev.1.1 lrev.1.2 exLedgerX :=
  C13_balance_exchange_text_run ordSorted_string_ok _ _ lrev exLedgerX

example : xTextScr cfgSorted none { exchange := "USD", historical := true, now := ⟨2024, 2, 1⟩ } lid.1.1 lid.1.2 exLedgerX =
    xTextScr cfgSorted none { exchange := "USD", historical := true, now := ⟨2024, 2, 1⟩ } lrev.1.1 lrev.1.2 exLedgerX :=
  C13_balance_exchange_text ordSorted_string_ok none _ lid lrev exLedgerX

/-- the price db of the example parses (two records), so the `some` branch of `loadRepo` is the loaded one. -/
example : (match PriceDbFile.parsePriceDb exDb with | .ok rs => decide (rs.length = 2) | _ => false) = true := by
  decide +kernel

/-! ### `okane primitive eval` -/

/-- **C13_eval_text.**  `okane primitive eval --date D [-X C] [--price-db F] -f FILE EXPR` with the Rust messages:
the text is the same for every layout history (`expr = none`: the expression text does not parse). -/
theorem C13_eval_text {cfg : Cfg String} (hord : OrdOK cfg.ord) (dbText : Option (List Char)) (expr : Option VExpr)
    (date : Date) (exchange : Option String) :
    C13_eval (Orders := Layouts) (Input := List Entry)
      (fun l es => evalTextScr cfg dbText expr date exchange l.1.1 l.1.2 es) :=
  fun l₁ l₂ es => evalText_det hord dbText expr date exchange l₁.2.1 l₂.2.1 l₁.2.2 l₂.2.2 es

theorem C13_eval_text_run {cfg : Cfg String} (hord : OrdOK cfg.ord) (dbText : Option (List Char)) (expr : Option VExpr)
    (date : Date) (exchange : Option String) (l : Layouts) (es : List Entry) :
    CmdText.runEval cfg dbText expr date exchange es = evalTextScr cfg dbText expr date exchange l.1.1 l.1.2 es :=
  runEval_layouts hord dbText expr date exchange l.2.1 l.2.2 es

theorem C13_eval_cmd_run (cfg : Cfg String) (expr : VExpr) (date : Date) (exchange : Option String)
    (x : Outcome (Nat × BkErrS) ProcState) :
    (evalFinish cfg none (some expr) date exchange x).mapErr failIndex =
      ((evalOut cfg leS leS showEntry [] expr date exchange x).map' fun l => unlines [l]).mapErr cmdErrIndex :=
  evalFinish_evalOut cfg expr date exchange x

example : CmdText.runEval cfgSorted (some exDb) (some (.amt ⟨false, 3, 0, none⟩ "ACME")) ⟨2024, 2, 1⟩ (some "HUB") exLedgerX =
    evalTextScr cfgSorted (some exDb) (some (.amt ⟨false, 3, 0, none⟩ "ACME")) ⟨2024, 2, 1⟩ (some "HUB")
      lrev.1.1 lrev.1.2 exLedgerX :=
  C13_eval_text_run ordSorted_string_ok _ _ _ _ lrev exLedgerX

example : evalTextScr cfgSorted none none ⟨2024, 2, 1⟩ (some "USD") lid.1.1 lid.1.2 exLedgerX =
    evalTextScr cfgSorted none none ⟨2024, 2, 1⟩ (some "USD") lrev.1.1 lrev.1.2 exLedgerX :=
  C13_eval_text ordSorted_string_ok none none _ _ lid lrev exLedgerX

end CommandText
end Okane.C13

/-! ## `format` and `import` as whole commands (proved in `Lemmas/C13FormatImport.lean`)

`C13_format` and `C13_import` were bare schemas above; these are their instances for the command models. -/
namespace Okane.C13
open Okane Okane.Import Okane.C13FI

/-- **C13_format_cmd.**  `okane format FILE` (model `Unparse.format w`: `parse_ledger` + `Display` of every entry, `w` the
display-width function): for every type of orders the text — or the parse error — is the same.  The model has no order
parameter because `FormatOptions::format` iterates no hash map: the tree holds `Vec`s and is printed front to back
(`C13_format_tree_order`). -/
theorem C13_format_cmd {Orders : Type} (w : List Char → Nat) :
    C13_format (Orders := Orders) (Input := List Char) (fun _ t => Unparse.format w t) :=
  format_deterministic w

/-- the printed text is a function of the parsed tree alone … -/
theorem C13_format_tree (w : List Char → Nat) (t₁ t₂ : List Char) (h : Parse.parseEntries t₁ = Parse.parseEntries t₂) :
    Unparse.format w t₁ = Unparse.format w t₂ :=
  format_tree_only w t₁ t₂ h

/-- … and is emitted in tree order: the text for a list of entries is the concatenation of the texts of its parts -/
theorem C13_format_tree_order (w : List Char → Nat) (es es' : List Entry) :
    Unparse.formatEntries w (es ++ es') = Unparse.formatEntries w es ++ Unparse.formatEntries w es' :=
  formatEntries_append w es es'

/-- **C13_import_partial.**  Orders = the iteration orders of the field maps (`HashMap<RewriteField, String>`) of all
AND-elements; an importer that builds the transactions of each record from the record and `Extractor::extract` returns
the same list of transactions for every order, on inputs where every element has at most one interacting field. -/
theorem C13_import_partial {Rec Out : Type} (cap : Captures) (view : Rec → Record) (build : Rec → Fragment → List Out) :
    C13_import (Orders := { π : List (Field × String) → List (Field × String) // IsRelayout π })
      (Input := { x : List Rule × List Rec // ∀ rec ∈ x.2, RulesOneInteracting cap (view rec) x.1 })
      (fun π x => x.1.2.flatMap fun rec => build rec (extract cap (reorderRules π.1 x.1.1) (view rec))) :=
  import_deterministic cap view build

/-- **C13_import_csv.**  The CSV importer (whole command after decoding and rule compilation) returns the same
transactions / error for every iteration order of the rewrite rules' field maps, for every configuration whose field maps
have distinct keys (every `HashMap` has): its only interacting field is `payee`, so F14 cannot occur for CSV.  (The order
of `format.fields` and the error choice of rule compilation — F32 — are not part of the orders here.) -/
theorem C13_import_csv (env : CsvEnv) (cfg : CsvCfg) (hk : KeysDistinct cfg.rewrite) :
    C13_import (Orders := { π : List (Field × String) → List (Field × String) // IsRelayout π })
      (Input := List String × List (List String))
      (fun π x => csvImport env { cfg with rewrite := reorderRules π.1 cfg.rewrite } x.1 x.2) :=
  fun π₁ π₂ x => csvImport_deterministic env cfg hk π₁ π₂ x.1 x.2

/-- **C13_import_camt.**  The camt.053 importer (whole command after decoding), when every element has at most one
interacting field on every record. -/
theorem C13_import_camt (cap : Captures) (cfg : CamtCfg)
    (h1 : ∀ e d, RulesOneInteracting cap (camtRecord e d) cfg.rewrite) :
    C13_import (Orders := { π : List (Field × String) → List (Field × String) // IsRelayout π })
      (Input := List Statement)
      (fun π sts => camtImport cap { cfg with rewrite := reorderRules π.1 cfg.rewrite } [] sts) := by
  intro π₁ π₂ sts
  show camtImport cap { cfg with rewrite := reorderRules π₁.1 cfg.rewrite } [] sts =
    camtImport cap { cfg with rewrite := reorderRules π₂.1 cfg.rewrite } [] sts
  rw [camtImport_field_order cap cfg (rulesPerm_reorder π₁.2 _) h1, camtImport_field_order cap cfg (rulesPerm_reorder π₂.2 _) h1]

/-- the unconditional statement for `import` stays **false** (F14) -/
theorem C13_import_full_false : ¬ import_full := import_full_false

/-- a rule whose element has both CSV fields -/
def exCsvRules : List Rule :=
  [{ matcher := .field ⟨[(.category, "Buy"), (.payee, "Migros")]⟩, account := some "Assets:Broker" }]

def exCsvCfg : CsvCfg :=
  { account := "Assets:Bank", accountType := .asset, operator := none, primary := "CHF", conversion := {},
    rowOrder := .oldToNew, fields := [], rewrite := exCsvRules }

theorem exCsvRules_keys : KeysDistinct exCsvCfg.rewrite := by
  intro rule hr m hm
  have hr' : rule = { matcher := .field ⟨[(.category, "Buy"), (.payee, "Migros")]⟩, account := some "Assets:Broker" } := by
    simpa [exCsvCfg, exCsvRules] using hr
  subst hr'
  have hm' : m = ⟨[(.category, "Buy"), (.payee, "Migros")]⟩ := by simpa [Matcher.elements] using hm
  subst hm'
  decide

/-- non-vacuity of `C13_import_csv`: the element in the other layout (`payee` first) — a different rule list -/
example : reorderRules List.reverse exCsvRules ≠ exCsvRules := by decide
example (header : List String) (records : List (List String)) :
    csvImport ⟨fun _ => none, fun _ => none, exCap⟩ { exCsvCfg with rewrite := reorderRules List.reverse exCsvCfg.rewrite }
      header records = csvImport ⟨fun _ => none, fun _ => none, exCap⟩ exCsvCfg header records :=
  csvImport_field_order _ _ (rulesPerm_reorder (fun l => List.reverse_perm l) _) exCsvRules_keys header records

end Okane.C13

/-! ## The commands from FILE CONTENTS: loader and parser in front of `process` (proved in `Lemmas/C13Front.lean`)

The entry list of the theorems above is what the loader model (`Model/Load.lean`) delivers when every file is parsed by the parser
model (`Load.parseFS`).  Inputs: a file system of texts `T`, the loader's recursion fuel, the root path, the text of the price db,
the flags.  Orders: the order in which every `glob` enumerates its matches (`GlobOrders`; the only order parameter of the loader
— the parser has none — and `paths.sort_unstable()` removes it: `C13_load_file`) and the layout histories of all hash maps of
book-keeping (`Layouts`).  `C13_<cmd>_file`: ∀ inputs, ∀ orders, orders' : the same result.  `C13_<cmd>_file_run`: that result is
the one of the order-free composition `bookFileRun` (= `CmdText.run / runX / runEval` on the delivered entries after a successful
load: `C13Front.bookFileRun_ok_…`; a book-keeping error, tagged with the file of the offending entry, else the loader's error,
otherwise). -/
namespace Okane.C13
open Okane Okane.Load Okane.CmdText Okane.C13Front Okane.Price Okane.Query

/-- the enumeration orders of `FileSystem::glob`: for every pattern, any permutation of its matches -/
abbrev GlobOrders := { σ : String → List Path → List Path // GlobOrder σ }

/-- **C13_load_file.**  Loader + parser: the callback sequence (entries tagged with their files) and the way the load ends are
the same for every enumeration order of every glob — the matches are sorted before they are visited (`C11_order`), and
`Ord for PathBuf` is a total order. -/
theorem C13_load_file (T : TextFS) (fuel : Nat) (root : Path) (σ σ' : GlobOrders) :
    loadText σ.1 T fuel root = loadText σ'.1 T fuel root := by
  unfold loadText
  rw [load_text_glob_order σ.2, load_text_glob_order σ'.2]

/-- the sort forgets the enumeration order -/
theorem C13_sort_paths {ps ps' : List Path} (h : ps.Perm ps') : sortPaths ps = sortPaths ps' := sortPaths_perm_eq h

/-- **C13_balance_file.**  `okane balance [--start ..] [--end ..] ROOT` from file contents. -/
theorem C13_balance_file (T : TextFS) (fuel : Nat) (root : Path) (r : DateRange) (σ σ' : GlobOrders) (l l' : Layouts) :
    balanceFile r σ.1 l.1.1 l.1.2 T fuel root = balanceFile r σ'.1 l'.1.1 l'.1.2 T fuel root :=
  balanceFile_det r σ.2 σ'.2 l.2.1 l'.2.1 l.2.2 l'.2.2 T fuel root

theorem C13_balance_file_run (T : TextFS) (fuel : Nat) (root : Path) (r : DateRange) (σ : GlobOrders) (l : Layouts) :
    balanceFile r σ.1 l.1.1 l.1.2 T fuel root = bookFileRun bookIndex (finish (CmdText.balanceLines r)) T fuel root :=
  balanceFile_run r σ.2 l.2.1 l.2.2 T fuel root

/-- **C13_register_file.**  `okane register [ACCOUNT] ROOT`. -/
theorem C13_register_file (T : TextFS) (fuel : Nat) (root : Path) (acct : Option String) (σ σ' : GlobOrders) (l l' : Layouts) :
    registerFile acct σ.1 l.1.1 l.1.2 T fuel root = registerFile acct σ'.1 l'.1.1 l'.1.2 T fuel root :=
  registerFile_det acct σ.2 σ'.2 l.2.1 l'.2.1 l.2.2 l'.2.2 T fuel root

theorem C13_register_file_run (T : TextFS) (fuel : Nat) (root : Path) (acct : Option String) (σ : GlobOrders) (l : Layouts) :
    registerFile acct σ.1 l.1.1 l.1.2 T fuel root = bookFileRun bookIndex (finish (CmdText.registerLines acct)) T fuel root :=
  registerFile_run acct σ.2 l.2.1 l.2.2 T fuel root

/-- **C13_accounts_file.**  `okane accounts ROOT` (orders: the globs and the layout history of the intern store). -/
theorem C13_accounts_file (T : TextFS) (fuel : Nat) (root : Path) (σ σ' : GlobOrders)
    (τ τ' : { τ : Nat → Store → Store // StoreRelayout τ }) :
    accountsFile σ.1 τ.1 T fuel root = accountsFile σ'.1 τ'.1 T fuel root :=
  accountsFile_det σ.2 σ'.2 τ.2 τ'.2 T fuel root

theorem C13_accounts_file_run (T : TextFS) (fuel : Nat) (root : Path) (σ : GlobOrders)
    (τ : { τ : Nat → Store → Store // StoreRelayout τ }) :
    accountsFile σ.1 τ.1 T fuel root = accountsFileRun T fuel root :=
  accountsFile_run σ.2 τ.2 T fuel root

/-- **C13_balance_exchange_file.**  `okane balance -X C --now D [--historical] [--start ..] [--end ..] [--price-db F] ROOT`;
`dbText` = the content of `F`. -/
theorem C13_balance_exchange_file {cfg : Cfg String} (hord : OrdOK cfg.ord) (T : TextFS) (fuel : Nat) (root : Path)
    (dbText : Option (List Char)) (o : XOpts) (σ σ' : GlobOrders) (l l' : Layouts) :
    balanceXFile cfg dbText o σ.1 l.1.1 l.1.2 T fuel root = balanceXFile cfg dbText o σ'.1 l'.1.1 l'.1.2 T fuel root :=
  balanceXFile_det hord dbText o σ.2 σ'.2 l.2.1 l'.2.1 l.2.2 l'.2.2 T fuel root

theorem C13_balance_exchange_file_run {cfg : Cfg String} (hord : OrdOK cfg.ord) (T : TextFS) (fuel : Nat) (root : Path)
    (dbText : Option (List Char)) (o : XOpts) (σ : GlobOrders) (l : Layouts) :
    balanceXFile cfg dbText o σ.1 l.1.1 l.1.2 T fuel root = bookFileRun failIndex (xFinish cfg dbText o) T fuel root :=
  balanceXFile_run hord dbText o σ.2 l.2.1 l.2.2 T fuel root

/-- **C13_eval_file.**  `okane primitive eval --date D [-X C] [--price-db F] -f ROOT EXPR`. -/
theorem C13_eval_file {cfg : Cfg String} (hord : OrdOK cfg.ord) (T : TextFS) (fuel : Nat) (root : Path)
    (dbText : Option (List Char)) (expr : Option VExpr) (date : Date) (exchange : Option String) (σ σ' : GlobOrders)
    (l l' : Layouts) :
    evalFile cfg dbText expr date exchange σ.1 l.1.1 l.1.2 T fuel root =
      evalFile cfg dbText expr date exchange σ'.1 l'.1.1 l'.1.2 T fuel root :=
  evalFile_det hord dbText expr date exchange σ.2 σ'.2 l.2.1 l'.2.1 l.2.2 l'.2.2 T fuel root

theorem C13_eval_file_run {cfg : Cfg String} (hord : OrdOK cfg.ord) (T : TextFS) (fuel : Nat) (root : Path)
    (dbText : Option (List Char)) (expr : Option VExpr) (date : Date) (exchange : Option String) (σ : GlobOrders) (l : Layouts) :
    evalFile cfg dbText expr date exchange σ.1 l.1.1 l.1.2 T fuel root =
      bookFileRun failIndex (evalFinish cfg dbText expr date exchange) T fuel root :=
  evalFile_run hord dbText expr date exchange σ.2 l.2.1 l.2.2 T fuel root

/-- **C13_file_fuel.**  The recursion fuel of the loader model is not an input of the commands either: once the load does not
run out of it (`C11_terminates_load`: above the number of readable files it never does), every larger fuel gives the same
callbacks and status, hence the same result of every command. -/
theorem C13_file_fuel (T : TextFS) {n m : Nat} (hnm : n ≤ m) (root : Path)
    (h : (load (parseFS T) n root).status ≠ .fuelOut) : load (parseFS T) m root = load (parseFS T) n root :=
  load_fuel _ hnm root h

theorem C13_book_file_fuel {ε : Type} (idx : ε → Option Nat) (fin : Outcome (Nat × BkErrS) ProcState → Outcome ε String)
    (T : TextFS) {n m : Nat} (hnm : n ≤ m) (root : Path) (h : (load (parseFS T) n root).status ≠ .fuelOut) :
    bookFileRun idx fin T m root = bookFileRun idx fin T n root := bookFileRun_fuel idx fin T hnm root h

/-- … as instances of the recorded statements: orders = (glob enumeration, layout histories), input = (texts, fuel, root). -/
theorem C13_balance_file_schema (r : DateRange) :
    C13_balance (Orders := GlobOrders × Layouts) (Input := TextFS × Nat × Path)
      (fun o x => balanceFile r o.1.1 o.2.1.1 o.2.1.2 x.1 x.2.1 x.2.2) :=
  fun o o' x => C13_balance_file x.1 x.2.1 x.2.2 r o.1 o'.1 o.2 o'.2

/-! non-vacuity (`Lemmas/C13Front.lean`, section Examples): the ledger in three files `exT` (an `include sub/*.ledger` whose glob
answers `[b, a]`, an alias declared in `a` and used in the root; loading `b` first would be rejected), the reversed enumeration
`σrev`, the reversing layouts `lrev`. -/
def gid : GlobOrders := ⟨fun _ ps => ps, globOrder_id⟩
def grev : GlobOrders := ⟨σrev, globOrder_rev⟩

example : balanceFile {} gid.1 lid.1.1 lid.1.2 exT 2 fMain = balanceFile {} grev.1 lrev.1.1 lrev.1.2 exT 2 fMain :=
  C13_balance_file exT 2 fMain {} gid grev lid lrev

example : registerFile (some "Assets:Cash") grev.1 lrev.1.1 lrev.1.2 exT 2 fMain =
    bookFileRun bookIndex (finish (CmdText.registerLines (some "Assets:Cash"))) exT 2 fMain :=
  C13_register_file_run exT 2 fMain _ grev lrev

example : accountsFile gid.1 (fun _ s => s) exT 2 fMain = accountsFile grev.1 (fun _ s => ⟨s.recs.reverse⟩) exT 2 fMain :=
  C13_accounts_file exT 2 fMain gid grev ⟨_, storeRelayout_id⟩ ⟨_, storeRelayout_rev⟩

example : balanceXFile cfgSorted (some exDb) { exchange := "HUB", now := ⟨2024, 2, 1⟩ } gid.1 lid.1.1 lid.1.2 exT 2 fMain =
    balanceXFile cfgSorted (some exDb) { exchange := "HUB", now := ⟨2024, 2, 1⟩ } grev.1 lrev.1.1 lrev.1.2 exT 2 fMain :=
  C13_balance_exchange_file ordSorted_string_ok exT 2 fMain _ _ gid grev lid lrev

example : evalFile cfgSorted (some exDb) (some (.amt ⟨false, 3, 0, none⟩ "EUR")) ⟨2024, 2, 1⟩ (some "HUB") gid.1 lid.1.1 lid.1.2
      exTBook 2 fMain =
    evalFile cfgSorted (some exDb) (some (.amt ⟨false, 3, 0, none⟩ "EUR")) ⟨2024, 2, 1⟩ (some "HUB") grev.1 lrev.1.1 lrev.1.2
      exTBook 2 fMain :=
  C13_eval_file ordSorted_string_ok exTBook 2 fMain _ _ _ _ gid grev lid lrev

/-- the example really loads (five entries, `a` before `b`), book-keeping accepts it, and the two enumerations differ -/
example : (loadText grev.1 exT 2 fMain).delivered.map (·.1) = [fMain, fA, fA, fB, fMain] ∧
    (loadText grev.1 exT 2 fMain).status = .ok () ∧
    (reorderGlobT grev.1 exT).glob "/r/sub/*.ledger" ≠ (reorderGlobT gid.1 exT).glob "/r/sub/*.ledger" ∧
    (bookFileRun bookIndex (finish (CmdText.balanceLines {})) exT 2 fMain).isOk = true := by decide +kernel

end Okane.C13

/-! ## `okane import` of a Viseca statement as a whole command: statement TEXT → printed ledger (`Lemmas/C13FrontViseca.lean`)

`visecaCmd env cfg w text`: compile the rewrite rules, cut the text into lines, the `parse_entry` loop, `extract` on every record,
the conversion, `to_double_entry` and `writeln!` of every transaction with the precisions of `format.commodity` — standard output and
the ending.  Orders: the iteration orders of the field maps of all AND-elements (read twice: when the rules are compiled and when a
record is matched). -/
namespace Okane.C13
open Okane Okane.Import Okane.Import.Viseca Okane.C13FI Okane.C13FV

/-- **C13_import_viseca.**  The Viseca importer as a whole command prints the same ledger and ends the same way for every order of
the field maps, on statements every record of which leaves at most one interacting field per element (the hypothesis of
`C13_import_partial` / `C17_and_order_partial`, on the records the parser model cuts out of the text), when the faulty fields of
every element agree on their error (vacuous for rules that compile: `C13_import_viseca_compiles`). -/
theorem C13_import_viseca (env : VisecaEnv) (cfg : ConfigEntry) (w : List Char → Nat)
    (h2 : RulesFaultsAgree .viseca env.validPattern (fun _ _ => true) cfg.rewrite) :
    C13_import (Orders := { π : List (Field × String) → List (Field × String) // IsRelayout π })
      (Input := { text : List Char // StatementOneInteracting env cfg text })
      (fun π text => visecaCmd env { cfg with rewrite := reorderRules π.1 cfg.rewrite } w text.1) :=
  fun π₁ π₂ text => visecaCmd_deterministic env cfg w text.1 text.2 h2 π₁ π₂

/-- the same for any two rule lists that are equal up to the order of every field map -/
theorem C13_import_viseca_perm (env : VisecaEnv) (cfg : ConfigEntry) (w : List Char → Nat) (text : List Char)
    {rules' : List Rule} (h : RulesPerm cfg.rewrite rules') (h1 : StatementOneInteracting env cfg text)
    (h2 : RulesFaultsAgree .viseca env.validPattern (fun _ _ => true) cfg.rewrite) :
    visecaCmd env { cfg with rewrite := rules' } w text = visecaCmd env cfg w text :=
  visecaCmd_field_order env cfg w text h h1 h2

/-- rules that compile satisfy the second hypothesis; and whether rules compile does not depend on the order at all -/
theorem C13_import_viseca_compiles (env : VisecaEnv) (cfg : ConfigEntry)
    (h : checkRules .viseca env.validPattern (fun _ _ => true) cfg.rewrite = .ok ()) :
    RulesFaultsAgree .viseca env.validPattern (fun _ _ => true) cfg.rewrite := rulesFaultsAgree_of_ok _ _ _ h

theorem C13_import_compile_order (kind : ImporterKind) (vp : String → Bool) (vc : Field → String → Bool)
    {rules rules' : List Rule} (h : RulesPerm rules rules') :
    checkRules kind vp vc rules = .ok () ↔ checkRules kind vp vc rules' = .ok () := checkRules_isOk_perm kind vp vc h

/-- a static sufficient condition for the first hypothesis: no element pairs `payee` with `category` -/
theorem C13_import_viseca_static (env : VisecaEnv) (cfg : ConfigEntry) (text : List Char)
    (h : ∀ rule ∈ cfg.rewrite, ∀ m ∈ rule.matcher.elements, NotBothPC m) : StatementOneInteracting env cfg text :=
  fun e _ => viseca_oneInteracting_static env.cap e h

/-- `format.commodity` (copied into the display context, looked up) in any layout -/
theorem C13_import_viseca_commodity (env : VisecaEnv) (cfg : ConfigEntry) (w : List Char → Nat) (text : List Char)
    {m' : AMap String Nat} (h : cfg.format.commodity.Perm m') (hwf : AMap.WF cfg.format.commodity) :
    visecaCmd env { cfg with format := { cfg.format with commodity := m' } } w text = visecaCmd env cfg w text :=
  visecaCmd_commodity_order env cfg w text h hwf

/-- **C13_import_viseca_false.**  The unconditional statement is false (F14): the statement `f14Text` with the rule
`{category: (?P<payee>Service) stations, payee: ^Service$} → Expenses:Car` prints `Expenses:Car` under the payee `Service` in the
order `category, payee` and `! Expenses:Unknown` under `Europe Gas AT` in the order `payee, category`. -/
theorem C13_import_viseca_false : ¬ visecaCmd_full := visecaCmd_full_false

theorem C13_import_viseca_witness :
    (visecaCmd f14Env f14Cfg Unparse.widthStd f14Text).1 ≠
      (visecaCmd f14Env { f14Cfg with rewrite := reorderRules List.reverse f14Cfg.rewrite } Unparse.widthStd f14Text).1 := by
  rw [f14_prints_category_first, f14_prints_payee_first]
  decide +kernel

/-- nor is the error of a configuration with two different faults in one element (F32) -/
theorem C13_import_viseca_error_false : ¬ visecaCmd_error_full := visecaCmd_error_false

/-- non-vacuity: the two-record statement with a capturing payee rule and a `{category, payee}` element whose category never
captures; the reversed layout is another rule list and prints the same ledger. -/
example : visecaCmd exEnvV { exCfgV with rewrite := reorderRules List.reverse exCfgV.rewrite } Unparse.widthStd f14Text =
    visecaCmd exEnvV { exCfgV with rewrite := reorderRules (fun l => l) exCfgV.rewrite } Unparse.widthStd f14Text :=
  C13_import_viseca exEnvV exCfgV Unparse.widthStd (C13_import_viseca_compiles _ _ exCfgV_compiles)
    ⟨List.reverse, isRelayout_rev⟩ ⟨fun l => l, isRelayout_id⟩ ⟨f14Text, exCfgV_one⟩

example : reorderRules List.reverse exCfgV.rewrite ≠ reorderRules (fun l => l) exCfgV.rewrite := by decide

end Okane.C13

/-! ## `okane format` from the file, `okane import` of a CSV file from its cells (`Lemmas/C13FrontFormatCsv.lean`) -/
namespace Okane.C13
open Okane Okane.Load Okane.Import Okane.C13FI Okane.C13FV Okane.C13FC Okane.C13Front

/-- **C13_format_file.**  `okane format FILE` from the file system of texts (`File::open`, `recursive(false)`): an instance of
`C13_format` for every type of orders — no hash map is iterated between the file and the output. -/
theorem C13_format_file {Orders : Type} (w : List Char → Nat) :
    C13_format (Orders := Orders) (Input := TextFS × Path) (fun _ x => formatFile w x.1 x.2) :=
  formatFile_deterministic w

/-- … and it depends on the text of that one file only (not on what `glob` answers, nor on other files) -/
theorem C13_format_file_local (w : List Char → Nat) (T T' : TextFS) (path : Path) (h : T.text path = T'.text path) :
    formatFile w T path = formatFile w T' path := formatFile_local w T T' path h

/-- **C13_import_csv_cells.**  `okane import` of a CSV file as a whole command from its cells (field map, extractor, records
decoded by okane's own decoders, `to_double_entry`, printing with the configured precisions): the same standard output and ending
for every iteration order of the rewrite rules' field maps, when their keys are distinct (every `HashMap`) and the faulty fields of
every element agree on their error (vacuous for rules that compile). -/
theorem C13_import_csv_cells (pd : String → Option Date) (cap : Captures) (vp : String → Bool) (cfg : CsvCfg)
    (commodity : AMap String Nat) (w : List Char → Nat) (hk : KeysDistinct cfg.rewrite)
    (h2 : RulesFaultsAgree .csv vp (fun _ _ => true) cfg.rewrite) :
    C13_import (Orders := { π : List (Field × String) → List (Field × String) // IsRelayout π })
      (Input := List String × List (List String))
      (fun π x => csvCmd pd cap vp { cfg with rewrite := reorderRules π.1 cfg.rewrite } commodity w x.1 x.2) :=
  fun π₁ π₂ x => csvCmd_deterministic pd cap vp cfg commodity w hk h2 π₁ π₂ x.1 x.2

theorem C13_import_csv_commodity (pd : String → Option Date) (cap : Captures) (vp : String → Bool) (cfg : CsvCfg)
    {commodity commodity' : AMap String Nat} (h : commodity.Perm commodity') (hwf : AMap.WF commodity)
    (w : List Char → Nat) (header : List String) (records : List (List String)) :
    csvCmd pd cap vp cfg commodity' w header records = csvCmd pd cap vp cfg commodity w header records :=
  csvCmd_commodity_order pd cap vp cfg h hwf w header records

example : csvCmd exDates exCapC (fun _ => true) { exCfgC with rewrite := reorderRules List.reverse exCfgC.rewrite }
      [("CHF", 2)] Unparse.widthStd exHeader exRecords =
    csvCmd exDates exCapC (fun _ => true) { exCfgC with rewrite := reorderRules (fun l => l) exCfgC.rewrite }
      [("CHF", 2)] Unparse.widthStd exHeader exRecords :=
  C13_import_csv_cells exDates exCapC (fun _ => true) exCfgC [("CHF", 2)] Unparse.widthStd exCfgC_keys
    (rulesFaultsAgree_of_ok _ _ _ exCfgC_compiles) ⟨List.reverse, isRelayout_rev⟩ ⟨fun l => l, isRelayout_id⟩ (exHeader, exRecords)

example (w : List Char → Nat) : formatFile w exT fMain = formatFile w (C13Front.reorderGlobT C13Front.σrev exT) fMain :=
  C13_format_file_local w _ _ fMain rfl

end Okane.C13

/-! ## `okane import` of a CSV file: the order of `format.fields` (`Lemmas/C13FrontCsvFields.lean`) -/
namespace Okane.C13
open Okane Okane.Import Okane.C13FC

/-- **C13_import_csv_fields.**  The third hash map of the CSV import, `format.fields` (iterated by `FieldMap::try_new`): for every
order of it the whole command writes the same text and ends the same way (same `ImportError` variant; the model's errors carry no
message text, so *which* of two unparsable templates the message names — the rest of F32 — is below this statement). -/
theorem C13_import_csv_fields (pd : String → Option Date) (cap : Captures) (vp : String → Bool) (cfg : CsvCfg)
    (commodity : AMap String Nat) (w : List Char → Nat) {fields' : AMap FieldKey CsvPos} (h : cfg.fields.Perm fields')
    (hwf : AMap.WF cfg.fields) (header : List String) (records : List (List String)) :
    csvCmd pd cap vp { cfg with fields := fields' } commodity w header records =
      csvCmd pd cap vp cfg commodity w header records :=
  csvCmd_fields_order pd cap vp cfg commodity w h hwf header records

/-- `FieldMap::try_new` itself: the same error, or field maps equal in every component and every lookup -/
theorem C13_fieldMap_order {fields fields' : AMap FieldKey CsvPos} (h : fields.Perm fields') (hwf : AMap.WF fields)
    (header : List String) : TrySame (FieldMap.tryNew fields header) (FieldMap.tryNew fields' header) :=
  tryNew_perm h hwf header

example : csvCmd exDates exCapC (fun _ => true) { exCfgC with fields := exCfgC.fields.reverse } [("CHF", 2)] Unparse.widthStd
      exHeader exRecords =
    csvCmd exDates exCapC (fun _ => true) exCfgC [("CHF", 2)] Unparse.widthStd exHeader exRecords :=
  C13_import_csv_fields _ _ _ exCfgC _ _ (List.reverse_perm _).symm (by unfold AMap.WF AMap.keys; decide) exHeader exRecords

end Okane.C13

