import Okane.Lemmas.Print
/-!
# C19 — formatted postings are laid out in aligned columns

The property's numbers (4, 2, 48, 52, 3, 50, 54) are literals here; the model takes its constants from
`Okane.Params` (extracted from `core/src/syntax/display.rs` on every run), so a changed constant breaks these proofs.

All theorems hold for every context `cx` (display width function, number printer), every account, every amount
expression.  Hypotheses about the width function say only what unicode-width guarantees for ASCII:
`NumOK cx` (numbers are printed with one-byte, one-column characters; `std_numOK` proves it for the real number
printer and the real width table) and `SymOK cx.w` (`( ) - + * /` and the blank take one column).
-/
set_option linter.unusedSimpArgs false

namespace Okane.Print
open Okane

/-! ## the posting line, decomposed -/

theorem spaces_four : spaces 4 = [' ', ' ', ' ', ' '] := rfl

theorem txnLines_eq (cx : Ctx) (t : Transaction) :
    txnLines cx t
      = txnHeader t :: (t.metadata.map (metaLine 4) ++ t.posts.flatMap (postingLines cx)) := by
  simp [txnLines, Params.txnMetaIndent]

theorem postingLines_eq (cx : Ctx) (p : Posting) :
    postingLines cx p = postingHead cx p :: p.metadata.map (metaLine 4) := by
  simp [postingLines, Params.postMetaIndent]

theorem spaces_snoc (n : Nat) : spaces n ++ [' '] = spaces (n + 1) := by
  simp [spaces, List.replicate_succ']

/-- **C19_gap** — the posting line is: four blanks, clear mark, account, a run of `gapWidth` blanks, and then the amount
(or the `=` of a balance-only posting); the run has at least 2 blanks whenever something follows the account. -/
theorem C19_gap (cx : Ctx) (p : Posting) :
    postingHead cx p
      = spaces 4 ++ clearMark p.clear ++ p.account.toList ++ spaces (gapWidth cx p) ++ afterGap cx p
    ∧ ((p.amount.isSome ∨ p.balance.isSome) → 2 ≤ gapWidth cx p) := by
  constructor
  · unfold postingHead amountPart balancePart gapWidth afterGap
    cases ha : p.amount with
    | some a => simp [Params.postingIndent, amountPad, balancePart, ha]
    | none =>
      cases hb : p.balance with
      | none => simp [Params.postingIndent]
      | some b =>
        have h3 : 3 ≤ balancePadding cx p b := by
          simp only [balancePadding, ha, Option.isSome_none, Bool.false_eq_true, ↓reduceIte]
          exact getColumn_ge _ _ _
        have e : padLeft (balancePadding cx p b) [' ', '='] = spaces (balancePadding cx p b - 1) ++ ['='] := by
          have : balancePadding cx p b - 1 = (balancePadding cx p b - 2) + 1 := by omega
          rw [this, ← spaces_snoc]
          simp [padLeft]
        simp [Params.postingIndent, e]
  · intro h
    unfold gapWidth
    cases ha : p.amount with
    | some a =>
      simp only [amountPad]
      exact getColumn_ge _ _ _
    | none =>
      cases hb : p.balance with
      | none => simp [ha, hb] at h
      | some b =>
        have h3 : 3 ≤ balancePadding cx p b := by
          simp only [balancePadding, ha, Option.isSome_none, Bool.false_eq_true, ↓reduceIte]
          exact getColumn_ge _ _ _
        show 2 ≤ balancePadding cx p b - 1
        omega

/-- the posting line with an amount: everything up to the numeric part, then the rest -/
theorem postingHead_amount (cx : Ctx) (p : Posting) (a : PostingAmount) (ha : p.amount = some a) :
    postingHead cx p
      = headUpToNumber cx p a ++ afterNumeric cx a.amount ++ printLot cx a.lot ++ printCost cx a.cost ++ balancePart cx p := by
  rw [(C19_gap cx p).1]
  simp [gapWidth, afterGap, ha, headUpToNumber, ← numeric_append_after cx a.amount]

theorem accountWidth_eq (cx : Ctx) (p : Posting) :
    accountWidth cx p = strWidth cx.w (clearMark p.clear ++ p.account.toList) := by
  simp [accountWidth, strWidth_append, Nat.add_comm]

/-! ## C19_column -/

/-- **C19_column** — when `w(clear mark ++ account) + numeric width + 2 < 48`, the blanks before the amount bring the end
of the numeric part to column 52: `4 + w(clear ++ account) + blanks + numeric width = 52`. -/
theorem C19_column (cx : Ctx) (hnum : NumOK cx) (hsym : SymOK cx.w) (p : Posting) (a : PostingAmount)
    (hshort : strWidth cx.w (clearMark p.clear ++ p.account.toList) + (numericPart cx a.amount).length + 2 < 48) :
    4 + strWidth cx.w (clearMark p.clear ++ p.account.toList) + amountPad cx p a + (numericPart cx a.amount).length = 52 := by
  rw [numericPart_length cx hnum hsym] at hshort ⊢
  rw [← accountWidth_eq] at hshort ⊢
  have := getColumn_short (colsize := 48) (left := accountWidth cx p + (fmtVExpr cx a.amount).2.absolute) (padding := 2)
    (by omega)
  simp only [amountPad, Params.amountColumn, Params.amountPadding]
  omega

/-- **C19_column**, on the printed line: the line is `headUpToNumber ++ …`, and the display width of `headUpToNumber`
(indent, clear mark, account, blanks, numeric part) is 52 — the numeric part ends at display column 52. -/
theorem C19_column_display (cx : Ctx) (hnum : NumOK cx) (hsym : SymOK cx.w) (p : Posting) (a : PostingAmount)
    (ha : p.amount = some a)
    (hshort : strWidth cx.w (clearMark p.clear ++ p.account.toList) + (numericPart cx a.amount).length + 2 < 48) :
    postingHead cx p
      = headUpToNumber cx p a ++ (afterNumeric cx a.amount ++ printLot cx a.lot ++ printCost cx a.cost ++ balancePart cx p)
    ∧ strWidth cx.w (headUpToNumber cx p a) = 52 := by
  constructor
  · rw [postingHead_amount cx p a ha]; simp
  · have hsp : cx.w ' ' = 1 := hsym ' ' (by simp)
    have h := C19_column cx hnum hsym p a hshort
    simp only [headUpToNumber, strWidth_append, strWidth_spaces cx.w hsp,
      (numericPart_ascii cx hnum hsym a.amount).strWidth] at h ⊢
    omega

/-- the fallback branch: when the account is too long for the column, exactly 2 blanks separate it from the amount -/
theorem C19_fallback (cx : Ctx) (hnum : NumOK cx) (hsym : SymOK cx.w) (p : Posting) (a : PostingAmount)
    (hlong : ¬ strWidth cx.w (clearMark p.clear ++ p.account.toList) + (numericPart cx a.amount).length + 2 < 48) :
    amountPad cx p a = 2 := by
  rw [numericPart_length cx hnum hsym, ← accountWidth_eq] at hlong
  simp only [amountPad, Params.amountColumn, Params.amountPadding]
  exact getColumn_long hlong

/-! ## C19_balance -/

/-- the alignment never exceeds the length of the printed expression -/
theorem alignment_le_length (cx : Ctx) (hnum : NumOK cx) (hsym : SymOK cx.w) (v : VExpr) :
    (fmtVExpr cx v).2.absolute ≤ (fmtVExpr cx v).1.length :=
  alignment_le_length' cx hnum hsym v

/-- `width_cjk(balance_str) - alignment` does not underflow (the Rust subtraction is on `usize`), and it is the display
width of what follows the numeric part -/
theorem trailing_no_underflow (cx : Ctx) (hnum : NumOK cx) (hsym : SymOK cx.w) (b : VExpr) :
    (fmtVExpr cx b).2.absolute ≤ strWidth cx.w (fmtVExpr cx b).1
    ∧ trailing cx b = strWidth cx.w (afterNumeric cx b) := by
  have := strWidth_fmt cx hnum hsym b
  constructor
  · omega
  · unfold trailing; omega

/-- the posting line with a balance: everything before the `=`, then `= balance` -/
theorem postingHead_balance (cx : Ctx) (p : Posting) (b : VExpr) (hb : p.balance = some b) :
    postingHead cx p = beforeEq cx p ++ '=' :: ' ' :: printVExpr cx b := by
  rw [(C19_gap cx p).1]
  cases ha : p.amount with
  | some a => simp [gapWidth, afterGap, beforeEq, ha, hb, balancePart, balancePadding, padLeft]
  | none => simp [gapWidth, afterGap, beforeEq, ha, hb]

/-- **C19_balance** — a balance-only posting on a short account (`w(clear ++ account) + 3 < 50 + t`, `t` the display width
of what follows the number in the balance, e.g. ` USD`): the text before its `=` is `53 + t` columns wide, i.e. the `=`
stands in column `54 + t` = 52 (end of a number) + `t` + one blank + 1. -/
theorem C19_balance (cx : Ctx) (hnum : NumOK cx) (hsym : SymOK cx.w) (p : Posting) (b : VExpr)
    (ha : p.amount = none) (hb : p.balance = some b)
    (hshort : strWidth cx.w (clearMark p.clear ++ p.account.toList) + 3 < 50 + strWidth cx.w (afterNumeric cx b)) :
    postingHead cx p = beforeEq cx p ++ '=' :: ' ' :: printVExpr cx b
    ∧ strWidth cx.w (beforeEq cx p) = 53 + strWidth cx.w (afterNumeric cx b) := by
  refine ⟨postingHead_balance cx p b hb, ?_⟩
  have hsp : cx.w ' ' = 1 := hsym ' ' (by simp)
  have ht := (trailing_no_underflow cx hnum hsym b).2
  rw [← accountWidth_eq] at hshort
  have hcol := getColumn_short (colsize := 50 + trailing cx b) (left := accountWidth cx p) (padding := 3) (by omega)
  have hge := getColumn_ge (50 + trailing cx b) (accountWidth cx p) 3
  simp only [beforeEq, ha, gapWidth, hb, balancePadding, Option.isSome_none, Bool.false_eq_true, ↓reduceIte,
    Params.balanceColumn, Params.balancePadding, strWidth_append, strWidth_spaces cx.w hsp]
  have hacc := accountWidth_eq cx p
  simp only [strWidth_append] at hacc
  omega

/-- the fallback branch of the balance-only rule: on a long account exactly 2 blanks precede the `=` -/
theorem C19_balance_fallback (cx : Ctx) (hnum : NumOK cx) (hsym : SymOK cx.w) (p : Posting) (b : VExpr)
    (ha : p.amount = none) (hb : p.balance = some b)
    (hlong : ¬ strWidth cx.w (clearMark p.clear ++ p.account.toList) + 3 < 50 + strWidth cx.w (afterNumeric cx b)) :
    gapWidth cx p = 2 := by
  have ht := (trailing_no_underflow cx hnum hsym b).2
  rw [← accountWidth_eq, ← ht] at hlong
  simp only [gapWidth, ha, hb, balancePadding, Option.isSome_none, Bool.false_eq_true, ↓reduceIte,
    Params.balanceColumn, Params.balancePadding]
  rw [getColumn_long hlong]

/-- **C19_balance** (second half) — "its `=` falls where it would after an amount in that commodity": a posting `q` on the
same account with an aligned amount (no lot, no cost) followed by an assertion, whose amount is followed by text of the
same width `t` (the same commodity), has its `=` in the same column as the balance-only posting `p`. -/
theorem C19_balance_same_column (cx : Ctx) (hnum : NumOK cx) (hsym : SymOK cx.w) (p q : Posting) (b : VExpr)
    (a : PostingAmount)
    (hpa : p.amount = none) (hpb : p.balance = some b)
    (hqa : q.amount = some a) (hlot : a.lot = {}) (hcost : a.cost = none)
    (hacc : q.account = p.account) (hclear : q.clear = p.clear)
    (hsame : strWidth cx.w (afterNumeric cx a.amount) = strWidth cx.w (afterNumeric cx b))
    (hshort : strWidth cx.w (clearMark p.clear ++ p.account.toList) + (numericPart cx a.amount).length + 2 < 48) :
    strWidth cx.w (beforeEq cx q) = strWidth cx.w (beforeEq cx p) := by
  have hsp : cx.w ' ' = 1 := hsym ' ' (by simp)
  have hp := (C19_balance cx hnum hsym p b hpa hpb (by omega)).2
  have hq := C19_column cx hnum hsym q a (by rw [hacc, hclear]; exact hshort)
  rw [hp]
  simp only [beforeEq, hqa, hlot, hcost, printLot, printCost, strWidth_append, strWidth_spaces cx.w hsp,
    List.append_nil, strWidth]
  rw [strWidth_fmt cx hnum hsym a.amount, hsame]
  rw [numericPart_length cx hnum hsym] at hq
  simp only [strWidth_append] at hq
  omega

/-! ## C19_indent -/

theorem metaLine_indent (m : Metadata) :
    ∃ c rest, metaLine 4 m = ' ' :: ' ' :: ' ' :: ' ' :: c :: rest ∧ c ≠ ' ' :=
  ⟨';', ' ' :: printMetadata m, by simp [metaLine, spaces_four], by decide⟩

theorem postingHead_indent (cx : Ctx) (p : Posting) (hacc : AccountOK p) :
    ∃ c rest, postingHead cx p = ' ' :: ' ' :: ' ' :: ' ' :: c :: rest ∧ c ≠ ' ' := by
  obtain ⟨c, cs, hc, hne⟩ := hacc
  rw [(C19_gap cx p).1]
  cases p.clear with
  | uncleared => exact ⟨c, cs ++ spaces (gapWidth cx p) ++ afterGap cx p, by simp [clearMark, hc, spaces_four], hne⟩
  | cleared =>
    exact ⟨'*', ' ' :: p.account.toList ++ spaces (gapWidth cx p) ++ afterGap cx p, by simp [clearMark, spaces_four], by decide⟩
  | pending =>
    exact ⟨'!', ' ' :: p.account.toList ++ spaces (gapWidth cx p) ++ afterGap cx p, by simp [clearMark, spaces_four], by decide⟩

/-- **C19_indent** — every posting line and every metadata line a transaction prints (every line body after the header)
starts with exactly four blanks. -/
theorem C19_indent (cx : Ctx) (t : Transaction) (hacc : ∀ p ∈ t.posts, AccountOK p) :
    ∀ l ∈ (txnLines cx t).tail, ∃ c rest, l = ' ' :: ' ' :: ' ' :: ' ' :: c :: rest ∧ c ≠ ' ' := by
  intro l hl
  simp only [txnLines_eq, List.tail_cons, List.mem_append, List.mem_map, List.mem_flatMap] at hl
  rcases hl with ⟨m, _, rfl⟩ | ⟨p, hp, hl⟩
  · exact metaLine_indent m
  · simp only [postingLines_eq, List.mem_cons, List.mem_map] at hl
    rcases hl with rfl | ⟨m, _, rfl⟩
    · exact postingHead_indent cx p (hacc p hp)
    · exact metaLine_indent m

theorem indent_text_of_bodies (cx : Ctx) (t : Transaction) (hacc : ∀ p ∈ t.posts, AccountOK p)
    (hnl : ∀ l ∈ txnLines cx t, '\n' ∉ l) :
    ∀ l ∈ (linesOf (printEntryG cx (.txn t))).tail, ∃ c rest, l = ' ' :: ' ' :: ' ' :: ' ' :: c :: rest ∧ c ≠ ' ' := by
  have : linesOf (printEntryG cx (.txn t)) = txnLines cx t := by
    simp only [printEntryG, entryLines]
    exact linesOf_unlines _ hnl
  rw [this]
  exact C19_indent cx t hacc

/-- **C19_indent**, on the printed text: when no field of the transaction holds a line feed (true of every parsed
transaction), every line of the printed transaction after the first starts with exactly four blanks. -/
theorem C19_indent_text (cx : Ctx) (hn : NumNoLF cx) (t : Transaction) (hacc : ∀ p ∈ t.posts, AccountOK p)
    (hnl : txnNoLF t) :
    ∀ l ∈ (linesOf (printEntryG cx (.txn t))).tail, ∃ c rest, l = ' ' :: ' ' :: ' ' :: ' ' :: c :: rest ∧ c ≠ ' ' :=
  indent_text_of_bodies cx t hacc (entryLines_nlf cx hn (.txn t) hnl)

/-! ## C19_blank -/

theorem lineWrap_ne_nil (pre content : List Char) (hpre : pre ≠ []) : ∀ l ∈ lineWrap pre content, l ≠ [] := by
  intro l hl
  simp only [lineWrap, List.mem_map] at hl
  obtain ⟨x, _, rfl⟩ := hl
  cases pre with
  | nil => exact absurd rfl hpre
  | cons c cs => simp

/-- no entry kind ever prints an empty line -/
theorem entryLines_ne_nil (cx : Ctx) (e : Entry) : ∀ l ∈ entryLines cx e, l ≠ [] := by
  intro l hl
  cases e with
  | txn t =>
    simp only [entryLines, txnLines_eq, List.mem_cons, List.mem_append, List.mem_map, List.mem_flatMap] at hl
    rcases hl with rfl | ⟨m, _, rfl⟩ | ⟨p, _, hl⟩
    · simp [txnHeader, fmtDate]
    · simp [metaLine]
    · simp only [postingLines_eq, List.mem_cons, List.mem_map] at hl
      rcases hl with rfl | ⟨m, _, rfl⟩
      · simp [postingHead, Params.postingIndent]
      · simp [metaLine]
  | comment s => exact lineWrap_ne_nil _ _ (by simp) l hl
  | applyTag k v =>
    simp only [entryLines, List.mem_singleton] at hl
    subst hl; simp
  | endApplyTag =>
    simp only [entryLines, List.mem_singleton] at hl
    subst hl; simp
  | «include» p =>
    simp only [entryLines, List.mem_singleton] at hl
    subst hl; simp
  | account n ds =>
    simp only [entryLines, List.mem_cons, List.mem_flatMap] at hl
    rcases hl with rfl | ⟨d, _, hl⟩
    · simp
    · cases d with
      | comment s => exact lineWrap_ne_nil _ _ (by simp [Params.detailCommentPrefix]) l hl
      | note s => exact lineWrap_ne_nil _ _ (by simp [Params.detailNotePrefix]) l hl
      | alias s =>
        simp only [accountDetailLines, List.mem_singleton] at hl
        subst hl; simp [Params.detailAliasPrefix]
  | commodity n ds =>
    simp only [entryLines, List.mem_cons, List.mem_flatMap] at hl
    rcases hl with rfl | ⟨d, _, hl⟩
    · simp
    · cases d with
      | comment s => exact lineWrap_ne_nil _ _ (by simp [Params.cdetailCommentPrefix]) l hl
      | note s => exact lineWrap_ne_nil _ _ (by simp [Params.cdetailNotePrefix]) l hl
      | alias s =>
        simp only [commodityDetailLines, List.mem_singleton] at hl
        subst hl; simp [Params.cdetailAliasPrefix]
      | format v c =>
        simp only [commodityDetailLines, List.mem_singleton] at hl
        subst hl; simp [Params.cdetailFormatPrefix]

theorem linesOf_format (cx : Ctx) (es : List Entry) (hnl : ∀ e ∈ es, ∀ l ∈ entryLines cx e, '\n' ∉ l) :
    linesOf (formatEntriesG cx es) = es.flatMap (fun e => entryLines cx e ++ [[]]) := by
  induction es with
  | nil => simp [formatEntriesG, linesOf, linesAux]
  | cons e es ih =>
    have ih' := ih (fun x hx => hnl x (List.mem_cons_of_mem _ hx))
    have h1 : formatEntriesG cx (e :: es) = unlines (entryLines cx e ++ [[]]) ++ formatEntriesG cx es := by
      simp [formatEntriesG, printEntryG, unlines]
    rw [h1, linesOf_unlines_append, ih']
    · simp
    · intro l hl
      rcases List.mem_append.mp hl with h | h
      · exact hnl e List.mem_cons_self l h
      · simp at h; subst h; simp

theorem rustLinesAux_ne_nil (cs : List Char) : ∀ cur : List Char, cur ≠ [] → rustLinesAux cs cur ≠ [] := by
  induction cs with
  | nil =>
    intro cur h
    cases cur with
    | nil => exact absurd rfl h
    | cons c cur => simp [rustLinesAux]
  | cons c cs ih =>
    intro cur _
    rw [rustLinesAux]
    split
    · simp
    · exact ih (c :: cur) (by simp)

/-- every entry prints at least one line, except a top-level comment without text (which the parser never returns) -/
theorem entryLines_ne_empty (cx : Ctx) (e : Entry) (h : ∀ s, e = .comment s → s.toList ≠ []) : entryLines cx e ≠ [] := by
  cases e with
  | comment s =>
    have hs := h s rfl
    simp only [entryLines, lineWrap, rustLines, ne_eq, List.map_eq_nil_iff]
    cases hl : s.toList with
    | nil => exact absurd hl hs
    | cons c cs =>
      rw [rustLinesAux]
      split
      · simp
      · exact rustLinesAux_ne_nil cs [c] (by simp)
  | txn t => simp [entryLines, txnLines]
  | applyTag k v => simp [entryLines]
  | endApplyTag => simp [entryLines]
  | «include» p => simp [entryLines]
  | account n ds => simp [entryLines]
  | commodity n ds => simp [entryLines]

/-- **C19_blank** — when no single-line field holds a line feed (true of every parsed ledger), the formatted text
consists, entry by entry, of the entry's lines — at least one, none of them empty — followed by exactly one empty line:
entries are separated by exactly one empty line. -/
theorem C19_blank (cx : Ctx) (hn : NumNoLF cx) (es : List Entry) (hnl : ∀ e ∈ es, entryNoLF e) :
    linesOf (formatEntriesG cx es) = es.flatMap (fun e => entryLines cx e ++ [[]])
    ∧ (∀ e ∈ es, ∀ l ∈ entryLines cx e, l ≠ [])
    ∧ (∀ e ∈ es, (∀ s, e = .comment s → s.toList ≠ []) → entryLines cx e ≠ []) :=
  ⟨linesOf_format cx es (fun e he => entryLines_nlf cx hn e (hnl e he)), fun e _ => entryLines_ne_nil cx e,
    fun e _ h => entryLines_ne_empty cx e h⟩

/-- `FormatOptions::format` on a ledger that parses writes `formatEntriesG` of all entries; on a ledger whose parse fails it
has written `formatEntriesG` of the entries before the error (so `C19_blank` describes whatever was written), and returns
the error. -/
theorem format_writes_prefix {ε : Type} (cx : Ctx) (es : List Entry) :
    formatResults (ε := ε) cx (es.map .ok) = (formatEntriesG cx es, none)
    ∧ ∀ (e : ε) rest, formatResults cx (es.map .ok ++ .error e :: rest) = (formatEntriesG cx es, some e) := by
  induction es with
  | nil => simp [formatResults, formatEntriesG]
  | cons en es ih =>
    refine ⟨?_, fun e rest => ?_⟩
    · simp [formatResults, ih.1, formatEntriesG]
    · simp [formatResults, ih.2 e rest, formatEntriesG]

/-- for a plain amount the numeric part is the printed number, and what follows is a blank and the commodity -/
theorem numericPart_amt (cx : Ctx) (hnum : NumOK cx) (v : PDec) (c : String) :
    numericPart cx (.amt v c) = cx.num v c
    ∧ afterNumeric cx (.amt v c) = if c.isEmpty then [] else ' ' :: c.toList := by
  have hb := (hnum v c).byteLen
  unfold numericPart afterNumeric
  rw [fmtVExpr]
  split <;> simp [Alignment.absolute, hb]

/-! ## the hypotheses hold for the printer as okane runs it -/

/-- the real number printer (`rescale(amount, ctx).to_string()`) emits only `[0-9,.-]`, which take one byte and, in the
width table validated against unicode-width, one column -/
theorem std_numOK (prec : String → Nat) : NumOK (Ctx.std prec) := by
  intro v c ch hch
  exact (mem_printPDec _ ch hch).narrow

theorem std_symOK (prec : String → Nat) : SymOK (Ctx.std prec).w := by
  intro c hc
  show widthCjk c = 1
  simp only [List.mem_cons, List.not_mem_nil, or_false] at hc
  rcases hc with rfl | rfl | rfl | rfl | rfl | rfl | rfl <;> decide

/-- C19_column for the printer as okane runs it, for every declared precision -/
theorem C19_column_std (prec : String → Nat) (p : Posting) (a : PostingAmount) (ha : p.amount = some a)
    (hshort : strWidth widthCjk (clearMark p.clear ++ p.account.toList)
                + (numericPart (Ctx.std prec) a.amount).length + 2 < 48) :
    strWidth widthCjk (headUpToNumber (Ctx.std prec) p a) = 52 :=
  (C19_column_display (Ctx.std prec) (std_numOK prec) (std_symOK prec) p a ha hshort).2

/-! ## non-vacuity: the hypotheses are met by concrete postings, and the conclusions are the layout one sees -/

section Examples

private def cx0 : Ctx := Ctx.std (fun _ => 0)
private def usd (mant scale : Nat) : VExpr := .amt ⟨false, mant, scale, none⟩ "USD"
private def pAmt : Posting := { account := "Assets:Bank", amount := some { amount := usd 12345 2 } }
/-- a context in which `W` is a wide character (two columns), to exercise widths that differ from lengths -/
private def cxW : Ctx := { cx0 with w := fun c => if c.toNat == 87 then 2 else widthCjk c }
private def pWide : Posting := { account := "WWW:WW", clear := .pending, amount := some { amount := usd 5 0 } }
private def pAssert : Posting := { account := "Account", amount := some { amount := usd 1 0 }, balance := some (usd 1 0) }
private def pBal : Posting := { account := "Account", balance := some (usd 1 0) }
private def pLong : Posting :=
  { account := "Liabilities:CreditCard:SomeVeryLongBankName:AnotherSegment:limit", balance := some (.amt ⟨false, 0, 0, none⟩ "") }
private def tEx : Transaction :=
  { date := ⟨2024, 1, 2⟩, payee := "shop", metadata := [.comment "note"], posts := [pAmt, pWide, pAssert, pBal, pLong] }

-- what the model prints
example : postingHead cx0 pAmt = "    Assets:Bank                               123.45 USD".toList := by decide +kernel
example : postingHead cxW pWide = "    ! WWW:WW                                  5 USD".toList := by decide +kernel
example : postingHead cx0 pAssert = "    Account                                        1 USD = 1 USD".toList := by decide +kernel
example : postingHead cx0 pBal = "    Account                                              = 1 USD".toList := by decide +kernel
example : postingHead cx0 pLong
    = "    Liabilities:CreditCard:SomeVeryLongBankName:AnotherSegment:limit  = 0".toList := by decide +kernel

-- C19_column: the hypothesis holds for an ASCII and for a wide account; the numeric part ends at column 52
example : strWidth cx0.w (headUpToNumber cx0 pAmt { amount := usd 12345 2 }) = 52 :=
  (C19_column_display cx0 (std_numOK _) (std_symOK _) pAmt _ rfl (by decide +kernel)).2
example : strWidth cxW.w (headUpToNumber cxW pWide { amount := usd 5 0 }) = 52 := by decide +kernel
example : (headUpToNumber cxW pWide { amount := usd 5 0 }).length = 47 := by decide +kernel  -- 5 wide characters
-- C19_gap: something follows the account; the F11 witness (66-column account, balance only) now gets two blanks
example : 2 ≤ gapWidth cx0 pLong := (C19_gap cx0 pLong).2 (by decide)
example : gapWidth cx0 pLong = 2 := by decide +kernel
-- the padding 3 of the balance-only rule is what keeps two blanks (F11: with 2, a 60-column account got one)
example : getColumn 50 60 3 - 1 = 2 ∧ getColumn 50 60 2 - 1 = 1 := by decide
-- C19_fallback: hypothesis met by a long account
example : amountPad cx0 { pLong with amount := some { amount := usd 5 0 } } { amount := usd 5 0 } = 2 :=
  C19_fallback cx0 (std_numOK _) (std_symOK _) _ _ (by decide +kernel)
example : gapWidth cx0 pLong = 2 :=
  C19_balance_fallback cx0 (std_numOK _) (std_symOK _) pLong _ rfl rfl (by decide +kernel)
-- C19_balance: `=` in column 54 + 4 (the width of " USD"), with and without an amount before it
example : strWidth cx0.w (beforeEq cx0 pBal) = 53 + strWidth cx0.w (afterNumeric cx0 (usd 1 0)) :=
  (C19_balance cx0 (std_numOK _) (std_symOK _) pBal (usd 1 0) rfl rfl (by decide +kernel)).2
example : strWidth cx0.w (beforeEq cx0 pAssert) = strWidth cx0.w (beforeEq cx0 pBal) :=
  C19_balance_same_column cx0 (std_numOK _) (std_symOK _) pBal pAssert (usd 1 0) { amount := usd 1 0 }
    rfl rfl rfl rfl rfl rfl rfl rfl (by decide +kernel)
example : strWidth cx0.w (beforeEq cx0 pBal) = 57 := by decide +kernel
-- C19_indent / C19_blank: the hypotheses hold for a transaction with five postings and a comment entry
example : ∀ p ∈ tEx.posts, AccountOK p := by
  intro p hp
  simp only [tEx, List.mem_cons, List.not_mem_nil, or_false] at hp
  rcases hp with rfl | rfl | rfl | rfl | rfl
  · exact ⟨'A', "ssets:Bank".toList, by decide +kernel, by decide⟩
  · exact ⟨'W', "WW:WW".toList, by decide +kernel, by decide⟩
  · exact ⟨'A', "ccount".toList, by decide +kernel, by decide⟩
  · exact ⟨'A', "ccount".toList, by decide +kernel, by decide⟩
  · exact ⟨'L', "iabilities:CreditCard:SomeVeryLongBankName:AnotherSegment:limit".toList, by decide +kernel, by decide⟩
example : ∀ e ∈ [Entry.txn tEx, .comment " top\n second\n"], ∀ l ∈ entryLines cx0 e, '\n' ∉ l := by decide +kernel
example : NumNoLF cx0 := std_numNoLF _
example : entryNoLF (.comment " top\n second\n") ∧ entryNoLF (.include "a.ledger") ∧ entryNoLF (.applyTag "k" (some (.text "v"))) := by
  refine ⟨trivial, ?_, ?_, ?_⟩ <;> (try unfold optNoLF metaValueNoLF) <;> (show '\n' ∉ _) <;> decide +kernel
example : postingNoLF pAmt := by
  refine ⟨?_, ?_, trivial, ?_⟩
  · show '\n' ∉ _; decide +kernel
  · refine ⟨?_, trivial, trivial, trivial⟩
    show '\n' ∉ _; decide +kernel
  · intro m hm; cases hm
example : linesOf (formatEntriesG cx0 [.comment " top\n second\n", .include "a.ledger"])
    = ["; top".toList, "; second".toList, [], "include a.ledger".toList, []] := by decide +kernel
-- the alignment of the unit test's expression `((1.20 + 2.67) * 3.1 USD + 5 USD)` is 20
example : (fmtVExpr cx0 (.paren (.bin .add (.bin .mul (.val (.paren (.bin .add (.val (.amt ⟨false, 120, 2, none⟩ ""))
    (.val (.amt ⟨false, 267, 2, none⟩ ""))))) (.val (.amt ⟨false, 31, 1, none⟩ "USD"))) (.val (usd 5 0))))).2 = .complete 20 := by
  decide +kernel

end Examples

end Okane.Print
