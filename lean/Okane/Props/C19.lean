/-! # C19 — property theorems (stub) -/
