import Okane.Lemmas.Expr
import Okane.Model.ExprSyntax
import Okane.Lemmas.ExprParse
import Okane.Lemmas.ExprParseImage
/-!
# C08 — value expressions evaluate as ordinary arithmetic with commodity typing

Model: `Okane.evalRo` / `Okane.evalMut` (`report/eval.rs`), `Okane.Evaluated.check*` (`eval/evaluated.rs`),
`Okane.Amount` (`eval/amount.rs`).  Statement: `Okane.Spec` (`Spec/Expr.lean`): grammar-stratified trees and
their denotation into numbers / commodity-indexed families of exact rationals.
-/
namespace Okane.C08
open Okane Okane.Spec

/-- outcome of the model evaluator vs outcome of the reference denotation -/
def CorrV : Outcome EvalErr (Evaluated String) → Outcome EvalErr RVal → Prop
  | .ok x, .ok y => Rel x y
  | .err e, .err e' => e = e'
  | _, _ => False

/-- the same with the commodity store threaded through (`I` = what stays true of the store) -/
def CorrL (I : Store → Prop) : Outcome EvalErr (Evaluated String × Store) → Outcome EvalErr RVal → Prop
  | .ok (x, s'), .ok y => I s' ∧ Rel x y
  | .err e, .err e' => e = e'
  | _, _ => False

/-! ## The four operators and negation compute the reference operations -/

theorem negate_corr {x : Evaluated String} {y : RVal} (h : Rel x y) : Rel x.negate y.neg := by
  cases x <;> cases y <;> simp only [Rel] at h ⊢
  · simp [Evaluated.negate, RVal.neg, Rel, h]
  · simp only [Evaluated.negate, RVal.neg, Rel, Amount.neg]
    exact relAmt_mapVals (fun v => -v) (by simp) h

theorem checkAdd_corr {lv rv : Evaluated String} {L R : RVal} (hl : Rel lv L) (hr : Rel rv R) :
    CorrV (lv.checkAdd rv) (L.add R) := by
  cases lv <;> cases rv <;> cases L <;> cases R <;> simp only [Rel] at hl hr <;>
    simp only [Evaluated.checkAdd, RVal.add, CorrV, Rel]
  · rw [hl, hr]
  · exact relAmt_add hl hr

theorem checkSub_corr {lv rv : Evaluated String} {L R : RVal} (hl : Rel lv L) (hr : Rel rv R) :
    CorrV (lv.checkSub rv) (L.sub R) := by
  cases lv <;> cases rv <;> cases L <;> cases R <;> simp only [Rel] at hl hr <;>
    simp only [Evaluated.checkSub, RVal.sub, CorrV, Rel]
  · rw [hl, hr]
  · exact relAmt_sub hl hr

theorem checkMul_corr {lv rv : Evaluated String} {L R : RVal} (hl : Rel lv L) (hr : Rel rv R) :
    CorrV (lv.checkMul rv) (L.mul R) := by
  cases lv <;> cases rv <;> cases L <;> cases R <;> simp only [Rel] at hl hr <;>
    simp only [Evaluated.checkMul, RVal.mul, CorrV, Rel]
  · rw [hl, hr]
  · subst hl
    exact relAmt_mapVals (fun v => v * _) (by simp [Rat.zero_mul]) hr
  · subst hr
    exact relAmt_mapVals (fun v => v * _) (by simp [Rat.zero_mul]) hl

theorem isZero_corr {x : Evaluated String} {y : RVal} (h : Rel x y) : x.isZero = y.isZero := by
  cases x <;> cases y <;> simp only [Rel] at h
  · simp [Evaluated.isZero, RVal.isZero, h]
  · simp only [Evaluated.isZero]
    exact relAmt_isZero h

theorem checkDiv_corr {lv rv : Evaluated String} {L R : RVal} (hl : Rel lv L) (hr : Rel rv R) :
    CorrV (lv.checkDiv rv) (L.div R) := by
  unfold Evaluated.checkDiv RVal.div
  rw [isZero_corr hr]
  by_cases hz : R.isZero = true
  · simp [hz, CorrV]
  · simp only [hz, Bool.false_eq_true, if_false]
    cases lv <;> cases rv <;> cases L <;> cases R <;> simp only [Rel] at hl hr <;>
      simp only [CorrV, Rel]
    · -- number / number
      rw [hl, hr]
    · -- number / commodities
      rename_i x y x' ks f
      subst hl
      have hs := relAmt_toSingle hr
      cases hsk : RVal.single? ks with
      | none =>
        rw [hsk] at hs
        simp only at hs
        simp [hs, CorrV]
      | some k =>
        rw [hsk] at hs
        simp only at hs
        obtain ⟨hmem, hall⟩ := single?_some hsk
        have hne : f k ≠ 0 := by
          intro h0
          apply hz
          simp only [RVal.isZero, List.all_eq_true, beq_iff_eq]
          intro c hc
          rw [hall c hc, h0]
        simp only [hs, SingleAmount.checkDiv, hne, if_false, Outcome.map', CorrV, Rel]
        refine ⟨by simp [AMap.WF, AMap.keys], by intro c; simp [AMap.keys], ?_⟩
        intro c
        rw [getPart_cons, getPart_nil]
        by_cases h : k = c
        · subst h; simp
        · simp [h, Ne.symm h]
    · -- commodities / number
      rename_i a y ks f y'
      subst hr
      have hy : y ≠ 0 := by
        intro h0; apply hz; simp [RVal.isZero, h0]
      simp only [Amount.checkDiv, hy, if_false, Outcome.map', CorrV, Rel]
      exact relAmt_mapVals (fun v => v / y) (by simp [Rat.div_def]) hl

/-- the reference operation behind each `BinaryOp` -/
def refOp : BinOp → RVal → RVal → Outcome EvalErr RVal
  | .add => RVal.add
  | .sub => RVal.sub
  | .mul => RVal.mul
  | .div => RVal.div

theorem applyBin_corr (op : BinOp) {lv rv : Evaluated String} {L R : RVal} (hl : Rel lv L) (hr : Rel rv R) :
    CorrV (applyBin op lv rv) (refOp op L R) := by
  cases op <;> simp only [applyBin, refOp]
  · exact checkAdd_corr hl hr
  · exact checkSub_corr hl hr
  · exact checkMul_corr hl hr
  · exact checkDiv_corr hl hr

/-! ## The evaluator computes the denotation (any leaf function that respects the store invariant) -/

section
variable (leaf : Store → PDec → String → Outcome EvalErr (Evaluated String × Store))
variable (ρ : String → Option String) (I : Store → Prop)

theorem bin_corr (op : BinOp) (el er : Expr) (dl dr : Outcome EvalErr RVal) (s : Store)
    (hl : CorrL I (evalExprWith leaf s el) dl)
    (hr : ∀ s1, I s1 → CorrL I (evalExprWith leaf s1 er) dr) :
    CorrL I (evalExprWith leaf s (.bin op el er)) (bind2 dl dr (refOp op)) := by
  rw [evalExprWith]
  cases h1 : evalExprWith leaf s el with
  | ok p =>
    obtain ⟨lv, s1⟩ := p
    rw [h1] at hl
    cases dl with
    | ok L =>
      simp only [CorrL] at hl
      have hr' := hr s1 hl.1
      simp only [bind2]
      cases h2 : evalExprWith leaf s1 er with
      | ok q =>
        obtain ⟨rv, s2⟩ := q
        rw [h2] at hr'
        cases dr with
        | ok R =>
          simp only [CorrL] at hr'
          have := applyBin_corr op hl.2 hr'.2
          simp only
          cases h3 : applyBin op lv rv <;> cases h4 : refOp op L R <;> rw [h3, h4] at this <;>
            simp only [CorrV] at this <;> simp only [CorrL]
          · exact ⟨hr'.1, this⟩
          · exact this
        | err e => simp [CorrL] at hr'
        | panic p => simp [CorrL] at hr'
        | fuelOut => simp [CorrL] at hr'
      | err e =>
        rw [h2] at hr'
        cases dr <;> simp only [CorrL] at hr' ⊢
        exact hr'
      | panic p => rw [h2] at hr'; cases dr <;> simp [CorrL] at hr'
      | fuelOut => rw [h2] at hr'; cases dr <;> simp [CorrL] at hr'
    | err e => simp [CorrL] at hl
    | panic p => simp [CorrL] at hl
    | fuelOut => simp [CorrL] at hl
  | err e =>
    rw [h1] at hl
    cases dl <;> simp only [CorrL] at hl ⊢
    simp only [bind2, CorrL]
    exact hl
  | panic p => rw [h1] at hl; cases dl <;> simp [CorrL] at hl
  | fuelOut => rw [h1] at hl; cases dl <;> simp [CorrL] at hl

theorem neg_corr (e : Expr) (d : Outcome EvalErr RVal) (s : Store)
    (h : CorrL I (evalExprWith leaf s e) d) :
    CorrL I (evalExprWith leaf s (.neg e)) (d.map' RVal.neg) := by
  rw [evalExprWith]
  cases h1 : evalExprWith leaf s e with
  | ok p =>
    obtain ⟨v, s1⟩ := p
    rw [h1] at h
    cases d <;> simp only [CorrL] at h
    simp only [Outcome.map', CorrL]
    exact ⟨h.1, negate_corr h.2⟩
  | err e => rw [h1] at h; cases d <;> simp only [CorrL] at h; simp only [Outcome.map', CorrL]; exact h
  | panic p => rw [h1] at h; cases d <;> simp [CorrL] at h
  | fuelOut => rw [h1] at h; cases d <;> simp [CorrL] at h

variable (H : ∀ s v c, I s → CorrL I (leaf s v c) (denLeaf ρ v c))
include H

mutual
theorem addE_corr : ∀ (a : AddE) (s : Store), I s → CorrL I (evalExprWith leaf s a.toExpr) (a.den ρ)
  | .one m, s, hs => by
    simp only [AddE.toExpr, AddE.den]; exact mulE_corr m s hs
  | .add l r, s, hs => by
    simp only [AddE.toExpr, AddE.den]
    exact bin_corr leaf I .add _ _ _ _ s (addE_corr l s hs) (fun s1 h1 => mulE_corr r s1 h1)
  | .sub l r, s, hs => by
    simp only [AddE.toExpr, AddE.den]
    exact bin_corr leaf I .sub _ _ _ _ s (addE_corr l s hs) (fun s1 h1 => mulE_corr r s1 h1)
theorem mulE_corr : ∀ (m : MulE) (s : Store), I s → CorrL I (evalExprWith leaf s m.toExpr) (m.den ρ)
  | .one u, s, hs => by
    simp only [MulE.toExpr, MulE.den]; exact unaryE_corr u s hs
  | .mul l r, s, hs => by
    simp only [MulE.toExpr, MulE.den]
    exact bin_corr leaf I .mul _ _ _ _ s (mulE_corr l s hs) (fun s1 h1 => unaryE_corr r s1 h1)
  | .div l r, s, hs => by
    simp only [MulE.toExpr, MulE.den]
    exact bin_corr leaf I .div _ _ _ _ s (mulE_corr l s hs) (fun s1 h1 => unaryE_corr r s1 h1)
theorem unaryE_corr : ∀ (u : UnaryE) (s : Store), I s → CorrL I (evalExprWith leaf s u.toExpr) (u.den ρ)
  | .pos v, s, hs => by
    simp only [UnaryE.toExpr, UnaryE.den]
    rw [evalExprWith]; exact valueE_corr v s hs
  | .neg v, s, hs => by
    simp only [UnaryE.toExpr, UnaryE.den]
    apply neg_corr
    rw [evalExprWith]; exact valueE_corr v s hs
theorem valueE_corr : ∀ (v : ValueE) (s : Store), I s → CorrL I (evalVExprWith leaf s v.toVExpr) (v.den ρ)
  | .amt value commodity, s, hs => by
    simp only [ValueE.toVExpr, ValueE.den]
    rw [evalVExprWith]; exact H s value commodity hs
  | .paren a, s, hs => by
    simp only [ValueE.toVExpr, ValueE.den]
    rw [evalVExprWith]; exact addE_corr a s hs
end

end

/-! ## C08_eval — the two evaluators of `report/eval.rs` -/

theorem rel_leaf (k : String) (r : Rat) :
    Rel (.commodities [(k, r)]) (.com [k] fun c => if c = k then r else 0) := by
  simp only [Rel]
  refine ⟨by simp [AMap.WF, AMap.keys], by intro c; simp [AMap.keys], ?_⟩
  intro c
  rw [getPart_cons, getPart_nil]
  by_cases h : k = c
  · subst h; simp
  · simp [h, Ne.symm h]

theorem leafRo_corr (s0 : Store) (s : Store) (v : PDec) (c : String) (hs : s = s0) :
    CorrL (fun s => s = s0) (leafRo s v c) (denLeaf s0.resolve v c) := by
  subst hs
  unfold leafRo denLeaf
  by_cases hc : c.isEmpty = true
  · simp [hc, CorrL, Rel]
  · simp only [hc, Bool.false_eq_true, if_false]
    cases h : s.resolve c with
    | none => simp [CorrL]
    | some k => simp only [CorrL, true_and]; exact rel_leaf k _

/-- **C08_eval** (read-only evaluator, `Evaluable::eval`, used by `Ledger::eval`): for every stratified tree and
every commodity store the model evaluator returns exactly the reference denotation — the same number, or the
same quantity of every commodity and the same set of commodities, or the same error. -/
theorem C08_eval (s : Store) (v : ValueE) : CorrV (evalRo s v.toVExpr) (v.den s.resolve) := by
  have h := valueE_corr leafRo s.resolve (fun s' => s' = s) (fun s' v c hs => leafRo_corr s s' v c hs) v s rfl
  unfold evalRo
  cases h1 : evalVExprWith leafRo s v.toVExpr with
  | ok p =>
    obtain ⟨x, s'⟩ := p
    rw [h1] at h
    cases h2 : v.den s.resolve <;> rw [h2] at h <;> simp only [CorrL] at h <;> simp only [Outcome.map', CorrV]
    exact h.2
  | err e =>
    rw [h1] at h
    cases h2 : v.den s.resolve <;> rw [h2] at h <;> simp only [CorrL] at h <;> simp only [Outcome.map', CorrV]
    exact h
  | panic p => rw [h1] at h; cases h2 : v.den s.resolve <;> rw [h2] at h <;> simp [CorrL] at h
  | fuelOut => rw [h1] at h; cases h2 : v.den s.resolve <;> rw [h2] at h <;> simp [CorrL] at h

theorem resolve_none_iff (s : Store) (n : String) : s.resolve n = none ↔ AMap.get? s.recs n = none := by
  unfold Store.resolve
  cases AMap.get? s.recs n with
  | none => simp
  | some o => cases o <;> simp

/-- registering a commodity does not change what any name resolves to -/
theorem ensure_stable (s : Store) (n c : String) : ((s.ensure n).2.ensure c).1 = (s.ensure c).1 := by
  unfold Store.ensure
  cases hn : s.resolve n with
  | some k => simp
  | none =>
    simp only
    have hg := (resolve_none_iff s n).1 hn
    by_cases hc : n = c
    · subst hc
      have : Store.resolve ⟨AMap.insert s.recs n none⟩ n = some n := by
        simp [Store.resolve, AMap.get?_insert]
      simp [this, hn]
    · have : Store.resolve ⟨AMap.insert s.recs n none⟩ c = s.resolve c := by
        simp [Store.resolve, AMap.get?_insert, hc]
      rw [this]
      cases s.resolve c <;> simp

/-- what a name denotes under the registering evaluator: its canonical name if known, itself otherwise -/
def ensured (s : Store) (c : String) : Option String := some (s.ensure c).1

theorem leafMut_corr (s0 s : Store) (v : PDec) (c : String) (hs : ∀ n, (s.ensure n).1 = (s0.ensure n).1) :
    CorrL (fun s => ∀ n, (s.ensure n).1 = (s0.ensure n).1) (leafMut s v c) (denLeaf (ensured s0) v c) := by
  unfold leafMut denLeaf ensured
  by_cases hc : c.isEmpty = true
  · simp only [hc, if_true, CorrL, Rel]
    exact ⟨hs, trivial⟩
  · simp only [hc, Bool.false_eq_true, if_false, CorrL]
    refine ⟨?_, ?_⟩
    · intro n; rw [ensure_stable, hs]
    · rw [← hs c]; exact rel_leaf _ _

/-- **C08_eval_mut** (registering evaluator, `Evaluable::eval_mut`, used for posting amounts, costs, lot prices and
balance assertions): the same, for every store; the threaded store keeps resolving every name as before. -/
theorem C08_eval_mut (s : Store) (v : ValueE) :
    CorrL (fun s' => ∀ n, (s'.ensure n).1 = (s.ensure n).1) (evalMut s v.toVExpr) (v.den (ensured s)) :=
  valueE_corr leafMut (ensured s) _ (fun s' v c hs => leafMut_corr s s' v c hs) v s (fun _ => rfl)

/-! ## C08_typing — each ill-typed shape is an error with the right kind, never a value -/

section
variable (leaf : Store → PDec → String → Outcome EvalErr (Evaluated String × Store))

theorem bin_eval {op : BinOp} {l r : Expr} {s s1 s2 : Store} {lv rv : Evaluated String}
    (hl : evalExprWith leaf s l = .ok (lv, s1)) (hr : evalExprWith leaf s1 r = .ok (rv, s2)) :
    evalExprWith leaf s (.bin op l r) = (applyBin op lv rv).map' (fun v => (v, s2)) := by
  rw [evalExprWith, hl]; simp only; rw [hr]; simp only
  cases applyBin op lv rv <;> rfl

/-- number ± amount and amount ± number -/
theorem C08_typing_addsub {op : BinOp} (hop : op = .add ∨ op = .sub) {l r : Expr} {s s1 s2 : Store}
    {lv rv : Evaluated String}
    (hl : evalExprWith leaf s l = .ok (lv, s1)) (hr : evalExprWith leaf s1 r = .ok (rv, s2))
    (hmixed : (∃ x a, lv = .number x ∧ rv = .commodities a) ∨ (∃ a x, lv = .commodities a ∧ rv = .number x)) :
    evalExprWith leaf s (.bin op l r) = .err .unmatchingOperation := by
  rw [bin_eval leaf hl hr]
  rcases hop with h | h <;> subst h <;> rcases hmixed with ⟨x, a, h1, h2⟩ | ⟨a, x, h1, h2⟩ <;> subst h1 <;> subst h2 <;> rfl

/-- amount × amount -/
theorem C08_typing_mul {l r : Expr} {s s1 s2 : Store} {a b : Amount String}
    (hl : evalExprWith leaf s l = .ok (.commodities a, s1)) (hr : evalExprWith leaf s1 r = .ok (.commodities b, s2)) :
    evalExprWith leaf s (.bin .mul l r) = .err .unmatchingOperation := by
  rw [bin_eval leaf hl hr]; rfl

/-- anything / zero (a zero number, a zero amount, an amount whose every entry is zero, the empty amount) -/
theorem C08_typing_div_zero {l r : Expr} {s s1 s2 : Store} {lv rv : Evaluated String}
    (hl : evalExprWith leaf s l = .ok (lv, s1)) (hr : evalExprWith leaf s1 r = .ok (rv, s2)) (hz : rv.isZero = true) :
    evalExprWith leaf s (.bin .div l r) = .err .divideByZero := by
  rw [bin_eval leaf hl hr]; simp [applyBin, Evaluated.checkDiv, hz, Outcome.map']

/-- amount / amount -/
theorem C08_typing_div_amounts {l r : Expr} {s s1 s2 : Store} {a b : Amount String}
    (hl : evalExprWith leaf s l = .ok (.commodities a, s1)) (hr : evalExprWith leaf s1 r = .ok (.commodities b, s2)) :
    evalExprWith leaf s (.bin .div l r) = .err .unmatchingOperation ∨
    evalExprWith leaf s (.bin .div l r) = .err .divideByZero := by
  rw [bin_eval leaf hl hr]
  simp only [applyBin, Evaluated.checkDiv]
  by_cases hz : (Evaluated.commodities b).isZero = true
  · right; simp [hz, Outcome.map']
  · left; simp [hz, Outcome.map']

/-- number / multi-commodity amount -/
theorem C08_typing_div_multi {l r : Expr} {s s1 s2 : Store} {x : Rat} {b : Amount String}
    (hl : evalExprWith leaf s l = .ok (.number x, s1)) (hr : evalExprWith leaf s1 r = .ok (.commodities b, s2))
    (hmulti : 2 ≤ b.length) :
    evalExprWith leaf s (.bin .div l r) = .err .singleAmountRequired ∨
    evalExprWith leaf s (.bin .div l r) = .err .divideByZero := by
  rw [bin_eval leaf hl hr]
  simp only [applyBin, Evaluated.checkDiv]
  by_cases hz : (Evaluated.commodities b).isZero = true
  · right; simp [hz, Outcome.map']
  · left
    match b, hmulti with
    | _ :: _ :: _, _ => simp [hz, Amount.toSingle, Outcome.map']

end

/-- **C08_typing**, at the level of the statement: whenever the reference denotation of a stratified tree is an
error (an ill-typed operation, a division by zero, an unknown commodity), the evaluator returns that error
and no value; whenever the evaluator returns a value, the denotation is defined and equal to it. -/
theorem C08_typing (s : Store) (v : ValueE) (e : EvalErr) (h : v.den s.resolve = .err e) :
    evalRo s v.toVExpr = .err e := by
  have := C08_eval s v
  rw [h] at this
  cases h1 : evalRo s v.toVExpr <;> rw [h1] at this <;> simp only [CorrV] at this
  rw [this]

/-! ## C08_single / C08_posting / C08_amount — where a single amount is required -/

/-- **C08_single**: `SingleAmount::try_from` succeeds only on an amount with exactly one entry, and returns it. -/
theorem C08_single (amt : Amount String) (sa : SingleAmount String) (h : amt.toSingle = .ok sa) :
    amt = [(sa.commodity, sa.value)] := by
  match amt, h with
  | [(c, v)], h => simp [Amount.toSingle] at h; subst h; rfl

/-- **C08_posting**: `PostingAmount::try_from` succeeds only on amounts with at most one entry. -/
theorem C08_posting (amt : Amount String) (p : PostingAmt String) (h : amt.toPosting = .ok p) :
    amt.length ≤ 1 ∧ p.toAmount = amt := by
  match amt, h with
  | [], h => simp [Amount.toPosting] at h; subst h; simp [PostingAmt.toAmount]
  | [(c, v)], h => simp [Amount.toPosting] at h; subst h; simp [PostingAmt.toAmount]

/-- a non-zero bare number is not an amount: posting amount, single amount and `Ledger::eval` all reject it -/
theorem C08_amount (n : Rat) (hn : n ≠ 0) :
    (Evaluated.number n : Evaluated String).toAmount = .err .amountRequired ∧
    (Evaluated.number n : Evaluated String).toPosting = .err .amountRequired ∧
    (Evaluated.number n : Evaluated String).toSingle = .err .amountRequired := by
  simp [Evaluated.toAmount, Evaluated.toPosting, Evaluated.toSingle, hn]

/-- a bare zero is the empty amount: admissible as a posting amount, not as a single amount (cost, lot price) -/
theorem C08_zero :
    (Evaluated.number 0 : Evaluated String).toPosting = .ok .zero ∧
    (Evaluated.number 0 : Evaluated String).toSingle = .err .singleAmountRequired := by
  simp [Evaluated.toAmount, Evaluated.toPosting, Evaluated.toSingle, Amount.toPosting, Amount.toSingle]

/-- **C08_multi**: a value whose denotation mentions two different commodities (a multi-commodity sum, even with
zero quantities) is rejected both as a single amount and as a posting amount. -/
theorem C08_multi (x : Evaluated String) (ks : List String) (f : String → Rat) (h : Rel x (.com ks f))
    (c1 c2 : String) (h1 : c1 ∈ ks) (h2 : c2 ∈ ks) (hne : c1 ≠ c2) :
    x.toSingle = .err .singleAmountRequired ∧ x.toPosting = .err .postingAmountRequired := by
  cases x with
  | number r => simp [Rel] at h
  | commodities a =>
    simp only [Rel] at h
    obtain ⟨hw, hk, _⟩ := h
    have m1 := (hk c1).2 h1
    have m2 := (hk c2).2 h2
    match a, m1, m2 with
    | [], m1, _ => simp [AMap.keys] at m1
    | [(c, v)], m1, m2 =>
      simp [AMap.keys] at m1 m2
      exact absurd (m1.trans m2.symm) hne
    | _ :: _ :: _, _, _ =>
      simp [Evaluated.toSingle, Evaluated.toPosting, Evaluated.toAmount, Amount.toSingle, Amount.toPosting]

/-! ## Non-vacuity -/

/-- a concrete ill-typed tree: `(3 A + 2)`; its denotation is the error, so is the evaluation -/
example : (ValueE.paren (.add (.one (.one (.pos (.amt ⟨false, 3, 0, none⟩ "A")))) (.one (.pos (.amt ⟨false, 2, 0, none⟩ ""))))).den
    (fun c => some c) = .err .unmatchingOperation := by
  simp [ValueE.den, AddE.den, MulE.den, UnaryE.den, denLeaf, bind2, RVal.add]

/-- the hypotheses of `C08_multi` are satisfiable: `1 A + 2 B` -/
example : Rel (.commodities [("A", 1), ("B", 2)]) (.com ["A", "B"] fun c => if c = "A" then 1 else if c = "B" then 2 else 0) := by
  simp only [Rel]
  refine ⟨by simp [AMap.WF, AMap.keys], by intro c; simp [AMap.keys], ?_⟩
  intro c
  rw [getPart_cons, getPart_cons, getPart_nil]
  by_cases h1 : "A" = c
  · subst h1; simp
  · by_cases h2 : "B" = c
    · subst h2; simp
    · simp [h1, h2, Ne.symm h1, Ne.symm h2]

/-- `C08_single` is not vacuous -/
example : Amount.toSingle [("A", (3 : Rat))] = .ok ⟨3, "A"⟩ := rfl

/-! ## C08_parse — the parser reads the printed form back: precedence and left associativity

Model: `Okane.ExprSyntax` (`parse/expr.rs`: `value_expr`, `paren_expr`, `add_expr`/`mul_expr` = `infixl` =
`separated_foldl1`, `unary_expr`, `amount`; `parse/primitive.rs`: `pretty_decimal`, `commodity`;
`syntax/display.rs`: `fmt_with_alignment`).  Proofs: `Lemmas/ExprParse.lean`.

A stratified tree `a : AddE` *is* a reading of an expression in which `*` and `/` bind tighter than `+` and `-`, and
operators of equal precedence nest to the left (`Spec/Expr.lean`).  `C08_parse` says that the text the printer writes
for the tree `a.toExpr` is read back by the parser as exactly `a.toExpr`, for every printable `a` and every
continuation; `C08_parse_unambiguous` that no other stratified tree has that text.
Printable (`AddE.ok`): numbers the literal scanner reads back (`wfNumber`), commodities made of commodity characters,
and no negative literal as an un-negated operand (`(-1)` is read as the negation of `1`: `not_C08_parse_wfOnly`). -/

open Okane.ExprSyntax Okane.ExprParse
open Okane.Unparse (noPrec wfVExpr)

/-- a parenthesised stratified sum, followed by anything at all, is read back as its own tree, and the reading of
that tree as a stratified tree (`Spec.ofVExpr`) is the tree we started from -/
theorem C08_parse (a : AddE) (rest : List Char) (hok : a.ok = true) :
    parseValueExpr (printVExpr noPrec (.paren a.toExpr) ++ rest) = .ok (.paren a.toExpr) rest ∧
    ofVExpr (.paren a.toExpr) = some (.paren a) := by
  have h := valueE_roundtrip (.paren a) rest (by simpa only [ValueE.ok] using hok) rfl
  rw [← valueE_print] at h
  exact ⟨h, ofVExpr_toVExpr (.paren a)⟩

/-- any stratified value (an amount, or a parenthesised sum) before a continuation that does not extend its last
token; after a number without commodity the parser also eats the blanks (`after`) -/
theorem C08_parse_value (v : ValueE) (rest : List Char) (hok : v.ok = true) (hf : v.follow rest = true) :
    parseValueExpr (printVExpr noPrec v.toVExpr ++ rest) = .ok v.toVExpr (after v.bare rest) := by
  rw [valueE_print]; exact valueE_roundtrip v rest hok hf

/-- `add_expr` itself (the parser inside parentheses), any sufficient fuel, before a continuation that neither
extends the last token nor continues the sum or the product -/
theorem C08_parse_sum (a : AddE) (f : Nat) (rest : List Char) (hok : a.ok = true)
    (hf : tokFollow a.bare rest = true) (hm : mulStop rest = true) (ha : addStop rest = true)
    (hfuel : 5 * (printExpr noPrec a.toExpr).length + 5 ≤ f) :
    addExpr f (printExpr noPrec a.toExpr ++ rest) = .ok a.toExpr (after a.bare rest) := by
  rw [addE_print] at hfuel ⊢; exact addE_roundtrip a f rest hok hf hm ha hfuel

/-- the same on the parser's own tree type (the form the ledger round trip C05 uses): every well-formed
(`Unparse.wfVExpr`: stratified, numbers and commodities printable) plain tree -/
theorem C08_parse_tree (v : VExpr) (rest : List Char) (hw : wfVExpr v = true) (hp : plainV v = true)
    (hf : follow v rest = true) :
    parseValueExpr (printVExpr noPrec v ++ rest) = .ok v (afterV v rest) :=
  parse_print v rest hw hp hf

/-- … before anything that can follow a value expression in a ledger file -/
theorem C08_parse_follow (v : VExpr) (rest : List Char) (hw : wfVExpr v = true) (hp : plainV v = true)
    (hf : ExprFollow rest = true) :
    ∃ r', parseValueExpr (printVExpr noPrec v ++ rest) = .ok v r' ∧ skipSpaces r' = skipSpaces rest ∧
      (r' = rest ∨ r' = skipSpaces rest) :=
  parse_print_follow v rest hw hp hf

/-- … and with declared display precisions: the numbers come back padded as printed -/
theorem C08_parse_prec (p : String → Nat) (v : VExpr) (rest : List Char) (hw : wfVExpr (rescaleV p v) = true)
    (hp : plainV v = true) (hf : follow v rest = true) :
    parseValueExpr (printVExpr p v ++ rest) = .ok (rescaleV p v) (afterV v rest) :=
  parse_print_prec' p v rest hw hp hf

/-- the condition on the continuation is exactly what the parser needs: the tree comes back and the parser stops at
the continuation (less the blanks eaten after a number without commodity) if and only if the continuation does not
extend the last token (`follow`: nothing after `)`; no commodity character after a commodity; after a bare number no
digit, comma or point, and no commodity character after blanks) -/
theorem C08_parse_iff (v : VExpr) (rest : List Char) (hw : wfVExpr v = true) (hp : plainV v = true) :
    parseValueExpr (printVExpr noPrec v ++ rest) = .ok v (afterV v rest) ↔ follow v rest = true :=
  parse_print_iff v rest hw hp

/-- the printed text determines the nesting: two printable stratified trees with the same text are equal -/
theorem C08_parse_unambiguous (a b : ValueE) (ha : a.ok = true) (hb : b.ok = true)
    (h : printVExpr noPrec a.toVExpr = printVExpr noPrec b.toVExpr) : a = b := by
  rw [valueE_print, valueE_print] at h; exact text_injective a b ha hb h

/-- the round trip with `wfVExpr` as the only hypothesis on the tree (kept visible; it is false) -/
def C08_parse_wfOnly_stmt : Prop :=
  ∀ (v : VExpr) (rest : List Char), wfVExpr v = true → follow v rest = true →
    parseValueExpr (printVExpr noPrec v ++ rest) = .ok v (afterV v rest)

/-- witness `(-1)`: printed from `Paren(Value(Amount -1))`, read back as `Paren(Negate(Value(Amount 1)))` -/
theorem not_C08_parse_wfOnly : ¬ C08_parse_wfOnly_stmt := not_parse_print_wfOnly

/-! ### non-vacuity: `1 + 2 * 3 - 4`, `(1 - 2) - 3` against `1 - (2 - 3)`, `-2 * -(3 A)` -/

def lit (n : Nat) : UnaryE := .pos (.amt ⟨false, n, 0, none⟩ "")
def elit (n : Nat) : Expr := .val (.amt ⟨false, n, 0, none⟩ "")

/-- `1 + 2 * 3 - 4` as the stratified tree `(1 + (2 * 3)) - 4` -/
def exPrec : AddE := .sub (.add (.one (.one (lit 1))) (.mul (.one (lit 2)) (lit 3))) (.one (lit 4))

example : exPrec.ok = true ∧ printVExpr noPrec (.paren exPrec.toExpr) = "(1 + 2 * 3 - 4)".toList := by decide +kernel
example : parseValueExpr "(1 + 2 * 3 - 4)\n".toList =
    .ok (.paren (.bin .sub (.bin .add (elit 1) (.bin .mul (elit 2) (elit 3))) (elit 4))) ['\n'] := by
  have h := (C08_parse exPrec ['\n'] (by decide +kernel)).1
  have hp : printVExpr noPrec (.paren exPrec.toExpr) = "(1 + 2 * 3 - 4)".toList := by decide +kernel
  rw [hp] at h
  exact h

/-- `1 - 2 - 3` is `(1 - 2) - 3` … -/
def exLeft : AddE := .sub (.sub (.one (.one (lit 1))) (.one (lit 2))) (.one (lit 3))
/-- … and `1 - (2 - 3)` needs its parentheses -/
def exRight : AddE :=
  .sub (.one (.one (lit 1))) (.one (.pos (.paren (.sub (.one (.one (lit 2))) (.one (lit 3))))))

example : exLeft.ok = true ∧ exRight.ok = true ∧
    printVExpr noPrec (.paren exLeft.toExpr) = "(1 - 2 - 3)".toList ∧
    printVExpr noPrec (.paren exRight.toExpr) = "(1 - (2 - 3))".toList := by decide +kernel
example : exLeft.toExpr = .bin .sub (.bin .sub (elit 1) (elit 2)) (elit 3) := rfl
example : exRight.toExpr = .bin .sub (elit 1) (.val (.paren (.bin .sub (elit 2) (elit 3)))) := rfl
example : ValueE.paren exLeft ≠ ValueE.paren exRight := by
  intro h
  have := congrArg ValueE.text h
  revert this
  decide +kernel

/-- a negative amount as the whole expression, a negated operand, a commodity, thousands separators -/
def exAmt : ValueE := .amt ⟨true, 1234567, 2, some .comma3dot⟩ "JPY"
example : exAmt.ok = true ∧ exAmt.follow " @ 1".toList = true ∧
    printVExpr noPrec exAmt.toVExpr = "-12,345.67 JPY".toList := by decide +kernel
example : parseValueExpr "-12,345.67 JPY @ 1".toList = .ok exAmt.toVExpr " @ 1".toList := by
  have h := C08_parse_value exAmt " @ 1".toList (by decide +kernel) (by decide +kernel)
  have hp : printVExpr noPrec exAmt.toVExpr = "-12,345.67 JPY".toList := by decide +kernel
  rw [hp] at h
  exact h

/-- `C08_parse_prec`: `1.5 USD` with two declared places is printed `1.50 USD` and read back with scale 2 -/
example : rescaleV (fun _ => 2) (.amt ⟨false, 15, 1, none⟩ "USD") = .amt ⟨false, 150, 2, none⟩ "USD" ∧
    printVExpr (fun _ => 2) (.amt ⟨false, 15, 1, none⟩ "USD") = "1.50 USD".toList ∧
    Unparse.wfNumber ⟨false, 150, 2, none⟩ = true := by decide +kernel
/-- `C08_parse_iff`, the failing side: `1` followed by `2`, `1 A` followed by `B` -/
example : follow (.amt ⟨false, 1, 0, none⟩ "") ['2'] = false ∧ follow (.amt ⟨false, 1, 0, none⟩ "A") ['B'] = false ∧
    parseValueExpr "12".toList = .ok (.amt ⟨false, 12, 0, none⟩ "") [] ∧
    parseValueExpr "1 AB".toList = .ok (.amt ⟨false, 1, 0, none⟩ "AB") [] := by decide +kernel

/-- the hypotheses of `C08_parse_tree` / `C08_parse_follow` on the parser's tree type: `(-2 * -(3 A) / 4)` -/
def exTree : VExpr :=
  .paren (.bin .div (.bin .mul (.neg (elit 2)) (.neg (.val (.paren (.val (.amt ⟨false, 3, 0, none⟩ "A")))))) (elit 4))
example : wfVExpr exTree = true := by
  simp only [exTree, elit, wfVExpr, Unparse.wfAdd, Unparse.wfMul, Unparse.wfUnary]; decide +kernel
example : plainV exTree = true ∧ ExprFollow " = 0".toList = true ∧
    printVExpr noPrec exTree = "(-2 * -(3 A) / 4)".toList := by decide +kernel

/-! ### the image: every tree the parser returns, for any input, is stratified and plain -/

/-- whatever the input: a tree `value_expr` returns reads (`Spec.ofVExpr`) as a stratified tree `t` with
`t.toVExpr` the tree itself — so in the parser's output an operand of `*`, `/` is never a bare sum, the right operand
of any operator is one level down (left nesting), negation applies to a value — and it is plain -/
theorem C08_parse_image (inp rest : List Char) (v : VExpr) (h : parseValueExpr inp = .ok v rest) :
    (∃ t : ValueE, ofVExpr v = some t ∧ t.toVExpr = v) ∧ plainV v = true :=
  parseValueExpr_image h

example : parseValueExpr "(1 - 2 - 3)".toList = .ok (.paren exLeft.toExpr) [] := by decide +kernel

end Okane.C08
