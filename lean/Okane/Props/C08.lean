/-! # C08 — property theorems (stub) -/
