/-! # C06 — property theorems (stub) -/
