import Okane.Lemmas.NoCrash
import Okane.Lemmas.Diag
import Okane.Lemmas.ParseTotalSpans
import Okane.Props.C11
/-!
# C06 — every input yields output or a diagnostic: no crash, no hang

`Outcome.crashes o` is "`o` is `panic _` or `fuelOut`": the model's rendering of a Rust panic and of an
unbounded loop.  The theorems below cover the parser (`C06_parse_holds`: every text, `ParseError` construction
included), `format` (`C06_format_holds`), the loader (`C06_load`), book-keeping and error reporting.
The statements `C06_parse`, `C06_format`, `C06_load_stmt` are kept visible as `Prop`s over the models' entry points.
The parser proofs live in `Lemmas/ParseTotal{Comb,Expr,Grammar,,Diag}.lean`.
Wall-clock promptness, real stack depth (see known finding F9) and panics inside third-party crates are not
expressible here: the C06 streams observe them on the real code, no theorem carries them.
-/
namespace Okane.C06
open Okane Okane.Diag

/-! ## the full statements over the models of parser / printer / loader -/

/-- **C06_parse** (statement): the ledger parser model, run with fuel `|t| + 1`, neither panics nor runs out
of fuel, for every text — ParseError construction included. -/
def C06_parse {ε α : Type} (parseLedger : Nat → List Char → Outcome ε α) : Prop :=
  ∀ t : List Char, ∃ f, f ≤ t.length + 1 ∧ (parseLedger f t).crashes = false

/-- **C06_format** (statement): `format` (parse + print every entry) never crashes, for every text. -/
def C06_format {ε α : Type} (format : List Char → Outcome ε α) : Prop :=
  ∀ t : List Char, (format t).crashes = false

/-- **C06_load** (statement): loading from any finite file system, any root, with fuel `|files| + 1`, never
crashes — in particular include cycles end in `err`, not in `fuelOut`. -/
def C06_load_stmt {φ ρ ε α : Type} (size : φ → Nat) (load : Nat → φ → ρ → Outcome ε α) : Prop :=
  ∀ (fs : φ) (root : ρ), (load (size fs + 1) fs root).crashes = false

/-- **C06_load.**  Over the loader model (`Model/Load.lean`, generic in the `FileSystem` like the Rust): for any file
system whose readable paths are listed by `readable` and whose `read` / `glob` do not crash themselves, loading any
root with fuel `|readable| + 1` ends in `ok` or in a `LoadError` — never in `fuelOut` (the recursion the pinned tree
ran forever on a self-include, finding F8) and never in a panic.  Include cycles therefore end in an error
(`C11_cycle`: `RecursiveInclude`).  Proved in `Props/C11.lean` (`C11_terminates_load`). -/
theorem C06_load (fs : Load.FSI) (readable : List Load.Path)
    (hread : ∀ q c, fs.read q = .ok c → q ∈ readable)
    (hreadc : ∀ q, (fs.read q).crashes = false) (hglobc : ∀ s, (fs.glob s).crashes = false) (root : Load.Path) :
    (Load.load fs (readable.length + 1) root).status.crashes = false :=
  Load.C11_terminates_load fs readable hread hreadc hglobc (readable.length + 1) (Nat.lt_succ_self _) root

/-- **C06_prefix**: totality over all texts gives totality over every prefix of every text ("cut at every
character"), for any entry point. -/
theorem C06_prefix {ε α : Type} (f : List Char → Outcome ε α) (h : ∀ t, (f t).crashes = false) :
    ∀ t p : List Char, p <+: t → (f p).crashes = false :=
  fun _ p _ => h p

/-- **C06_load on the in-memory file system**, with no hypothesis left: for *every* file tree (cyclic include graphs
included), every glob option set and every root, loading with fuel `|files| + 1` ends in `ok` or a `LoadError`
(`C11_fake_terminates`). -/
theorem C06_load_fake (o : Load.GlobOpts) (t : Load.Tree) (root : Load.Path) :
    (Load.load (Load.fakeFS o t) (t.files.length + 1) root).status.crashes = false :=
  Load.C11_fake_terminates o t (t.files.length + 1) (Nat.lt_succ_self _) root

/-! ## the ledger parser and `format` -/

/-- **C06_parse.**  For every text, the ledger parser model run with fuel `|t| + 1` ends in `ok` (the entries) or in
`err` (a `ParseError`): it reaches no `ParserError::assert` site of winnow's `repeat` / `repeat_till` / `separated`
(every repeated element of okane's grammar consumes at least one character when it succeeds), none of the model's
fuel bounds (combinator loops `length + 1`, `lot`'s loop `length + 1`, the expression parser `parseFuel`, the entry
iterator `|t| + 1`), and the construction of the `ParseError` does not panic. -/
theorem C06_parse_holds : C06_parse Parse.parseLedgerFuel := fun t =>
  ⟨t.length + 1, Nat.le_refl _, by rw [Parse.parseLedgerFuel_eq]; exact Parse.parseLedger_safe t⟩

/-- the same, on the model's entry point `parseLedger` (which passes the fuel `|t| + 1` itself) -/
theorem C06_parse_safe (t : List Char) : (Parse.parseLedger t).crashes = false := Parse.parseLedger_safe t

/-- **C06_parse, outcome form, with the `ParseError` construction at byte level.**  `parse_ledger` returns the
entries, or an error whose checkpoint and failure position are byte positions `startPos ≤ errPos ≤ |text|` of the
UTF-8 text — so winnow's `offset_from` assertion and `compute_line_number`'s assert hold, the char-boundary search
of `ParseError::new` ends within its fuel (`C06_parse_error_new`), and the byte-level construction yields the same
`line_start` and `error_span` as the parser model reports. -/
theorem C06_parse_total (t : List Char) :
    (∃ es, Parse.parseLedger t = .ok es) ∨
    (∃ e, Parse.parseLedger t = .err e ∧
      ∃ startPos errPos, startPos ≤ errPos ∧ errPos ≤ (encode t).length ∧
        ∃ pe, parseErrorNew (parseErrorFuel (encode t)) (encode t) startPos errPos = .ok pe ∧
          pe.lineStart = e.lineStart ∧ pe.errorSpan = ⟨e.offset, e.spanEnd⟩) := by
  rcases Parse.parseLedger_total t with h | ⟨e, h, _⟩
  · exact .inl h
  · exact .inr ⟨e, h, Parse.parseLedger_error_constructible t e h⟩

/-- **the entry spans `parse_ledger` delivers are non-empty valid UTF-8 slices of the text, in order and not
overlapping** (`ParsedContext::as_str`'s `expect` cannot fire on them). -/
theorem C06_parse_spans (t : List Char) (es : List Parse.Parsed) (h : Parse.parseLedger t = .ok es) :
    (∀ x ∈ es, x.start < x.stop ∧ x.stop ≤ (encode t).length ∧
      (PCtx.mk (encode t) ⟨x.start, x.stop⟩).validSlice = true) ∧
    es.Pairwise (fun a b => a.stop ≤ b.start) := Parse.parseLedger_spans t es h

/-- **C06_format.**  `format` (parse, then print every entry followed by an empty line) returns text or a
`ParseError`, for every text and every display-width function. -/
theorem C06_format_holds (w : List Char → Nat) : C06_format (Unparse.format w) := Unparse.format_safe w

theorem C06_format_total (w : List Char → Nat) (t : List Char) :
    (∃ out, Unparse.format w t = .ok out) ∨ (∃ e, Unparse.format w t = .err e) := Unparse.format_total w t

/-- "cut at every character": every prefix of every text is parsed / formatted without a crash -/
theorem C06_parse_prefix (t p : List Char) (h : p <+: t) : (Parse.parseLedger p).crashes = false :=
  C06_prefix Parse.parseLedger C06_parse_safe t p h

theorem C06_format_prefix (w : List Char → Nat) (t p : List Char) (h : p <+: t) :
    (Unparse.format w p).crashes = false :=
  C06_prefix (Unparse.format w) (C06_format_holds w) t p h

/-- **no repeated element of okane's grammar succeeds on empty input** (the obligation behind winnow's
`ParserError::assert`): each element (resp. separator) of every `repeat` / `repeat_till` / `separated` of the
grammar, and the entry parser iterated by `ParsedIter`, is `Safe 1` — never panics, never runs out of fuel, leaves
a suffix of its input, at least one character shorter on success. -/
theorem C06_loop_elements_consume :
    Comb.Safe 1 (Comb.alt2 Comb.lineEnding (Comb.void (Comb.pair Comb.space1 (Comb.alt2 Comb.lineEnding Comb.eof)))) ∧
    Comb.Safe 1 (Comb.terminated Parse.tagKey (Comb.char ':')) ∧
    Comb.Safe 1 Comb.space1 ∧
    Comb.Safe 1 (Comb.preceded Comb.space1 Parse.lineMetadata) ∧
    Comb.Safe 1 Parse.accountWord ∧
    Comb.Safe 1 (Comb.preceded (Comb.pair (Comb.takeWhile1 Comb.isSpace) (Comb.not Parse.lineEndingOrEof))
      (Comb.cutErr Parse.posting)) ∧
    Comb.Safe 1 Parse.detailComment ∧ Comb.Safe 1 Parse.detailNote ∧ Comb.Safe 1 Parse.detailAlias ∧
    Comb.Safe 1 (Comb.delimited (Comb.pair Comb.space1 (Comb.pair (Comb.literal Parse.kwFormat) Comb.space1))
      Parse.amount Parse.lineEndingOrEof) ∧
    Comb.Safe 1 Parse.parseLedgerEntry :=
  ⟨Parse.safe_verticalSpaces_elem, Parse.safe_metadataTags_elem.mono (by decide), Comb.safe_space1 (Nat.le_refl _),
   Comb.safe_preceded (Comb.safe_space1 (Nat.le_refl _)) Parse.safe_lineMetadata (by decide),
   Parse.safe_accountWord, Parse.safe_transaction_elem.mono (by decide),
   Parse.safe_detailComment, Parse.safe_detailNote, Parse.safe_detailAlias.mono (by decide),
   Comb.safe_delimited
     (Comb.safe_pair (Comb.safe_space1 (Nat.le_refl _))
       (Comb.safe_pair (Comb.safe_literal _ (Nat.le_refl _)) (Comb.safe_space1 (Nat.le_refl _)) (Nat.le_refl _))
       (Nat.le_refl _))
     Parse.safe_amount Parse.safe_lineEndingOrEof (by decide),
   Parse.safe_parseLedgerEntry⟩

/-- the three loops of winnow used by okane: with a consuming element (separator) neither the assert site nor the
fuel bound `length + 1` the model passes is reachable, whatever the element parser is -/
theorem C06_loops {α β : Type} {p : Comb.Parser α} {q : Comb.Parser β} {k : Nat} (hp : Comb.Safe 1 p) (hq : Comb.Safe k q) :
    Comb.Safe 0 (Comb.repeat0 p) ∧ Comb.Safe 1 (Comb.repeat1 p) ∧ Comb.Safe 1 (Comb.repeatTill1 p q) ∧
    Comb.Safe k (Comb.separated1 q p) :=
  ⟨Comb.safe_repeat0 hp (Nat.le_refl _), Comb.safe_repeat1 hp (Nat.le_refl _),
   Comb.safe_repeatTill1 hp hq (Nat.le_refl _), Comb.safe_separated1 hq hp (Nat.le_refl _)⟩

/-- the fuel of the expression parser always suffices: `parseFuel inp = 5 |inp| + 10` units for a recursion that
needs at most `5 |inp| + 1` -/
theorem C06_expr_fuel (inp : List Char) : ExprSyntax.parseValueExpr inp ≠ .fuelOut :=
  ExprSyntax.parseValueExpr_ne_fuelOut inp

/-! ## book-keeping -/

/-- **C06_process.** `process` never panics and never hangs, for every list of entries (any syntax tree the
parser can deliver, in any order; numbers are exact in the model, i.e. "within the representable range"):
the result is either the processed state or an error naming an entry. -/
theorem C06_process (es : List Entry) : (Okane.process es).crashes = false :=
  processFrom_safe {} 0 es

theorem C06_process_outcome (es : List Entry) :
    (∃ st, Okane.process es = .ok st) ∨ (∃ i e, Okane.process es = .err (i, e) ∧ i < es.length) := by
  have h := C06_process es
  cases hp : Okane.process es with
  | ok st => exact .inl ⟨st, rfl⟩
  | err x =>
    obtain ⟨i, e⟩ := x
    have := processFrom_err_index {} 0 es i e hp
    exact .inr ⟨i, e, rfl, by omega⟩
  | panic s => rw [hp] at h; simp at h
  | fuelOut => rw [hp] at h; simp at h

/-- one step of `process` from *any* accumulated state (every history of earlier entries). -/
theorem C06_step (st : ProcState) (e : Entry) : (stepEntry st e).crashes = false := stepEntry_safe st e

/-- the `unreachable!` of `posting_price_event` really is unreachable: an exchange (cost or lot price) on a
posting whose amount has no commodity is always rejected by `Exchange::try_from_syntax`. -/
theorem C06_zero_amount_exchange_rejected (s : Store) (x : Exchange) :
    ∃ e, resolveExchange s .zero x = .err e := by
  have h := resolveExchange_safe s .zero x
  cases hr : resolveExchange s .zero x with
  | ok r => exact absurd hr (resolveExchange_zero_not_ok s x r)
  | err e => exact ⟨e, rfl⟩
  | panic p => rw [hr] at h; simp at h
  | fuelOut => rw [hr] at h; simp at h

/-! ## error reporting -/

/-- **the boundary search of `ParseError::new` terminates** within `|input| + 1` steps, from any offset inside
the input (this is the loop that never ended on the pinned tree, finding F1a). -/
theorem C06_boundary_search (input : Bytes) (offset : Nat) (h : offset ≤ input.length) :
    ∃ r, findBoundary input (input.length + 1) (offset + 1) = .ok r :=
  findBoundary_terminates input (input.length + 1) (offset + 1) (by omega) (by omega)

/-- **ParseError::new is total** for the positions `ParsedIter::next` / `parse_single` pass: checkpoint
`startPos` ≤ failure position `errPos` ≤ end of file.  Neither winnow's `offset_from` assertion, nor
`compute_line_number`'s assert, nor the fuel of the boundary search is hit. -/
theorem C06_parse_error_new (initial : Bytes) (startPos errPos : Nat)
    (h1 : startPos ≤ errPos) (h2 : errPos ≤ initial.length) :
    (parseErrorNew (parseErrorFuel initial) initial startPos errPos).crashes = false := by
  obtain ⟨pe, h⟩ := parseErrorNew_total initial startPos errPos h1 h2
  rw [h]; rfl

/-- `compute_line_number`'s assert cannot fire for a position inside the text. -/
theorem C06_line_number (t : Bytes) (p : Nat) (hp : p ≤ t.length) : (computeLineNumber t p).crashes = false := by
  simp [computeLineNumber, hp]

/-- `clip` underflows exactly when the child ends before the parent starts (or the parent range is reversed);
in particular never for a span inside the entry. -/
theorem C06_clip_iff (parent child : Range) :
    (clip parent child).crashes = true ↔ min parent.stop child.stop < parent.start := by
  unfold clip
  simp only
  split <;> simp_all

theorem C06_clip (parent child : Range) (h : child.within parent) : (clip parent child).crashes = false := by
  rw [clip_within parent child h]; rfl

/-- building and annotating the report of a book-keeping error is total for an entry span that is a valid
slice of its file and tracked spans inside it. -/
theorem C06_error_context {π : Type} (path : π) (c : PCtx) (e : BkSpans)
    (hv : c.validSlice = true) (hin : ∀ r ∈ e.tracked, r.within c.span) :
    (ErrorContext.new path c).crashes = false ∧
      ∀ ctx, ErrorContext.new path c = .ok ctx → (ctx.annotations e).crashes = false := by
  obtain ⟨text, htext, _, _⟩ := asStr_length c hv
  have hv' := hv
  simp only [PCtx.validSlice, Bool.and_eq_true, decide_eq_true_eq] at hv'
  have hstart : c.span.start ≤ c.initial.length := by omega
  have hnew : ErrorContext.new path c = .ok ⟨path, 1 + countLF (c.initial.take c.span.start), text, c.span⟩ := by
    simp [ErrorContext.new, PCtx.computeLineStart, computeLineNumber, hstart, htext]
  refine ⟨by rw [hnew]; rfl, ?_⟩
  intro ctx hctx
  rw [hnew] at hctx
  injection hctx with hctx
  subst hctx
  have hres := resolveAll_within c.span e.tracked hin
  cases e <;> simp_all [ErrorContext.annotations, BkSpans.tracked]

/-- the report context of **every entry the parser delivers** can be built: the hypothesis `validSlice` of
`C06_error_context` holds for all spans of `parse_ledger` (`C06_parse_spans`). -/
theorem C06_parsed_entry_context {π : Type} (path : π) (t : List Char) (es : List Parse.Parsed)
    (h : Parse.parseLedger t = .ok es) (x : Parse.Parsed) (hx : x ∈ es) :
    (ErrorContext.new path ⟨encode t, ⟨x.start, x.stop⟩⟩).crashes = false :=
  (C06_error_context path ⟨encode t, ⟨x.start, x.stop⟩⟩ .other ((C06_parse_spans t es h).1 x hx).2.2
    (by intro r hr; cases hr)).1

/-! ## non-vacuity -/

-- the parser is not constant: a transaction is accepted, a month 13 is a `ParseError`, and with one unit of fuel
-- the iterator does say `fuelOut` on a text with two entries, so the bound of `C06_parse_holds` is not vacuous
example : (Parse.parseLedger "2024/01/01 x\n A  1 USD\n B\n".toList).isOk = true := by decide +kernel
example : (Parse.parseLedger "2024/13/01 x\n".toList).isErr = true := by decide +kernel
example : (Parse.parseLedgerFuel 1 "; a\n\n; b\n".toList).crashes = true := by decide +kernel
example : (Unparse.format Unparse.widthStd "2024/01/01 x\n A  1 USD\n B\n".toList).isOk = true := by decide +kernel
example : (Unparse.format Unparse.widthStd "account A\n  alias\n".toList).isErr = true := by decide +kernel
-- the assert sites and fuel bounds of the combinator loops are real: an element that succeeds without consuming
-- reaches them, a consuming one (hypothesis of `C06_loops`) does not
example : Comb.repeat0 (Comb.pure ()) ['a'] = .panic "repeat: parsers must always consume" := by decide
example : Comb.separated1 (Comb.char 'a') (Comb.pure ()) ['a'] = .panic "separated: separator must always consume" := by decide
example : Comb.repeat0Loop (Comb.char 'a') 1 ['a', 'a'] [] = .fuel := by decide
example : Comb.Safe 1 (Comb.repeat1 (Comb.char 'a')) :=
  (C06_loops (Comb.safe_char 'a' (Nat.le_refl _)) (Comb.safe_space0 (Nat.le_refl 0))).2.1
-- `C06_parse_total`'s error branch and `C06_parse_spans`' hypothesis are inhabited (the two examples above);
-- an error at the very end of the input (the case behind finding F1a) is among them
example : (Parse.parseLedger "2024/01/01 x\n A  1 USD\n B  (".toList).isErr = true := by decide +kernel

-- `process` is not constant: a balanced transaction is accepted, an unbalanced one and a cost on a
-- commodity-less zero amount are rejected with an error (not the `unreachable!`)
def usd (neg : Bool) (n : Nat) : PostingAmount := { amount := .amt ⟨neg, n, 0, none⟩ "USD" }
example : (Okane.process [.txn { date := ⟨2024, 1, 1⟩, posts := [
    { account := "A", amount := some (usd false 5) }, { account := "B", amount := some (usd true 5) }] }]).isOk = true := by
  decide +kernel
example : (Okane.process [.txn { date := ⟨2024, 1, 1⟩, posts := [
    { account := "A", amount := some (usd false 5) }, { account := "B", amount := some (usd true 4) }] }]).isErr = true := by
  decide +kernel
example : (Okane.process [.txn { date := ⟨2024, 1, 1⟩, posts := [
    { account := "A", amount := some { amount := .amt ⟨false, 0, 0, none⟩ "",
                                       cost := some (.rate (.amt ⟨false, 1, 0, none⟩ "USD")) } },
    { account := "B" }] }]).isErr = true := by
  decide +kernel
-- the boundary search at the very end of a text whose last character is multi-byte
example : findBoundary (encode "aé".toList) 4 4 = .ok none := by decide
example : findBoundary (encode "aé".toList) 4 2 = .ok (some 3) := by decide
-- with too little fuel the model does report `fuelOut`: the bound is not vacuous
example : findBoundary (encode "a日".toList) 1 2 = .fuelOut := by decide
example : (clip ⟨10, 20⟩ ⟨3, 5⟩).crashes = true := by decide

-- C06_load: a file that includes itself ends in `RecursiveInclude` with the fuel of the theorem (|readable| + 1 = 2);
-- with less fuel the model does say `fuelOut`, so the bound is not vacuous
def selfRoot : Load.Path := [.root, .normal "r", .normal "a.ledger"]
def fsSelf : Load.FSI where
  canon := id
  read := fun p => if p = selfRoot then .ok ⟨[.include "a.ledger"], false⟩ else .err .notFound
  glob := fun _ => .ok [selfRoot]
example : (Load.load fsSelf 2 selfRoot).status = .err (.recursiveInclude selfRoot) := by decide
example : (Load.load fsSelf 1 selfRoot).status = .fuelOut := by decide
example : ∀ q c, fsSelf.read q = .ok c → q ∈ [selfRoot] := by
  intro q c h; simp only [fsSelf] at h; split at h <;> simp_all

end Okane.C06
