import Okane.Model.Golden
/-!
# C20 — the golden-file helper compares faithfully and only writes when told to
-/
namespace Okane.Golden

/-- `UPDATE_GOLDEN` counts as set exactly when it holds a non-empty (valid Unicode) string. -/
theorem C20_env (e : EnvVal) : isUpdate e = true ↔ ∃ cs, e = .str cs ∧ cs ≠ [] := by
  cases e with
  | unset => simp [isUpdate]
  | invalid => simp [isUpdate]
  | str cs => cases cs <;> simp [isUpdate]

/-- Without UPDATE_GOLDEN, a golden built from a file holding `content` passes exactly when
`got` equals the content with CRLF normalised to LF (whatever the world is at assertion time,
as long as UPDATE_GOLDEN is still not set). -/
theorem C20_compare (w₁ w₂ : World) (content got : List Char) (g : Golden)
    (hfile : w₁.file = some (.text content)) (hnew : new w₁ = .ok g)
    (hno : isUpdate w₂.env = false) :
    (assert g got w₂).1 = .pass ↔ got = crlfToLf content := by
  have hg : g.content = crlfToLf content := by
    simp [new, readAsUtf8, hfile] at hnew
    rw [← hnew]
  simp only [assert, hno]
  by_cases h : g.content = got
  · simp [h, ← hg]
  · simp only [Bool.false_eq_true, ↓reduceIte, h]
    constructor
    · intro hc; cases hc
    · intro hc; exact absurd (hg.trans hc.symm) h

/-- Without UPDATE_GOLDEN nothing is ever written: the world after `assert` is the world before,
and no write is attempted. -/
theorem C20_readonly (g : Golden) (got : List Char) (w : World) (hno : isUpdate w.env = false) :
    (assert g got w).2.1 = w ∧ (assert g got w).2.2 = false := by
  simp [assert, hno]

/-- Without UPDATE_GOLDEN a missing golden file is an error (and `new` cannot write: it returns no world). -/
theorem C20_missing (w : World) (hmiss : w.file = none) (hno : isUpdate w.env = false) :
    new w = .err .notFound := by
  simp [new, readAsUtf8, hmiss, hno]

/-- With UPDATE_GOLDEN set (and a path that can be written), the file afterwards contains exactly `got` and the
assertion passes. -/
theorem C20_update (g : Golden) (got : List Char) (w : World) (hup : isUpdate w.env = true)
    (hw : w.writable = true) :
    (assert g got w).1 = .pass ∧ (assert g got w).2.1.file = some (.text got) := by
  simp [assert, hup, hw]

/-- With UPDATE_GOLDEN set the helper never reports success unless the file then contains exactly `got`:
in every world (writable or not, whatever the golden held) a passing assertion leaves the file equal to `got`. -/
theorem C20_update_pass_only_if_written (g : Golden) (got : List Char) (w : World)
    (hup : isUpdate w.env = true) (hpass : (assert g got w).1 = .pass) :
    (assert g got w).2.1.file = some (.text got) ∧ (assert g got w).2.2 = true := by
  cases hw : w.writable <;> simp [assert, hup, hw] at hpass ⊢

/-- With UPDATE_GOLDEN set and a path that cannot be written (missing parent directory, a directory, no permission)
the assertion fails, whatever `got` is - also when `got` equals the content read earlier - and nothing changes. -/
theorem C20_update_unwritable (g : Golden) (got : List Char) (w : World) (hup : isUpdate w.env = true)
    (hw : w.writable = false) :
    (assert g got w).1 = .panic ∧ (assert g got w).2.1 = w ∧ (assert g got w).2.2 = false := by
  simp [assert, hup, hw]

/-- A path that names a directory is an error of `new`, with or without UPDATE_GOLDEN. -/
theorem C20_directory (w : World) (hdir : w.file = some .directory) : new w = .err .other := by
  simp [new, readAsUtf8, hdir]

/-- With UPDATE_GOLDEN set, a missing file is not an error. -/
theorem C20_update_missing (w : World) (hmiss : w.file = none) (hup : isUpdate w.env = true) :
    new w = .ok ⟨[]⟩ := by
  simp [new, readAsUtf8, hmiss, hup]

/-- CRLF normalisation is what the property says: the text without the CR of every CR-LF pair. -/
theorem crlfToLf_no_crlf_id (cs : List Char) (h : ∀ i, i + 1 < cs.length → ¬ (cs[i]! = '\r' ∧ cs[i+1]! = '\n')) :
    crlfToLf cs = cs := by
  induction cs using crlfToLf.induct with
  | case1 rest ih =>
    exact absurd ⟨rfl, rfl⟩ (h 0 (by simp))
  | case2 c rest hne ih =>
    rw [crlfToLf]
    · congr 1
      apply ih
      intro i hi
      have := h (i+1) (by simp at hi ⊢; omega)
      simpa using this
    · exact hne
  | case3 => rfl

-- non-vacuity: the hypotheses of the theorems are met by concrete worlds
example : new ⟨some (.text "a\r\nb\n".toList), .unset, true⟩ = .ok ⟨"a\nb\n".toList⟩ := by decide
example : (assert ⟨"a\nb\n".toList⟩ "a\nb\n".toList ⟨some (.text "a\r\nb\n".toList), .str [], true⟩).1 = .pass := by decide
example : (assert ⟨"a\nb\n".toList⟩ "a\nb".toList ⟨some (.text "a\r\nb\n".toList), .unset, true⟩).1 = .panic := by decide
-- the update run on a path below a directory that does not exist: `new` accepts (empty content), `assert ""` must not pass
example : new ⟨none, .str ['1'], false⟩ = .ok ⟨[]⟩ ∧ (assert ⟨[]⟩ [] ⟨none, .str ['1'], false⟩).1 = .panic := by decide
example : isUpdate (.str ['1']) = true ∧ isUpdate (.str []) = false ∧ isUpdate .invalid = false := by decide

end Okane.Golden
