import Okane.Lemmas.BookText3
import Okane.Lemmas.BookText5
/-!
# C03 on ledger TEXTS (parser model ∘ book-keeping)

Theorems (in `Lemmas/BookText2.lean` / `BookText5.lean`, namespace `Okane.BookText`):

* `C03_text_assign` — every accepted text, every posting line `Account  = X` without amount: the posting receives, in the
  final transaction, exactly `X` minus what the account held in `X`'s commodity (resp. minus the whole single-commodity
  balance for `= 0`), and the account then holds `X` (resp. nothing); no other commodity moves;
* `C03_text_omitted` — every accepted text, every transaction with exactly one bare posting line: that posting carries the
  negation of the sum of the other lines' balancing values, its account is moved by that amount, all other postings keep
  the amounts the loop gave them;
* `C03_text_two` — a text with two bare posting lines in one transaction is not accepted;
* `C03_text_frame` (`Lemmas/BookText3.lean`) — booking a transaction leaves alone every account that none of its posting
  lines names (no account name written resolves to it, aliases included);
* `text_written`, `text_written_bare` — "written without amount" is `amount = none` of the parsed posting, "`= X` written"
  is `balance = some X`: proved from the parser model, for every text.

This file: non-vacuity on real ledger texts (kernel-evaluated).
-/
namespace Okane.C03Text
open Okane Okane.Spec Okane.BookText

/-- `A = 10 USD` on an empty account; then `A = 0` (bare zero) and a bare line `C` absorbing two commodities -/
def exText : List Char :=
  "2024/01/01 x\n A  = 10 USD\n B\n\n2024/01/02 y\n A  = 0\n B  5 EUR\n C\n".toList

/-- the hypotheses of `C03_text_assign` are satisfiable: entry 0, line 0 is `A  = 10 USD` (no amount) … -/
example : ∃ es st txn p, ∃ hk : 0 < es.length, Denotes exText es st ∧ es[0] = .txn txn ∧ txn.posts[0]? = some p ∧
    (p.amount.isNone && p.balance.isSome) = true :=
  hyps_of_checks exText 0 0 _ (by decide +kernel) (by decide +kernel)

/-- … and entry 1, line 0 is `A  = 0` -/
example : ∃ es st txn p, ∃ hk : 1 < es.length, Denotes exText es st ∧ es[1] = .txn txn ∧ txn.posts[0]? = some p ∧
    (p.amount.isNone && p.balance.isSome) = true :=
  hyps_of_checks exText 1 0 _ (by decide +kernel) (by decide +kernel)

/-- `C03_text_assign` applied to it: the posting's resolution carries no amount and an assertion -/
example : ∃ (rp : RPosting String String) (x : PostingAmt String), rp.amount = none ∧ rp.balance = some x := by
  obtain ⟨es, st, txn, p, hk, hd, he, hj, hf⟩ :=
    hyps_of_checks exText 0 0 (fun p => p.amount.isNone && p.balance.isSome) (by decide +kernel) (by decide +kernel)
  simp only [Bool.and_eq_true, Option.isNone_iff_eq_none] at hf
  obtain ⟨X, hpb⟩ := Option.isSome_iff_exists.1 hf.2
  obtain ⟨stk, stk', c', stL, r, rps, c1, st1, rp, c2, st2, x, _, _, _, _, _, h1, _, h2, _⟩ :=
    C03_text_assign exText es st hd 0 hk txn he 0 p X hj hf.1 hpb
  exact ⟨rp, x, h1, h2⟩

/-- exactly one bare line in entry 1 (hypothesis `hone` of `C03_text_omitted`) -/
def bareCount (t : List Char) (k : Nat) : Option Nat :=
  match Parse.parseEntries t with
  | .ok es =>
    match es[k]? with
    | some (.txn txn) => some (txn.posts.filter bare).length
    | _ => none
  | _ => none

example : acceptsCheck exText = true ∧ bareCount exText 1 = some 1 ∧ bareCount exText 0 = some 1 := by decide +kernel

/-- two bare lines (`C03_text_two`): rejected -/
def exTextTwo : List Char := "2024/01/01 x\n A  1 USD\n B\n C\n".toList
example : bareCount exTextTwo 0 = some 2 ∧ acceptsCheck exTextTwo = false := by decide +kernel

/-- `text_written_bare` on `exText`: the bare line `C` of entry 1 stands in the text as an account followed by the line end -/
example : ∃ p i0 i1, lineAt exText 1 2 = some p ∧ i0 <:+ exText ∧ Parse.postingAccount i0 = .ok p.account i1 ∧
    (i1 = [] ∨ ∃ c r, i1 = c :: r ∧ (c = ';' ∨ c = '\n' ∨ c = '\r')) := by
  obtain ⟨es, st, txn, p, hk, hd, he, hj, hf⟩ :=
    hyps_of_checks exText 1 2 bare (by decide +kernel) (by decide +kernel)
  have hm : Entry.txn txn ∈ es := he ▸ List.getElem_mem hk
  obtain ⟨i0, i1, h0, _, hacc, hend⟩ := text_written_bare exText es hd.1 txn hm p (List.mem_of_getElem? hj) hf
  refine ⟨p, i0, i1, ?_, h0, hacc, hend⟩
  unfold lineAt
  rw [hd.1]
  simp only
  have : es[1]? = some (.txn txn) := by rw [List.getElem?_eq_some_iff]; exact ⟨hk, he⟩
  rw [this]
  exact hj

theorem bareCount_spec {t : List Char} {k n : Nat} (h : bareCount t k = some n) {es : List Entry}
    (hp : Parse.parseEntries t = .ok es) : ∃ txn, ∃ hk : k < es.length, es[k] = .txn txn ∧ (txn.posts.filter bare).length = n := by
  unfold bareCount at h
  rw [hp] at h
  simp only at h
  cases hek : es[k]? with
  | none => rw [hek] at h; simp at h
  | some e =>
    rw [hek] at h
    obtain ⟨hk, he⟩ := List.getElem?_eq_some_iff.1 hek
    cases e with
    | txn txn => simp only [Option.some.injEq] at h; exact ⟨txn, hk, he, h⟩
    | _ => simp at h

/-- `C03_text_omitted` applied to entry 1 of `exText`: there is a bare line `u`, and the final transaction carries at `u`
the negated running balance -/
example : ∃ (u : Nat) (pu : Posting) (stL : TxnState String String) (r : TxnResult String String)
    (o : OutPosting String String), bare pu = true ∧ stL.unfilled = some u ∧
      r.txn.postings[u]? = some { o with amount := stL.balance.neg } := by
  obtain ⟨es, st, hd⟩ := denotes_of_check (t := exText) (by decide +kernel)
  obtain ⟨txn, hk, he, hone⟩ := bareCount_spec (t := exText) (k := 1) (n := 1) (by decide +kernel) hd.1
  obtain ⟨stk, stk', c', stL, r, rps, u, pu, o, _, _, _, _, h1, h2, _, _, h3, _⟩ :=
    C03_text_omitted exText es st hd 1 hk txn he hone
  exact ⟨u, pu, stL, r, o, h1, h2, h3⟩

/-- `C03_text_frame` applied to entry 1 of `exText`: every account none of its lines names keeps its balance -/
example : ∃ (es : List Entry) (txn : Transaction) (stk stk' : ProcState), (∃ hk : 1 < es.length, es[1] = .txn txn) ∧
    ∀ a, (∀ q ∈ txn.posts, stk'.ctx.accounts.resolve q.account ≠ some a) →
      Balance.get stk'.bal a = Balance.get stk.bal a := by
  obtain ⟨es, st, hd⟩ := denotes_of_check (t := exText) (by decide +kernel)
  obtain ⟨txn, hk, he, _⟩ := bareCount_spec (t := exText) (k := 1) (n := 1) (by decide +kernel) hd.1
  obtain ⟨stk, stk', _, _, hfr⟩ := C03_text_frame exText es st hd 1 hk txn he
  exact ⟨es, txn, stk, stk', ⟨hk, he⟩, hfr⟩

end Okane.C03Text
