/-! # C04 — property theorems (stub) -/
