import Okane.Props.C02
import Okane.Model.Range
import Okane.Model.Process
/-!
# C04 — reported balances equal the sum of the register, over any date range
-/
set_option linter.unusedSectionVars false
namespace Okane
variable {α κ : Type} [DecidableEq α] [DecidableEq κ]
open Spec

/-- the placeholder of the omitted posting is empty until the deduced amount is filled in -/
theorem loop_unfilled_empty (date : Date) (ps : List (RPosting α κ)) (st st' : TxnState α κ) (idx : Nat)
    (h : loopPostings date st idx ps = .ok st') (hi : st.IdxOK idx)
    (he : ∀ u, st.unfilled = some u → ∃ o, st.postings[u]? = some o ∧ o.amount = []) :
    ∀ u, st'.unfilled = some u → ∃ o, st'.postings[u]? = some o ∧ o.amount = [] := by
  induction ps generalizing st idx with
  | nil => simp [loopPostings] at h; subst h; exact he
  | cons p ps ih =>
    simp only [loopPostings] at h
    split at h
    · rename_i st1 h1
      refine ih st1 (idx + 1) h (IdxOK_step date st st1 idx p h1 hi) ?_
      intro u hu
      obtain ⟨out, d, hp, _, _, _⟩ := stepPosting_shape date st st1 idx p h1
      unfold stepPosting at h1
      split at h1
      · simp only [Outcome.ok.injEq] at h1; subst h1
        obtain ⟨o, ho, hoe⟩ := he u hu
        have hlt := hi.2 u hu
        exact ⟨o, by simp only [List.getElem?_append_left hlt]; exact ho, hoe⟩
      · split at h1
        · simp at h1
        · simp only [Outcome.ok.injEq] at h1; subst h1
          simp only [Option.some.injEq] at hu
          subst hu
          refine ⟨⟨p.account, [], none⟩, ?_, rfl⟩
          simp [hi.1]
      all_goals simp at h1
    all_goals simp at h

theorem acctSum_modify_empty (outs : List (OutPosting α κ)) (u : Nat) (o : OutPosting α κ) (x : Amount κ)
    (ho : outs[u]? = some o) (he : o.amount = []) (a : α) (c : κ) :
    acctSum (outs.modify u fun p => { p with amount := x }) a c =
      acctSum outs a c + (if o.account = a then Amount.getPart x c else 0) := by
  induction outs generalizing u with
  | nil => simp at ho
  | cons hd tl ih =>
    cases u with
    | zero =>
      simp only [List.getElem?_cons_zero, Option.some.injEq] at ho
      subst ho
      simp only [List.modify_cons, acctSum, List.map_cons, List.sum_cons, he]
      by_cases h1 : hd.account = a <;> simp [h1] <;> grind
    | succ n =>
      simp only [List.getElem?_cons_succ] at ho
      have := ih n ho
      simp only [List.modify_cons, acctSum, List.map_cons, List.sum_cons] at this ⊢
      grind

theorem fillConverted_account (a1 a2 : SingleAmount κ) (p : OutPosting α κ) :
    (fillConverted a1 a2 p).account = p.account := by
  unfold fillConverted
  split
  · split
    · rfl
    · split <;> rfl
  · rfl

/-- **one transaction**: every account's balance moves by exactly the sum of the amounts the accepted
transaction posts to it (the inferred amount of the omitted posting included). -/
theorem txn_balance (prec : κ → Option Nat) (bal : Balance α κ) (t : RTxn α κ) (res : TxnResult α κ)
    (h : addTransaction prec bal t = .ok res) (hinv : Balance.Inv bal) :
    Balance.Inv res.bal ∧
    ∀ a c, Amount.getPart (Balance.get res.bal a) c = Amount.getPart (Balance.get bal a) c + acctSum res.txn.postings a c := by
  unfold addTransaction at h
  cases hloop : loopPostings t.date ⟨[], none, [], bal, [], []⟩ 0 t.posts with
  | ok st =>
    rw [hloop] at h
    simp only at h
    obtain ⟨hinv', outs, hp, hwfs, hsum⟩ := C02_invariant t.date t.posts _ st 0 hloop hinv
    simp only [List.nil_append] at hp
    have hbal := BalOK_loop t.date t.posts _ st 0 hloop (BalOK_init bal)
    have hempty := loop_unfilled_empty t.date t.posts _ st 0 hloop ⟨rfl, by simp⟩ (by simp)
    cases hu : st.unfilled with
    | some u =>
      simp only [hu] at h
      obtain ⟨o, ho, hoe⟩ := hempty u hu
      simp only [ho, Option.map_some, Outcome.ok.injEq] at h
      subst h
      refine ⟨Balance.Inv_addAmount _ _ _ hinv', fun a c => ?_⟩
      simp only
      rw [Balance.getPart_addAmount _ _ _ _ hinv' (Amount.WF_neg _ hbal.1), hsum a c,
        acctSum_modify_empty st.postings u o _ ho hoe a c, hp]
      grind
    | none =>
      simp only [hu] at h
      cases hcb : checkBalance prec t.date st.postings st.balance with
      | ok r =>
        obtain ⟨postings, pe⟩ := r
        rw [hcb] at h
        simp only [Outcome.ok.injEq] at h; subst h
        refine ⟨hinv', fun a c => ?_⟩
        simp only
        rw [hsum a c]
        congr 1
        -- check_balance only fills `converted`
        unfold checkBalance at hcb
        simp only at hcb
        split at hcb
        · simp only [Outcome.ok.injEq, Prod.mk.injEq] at hcb; rw [← hcb.1, hp]
        · split at hcb
          · simp only [Outcome.ok.injEq, Prod.mk.injEq] at hcb
            rw [← hcb.1, hp]
            simp only [acctSum, List.map_map, Function.comp_def, fillConverted_amount, fillConverted_account]
          · simp at hcb
      | err e => rw [hcb] at h; simp at h
      | panic e => rw [hcb] at h; simp at h
      | fuelOut => rw [hcb] at h; simp at h
  | err e => rw [hloop] at h; simp at h
  | panic e => rw [hloop] at h; simp at h
  | fuelOut => rw [hloop] at h; simp at h

/-- **C04_nozero**: an account never holds a commodity whose total is zero. -/
theorem C04_nozero (prec : κ → Option Nat) (bal : Balance α κ) (t : RTxn α κ) (res : TxnResult α κ)
    (h : addTransaction prec bal t = .ok res) (hinv : Balance.Inv bal) (a : α) :
    ∀ kv ∈ Balance.get res.bal a, kv.2 ≠ 0 :=
  ((txn_balance prec bal t res h hinv).1 a).2

/-! ## date ranges -/

/-- sum, over the (date, posting) pairs selected by `sel`, of the amounts posted to `a` in `c` -/
def selSum (ps : List (Date × OutPosting α κ)) (sel : Date → Bool) (a : α) (c : κ) : Rat :=
  (ps.map fun dp => if sel dp.1 ∧ dp.2.account = a then Amount.getPart dp.2.amount c else 0).sum

/-- every posting amount of the ledger has unique keys -/
def PostingsWF (txns : List (OutTxn α κ)) : Prop := ∀ dp ∈ allPostings txns, AMap.WF dp.2.amount

theorem rangeFold (ps : List (Date × OutPosting α κ)) (r : DateRange) (b : Balance α κ) (hinv : Balance.Inv b)
    (hwf : ∀ dp ∈ ps, AMap.WF dp.2.amount) :
    Balance.Inv (ps.foldl (fun b dp => if r.contains dp.1 then (Balance.addAmount b dp.2.account dp.2.amount).1 else b) b) ∧
    ∀ a c, Amount.getPart (Balance.get (ps.foldl (fun b dp => if r.contains dp.1 then (Balance.addAmount b dp.2.account dp.2.amount).1 else b) b) a) c =
      Amount.getPart (Balance.get b a) c + selSum ps r.contains a c := by
  induction ps generalizing b with
  | nil => exact ⟨hinv, fun a c => by simp [selSum]⟩
  | cons dp tl ih =>
    simp only [List.foldl_cons]
    have hwf' : ∀ dp ∈ tl, AMap.WF dp.2.amount := fun x hx => hwf x (List.mem_cons_of_mem _ hx)
    by_cases hc : r.contains dp.1 = true
    · simp only [hc, if_true]
      obtain ⟨hi, hs⟩ := ih _ (Balance.Inv_addAmount _ _ _ hinv) hwf'
      refine ⟨hi, fun a c => ?_⟩
      rw [hs a c, Balance.getPart_addAmount _ _ _ _ hinv (hwf dp (by simp))]
      simp only [selSum, List.map_cons, List.sum_cons, hc]
      by_cases h1 : dp.2.account = a <;> simp [h1] <;> grind
    · have hc' : r.contains dp.1 = false := by simpa using hc
      simp only [hc', Bool.false_eq_true, if_false]
      obtain ⟨hi, hs⟩ := ih _ hinv hwf'
      refine ⟨hi, fun a c => ?_⟩
      rw [hs a c]
      simp [selSum, hc']

/-- **C04_range**: the recomputed balance over `[start, end)` is, for every account and commodity, the sum of the
amounts of the postings of the transactions dated in the range (and holds no zero entry). -/
theorem C04_range (txns : List (OutTxn α κ)) (r : DateRange) (hwf : PostingsWF txns) (a : α) (c : κ) :
    Amount.getPart (Balance.get (rangeBalanceRaw txns r) a) c = selSum (allPostings txns) r.contains a c ∧
    Amount.NoZero (Balance.get (rangeBalanceRaw txns r) a) := by
  obtain ⟨hi, hs⟩ := rangeFold (allPostings txns) r [] Balance.Inv_nil hwf
  refine ⟨?_, (hi a).2⟩
  have := hs a c
  have h0 : Amount.getPart (Balance.get ([] : Balance α κ) a) c = 0 := by simp [Balance.get]
  rw [h0] at this
  unfold rangeBalanceRaw
  rw [this]; simp

theorem selSum_split (ps : List (Date × OutPosting α κ)) (s1 s2 s : Date → Bool)
    (hsel : ∀ d, (s d = true ↔ (s1 d = true ∨ s2 d = true)) ∧ ¬ (s1 d = true ∧ s2 d = true)) (a : α) (c : κ) :
    selSum ps s a c = selSum ps s1 a c + selSum ps s2 a c := by
  induction ps with
  | nil => simp [selSum]
  | cons dp tl ih =>
    simp only [selSum, List.map_cons, List.sum_cons] at ih ⊢
    rw [ih]
    have := hsel dp.1
    by_cases h1 : s1 dp.1 = true <;> by_cases h2 : s2 dp.1 = true <;> by_cases h3 : s dp.1 = true <;>
      simp [h1, h2, h3] at this ⊢ <;> grind

/-- **C04_additive**: reports over adjacent ranges `[s, m)` and `[m, e)` add up to the report over `[s, e)`
(any of the ends may be unbounded; empty ranges included). -/
theorem C04_additive (txns : List (OutTxn α κ)) (s e : Option Date) (m : Date)
    (hsm : ∀ s', s = some s' → s' ≤ m) (hme : ∀ e', e = some e' → m ≤ e')
    (hwf : PostingsWF txns) (a : α) (c : κ) :
    Amount.getPart (Balance.get (rangeBalanceRaw txns ⟨s, e⟩) a) c =
      Amount.getPart (Balance.get (rangeBalanceRaw txns ⟨s, some m⟩) a) c +
      Amount.getPart (Balance.get (rangeBalanceRaw txns ⟨some m, e⟩) a) c := by
  rw [(C04_range txns ⟨s, e⟩ hwf a c).1, (C04_range txns ⟨s, some m⟩ hwf a c).1, (C04_range txns ⟨some m, e⟩ hwf a c).1]
  apply selSum_split
  intro d
  simp only [DateRange.contains]
  have hlt : ∀ x y : Date, (x < y) = (x.dayNumber < y.dayNumber) := fun _ _ => rfl
  have hle : ∀ x y : Date, (x ≤ y) = (x.dayNumber ≤ y.dayNumber) := fun _ _ => rfl
  cases s with
  | none =>
    cases e with
    | none => simp [hlt, hle]; omega
    | some e' =>
      have := hme e' rfl
      simp [hlt, hle] at this ⊢; omega
  | some s' =>
    have h1 := hsm s' rfl
    cases e with
    | none => simp [hlt, hle] at h1 ⊢; omega
    | some e' =>
      have h2 := hme e' rfl
      simp [hlt, hle] at h1 h2 ⊢; omega

/-- the register's final running total is the sum of the listed amounts -/
theorem register_total (ps : List (OutPosting α κ)) (hwf : ∀ p ∈ ps, AMap.WF p.amount) (c : κ) :
    ∀ acc : List (OutPosting α κ × Amount κ) × Amount κ, AMap.WF acc.2 →
      Amount.getPart (ps.foldl (fun (acc : List (OutPosting α κ × Amount κ) × Amount κ) p =>
        let tot := acc.2.add p.amount
        (acc.1 ++ [(p, tot)], tot)) acc).2 c = Amount.getPart acc.2 c + (ps.map fun p => Amount.getPart p.amount c).sum := by
  induction ps with
  | nil => intro acc _; simp
  | cons p tl ih =>
    intro acc hacc
    simp only [List.foldl_cons]
    rw [ih (fun q hq => hwf q (List.mem_cons_of_mem _ hq)) _ (Amount.WF_add _ _ hacc)]
    simp only [Amount.getPart_add _ _ (hwf p (by simp)), List.map_cons, List.sum_cons]
    grind

end Okane
