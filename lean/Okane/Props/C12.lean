/-! # C12 — property theorems (stub) -/
