import Okane.Lemmas.Alias
import Okane.Lemmas.AliasCanon
/-!
# C12 — aliases are transparent; alias conflicts are rejected

Theorems about `Okane.Store` (the model of `InternStore`) and `Okane.process` / `Okane.stepEntry`
(`ProcessAccumulator::process`).  The relations `Store.SameAccount`, `Transaction.Rel`, `EntriesRel`, `SubstEntries`,
`Declared` are defined in `Okane/Spec/Alias.lean`.
-/
namespace Okane

/-! ## C12_resolve -/

/-- **C12_resolve.**  A name registered as an alias of `c` resolves to `c`; `ensure` returns `c` and creates no record
(the store is returned unchanged).  The same holds for a registered canonical name. -/
theorem C12_resolve (s : Store) (a c : String) (h : AMap.get? s.recs a = some (some c)) :
    s.resolve a = some c ∧ s.ensure a = (c, s) := by
  have hr : s.resolve a = some c := by simp [Store.resolve, h]
  exact ⟨hr, Store.ensure_of_resolve hr⟩

theorem C12_resolve_canonical (s : Store) (c : String) (h : AMap.get? s.recs c = some none) :
    s.resolve c = some c ∧ s.ensure c = (c, s) := by
  have hr : s.resolve c = some c := by simp [Store.resolve, h]
  exact ⟨hr, Store.ensure_of_resolve hr⟩

/-- an alias and its canonical name are interned to the very same result. -/
theorem C12_resolve_same (s : Store) (a c : String) (ha : AMap.get? s.recs a = some (some c))
    (hc : AMap.get? s.recs c = some none) : s.ensure a = s.ensure c := by
  rw [(C12_resolve s a c ha).2, (C12_resolve_canonical s c hc).2]

/-! ## C12_step / C12_transparent -/

/-- **C12_step.**  Respelling account and commodity names of a transaction through names the current context resolves
to the same canonical (at any subset of the occurrences: posting accounts, amounts, costs, lot prices, balance
assertions) does not change the result of processing the entry — new state, error, everything. -/
theorem C12_step (st : ProcState) (e e' : Entry) (h : Entry.RelCtx st.ctx e e') : stepEntry st e' = stepEntry st e := by
  cases e with
  | txn t =>
    cases e' with
    | txn t' =>
      have := (addTransactionSyntax_rel (c := st.ctx) st.bal (show Transaction.Rel _ _ t t' from h)).1
      simp only [stepEntry, this]
    | _ => simp [Entry.RelCtx, Entry.Rel] at h
  | _ => simp only [Entry.RelCtx, Entry.Rel] at h; rw [← h]

/-- **C12_transparent (semantic form).**  Two ledgers that agree entry by entry up to respelling of names through what
the context knows at that point of the run give the same `process` result: same error at the same entry, or the same
transactions, balances, price events and context (hence the same balance and register reports). -/
theorem C12_transparent : ∀ (es es' : List Entry) (st : ProcState) (i : Nat), EntriesRel st es es' →
    processFrom st i es' = processFrom st i es
  | [], [], _, _, _ => rfl
  | [], _ :: _, _, _, h => by simp [EntriesRel] at h
  | _ :: _, [], _, _, h => by simp [EntriesRel] at h
  | e :: es, e' :: es', st, i, h => by
    simp only [EntriesRel] at h
    simp only [processFrom, C12_step st e e' h.1]
    cases hs : stepEntry st e with
    | ok st1 => exact C12_transparent es es' st1 (i + 1) (h.2 st1 hs)
    | err x => rfl
    | panic q => rfl
    | fuelOut => rfl

theorem declared_mono {c c' : Ctx} {σ : AliasTable} (h : Declared c σ) (hle : c.le c') : Declared c' σ :=
  ⟨fun a k hm => ⟨hle.1 _ _ (h.1 a k hm).1, hle.1 _ _ (h.1 a k hm).2⟩,
   fun a k hm => ⟨hle.2 _ _ (h.2 a k hm).1, hle.2 _ _ (h.2 a k hm).2.1, (h.2 a k hm).2.2⟩⟩

theorem subst_sameAccount {c : Ctx} {σ : AliasTable} (h : Declared c σ) (x y : String)
    (hs : AliasTable.subst σ.accounts x y) : c.accounts.SameAccount x y := by
  rcases hs with rfl | hm
  · exact Or.inl rfl
  · have := h.1 y x hm
    exact Or.inr ⟨x, by simp [Store.resolve, this.2], by simp [Store.resolve, this.1]⟩

theorem subst_sameCommodity {c : Ctx} {σ : AliasTable} (h : Declared c σ) (x y : String)
    (hs : AliasTable.subst σ.commodities x y) : c.commodities.SameCommodity x y := by
  rcases hs with rfl | hm
  · exact Or.inl rfl
  · have := h.2 y x hm
    exact Or.inr ⟨this.2.2.2, this.2.2.1, x, by simp [Store.resolve, this.2.1], by simp [Store.resolve, this.1]⟩

/-- **C12_transparent (alias-table form).**  If every pair of the table is registered in the current context, replacing
canonical names by their aliases at any subset of the occurrences in the remaining entries changes nothing. -/
theorem C12_transparent_declared (σ : AliasTable) : ∀ (es es' : List Entry) (st : ProcState) (i : Nat),
    Declared st.ctx σ → SubstEntries σ es es' → processFrom st i es' = processFrom st i es
  | [], [], _, _, _, _ => rfl
  | [], _ :: _, _, _, _, h => by simp [SubstEntries, listRel] at h
  | _ :: _, [], _, _, _, h => by simp [SubstEntries, listRel] at h
  | e :: es, e' :: es', st, i, hd, h => by
    simp only [SubstEntries, listRel] at h
    have hrel : Entry.RelCtx st.ctx e e' := Entry.rel_mono (subst_sameAccount hd) (subst_sameCommodity hd) e e' h.1
    simp only [processFrom, C12_step st e e' hrel]
    cases hs : stepEntry st e with
    | ok st1 => exact C12_transparent_declared σ es es' st1 (i + 1) (declared_mono hd (stepEntry_le hs)) h.2
    | err x => rfl
    | panic q => rfl
    | fuelOut => rfl

theorem processFrom_le : ∀ (es : List Entry) (st st' : ProcState) (i : Nat), processFrom st i es = .ok st' →
    st.ctx.le st'.ctx
  | [], st, st', i, h => by simp [processFrom] at h; rw [← h]; exact Ctx.le_refl _
  | e :: es, st, st', i, h => by
    simp only [processFrom] at h
    cases hs : stepEntry st e with
    | ok st1 => simp only [hs] at h; exact Ctx.le_trans (stepEntry_le hs) (processFrom_le es st1 st' (i + 1) h)
    | err x => simp [hs] at h
    | panic q => simp [hs] at h
    | fuelOut => simp [hs] at h

/-- an accepted `account k` declaration with sub-directive `alias a` leaves `a ↦ k` and `k` canonical in the store. -/
theorem account_decl_registers {st st' : ProcState} {k : String} {ds : List AccountDetail}
    (h : stepEntry st (.account k ds) = .ok st') (a : String) (ha : a ∈ accountAliases ds) :
    AMap.get? st'.ctx.accounts.recs a = some (some k) ∧ AMap.get? st'.ctx.accounts.recs k = some none := by
  simp only [stepEntry] at h
  cases hc : st.ctx.accounts.insertCanonical k with
  | ok r =>
    obtain ⟨k', s1⟩ := r
    have h1 := Store.insertCanonical_ok hc
    obtain ⟨hle1, rfl, hk⟩ := h1
    simp only [hc] at h
    split at h
    next s2 hi =>
      simp at h
      rw [← h]
      have h2 := insertAliases_ok _ _ _ _ hi
      exact ⟨h2.2 a ha, h2.1 _ _ hk⟩
    · simp at h
    · simp at h
    · simp at h
  | err x => simp [hc] at h
  | panic q => simp [hc] at h
  | fuelOut => simp [hc] at h

theorem commodity_decl_registers {st st' : ProcState} {k : String} {ds : List CommodityDetail}
    (h : stepEntry st (.commodity k ds) = .ok st') (a : String) (ha : a ∈ commodityAliases ds) :
    AMap.get? st'.ctx.commodities.recs a = some (some k) ∧ AMap.get? st'.ctx.commodities.recs k = some none := by
  simp only [stepEntry] at h
  cases hc : st.ctx.commodities.insertCanonical k with
  | ok r =>
    obtain ⟨k', s1⟩ := r
    obtain ⟨hle1, rfl, hk⟩ := Store.insertCanonical_ok hc
    simp only [hc] at h
    cases hi : applyCommodityDetails { st.ctx with commodities := s1 } k' ds with
    | ok c' =>
      simp [hi] at h
      rw [← h]
      have h2 := applyCommodityDetails_ok _ _ _ _ hi
      exact ⟨h2.2 a ha, h2.1.2 _ _ hk⟩
    | err x => simp [hi] at h
    | panic q => simp [hi] at h
    | fuelOut => simp [hi] at h
  | err x => simp [hc] at h
  | panic q => simp [hc] at h
  | fuelOut => simp [hc] at h

theorem declared_after : ∀ (pre : List Entry) (st0 st : ProcState) (i : Nat), processFrom st0 i pre = .ok st →
    (∀ a k, DeclaresAccount pre a k →
      AMap.get? st.ctx.accounts.recs a = some (some k) ∧ AMap.get? st.ctx.accounts.recs k = some none) ∧
    (∀ a k, DeclaresCommodity pre a k →
      AMap.get? st.ctx.commodities.recs a = some (some k) ∧ AMap.get? st.ctx.commodities.recs k = some none)
  | [], _, _, _, _ => ⟨fun a k ⟨_, hm, _⟩ => by simp at hm, fun a k ⟨_, hm, _⟩ => by simp at hm⟩
  | e :: pre, st0, st, i, h => by
    simp only [processFrom] at h
    cases hs : stepEntry st0 e with
    | ok st1 =>
      simp only [hs] at h
      have ih := declared_after pre st1 st (i + 1) h
      have hle := processFrom_le pre st1 st (i + 1) h
      refine ⟨?_, ?_⟩
      · intro a k ⟨ds, hm, ha⟩
        rcases List.mem_cons.1 hm with heq | hm
        · subst heq
          have := account_decl_registers hs a ha
          exact ⟨hle.1 _ _ this.1, hle.1 _ _ this.2⟩
        · exact ih.1 a k ⟨ds, hm, ha⟩
      · intro a k ⟨ds, hm, ha⟩
        rcases List.mem_cons.1 hm with heq | hm
        · subst heq
          have := commodity_decl_registers hs a ha
          exact ⟨hle.2 _ _ this.1, hle.2 _ _ this.2⟩
        · exact ih.2 a k ⟨ds, hm, ha⟩
    | err x => simp [hs] at h
    | panic q => simp [hs] at h
    | fuelOut => simp [hs] at h

/-- **C12_transparent (the statement of the property).**  Let the first part `pre` of a ledger contain, for every pair
`(a, k)` of the table, a declaration `account k` (resp. `commodity k`) with a sub-directive `alias a`.  Writing such an
alias instead of the canonical name at ANY subset of the occurrences in the transactions after `pre` (posting accounts,
amounts, costs, lot prices, balance assertions) leaves the result of `process` unchanged — whether the ledger is accepted
(same transactions, balances, register) or rejected (same error at the same entry). -/
theorem C12_transparent_decl (σ : AliasTable) (pre es es' : List Entry)
    (hacc : ∀ a k, (a, k) ∈ σ.accounts → DeclaresAccount pre a k)
    (hcom : ∀ a k, (a, k) ∈ σ.commodities → DeclaresCommodity pre a k ∧ a.isEmpty = false ∧ k.isEmpty = false)
    (hsub : SubstEntries σ es es') : process (pre ++ es') = process (pre ++ es) := by
  unfold process
  rw [processFrom_append, processFrom_append]
  cases hp : processFrom {} 0 pre with
  | ok st =>
    have hd := declared_after pre {} st 0 hp
    have hdecl : Declared st.ctx σ :=
      ⟨fun a k hm => hd.1 a k (hacc a k hm),
       fun a k hm => ⟨(hd.2 a k (hcom a k hm).1).1, (hd.2 a k (hcom a k hm).1).2, (hcom a k hm).2.1, (hcom a k hm).2.2⟩⟩
    exact C12_transparent_declared σ es es' st _ hdecl hsub
  | err x => rfl
  | panic q => rfl
  | fuelOut => rfl

/-! ## C12_conflict -/

/-- **C12_conflict (store).**  Declaring as an alias a name that is a canonical name, declaring as canonical a name that is
an alias, and declaring an alias for a second canonical name are all errors; the store is not changed (no `ok` result). -/
theorem C12_conflict (s : Store) (x k k' : String) :
    (AMap.get? s.recs x = some none → s.insertAlias x k = .err .alreadyCanonical) ∧
    (AMap.get? s.recs x = some (some k) → s.insertCanonical x = .err .alreadyAlias) ∧
    (AMap.get? s.recs x = some (some k) → k ≠ k' → s.insertAlias x k' = .err .aliasConflict) := by
  refine ⟨fun h => by simp [Store.insertAlias, h], fun h => by simp [Store.insertCanonical, h], fun h hne => ?_⟩
  simp [Store.insertAlias, h, hne]

/-- a name "in use": written earlier as an account (it was interned by `ensure`, so it is canonical or an alias). -/
theorem insertAliases_conflict : ∀ (as : List String) (s : Store) (k : String),
    (∃ a ∈ as, AMap.get? s.recs a = some none ∨ ∃ f, AMap.get? s.recs a = some (some f) ∧ f ≠ k) →
    ∃ e, insertAliases s k as = .err e
  | [], _, _, ⟨_, hm, _⟩ => by simp at hm
  | b :: as, s, k, ⟨a, hm, hc⟩ => by
    simp only [insertAliases]
    cases hb : s.insertAlias b k with
    | ok s1 =>
      simp only
      have hle := (Store.insertAlias_ok hb).1
      rcases List.mem_cons.1 hm with rfl | hm
      · -- the conflicting alias is the first one: it cannot have succeeded
        rcases hc with hc | ⟨f, hc, hne⟩
        · simp [Store.insertAlias, hc] at hb
        · simp [Store.insertAlias, hc, hne] at hb
      · refine insertAliases_conflict as s1 k ⟨a, hm, ?_⟩
        rcases hc with hc | ⟨f, hc, hne⟩
        · exact Or.inl (hle _ _ hc)
        · exact Or.inr ⟨f, hle _ _ hc, hne⟩
    | err e => exact ⟨e, rfl⟩
    | panic q =>
      unfold Store.insertAlias at hb
      split at hb <;> (try split at hb) <;> simp at hb
    | fuelOut =>
      unfold Store.insertAlias at hb
      split at hb <;> (try split at hb) <;> simp at hb

/-- **C12_conflict (process).**  An `account` declaration is rejected, and `process` fails at exactly that entry with
`InvalidAccount`, when its name is already an alias, or one of its aliases is already a canonical name (declared, or
simply used before: see `C12_use_makes_canonical`) or an alias of another account. -/
theorem C12_conflict_process (st : ProcState) (i : Nat) (k : String) (ds : List AccountDetail) (rest : List Entry)
    (h : (∃ c, AMap.get? st.ctx.accounts.recs k = some (some c)) ∨
         (∃ a ∈ accountAliases ds, a ≠ k ∧ (AMap.get? st.ctx.accounts.recs a = some none ∨
            ∃ f, AMap.get? st.ctx.accounts.recs a = some (some f) ∧ f ≠ k)) ∨
         k ∈ accountAliases ds) :
    processFrom st i (.account k ds :: rest) = .err (i, .invalidAccount) := by
  have hstep : stepEntry st (.account k ds) = .err .invalidAccount := by
    simp only [stepEntry]
    rcases h with ⟨c, hc⟩ | h
    · simp [Store.insertCanonical, hc]
    · cases hins : st.ctx.accounts.insertCanonical k with
      | ok r =>
        obtain ⟨k', s1⟩ := r
        obtain ⟨hle, rfl, hk⟩ := Store.insertCanonical_ok hins
        have hex : ∃ a ∈ accountAliases ds, AMap.get? s1.recs a = some none ∨ ∃ f, AMap.get? s1.recs a = some (some f) ∧ f ≠ k' := by
          rcases h with ⟨a, ha, _, hc⟩ | hself
          · refine ⟨a, ha, ?_⟩
            rcases hc with hc | ⟨f, hc, hne⟩
            · exact Or.inl (hle _ _ hc)
            · exact Or.inr ⟨f, hle _ _ hc, hne⟩
          · exact ⟨k', hself, Or.inl hk⟩
        obtain ⟨e, he⟩ := insertAliases_conflict _ s1 k' hex
        dsimp only
        split
        · next s2 hi => exact absurd (hi.symm.trans he) (by simp)
        · rfl
        · next q hi => exact absurd (hi.symm.trans he) (by simp)
        · next hi => exact absurd (hi.symm.trans he) (by simp)
      | err e => rfl
      | panic q =>
        unfold Store.insertCanonical at hins
        split at hins <;> simp at hins
      | fuelOut =>
        unfold Store.insertCanonical at hins
        split at hins <;> simp at hins
  simp [processFrom, hstep]

/-- the same for commodities: the canonical name is already an alias. -/
theorem C12_conflict_commodity (st : ProcState) (i : Nat) (k c : String) (ds : List CommodityDetail) (rest : List Entry)
    (h : AMap.get? st.ctx.commodities.recs k = some (some c)) :
    processFrom st i (.commodity k ds :: rest) = .err (i, .invalidCommodity) := by
  simp [processFrom, stepEntry, Store.insertCanonical, h]

/-- … or an alias of the declaration is a canonical commodity / an alias of another commodity (first sub-directive). -/
theorem C12_conflict_commodity_alias (st : ProcState) (i : Nat) (k a : String) (ds : List CommodityDetail) (rest : List Entry)
    (hk : AMap.get? st.ctx.commodities.recs k = some none)
    (ha : AMap.get? st.ctx.commodities.recs a = some none ∨ ∃ f, AMap.get? st.ctx.commodities.recs a = some (some f) ∧ f ≠ k) :
    processFrom st i (.commodity k (.alias a :: ds) :: rest) = .err (i, .invalidCommodity) := by
  rcases ha with ha | ⟨f, ha, hne⟩
  · simp [processFrom, stepEntry, Store.insertCanonical, hk, applyCommodityDetails, Store.insertAlias, ha]
  · simp [processFrom, stepEntry, Store.insertCanonical, hk, applyCommodityDetails, Store.insertAlias, ha, hne]

/-- every account written in an accepted transaction is registered afterwards; if it was unknown before, it has become a
canonical name — so that declaring it as an alias later is rejected (`C12_conflict_process`): use-before-declare. -/
theorem ensure_registers (s : Store) (x : String) :
    (s.resolve x = none → AMap.get? (s.ensure x).2.recs x = some none) ∧ ((s.ensure x).2.resolve x).isSome = true := by
  constructor
  · intro h
    simp [Store.ensure, h, AMap.get?_insert_self]
  · cases h : s.resolve x with
    | none =>
      have : (s.ensure x).2 = ⟨AMap.insert s.recs x none⟩ := by simp [Store.ensure, h]
      rw [this]
      simp [Store.resolve, AMap.get?_insert_self]
    | some c => simp [Store.ensure, h]

theorem resolvePosting_registers {c c' : Ctx} {p : Posting} {rp : RPosting String String}
    (h : resolvePosting c p = .ok (rp, c')) :
    (c.accounts.resolve p.account = none → AMap.get? c'.accounts.recs p.account = some none) ∧
    c'.accounts = (c.accounts.ensure p.account).2 := by
  have hacc : c'.accounts = (c.accounts.ensure p.account).2 := by
    unfold resolvePosting at h
    simp only at h
    split at h
    · split at h <;> simp at h
      rw [← h.2]
    · split at h
      · split at h <;> simp at h
        rw [← h.2]
      · simp at h
      · simp at h
      · simp at h
  exact ⟨fun hn => by rw [hacc]; exact (ensure_registers c.accounts p.account).1 hn, hacc⟩

theorem loopSyntax_registers (date : Date) : ∀ (ps : List Posting) (c c' : Ctx) (st st' : TxnState String String) (idx : Nat),
    loopSyntax date c st idx ps = .ok (c', st') → ∀ p ∈ ps, (c'.accounts.resolve p.account).isSome = true ∧
      (c.accounts.resolve p.account = none → AMap.get? c'.accounts.recs p.account = some none)
  | [], _, _, _, _, _, _ => by simp
  | q :: ps, c, c', st, st', idx, h => by
    simp only [loopSyntax] at h
    cases hr : resolvePosting c q with
    | ok r =>
      obtain ⟨rp, c1⟩ := r
      simp only [hr] at h
      cases hs : stepPosting date st idx rp with
      | ok st1 =>
        simp only [hs] at h
        have ih := loopSyntax_registers date ps c1 c' st1 st' (idx + 1) h
        have hle : c1.le c' := (loopSyntax_rel c1 date ps ps c1 st1 (idx + 1)
          (listRel_refl (Posting.rel_refl (fun _ => Or.inl rfl) (fun _ => Or.inl rfl)) ps) (Ctx.le_refl c1)).2 c' st' h
        have hq := resolvePosting_registers hr
        have hcle : c.accounts.le c1.accounts := by rw [hq.2]; exact Store.ensure_le _ _
        intro p hp
        rcases List.mem_cons.1 hp with rfl | hp
        · have hsome : (c1.accounts.resolve p.account).isSome = true := by
            rw [hq.2]; exact (ensure_registers c.accounts p.account).2
          refine ⟨?_, fun hn => hle.1 _ _ (hq.1 hn)⟩
          cases hres : c1.accounts.resolve p.account with
          | none => simp [hres] at hsome
          | some k => simp [Store.resolve_of_le hle.1 hres]
        · refine ⟨(ih p hp).1, fun hn => ?_⟩
          by_cases h1 : c1.accounts.resolve p.account = none
          · exact (ih p hp).2 h1
          · -- registered by the first posting already: then it is the first posting's account, made canonical there
            by_cases hsame : p.account = q.account
            · rw [hsame] at hn ⊢; exact hle.1 _ _ (hq.1 hn)
            · exfalso
              apply h1
              rw [hq.2]
              simp only [Store.ensure]
              cases hqr : c.accounts.resolve q.account with
              | some k => simpa using hn
              | none =>
                simp only [Store.resolve]
                rw [AMap.get?_insert_ne _ _ (Ne.symm hsame)]
                exact (by simpa [Store.resolve] using hn)
      | err x => simp [hs] at h
      | panic s => simp [hs] at h
      | fuelOut => simp [hs] at h
    | err x => simp [hr] at h
    | panic s => simp [hr] at h
    | fuelOut => simp [hr] at h

/-- **C12_use_makes_canonical.**  After an accepted transaction every posting account is registered; one that was unknown
before is now canonical, hence (by `C12_conflict_process`) can no longer be declared an alias. -/
theorem C12_use_makes_canonical (st st' : ProcState) (t : Transaction) (h : stepEntry st (.txn t) = .ok st')
    (p : Posting) (hp : p ∈ t.posts) (hnew : st.ctx.accounts.resolve p.account = none) :
    AMap.get? st'.ctx.accounts.recs p.account = some none := by
  simp only [stepEntry] at h
  cases ha : addTransactionSyntax st.ctx st.bal t with
  | ok r =>
    obtain ⟨c', rr⟩ := r
    simp [ha] at h
    rw [← h]
    unfold addTransactionSyntax at ha
    split at ha
    next c1 st1 hl =>
      have := (loopSyntax_registers t.date t.posts st.ctx c1 _ st1 0 hl p hp).2 hnew
      split at ha <;> simp at ha
      rw [← ha.1]; exact this
    · simp at ha
    · simp at ha
    · simp at ha
  | err x => simp [ha] at h
  | panic q => simp [ha] at h
  | fuelOut => simp [ha] at h

theorem C12_use_before_declare (st st' : ProcState) (t : Transaction) (h : stepEntry st (.txn t) = .ok st')
    (p : Posting) (hp : p ∈ t.posts) (hnew : st.ctx.accounts.resolve p.account = none) (i : Nat) (k : String)
    (ds : List AccountDetail) (hds : p.account ∈ accountAliases ds) (rest : List Entry) :
    processFrom st' i (.account k ds :: rest) = .err (i, .invalidAccount) := by
  have hc := C12_use_makes_canonical st st' t h p hp hnew
  by_cases hk : p.account = k
  · exact C12_conflict_process st' i k ds rest (Or.inr (Or.inr (hk ▸ hds)))
  · exact C12_conflict_process st' i k ds rest (Or.inr (Or.inl ⟨p.account, hds, hk, Or.inl hc⟩))

/-! ## C12_canonical -/

/-- **C12_canonical (accounts).**  In the ledger produced by an accepted run, every account name — keys of the balance and
posting accounts of every transaction, i.e. everything `balance` and `register` print — is a canonical record of the
account store; no alias key ever appears. -/
theorem C12_canonical_accounts (es : List Entry) (st : ProcState) (h : process es = .ok st) :
    (∀ a ∈ ledgerAccounts st, AMap.get? st.ctx.accounts.recs a = some none) ∧
    (∀ a k, AMap.get? st.ctx.accounts.recs a = some (some k) → a ∉ ledgerAccounts st) := by
  have hinv : CanonInv st := processFrom_canon es {} st 0 h
    ⟨fun a k ha => by simp at ha, fun a ha => by simp [ledgerAccounts] at ha⟩
  refine ⟨hinv.2, fun a k hak hmem => ?_⟩
  have := hinv.2 a hmem
  rw [Store.Canon, hak] at this
  cases this

/-! ## non-vacuity -/

section examples
private def usd (n : Nat) (neg : Bool) (c : String) : VExpr := .amt ⟨neg, n, 0, none⟩ c
private def post (a : String) (n : Nat) (neg : Bool) (c : String) : Posting :=
  { account := a, amount := some { amount := usd n neg c } }
private def postAssert (a : String) (n : Nat) (c : String) (bal : Nat) (c' : String) : Posting :=
  { account := a, amount := some { amount := usd n false c, cost := none }, balance := some (usd bal false c') }
private def day (d : Nat) : Date := ⟨2024, 1, d⟩

/-- `account Assets:Bank / alias bank`, `commodity USD / alias US$`, then two transactions with canonical names. -/
private def exPre : List Entry :=
  [.account "Assets:Bank" [.note "n", .alias "bank", .alias "B"], .commodity "USD" [.alias "US$"]]
private def exPost : List Entry :=
  [.txn { date := day 1, posts := [postAssert "Assets:Bank" 10 "USD" 10 "USD", post "Income" 10 true "USD"] },
   .txn { date := day 2, posts := [postAssert "Assets:Bank" 5 "USD" 15 "USD", { account := "Income" }] }]
/-- the same with aliases at some of the occurrences (account, amount commodity, assertion commodity). -/
private def exPost' : List Entry :=
  [.txn { date := day 1, posts := [postAssert "bank" 10 "US$" 10 "USD", post "Income" 10 true "US$"] },
   .txn { date := day 2, posts := [postAssert "B" 5 "USD" 15 "US$", { account := "Income" }] }]
private def exσ : AliasTable :=
  { accounts := [("bank", "Assets:Bank"), ("B", "Assets:Bank")], commodities := [("US$", "USD")] }

-- hypotheses of C12_transparent_decl hold for a ledger that is accepted and books two transactions
example : SubstEntries exσ exPost exPost' := by
  simp [SubstEntries, listRel, exPost, exPost', Entry.Rel, Transaction.Rel, Posting.Rel, PostingAmount.Rel, optRel,
    VExpr.Rel, AliasTable.subst, exσ, postAssert, post, usd]
example : DeclaresAccount exPre "bank" "Assets:Bank" ∧ DeclaresAccount exPre "B" "Assets:Bank" ∧
    DeclaresCommodity exPre "US$" "USD" :=
  ⟨⟨_, List.mem_cons_self, by simp [accountAliases]⟩, ⟨_, List.mem_cons_self, by simp [accountAliases]⟩,
   ⟨_, List.mem_cons_of_mem _ List.mem_cons_self, by simp [commodityAliases]⟩⟩
private def okWith (r : Outcome (Nat × BkErrS) ProcState) (f : ProcState → Bool) : Bool :=
  match r with
  | .ok st => f st
  | _ => false
example : okWith (process (exPre ++ exPost')) (fun st =>
    st.txns.length == 2 && st.bal.map (·.1) == ["Assets:Bank", "Income"] &&
      Balance.get st.bal "Assets:Bank" == [("USD", (15 : Rat))]) = true := by decide +kernel
-- negative: an assertion that is wrong is rejected whatever the spelling
example : (process (exPre ++ [.txn { date := day 1, posts := [postAssert "bank" 10 "US$" 11 "USD", post "Income" 10 true "USD"] }])).isErr = true := by
  decide +kernel
-- C12_conflict: alias of a canonical name; canonical name that is an alias; alias of two accounts (F21); use before declare
example : (process [.account "A" [], .account "B" [.alias "A"]]).isErr = true ∧
    (process [.account "A" [.alias "X"], .account "X" []]).isErr = true ∧
    (process [.account "A" [.alias "X"], .account "B" [.alias "X"]]).isErr = true ∧
    (process [.account "A" [.alias "X"], .account "A" [.alias "X"]]).isOk = true ∧
    (process [.txn { date := day 1, posts := [post "X" 1 false "USD", { account := "Y" }] }, .account "A" [.alias "X"]]).isErr = true ∧
    (process [.commodity "USD" [.alias "D"], .commodity "EUR" [.alias "D"]]).isErr = true := by decide +kernel
-- C12_resolve on a concrete store
example : (Store.mk [("A", none), ("X", some "A")]).ensure "X" = ("A", Store.mk [("A", none), ("X", some "A")]) ∧
    (Store.mk [("A", none), ("X", some "A")]).resolve "X" = some "A" :=
  C12_resolve _ "X" "A" (by decide +kernel) |>.symm
end examples

end Okane
