/-! # C03 — property theorems (stub) -/
