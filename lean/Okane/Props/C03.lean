import Okane.Props.C01
/-!
# C03 — omitted and assigned amounts are inferred exactly
-/
set_option linter.unusedSectionVars false
namespace Okane
variable {α κ : Type} [DecidableEq α] [DecidableEq κ]
open Spec

/-- **C03_assign** (`acct = X`, X with a commodity): the posting receives exactly X minus the account's current
balance in that commodity, and the step leaves the account at X in that commodity; no other commodity of the
account moves. -/
theorem C03_assign (date : Date) (st st' : TxnState α κ) (idx : Nat) (p : RPosting α κ) (s : SingleAmount κ)
    (ha : p.amount = none) (hb : p.balance = some (.single s)) (hinv : Balance.Inv st.bal)
    (h : stepPosting date st idx p = .ok st') :
    (∃ out, st'.postings = st.postings ++ [out] ∧ out.account = p.account ∧
        out.amount = [(s.commodity, s.value - Amount.getPart (Balance.get st.bal p.account) s.commodity)]) ∧
    Amount.getPart (Balance.get st'.bal p.account) s.commodity = s.value ∧
    (∀ c, c ≠ s.commodity → Amount.getPart (Balance.get st'.bal p.account) c = Amount.getPart (Balance.get st.bal p.account) c) := by
  rw [stepPosting_assign date st idx p _ ha hb] at h
  simp only [Balance.setPartial, PostingAmt.checkSub, PostingAmt.neg, PostingAmt.checkAdd, SingleAmount.checkAdd,
    SingleAmount.neg, Amount.setPartial_snd, if_true, Outcome.map'] at h
  simp only [Outcome.ok.injEq] at h
  subst h
  refine ⟨⟨_, rfl, rfl, ?_⟩, ?_, ?_⟩
  · simp [PostingAmt.toAmount, Rat.sub_eq_add_neg]
  · simp only [Balance.get_insert, if_true]
    rw [Amount.setPartial_fst_getPart _ _ (hinv p.account).1]; simp
  · intro c hc
    simp only [Balance.get_insert, if_true]
    rw [Amount.setPartial_fst_getPart _ _ (hinv p.account).1]; simp [Ne.symm hc]

/-- **C03_assign0** (`acct = 0`): with at most one commodity held the posting receives minus the whole balance and
the account is left empty; with two or more commodities the step is rejected. -/
theorem C03_assign0 (date : Date) (st : TxnState α κ) (idx : Nat) (p : RPosting α κ)
    (ha : p.amount = none) (hb : p.balance = some .zero) :
    (∀ prev, (Balance.get st.bal p.account).toPosting = .ok prev →
       ∃ st', stepPosting date st idx p = .ok st' ∧ Balance.get st'.bal p.account = [] ∧
         st'.postings = st.postings ++ [⟨p.account, prev.neg.toAmount, none⟩]) ∧
    ((Balance.get st.bal p.account).length ≥ 2 → stepPosting date st idx p = .err .balanceFailure) := by
  rw [stepPosting_assign date st idx p _ ha hb]
  constructor
  · intro prev hprev
    simp only [Balance.setPartial, hprev, PostingAmt.checkSub, PostingAmt.checkAdd]
    refine ⟨_, rfl, ?_, rfl⟩
    simp [Balance.get_insert]
  · intro hlen
    have : (Balance.get st.bal p.account).toPosting = .err .postingAmountRequired := by
      match hg : Balance.get st.bal p.account with
      | [] => simp [hg] at hlen
      | [_] => simp [hg] at hlen
      | _ :: _ :: _ => simp [Amount.toPosting]
    simp [Balance.setPartial, this]

/-- **C03_two**: a second unconstrained posting is rejected, naming both. -/
theorem C03_two (date : Date) (st : TxnState α κ) (idx first : Nat) (p : RPosting α κ)
    (ha : p.amount = none) (hb : p.balance = none) (hu : st.unfilled = some first) :
    stepPosting date st idx p = .err (.undeducible first idx) := by
  rw [stepPosting_omitted date st idx p ha hb, hu]

/-- two or more unconstrained postings: the whole transaction is rejected (never accepted, never a crash). -/
theorem C03_two_txn (prec : κ → Option Nat) (bal : Balance α κ) (t : RTxn α κ) (h2 : omittedCount t.posts ≥ 2) :
    ∃ e, addTransaction prec bal t = .err e := by
  have hc := C01_no_crash prec bal t
  cases h : addTransaction prec bal t with
  | ok res =>
    exfalso
    unfold addTransaction at h
    split at h
    · rename_i st hloop
      have hom := (loop_omitted t.date t.posts _ st 0 hloop).1 rfl
      rcases hom with ⟨_, h0⟩ | ⟨_, h1⟩ <;> omega
    all_goals simp at h
  | err e => exact ⟨e, rfl⟩
  | panic s => rw [h] at hc; simp [Outcome.crashes] at hc
  | fuelOut => rw [h] at hc; simp [Outcome.crashes] at hc

/-- **C03_omitted**: the posting written without amount receives exactly the negation of the sum of the other
postings' balancing values, commodity by commodity (`st` is the state after evaluating the postings; in the total
the omitted posting itself contributes nothing, an assignment posting contributes its inferred amount). -/
theorem C03_omitted (prec : κ → Option Nat) (bal : Balance α κ) (t : RTxn α κ) (res : TxnResult α κ) (st : TxnState α κ)
    (hloop : loopPostings t.date ⟨[], none, [], bal, [], []⟩ 0 t.posts = .ok st)
    (h : addTransaction prec bal t = .ok res) (hom : omittedCount t.posts = 1) :
    ∃ u, st.unfilled = some u ∧
      ((res.txn.postings[u]?).map (·.amount)) = some st.balance.neg ∧
      (∀ c, Amount.getPart st.balance.neg c = - Spec.total t.posts (st.postings.map (·.amount)) c) ∧
      (∀ j, j ≠ u → (res.txn.postings[j]?).map (·.amount) = (st.postings[j]?).map (·.amount)) := by
  have hbal := BalOK_loop t.date t.posts _ st 0 hloop (BalOK_init bal)
  obtain ⟨outs, ds, hp, hd, hal⟩ := loop_aligned t.date t.posts _ st 0 hloop
  simp only [List.nil_append] at hp hd
  have hidx := IdxOK_loop t.date t.posts _ st 0 hloop ⟨rfl, by simp⟩
  have hom' := (loop_omitted t.date t.posts _ st 0 hloop).1 rfl
  unfold addTransaction at h
  rw [hloop] at h
  simp only at h
  cases hu : st.unfilled with
  | none =>
    rcases hom' with ⟨_, h0⟩ | ⟨h1, _⟩
    · omega
    · simp [hu] at h1
  | some u =>
    have hlt := hidx.2 u hu
    have hget : st.postings[u]? = some st.postings[u] := by simp [hlt]
    simp only [hu, hget, Option.map_some] at h
    simp only [Outcome.ok.injEq] at h
    subst h
    refine ⟨u, rfl, by simp [hlt], ?_, ?_⟩
    · intro c
      rw [Amount.getPart_neg, hbal.2 c, hd, hp, aligned_total t.posts outs ds hal c]
    · intro j hj
      simp [Ne.symm hj]

theorem Balance.setPartial_get_ne (b b' : Balance α κ) (a a' : α) (x prev : PostingAmt κ)
    (h : Balance.setPartial b a x = .ok (b', prev)) (hne : a ≠ a') : Balance.get b' a' = Balance.get b a' := by
  cases x with
  | zero =>
    simp only [Balance.setPartial] at h
    split at h
    · simp only [Outcome.ok.injEq, Prod.mk.injEq] at h
      rw [← h.1]; simp [Balance.get_insert, hne]
    · simp at h
  | single s =>
    simp only [Balance.setPartial, Outcome.ok.injEq, Prod.mk.injEq] at h
    rw [← h.1]; simp [Balance.get_insert, hne]

/-- **C03_frame**: inference never alters any other account: an account not named by the transaction keeps its
balance. -/
theorem C03_frame_step (date : Date) (st st' : TxnState α κ) (idx : Nat) (p : RPosting α κ) (a : α)
    (h : stepPosting date st idx p = .ok st') (hne : p.account ≠ a) :
    Balance.get st'.bal a = Balance.get st.bal a := by
  cases ha : p.amount with
  | some ra =>
    rw [stepPosting_amount date st idx p ra ha] at h
    split at h
    · simp at h
    · simp only [Outcome.ok.injEq] at h; subst h
      simp [Balance.get_addPostingAmount, hne]
  | none =>
    cases hb : p.balance with
    | none =>
      rw [stepPosting_omitted date st idx p ha hb] at h
      split at h
      · simp at h
      · simp only [Outcome.ok.injEq] at h; subst h; rfl
    | some x =>
      rw [stepPosting_assign date st idx p x ha hb] at h
      cases hs : Balance.setPartial st.bal p.account x with
      | ok r =>
        obtain ⟨bal', prev⟩ := r
        rw [hs] at h
        simp only at h
        cases hc : x.checkSub prev with
        | ok amount =>
          rw [hc] at h
          simp only [Outcome.ok.injEq] at h; subst h
          exact Balance.setPartial_get_ne _ _ _ _ _ _ hs hne
        | err e => rw [hc] at h; simp at h
        | panic e => rw [hc] at h; simp at h
        | fuelOut => rw [hc] at h; simp at h
      | err e => rw [hs] at h; simp at h
      | panic e => rw [hs] at h; simp at h
      | fuelOut => rw [hs] at h; simp at h

theorem C03_frame_loop (date : Date) (ps : List (RPosting α κ)) (st st' : TxnState α κ) (idx : Nat) (a : α)
    (h : loopPostings date st idx ps = .ok st') (hne : ∀ p ∈ ps, p.account ≠ a) :
    Balance.get st'.bal a = Balance.get st.bal a := by
  induction ps generalizing st idx with
  | nil => simp [loopPostings] at h; subst h; rfl
  | cons p ps ih =>
    simp only [loopPostings] at h
    split at h
    · rename_i st1 h1
      rw [ih st1 (idx + 1) h (fun q hq => hne q (List.mem_cons_of_mem _ hq)),
        C03_frame_step date st st1 idx p a h1 (hne p (by simp))]
    all_goals simp at h

/-- every emitted posting carries the account of some posting of the transaction -/
theorem aligned_account (ps : List (RPosting α κ)) (os : List (OutPosting α κ)) (ds : List (PostingAmt κ))
    (hal : Aligned ps os ds) : ∀ o ∈ os, ∃ p ∈ ps, p.account = o.account := by
  induction ps generalizing os ds with
  | nil => intro o ho; cases os <;> cases ds <;> simp [Aligned] at hal; simp at ho
  | cons p ps ih =>
    intro o ho
    cases os with
    | nil => simp at ho
    | cons o' os' =>
      cases ds with
      | nil => simp [Aligned] at hal
      | cons d ds' =>
        simp only [Aligned] at hal
        simp only [List.mem_cons] at ho
        rcases ho with rfl | ho
        · exact ⟨p, by simp, hal.1.1.symm⟩
        · obtain ⟨q, hq, hqa⟩ := ih os' ds' hal.2 o ho
          exact ⟨q, List.mem_cons_of_mem _ hq, hqa⟩

theorem C03_frame (prec : κ → Option Nat) (bal : Balance α κ) (t : RTxn α κ) (res : TxnResult α κ) (a : α)
    (h : addTransaction prec bal t = .ok res) (hne : ∀ p ∈ t.posts, p.account ≠ a) :
    Balance.get res.bal a = Balance.get bal a := by
  unfold addTransaction at h
  cases hloop : loopPostings t.date ⟨[], none, [], bal, [], []⟩ 0 t.posts with
  | ok st =>
    rw [hloop] at h
    simp only at h
    have hfr := C03_frame_loop t.date t.posts _ st 0 a hloop hne
    obtain ⟨outs, ds, hp, hd, hal⟩ := loop_aligned t.date t.posts _ st 0 hloop
    simp only [List.nil_append] at hp
    cases hu : st.unfilled with
    | some u =>
      simp only [hu] at h
      cases hg : st.postings[u]? with
      | none => simp [hg] at h
      | some o =>
        simp only [hg, Option.map_some, Outcome.ok.injEq] at h
        subst h
        simp only [Balance.get_addAmount]
        have ho : o ∈ outs := by rw [← hp]; exact List.mem_of_getElem? hg
        obtain ⟨q, hq, hqa⟩ := aligned_account t.posts outs ds hal o ho
        have : o.account ≠ a := by rw [← hqa]; exact hne q hq
        simp [this, hfr]
    | none =>
      simp only [hu] at h
      cases hcb : checkBalance prec t.date st.postings st.balance with
      | ok r =>
        rw [hcb] at h
        simp only [Outcome.ok.injEq] at h; subst h; exact hfr
      | err e => rw [hcb] at h; simp at h
      | panic e => rw [hcb] at h; simp at h
      | fuelOut => rw [hcb] at h; simp at h
  | err e => rw [hloop] at h; simp at h
  | panic e => rw [hloop] at h; simp at h
  | fuelOut => rw [hloop] at h; simp at h

-- non-vacuity: assignment after a history, and an omitted posting absorbing two commodities
example : (addTransaction (α := Nat) (κ := Nat) (fun _ => none) [(0, [(1, 7)])]
    ⟨⟨2024, 1, 1⟩, [⟨0, none, some (.single ⟨10, 1⟩)⟩, ⟨1, none, none⟩]⟩).isOk = true := by decide +kernel
example : (addTransaction (α := Nat) (κ := Nat) (fun _ => none) [(0, [(1, 7), (2, 3)])]
    ⟨⟨2024, 1, 1⟩, [⟨0, none, some .zero⟩, ⟨1, none, none⟩]⟩).isErr = true := by decide +kernel

end Okane

namespace Okane

/-! ## "leaves the account at X" at the end of the transaction is false of the code when the transaction's
omitted posting is on the same account (finding F12): `A` / `A = 10 USD` / `B 5 USD` ends with A at 5 USD. -/
theorem C03_leaves_at_X_false :
    (match addTransaction (α := Nat) (κ := Nat) (fun _ => none) []
        ⟨⟨2024, 1, 1⟩, [⟨0, none, none⟩, ⟨0, none, some (.single ⟨10, 1⟩)⟩, ⟨1, some (.plain (.single ⟨5, 1⟩)), none⟩]⟩ with
     | .ok res => Amount.getPart (Balance.get res.bal 0) 1 == 10
     | _ => true) = false := by decide +kernel

end Okane
