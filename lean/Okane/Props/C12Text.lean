import Okane.Lemmas.BookText4
import Okane.Lemmas.BookText6
/-!
# C12 on ledger TEXTS (parser model ∘ book-keeping)

Theorems (in `Lemmas/BookText4.lean`, namespace `Okane.BookText`):

* `C12_text_transparent` — two texts whose parsed entries are a common part (with the `alias` declarations) followed by
  entries that differ only by aliases written for canonical names, at any subset of the occurrences, denote the same
  ledger (same `process` result, accepted together); `C12_text_transparent_at` — one posting line, one token;
* `formatEntries_replace_account`, `C12_text_token` — the replacement AS TEXT in the layout `format` writes (for a width
  function that gives both names the same width): the two texts are `L ++ alias ++ R` and `L ++ canonical ++ R`, they parse
  to the two trees (C05 round trip) and denote the same ledger;
* `process_canon`, `format_denotes_same`, `C12_text_format_token` (`Lemmas/BookText6.lean`) — the same for EVERY text (ASCII
  white space only) that parses, through okane's own `format`: `format w t = L ++ alias ++ R`, the text `L ++ canonical ++ R`
  parses and is accepted iff `t` is, with the same `process` result;
* `C12_text_conflict`, `C12_text_conflict_store`, `C12_text_conflict_canonical`, `C12_text_conflict_used`,
  `C12_text_conflict_commodity` — a text that declares a conflicting alias is rejected at that declaration.

Not proved: the textual token replacement in an arbitrary hand-written layout (needs a locality theorem for the whole
parser).  For hand-written texts the statement is `C12_text_transparent_at`, whose parser hypotheses are then closed
facts about the two texts (kernel-evaluated below).

This file: non-vacuity on real ledger texts.
-/
namespace Okane.C12Text
open Okane Okane.Spec Okane.BookText Okane.Unparse

deriving instance DecidableEq for Expr
deriving instance DecidableEq for Exchange
deriving instance DecidableEq for Lot
deriving instance DecidableEq for PostingAmount
deriving instance DecidableEq for Posting
deriving instance DecidableEq for Transaction
deriving instance DecidableEq for Entry

/-- hand-written: a declaration with an alias, and a transaction that writes the alias -/
def textAlias : List Char :=
  "account Assets:Bank\n    alias bank\n\n2024/01/01 x\n    bank  10 USD = 10 USD\n    Income\n".toList
/-- the same with the canonical name in that posting line (other layout: different blanks, a comment) -/
def textCanon : List Char :=
  "account Assets:Bank\n    alias bank\n; respelt\n2024/01/01 x\n  Assets:Bank      10 USD = 10 USD\n  Income\n".toList

def pre : List Entry := [.account "Assets:Bank" [.alias "bank"]]
def usd10 : VExpr := .amt ⟨false, 10, 0, none⟩ "USD"
def txAlias : Transaction :=
  { date := ⟨2024, 1, 1⟩, payee := "x",
    posts := [{ account := "bank", amount := some { amount := usd10 }, balance := some usd10 }, { account := "Income" }] }

/-- the parser hypotheses of `C12_text_transparent_at` are closed facts about the two texts -/
theorem parse_textAlias : Parse.parseEntries textAlias = .ok (pre ++ [.txn txAlias]) := by decide +kernel
theorem parse_textCanon :
    Parse.parseEntries textCanon =
      .ok ([.account "Assets:Bank" [.alias "bank"], .comment " respelt\n"] ++
        substAccountAt [.txn txAlias] 0 0 "Assets:Bank") := by decide +kernel

/-- a top-level comment changes nothing for `process`; to keep the example within the statement of
`C12_text_transparent_at` (same `pre` on both sides) we use the canonical text without the comment as well -/
def textCanonB : List Char :=
  "account Assets:Bank\n    alias bank\n\n2024/01/01 x\n  Assets:Bank      10 USD = 10 USD\n  Income\n".toList
theorem parse_textCanonB :
    Parse.parseEntries textCanonB = .ok (pre ++ substAccountAt [.txn txAlias] 0 0 "Assets:Bank") := by decide +kernel

theorem declares : DeclaresAccount pre "bank" "Assets:Bank" := ⟨[.alias "bank"], by simp [pre], by simp [accountAliases]⟩

/-- **`C12_text_transparent_at` on two hand-written texts**: they denote the same ledger, and both are accepted -/
example : (okaneAccepts textAlias ↔ okaneAccepts textCanonB) ∧ okaneAccepts textAlias := by
  have h := C12_text_transparent_at textCanonB textAlias pre [.txn txAlias] 0 0 "bank" "Assets:Bank"
    parse_textAlias parse_textCanonB declares (by
      intro tx p h1 h2
      simp only [List.getElem?_cons_zero, Option.some.injEq, Entry.txn.injEq] at h1
      subst h1
      simp only [txAlias, List.getElem?_cons_zero, Option.some.injEq] at h2
      subst h2
      rfl)
  exact ⟨h.2.1, okaneAccepts_of_check (by decide +kernel)⟩

/-! ## the replacement as text (`C12_text_token`) -/

/-- constant display width: the layout does not depend on the length of the account name -/
def w0 : List Char → Nat := fun _ => 0

theorem printable : ∀ e ∈ pre ++ [.txn txAlias], wfEntry e = true ∧ C05.plainEntry e = true := by
  intro e he
  simp only [pre, List.cons_append, List.nil_append, List.mem_cons, List.not_mem_nil, or_false] at he
  rcases he with rfl | rfl
  · exact ⟨by decide +kernel, by decide +kernel⟩
  · exact ⟨by unfold txAlias usd10; wf_decide, by decide +kernel⟩
example : accountNameOk (txAlias.posts[0]!) "Assets:Bank" = true := by decide +kernel

/-- the text `format` writes for the alias spelling -/
example : formatEntries w0 (pre ++ [.txn txAlias]) =
    ("account Assets:Bank\n    alias bank\n\n2024/01/01 x\n    bank" ++
      "                                              10 USD = 10 USD\n    Income\n\n").toList := by decide +kernel

/-- **`C12_text_token` applied**: there are `L`, `R` with `L ++ "bank" ++ R` the formatted text, parsing to the alias tree;
`L ++ "Assets:Bank" ++ R` parsing to the canonical tree; both denote the same ledger -/
example : ∃ L R : List Char,
    Parse.parseEntries (L ++ ("bank".toList ++ R)) = .ok (pre ++ [.txn txAlias]) ∧
    Parse.parseEntries (L ++ ("Assets:Bank".toList ++ R)) = .ok (pre ++ substAccountAt [.txn txAlias] 0 0 "Assets:Bank") ∧
    (okaneAccepts (L ++ ("bank".toList ++ R)) ↔ okaneAccepts (L ++ ("Assets:Bank".toList ++ R))) := by
  obtain ⟨L, R, _, h2, h3, _, h5⟩ := C12_text_token w0 pre [.txn txAlias] 0 0 txAlias (txAlias.posts[0]!) "Assets:Bank"
    rfl rfl rfl declares printable (by decide +kernel)
  exact ⟨L, R, h2, h3, h5⟩


/-! ## every text, through `format` (`C12_text_format_token`) -/

/-- the hand-written `textAlias` satisfies the hypotheses: ASCII white space only, parses to `pre ++ [txn]`, line 0 of entry 0
writes the declared alias `bank` -/
example : ∃ L R : List Char,
    format w0 textAlias = .ok (L ++ ("bank".toList ++ R)) ∧
    (Parse.parseEntries (L ++ ("Assets:Bank".toList ++ R))).isOk = true ∧
    (okaneAccepts (L ++ ("Assets:Bank".toList ++ R)) ↔ okaneAccepts textAlias) := by
  obtain ⟨L, R, h1, h2, _, h4⟩ := C12_text_format_token w0 textAlias ⟨by decide +kernel⟩ pre [.txn txAlias]
    parse_textAlias 0 0 txAlias (txAlias.posts[0]!) "Assets:Bank" rfl rfl rfl declares (by decide +kernel)
  exact ⟨L, R, h1, by rw [h2]; rfl, h4⟩

/-! ## conflicts -/

/-- `X` declared an alias of `A`, then of `B` -/
def textConflict : List Char := "account A\n    alias X\n\naccount B\n    alias X\n".toList

theorem parse_textConflict :
    Parse.parseEntries textConflict = .ok [.account "A" [.alias "X"], .account "B" [.alias "X"]] := by decide +kernel

/-- **`C12_text_conflict` applied**: rejected at entry 1 with `InvalidAccount` -/
example : process [.account "A" [.alias "X"], .account "B" [.alias "X"]] = .err (1, .invalidAccount) ∧
    ¬ okaneAccepts textConflict := by
  have hpre : ∃ stk, process (([Entry.account "A" [.alias "X"], .account "B" [.alias "X"]]).take 1) = .ok stk := by
    cases h : process (([Entry.account "A" [.alias "X"], .account "B" [.alias "X"]]).take 1) with
    | ok stk => exact ⟨stk, rfl⟩
    | _ =>
      have hk : (process (([Entry.account "A" [.alias "X"], .account "B" [.alias "X"]]).take 1)).isOk = true := by
        decide +kernel
      rw [h] at hk
      cases hk
  obtain ⟨stk, hstk⟩ := hpre
  exact C12_text_conflict textConflict _ parse_textConflict 1 (by decide) "B" [.alias "X"] rfl stk hstk "X" "A"
    (by simp [accountAliases]) ⟨[.alias "X"], by simp, by simp [accountAliases]⟩ (by decide)

/-- use before declare, as text (`C12_text_conflict_used`'s situation): rejected at the declaration -/
example : (match Parse.parseEntries "2024/01/01 x\n X  1 USD\n Y\n\naccount A\n    alias X\n".toList with
    | .ok es => (match process es with | .err (1, .invalidAccount) => true | _ => false)
    | _ => false) = true := by decide +kernel

end Okane.C12Text
