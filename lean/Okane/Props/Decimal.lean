import Okane.Lemmas.Decimal96Small
import Okane.Lemmas.Decimal96Div
import Okane.Lemmas.Decimal96Round
import Okane.Lemmas.Decimal96DivExact
import Okane.Lemmas.Decimal96Bound
import Okane.Lemmas.Decimal96RoundVal
import Okane.Lemmas.Decimal96Overflow
import Okane.Lemmas.Decimal96Text
/-!
# "rust_decimal is modelled as exact rationals": when that is true, and what happens otherwise

Every arithmetic theorem of this verification reads `rust_decimal::Decimal` as an exact number.  `Okane/Model/Decimal96.lean`
transcribes the crate's algorithms (1.37.1) over (sign flag, mantissa, scale) triples and is tied bit for bit to the real
crate on every run of `bin/check C08` (`gen/dec96.py`).  The theorems below are about that model; `val d : Rat` is the
number denoted, `D96.wf` the crate's range (`mant < 2^96`, `scale ≤ 28`).

* inside the range the operations are EXACT: `Decimal_add_exact`, `Decimal_sub_exact`, `Decimal_mul_exact` (hypothesis: the
  exact result is a decimal with `max sa sb` resp. `sa + sb ≤ 28` places and a mantissa below `2^96`);
* division is correct to half a unit of the last place of its result, always: `Decimal_div_bound` (F33), and exact when
  the quotient is a decimal with at most 28 places that fits 96 bits: `Decimal_div_exact`;
* outside the exact range a product is always the exact product rounded to within half a unit of the last place of the
  result (`Decimal_mul_bound`), and so is a sum or difference unless the operands hit `SubDefectD` (`Decimal_add_bound`);
* a concrete sufficient condition for the book-keeping sums: `Decimal_sum_exact`, `Decimal_ledger_scale`,
  `Decimal_mul_bounded`;
* rounding (`Decimal_round_is_roundHalfEven`: the crate's half-even rounding IS `Okane.roundHalfEven` on values),
  rescaling, sign operations and comparison (`Decimal_cmp_val`): `Decimal_round_*`, `Decimal_rescale_*`, `Decimal_cmp`;
* `Overflow` is reported by `+ - *` only when the exact result, rounded to an integer, does not fit 96 bits
  (`Decimal_mul_overflow`, `Decimal_add_overflow`);
* `Decimal_div_balances_iff`: a quotient the crate returns multiplies back to the dividend exactly iff the exact quotient is a
  decimal within the range (the arithmetic of F33);
* text: `Decimal_display_from_str` - `Decimal::from_str(&d.to_string())` gives back `d` (value, scale, sign) for EVERY
  representable decimal, through both accumulator phases of `parse_str_radix_10` and whichever of its `BIG` variants the
  length selects; `Decimal_from_str_shape` - more generally every text `[-]digits[.digits]` with at most 28 places whose
  digits denote a mantissa below 2^96 is read as exactly that number;
* outside the range the crate does NOT always round: `Decimal_sub_defect` is a kernel-checked run of the model on the
  operands `34028236692093846346337460744 − 7922816251.4264337593543950335`, for which the crate (and the model, bit for
  bit) returns `68056473376264876441248487728` — twice the true difference (the borrow loop of `unaligned_add`).
-/
namespace Okane.Decimal
open Okane Okane.Dec96

/-- **`+`, `+=`, `checked_add` are exact inside the range** -/
theorem Decimal_add_exact (a b : D96) (ha : a.wf) (hb : b.wf) (h : ReprAt (val a + val b) (max a.scale b.scale)) :
    ∃ r, addImpl a b = .ok r ∧ checkedAdd a b = some r ∧ opAdd a b = .val r ∧ r.wf ∧ val r = val a + val b ∧
      (a.mant ≠ 0 → b.mant ≠ 0 → r.scale = max a.scale b.scale) := by
  obtain ⟨r, h1, h2, h3, h4⟩ := add_exact a b ha hb h
  exact ⟨r, h1, by simp [checkedAdd, h1, Calc.toOption], by simp [opAdd, h1], h2, h3, h4⟩

/-- **`-`, `-=`, `checked_sub` are exact inside the range** -/
theorem Decimal_sub_exact (a b : D96) (ha : a.wf) (hb : b.wf) (h : ReprAt (val a - val b) (max a.scale b.scale)) :
    ∃ r, subImpl a b = .ok r ∧ checkedSub a b = some r ∧ opSub a b = .val r ∧ r.wf ∧ val r = val a - val b ∧
      (a.mant ≠ 0 → b.mant ≠ 0 → r.scale = max a.scale b.scale) := by
  obtain ⟨r, h1, h2, h3, h4⟩ := sub_exact a b ha hb h
  exact ⟨r, h1, by simp [checkedSub, h1, Calc.toOption], by simp [opSub, h1], h2, h3, h4⟩

/-- a zero operand is returned as the OTHER operand, with its scale (`0.000 + 1.0` is `1.0`, not `1.000`) -/
theorem Decimal_add_zero (a b : D96) :
    (a.mant = 0 → addImpl a b = .ok b) ∧ (a.mant ≠ 0 → b.mant = 0 → addImpl a b = .ok a) := by
  constructor
  · intro h; have := addSub_zero_left a b false h; simpa [addImpl] using this
  · intro h1 h2; exact addSub_zero_right a b false h1 h2

/-- **`*`, `*=`, `checked_mul` are exact inside the range**; the scale of a non-zero product is `sa + sb`. -/
theorem Decimal_mul_exact (a b : D96) (hs : a.scale + b.scale ≤ 28) (h : ReprAt (val a * val b) (a.scale + b.scale)) :
    ∃ r, mulImpl a b = .ok r ∧ checkedMul a b = some r ∧ opMul a b = .val r ∧ r.wf ∧ val r = val a * val b ∧
      (a.mant ≠ 0 → b.mant ≠ 0 → r.scale = a.scale + b.scale) := by
  obtain ⟨r, h1, h2, h3, h4, _⟩ := mul_exact a b hs h
  exact ⟨r, h1, by simp [checkedMul, h1, Calc.toOption], by simp [opMul, h1], h2, h3, fun x y => (h4 x y).1⟩

/-- **`/`, `checked_div`: within half a unit of the last place of the result** (whatever scale the algorithm ends with);
a zero divisor is `DivByZero` (`None` / panic "Division by zero") and nothing else is. -/
theorem Decimal_div_bound (a b r : D96) (ha : a.wf) (h : divImpl a b = .ok r) :
    r.wf ∧ val b ≠ 0 ∧ val a / val b - halfUlp r.scale ≤ val r ∧ val r ≤ val a / val b + halfUlp r.scale := by
  obtain ⟨h1, h2, h3, h4⟩ := div_bound a b r ha h
  exact ⟨h1, fun hv => h2 ((val_eq_zero_iff b).mp hv), h3, h4⟩

/-- **`/`, `checked_div` are exact when the quotient is representable** with some `s ≤ 28` places -/
theorem Decimal_div_exact (a b : D96) (ha : a.wf) (hb : b.wf) (hb0 : val b ≠ 0) (s : Nat) (hs : s ≤ 28)
    (h : ReprAt (val a / val b) s) :
    ∃ r, divImpl a b = .ok r ∧ checkedDiv a b = some r ∧ opDiv a b = .val r ∧ r.wf ∧ val r = val a / val b :=
  div_exact_rat a b ha hb hb0 s hs h

/-- **outside the exact range `*` rounds**: any product the crate returns is well-formed and within half a unit of its own
last place of the exact product (no hypothesis on the operands) -/
theorem Decimal_mul_bound (a b r : D96) (h : mulImpl a b = .ok r) :
    r.wf ∧ val a * val b - halfUlp r.scale ≤ val r ∧ val r ≤ val a * val b + halfUlp r.scale :=
  mul_bound a b r h

/-- **outside the exact range `+`/`-` round, except in the crate's borrow defect**: for well-formed operands that do not
satisfy `SubDefectD` (decidable; see `Decimal_sub_defect` for operands that do), any sum / difference the crate returns is
well-formed and within half a unit of its own last place of the exact value -/
theorem Decimal_add_bound (a b r : D96) (subtract : Bool) (ha : a.wf) (hb : b.wf) (hnd : ¬ SubDefectD a b subtract)
    (h : addSub a b subtract = .ok r) :
    r.wf ∧ val a + sgnR subtract * val b - halfUlp r.scale ≤ val r ∧
      val r ≤ val a + sgnR subtract * val b + halfUlp r.scale :=
  addSub_bound a b r subtract ha hb hnd h

/-- **`*` reports `Overflow` only for a product that is too big**: `|val a · val b| ≥ 2^96 − ½`, written over the naturals
(`A·B / 10^(sa+sb) ≥ 2^96 − ½`). So no product whose magnitude rounds to an integer below `2^96` is ever refused. -/
theorem Decimal_mul_overflow (a b : D96) (ha : a.wf) (hb : b.wf) (h : mulImpl a b = .overflow) :
    2 ^ 97 * 10 ^ (a.scale + b.scale) ≤ 2 * (a.mant * b.mant) + 10 ^ (a.scale + b.scale) :=
  mul_overflow a b ha hb h

/-- **`+`/`-` report `Overflow` only for a result that is too big** (outside the subtraction defect): the exact sum `S`,
as an integer at scale `m = max sa sb`, has `|S| / 10^m ≥ 2^96 − ½`. -/
theorem Decimal_add_overflow (a b : D96) (subtract : Bool) (ha : a.wf) (hb : b.wf) (hnd : ¬ SubDefectD a b subtract)
    (h : addSub a b subtract = .overflow) :
    2 ^ 97 * 10 ^ (max a.scale b.scale) ≤ 2 * (alignedSum a b subtract).natAbs + 10 ^ (max a.scale b.scale) :=
  addSub_overflow a b subtract ha hb hnd h

/-- **the scale a product keeps is the largest possible** (`sa + sb`, else 28 if only the 28-place limit stands in the way,
else the largest scale at which the rounded mantissa fits; two 32-bit operands with `sa + sb > 47` give `ZERO`) -/
theorem Decimal_mul_scale_maximal (a b r : D96) (ha : a.wf) (hb : b.wf) (ha0 : a.mant ≠ 0) (hb0 : b.mant ≠ 0)
    (h : mulImpl a b = .ok r) :
    r.scale = a.scale + b.scale ∨ r.scale = 28 ∨
      (r.scale < a.scale + b.scale ∧
        2 ^ 97 * 10 ^ (a.scale + b.scale - r.scale - 1) ≤ 2 * (a.mant * b.mant) + 10 ^ (a.scale + b.scale - r.scale - 1)) ∨
      (a.scale + b.scale > 47 ∧ r = zero) :=
  mul_scale_maximal a b r ha hb ha0 hb0 h

/-- the routine `+ - *` share for results wider than 96 bits, `Buf24::rescale`: the result is within half a unit
(`bufRescale_spec`), `none` only for a value that is too big (`bufRescale_none`), and the scale kept is the largest at which
the rounded value fits -/
theorem Decimal_rescale_maximal (x upper scale m s' : Nat) (hacc : upper > 2 → 2 ^ (32 * upper) ≤ x)
    (hxu : x < 2 ^ (32 * (upper + 1))) (hu5 : upper ≤ 5) (h : bufRescale x upper scale = some (m, s')) :
    s' = scale ∨ s' = 28 ∨ (s' < scale ∧ 2 ^ 97 * 10 ^ (scale - s' - 1) ≤ 2 * x + 10 ^ (scale - s' - 1)) :=
  bufRescale_maximal x upper scale m s' hacc hxu hu5 h

/-- the defect needs a rescaled operand of 129 bits or more: if both operands, written at the larger scale, stay below
`2^128`, `SubDefectD` is impossible -/
theorem Decimal_no_defect_small (a b : D96) (subtract : Bool)
    (ha : a.mant * 10 ^ (max a.scale b.scale - a.scale) < 2 ^ 128)
    (hb : b.mant * 10 ^ (max a.scale b.scale - b.scale) < 2 ^ 128) : ¬ SubDefectD a b subtract := by
  unfold SubDefectD SubDefect
  rintro ⟨_, ⟨hlt, _, _, h⟩ | ⟨hlt, _, _, h⟩⟩
  · have e : max a.scale b.scale - b.scale = a.scale - b.scale := by omega
    rw [e] at hb; omega
  · have e : max a.scale b.scale - a.scale = b.scale - a.scale := by omega
    rw [e] at ha; omega

theorem Decimal_div_by_zero (a b : D96) : divImpl a b = .divByZero ↔ val b = 0 := by
  rw [divImpl_divByZero, val_eq_zero_iff]

/-- **running totals are exact under a size bound** (`Amount += …` per commodity) -/
theorem Decimal_sum_exact (M S : Nat) (hS : S ≤ 28) (ds : List D96) (hall : ∀ d ∈ ds, Bounded M S d)
    (hfit : ds.length * M < 2 ^ 96) :
    ∃ r, addAll zero ds = some r ∧ r.wf ∧ val r = ds.foldl (fun x d => x + val d) 0 := by
  have hfit' : (0 + ds.length) * M < 2 ^ 96 := by simpa using hfit
  obtain ⟨r, hr, hb, hv⟩ := addAll_exact M S hS ds 0 zero (by simp [Bounded, zero]) hall hfit'
  exact ⟨r, hr, hb.wf hfit' hS, by rw [hv, val_zero]⟩

/-- up to a million amounts below `10^14` with at most 8 decimal places: every addition is exact -/
theorem Decimal_ledger_scale (ds : List D96) (hn : ds.length ≤ 10 ^ 6) (hall : ∀ d ∈ ds, Bounded (10 ^ 22) 8 d) :
    ∃ r, addAll zero ds = some r ∧ r.wf ∧ val r = ds.foldl (fun x d => x + val d) 0 :=
  ledger_scale_example ds hn hall

theorem Decimal_add_bounded (M1 M2 S : Nat) (a b : D96) (subtract : Bool) (ha : Bounded M1 S a) (hb : Bounded M2 S b)
    (hM : M1 + M2 < 2 ^ 96) (hS : S ≤ 28) :
    ∃ r, addSub a b subtract = .ok r ∧ Bounded (M1 + M2) S r ∧ val r = val a + sgnR subtract * val b :=
  addSub_bounded M1 M2 S a b subtract ha hb hM hS

theorem Decimal_mul_bounded (M1 M2 S1 S2 : Nat) (a b : D96) (ha : Bounded M1 S1 a) (hb : Bounded M2 S2 b)
    (hM : M1 * M2 < 2 ^ 96) (hS : S1 + S2 ≤ 28) :
    ∃ r, mulImpl a b = .ok r ∧ Bounded (M1 * M2) (S1 + S2) r ∧ val r = val a * val b :=
  mul_bounded M1 M2 S1 S2 a b ha hb hM hS

/-! ## rounding, rescaling, signs, comparison -/

/-- `round_dp_with_strategy`: well-formed, never more places than before, idempotent; for the midpoint strategies within
half a unit of the place kept (`p = 10^(scale − dp)`: `2·|r·p − m| ≤ p`), ties to even for `MidpointNearestEven`. -/
theorem Decimal_round_laws (d : D96) (dp : Nat) (st : Strategy) (hw : d.wf) :
    (roundDp d dp st).wf ∧ (roundDp d dp st).scale = min d.scale dp ∧
    roundDp (roundDp d dp st) dp st = roundDp d dp st ∧ (d.scale ≤ dp → roundDp d dp st = d) ∧
    ((roundDp d dp st).mant ≠ 0 → (roundDp d dp st).neg = d.neg) :=
  ⟨roundDp_wf d dp st hw, roundDp_scale d dp st, roundDp_idem d dp st, roundDp_of_le d dp st, roundDp_neg d dp st⟩

/-- **`round_dp_with_strategy(dp, MidpointNearestEven)` is `Okane.roundHalfEven` on values** — the function with which the
report-layer models (`Amount::round`, `SingleAmount::round`) round; for every decimal and every `dp` -/
theorem Decimal_round_is_roundHalfEven (d : D96) (dp : Nat) :
    val (roundDp d dp .midpointNearestEven) = roundHalfEven (val d) dp :=
  val_roundDp_even d dp

theorem Decimal_round_half_unit (d : D96) (dp : Nat) (st : Strategy) (h : dp < d.scale)
    (hst : st = .midpointNearestEven ∨ st = .midpointAwayFromZero ∨ st = .midpointTowardZero) :
    2 * ((roundDp d dp st).mant * 10 ^ (d.scale - dp)) ≤ 2 * d.mant + 10 ^ (d.scale - dp) ∧
    2 * d.mant ≤ 2 * ((roundDp d dp st).mant * 10 ^ (d.scale - dp)) + 10 ^ (d.scale - dp) :=
  roundDp_midpoint_bound d dp st h hst

theorem Decimal_round_ties_even (d : D96) (dp : Nat) (h : dp < d.scale) (hm : d.mant ≠ 0)
    (htie : 2 * (d.mant % 10 ^ (d.scale - dp)) = 10 ^ (d.scale - dp)) :
    (roundDp d dp .midpointNearestEven).mant % 2 = 0 :=
  roundDp_even_tie d dp h hm htie

/-- `rescale`: up inside the range is exact; down lands within half a unit (half away from zero); well-formed for a target
`≤ 28` -/
theorem Decimal_rescale_laws (d : D96) (n : Nat) (hw : d.wf) (hn : n ≤ 28) :
    (rescale d n).wf ∧
    (d.scale ≤ n → d.mant * 10 ^ (n - d.scale) < 2 ^ 96 → rescale d n = ⟨d.neg, d.mant * 10 ^ (n - d.scale), n⟩) ∧
    (n < d.scale → d.mant ≠ 0 → (rescale d n).scale = n ∧ (rescale d n).neg = d.neg ∧
      2 * ((rescale d n).mant * 10 ^ (d.scale - n)) ≤ 2 * d.mant + 10 ^ (d.scale - n) ∧
      2 * d.mant < 2 * ((rescale d n).mant * 10 ^ (d.scale - n)) + 10 ^ (d.scale - n)) :=
  ⟨rescale_wf d n hw hn, fun h1 h2 => rescale_up_exact d n h1 hn h2, fun h1 h2 => rescale_down d n h1 h2⟩

/-- `rescale` to a larger scale (the only direction okane uses, with a target `≤ 28`) never changes the value -/
theorem Decimal_rescale_up_val (d : D96) (n : Nat) (h : d.scale ≤ n) (hn : n ≤ 28) :
    val (rescale d n) = val d ∧ d.scale ≤ (rescale d n).scale ∧ (rescale d n).scale ≤ n ∧ (rescale d n).neg = d.neg :=
  rescale_up_val d n h hn

/-- unary minus, `abs`, `set_sign_positive`, `is_zero`, `mantissa`, `is_sign_negative` -/
theorem Decimal_sign_laws (d : D96) :
    val (negate d) = - val d ∧ negate (negate d) = d ∧ (abs d).int = d.mant ∧ (isZero d = true ↔ val d = 0) ∧
    mantissa d = d.int ∧ (d.mant ≠ 0 → (isSignNegative d = true ↔ val d < 0)) :=
  ⟨val_negate d, negate_negate d, abs_int d, isZero_iff d, mantissa_eq_int d, isSignNegative_iff_of_ne_zero d⟩

/-- `Ord`, `PartialEq`: comparison of the signed mantissas aligned to the larger scale, i.e. of the values -/
theorem Decimal_cmp (a b : D96) (ha : a.wf) (hb : b.wf) : cmpImpl a b = cmpAligned a b :=
  cmpImpl_eq_cmpAligned a b ha hb

/-- `cmp`, `==` on values: `1.0 == 1.00`, `-0 == 0` -/
theorem Decimal_cmp_val (a b : D96) (ha : a.wf) (hb : b.wf) :
    (cmpImpl a b = .lt ↔ val a < val b) ∧ (cmpImpl a b = .eq ↔ val a = val b) ∧ (cmpImpl a b = .gt ↔ val b < val a) ∧
    (Dec96.decEq a b = true ↔ val a = val b) :=
  cmpImpl_val a b ha hb

/-- `try_from_i128_with_scale` accepts exactly scale ≤ 28 and |n| < 2^96 -/
theorem Decimal_from_i128 (n : Int) (s : Nat) :
    ((∃ d, tryFromI128WithScale n s = .ok d) ↔ (s ≤ 28 ∧ n.natAbs < 2 ^ 96)) ∧
    (s ≤ 28 → n.natAbs < 2 ^ 96 → ∃ d, tryFromI128WithScale n s = .ok d ∧ d.wf ∧ d.int = n ∧ d.scale = s) :=
  ⟨tryFromI128_err n s, tryFromI128_ok n s⟩

/-! ## when a computed quotient multiplies back -/

theorem natAbs_int (d : D96) : d.int.natAbs = d.mant := by
  cases h : d.neg <;> simp [D96.int, h]

/-- **a computed quotient multiplies back exactly iff the exact quotient is a decimal**: for `q = a / b` as the crate returns it,
`q · b = a` holds exactly when `a / b` can be written with at most 28 places and a 96-bit mantissa; in every other case the crate's
answer is a rounded one and `q · b ≠ a`.  This is the arithmetic behind known finding F33 (C16): a CSV conversion COMPUTED by
division (`amount: compute`, `rate: price_of_secondary`) prints a transaction that okane's own book-keeping finds balanced iff the
quotient terminates within the crate's range. -/
theorem Decimal_div_balances_iff (a b q : D96) (ha : a.wf) (hb : b.wf) (h : divImpl a b = .ok q) :
    val q * val b = val a ↔ ∃ s, s ≤ 28 ∧ ReprAt (val a / val b) s := by
  obtain ⟨hqwf, hb0, _, _⟩ := Decimal_div_bound a b q ha h
  constructor
  · intro hmul
    refine ⟨q.scale, hqwf.2, q.int, ?_, ?_⟩
    · rw [natAbs_int]; exact hqwf.1
    · have : val a / val b = val q := by
        rw [← hmul]; exact Rat.mul_div_cancel hb0
      rw [this]; rfl
  · rintro ⟨s, hs, hrep⟩
    obtain ⟨r, hr, _, _, _, hv⟩ := Decimal_div_exact a b ha hb hb0 s hs hrep
    rw [h] at hr
    injection hr with hr
    subst hr
    rw [hv]; exact Rat.div_mul_cancel hb0

/-- non-vacuity, both ways: `2353.41 / 1.25 = 1882.728` multiplies back; `50 / 3` does not -/
example : (match divImpl ⟨false, 235341, 2⟩ ⟨false, 125, 2⟩ with
    | .ok q => q.mant * 125 * 10 ^ 2 == 235341 * 10 ^ (q.scale + 2) | _ => false) = true ∧
    (match divImpl ⟨false, 50, 0⟩ ⟨false, 3, 0⟩ with
    | .ok q => q.mant * 3 != 50 * 10 ^ q.scale | _ => false) = true := by
  decide +kernel

/-! ## text -/

/-- **`Decimal::from_str(&d.to_string()) == Ok(d)`**: for every representable decimal (`mant < 2^96`, `scale ≤ 28`) the
crate's reader returns the mantissa, scale and sign its printer wrote - the only difference being that a zero printed with
a minus sign (`-0.00`) is read as plain zero; hence value and scale always survive, and `d` itself does unless it is a
negative zero. -/
theorem Decimal_display_from_str (d : D96) (hw : d.wf) :
    fromStr (String.ofList (display d)) = .ok (fromParts d.neg d.mant d.scale) ∧
    val (fromParts d.neg d.mant d.scale) = val d ∧
    ((d.mant = 0 → d.neg = false) → fromStr (String.ofList (display d)) = .ok d) := by
  refine ⟨?_, ?_, ?_⟩
  · simp [fromStr, fromStrBytes_display d hw]
  · by_cases h : d.mant = 0
    · simp [fromParts, val, D96.int, h]
    · have : (d.mant != 0) = true := by simpa using h
      simp [fromParts, val, D96.int, this]
  · intro hz
    simp [fromStr, fromStrBytes_display_eq d hw hz]

/-- every text `[-] W [. F]` (`W` one or more digits, `F` one to 28 digits when there is a point) whose digits denote a
number below 2^96 is read as that number with `|F|` places: no rounding, no error, in either accumulator phase -/
theorem Decimal_from_str_shape (neg : Bool) (w frac : List Char) (hw : w ≠ []) (hwd : AllDigits w) (hfd : AllDigits frac)
    (hfl : frac.length ≤ 28) (hb : accDigits 0 (w ++ frac) < 2 ^ 96) :
    fromStr (String.ofList ((if neg then ['-'] else []) ++ w ++ (if frac = [] then [] else '.' :: frac))) =
      .ok (fromParts neg (accDigits 0 (w ++ frac)) frac.length) := by
  simp only [fromStr, String.toList_ofList]
  exact fromStrBytes_shape neg w frac _ hw hwd hfd hfl hb

/-- non-vacuity: the largest decimal, the smallest step, a negative zero, a 28-place fraction -/
example : display ⟨true, 2 ^ 96 - 1, 28⟩ = "-7.9228162514264337593543950335".toList ∧
    fromStr "-7.9228162514264337593543950335" = .ok ⟨true, 2 ^ 96 - 1, 28⟩ ∧
    fromStr "-0.00" = .ok ⟨false, 0, 2⟩ ∧ display ⟨true, 0, 2⟩ = "-0.00".toList ∧
    fromStr "0.0000000000000000000000000001" = .ok ⟨false, 1, 28⟩ := by
  decide +kernel

/-! ## outside the range: the crate's subtraction defect (kernel-checked run of the model; the tie shows the real crate does
the same) -/

/-- the statement one would like: every `Ok` difference is within half a unit of its last place -/
def sub_rounded_stmt : Prop :=
  ∀ a b r : D96, a.wf → b.wf → subImpl a b = .ok r →
    val a - val b - halfUlp r.scale ≤ val r ∧ val r ≤ val a - val b + halfUlp r.scale

def defectA : D96 := ⟨false, 34028236692093846346337460744, 0⟩
def defectB : D96 := ⟨false, 79228162514264337593543950335, 10⟩

theorem Decimal_sub_defect :
    defectA.wf ∧ defectB.wf ∧ subImpl defectA defectB = .ok ⟨false, 68056473376264876441248487728, 0⟩ := by
  decide +kernel

/-- the operands of `Decimal_sub_defect` satisfy the defect condition that `Decimal_add_bound` excludes -/
theorem Decimal_sub_defect_cond : SubDefectD defectA defectB true := by decide +kernel

theorem not_sub_rounded : ¬ sub_rounded_stmt := by
  intro h
  have := (h defectA defectB _ Decimal_sub_defect.1 Decimal_sub_defect.2.1 Decimal_sub_defect.2.2).2
  revert this
  decide +kernel

/-! ## non-vacuity: instances at the boundary of the range -/

/-- `(2^96 − 2)·10^-28 + 1·10^-28`: the hypotheses of `Decimal_add_exact` hold and the sum is the largest mantissa -/
example : let a : D96 := ⟨false, 2 ^ 96 - 2, 28⟩; let b : D96 := ⟨false, 1, 28⟩
    a.wf ∧ b.wf ∧ ReprAt (val a + val b) (max a.scale b.scale) ∧ addImpl a b = .ok ⟨false, 2 ^ 96 - 1, 28⟩ := by
  refine ⟨by decide, by decide, ?_, by decide +kernel⟩
  have := (reprAt_iff ⟨false, 2 ^ 96 - 2, 28⟩ ⟨false, 1, 28⟩ false).mpr (by decide +kernel)
  simpa [sgnR] using this

/-- different scales, different signs, 97-bit intermediate: `7922816251426433759354395034 − 0.5` -/
example : let a : D96 := ⟨false, 7922816251426433759354395034, 0⟩; let b : D96 := ⟨true, 5, 1⟩
    a.wf ∧ b.wf ∧ ReprAt (val a + val b) (max a.scale b.scale) ∧ addImpl a b = .ok ⟨false, 79228162514264337593543950335, 1⟩ := by
  refine ⟨by decide, by decide, ?_, by decide +kernel⟩
  have := (reprAt_iff ⟨false, 7922816251426433759354395034, 0⟩ ⟨true, 5, 1⟩ false).mpr (by decide +kernel)
  simpa [sgnR] using this

/-- `Decimal_mul_exact` at the boundary: `(2^96 − 1)·10^-28 · 1` and `1.0 · 1.00 = 1.000` -/
example : let a : D96 := ⟨true, 2 ^ 96 - 1, 28⟩; let b : D96 := ⟨false, 1, 0⟩
    a.scale + b.scale ≤ 28 ∧ ReprAt (val a * val b) (a.scale + b.scale) ∧ mulImpl a b = .ok ⟨true, 2 ^ 96 - 1, 28⟩ :=
  ⟨by decide, (reprAt_mul_iff _ _).mpr (by decide), by decide +kernel⟩

example : mulImpl ⟨false, 10, 1⟩ ⟨false, 100, 2⟩ = .ok ⟨false, 1000, 3⟩ := by decide +kernel

/-- `Decimal_div_bound` is not vacuous: `1/3` has 28 threes, `2/3` ends in 7, `1/1024` keeps a trailing zero (the crate's
`unscale` quirk), a quotient below the range rounds to zero -/
example : divImpl ⟨false, 1, 0⟩ ⟨false, 3, 0⟩ = .ok ⟨false, 3333333333333333333333333333, 28⟩ ∧
    divImpl ⟨false, 2, 0⟩ ⟨false, 3, 0⟩ = .ok ⟨false, 6666666666666666666666666667, 28⟩ ∧
    divImpl ⟨false, 1, 0⟩ ⟨false, 1024, 0⟩ = .ok ⟨false, 97656250, 11⟩ ∧
    divImpl ⟨false, 1, 28⟩ ⟨false, 2 ^ 96 - 1, 0⟩ = .ok ⟨false, 0, 0⟩ ∧
    divImpl ⟨false, 2 ^ 96 - 1, 0⟩ ⟨false, 1, 28⟩ = .overflow := by decide +kernel

/-- `Decimal_div_exact` at the boundary: `(2^96 − 1)·10^-28 / 1`, `1 / 8 = 0.125`, `1 / 0.001 = 1000`; a rounding sum and a
rounding product for `Decimal_add_bound` / `Decimal_mul_bound`: `(2^96−1)·10^-1 + 0.5` loses a place (half-even), and
`(2^96 − 1)² · 10^-56` keeps 27 places (29 digits) -/
example : divImpl ⟨true, 2 ^ 96 - 1, 28⟩ ⟨false, 1, 0⟩ = .ok ⟨true, 2 ^ 96 - 1, 28⟩ ∧
    divImpl ⟨false, 1, 0⟩ ⟨false, 8, 0⟩ = .ok ⟨false, 125, 3⟩ ∧
    divImpl ⟨false, 1, 0⟩ ⟨false, 1, 3⟩ = .ok ⟨false, 1000, 0⟩ ∧
    addImpl ⟨false, 2 ^ 96 - 1, 1⟩ ⟨false, 5, 1⟩ = .ok ⟨false, 7922816251426433759354395034, 0⟩ ∧
    ¬ SubDefectD ⟨false, 2 ^ 96 - 1, 1⟩ ⟨false, 5, 1⟩ false ∧
    mulImpl ⟨false, 2 ^ 96 - 1, 28⟩ ⟨false, 2 ^ 96 - 1, 28⟩ = .ok ⟨false, 62771017353866807638357894230, 27⟩ := by
  decide +kernel

/-- overflow does occur: `MAX · MAX`, `MAX + 1`, `MAX.x + 0.5` at scale 0 after losing the place -/
example : mulImpl ⟨false, 2 ^ 96 - 1, 0⟩ ⟨true, 2 ^ 96 - 1, 0⟩ = .overflow ∧
    addImpl ⟨false, 2 ^ 96 - 1, 0⟩ ⟨false, 1, 0⟩ = .overflow ∧
    subImpl ⟨true, 2 ^ 96 - 1, 0⟩ ⟨false, 5, 1⟩ = .overflow := by decide +kernel

example : ReprAt (val ⟨false, 1, 0⟩ / val ⟨false, 8, 0⟩) 3 :=
  ⟨125, by decide, by decide +kernel⟩

/-- the size bound of `Decimal_ledger_scale` is met by real amounts: 99,999,999,999,999.99999999 -/
example : Bounded (10 ^ 22) 8 ⟨false, 9999999999999999999999, 8⟩ ∧ Bounded (10 ^ 22) 8 ⟨true, 12345, 2⟩ := by
  unfold Bounded; decide

/-- rounding at the boundary: `(2^96 − 1)·10^-28` to 0 places is 8; `2.5 → 2`, `3.5 → 4`, `-0.5 → 0` (flag cleared),
`-0.00` keeps its flag -/
example : roundDp ⟨false, 2 ^ 96 - 1, 28⟩ 0 .midpointNearestEven = ⟨false, 8, 0⟩ ∧
    roundDp ⟨false, 25, 1⟩ 0 .midpointNearestEven = ⟨false, 2, 0⟩ ∧
    roundDp ⟨false, 35, 1⟩ 0 .midpointNearestEven = ⟨false, 4, 0⟩ ∧
    roundDp ⟨true, 5, 1⟩ 0 .midpointNearestEven = ⟨false, 0, 0⟩ ∧
    roundDp ⟨true, 0, 5⟩ 2 .midpointNearestEven = ⟨true, 0, 2⟩ := by decide +kernel

example : cmpImpl ⟨false, 10, 1⟩ ⟨false, 1, 0⟩ = .eq ∧ cmpImpl ⟨true, 0, 0⟩ ⟨false, 0, 5⟩ = .eq ∧
    cmpImpl ⟨false, 1, 28⟩ ⟨false, 2 ^ 96 - 1, 0⟩ = .lt := by decide +kernel

end Okane.Decimal
