import Okane.Props.C03
/-!
# C02 — balance assertions are enforced exactly and in file order
-/
set_option linter.unusedSectionVars false
namespace Okane
variable {α κ : Type} [DecidableEq α] [DecidableEq κ]
open Spec

/-- what `= X` claims about an account's holdings `b` -/
def Spec.Holds (x : PostingAmt κ) (b : Amount κ) : Prop :=
  match x with
  | .zero => b = []                                        -- bare `= 0`: nothing in any commodity
  | .single s => Amount.getPart b s.commodity = s.value    -- `= v C`: exactly v in C

/-- the account balance a posting with amount `x` produces: previous holdings plus the amount, zero entries dropped -/
def Spec.after (prev : Amount κ) (x : PostingAmt κ) : Amount κ := (prev.addPosting x).removeZero

theorem assertFails_false_iff (cur : Amount κ) (x : PostingAmt κ) (hn : Amount.NoZero cur) :
    assertFails cur (some x) = false ↔ Spec.Holds x cur := by
  unfold assertFails Spec.Holds
  cases x with
  | zero =>
    simp only [Amount.assertBalance]
    by_cases hz : cur.isZero = true
    · simp only [hz, if_true]
      have := Amount.isEmpty_of_NoZero_isZero cur hn hz
      simp [this, Amount.isAbsoluteZero]
    · simp only [hz]
      have hne : cur ≠ [] := by intro h; subst h; simp [Amount.isZero] at hz
      cases cur with
      | nil => exact absurd rfl hne
      | cons hd tl => simp [Amount.neg, AMap.mapVals, Amount.isAbsoluteZero]
  | single s =>
    simp only [Amount.assertBalance]
    by_cases hd : s.value - Amount.getPart cur s.commodity = 0
    · simp only [hd, if_true, Amount.isAbsoluteZero]
      have : Amount.getPart cur s.commodity = s.value := by grind
      simp [this]
    · simp only [hd, if_false, Amount.isAbsoluteZero]
      have : ¬ Amount.getPart cur s.commodity = s.value := by grind
      simp [this]

/-- **C02_holds**: when a posting `acct  amt = X` is accepted, X is true of the account's balance after applying
that posting (and everything the loop applied before it): exactly X in X's commodity, or nothing at all for `= 0`. -/
theorem C02_holds (date : Date) (st st' : TxnState α κ) (idx : Nat) (p : RPosting α κ) (ra : RAmount κ) (x : PostingAmt κ)
    (ha : p.amount = some ra) (hb : p.balance = some x)
    (h : stepPosting date st idx p = .ok st') :
    Balance.get st'.bal p.account = Spec.after (Balance.get st.bal p.account) ra.postingAmt ∧
    Spec.Holds x (Balance.get st'.bal p.account) := by
  rw [stepPosting_amount date st idx p ra ha] at h
  split at h
  · simp at h
  · rename_i hf
    simp only [Outcome.ok.injEq] at h; subst h
    simp only [Balance.get_addPostingAmount, if_true, Spec.after, true_and]
    rw [hb] at hf
    simp only [Bool.not_eq_true] at hf
    exact (assertFails_false_iff _ x (Amount.NoZero_removeZero _)).1 hf

/-- **C02_reject**: a false assertion makes the step fail with an error that points at that posting and reports
the balance actually computed (previous holdings plus the posting's amount) and the difference to X. -/
theorem C02_reject (date : Date) (st : TxnState α κ) (idx : Nat) (p : RPosting α κ) (ra : RAmount κ) (x : PostingAmt κ)
    (ha : p.amount = some ra) (hb : p.balance = some x)
    (hfalse : ¬ Spec.Holds x (Spec.after (Balance.get st.bal p.account) ra.postingAmt)) :
    stepPosting date st idx p =
      .err (.assertionFailure idx (Spec.after (Balance.get st.bal p.account) ra.postingAmt)
        ((Spec.after (Balance.get st.bal p.account) ra.postingAmt).assertBalance x)) := by
  rw [stepPosting_amount date st idx p ra ha]
  have hcur : (Balance.addPostingAmount st.bal p.account ra.postingAmt).2 =
      Spec.after (Balance.get st.bal p.account) ra.postingAmt := rfl
  rw [hcur, hb]
  have : assertFails (Spec.after (Balance.get st.bal p.account) ra.postingAmt) (some x) = true := by
    cases hf : assertFails (Spec.after (Balance.get st.bal p.account) ra.postingAmt) (some x) with
    | true => rfl
    | false => exact absurd ((assertFails_false_iff _ x (Amount.NoZero_removeZero _)).1 hf) hfalse
  simp [this]

/-- the difference reported for `= v C` is `v − computed(C)` in commodity C -/
theorem C02_diff (cur : Amount κ) (s : SingleAmount κ) (hne : Amount.getPart cur s.commodity ≠ s.value) :
    cur.assertBalance (.single s) = [(s.commodity, s.value - Amount.getPart cur s.commodity)] := by
  unfold Amount.assertBalance
  have : ¬ s.value - Amount.getPart cur s.commodity = 0 := by grind
  simp [this]

/-! ## the running balance is the file-order sum of what was posted -/

/-- sum of the amounts posted to account `a` in commodity `c` -/
def acctSum (outs : List (OutPosting α κ)) (a : α) (c : κ) : Rat :=
  (outs.map fun o => if o.account = a then Amount.getPart o.amount c else 0).sum

theorem acctSum_append (xs ys : List (OutPosting α κ)) (a : α) (c : κ) :
    acctSum (xs ++ ys) a c = acctSum xs a c + acctSum ys a c := by
  simp [acctSum, List.sum_append]

/-- one step moves the posting's account by exactly the emitted amount (the omitted posting's placeholder
is empty and moves nothing), keeps every other account, and keeps the balance invariant -/
theorem step_balance (date : Date) (st st' : TxnState α κ) (idx : Nat) (p : RPosting α κ)
    (h : stepPosting date st idx p = .ok st') (hinv : Balance.Inv st.bal) :
    Balance.Inv st'.bal ∧
    ∃ out, st'.postings = st.postings ++ [out] ∧ out.account = p.account ∧ AMap.WF out.amount ∧
      ∀ a c, Amount.getPart (Balance.get st'.bal a) c =
        Amount.getPart (Balance.get st.bal a) c + (if out.account = a then Amount.getPart out.amount c else 0) := by
  cases ha : p.amount with
  | some ra =>
    rw [stepPosting_amount date st idx p ra ha] at h
    split at h
    · simp at h
    · simp only [Outcome.ok.injEq] at h; subst h
      refine ⟨Balance.Inv_addPostingAmount _ _ _ hinv, _, rfl, rfl, ?_, ?_⟩
      · cases ra.postingAmt <;> simp [PostingAmt.toAmount, AMap.WF, AMap.keys]
      · intro a c
        exact Balance.getPart_addPostingAmount _ _ _ _ hinv c
  | none =>
    cases hb : p.balance with
    | none =>
      rw [stepPosting_omitted date st idx p ha hb] at h
      split at h
      · simp at h
      · simp only [Outcome.ok.injEq] at h; subst h
        exact ⟨hinv, _, rfl, rfl, AMap.WF_nil, fun a c => by simp⟩
    | some x =>
      rw [stepPosting_assign date st idx p x ha hb] at h
      cases x with
      | zero =>
        cases hg : (Balance.get st.bal p.account).toPosting with
        | ok prev =>
          simp only [Balance.setPartial, hg, PostingAmt.checkSub, PostingAmt.checkAdd] at h
          simp only [Outcome.ok.injEq] at h; subst h
          refine ⟨?_, _, rfl, rfl, ?_, ?_⟩
          · intro a
            rw [Balance.get_insert]
            by_cases h1 : p.account = a
            · simp [h1, AMap.WF_nil, Amount.NoZero_nil]
            · simp only [h1, if_false]; exact hinv a
          · cases prev <;> simp [PostingAmt.neg, PostingAmt.toAmount, AMap.WF, AMap.keys]
          · intro a c
            rw [Balance.get_insert]
            by_cases h1 : p.account = a
            · subst h1
              simp only [if_true]
              -- previous holdings are exactly `prev`
              have hprev : ∀ c, Amount.getPart (Balance.get st.bal p.account) c = Amount.getPart prev.toAmount c := by
                intro c
                unfold Amount.toPosting at hg
                split at hg
                · rename_i heq; simp only [Outcome.ok.injEq] at hg; subst hg; rw [heq]; rfl
                · rename_i c' v heq; simp only [Outcome.ok.injEq] at hg; subst hg; rw [heq]; rfl
                · simp at hg
              rw [hprev c]
              cases prev with
              | zero => simp [PostingAmt.neg, PostingAmt.toAmount]
              | single s =>
                simp only [PostingAmt.neg, PostingAmt.toAmount, SingleAmount.neg, Amount.getPart, AMap.get?]
                by_cases hc : s.commodity = c <;> simp [hc] <;> grind
            · simp [h1]
        | err e => simp [Balance.setPartial, hg] at h
        | panic e => simp [Balance.setPartial, hg] at h
        | fuelOut => simp [Balance.setPartial, hg] at h
      | single s =>
        simp only [Balance.setPartial, PostingAmt.checkSub, PostingAmt.neg, PostingAmt.checkAdd,
          SingleAmount.checkAdd, SingleAmount.neg, Amount.setPartial_snd, if_true, Outcome.map'] at h
        simp only [Outcome.ok.injEq] at h; subst h
        refine ⟨?_, _, rfl, rfl, ?_, ?_⟩
        · intro a
          rw [Balance.get_insert]
          by_cases h1 : p.account = a
          · simp only [h1, if_true]
            exact ⟨Amount.WF_setPartial _ _ (hinv a).1, Amount.NoZero_setPartial _ _ (hinv a).2⟩
          · simp only [h1, if_false]; exact hinv a
        · simp [PostingAmt.toAmount, AMap.WF, AMap.keys]
        · intro a c
          rw [Balance.get_insert]
          by_cases h1 : p.account = a
          · subst h1
            simp only [if_true]
            rw [Amount.setPartial_fst_getPart _ _ (hinv p.account).1]
            simp only [PostingAmt.toAmount, Amount.getPart, AMap.get?]
            by_cases hc : s.commodity = c
            · subst hc; simp; grind
            · simp [hc]
          · simp [h1]

/-- **C02_invariant**: after the posting loop every account's balance is its previous balance plus the sum, in file
order, of the amounts the loop posted to it. -/
theorem C02_invariant (date : Date) (ps : List (RPosting α κ)) (st st' : TxnState α κ) (idx : Nat)
    (h : loopPostings date st idx ps = .ok st') (hinv : Balance.Inv st.bal) :
    Balance.Inv st'.bal ∧ ∃ outs, st'.postings = st.postings ++ outs ∧ (∀ o ∈ outs, AMap.WF o.amount) ∧
      ∀ a c, Amount.getPart (Balance.get st'.bal a) c = Amount.getPart (Balance.get st.bal a) c + acctSum outs a c := by
  induction ps generalizing st idx with
  | nil =>
    simp [loopPostings] at h; subst h
    exact ⟨hinv, [], by simp, by simp, fun a c => by simp [acctSum]⟩
  | cons p ps ih =>
    simp only [loopPostings] at h
    split at h
    · rename_i st1 h1
      obtain ⟨hinv1, out, hp1, _, hwf, hmove⟩ := step_balance date st st1 idx p h1 hinv
      obtain ⟨hinv', outs, hp', hwfs, hsum⟩ := ih st1 (idx + 1) h hinv1
      refine ⟨hinv', out :: outs, by rw [hp', hp1]; simp, ?_, ?_⟩
      · intro o ho
        simp only [List.mem_cons] at ho
        rcases ho with rfl | ho
        · exact hwf
        · exact hwfs o ho
      · intro a c
        rw [hsum a c, hmove a c]
        simp only [acctSum, List.map_cons, List.sum_cons]
        grind
    all_goals simp at h

end Okane

namespace Okane
variable {α κ : Type} [DecidableEq α] [DecidableEq κ]
open Spec

/-! ## the file-order reading at full strength is false of the code (finding F12)

`A` (amount omitted) / `A  5 USD = 5 USD` is accepted although, in file order, account A holds
`-5 + 5 = 0 USD` after the second posting: the omitted posting is booked after the assertions of its
transaction were evaluated.  Accounts and commodities are numbers here (A = 0, USD = 1). -/

/-- the witness transaction of F12 -/
def f12Txn : RTxn Nat Nat :=
  ⟨⟨2024, 1, 1⟩, [⟨0, none, none⟩, ⟨0, some (.plain (.single ⟨5, 1⟩)), some (.single ⟨5, 1⟩)⟩]⟩

/-- it is accepted, the omitted posting receives −5, and the file-order balance of A after the asserted
posting is 0, not the asserted 5 -/
theorem C02_fileorder_false :
    (match addTransaction (fun _ => none) [] f12Txn with
     | .ok res => (res.txn.postings.map (·.amount) == [[(1, -5)], [(1, 5)]]) &&
                  (acctSum (res.txn.postings.take 2) 0 1 == 0)
     | _ => false) = true := by decide +kernel

/-- **C02_fileorder_partial**: when an assertion is evaluated, the balance it is checked against (`C02_holds`) is
the balance before the transaction plus the file-order sum of the amounts of the postings before it; the
placeholder of an omitted-amount posting is empty (`loop_unfilled_empty` in C04), so the only deviation from the
file-order sum over the *final* transaction is the deferred amount of the omitted posting, and it concerns the
omitted posting's own account only (`C03_frame_step`).  Hence the file-order statement holds for every assertion
except those on the omitted posting's account placed after it in the same transaction (F12). -/
theorem C02_fileorder_partial (date : Date) (ps : List (RPosting α κ)) (st st' : TxnState α κ) (idx : Nat)
    (h : loopPostings date st idx ps = .ok st') (hinv : Balance.Inv st.bal) :
    ∃ outs, st'.postings = st.postings ++ outs ∧
      (∀ o ∈ outs, ∃ p ∈ ps, p.account = o.account) ∧
      ∀ a c, Amount.getPart (Balance.get st'.bal a) c = Amount.getPart (Balance.get st.bal a) c + acctSum outs a c := by
  obtain ⟨_, outs, hp, _, hsum⟩ := C02_invariant date ps st st' idx h hinv
  obtain ⟨outs', ds, hp', _, hal⟩ := loop_aligned date ps st st' idx h
  have : outs = outs' := List.append_cancel_left (hp.symm.trans hp')
  subst this
  exact ⟨outs, hp, aligned_account ps outs ds hal, hsum⟩

-- non-vacuity of C02_holds / C02_reject: a true and a false assertion after a history
example : (addTransaction (α := Nat) (κ := Nat) (fun _ => none) [(0, [(1, 7)])]
    ⟨⟨2024, 1, 1⟩, [⟨0, some (.plain (.single ⟨3, 1⟩)), some (.single ⟨10, 1⟩)⟩, ⟨1, none, none⟩]⟩).isOk = true := by decide +kernel
example : (addTransaction (α := Nat) (κ := Nat) (fun _ => none) [(0, [(1, 7)])]
    ⟨⟨2024, 1, 1⟩, [⟨0, some (.plain (.single ⟨3, 1⟩)), some (.single ⟨11, 1⟩)⟩, ⟨1, none, none⟩]⟩).isErr = true := by decide +kernel

end Okane
