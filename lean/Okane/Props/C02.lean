/-! # C02 — property theorems (stub) -/
