/-! # C17 — property theorems (stub) -/
