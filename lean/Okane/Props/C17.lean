import Okane.Spec.Import
import Okane.Lemmas.ImportCsvCellsUse
/-!
# C17 — rewrite rules and layered configuration resolve as documented

All theorems about rules hold for every `cap : Captures` (the regex engine is a parameter), every rule list
and every record.
-/
namespace Okane.Import
open Okane

/-! ## Part 1: `ConfigSet::select` -/

/-- the last document (in merge order) that sets a scalar decides it -/
def lastSome {β : Type} (f : ConfigFragment → Option β) (ds : List ConfigFragment) : Option β :=
  ds.reverse.findSome? f

private theorem le_trans' (a b c : ConfigFragment)
    (h1 : decide (pathLen a ≤ pathLen b) = true) (h2 : decide (pathLen b ≤ pathLen c) = true) :
    decide (pathLen a ≤ pathLen c) = true := by
  simp at *; omega

private theorem le_total' (a b : ConfigFragment) :
    (decide (pathLen a ≤ pathLen b) || decide (pathLen b ≤ pathLen a)) = true := by
  simp; omega

/-- **The documents in force**: exactly the documents whose `path` occurs in the file path, shortest
`path` (in bytes) first, and documents with paths of equal length in the order of the configuration file. -/
theorem C17_select_order (docs : List ConfigFragment) (p : String) :
    (∀ d, d ∈ matchedDocs docs p ↔ d ∈ docs ∧ pathMatches d p = true) ∧
    (matchedDocs docs p).Perm (docs.filter (pathMatches · p)) ∧
    (matchedDocs docs p).Pairwise (fun a b => pathLen a ≤ pathLen b) ∧
    (∀ n, (matchedDocs docs p).filter (fun d => pathLen d == n)
          = (docs.filter (pathMatches · p)).filter (fun d => pathLen d == n)) := by
  have hperm : (matchedDocs docs p).Perm (docs.filter (pathMatches · p)) := List.mergeSort_perm _ _
  refine ⟨?_, hperm, ?_, ?_⟩
  · intro d
    rw [hperm.mem_iff, List.mem_filter]
  · have := List.pairwise_mergeSort le_trans' le_total' (docs.filter (pathMatches · p))
    exact this.imp (by intro a b h; simpa using h)
  · intro n
    -- the equal-length documents form a sorted sublist of the input, hence a sublist of the output
    have hsub : ((docs.filter (pathMatches · p)).filter (fun d => pathLen d == n)).Sublist (matchedDocs docs p) := by
      apply List.sublist_mergeSort le_trans' le_total'
      · rw [List.pairwise_iff_forall_sublist]
        intro a b hab
        have ha : a ∈ (docs.filter (pathMatches · p)).filter (fun d => pathLen d == n) :=
          hab.subset (by simp)
        have hb : b ∈ (docs.filter (pathMatches · p)).filter (fun d => pathLen d == n) :=
          hab.subset (by simp)
        simp only [List.mem_filter, beq_iff_eq] at ha hb
        simp; omega
      · exact List.filter_sublist
    have hsub2 := hsub.filter (fun d => pathLen d == n)
    rw [List.filter_filter] at hsub2
    simp only [Bool.and_self] at hsub2
    have hlen := (hperm.filter (fun d => pathLen d == n)).length_eq
    exact (hsub2.eq_of_length hlen.symm).symm

private theorem foldl_merge_scalar {β : Type} (f : ConfigFragment → Option β)
    (hf : ∀ a b : ConfigFragment, f (a.merge b) = (f b).or (f a)) (rest : List ConfigFragment) (d : ConfigFragment) :
    f (rest.foldl ConfigFragment.merge d) = (rest.reverse.findSome? f).or (f d) := by
  induction rest generalizing d with
  | nil => simp
  | cons x rest ih =>
    simp only [List.foldl_cons, List.reverse_cons, List.findSome?_append, ih, hf]
    simp [Option.or_assoc]

private theorem foldl_merge_rewrite (rest : List ConfigFragment) (d : ConfigFragment) :
    (rest.foldl ConfigFragment.merge d).rewrite = d.rewrite ++ rest.flatMap (·.rewrite) := by
  induction rest generalizing d with
  | nil => simp
  | cons x rest ih => simp [ih, ConfigFragment.merge, List.append_assoc]

private theorem foldl_merge_path (rest : List ConfigFragment) (d : ConfigFragment) :
    (rest.foldl ConfigFragment.merge d).path = ((d :: rest).getLast (by simp)).path := by
  induction rest generalizing d with
  | nil => simp
  | cons x rest ih =>
    simp only [List.foldl_cons, ih]
    cases rest with
    | nil => simp [ConfigFragment.merge]
    | cons y ys => simp [List.getLast_cons]

/-- **Later documents override scalar settings**: each scalar of the merged configuration is the value
given by the last document in force (in merge order) that sets it; `path` is the last document's. -/
theorem C17_select_scalars (ds : List ConfigFragment) (m : ConfigFragment) (h : mergeAll ds = some m) :
    m.encoding = lastSome (·.encoding) ds ∧ m.account = lastSome (·.account) ds ∧
    m.accountType = lastSome (·.accountType) ds ∧ m.operator = lastSome (·.operator) ds ∧
    m.commodity = lastSome (·.commodity) ds ∧ m.format = lastSome (·.format) ds ∧
    some m.path = ds.getLast?.map (·.path) := by
  cases ds with
  | nil => simp [mergeAll] at h
  | cons d rest =>
    simp only [mergeAll, Option.some.injEq] at h
    subst h
    have key : ∀ {β : Type} (f : ConfigFragment → Option β),
        (∀ a b : ConfigFragment, f (a.merge b) = (f b).or (f a)) →
        f (rest.foldl ConfigFragment.merge d) = lastSome f (d :: rest) := by
      intro β f hf
      rw [foldl_merge_scalar f hf, lastSome, List.reverse_cons, List.findSome?_append]
      simp
    refine ⟨key _ (fun _ _ => rfl), key _ (fun _ _ => rfl), key _ (fun _ _ => rfl), key _ (fun _ _ => rfl),
      key _ (fun _ _ => rfl), key _ (fun _ _ => rfl), ?_⟩
    rw [foldl_merge_path, List.getLast?_eq_some_getLast (by simp)]
    simp

/-- **Rewrite rules are concatenated** in merge order. -/
theorem C17_select_rewrite (ds : List ConfigFragment) (m : ConfigFragment) (h : mergeAll ds = some m) :
    m.rewrite = ds.flatMap (·.rewrite) := by
  cases ds with
  | nil => simp [mergeAll] at h
  | cons d rest =>
    simp only [mergeAll, Option.some.injEq] at h
    subst h
    simp [foldl_merge_rewrite]

/-- No configuration is selected exactly when no document's `path` occurs in the file path. -/
theorem C17_select_none (docs : List ConfigFragment) (p : String) :
    select docs p = .ok none ↔ ∀ d ∈ docs, pathMatches d p = false := by
  have hmem := (C17_select_order docs p).1
  unfold select
  cases hm : matchedDocs docs p with
  | nil =>
    simp only [mergeAll, true_iff]
    intro d hd
    have := (not_congr (hmem d)).mp (by simp [hm])
    simpa [hd] using this
  | cons d rest =>
    simp only [mergeAll]
    have hd := (hmem d).mp (by simp [hm])
    constructor
    · intro h
      cases hte : (rest.foldl ConfigFragment.merge d).toEntry <;> simp [hte, Outcome.map'] at h
    · intro h
      have := h d hd.1
      simp [hd.2] at this

/-- **C17, first sentence.**  When `select` returns a configuration, it is the merge of the documents in
force (`matchedDocs`, characterised by `C17_select_order`): rules concatenated in that order, every scalar
from the last document setting it, `format` defaulting to the empty format. -/
theorem C17_select (docs : List ConfigFragment) (p : String) (e : ConfigEntry)
    (h : select docs p = .ok (some e)) :
    let ds := matchedDocs docs p
    e.rewrite = ds.flatMap (·.rewrite) ∧
    lastSome (·.encoding) ds = some e.encoding ∧ lastSome (·.account) ds = some e.account ∧
    lastSome (·.accountType) ds = some e.accountType ∧ e.operator = lastSome (·.operator) ds ∧
    (lastSome (·.commodity) ds).map CommodityConfig.toSpec = some e.commodity ∧
    e.format = (lastSome (·.format) ds).getD {} ∧ some e.path = ds.getLast?.map (·.path) := by
  intro ds
  unfold select at h
  cases hm : mergeAll (matchedDocs docs p) with
  | none => simp [hm] at h
  | some m =>
    have hs := C17_select_scalars _ m hm
    have hr := C17_select_rewrite _ m hm
    simp only [hm] at h
    obtain ⟨h1, h2, h3, h4, h5, h6, h7⟩ := hs
    unfold ConfigFragment.toEntry at h
    cases he : m.encoding with
    | none => simp [he, Outcome.map'] at h
    | some enc =>
    cases ha : m.account with
    | none => simp [he, ha, Outcome.map'] at h
    | some acc =>
    cases ht : m.accountType with
    | none => simp [he, ha, ht, Outcome.map'] at h
    | some at' =>
    cases hc : m.commodity with
    | none => simp [he, ha, ht, hc, Outcome.map'] at h
    | some com =>
      simp only [he, ha, ht, hc, Outcome.map', Outcome.ok.injEq, Option.some.injEq] at h
      subst h
      simp only [ds]
      refine ⟨hr, ?_, ?_, ?_, h4, ?_, ?_, h7⟩
      · rw [← h1, he]
      · rw [← h2, ha]
      · rw [← h3, ht]
      · rw [← h5, hc]; rfl
      · rw [← h6]

-- non-vacuity: three documents, two in force, nested paths, the longer one overrides
private def exOuter : ConfigFragment :=
  { path := "bank/", encoding := some "UTF-8", account := some "Assets:Bank", accountType := some .asset,
    commodity := some (.primaryCommodity "CHF"),
    rewrite := [{ matcher := Matcher.field ⟨[(Field.payee, "a")]⟩, account := some "A" }] }
private def exInner : ConfigFragment :=
  { path := "bank/okane", account := some "Assets:Okane",
    rewrite := [{ matcher := Matcher.field ⟨[(Field.payee, "b")]⟩, account := some "B" }] }
private def exOther : ConfigFragment := { path := "card/", account := some "Liabilities:Card" }

private theorem exMatched :
    matchedDocs [exInner, exOther, exOuter] "data/bank/okane/2024.csv" = [exOuter, exInner] := by
  have h1 : pathMatches exInner "data/bank/okane/2024.csv" = true := by decide
  have h2 : pathMatches exOther "data/bank/okane/2024.csv" = false := by decide
  have h3 : pathMatches exOuter "data/bank/okane/2024.csv" = true := by decide
  have h4 : pathLen exInner = 10 := by decide
  have h5 : pathLen exOuter = 5 := by decide
  simp [matchedDocs, List.filter, h1, h2, h3, List.mergeSort, h4, h5]

example :
    (select [exInner, exOther, exOuter] "data/bank/okane/2024.csv").map'
        (fun o => o.map fun e => (e.account, e.rewrite.map (·.account), e.path))
      = .ok (some ("Assets:Okane", [some "A", some "B"], "bank/okane")) := by
  rw [select, exMatched]; decide

/-! ## Part 2: the rule fold -/

variable (cap : Captures) (r : Record)

/-- **Rules apply in list order, each seeing the result of the rules before it**: the fragment for
`rules₁ ++ rule :: rules₂` is obtained by applying `rule` to the fragment `rules₁` produced (so its `payee`
matchers look at the payee as rewritten by `rules₁`), then folding `rules₂` over the result. -/
theorem C17_fold (rules₁ rules₂ : List Rule) (rule : Rule) :
    extract cap (rules₁ ++ rule :: rules₂) r
      = rules₂.foldl (applyRule cap r) (applyRule cap r (extract cap rules₁ r) rule) := by
  simp [extract, List.foldl_append]

/-- a field matcher's fold only ever changes payee and code -/
private theorem andExtract_frame (fs : List (Field × String)) (cur out : Fragment)
    (h : andExtract cap r fs cur = some out) :
    out.cleared = cur.cleared ∧ out.account = cur.account ∧ out.conversion = cur.conversion := by
  induction fs generalizing cur with
  | nil => simp [andExtract] at h; subst h; simp
  | cons fp rest ih =>
    obtain ⟨f, pat⟩ := fp
    simp only [andExtract] at h
    cases hc : fieldCaptures cap r f pat cur with
    | none => simp [hc] at h
    | some m =>
      simp only [hc] at h
      have := ih _ h
      simpa [Fragment.addMatched] using this

private theorem orExtract_frame (ms : List FieldMatcher) (cur out : Fragment)
    (h : orExtract cap r ms cur = some out) :
    out.cleared = cur.cleared ∧ out.account = cur.account ∧ out.conversion = cur.conversion := by
  induction ms with
  | nil => simp [orExtract] at h
  | cons m rest ih =>
    simp only [orExtract] at h
    cases ha : andExtract cap r m.fields cur with
    | none => simp only [ha] at h; exact ih h
    | some f => simp only [ha, Option.some.injEq] at h; subst h; exact andExtract_frame cap r _ _ _ ha

/-- **What one rule does.**  A rule whose matcher does not match leaves the fragment alone.  If the matcher
matches, returning the fragment `c` (the current one plus the captured `payee` / `code`), then: the explicit
`payee` of the rule wins over a captured one, which wins over the earlier one; the rule's `account` replaces
the earlier account (a rule without account keeps it); a captured `code` replaces the earlier one; the
record becomes cleared if the rule assigns an account and is not flagged `pending`. -/
theorem C17_rule_step (frag : Fragment) (rule : Rule) :
    match orExtract cap r rule.matcher.elements frag with
    | none => applyRule cap r frag rule = frag
    | some c =>
      (applyRule cap r frag rule).payee = (rule.payee.or c.payee).or frag.payee ∧
      (applyRule cap r frag rule).account = rule.account.or frag.account ∧
      (applyRule cap r frag rule).code = c.code.or frag.code ∧
      (applyRule cap r frag rule).cleared = (frag.cleared || (rule.account.isSome && !rule.pending)) ∧
      (applyRule cap r frag rule).conversion = (rule.conversion.or frag.conversion) := by
  cases h : orExtract cap r rule.matcher.elements frag with
  | none => simp [applyRule, ruleExtract, h]
  | some c =>
    obtain ⟨h1, h2, h3⟩ := orExtract_frame cap r _ _ _ h
    simp only [applyRule, ruleExtract, h, Option.map_some, ruleFinish]
    cases ha : rule.account <;> cases hp : rule.pending <;> cases hc : rule.conversion <;>
      cases hcc : c.conversion <;> cases hfc : frag.conversion <;>
      simp_all [Fragment.addAssign]

/-- `ruleExtract` succeeds exactly when the OR-list does -/
private theorem ruleExtract_isSome (rule : Rule) (frag : Fragment) :
    (ruleExtract cap r rule frag).isSome = (orExtract cap r rule.matcher.elements frag).isSome := by
  simp [ruleExtract]

private theorem applyRule_account (frag : Fragment) (rule : Rule) :
    (applyRule cap r frag rule).account =
      if (ruleExtract cap r rule frag).isSome then rule.account.or frag.account else frag.account := by
  have := C17_rule_step cap r frag rule
  cases h : orExtract cap r rule.matcher.elements frag with
  | none => simp [h] at this; simp [this, ruleExtract, h]
  | some c => simp [h] at this; simp [this.2.1, ruleExtract, h]

private theorem applyRule_cleared (frag : Fragment) (rule : Rule) :
    (applyRule cap r frag rule).cleared =
      if (ruleExtract cap r rule frag).isSome then (frag.cleared || (rule.account.isSome && !rule.pending))
      else frag.cleared := by
  have := C17_rule_step cap r frag rule
  cases h : orExtract cap r rule.matcher.elements frag with
  | none => simp [h] at this; simp [this, ruleExtract, h]
  | some c => simp [h] at this; simp [this.2.2.2.1, ruleExtract, h]

private theorem fold_account (rules : List Rule) (f : Fragment) :
    (rules.foldl (applyRule cap r) f).account
      = ((matchingFrom cap r f rules).reverse.findSome? (·.account)).or f.account := by
  induction rules generalizing f with
  | nil => simp [matchingFrom]
  | cons x xs ih =>
    simp only [List.foldl_cons, ih, matchingFrom]
    rw [applyRule_account]
    cases h : ruleExtract cap r x f with
    | none => simp [applyRule, h]
    | some u =>
      simp only [Option.isSome_some, if_true, List.reverse_cons, List.findSome?_append, Option.or_assoc]
      congr 1
      cases hxa : x.account <;> simp [hxa]

private theorem fold_cleared (rules : List Rule) (f : Fragment) :
    (rules.foldl (applyRule cap r) f).cleared
      = (f.cleared || (matchingFrom cap r f rules).any (fun x => x.account.isSome && !x.pending)) := by
  induction rules generalizing f with
  | nil => simp [matchingFrom]
  | cons x xs ih =>
    simp only [List.foldl_cons, ih, matchingFrom]
    rw [applyRule_cleared]
    cases h : ruleExtract cap r x f with
    | none => simp [applyRule, h]
    | some u => simp [Bool.or_assoc]

/-- **The account** of a record is the `account` of the last matching rule that has one (`matching`: the
rules that match, each evaluated on the fragment left by its predecessors); no such rule — no account. -/
theorem C17_account (rules : List Rule) :
    (extract cap rules r).account = (matching cap rules r).reverse.findSome? (·.account) := by
  simp [extract, matching, fold_account]

/-- **Cleared / pending**: the record is cleared exactly when some matching rule assigns an account and is
not flagged `pending`. -/
theorem C17_pending (rules : List Rule) :
    (extract cap rules r).cleared = (matching cap rules r).any (fun x => x.account.isSome && !x.pending) := by
  simp [extract, matching, fold_cleared]

/-- **An OR-list matches if any element does, and the first matching element decides.** -/
theorem C17_or_first (ms : List FieldMatcher) (cur : Fragment) :
    orExtract cap r ms cur = ms.findSome? (fun m => andExtract cap r m.fields cur) := by
  induction ms with
  | nil => rfl
  | cons m rest ih =>
    simp only [orExtract, List.findSome?_cons]
    cases andExtract cap r m.fields cur <;> simp [ih]

/-- **An element matches only if all its fields do**: it fails exactly when some field fails on the fragment
produced by the fields before it (in the map's iteration order). -/
theorem C17_and_all (fs : List (Field × String)) (cur : Fragment) :
    andExtract cap r fs cur = none ↔
      ∃ pre f pat post mid, fs = pre ++ (f, pat) :: post ∧ andExtract cap r pre cur = some mid ∧
        fieldCaptures cap r f pat mid = none := by
  induction fs generalizing cur with
  | nil =>
    simp only [andExtract, reduceCtorEq, false_iff]
    rintro ⟨pre, f, pat, post, mid, h, _⟩
    simp at h
  | cons fp rest ih =>
    obtain ⟨f0, pat0⟩ := fp
    simp only [andExtract]
    cases hc : fieldCaptures cap r f0 pat0 cur with
    | none =>
      simp only [true_iff]
      exact ⟨[], f0, pat0, rest, cur, by simp, by simp [andExtract], hc⟩
    | some m =>
      simp only [ih]
      constructor
      · rintro ⟨pre, f, pat, post, mid, h1, h2, h3⟩
        exact ⟨(f0, pat0) :: pre, f, pat, post, mid, by simp [h1], by simp [andExtract, hc, h2], h3⟩
      · rintro ⟨pre, f, pat, post, mid, h1, h2, h3⟩
        cases pre with
        | nil =>
          simp only [List.nil_append, List.cons.injEq, Prod.mk.injEq] at h1
          simp only [andExtract, Option.some.injEq] at h2
          obtain ⟨⟨rfl, rfl⟩, rfl⟩ := h1
          subst h2
          simp [hc] at h3
        | cons p pre' =>
          simp only [List.cons_append, List.cons.injEq] at h1
          obtain ⟨rfl, rfl⟩ := h1
          simp only [andExtract, hc] at h2
          exact ⟨pre', f, pat, post, mid, rfl, h2, h3⟩

/-- **Captures set payee and code**: the last field of an element is evaluated on the fragment produced by
the fields before it, and its named groups `payee` / `code` replace the values so far (a group that did
not take part leaves them). -/
theorem C17_and_captures (fs : List (Field × String)) (f : Field) (pat : String) (cur : Fragment) :
    andExtract cap r (fs ++ [(f, pat)]) cur
      = (andExtract cap r fs cur).bind fun mid =>
          (fieldCaptures cap r f pat mid).map fun m =>
            { mid with payee := m.payee.or mid.payee, code := m.code.or mid.code } := by
  induction fs generalizing cur with
  | nil =>
    simp only [List.nil_append, andExtract, Option.bind_some]
    cases fieldCaptures cap r f pat cur <;> simp [Fragment.addMatched]
  | cons fp rest ih =>
    obtain ⟨f0, pat0⟩ := fp
    simp only [List.cons_append, andExtract]
    cases fieldCaptures cap r f0 pat0 cur with
    | none => simp
    | some m => simp [ih]

/-- **Payee and code of a matching rule**: explicit `payee` wins; otherwise the payee captured by the
deciding element; the `payee` field itself is matched against the payee as rewritten so far, falling back to
the record's original payee. -/
theorem C17_payee_code (frag : Fragment) (rule : Rule) (c : Fragment)
    (h : orExtract cap r rule.matcher.elements frag = some c) :
    (applyRule cap r frag rule).payee = (rule.payee.or c.payee).or frag.payee ∧
    (applyRule cap r frag rule).code = c.code.or frag.code ∧
    (∀ pat original, r .payee = .payee original →
        fieldCaptures cap r .payee pat frag = (frag.payee.or original).bind (cap pat)) := by
  have := C17_rule_step cap r frag rule
  simp only [h] at this
  refine ⟨this.1, this.2.2.1, ?_⟩
  intro pat original hk
  simp [fieldCaptures, kindCaptures, hk]

/-! ## Part 3: what the ledger shows (`to_double_entry` on the fragment) -/

/-- **A record matched by no account-assigning rule goes to Income:Unknown or Expenses:Unknown** by the sign
of its amount; otherwise to the account the rules assigned.  The counter-posting is the last posting for a
non-negative amount and the first one for a negative amount. -/
theorem C17_unknown_account (t : Txn) (frag : Fragment) (src : String) :
    let t' := t.withFragment frag
    let fallback := if t.amount.value.neg then "Expenses:Unknown" else "Income:Unknown"
    ∃ tr, t'.toDoubleEntry src = .ok tr ∧
      (if t.amount.value.neg then tr.posts.head? else tr.posts.getLast?) = some (t'.destPosting fallback) ∧
      (t'.destPosting fallback).account = frag.account.getD fallback := by
  intro t' fallback
  have hamt : t'.amount = t.amount := by
    simp only [t', Txn.withFragment]
    split <;> rfl
  have hdest : t'.destAccount = frag.account := by
    simp only [t', Txn.withFragment]
    split <;> rfl
  cases hneg : t.amount.value.neg with
  | false =>
    refine ⟨_, by simp [Txn.toDoubleEntry, Txn.postings, Dec.isSignPositive, hamt, hneg]; rfl, ?_, ?_⟩
    · simp only [fallback, hneg, Bool.false_eq_true, if_false]
      rw [← List.cons_append]
      exact List.getLast?_concat
    · simp [Txn.destPosting, hdest]
  | true =>
    refine ⟨_, by simp [Txn.toDoubleEntry, Txn.postings, Dec.isSignPositive, Dec.isSignNegative, hamt, hneg]; rfl, ?_, ?_⟩
    · simp [fallback, hneg]
    · simp [Txn.destPosting, hdest]

/-- a cleared fragment has an account (so the counter-posting of a cleared record is never `Unknown`) -/
theorem extract_cleared_account (rules : List Rule) (h : (extract cap rules r).cleared = true) :
    (extract cap rules r).account.isSome = true := by
  rw [C17_pending] at h
  rw [C17_account]
  obtain ⟨x, hx, hp⟩ := List.any_eq_true.mp h
  simp only [Bool.and_eq_true] at hp
  rw [List.findSome?_isSome_iff]
  exact ⟨x, by simpa using hx, hp.1⟩

/-- **The counter-posting is marked pending (`!`) unless some matching account-assigning rule is not
flagged `pending`**; when one is, the counter-posting carries no mark. -/
theorem C17_pending_mark (t : Txn) (rules : List Rule) (fallback : String) (ht : t.clearState = none) :
    ((t.withFragment (extract cap rules r)).destPosting fallback).clear
      = if (matching cap rules r).any (fun x => x.account.isSome && !x.pending) then .uncleared else .pending := by
  rw [← C17_pending]
  cases hc : (extract cap rules r).cleared with
  | false => simp [Txn.withFragment, hc, Txn.destPosting, Txn.postClear, Txn.setClearState]
  | true =>
    have ha := extract_cleared_account cap r rules hc
    obtain ⟨a, ha⟩ := Option.isSome_iff_exists.mp ha
    simp [Txn.withFragment, hc, Txn.destPosting, Txn.postClear, Txn.destAccountOption, ht, ha]

/-! ## Part 4: the order of the fields inside one element (finding F14) -/

/-- **Kept visible, FALSE on the current code**: the outcome of one element does not depend on the
iteration order of its field map. -/
def C17_and_order : Prop :=
  ∀ (cap : Captures) (r : Record) (fs fs' : List (Field × String)) (cur : Fragment),
    fs.Perm fs' → andExtract cap r fs cur = andExtract cap r fs' cur

/-- a two-pattern "regex engine" for the witness -/
def witnessCap : Captures := fun pat hay =>
  if pat = "(?P<payee>Service) stations" then
    (if hay = "Service stations" then some ⟨some "Service", none⟩ else none)
  else if pat = "^Service$" then (if hay = "Service" then some {} else none)
  else none

/-- a Viseca record: payee `Europe Gas AT`, category `Service stations` -/
def witnessRec : Record := fun f =>
  match f with
  | .payee => .payee (some "Europe Gas AT")
  | .category => .text (some "Service stations") true
  | _ => .text none true

/-- F14: with the category field first its captured payee `Service` is what the payee field sees and the
element matches; with the payee field first it looks at `Europe Gas AT` and the element fails. -/
theorem C17_and_order_false : ¬ C17_and_order := by
  intro h
  have := h witnessCap witnessRec
    [(.category, "(?P<payee>Service) stations"), (.payee, "^Service$")]
    [(.payee, "^Service$"), (.category, "(?P<payee>Service) stations")] {} (List.Perm.swap _ _ _)
  revert this
  decide

/-- a way of reading a field that neither looks at the payee nor contributes capture groups -/
def inertKind (cap : Captures) (k : FieldKind) (pat : String) : Bool :=
  match k with
  | .payee _ => false
  | .text v keep => !keep || (match v.bind (cap pat) with | some m => m == {} | none => true)
  | .code _ => true

/-- a field that neither reads the payee nor contributes capture groups -/
def inertField (cap : Captures) (r : Record) (fp : Field × String) : Bool := inertKind cap (r fp.1) fp.2

private theorem addMatched_empty (cur : Fragment) : cur.addMatched {} = cur := by
  cases cur; simp [Fragment.addMatched]

private theorem inertKind_spec (k : FieldKind) (pat : String) (cur : Fragment) (h : inertKind cap k pat = true) :
    kindCaptures cap k pat cur = kindCaptures cap k pat {} ∧
    ∀ m, kindCaptures cap k pat {} = some m → m = {} := by
  cases k with
  | payee o => simp [inertKind] at h
  | code v =>
    cases v with
    | none => simp [kindCaptures]
    | some v => by_cases hv : v = pat <;> simp [kindCaptures, hv]
  | text v keep =>
    simp only [inertKind] at h
    cases hv : v.bind (cap pat) with
    | none => simp [kindCaptures, hv]
    | some m =>
      cases keep with
      | false => simp [kindCaptures, hv]
      | true =>
        simp only [hv, Bool.not_true, Bool.false_or, beq_iff_eq] at h
        subst h
        simp [kindCaptures, hv]

private theorem andExtract_cons (f : Field) (pat : String) (rest : List (Field × String)) (cur : Fragment) :
    andExtract cap r ((f, pat) :: rest) cur
      = (fieldCaptures cap r f pat cur).bind fun m => andExtract cap r rest (cur.addMatched m) := by
  simp only [andExtract]
  split <;> simp_all

private theorem inert_cons (fp : Field × String) (rest : List (Field × String)) (cur : Fragment)
    (h : inertField cap r fp = true) :
    andExtract cap r (fp :: rest) cur
      = if (fieldCaptures cap r fp.1 fp.2 {}).isSome then andExtract cap r rest cur else none := by
  obtain ⟨f, pat⟩ := fp
  obtain ⟨h1, h2⟩ := inertKind_spec cap (r f) pat cur h
  rw [andExtract_cons]
  simp only [fieldCaptures, h1]
  rcases Option.eq_none_or_eq_some (kindCaptures cap (r f) pat {}) with hk | ⟨m, hk⟩
  · simp [hk]
  · have := h2 m hk
    subst this
    simp [hk, addMatched_empty]

private theorem inert_swap (a b : Field × String) (l : List (Field × String)) (cur : Fragment)
    (h : inertField cap r a = true) :
    andExtract cap r (a :: b :: l) cur = andExtract cap r (b :: a :: l) cur := by
  rw [inert_cons cap r a _ _ h]
  obtain ⟨f, pat⟩ := b
  rw [andExtract_cons, andExtract_cons]
  cases fieldCaptures cap r f pat cur with
  | none => simp
  | some m => simp only [Option.bind_some]; rw [inert_cons cap r a _ _ h]

/-- **What is proved about field order**: if at most one field of the element reads the payee or
contributes capture groups, the outcome is the same for every iteration order.  (Always the case for the
CSV matcher, whose only capturing field is `payee` itself.) -/
theorem C17_and_order_partial (fs fs' : List (Field × String)) (cur : Fragment) (hperm : fs.Perm fs')
    (h : (fs.filter (fun fp => !inertField cap r fp)).length ≤ 1) :
    andExtract cap r fs cur = andExtract cap r fs' cur := by
  induction hperm generalizing cur with
  | nil => rfl
  | cons x _ ih =>
    obtain ⟨f, pat⟩ := x
    rw [andExtract_cons, andExtract_cons]
    cases fieldCaptures cap r f pat cur with
    | none => rfl
    | some m =>
      simp only [Option.bind_some]
      apply ih
      simp only [List.filter_cons] at h
      split at h
      · simp only [List.length_cons] at h; omega
      · exact h
  | swap x y l =>
    by_cases hy : inertField cap r y = true
    · exact inert_swap cap r y x l cur hy
    · have hx : inertField cap r x = true := by
        by_cases hx : inertField cap r x = true
        · exact hx
        · simp [hx, hy] at h
      exact (inert_swap cap r x y l cur hx).symm
  | trans p1 _ ih1 ih2 =>
    rw [ih1 cur h]
    apply ih2
    have := (p1.filter (fun fp => !inertField cap r fp)).length_eq
    omega

/-! ## Non-vacuity: concrete rules, a concrete record, a concrete "regex engine" -/

/-- three patterns decided by hand -/
def exCap : Captures := fun pat hay =>
  if pat = "Debit Card (?P<code>\\d+) (?P<payee>.*)" then
    (if hay = "Debit Card 1234 Migros" then some ⟨some "Migros", some "1234"⟩ else none)
  else if pat = "Migros" then (if hay = "Migros" ∨ hay = "Debit Card 1234 Migros" then some {} else none)
  else if pat = "Buy" then (if hay = "Buy" then some {} else none)
  else none

/-- a CSV record -/
def exRec : Record := fun f =>
  match f with
  | .payee => .payee (some "Debit Card 1234 Migros")
  | .category => .text (some "Groceries") false
  | _ => .text none true

def exRules : List Rule :=
  [ { matcher := Matcher.field ⟨[(Field.payee, "Debit Card (?P<code>\\d+) (?P<payee>.*)")]⟩ },
    { matcher := Matcher.or [⟨[(Field.category, "Buy")]⟩, ⟨[(Field.payee, "Migros")]⟩],
      account := some "Expenses:Grocery", pending := true },
    { matcher := Matcher.field ⟨[(Field.category, "Buy"), (Field.payee, "Migros")]⟩, account := some "Assets:Broker" } ]

-- rule 1 captures payee and code, rule 2 (second OR element) matches the *rewritten* payee and assigns the
-- account but is flagged pending, rule 3 fails on its category field: account set, not cleared
example : extract exCap exRules exRec
    = { cleared := false, payee := some "Migros", account := some "Expenses:Grocery", code := some "1234" } := by
  decide
example : matching exCap exRules exRec = exRules.take 2 := by decide
example : (matching exCap exRules exRec).any (fun x => x.account.isSome && !x.pending) = false := by decide
-- the hypotheses of C17_payee_code / C17_rule_step (`some` branch) are met by rule 1
example : orExtract exCap exRec (exRules[0]!).matcher.elements {}
    = some { payee := some "Migros", code := some "1234" } := by decide
-- C17_and_all: rule 3's element fails at its first field
example : andExtract exCap exRec [(Field.category, "Buy"), (Field.payee, "Migros")] {} = none := by decide
-- C17_and_order_partial: its hypothesis holds for that element (the category field of a CSV record is inert)
example : ([(Field.category, "Buy"), (Field.payee, "Migros")].filter
    (fun fp => !inertField exCap exRec fp)).length ≤ 1 := by decide
-- C17_unknown_account / C17_pending_mark on a concrete record: counter-posting `! Expenses:Grocery`
example :
    let t := (Txn.new ⟨2024, 1, 2⟩ "x" ⟨⟨true, 1250, 2⟩, "CHF"⟩).withFragment (extract exCap exRules exRec)
    (t.toDoubleEntry "Assets:Bank").map' (fun tr => tr.posts.map fun p => (p.account, p.clear))
      = .ok [("Expenses:Grocery", .pending), ("Assets:Bank", .uncleared)] := by decide
-- and with no rule at all: `! Income:Unknown` for a credit
example :
    let t := (Txn.new ⟨2024, 1, 2⟩ "x" ⟨⟨false, 1250, 2⟩, "CHF"⟩).withFragment (extract exCap [] exRec)
    (t.toDoubleEntry "Assets:Bank").map' (fun tr => tr.posts.map fun p => (p.account, p.clear))
      = .ok [("Assets:Bank", .uncleared), ("Income:Unknown", .pending)] := by decide

end Okane.Import

/-! ## The CSV importer with okane's own cell decoder: the rule theorems on one CSV row

The theorems above are about `extract` on an abstract record.  Here they are instantiated for the CSV importer model
(`Model/ImportCsv.lean`) run with the model of okane's number-cell decoder (`Cells.cellEnv`, `Lemmas/ImportCsvCellsUse.lean`):
the record the rules look at is (payee, category, secondary commodity) as the field map extracts them from the row, and the
verdict reaches the transaction and the tree unchanged — whatever the number cells, the conversion block and the charge do. -/
namespace Okane.Import
open Okane Okane.Import.Cells

/-- **C17_csv_row.**  For every row the CSV importer model accepts (okane's own number decoder; every date decoder, regex
engine, configuration, field map): with `r` the record as the CSV matchers see it and `ms` the rules of the configuration
that match it (`matching`, each rule looking at the payee as rewritten by its predecessors),
* the counter-account of the transaction is the `account` of the last rule of `ms` that has one (`C17_account`);
* the transaction is left cleared iff some rule of `ms` assigns an account and is not flagged `pending` (`C17_pending`),
  otherwise it is marked pending;
* payee and code are the ones the rule fold produced (`C17_fold`, `C17_payee_code`), the payee falling back to the cell's;
* in the tree `to_double_entry` builds, the counter-posting — first posting for a negative amount, last otherwise — goes to
  that account, or to `Expenses:Unknown` / `Income:Unknown` by the sign flag of the amount (which is the amount WRITTEN in
  the cell under the importer's sign rule, `AmountWritten`), and carries `!` unless the record is cleared. -/
theorem C17_csv_row (pd : String → Option Date) (cap : Captures) (cfg : CsvCfg) (fm : FieldMap) (rec : List String)
    (v : RowValues) (txn : Txn) (i : Bool)
    (hrow : readRow (cellEnv pd cap) cfg fm rec = .ok (some v))
    (hb : buildTxn (cellEnv pd cap) cfg fm rec v = .ok (txn, i)) :
    let r := csvRecord v.payee v.category v.secondaryCommodity
    let ms := matching cap cfg.rewrite r
    let cleared := ms.any (fun x => x.account.isSome && !x.pending)
    (fm.extract .payee rec = .ok (some v.payee) ∧ fm.extract .category rec = .ok v.category ∧
      fm.extract .secondaryCommodity rec = .ok v.secondaryCommodity) ∧
    txn.destAccount = ms.reverse.findSome? (·.account) ∧
    txn.clearState = (if cleared then none else some .pending) ∧
    txn.payee = (extract cap cfg.rewrite r).payee.getD v.payee ∧ txn.code = (extract cap cfg.rewrite r).code ∧
    AmountWritten fm cfg.accountType rec v.amount ∧
    ∃ tr p, txn.toDoubleEntry cfg.account = .ok tr ∧
      tr.payee = (extract cap cfg.rewrite r).payee.getD v.payee ∧ tr.code = (extract cap cfg.rewrite r).code ∧
      (if v.amount.neg then tr.posts.head? else tr.posts.getLast?) = some p ∧
      p.account = (ms.reverse.findSome? (·.account)).getD (if v.amount.neg then "Expenses:Unknown" else "Income:Unknown") ∧
      p.clear = (if cleared then .uncleared else .pending) := by
  intro r ms cleared
  obtain ⟨_, _, _, _, hp, hc, hs⟩ := readRow_cells pd cap cfg fm rec v hrow
  obtain ⟨h1, h2, h3, h4, _, _, h7⟩ := csvRow_rules _ cfg fm rec v txn i hb
  have hamt := (amount_written pd cap fm cfg.accountType rec v.amount (CellsUse.readRow_amount _ cfg fm rec v hrow)).1
  have hfrag : rowFragment (cellEnv pd cap) cfg v = extract cap cfg.rewrite r := rfl
  rw [hfrag] at h1 h2 h3 h4
  have hacc : (extract cap cfg.rewrite r).account = ms.reverse.findSome? (·.account) := C17_account cap r cfg.rewrite
  have hcl : (extract cap cfg.rewrite r).cleared = cleared := C17_pending cap r cfg.rewrite
  rw [hacc] at h3
  rw [hcl] at h4
  refine ⟨⟨hp, hc, hs⟩, h3, h4, h1, h2, hamt, ?_⟩
  have hneg : txn.amount.value.neg = v.amount.neg := by rw [h7]
  -- the counter-posting's mark
  have hclear : txn.postClear = (if cleared then ClearState.uncleared else .pending) := by
    unfold Txn.postClear
    rw [h4]
    cases hcv : cleared with
    | false => simp
    | true =>
      have hsome := extract_cleared_account cap r cfg.rewrite (by rw [hcl]; exact hcv)
      rw [hacc, ← h3] at hsome
      obtain ⟨a, ha⟩ := Option.isSome_iff_exists.mp hsome
      simp [ha]
  cases hn : v.amount.neg with
  | false =>
    rw [hn] at hneg
    refine ⟨_, txn.destPosting "Income:Unknown",
      by simp [Txn.toDoubleEntry, Txn.postings, Dec.isSignPositive, hneg]; rfl, h1, h2, ?_, ?_, ?_⟩
    · simp only [Bool.false_eq_true, if_false]
      rw [← List.cons_append]
      exact List.getLast?_concat
    · simp [Txn.destPosting, h3]
    · simp only [Txn.destPosting, hclear]
  | true =>
    rw [hn] at hneg
    refine ⟨_, txn.destPosting "Expenses:Unknown",
      by simp [Txn.toDoubleEntry, Txn.postings, Dec.isSignPositive, Dec.isSignNegative, hneg]; rfl, h1, h2, ?_, ?_, ?_⟩
    · simp
    · simp [Txn.destPosting, h3]
    · simp only [Txn.destPosting, hclear]

/-- **C17_csv_import.**  The same for a whole CSV file: every transaction `csv::import` hands over (model with okane's own
decoder) is the transaction of one record of the file, and `C17_csv_row` applies to it. -/
theorem C17_csv_import (pd : String → Option Date) (cap : Captures) (cfg : CsvCfg) (header : List String)
    (records : List (List String)) (txns : List Txn)
    (himp : csvImport (cellEnv pd cap) cfg header records = .ok txns) :
    ∃ fm, FieldMap.tryNew cfg.fields header = .ok fm ∧
      ∀ t ∈ txns, ∃ rec ∈ records, ∃ v i, readRow (cellEnv pd cap) cfg fm rec = .ok (some v) ∧
        buildTxn (cellEnv pd cap) cfg fm rec v = .ok (t, i) ∧
        t.destAccount = (matching cap cfg.rewrite (csvRecord v.payee v.category v.secondaryCommodity)).reverse.findSome?
          (·.account) ∧
        t.clearState = (if (matching cap cfg.rewrite (csvRecord v.payee v.category v.secondaryCommodity)).any
          (fun x => x.account.isSome && !x.pending) then none else some .pending) := by
  obtain ⟨fm, hfm, hmem⟩ := csvImport_mem _ cfg header records txns himp
  refine ⟨fm, hfm, ?_⟩
  intro t ht
  obtain ⟨rec, hrec, v, i, hrow, hb⟩ := hmem t ht
  have h := C17_csv_row pd cap cfg fm rec v t i hrow hb
  simp only at h
  exact ⟨rec, hrec, v, i, hrow, hb, h.2.1, h.2.2.1⟩

/-! ### non-vacuity: the statement of `Lemmas/ImportCsvCellsUse.lean` (amount cells `-$1,234.50` and `-50.00`; one rule
`payee ~ shop → Expenses:Shop`) -/

-- row 1 (`shop`, `-$1,234.50`): the rule matches, the record is cleared, the counter-posting is `Expenses:Shop` without mark
example : matching exCsvCap exCsvCfg.rewrite (csvRecord exCsvRow1.payee exCsvRow1.category exCsvRow1.secondaryCommodity)
    = exCsvCfg.rewrite := by decide
example := C17_csv_row exCsvDates exCsvCap exCsvCfg exCsvFm exCsvRec1 exCsvRow1 exCsvTxn1 false exCsv_row1 exCsv_txn1
example : (exCsvTxn1.toDoubleEntry "Assets:Bank").map' (fun tr => tr.posts.map fun p => (p.account, p.clear))
    = .ok [("Expenses:Shop", .uncleared), ("Expenses:Commissions", .uncleared), ("Assets:Bank", .uncleared)] := by decide
-- row 2 (`fx`, `-50.00`, converted): no rule matches, `! Expenses:Unknown`
example : matching exCsvCap exCsvCfg.rewrite (csvRecord exCsvRow2.payee exCsvRow2.category exCsvRow2.secondaryCommodity)
    = [] := by decide
example := C17_csv_row exCsvDates exCsvCap exCsvCfg exCsvFm exCsvRec2 exCsvRow2 exCsvTxn2 false exCsv_row2 exCsv_txn2
example : (exCsvTxn2.toDoubleEntry "Assets:Bank").map' (fun tr => tr.posts.map fun p => (p.account, p.clear))
    = .ok [("Expenses:Unknown", .pending), ("Assets:Bank", .uncleared)] := by decide
example := C17_csv_import exCsvDates exCsvCap exCsvCfg exCsvHeader [exCsvRec1, exCsvRec2] [exCsvTxn1, exCsvTxn2] exCsv_import

end Okane.Import
