import Okane.Lemmas.Process
/-!
# Process-level statements of C01 / C04: the theorems about one resolved transaction, lifted to
`Okane.process` over a whole list of syntax entries (every history).
-/
set_option linter.unusedSectionVars false
namespace Okane
open Spec

/-- **C04_raw**: after processing any accepted ledger, every account's raw balance is, per commodity, the sum of the
amounts of all postings to it (so the whole-history balance report is the sum of the register), and no account
holds a zero entry. -/
theorem C04_raw (es : List Entry) (st : ProcState) (h : process es = .ok st) (a c : String) :
    Amount.getPart (Balance.get st.bal a) c = ledgerSum st.txns a c ∧ Amount.NoZero (Balance.get st.bal a) := by
  have := RawOK_processFrom es {} st 0 h RawOK_init
  exact ⟨this.2 a c, (this.1 a).2⟩

/-- every transaction of an accepted ledger was accepted by `addTransaction` on some resolution of its postings -/
theorem processFrom_txn_accepted (es : List Entry) (st st' : ProcState) (i : Nat)
    (h : processFrom st i es = .ok st') :
    ∀ t, Entry.txn t ∈ es → ∃ (prec : String → Option Nat) (bal : Balance String String)
        (rps : List (RPosting String String)) (r : TxnResult String String),
      rps.length = t.posts.length ∧ addTransaction prec bal ⟨t.date, rps⟩ = .ok r := by
  induction es generalizing st i with
  | nil => intro t ht; simp at ht
  | cons e es ih =>
    intro t ht
    simp only [processFrom] at h
    cases hs : stepEntry st e with
    | ok st1 =>
      rw [hs] at h
      simp only [List.mem_cons] at ht
      rcases ht with rfl | ht
      · simp only [stepEntry] at hs
        cases ha : addTransactionSyntax st.ctx st.bal t with
        | ok x =>
          obtain ⟨c', r⟩ := x
          obtain ⟨rps, hlen, hcore, _⟩ := addTransactionSyntax_core st.ctx c' st.bal t r ha
          exact ⟨st.ctx.prec, st.bal, rps, r, hlen, hcore⟩
        | err x => rw [ha] at hs; simp at hs
        | panic x => rw [ha] at hs; simp at hs
        | fuelOut => rw [ha] at hs; simp at hs
      · exact ih st1 (i + 1) h t ht
    | err x => rw [hs] at h; simp at h
    | panic x => rw [hs] at h; simp at h
    | fuelOut => rw [hs] at h; simp at h

/-- **C01_history**: in an accepted ledger *every* transaction, after whatever history precedes it, is balanced
in the sense of the property (for the precisions declared up to that point). -/
theorem C01_history (es : List Entry) (st : ProcState) (h : process es = .ok st) (t : Transaction)
    (ht : Entry.txn t ∈ es) :
    ∃ (prec : String → Option Nat) (rt : RTxn String String) (outs : List (Amount String)),
      rt.date = t.date ∧ rt.posts.length = t.posts.length ∧ Spec.Balanced prec rt outs := by
  obtain ⟨prec, bal, rps, r, hlen, hok⟩ := processFrom_txn_accepted es {} st 0 h t ht
  exact ⟨prec, ⟨t.date, rps⟩, _, rfl, hlen, C01_sound prec bal ⟨t.date, rps⟩ r hok⟩

/-- **C01_named**: when processing fails, the error carries the index of the offending entry: every entry before it
was processed successfully and it is that entry's step that failed. -/
theorem C01_named (es : List Entry) (st : ProcState) (i j : Nat) (e : BkErrS)
    (h : processFrom st i es = .err (j, e)) :
    ∃ k, j = i + k ∧ k < es.length ∧
      ∃ stk, processFrom st i (es.take k) = .ok stk ∧ stepEntry stk es[k]! = .err e := by
  induction es generalizing st i with
  | nil => simp [processFrom] at h
  | cons x es ih =>
    simp only [processFrom] at h
    cases hs : stepEntry st x with
    | ok st1 =>
      rw [hs] at h
      obtain ⟨k, hj, hk, stk, htake, hstep⟩ := ih st1 (i + 1) h
      refine ⟨k + 1, by omega, by simp; omega, stk, ?_, ?_⟩
      · simp [List.take_succ_cons, processFrom, hs, htake]
      · simpa using hstep
    | err y =>
      rw [hs] at h
      simp only [Outcome.err.injEq, Prod.mk.injEq] at h
      exact ⟨0, by omega, by simp, st, by simp [processFrom], by simpa [h.2] using hs⟩
    | panic y => rw [hs] at h; simp at h
    | fuelOut => rw [hs] at h; simp at h

end Okane
