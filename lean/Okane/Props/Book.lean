import Okane.Lemmas.Process
/-!
# Process-level statements of C01 / C04: the theorems about one resolved transaction, lifted to
`Okane.process` over a whole list of syntax entries (every history).
-/
set_option linter.unusedSectionVars false
namespace Okane
open Spec

/-- **C04_raw**: after processing any accepted ledger, every account's raw balance is, per commodity, the sum of the
amounts of all postings to it (so the whole-history balance report is the sum of the register), and no account
holds a zero entry. -/
theorem C04_raw (es : List Entry) (st : ProcState) (h : process es = .ok st) (a c : String) :
    Amount.getPart (Balance.get st.bal a) c = ledgerSum st.txns a c ∧ Amount.NoZero (Balance.get st.bal a) := by
  have := RawOK_processFrom es {} st 0 h RawOK_init
  exact ⟨this.2 a c, (this.1 a).2⟩

/-- every transaction of an accepted ledger was accepted by `addTransaction` on some resolution of its postings -/
theorem processFrom_txn_accepted (es : List Entry) (st st' : ProcState) (i : Nat)
    (h : processFrom st i es = .ok st') :
    ∀ t, Entry.txn t ∈ es → ∃ (prec : String → Option Nat) (bal : Balance String String)
        (rps : List (RPosting String String)) (r : TxnResult String String),
      rps.length = t.posts.length ∧ addTransaction prec bal ⟨t.date, rps⟩ = .ok r := by
  induction es generalizing st i with
  | nil => intro t ht; simp at ht
  | cons e es ih =>
    intro t ht
    simp only [processFrom] at h
    cases hs : stepEntry st e with
    | ok st1 =>
      rw [hs] at h
      simp only [List.mem_cons] at ht
      rcases ht with rfl | ht
      · simp only [stepEntry] at hs
        cases ha : addTransactionSyntax st.ctx st.bal t with
        | ok x =>
          obtain ⟨c', r⟩ := x
          obtain ⟨rps, hlen, hcore, _⟩ := addTransactionSyntax_core st.ctx c' st.bal t r ha
          exact ⟨st.ctx.prec, st.bal, rps, r, hlen, hcore⟩
        | err x => rw [ha] at hs; simp at hs
        | panic x => rw [ha] at hs; simp at hs
        | fuelOut => rw [ha] at hs; simp at hs
      · exact ih st1 (i + 1) h t ht
    | err x => rw [hs] at h; simp at h
    | panic x => rw [hs] at h; simp at h
    | fuelOut => rw [hs] at h; simp at h

/-- **C01_history**: in an accepted ledger *every* transaction, after whatever history precedes it, is balanced
in the sense of the property (for the precisions declared up to that point). -/
theorem C01_history (es : List Entry) (st : ProcState) (h : process es = .ok st) (t : Transaction)
    (ht : Entry.txn t ∈ es) :
    ∃ (prec : String → Option Nat) (rt : RTxn String String) (outs : List (Amount String)),
      rt.date = t.date ∧ rt.posts.length = t.posts.length ∧ Spec.Balanced prec rt outs := by
  obtain ⟨prec, bal, rps, r, hlen, hok⟩ := processFrom_txn_accepted es {} st 0 h t ht
  exact ⟨prec, ⟨t.date, rps⟩, _, rfl, hlen, C01_sound prec bal ⟨t.date, rps⟩ r hok⟩

/-- **C01_named**: when processing fails, the error carries the index of the offending entry: every entry before it
was processed successfully and it is that entry's step that failed. -/
theorem C01_named (es : List Entry) (st : ProcState) (i j : Nat) (e : BkErrS)
    (h : processFrom st i es = .err (j, e)) :
    ∃ k, j = i + k ∧ k < es.length ∧
      ∃ stk, processFrom st i (es.take k) = .ok stk ∧ stepEntry stk es[k]! = .err e := by
  induction es generalizing st i with
  | nil => simp [processFrom] at h
  | cons x es ih =>
    simp only [processFrom] at h
    cases hs : stepEntry st x with
    | ok st1 =>
      rw [hs] at h
      obtain ⟨k, hj, hk, stk, htake, hstep⟩ := ih st1 (i + 1) h
      refine ⟨k + 1, by omega, by simp; omega, stk, ?_, ?_⟩
      · simp [List.take_succ_cons, processFrom, hs, htake]
      · simpa using hstep
    | err y =>
      rw [hs] at h
      simp only [Outcome.err.injEq, Prod.mk.injEq] at h
      exact ⟨0, by omega, by simp, st, by simp [processFrom], by simpa [h.2] using hs⟩
    | panic y => rw [hs] at h; simp at h
    | fuelOut => rw [hs] at h; simp at h

end Okane

namespace Okane
open Spec

/-! ## well-formedness of what `process` emits, and agreement of the three reports -/

/-- every posting amount of an accepted transaction has unique keys -/
theorem txn_postings_WF {α κ : Type} [DecidableEq α] [DecidableEq κ]
    (prec : κ → Option Nat) (bal : Balance α κ) (t : RTxn α κ) (res : TxnResult α κ)
    (h : addTransaction prec bal t = .ok res) (hinv : Balance.Inv bal) :
    ∀ o ∈ res.txn.postings, AMap.WF o.amount := by
  rw [addTransaction_eq_finish] at h
  cases hloop : loopPostings t.date ⟨[], none, [], bal, [], []⟩ 0 t.posts with
  | ok st =>
    rw [hloop] at h
    simp only at h
    obtain ⟨_, outs, hp, hwfs, _⟩ := C02_invariant t.date t.posts _ st 0 hloop hinv
    simp only [List.nil_append] at hp
    have hbal := BalOK_loop t.date t.posts _ st 0 hloop (BalOK_init bal)
    unfold finishG at h
    cases hu : st.unfilled with
    | some u =>
      simp only [hu] at h
      cases hg : st.postings[u]? with
      | none => simp [hg] at h
      | some o0 =>
        simp only [hg, Option.map_some, Outcome.ok.injEq] at h
        subst h
        intro o ho
        simp only at ho
        rw [List.mem_iff_getElem?] at ho
        obtain ⟨j, hj⟩ := ho
        rw [List.getElem?_modify] at hj
        by_cases hju : u = j
        · subst hju
          simp only [hg, if_true] at hj
          simp only [Functor.map, Option.map, Option.some.injEq] at hj
          rw [← hj]; exact Amount.WF_neg _ hbal.1
        · simp only [hju, if_false] at hj
          have hj' : st.postings[j]? = some o := by
            cases hq : st.postings[j]? with
            | none => simp [hq, Functor.map, Option.map] at hj
            | some q => simp [hq, Functor.map, Option.map] at hj; rw [hj]
          exact hwfs o (by rw [← hp]; exact List.mem_of_getElem? hj')
    | none =>
      simp only [hu] at h
      cases hcb : checkBalance prec t.date st.postings st.balance with
      | ok r =>
        obtain ⟨postings, pe⟩ := r
        rw [hcb] at h
        simp only [Outcome.ok.injEq] at h; subst h
        unfold checkBalance at hcb
        simp only at hcb
        intro o ho
        simp only at ho
        split at hcb
        · simp only [Outcome.ok.injEq, Prod.mk.injEq] at hcb
          rw [← hcb.1, hp] at ho; exact hwfs o ho
        · split at hcb
          · simp only [Outcome.ok.injEq, Prod.mk.injEq] at hcb
            rw [← hcb.1, hp, List.mem_map] at ho
            obtain ⟨o', ho', he⟩ := ho
            rw [← he, fillConverted_amount]; exact hwfs o' ho'
          · simp at hcb
      | err e => rw [hcb] at h; simp at h
      | panic e => rw [hcb] at h; simp at h
      | fuelOut => rw [hcb] at h; simp at h
  | err e => rw [hloop] at h; simp at h
  | panic e => rw [hloop] at h; simp at h
  | fuelOut => rw [hloop] at h; simp at h

theorem PostingsWF_append {α κ : Type} [DecidableEq α] [DecidableEq κ] (txns : List (OutTxn α κ)) (t : OutTxn α κ)
    (h : PostingsWF txns) (ht : ∀ o ∈ t.postings, AMap.WF o.amount) : PostingsWF (txns ++ [t]) := by
  intro dp hdp
  simp only [allPostings, List.flatMap_append, List.flatMap_cons, List.flatMap_nil, List.append_nil, List.mem_append,
    List.mem_map] at hdp
  rcases hdp with hdp | ⟨o, ho, rfl⟩
  · exact h dp (by simpa [allPostings] using hdp)
  · exact ht o ho

theorem processFrom_PostingsWF (es : List Entry) (st st' : ProcState) (i : Nat)
    (h : processFrom st i es = .ok st') (hr : st.RawOK) (hw : PostingsWF st.txns) : PostingsWF st'.txns := by
  induction es generalizing st i with
  | nil => simp only [processFrom, Outcome.ok.injEq] at h; subst h; exact hw
  | cons e es ih =>
    simp only [processFrom] at h
    cases hs : stepEntry st e with
    | ok st1 =>
      rw [hs] at h
      refine ih st1 (i + 1) h (RawOK_step st st1 e hs hr) ?_
      cases e with
      | txn t =>
        simp only [stepEntry] at hs
        cases ha : addTransactionSyntax st.ctx st.bal t with
        | ok x =>
          obtain ⟨c', r⟩ := x
          rw [ha] at hs
          simp only [Outcome.ok.injEq] at hs
          subst hs
          obtain ⟨rps, _, hcore, _⟩ := addTransactionSyntax_core st.ctx c' st.bal t r ha
          exact PostingsWF_append _ _ hw (txn_postings_WF st.ctx.prec st.bal ⟨t.date, rps⟩ r hcore hr.1)
        | err x => rw [ha] at hs; simp at hs
        | panic x => rw [ha] at hs; simp at hs
        | fuelOut => rw [ha] at hs; simp at hs
      | account name details =>
        simp only [stepEntry] at hs
        split at hs
        · split at hs
          · simp only [Outcome.ok.injEq] at hs; subst hs; exact hw
          all_goals simp at hs
        all_goals simp at hs
      | commodity name details =>
        simp only [stepEntry] at hs
        split at hs
        · split at hs
          · simp only [Outcome.ok.injEq] at hs; subst hs; exact hw
          all_goals simp at hs
        all_goals simp at hs
      | comment s => simp only [stepEntry, Outcome.ok.injEq] at hs; subst hs; exact hw
      | applyTag k v => simp only [stepEntry, Outcome.ok.injEq] at hs; subst hs; exact hw
      | endApplyTag => simp only [stepEntry, Outcome.ok.injEq] at hs; subst hs; exact hw
      | «include» p => simp only [stepEntry, Outcome.ok.injEq] at hs; subst hs; exact hw
    | err x => rw [hs] at h; simp at h
    | panic x => rw [hs] at h; simp at h
    | fuelOut => rw [hs] at h; simp at h

theorem selSum_all (txns : List (OutTxn String String)) (a c : String) :
    selSum (allPostings txns) (fun _ => true) a c = ledgerSum txns a c := by
  induction txns with
  | nil => simp [selSum, allPostings, ledgerSum]
  | cons t ts ih =>
    simp only [selSum, allPostings, List.flatMap_cons, List.map_append, List.sum_append, ledgerSum, List.map_cons,
      List.sum_cons] at ih ⊢
    rw [ih]
    congr 1
    simp [acctSum, List.map_map, Function.comp_def]

/-- **C04_agree**: for every accepted ledger the whole-history balance, the balance recomputed over the unbounded
range and (per account) the sum of the register agree, value by value. -/
theorem C04_agree (es : List Entry) (st : ProcState) (h : process es = .ok st) (a c : String) :
    Amount.getPart (Balance.get (rangeBalanceRaw st.txns ⟨none, none⟩) a) c = Amount.getPart (Balance.get st.bal a) c ∧
    Amount.getPart (Balance.get st.bal a) c = ledgerSum st.txns a c := by
  have hw := processFrom_PostingsWF es {} st 0 h RawOK_init (by intro dp hdp; simp [allPostings] at hdp)
  have hraw := (C04_raw es st h a c).1
  refine ⟨?_, hraw⟩
  rw [(C04_range st.txns ⟨none, none⟩ hw a c).1, hraw]
  have : (DateRange.contains ⟨none, none⟩) = fun _ => true := by funext d; simp [DateRange.contains]
  rw [this, selSum_all]

/-- **C04_range / C04_additive for `process`**: no side condition is left. -/
theorem C04_additive_process (es : List Entry) (st : ProcState) (h : process es = .ok st)
    (s e : Option Date) (m : Date) (hsm : ∀ s', s = some s' → s' ≤ m) (hme : ∀ e', e = some e' → m ≤ e') (a c : String) :
    Amount.getPart (Balance.get (rangeBalanceRaw st.txns ⟨s, e⟩) a) c =
      Amount.getPart (Balance.get (rangeBalanceRaw st.txns ⟨s, some m⟩) a) c +
      Amount.getPart (Balance.get (rangeBalanceRaw st.txns ⟨some m, e⟩) a) c :=
  C04_additive st.txns s e m hsm hme
    (processFrom_PostingsWF es {} st 0 h RawOK_init (by intro dp hdp; simp [allPostings] at hdp)) a c

end Okane
